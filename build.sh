#!/bin/bash
# Rebuilds bin/vcheck against /repo's CURRENT working tree (module replace => /repo)
# and places the working tree's std library next to the binary.
set -e
. "$(dirname "$0")/env.sh"
cd "$VERIF_ROOT/engine"
cp /repo/go.sum ./go.sum
go build -o "$VERIF_ROOT/bin/vcheck" ./cmd/vcheck
rm -rf "$VERIF_ROOT/bin/std"
mkdir -p "$VERIF_ROOT/bin/std"
cp /repo/std/*.tsh "$VERIF_ROOT/bin/std/"

#!/bin/bash
# Rebuilds bin/vcheck against /repo's CURRENT working tree (module replace => /repo)
# and places the working tree's std library next to the binary.
set -e
. "$(dirname "$0")/env.sh"
REPO="${VERIF_REPO:-/repo}"
cd "$VERIF_ROOT/engine"
cp "$REPO/go.sum" ./go.sum
if [ "$REPO" = /repo ]; then
  go build -o "$VERIF_ROOT/bin/vcheck" ./cmd/vcheck
else
  # a repository copy elsewhere (mutant demonstrations): same engine, other replace target
  sed "s#=> /repo#=> $REPO#" go.mod > "$VERIF_ROOT/.cache/go.alt.mod"; cp "$REPO/go.sum" "$VERIF_ROOT/.cache/go.alt.sum"
  go build -modfile="$VERIF_ROOT/.cache/go.alt.mod" -o "$VERIF_ROOT/bin/vcheck" ./cmd/vcheck
fi
# refresh the std copy in place (a concurrently running check must never see it missing)
mkdir -p "$VERIF_ROOT/bin/std"
for f in "$REPO"/std/*.tsh; do cmp -s "$f" "$VERIF_ROOT/bin/std/$(basename "$f")" || cp -f "$f" "$VERIF_ROOT/bin/std/"; done
for f in "$VERIF_ROOT"/bin/std/*.tsh; do [ -e "$REPO/std/$(basename "$f")" ] || rm -f "$f"; done

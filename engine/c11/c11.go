// Package c11 decides property C11 (tokenisation is faithful) by bounded-
// exhaustive enumeration of source texts:
//
//	(G) all sequences of <= 2 (quick) / <= 3 (thorough) lexemes over the complete
//	    token vocabulary x every legal separator,
//	(B) all strings of <= 5 / <= 6 symbols over a 16-symbol class alphabet,
//	(S) all string-literal bodies of <= 2 / <= 3 atoms over printable ASCII,
//	    escapes and two UTF-8 runes, as interpreted and as raw literal.
//
// Implementation under test: lexer.Tokenize of /repo (linked in-process).
// Oracle: the independent reference lexer verif/reflex (three-valued); for (G)
// additionally the generating token list itself.
package c11

import (
	"fmt"
	"os"
	"sort"
	"strings"
	"sync"
	"sync/atomic"
	"time"
	"unicode/utf8"

	"github.com/monstermichl/typeshell/lexer"

	"verif/drive"
	"verif/findings"
	"verif/reflex"
)

// ------------------------------------------------------------ implementation

// typeMap relates the repository's token types to the reference enum by NAME
// (explicitly, so a renumbering of either enum cannot go unnoticed).
var typeMap = map[lexer.TokenType]reflex.Type{
	lexer.UNKNOWN: reflex.Unknown, lexer.COMMENT: reflex.Comment,
	lexer.OPENING_ROUND_BRACKET: reflex.OpeningRoundBracket, lexer.CLOSING_ROUND_BRACKET: reflex.ClosingRoundBracket,
	lexer.OPENING_SQUARE_BRACKET: reflex.OpeningSquareBracket, lexer.CLOSING_SQUARE_BRACKET: reflex.ClosingSquareBracket,
	lexer.OPENING_CURLY_BRACKET: reflex.OpeningCurlyBracket, lexer.CLOSING_CURLY_BRACKET: reflex.ClosingCurlyBracket,
	lexer.ASSIGN_OPERATOR: reflex.AssignOperator, lexer.COMPOUND_ASSIGN_OPERATOR: reflex.CompoundAssignOperator,
	lexer.UNARY_OPERATOR: reflex.UnaryOperator, lexer.BINARY_OPERATOR: reflex.BinaryOperator,
	lexer.COMPARE_OPERATOR: reflex.CompareOperator, lexer.LOGICAL_OPERATOR: reflex.LogicalOperator,
	lexer.SHORT_INIT_OPERATOR: reflex.ShortInitOperator, lexer.INCREMENT_OPERATOR: reflex.IncrementOperator,
	lexer.DECREMENT_OPERATOR: reflex.DecrementOperator, lexer.BOOL_LITERAL: reflex.BoolLiteral,
	lexer.NUMBER_LITERAL: reflex.NumberLiteral, lexer.STRING_LITERAL: reflex.StringLiteral,
	lexer.NIL_LITERAL: reflex.NilLiteral, lexer.DATA_TYPE: reflex.DataType, lexer.COMMA: reflex.Comma,
	lexer.COLON: reflex.Colon, lexer.SEMICOLON: reflex.Semicolon, lexer.DOT: reflex.Dot, lexer.SPACE: reflex.Space,
	lexer.NEWLINE: reflex.Newline, lexer.IDENTIFIER: reflex.Identifier, lexer.IMPORT: reflex.Import,
	lexer.VAR_DEFINITION: reflex.VarDefinition, lexer.FUNCTION_DEFINITION: reflex.FunctionDefinition,
	lexer.RETURN: reflex.Return, lexer.IF: reflex.If, lexer.ELSE: reflex.Else, lexer.SWITCH: reflex.Switch,
	lexer.CASE: reflex.Case, lexer.DEFAULT: reflex.Default, lexer.FOR: reflex.For, lexer.RANGE: reflex.Range,
	lexer.BREAK: reflex.Break, lexer.CONTINUE: reflex.Continue, lexer.LEN: reflex.Len, lexer.PRINT: reflex.Print,
	lexer.INPUT: reflex.Input, lexer.COPY: reflex.Copy, lexer.ITOA: reflex.Itoa, lexer.EXISTS: reflex.Exists,
	lexer.READ: reflex.Read, lexer.WRITE: reflex.Write, lexer.PANIC: reflex.Panic, lexer.AT: reflex.At,
	lexer.PIPE: reflex.Pipe, lexer.EOF: reflex.EOF,
}

var revTypeMap = func() map[reflex.Type]lexer.TokenType {
	m := map[reflex.Type]lexer.TokenType{}
	for k, v := range typeMap {
		m[v] = k
	}
	return m
}()

type itok struct {
	typ      reflex.Type
	val      string
	row, col int
}

type implResult struct {
	toks  []itok // without the trailing EOF
	err   bool
	panic string
}

// inFlight records what every goroutine is currently feeding to Tokenize, so
// that a call that never returns (a non-terminating scanner loop — totality is
// property C13's business) stops the run with a diagnosis instead of hanging it
// while memory fills up. This is a resource backstop, never a verdict.
var inFlight sync.Map // *flight -> struct{}

type flight struct {
	src   string
	since time.Time
}

const stallLimit = 5 * time.Minute

func watchdog() {
	for {
		time.Sleep(5 * time.Second)
		inFlight.Range(func(k, _ interface{}) bool {
			f := k.(*flight)
			if time.Since(f.since) > stallLimit {
				fmt.Fprintf(os.Stderr, "HARNESS ERROR: lexer.Tokenize has not returned for %v on input %q; the check cannot decide anything (non-termination belongs to C13)\n", stallLimit, f.src)
				drive.Cleanup()
				os.Exit(2)
			}
			return true
		})
	}
}

func implLex(src string) (res implResult) {
	f := &flight{src: src, since: time.Now()}
	inFlight.Store(f, struct{}{})
	defer inFlight.Delete(f)
	defer func() {
		if r := recover(); r != nil {
			res = implResult{panic: fmt.Sprint(r)}
		}
	}()
	ts, err := lexer.Tokenize(src)
	res.err = err != nil
	for i, t := range ts {
		if i == len(ts)-1 && t.Type() == lexer.EOF {
			break // the property does not speak about an end marker
		}
		rt, ok := typeMap[t.Type()]
		if !ok {
			rt = reflex.Type(1000 + int(t.Type()))
		}
		res.toks = append(res.toks, itok{rt, t.Value(), t.Row(), t.Column()})
	}
	return res
}

// --------------------------------------------------------------------- judge

const (
	agreeTokens = "agree-tokens"
	agreeError  = "agree-error"
)

// judge classifies one input: "skip:<reason>" (unspecified), agree-*, or a symptom.
func judge(src string) (outcome string, ref reflex.Result, impl implResult) {
	ref = reflex.Lex(src)
	// '-' glued to a digit after an operand (a -1, a-1) is read as Go reads it: operator + literal.
	if !ref.OnlyUnspec(reflex.UMinusDigitAfterOperand) {
		return "skip:" + ref.Unspec[0], ref, impl
	}
	impl = implLex(src)
	return compare(ref, impl), ref, impl
}

func compare(ref reflex.Result, impl implResult) string {
	if impl.panic != "" {
		return "panic"
	}
	if ref.Err != "" {
		if impl.err {
			return agreeError
		}
		return "error-missing"
	}
	if impl.err {
		return "error-spurious"
	}
	want := ref.Tokens()
	got := impl.toks
	count := func() string {
		if len(got) < len(want) {
			return "merged" // fewer tokens than the grammar has: lexemes fused or swallowed
		}
		return "split"
	}
	for i := 0; i < len(want) && i < len(got); i++ {
		w, g := want[i], got[i]
		if w.Type != g.typ || w.Value != g.val {
			if len(got) != len(want) {
				return count()
			}
			if w.Type != g.typ {
				return "type"
			}
			return "value"
		}
		if w.Row != g.row {
			return "row"
		}
		if w.Col != g.col {
			return "column"
		}
	}
	if len(got) != len(want) {
		return count()
	}
	return agreeTokens
}

func isSymptom(o string) bool {
	return o != agreeTokens && o != agreeError && !strings.HasPrefix(o, "skip:")
}

// --------------------------------------------------------------- key classes

var reserved = func() []string {
	ws := []string{}
	for w := range reflex.Words {
		ws = append(ws, w)
	}
	sort.Slice(ws, func(i, j int) bool {
		if len(ws[i]) != len(ws[j]) {
			return len(ws[i]) > len(ws[j])
		}
		return ws[i] < ws[j]
	})
	return ws
}()

func bracket(name string, feats []string) string {
	if len(feats) == 0 {
		return name
	}
	return name + "[" + strings.Join(feats, "+") + "]"
}

// fineClass is the lexeme class finding keys are built from.
func fineClass(l reflex.Lexeme) string {
	atoms := []string{}
	if l.Atoms != "" {
		atoms = strings.Split(l.Atoms, "+")
	}
	if l.Bad != "" {
		if l.Bad == "unknown-char" {
			if l.Atoms == "ascii-symbol" {
				return fmt.Sprintf("unknown-char:0x%02x", l.Text[0])
			}
			return "unknown-char:" + l.Atoms
		}
		return bracket(l.Bad, atoms)
	}
	switch l.Type {
	case reflex.Identifier:
		f := []string{}
		for _, w := range reserved { // longest reserved word that is a proper prefix
			if len(w) < len(l.Text) && strings.HasPrefix(l.Text, w) {
				f = append(f, "prefix:"+w)
				break
			}
		}
		if strings.ContainsAny(l.Text, "0123456789") {
			f = append(f, "digit")
		}
		if strings.Contains(l.Text, "_") {
			f = append(f, "underscore")
		}
		if strings.ToLower(l.Text) != l.Text {
			f = append(f, "upper")
		}
		return bracket("ident", f)
	case reflex.NumberLiteral:
		f := []string{}
		t := l.Text
		if strings.HasPrefix(t, "-") {
			f = append(f, "neg")
			t = t[1:]
		}
		if len(t) > 1 && t[0] == '0' {
			f = append(f, "lead0")
		}
		return bracket("int", f)
	case reflex.StringLiteral:
		if l.Text[0] == '`' {
			return bracket("rstr", atoms)
		}
		return bracket("istr", atoms)
	case reflex.Comment:
		if strings.HasPrefix(l.Text, "//") {
			return bracket("linec", atoms)
		}
		return bracket("blockc", atoms)
	case reflex.Space:
		f := []string{}
		if strings.Contains(l.Text, " ") {
			f = append(f, "blank")
		}
		if strings.Contains(l.Text, "\t") {
			f = append(f, "tab")
		}
		return bracket("sp", f)
	case reflex.Newline:
		if l.Text == "\r\n" {
			return "crlf"
		}
		return "nl"
	case reflex.BoolLiteral:
		return "bool:" + l.Text
	case reflex.NilLiteral:
		return "nil"
	case reflex.DataType:
		return "ty:" + l.Text
	}
	if reflex.IsBuiltin(l.Type) {
		return "bi:" + l.Text
	}
	if reflex.IsKeyword(l.Type) {
		return "kw:" + l.Text
	}
	return "p:" + l.Text
}

func classSeq(ls []reflex.Lexeme) string {
	cs := make([]string, len(ls))
	for i, l := range ls {
		cs[i] = fineClass(l)
	}
	return strings.Join(cs, ",")
}

func keyOf(minText, symptom string) string {
	return "seq=" + classSeq(reflex.Lex(minText).Lexemes) + " symptom=" + symptom
}

// ------------------------------------------------------------------ shrinking

type shrinker struct {
	memo     sync.Map // text -> minimal text
	outcomes sync.Map // text -> outcome (candidates only)
	calls    int64
}

func (s *shrinker) outcome(text string) string {
	if v, ok := s.outcomes.Load(text); ok {
		return v.(string)
	}
	atomic.AddInt64(&s.calls, 1)
	o, _, _ := judge(text)
	s.outcomes.Store(text, o)
	return o
}

func sameExcept(a, b []reflex.Lexeme, skip int) bool {
	// a without index skip must equal b (texts and types)
	if len(a)-1 != len(b) {
		return false
	}
	for i, j := 0, 0; i < len(a); i++ {
		if i == skip {
			continue
		}
		if a[i].Text != b[j].Text || a[i].Type != b[j].Type {
			return false
		}
		j++
	}
	return true
}

func sameBut(a, b []reflex.Lexeme, at int) bool {
	if len(a) != len(b) {
		return false
	}
	for i := range a {
		if i != at && (a[i].Text != b[i].Text || a[i].Type != b[i].Type) {
			return false
		}
	}
	return true
}

// group puts symptoms into severity groups. A shrinking step may turn one
// token-level symptom into another (two known defects that interact — a swallowed
// lexeme plus a split one — would otherwise multiply into a key per combination),
// but a panic, a missing error and a spurious error must persist exactly.
func group(symptom string) string {
	switch symptom {
	case "merged", "split", "type", "value", "row", "column":
		return "tokens"
	}
	return symptom
}

func features(class string) (base string, feats map[string]bool) {
	feats = map[string]bool{}
	i := strings.IndexByte(class, '[')
	if i < 0 {
		return class, feats
	}
	for _, f := range strings.Split(class[i+1:len(class)-1], "+") {
		feats[f] = true
	}
	return class[:i], feats
}

// sameKindFewerFeatures: the edited lexeme must keep its kind and may not
// acquire a feature (atom kind, identifier trait) the original did not have;
// plain ASCII content is neutral.
func sameKindFewerFeatures(orig, cand reflex.Lexeme) bool {
	if orig.Type != cand.Type || orig.Bad != cand.Bad {
		return false
	}
	ob, of := features(fineClass(orig))
	cb, cf := features(fineClass(cand))
	if ob != cb {
		return false
	}
	for f := range cf {
		if !of[f] && f != "ascii" {
			return false
		}
	}
	return true
}

// shrink returns the minimal witness of text: a sub-structure of its own
// lexeme sequence (a lexeme replaced by the neutral identifier `a`, a whole lexeme
// deleted, a character deleted or replaced by `a` inside one lexeme without
// changing its kind or adding a feature). Every step keeps the lexemes of the
// untouched part exactly (no step may glue two neighbours into something new) and
// the candidate must still fail with a symptom of the same group. The result is
// a case none of whose structural reductions fails. Deterministic (fixed order,
// memoised per text).
func (s *shrinker) shrink(text, symptom string, top bool) string {
	if v, ok := s.memo.Load(text); ok {
		return v.(string)
	}
	lex := reflex.Lex(text).Lexemes
	grp := group(symptom)
	try := func(cand string) (string, bool) {
		o := s.outcome(cand)
		if !isSymptom(o) || group(o) != grp {
			return "", false
		}
		return s.shrink(cand, o, false), true
	}
	result := text
	done := false
	// C: replace one lexeme by the neutral identifier
	for i := 0; i < len(lex) && !done; i++ {
		if lex[i].Type == reflex.Identifier && lex[i].Text == "a" {
			continue
		}
		if lex[i].Type == reflex.Identifier && fineClass(lex[i]) != "ident" {
			continue // handled inside the lexeme (phase B) so that its traits are reduced one by one
		}
		cand := text[:lex[i].Off] + "a" + text[lex[i].Off+len(lex[i].Text):]
		cl := reflex.Lex(cand).Lexemes
		if !sameBut(lex, cl, i) || cl[i].Type != reflex.Identifier || cl[i].Text != "a" {
			continue
		}
		if r, ok := try(cand); ok {
			result, done = r, true
		}
	}
	// A: delete one whole lexeme, last first
	for i := len(lex) - 1; i >= 0 && !done; i-- {
		cand := text[:lex[i].Off] + text[lex[i].Off+len(lex[i].Text):]
		if !sameExcept(lex, reflex.Lex(cand).Lexemes, i) {
			continue
		}
		if r, ok := try(cand); ok {
			result, done = r, true
		}
	}
	// B: delete characters inside one lexeme, or replace one by `a`
	for i := 0; i < len(lex) && !done; i++ {
		lt := lex[i].Text
		if len(lt) < 2 {
			continue
		}
		for p := 0; p < len(lt) && !done; {
			_, rs := utf8.DecodeRuneInString(lt[p:])
			seen := map[int]bool{}
			for _, n := range []int{rs, 2, 4, 6, 10, -1} {
				var cand string
				if n == -1 {
					if lt[p:p+rs] == "a" {
						continue
					}
					cand = text[:lex[i].Off+p] + "a" + text[lex[i].Off+p+rs:]
				} else {
					if seen[n] || p+n > len(lt) {
						continue
					}
					seen[n] = true
					cand = text[:lex[i].Off+p] + text[lex[i].Off+p+n:]
				}
				cl := reflex.Lex(cand).Lexemes
				if !sameBut(lex, cl, i) || !sameKindFewerFeatures(lex[i], cl[i]) {
					continue
				}
				if r, ok := try(cand); ok {
					result, done = r, true
					break
				}
			}
			p += rs
		}
	}
	if !top {
		s.memo.Store(text, result)
	}
	return result
}

// ---------------------------------------------------------------- aggregation

type keyInfo struct {
	count   int
	witness string
	symptom string
	spaces  map[string]int
}

type stats struct {
	evaluations int
	perSpace    map[string]int
	outcomes    map[string]int
	classSeqs   map[uint64]struct{}
	implTypes   map[reflex.Type]int
	keys        map[string]*keyInfo
	selfChecked int
}

func newStats() *stats {
	return &stats{perSpace: map[string]int{}, outcomes: map[string]int{}, classSeqs: map[uint64]struct{}{},
		implTypes: map[reflex.Type]int{}, keys: map[string]*keyInfo{}}
}

func better(a, b string) bool { // is a a better (smaller) witness than b
	if len(a) != len(b) {
		return len(a) < len(b)
	}
	return a < b
}

func (s *stats) merge(o *stats) {
	s.evaluations += o.evaluations
	s.selfChecked += o.selfChecked
	for k, v := range o.perSpace {
		s.perSpace[k] += v
	}
	for k, v := range o.outcomes {
		s.outcomes[k] += v
	}
	for k := range o.classSeqs {
		s.classSeqs[k] = struct{}{}
	}
	for k, v := range o.implTypes {
		s.implTypes[k] += v
	}
	for k, v := range o.keys {
		cur := s.keys[k]
		if cur == nil {
			cur = &keyInfo{witness: v.witness, symptom: v.symptom, spaces: map[string]int{}}
			s.keys[k] = cur
		}
		cur.count += v.count
		if better(v.witness, cur.witness) {
			cur.witness = v.witness
		}
		for sp, n := range v.spaces {
			cur.spaces[sp] += n
		}
	}
}

func fnv(s string) uint64 {
	h := uint64(14695981039346656037)
	for i := 0; i < len(s); i++ {
		h ^= uint64(s[i])
		h *= 1099511628211
	}
	return h
}

type checker struct {
	run      *findings.Run
	sh       *shrinker
	deadline time.Time
	capHit   atomic.Bool
	mu       sync.Mutex
	total    *stats
	harness  atomic.Value // first harness error (string)
}

// eval judges one enumerated input and books the result into the worker's stats.
func (c *checker) eval(st *stats, space, text string, gen []genTok) {
	st.evaluations++
	st.perSpace[space]++
	outcome, ref, impl := judge(text)
	st.outcomes[outcome]++
	if (fnv(text)^uint64(c.run.Seed))%100003 == 7 {
		// evidence sample chosen by the seed (findings caps the number kept per kind)
		c.run.Sample(map[string]string{"kind": space, "input": fmt.Sprintf("%q", text), "outcome": outcome, "reference": renderRef(ref), "implementation": renderImpl(impl)})
	}
	if strings.HasPrefix(outcome, "skip:") {
		return
	}
	if gen != nil && ref.Specified() {
		// generative self-check: the reference lexer must reproduce the generating token list
		// (not where a negative-literal lexeme lands behind an operand: there Go's reading, operator +
		// literal, is the oracle and differs from the generating list by construction)
		st.selfChecked++
		want := ref.Tokens()
		ok := ref.Err == "" && len(want) == len(gen)
		for i := 0; ok && i < len(gen); i++ {
			ok = want[i].Type == gen[i].typ && want[i].Value == gen[i].val && want[i].Row == gen[i].row && want[i].Col == gen[i].col
		}
		if !ok {
			c.harness.CompareAndSwap(nil, fmt.Sprintf("reference lexer disagrees with the generating token list on %q: reflex=%v err=%q generator=%v", text, renderRef(ref), ref.Err, gen))
			return
		}
	}
	if ref.Err == "" {
		toks := ref.Tokens()
		if len(toks) > 0 {
			st.classSeqs[fnv(classSeq(toks))] = struct{}{}
		}
	}
	for _, t := range impl.toks {
		st.implTypes[t.typ]++
	}
	if !isSymptom(outcome) {
		return
	}
	min := c.sh.shrink(text, outcome, true)
	minSymptom := outcome
	if min != text {
		minSymptom = c.sh.outcome(min)
	}
	key := keyOf(min, minSymptom)
	ki := st.keys[key]
	if ki == nil {
		ki = &keyInfo{witness: min, symptom: minSymptom, spaces: map[string]int{}}
		st.keys[key] = ki
	}
	ki.count++
	ki.spaces[space]++
	if better(min, ki.witness) {
		ki.witness = min
	}
}

func renderRef(r reflex.Result) string {
	if r.Err != "" {
		return "error(" + r.Err + ")"
	}
	var b strings.Builder
	for _, t := range r.Tokens() {
		fmt.Fprintf(&b, "%s %q %d:%d; ", t.Type, t.Value, t.Row, t.Col)
	}
	return b.String()
}

func renderImpl(r implResult) string {
	if r.panic != "" {
		return "panic(" + r.panic + ")"
	}
	if r.err {
		return "error"
	}
	var b strings.Builder
	for _, t := range r.toks {
		fmt.Fprintf(&b, "%s %q %d:%d; ", t.typ, t.val, t.row, t.col)
	}
	return b.String()
}

// replay file format: "<repo token type number> <quoted value> <row> <col>" per token, or "error".
func replayLines(r reflex.Result) string {
	if r.Err != "" {
		return "error\n"
	}
	var b strings.Builder
	for _, t := range r.Tokens() {
		fmt.Fprintf(&b, "%d %q %d %d\n", int(revTypeMap[t.Type]), t.Value, t.Row, t.Col)
	}
	return b.String()
}

func replayLinesImpl(r implResult) string {
	if r.panic != "" {
		return "panic\n"
	}
	if r.err {
		return "error\n"
	}
	var b strings.Builder
	for _, t := range r.toks {
		fmt.Fprintf(&b, "%d %q %d %d\n", int(revTypeMap[t.typ]), t.val, t.row, t.col)
	}
	return b.String()
}

const replayMain = `package main

import (
	"fmt"
	"os"

	"github.com/monstermichl/typeshell/lexer"
)

func main() {
	src, _ := os.ReadFile(os.Args[1])
	toks, err := lexer.Tokenize(string(src))
	if err != nil {
		fmt.Println("error")
		return
	}
	for _, t := range toks {
		if t.Type() != lexer.EOF {
			fmt.Printf("%d %q %d %d\n", t.Type(), t.Value(), t.Row(), t.Column())
		}
	}
}
`

const replayScript = `set -e
# builds a 20-line program against /repo that prints lexer.Tokenize(input.txt) and compares with expected.txt
T=$(mktemp -d); trap 'rm -rf "$T"' EXIT
cp main.go "$T/main.go"
printf 'module replay\n\ngo 1.22\n\nrequire github.com/monstermichl/typeshell v0.0.0\n\nreplace github.com/monstermichl/typeshell => /repo\n' > "$T/go.mod"
cp /repo/go.sum "$T/go.sum"
( cd "$T" && GOFLAGS=-mod=mod GOPROXY=off GOSUMDB=off GOTOOLCHAIN=local GOCACHE="${GOCACHE:-/verif/.cache/go-build}" go build -o lex . )
set +e
"$T/lex" input.txt > "$T/actual.txt" 2> "$T/stderr.txt" || echo "panic" > "$T/actual.txt"
if diff expected.txt "$T/actual.txt"; then echo "REPLAY: no longer reproduces"; exit 0; else echo "REPLAY: reproduced (expected < > actual; columns: type value row col)"; exit 1; fi`

// ------------------------------------------------------------------- Run

func Run() int {
	defer drive.Cleanup()
	r := findings.New("C11")
	c := &checker{run: r, sh: &shrinker{}, total: newStats()}
	c.deadline = r.Deadline(4*time.Minute, 25*time.Minute)
	thorough := r.Thorough()
	go watchdog()

	spaces := buildSpaces(thorough)
	lastComplete := []string{}
	for _, sp := range spaces {
		if c.capHit.Load() {
			break
		}
		sp := sp
		t0 := time.Now()
		drive.Par(sp.chunks, func(i int) {
			if c.capHit.Load() {
				return
			}
			if time.Now().After(c.deadline) {
				c.capHit.Store(true)
				return
			}
			st := newStats()
			sp.run(i, func(text string, gen []genTok) { c.eval(st, sp.name, text, gen) })
			c.mu.Lock()
			c.total.merge(st)
			c.mu.Unlock()
		})
		if !c.capHit.Load() {
			lastComplete = append(lastComplete, sp.name)
		}
		fmt.Fprintf(os.Stderr, "C11 %s: %d cases so far, %.1fs\n", sp.name, c.total.evaluations, time.Since(t0).Seconds())
		if h := c.harness.Load(); h != nil {
			fmt.Fprintln(os.Stderr, "HARNESS ERROR:", h)
			return 2
		}
	}

	// every reported case is re-run twice; the observation must be identical
	keys := make([]string, 0, len(c.total.keys))
	for k := range c.total.keys {
		keys = append(keys, k)
	}
	sort.Strings(keys)
	perKey := map[string]interface{}{}
	for _, k := range keys {
		ki := c.total.keys[k]
		o1, ref, impl := judge(ki.witness)
		for n := 0; n < 2; n++ {
			o2, _, impl2 := judge(ki.witness)
			if o2 != o1 || renderImpl(impl2) != renderImpl(impl) {
				fmt.Fprintf(os.Stderr, "HARNESS ERROR: re-run of %q did not reproduce: %s / %s\n", ki.witness, o1, o2)
				return 2
			}
		}
		if o1 != ki.symptom || keyOf(ki.witness, o1) != k {
			fmt.Fprintf(os.Stderr, "HARNESS ERROR: witness %q of key %q now yields %s / %s\n", ki.witness, k, o1, keyOf(ki.witness, o1))
			return 2
		}
		witness := ki.witness
		desc := fmt.Sprintf("input %q: expected %s got %s (%d enumerated cases reduce to this one)", witness, renderRef(ref), renderImpl(impl), ki.count)
		r.Fail(k, desc, func() findings.Replay {
			return findings.Replay{Files: map[string]string{
				"input.txt":    witness,
				"expected.txt": replayLines(ref),
				"actual.txt":   replayLinesImpl(impl),
				"main.go":      replayMain,
			}, Script: replayScript}
		})
		perKey[k] = map[string]interface{}{"cases": ki.count, "witness": witness, "by_space": ki.spaces}
	}

	// evidence
	t := c.total
	r.Set("evaluations", t.evaluations)
	r.Set("distinct_nontrivial", len(t.classSeqs))
	r.Set("rule", "enumerated: every source text of spaces G (lexeme sequences x separators), B (strings over a 16-symbol class alphabet), S (string-literal bodies); a case is distinct/non-trivial when the property defines its tokenisation, it has >= 1 token, and its sequence of reference token classes (exact text for punctuation/reserved words; feature classes for identifiers, numbers, strings) differs from all others")
	r.Set("exhaustive", !c.capHit.Load())
	if c.capHit.Load() {
		r.Set("cap_hit", fmt.Sprintf("internal deadline reached; spaces fully covered: %v", lastComplete))
	}
	r.Set("cases_by_space", t.perSpace)
	r.Set("outcomes", t.outcomes)
	skipped := 0
	for o, n := range t.outcomes {
		if strings.HasPrefix(o, "skip:") {
			skipped += n
		}
	}
	r.Set("skipped_unspecified", skipped)
	r.Set("distinct_outcomes", len(t.outcomes))
	r.Set("generator_selfchecks", t.selfChecked)
	types := map[string]int{}
	for ty, n := range t.implTypes {
		types[ty.String()] = n
	}
	r.Set("impl_token_types_seen", types)
	r.Set("impl_token_types_distinct", len(types))
	r.Set("failing_cells", perKey)
	r.Set("shrink_tokenize_calls", int(atomic.LoadInt64(&c.sh.calls)))
	r.Set("bounds", boundsText(thorough))
	r.Set("columns", "byte columns, 1-based; CRLF is one line end")
	for _, s := range sampleInputs(thorough) {
		o, ref, impl := judge(s.text)
		r.Sample(map[string]string{"kind": "fixed-" + s.kind, "input": fmt.Sprintf("%q", s.text), "outcome": o, "reference": renderRef(ref), "implementation": renderImpl(impl)})
	}
	if len(t.outcomes) < 3 || t.outcomes[agreeTokens] == 0 || t.outcomes[agreeError] == 0 {
		r.Assumef("WARNING vacuity: outcomes %v", t.outcomes)
	}
	r.Assumef("token positions: columns count bytes; the end-of-input marker's position is not compared (the property only speaks of a token's first character)")
	r.Assumef("unspecified inputs (skipped, counted per reason in coverage.outcomes): unterminated block comment, lone CR, floats, '-' glued to a digit after an operand (owned by C12), lone '&', non-UTF-8 bytes, Unicode letters outside strings, physical newline or invalid escape in an interpreted string, digits glued to letters, a byte order mark as the very first character")
	return r.Finish()
}

package c11

import (
	"testing"

	"verif/reflex"
)

func TestCompare(t *testing.T) {
	ref := reflex.Lex("a b")
	tok := func(ty reflex.Type, v string, r, c int) itok { return itok{ty, v, r, c} }
	cases := []struct {
		impl implResult
		want string
	}{
		{implResult{toks: []itok{tok(reflex.Identifier, "a", 1, 1), tok(reflex.Identifier, "b", 1, 3)}}, agreeTokens},
		{implResult{toks: []itok{tok(reflex.Identifier, "a", 1, 1)}}, "merged"},
		{implResult{toks: []itok{tok(reflex.Identifier, "a", 1, 1), tok(reflex.Identifier, "b", 1, 3), tok(reflex.Identifier, "c", 1, 4)}}, "split"},
		{implResult{toks: []itok{tok(reflex.Identifier, "a", 1, 1), tok(reflex.BoolLiteral, "b", 1, 3)}}, "type"},
		{implResult{toks: []itok{tok(reflex.Identifier, "a", 1, 1), tok(reflex.Identifier, "B", 1, 3)}}, "value"},
		{implResult{toks: []itok{tok(reflex.Identifier, "a", 1, 1), tok(reflex.Identifier, "b", 2, 3)}}, "row"},
		{implResult{toks: []itok{tok(reflex.Identifier, "a", 1, 1), tok(reflex.Identifier, "b", 1, 4)}}, "column"},
		{implResult{err: true}, "error-spurious"},
		{implResult{panic: "x"}, "panic"},
	}
	for _, c := range cases {
		if got := compare(ref, c.impl); got != c.want {
			t.Errorf("want %s got %s", c.want, got)
		}
	}
	if got := compare(reflex.Lex(`"a`), implResult{}); got != "error-missing" {
		t.Errorf("error-missing: %s", got)
	}
	if got := compare(reflex.Lex(`"a`), implResult{err: true}); got != agreeError {
		t.Errorf("agree-error: %s", got)
	}
}

func TestClasses(t *testing.T) {
	for src, want := range map[string]string{
		"trueish": "ident[prefix:true]",
		"format":  "ident[prefix:for]",
		"x":       "ident",
		"a_1B":    "ident[digit+underscore+upper]",
		"-1":      "int[neg]",
		"007":     "int[lead0]",
		`"é\x41"`: "istr[esc-x+utf8-2]",
		"`a\nb`":  "rstr[ascii+nl]",
		"/* c */": "blockc[ascii]",
		"// *":    "linec[ascii+star]",
		"==":      "p:==",
		"if":      "kw:if",
		"len":     "bi:len",
		"int":     "ty:int",
		"true":    "bool:true",
		"\r\n":    "crlf",
		" \t":     "sp[blank+tab]",
	} {
		l := reflex.Lex(src).Lexemes
		if len(l) != 1 || fineClass(l[0]) != want {
			t.Errorf("%q: got %v want %s", src, classSeq(l), want)
		}
	}
}

// every vocabulary lexeme must be lexed by the reference lexer as the generator says
func TestVocabulary(t *testing.T) {
	seen := map[string]bool{}
	for _, p := range vocabulary {
		if seen[p.text] {
			t.Errorf("duplicate vocabulary entry %q", p.text)
		}
		seen[p.text] = true
		r := reflex.Lex(p.text)
		if !r.Specified() || r.Err != "" {
			t.Errorf("%q: %v %s", p.text, r.Unspec, r.Err)
			continue
		}
		toks := r.Tokens()
		if p.tokOff < 0 {
			if len(toks) != 0 {
				t.Errorf("%q should yield no token", p.text)
			}
			continue
		}
		if len(toks) != 1 || toks[0].Type != p.typ || toks[0].Value != p.val {
			t.Errorf("%q: reflex %v, generator %s %q", p.text, toks, p.typ, p.val)
		}
	}
}

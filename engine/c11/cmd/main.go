// c11-dev runs the C11 check stand-alone (development helper).
package main

import (
	"os"

	"verif/c11"
)

func main() { os.Exit(c11.Run()) }

package c11

import (
	"fmt"
	"strings"

	"verif/reflex"
)

// genTok is a token the generator expects (independent of the reference lexer).
type genTok struct {
	typ      reflex.Type
	val      string
	row, col int
}

func (g genTok) String() string { return fmt.Sprintf("%s %q %d:%d", g.typ, g.val, g.row, g.col) }

// piece is a stretch of source text containing at most one token at byte
// offset tokOff (tokOff < 0: no token — blanks, comments).
type piece struct {
	text   string
	typ    reflex.Type
	val    string
	tokOff int
	tri    bool // member of the (smaller) vocabulary used for triples
	red    bool // member of the reduced vocabulary used with mixed separators
}

func tok(text string, typ reflex.Type, flags ...string) piece {
	p := piece{text: text, typ: typ, val: text}
	for _, f := range flags {
		switch f {
		case "tri":
			p.tri = true
		case "red":
			p.tri, p.red = true, true
		}
	}
	return p
}

func str(text, val string, flags ...string) piece {
	p := tok(text, reflex.StringLiteral, flags...)
	p.val = val
	return p
}

func layout(text string, flags ...string) piece {
	p := tok(text, reflex.Comment, flags...)
	p.tokOff = -1
	return p
}

// vocabulary: the complete token vocabulary of the grammar plus comments.
var vocabulary = []piece{
	// brackets
	tok("(", reflex.OpeningRoundBracket, "red"), tok(")", reflex.ClosingRoundBracket, "red"),
	tok("[", reflex.OpeningSquareBracket, "tri"), tok("]", reflex.ClosingSquareBracket, "tri"),
	tok("{", reflex.OpeningCurlyBracket, "tri"), tok("}", reflex.ClosingCurlyBracket, "tri"),
	// comparison
	tok("==", reflex.CompareOperator, "red"), tok("!=", reflex.CompareOperator, "tri"), tok("<=", reflex.CompareOperator, "tri"),
	tok(">=", reflex.CompareOperator, "tri"), tok("<", reflex.CompareOperator, "red"), tok(">", reflex.CompareOperator, "tri"),
	// logical
	tok("&&", reflex.LogicalOperator, "tri"), tok("||", reflex.LogicalOperator, "tri"),
	// compound assignment
	tok("+=", reflex.CompoundAssignOperator, "tri"), tok("-=", reflex.CompoundAssignOperator, "red"), tok("*=", reflex.CompoundAssignOperator, "tri"),
	tok("/=", reflex.CompoundAssignOperator, "red"), tok("%=", reflex.CompoundAssignOperator, "tri"),
	tok("=", reflex.AssignOperator, "red"), tok(":=", reflex.ShortInitOperator, "red"),
	tok("++", reflex.IncrementOperator, "tri"), tok("--", reflex.DecrementOperator, "red"),
	tok("!", reflex.UnaryOperator, "red"),
	tok("+", reflex.BinaryOperator, "tri"), tok("-", reflex.BinaryOperator, "red"), tok("*", reflex.BinaryOperator, "red"),
	tok("/", reflex.BinaryOperator, "red"), tok("%", reflex.BinaryOperator, "tri"),
	tok(",", reflex.Comma, "tri"), tok(":", reflex.Colon, "red"), tok(";", reflex.Semicolon, "tri"), tok(".", reflex.Dot, "red"),
	tok("@", reflex.At, "tri"), tok("|", reflex.Pipe, "red"),
	// keywords
	tok("import", reflex.Import), tok("var", reflex.VarDefinition), tok("func", reflex.FunctionDefinition, "tri"),
	tok("return", reflex.Return), tok("if", reflex.If, "red"), tok("else", reflex.Else), tok("switch", reflex.Switch),
	tok("case", reflex.Case), tok("default", reflex.Default), tok("for", reflex.For, "tri"), tok("range", reflex.Range),
	tok("break", reflex.Break), tok("continue", reflex.Continue), tok("nil", reflex.NilLiteral, "tri"),
	// builtins
	tok("len", reflex.Len, "tri"), tok("print", reflex.Print), tok("input", reflex.Input), tok("copy", reflex.Copy),
	tok("itoa", reflex.Itoa), tok("exists", reflex.Exists), tok("read", reflex.Read), tok("write", reflex.Write), tok("panic", reflex.Panic),
	// type names
	tok("bool", reflex.DataType), tok("int", reflex.DataType, "tri"), tok("string", reflex.DataType), tok("error", reflex.DataType),
	// booleans
	tok("true", reflex.BoolLiteral, "red"), tok("false", reflex.BoolLiteral, "tri"),
	// identifiers, incl. reserved-word-prefixed ones
	tok("x", reflex.Identifier, "red"), tok("_a1", reflex.Identifier, "tri"), tok("Xy", reflex.Identifier), tok("trueish", reflex.Identifier, "red"),
	tok("falsey", reflex.Identifier), tok("nilx", reflex.Identifier, "tri"), tok("format", reflex.Identifier, "tri"), tok("iffy", reflex.Identifier),
	tok("intx", reflex.Identifier), tok("lens", reflex.Identifier), tok("xtrue", reflex.Identifier, "tri"),
	// integers
	tok("0", reflex.NumberLiteral, "tri"), tok("7", reflex.NumberLiteral), tok("42", reflex.NumberLiteral, "red"), tok("007", reflex.NumberLiteral),
	tok("-1", reflex.NumberLiteral, "red"), tok("-42", reflex.NumberLiteral),
	// interpreted strings
	str(`""`, "", "tri"), str(`"a"`, "a", "red"), str(`"a b"`, "a b"), str(`"\n"`, "\n", "tri"), str(`"\""`, `"`, "tri"), str(`"\\"`, `\`, "tri"),
	str(`"é"`, "é", "tri"), str(`"\x41"`, "A", "tri"), str(`"\101"`, "A"), str(`"\u00e9"`, "é"), str(`"//"`, "//", "tri"), str(`"/*"`, "/*", "tri"),
	str("\"`\"", "`"), str(`"*/"`, "*/"),
	// raw strings
	str("``", "", "tri"), str("`r`", "r", "tri"), str("`a\nb`", "a\nb", "red"), str("`\\n`", `\n`, "tri"), str("`\"`", `"`), str("`é`", "é", "tri"),
	str("`a\r\nb`", "a\nb"), str("`*/`", "*/"),
	// comments (no token)
	layout("/* c */", "red"), layout("/**/", "tri"), layout("/*\n*/", "red"), layout("/* * / */"), layout("// c", "tri"), layout("//"),
	// line ends are tokens of this grammar
	{text: "\n", typ: reflex.Newline, val: "\n", tri: true, red: true}, {text: "\r\n", typ: reflex.Newline, val: "\n", tri: true},
}

// separators between neighbours ("" = nothing).
var separators = []piece{
	{text: "", tokOff: -1},
	{text: " ", tokOff: -1},
	{text: "\t", tokOff: -1},
	{text: "/* c */", tokOff: -1},
	{text: "\n", typ: reflex.Newline, val: "\n"},
	{text: "\r\n", typ: reflex.Newline, val: "\n"},
	{text: "// c\n", typ: reflex.Newline, val: "\n", tokOff: 4},
}

func isLineComment(p piece) bool { return p.tokOff < 0 && strings.HasPrefix(p.text, "//") }

// render concatenates pieces and, where the generator can vouch for the token
// boundaries on its own, returns the token list it expects (nil otherwise:
// glued neighbours, a line comment not followed by a line end, "/" before "/").
// gap[i] tells whether pieces[i] is a separator.
func render(pieces []piece, isSep []bool) (string, []genTok) {
	var b strings.Builder
	valid := true
	row, col := 1, 1
	var gen []genTok
	prevNonEmpty := -1
	for i, p := range pieces {
		if p.text == "" {
			continue
		}
		if prevNonEmpty >= 0 {
			q := pieces[prevNonEmpty]
			if !isSep[i] && !isSep[prevNonEmpty] {
				valid = false // two vocabulary lexemes glued: only the reference lexer knows
			}
			if isLineComment(q) && p.text[0] != '\n' && p.text[0] != '\r' {
				valid = false // the comment runs on
			}
			if q.text[len(q.text)-1] == '/' && q.tokOff >= 0 && p.text[0] == '/' {
				valid = false // "/" + "/* c */" is a line comment
			}
			if q.text[len(q.text)-1] == '/' && q.tokOff >= 0 && p.text[0] == '*' {
				valid = false
			}
		}
		for j := 0; j < len(p.text); j++ {
			if p.tokOff == j {
				gen = append(gen, genTok{p.typ, p.val, row, col})
			}
			if p.text[j] == '\n' {
				row++
				col = 1
			} else {
				col++
			}
		}
		b.WriteString(p.text)
		prevNonEmpty = i
	}
	if !valid {
		return b.String(), nil
	}
	if gen == nil {
		gen = []genTok{}
	}
	return b.String(), gen
}

type space struct {
	name   string
	chunks int
	run    func(chunk int, emit func(text string, gen []genTok))
}

func filter(f func(piece) bool) []piece {
	var out []piece
	for _, p := range vocabulary {
		if f(p) {
			out = append(out, p)
		}
	}
	return out
}

// class alphabet of space B (17 symbols; the word `true` is one symbol so that
// keyword-prefix interactions are reached at short lengths).
var alphabetB = []string{"a", "true", "1", `"`, "`", `\`, "/", "*", "-", "=", " ", "\n", "\r", "é", "#", ":", "\ufeff"}

// atoms of space S: printable ASCII, escapes, two UTF-8 runes.
var atomsS = func() []string {
	var a []string
	for c := 0x20; c <= 0x7e; c++ {
		a = append(a, string(rune(c)))
	}
	a = append(a, `\a`, `\b`, `\f`, `\n`, `\r`, `\t`, `\v`, `\\`, `\"`, `\'`, `\x41`, `\x00`, `\xff`, `\101`, `\u00e9`, `\U0001F600`, `\q`)
	a = append(a, "é", "€")
	// characters that a normalising pre-pass would be tempted to drop or rewrite: byte order mark, zero-width space,
	// no-break space, line / paragraph separator, next-line, a character outside the basic plane
	a = append(a, "\ufeff", "\u200b", "\u00a0", "\u2028", "\u2029", "\u0085", "\U0001F600")
	return a
}()

func boundsText(thorough bool) string {
	tri := len(filter(func(p piece) bool { return p.tri }))
	red := len(filter(func(p piece) bool { return p.red }))
	if thorough {
		return fmt.Sprintf("G: vocabulary %d lexemes, 7 separators: singles x 7x7 frames, pairs x 7 separators x 4 frames, triples over %d lexemes x 7 equal separators, triples over %d lexemes x 7x7 separators x 2 frames; B: length <= 6 over %d symbols; X: all 1- and 2-byte strings over the 256 byte values x 4 frames; S: bodies of <= 3 atoms over %d atoms x {interpreted, raw} x {alone, followed by ' x'}; E: every escape sequence (backslash + every printable character, all 512 three-digit octal forms, all \\xHH in both cases, \\u / \\U at the encoding boundaries, truncated forms) x 3 prefixes x 7 following characters, interpreted and raw",
			len(vocabulary), tri, red, len(alphabetB), len(atomsS))
	}
	return fmt.Sprintf("G: vocabulary %d lexemes, 7 separators: singles x 7x7 frames, pairs x 7 separators x 4 frames; B: length <= 5 over %d symbols; X: all 1- and 2-byte strings over the 256 byte values x 4 frames; S: bodies of <= 2 atoms over %d atoms x {interpreted, raw} x {alone, followed by ' x'}; E: every escape sequence (backslash + every printable character, all 512 three-digit octal forms, all \\xHH in both cases, \\u / \\U at the encoding boundaries, truncated forms) x 3 prefixes x 7 following characters, interpreted and raw",
		len(vocabulary), len(alphabetB), len(atomsS))
}

func buildSpaces(thorough bool) []space {
	V := vocabulary
	seps := separators
	none := separators[0]
	var sp []space

	// G1: single lexemes framed by every pair of (optional) separators
	sp = append(sp, space{name: "G1-singles", chunks: len(V), run: func(i int, emit func(string, []genTok)) {
		for _, lead := range seps {
			for _, trail := range seps {
				text, gen := render([]piece{lead, V[i], trail}, []bool{true, false, true})
				emit(text, gen)
			}
		}
	}})
	// G2: pairs x separator x frame
	sp = append(sp, space{name: "G2-pairs", chunks: len(V), run: func(i int, emit func(string, []genTok)) {
		for _, b := range V {
			for _, s := range seps {
				for frame := 0; frame < 4; frame++ {
					lead, trail := none, none
					if frame&1 != 0 {
						lead = s
					}
					if frame&2 != 0 {
						trail = s
					}
					if s.text == "" && frame != 0 {
						continue
					}
					text, gen := render([]piece{lead, V[i], s, b, trail}, []bool{true, false, true, false, true})
					emit(text, gen)
				}
			}
		}
	}})
	if thorough {
		T := filter(func(p piece) bool { return p.tri })
		sp = append(sp, space{name: "G3-triples", chunks: len(T) * len(T), run: func(i int, emit func(string, []genTok)) {
			a, b := T[i/len(T)], T[i%len(T)]
			for _, c := range T {
				for _, s := range seps {
					text, gen := render([]piece{a, s, b, s, c}, []bool{false, true, false, true, false})
					emit(text, gen)
				}
			}
		}})
		R := filter(func(p piece) bool { return p.red })
		sp = append(sp, space{name: "G3-mixed-separators", chunks: len(R) * len(R), run: func(i int, emit func(string, []genTok)) {
			a, b := R[i/len(R)], R[i%len(R)]
			for _, c := range R {
				for _, s1 := range seps {
					for _, s2 := range seps {
						if s1.text == s2.text {
							continue // covered by G3-triples
						}
						text, gen := render([]piece{a, s1, b, s2, c}, []bool{false, true, false, true, false})
						emit(text, gen)
						text, gen = render([]piece{s2, a, s1, b, s2, c, s1}, []bool{true, false, true, false, true, false, true})
						emit(text, gen)
					}
				}
			}
		}})
	}

	// B: all strings over the class alphabet
	nB := 5
	if thorough {
		nB = 6
	}
	A := alphabetB
	sp = append(sp, space{name: "B-class-strings", chunks: len(A)*len(A) + 1, run: func(i int, emit func(string, []genTok)) {
		if i == len(A)*len(A) {
			emit("", nil)
			for _, a := range A {
				emit(a, nil)
			}
			return
		}
		var rec func(prefix string, n int)
		rec = func(prefix string, n int) {
			emit(prefix, nil)
			if n == nB {
				return
			}
			for _, a := range A {
				rec(prefix+a, n+1)
			}
		}
		rec(A[i/len(A)]+A[i%len(A)], 2)
	}})

	// X: every byte value, alone and in pairs, in four frames (alone, after a name, before a name, between
	// names): the class alphabet of B has one representative per class, this space has every member
	sp = append(sp, space{name: "X-all-bytes", chunks: 257, run: func(i int, emit func(string, []genTok)) {
		frames := [][2]string{{"", ""}, {"a", ""}, {"", "a"}, {"a", " b"}}
		if i == 256 {
			for b := 0; b < 256; b++ {
				for _, f := range frames {
					emit(f[0]+string([]byte{byte(b)})+f[1], nil)
				}
			}
			return
		}
		for b := 0; b < 256; b++ {
			for _, f := range frames {
				emit(f[0]+string([]byte{byte(i), byte(b)})+f[1], nil)
			}
		}
	}})

	// S: string-literal bodies
	nS := 2
	if thorough {
		nS = 3
	}
	at := atomsS
	emitBody := func(body string, emit func(string, []genTok)) {
		emit(`"`+body+`"`, nil)
		emit(`"`+body+`" x`, nil)
		emit("`"+body+"`", nil)
		emit("`"+body+"` x", nil)
	}
	sp = append(sp, space{name: "S-string-bodies", chunks: len(at) + 1, run: func(i int, emit func(string, []genTok)) {
		if i == len(at) {
			emitBody("", emit)
			return
		}
		var rec func(body string, n int)
		rec = func(body string, n int) {
			emitBody(body, emit)
			if n == nS {
				return
			}
			for _, a := range at {
				rec(body+a, n+1)
			}
		}
		rec(at[i], 1)
	}})
	// E: every escape sequence. A backslash followed by every printable character; every three-digit octal
	// escape (512, those above \377 are not Go escapes: unspecified, counted); every \xHH; \u / \U at the
	// boundaries of the UTF-8 encoding lengths, the surrogate range and the end of Unicode; each alone, followed
	// by a digit / an octal digit / a hex letter (an escape must not eat what follows it), and after an escaped
	// backslash (then it is no escape at all)
	var esc []string
	for c := 0x20; c <= 0x7e; c++ {
		esc = append(esc, `\`+string(rune(c)))
	}
	for o := 0; o < 512; o++ {
		esc = append(esc, fmt.Sprintf(`\%03o`, o))
	}
	for x := 0; x < 256; x++ {
		esc = append(esc, fmt.Sprintf(`\x%02x`, x), fmt.Sprintf(`\x%02X`, x))
	}
	for _, u := range []int{0, 0x41, 0x7f, 0x80, 0x7ff, 0x800, 0xd7ff, 0xd800, 0xdfff, 0xe000, 0xfffd, 0xffff} {
		esc = append(esc, fmt.Sprintf(`\u%04x`, u), fmt.Sprintf(`\U%08x`, u))
	}
	for _, u := range []int{0x10000, 0x1f600, 0x10ffff, 0x110000} {
		esc = append(esc, fmt.Sprintf(`\U%08x`, u))
	}
	esc = append(esc, `\0`, `\00`, `\1`, `\12`, `\x`, `\x4`, `\u`, `\u004`, `\U0000004`)
	sp = append(sp, space{name: "E-escapes", chunks: len(esc), run: func(i int, emit func(string, []genTok)) {
		for _, pre := range []string{"", `\\`, "a"} {
			for _, suf := range []string{"", "0", "7", "8", "a", "f", "g"} {
				body := pre + esc[i] + suf
				emit(`"`+body+`"`, nil)
				emit(`"`+body+`" x`, nil)
				emit("`"+body+"`", nil)
			}
		}
	}})
	return sp
}

type sampleInput struct{ kind, text string }

func sampleInputs(thorough bool) []sampleInput {
	return []sampleInput{
		{"G", "x /* c */ y"}, {"G", "if\t==\r\n`a\nb`"}, {"G", "trueish:=-1"},
		{"B", "true1"}, {"B", "a=\"\\\"\n"}, {"B", "/**/a"},
		{"S", `"é" x`}, {"S", `"\x41"`}, {"S", "`\\n` x"},
	}
}

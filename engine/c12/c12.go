// Package c12 decides property C12 (program meaning is independent of layout)
// as a metamorphic check on the real transpiler: every corpus program is
// re-laid-out by each transformation the property lists, at every applicable
// site individually (deviation 1), at all sites at once, in a few whole-file
// styles and (thorough) at all pairs of sites of a sub-corpus; a variant that
// the reference lexer (verif/reflex) confirms to be token-preserving must be
// accepted iff the base layout is, and emit byte-identical Bash and Batch text.
package c12

import (
	"fmt"
	"os"
	"sort"
	"strings"
	"sync"
	"sync/atomic"
	"time"

	"verif/drive"
	"verif/findings"
	"verif/reflex"
)

// ----------------------------------------------------------- sites and edits

type edit struct {
	off, del int
	ins      string
}

type site struct {
	t     string // transformation name
	kind  string // "after:<token kind>,before:<token kind>"
	e     edit
	pos   int  // lexeme index the site sits at (for adjacency)
	nlDup bool // may duplicate a NEWLINE token at an existing line break
	final bool // adds/removes the final line end
}

type tokv struct {
	t reflex.Type
	v string
}

type pinfo struct {
	prog
	lex      []reflex.Lexeme
	baseToks []tokv
	base     [2]drive.TResult
	costMs   float64
	sites    []site
	skip     string
}

func isTok(l reflex.Lexeme) bool { return l.Type != reflex.Space && l.Type != reflex.Comment }

func opCommaBracket(t reflex.Type) bool {
	switch t {
	case reflex.OpeningRoundBracket, reflex.ClosingRoundBracket, reflex.OpeningSquareBracket, reflex.ClosingSquareBracket,
		reflex.OpeningCurlyBracket, reflex.ClosingCurlyBracket, reflex.AssignOperator, reflex.CompoundAssignOperator,
		reflex.UnaryOperator, reflex.BinaryOperator, reflex.CompareOperator, reflex.LogicalOperator, reflex.ShortInitOperator,
		reflex.IncrementOperator, reflex.DecrementOperator, reflex.Comma:
		return true
	}
	return false
}

func tokens(r reflex.Result) []tokv {
	var out []tokv
	for _, l := range r.Tokens() {
		out = append(out, tokv{l.Type, l.Value})
	}
	return out
}

func collapseNL(ts []tokv) []tokv {
	var out []tokv
	for _, t := range ts {
		if t.t == reflex.Newline && len(out) > 0 && out[len(out)-1].t == reflex.Newline {
			continue
		}
		out = append(out, t)
	}
	return out
}

func stripTrailingNL(ts []tokv) []tokv {
	for len(ts) > 0 && ts[len(ts)-1].t == reflex.Newline {
		ts = ts[:len(ts)-1]
	}
	return ts
}

func equalToks(a, b []tokv) bool {
	if len(a) != len(b) {
		return false
	}
	for i := range a {
		if a[i] != b[i] {
			return false
		}
	}
	return true
}

// prevKind / nextKind: kind of the nearest token before lexeme index i / at or
// after index i (blanks and comments skipped; line ends skipped if skipNL).
func prevKind(lex []reflex.Lexeme, i int, skipNL bool) string {
	for j := i - 1; j >= 0; j-- {
		if !isTok(lex[j]) || (skipNL && lex[j].Type == reflex.Newline) {
			continue
		}
		return lex[j].Kind()
	}
	return "bof"
}

func nextKind(lex []reflex.Lexeme, i int, skipNL bool) string {
	for j := i; j < len(lex); j++ {
		if !isTok(lex[j]) || (skipNL && lex[j].Type == reflex.Newline) {
			continue
		}
		return lex[j].Kind()
	}
	return "eof"
}

func kindOf(lex []reflex.Lexeme, i int, skipNL bool) string {
	return "after:" + prevKind(lex, i, skipNL) + ",before:" + nextKind(lex, i, skipNL)
}

// contexts returns, for every boundary (before lexeme i; i = len(lex) is the
// end of the file), the innermost enclosing bracket construct, named by the
// keyword/shape that opened it: top, import(, params(, call(, group(,
// slicetype[, index[, lit{, if{, else{, for{, switch{, func{, block{.
// This is a purely lexical classification (own token scan, no parser).
func contexts(lex []reflex.Lexeme) []string {
	var toks []int
	for i, l := range lex {
		if isTok(l) {
			toks = append(toks, i)
		}
	}
	ctx := make([]string, len(lex)+1)
	var stack []string
	top := func() string {
		if len(stack) == 0 {
			return "top"
		}
		return stack[len(stack)-1]
	}
	ti := -1
	for i, l := range lex {
		ctx[i] = top()
		if !isTok(l) {
			continue
		}
		ti++
		prev := func(k int) reflex.Lexeme {
			if ti-k >= 0 {
				return lex[toks[ti-k]]
			}
			return reflex.Lexeme{Type: reflex.Newline}
		}
		next := reflex.Lexeme{Type: reflex.Newline}
		if ti+1 < len(toks) {
			next = lex[toks[ti+1]]
		}
		switch l.Type {
		case reflex.OpeningRoundBracket:
			p1 := prev(1)
			switch {
			case p1.Type == reflex.Import:
				stack = append(stack, "import(")
			case p1.Type == reflex.Identifier && prev(2).Type == reflex.FunctionDefinition:
				stack = append(stack, "params(")
			case p1.Type == reflex.Identifier || reflex.IsBuiltin(p1.Type) || p1.Type == reflex.StringLiteral:
				stack = append(stack, "call(")
			default:
				stack = append(stack, "group(")
			}
		case reflex.OpeningSquareBracket:
			switch {
			case next.Type == reflex.ClosingSquareBracket:
				stack = append(stack, "slicetype[")
			default:
				stack = append(stack, "index[")
			}
		case reflex.OpeningCurlyBracket:
			name := "block{"
			if prev(1).Type == reflex.DataType && next.Type != reflex.Newline {
				name = "lit{"
			} else {
				for k := 1; ; k++ {
					q := prev(k)
					if q.Type == reflex.Newline {
						break
					}
					if q.Type == reflex.If || q.Type == reflex.Else || q.Type == reflex.For || q.Type == reflex.Switch || q.Type == reflex.FunctionDefinition {
						name = q.Text + "{"
						break
					}
				}
			}
			stack = append(stack, name)
		case reflex.ClosingRoundBracket, reflex.ClosingSquareBracket, reflex.ClosingCurlyBracket:
			if len(stack) > 0 {
				stack = stack[:len(stack)-1]
			}
		}
	}
	ctx[len(lex)] = top()
	return ctx
}

// Transformation names, in the order of the property's list.
var transformations = []string{"crlf", "lf", "indent-none", "indent-tab", "indent-blanks", "trailing-blanks",
	"blank-line", "remove-blank-line", "comment-line", "block-comment-line", "final-nl-absent", "final-nl-present",
	"block-comment", "line-comment", "remove-blank", "add-blank"}

// Comment texts beyond the plain `/* c */` and `// c`: a comment's text is arbitrary up to its first
// terminator (a slash right after the opener, quotes, nested openers, the other comment's markers).
var blockBodies = []string{"/*/ x */", "/**/", "/***/", "/* // */", "/*\"*/", "/*`*/", "/* /* */", "/*'*/", "/* a\n   b */", "/*\n*/", "/* é ü */", "/*€*/"}
var lineBodies = []string{" //", " ///", " // \"", " // `", " // /*", " // */", " //'", " // é €"}

func bodyTransformations() []string {
	var out []string
	for i := range blockBodies {
		out = append(out, fmt.Sprintf("block-comment~%d", i))
	}
	for i := range lineBodies {
		out = append(out, fmt.Sprintf("line-comment~%d", i))
	}
	return out
}

func init() { transformations = append(transformations, bodyTransformations()...) }

func findSites(src string, lex []reflex.Lexeme) []site { return findSitesEx(src, lex, false) }

// findSitesEx: with bodies, the comment-inserting transformations are repeated with every other comment text.
func findSitesEx(src string, lex []reflex.Lexeme, bodies bool) []site {
	var out []site
	n := len(lex)
	ctx := contexts(lex)
	add := func(t, kind string, pos int, e edit, nlDup, final bool) {
		// sites at a line break / line start / end of file are additionally qualified by
		// the enclosing construct: the token pair (string, identifier) around a line break
		// means one thing inside `import (` and another between two statements. Sites
		// between two tokens of one line are identified by the token pair alone.
		switch {
		case t == "block-comment" || t == "remove-blank" || t == "add-blank" || strings.HasPrefix(t, "block-comment~"):
		default:
			kind = "in:" + ctx[pos] + "," + kind
		}
		out = append(out, site{t: t, kind: kind, e: e, pos: pos, nlDup: nlDup, final: final})
	}
	lineStart := func(i int) { // lexeme index i begins a line
		if i >= n || lex[i].Type == reflex.Newline {
			return
		}
		k := kindOf(lex, i, true)
		if lex[i].Type == reflex.Space {
			if i+1 >= n || lex[i+1].Type == reflex.Newline {
				return // whitespace-only line
			}
			for _, v := range [][2]string{{"indent-none", ""}, {"indent-tab", "\t"}, {"indent-blanks", "    "}} {
				if v[1] != lex[i].Text {
					add(v[0], k, i, edit{lex[i].Off, len(lex[i].Text), v[1]}, false, false)
				}
			}
			return
		}
		add("indent-tab", k, i, edit{lex[i].Off, 0, "\t"}, false, false)
		add("indent-blanks", k, i, edit{lex[i].Off, 0, "    "}, false, false)
	}
	lineStart(0)
	for i, l := range lex {
		switch {
		case l.Type == reflex.Newline:
			k := "after:" + prevKind(lex, i, true) + ",before:" + nextKind(lex, i+1, true)
			eol := l.Text
			if eol == "\n" {
				add("crlf", k, i, edit{l.Off, 1, "\r\n"}, false, false)
			} else {
				add("lf", k, i, edit{l.Off, 2, "\n"}, false, false)
			}
			add("trailing-blanks", k, i, edit{l.Off, 0, " \t"}, false, false)
			add("line-comment", k, i, edit{l.Off, 0, " // c"}, false, false)
			if bodies {
				for bi, b := range lineBodies {
					add(fmt.Sprintf("line-comment~%d", bi), k, i, edit{l.Off, 0, b}, false, false)
				}
			}
			after := l.Off + len(l.Text)
			add("blank-line", k, i+1, edit{after, 0, eol}, true, false)
			// the inverse of blank-line: drop an existing empty (or blanks-only) line
			if j := i - 1; true {
				if j >= 0 && lex[j].Type == reflex.Space {
					j--
				}
				if j >= 0 && lex[j].Type == reflex.Newline {
					from := lex[j].Off + len(lex[j].Text)
					add("remove-blank-line", k, i, edit{from, after - from, ""}, true, false)
				}
			}
			add("comment-line", k, i+1, edit{after, 0, "// c" + eol}, true, false)
			add("block-comment-line", k, i+1, edit{after, 0, "/* c */" + eol}, true, false)
			lineStart(i + 1)
		case l.Type == reflex.Space:
			if i > 0 && i+1 < n && isTok(lex[i-1]) && isTok(lex[i+1]) && lex[i-1].Type != reflex.Newline && lex[i+1].Type != reflex.Newline &&
				(opCommaBracket(lex[i-1].Type) || opCommaBracket(lex[i+1].Type)) {
				add("remove-blank", "after:"+lex[i-1].Kind()+",before:"+lex[i+1].Kind(), i, edit{l.Off, len(l.Text), ""}, false, false)
			}
		}
		// a line end INSIDE a multi-line lexeme (raw string, block comment) is a line end of the file too:
		// a file saved with CRLF has it there as well (Go discards the carriage return in a raw string)
		if (l.Type == reflex.StringLiteral || l.Type == reflex.Comment) && strings.Contains(l.Text, "\n") {
			for k := 0; k < len(l.Text); k++ {
				if l.Text[k] == '\n' && (k == 0 || l.Text[k-1] != '\r') {
					add("crlf", "inside:"+l.Kind(), i, edit{l.Off + k, 1, "\r\n"}, false, false)
				}
			}
		}
		if isTok(l) {
			add("block-comment", kindOf(lex, i, false), i, edit{l.Off, 0, "/* c */"}, false, false)
			if bodies {
				for bi, b := range blockBodies {
					add(fmt.Sprintf("block-comment~%d", bi), kindOf(lex, i, false), i, edit{l.Off, 0, b}, false, false)
				}
			}
			if i > 0 && isTok(lex[i-1]) && l.Type != reflex.Newline && lex[i-1].Type != reflex.Newline &&
				(opCommaBracket(l.Type) || opCommaBracket(lex[i-1].Type)) {
				add("add-blank", "after:"+lex[i-1].Kind()+",before:"+l.Kind(), i, edit{l.Off, 0, " "}, false, false)
			}
		}
	}
	// end of file
	kEOF := "after:" + prevKind(lex, n, true) + ",before:eof"
	add("block-comment", kindOf(lex, n, false), n, edit{len(src), 0, "/* c */"}, false, false)
	if n > 0 && lex[n-1].Type != reflex.Newline {
		add("trailing-blanks", kEOF, n, edit{len(src), 0, " \t"}, false, false)
		add("line-comment", kEOF, n, edit{len(src), 0, " // c"}, false, false)
	}
	// final line end present / absent
	j := n
	hasNL := false
	for j > 0 && (lex[j-1].Type == reflex.Newline || lex[j-1].Type == reflex.Space) {
		j--
		if lex[j].Type == reflex.Newline {
			hasNL = true
		}
	}
	if hasNL && j > 0 {
		add("final-nl-absent", kEOF, j, edit{lex[j].Off, len(src) - lex[j].Off, ""}, false, true)
	}
	if n > 0 && lex[n-1].Type != reflex.Newline {
		add("final-nl-present", kEOF, n, edit{len(src), 0, "\n"}, false, true)
	}
	return out
}

// apply builds the variant text; ok=false if two edits overlap.
func apply(src string, sites []site) (string, bool) {
	es := make([]edit, len(sites))
	for i, s := range sites {
		es[i] = s.e
	}
	sort.SliceStable(es, func(i, j int) bool {
		if es[i].off != es[j].off {
			return es[i].off > es[j].off
		}
		return es[i].del > es[j].del
	})
	for i := 0; i+1 < len(es); i++ {
		hi, lo := es[i], es[i+1] // lo lies at or before hi
		if lo.off == hi.off {
			if lo.del > 0 {
				return "", false // two replacements of the same stretch
			}
		} else if lo.off+lo.del > hi.off {
			return "", false // lo deletes text that hi edits
		}
	}
	out := src
	for _, e := range es {
		out = out[:e.off] + e.ins + out[e.off+e.del:]
	}
	return out, true
}

var allowedUnspec = []string{reflex.UMinusDigitAfterOperand}

// preserved decides with the reference lexer whether the variant has the same
// token sequence as the base, modulo what the property allows for the
// transformations involved.
func (p *pinfo) preserved(text string, sites []site) bool {
	r := reflex.Lex(text)
	if r.Err != "" || !r.OnlyUnspec(allowedUnspec...) {
		return false
	}
	a, b := p.baseToks, tokens(r)
	dup, fin := false, false
	for _, s := range sites {
		dup = dup || s.nlDup
		fin = fin || s.final
	}
	if dup {
		a, b = collapseNL(a), collapseNL(b)
	}
	if fin {
		a, b = stripTrailingNL(a), stripTrailingNL(b)
	}
	return equalToks(a, b)
}

// ------------------------------------------------------------------- oracle

// inFlight / watchdog: a transpilation that never returns (non-termination is
// property C13's business) must stop the run with a diagnosis, not hang it.
// Resource backstop only, never a verdict.
var inFlight sync.Map // *flight -> struct{}

type flight struct {
	src   string
	since time.Time
}

const stallLimit = 10 * time.Minute

func watchdog() {
	for {
		time.Sleep(5 * time.Second)
		inFlight.Range(func(k, _ interface{}) bool {
			f := k.(*flight)
			if time.Since(f.since) > stallLimit {
				fmt.Fprintf(os.Stderr, "HARNESS ERROR: Transpile has not returned for %v on source %q; the check cannot decide anything (non-termination belongs to C13)\n", stallLimit, f.src)
				drive.Cleanup()
				os.Exit(2)
			}
			return true
		})
	}
}

var targets = []drive.Target{drive.Bash, drive.Batch}

func status(r drive.TResult) string {
	switch {
	case r.Panic != "":
		return "panic"
	case r.HasErr:
		return "reject"
	}
	return "accept"
}

// judge compares the variant with the base on both targets. It returns the
// symptom ("" = the property holds for this variant) and the targets showing it.
func (p *pinfo) judge(text string) (symptom, tg string, res [2]drive.TResult) {
	f := &flight{src: text, since: time.Now()}
	inFlight.Store(f, struct{}{})
	defer inFlight.Delete(f)
	syms := [2]string{}
	for i, t := range targets {
		res[i] = drive.TranspileSrc(text, t)
		b, v := status(p.base[i]), status(res[i])
		switch {
		case v == "panic":
			syms[i] = "panic"
		case b != v:
			syms[i] = b + "->" + v
		case b == "accept" && p.base[i].Script != res[i].Script:
			syms[i] = "bytes-differ"
		}
	}
	switch {
	case syms[0] == "" && syms[1] == "":
		return "", "", res
	case syms[0] == syms[1]:
		return syms[0], "bash+batch", res
	case syms[0] != "" && syms[1] == "":
		return syms[0], "bash", res
	case syms[0] == "" && syms[1] != "":
		return syms[1], "batch", res
	}
	return syms[0] + "/" + syms[1], "bash/batch", res
}

func keyFor(sites []site, symptom, tg string) string {
	ts := map[string]bool{}
	ks := map[string]bool{}
	for _, s := range sites {
		ts[s.t] = true
		ks[s.t+"@"+s.kind] = true
	}
	if len(sites) == 1 {
		return fmt.Sprintf("t=%s site=%s symptom=%s targets=%s", sites[0].t, sites[0].kind, symptom, tg)
	}
	return fmt.Sprintf("t=%s sites=%s symptom=%s targets=%s", strings.Join(drive.SortedKeys(ts), "+"), strings.Join(drive.SortedKeys(ks), " & "), symptom, tg)
}

// ------------------------------------------------------------------- guard

// guardKey names the one known defect that poisons a whole region of the variant
// space: the repository's lexer ends a block comment at the LAST "*/" of the file
// (greedy match), so everything between a block comment and any later "*/" is
// swallowed. While that line is listed in KNOWN_FINDINGS.txt, variants inside the
// region are not fed to the sweep (they would fail in hundreds of site-kind
// combinations that say nothing new); a sentinel reproduces the defect instead.
// When the line is not listed, or the sentinel no longer fails, the region is
// swept like any other.
const guardKey = "guard=block-comment-before-a-later-comment-terminator symptom=code-between-swallowed"

// inGreedyRegion: the text contains a block comment that is followed, anywhere
// later in the file, by the two characters "*/".
func inGreedyRegion(text string) bool {
	if strings.Count(text, "*/") < 2 {
		return false
	}
	for _, l := range reflex.Lex(text).Lexemes {
		if l.Type == reflex.Comment && strings.HasPrefix(l.Text, "/*") && strings.Contains(text[l.Off+len(l.Text):], "*/") {
			return true
		}
	}
	return false
}

const sentinelBase = "print(1)\nprint(2)\n"
const sentinelVariant = "/* c */print(1)\n/* c */print(2)\n"

// ---------------------------------------------------------------- the check

type finding struct {
	count   int
	prog    string
	base    string
	variant string
	desc    string
	target  string
}

type checker struct {
	run      *findings.Run
	progs    []*pinfo
	deadline time.Time
	capHit   atomic.Bool
	distinct *findings.Distinct

	mu        sync.Mutex
	finds     map[string]*finding
	outcomes  map[string]int
	perT      map[string]int
	notPres   map[string]int
	cells     map[string]int
	evals     int64
	overlap   int64
	harness   atomic.Value
	sampleCtr int64
	guardOn   bool
	guarded   int64
}

type item struct {
	p     int
	sites []int
	phase string
}

func (c *checker) bump(m map[string]int, k string) {
	c.mu.Lock()
	m[k]++
	c.mu.Unlock()
}

func firstDiff(a, b string) string {
	al, bl := strings.Split(a, "\n"), strings.Split(b, "\n")
	for i := 0; i < len(al) || i < len(bl); i++ {
		x, y := "<eof>", "<eof>"
		if i < len(al) {
			x = al[i]
		}
		if i < len(bl) {
			y = bl[i]
		}
		if x != y {
			return fmt.Sprintf("line %d: base %q variant %q", i+1, clip(x), clip(y))
		}
	}
	return "identical"
}

func clip(s string) string {
	if len(s) > 100 {
		return s[:100] + "..."
	}
	return s
}

func oneLine(s string) string {
	if len(s) > 160 {
		s = s[:160] + "..."
	}
	return fmt.Sprintf("%q", s)
}

func (c *checker) evalItem(it item) {
	p := c.progs[it.p]
	sites := make([]site, len(it.sites))
	for i, si := range it.sites {
		sites[i] = p.sites[si]
	}
	text, ok := apply(p.src, sites)
	if !ok {
		atomic.AddInt64(&c.overlap, 1)
		return
	}
	tname := sites[0].t
	if len(sites) > 1 {
		tname = it.phase
	}
	if text == p.src {
		return
	}
	if !p.preserved(text, sites) {
		c.bump(c.notPres, tname)
		return
	}
	if c.guardOn && inGreedyRegion(text) {
		atomic.AddInt64(&c.guarded, 1)
		return
	}
	atomic.AddInt64(&c.evals, 1)
	c.distinct.Add(p.name + "\x00" + text)
	symptom, tg, res := p.judge(text)
	c.mu.Lock()
	c.perT[it.phase+":"+tname]++
	for _, s := range sites {
		c.cells[s.t+"@"+s.kind]++
	}
	if symptom == "" {
		c.outcomes["same:"+status(p.base[0])]++
	} else {
		c.outcomes[symptom]++
	}
	c.mu.Unlock()
	if n := atomic.AddInt64(&c.sampleCtr, 1); n%997 == 1 {
		c.run.Sample(map[string]string{"kind": it.phase, "program": p.name, "transformation": tname, "site": sites[0].kind,
			"variant": oneLine(text), "base_status": status(p.base[0]), "outcome": "symptom=" + symptom})
	}
	if symptom == "" {
		return
	}
	// re-run twice: the observation must be identical
	for k := 0; k < 2; k++ {
		s2, t2, r2 := p.judge(text)
		if s2 != symptom || t2 != tg || r2[0].Script != res[0].Script || r2[1].Script != res[1].Script {
			c.harness.CompareAndSwap(nil, fmt.Sprintf("re-run of a failing variant of %s did not reproduce (%s/%s vs %s/%s); variant %q; errors: %q %q / %q %q", p.name, symptom, tg, s2, t2, text, res[0].Err, res[1].Err, r2[0].Err, r2[1].Err))
			return
		}
	}
	// the environment must not have changed under us (e.g. the std directory next to
	// the binary being rebuilt): the base must still transpile to the recorded result
	for k, t := range targets {
		again := drive.TranspileSrc(p.src, t)
		if again.Script != p.base[k].Script || again.HasErr != p.base[k].HasErr {
			c.harness.CompareAndSwap(nil, fmt.Sprintf("the base layout of %s no longer transpiles to the recorded result (%q): the environment changed during the run", p.name, again.Err))
			return
		}
	}
	// minimise the site set (keeps symptom and targets)
	min := sites
	minText := text
	if len(min) > 1 {
		for i := 0; i < len(min); {
			cand := append(append([]site{}, min[:i]...), min[i+1:]...)
			ct, ok := apply(p.src, cand)
			if ok && ct != p.src && p.preserved(ct, cand) && !(c.guardOn && inGreedyRegion(ct)) {
				if s2, t2, _ := p.judge(ct); s2 == symptom && t2 == tg {
					min, minText = cand, ct
					continue
				}
			}
			i++
		}
	}
	key := keyFor(min, symptom, tg)
	_, _, mres := p.judge(minText)
	ti := 0
	if tg == "batch" {
		ti = 1
	}
	detail := ""
	switch {
	case strings.Contains(symptom, "reject"):
		detail = "base: " + clip(p.base[ti].Err) + " | variant: " + clip(mres[ti].Err)
	case symptom == "bytes-differ":
		detail = firstDiff(p.base[ti].Script, mres[ti].Script)
	case strings.Contains(symptom, "panic"):
		detail = clip(mres[ti].Panic)
	}
	c.mu.Lock()
	f := c.finds[key]
	if f == nil {
		f = &finding{}
		c.finds[key] = f
	}
	f.count++
	if f.variant == "" || len(minText) < len(f.variant) || (len(minText) == len(f.variant) && minText < f.variant) {
		f.prog, f.base, f.variant, f.target = p.name, p.src, minText, targets[ti].String()
		f.desc = fmt.Sprintf("program %s: base %s, variant %s; %s", p.name, oneLine(p.src), oneLine(minText), detail)
	}
	c.mu.Unlock()
}

func replayScript(target string) string {
	ext := "sh"
	if target == "batch" {
		ext = "bat"
	}
	return `set +e
# builds /repo's own tsh CLI and transpiles base/main.tsh and variant/main.tsh (same tokens, different layout)
T=$(mktemp -d); trap 'rm -rf "$T"' EXIT
( cd /repo && GOFLAGS=-mod=mod GOPROXY=off GOSUMDB=off GOTOOLCHAIN=local GOCACHE="${GOCACHE:-/verif/.cache/go-build}" go build -o "$T/tsh" . ) || { echo "REPLAY: cannot build /repo"; exit 2; }
cp -r /repo/std "$T/std"; mkdir -p "$T/b" "$T/v"
"$T/tsh" -i base/main.tsh -o "$T/b" -t ` + target + ` > "$T/b.log" 2>&1; eb=$?
"$T/tsh" -i variant/main.tsh -o "$T/v" -t ` + target + ` > "$T/v.log" 2>&1; ev=$?
echo "base: exit=$eb $(head -c 300 "$T/b.log" | head -2)"; echo "variant: exit=$ev $(head -c 300 "$T/v.log" | head -2)"
if [ "$eb" -eq 0 ] && [ "$ev" -eq 0 ]; then
  if cmp -s "$T/b/main.` + ext + `" "$T/v/main.` + ext + `"; then echo "REPLAY: no longer reproduces"; exit 0; fi
  diff "$T/b/main.` + ext + `" "$T/v/main.` + ext + `" | head -20; echo "REPLAY: reproduced (emitted scripts differ)"; exit 1
fi
if [ "$eb" -ne 0 ] && [ "$ev" -ne 0 ]; then echo "REPLAY: no longer reproduces (both rejected)"; exit 0; fi
echo "REPLAY: reproduced (accepted in one layout, rejected in the other)"; exit 1`
}

func (c *checker) runItems(items []item) {
	drive.Par(len(items), func(i int) {
		if c.capHit.Load() || c.harness.Load() != nil {
			return
		}
		if i%64 == 0 && time.Now().After(c.deadline) {
			c.capHit.Store(true)
			return
		}
		c.evalItem(items[i])
	})
}

// Run executes the C12 check.
func Run() int {
	defer drive.Cleanup()
	r := findings.New("C12")
	thorough := r.Thorough()
	c := &checker{run: r, distinct: findings.NewDistinct(), finds: map[string]*finding{}, outcomes: map[string]int{},
		perT: map[string]int{}, notPres: map[string]int{}, cells: map[string]int{}}
	c.deadline = r.Deadline(10*time.Minute, 28*time.Minute)
	go watchdog()

	all, err := corpus()
	if err != nil {
		fmt.Fprintln(os.Stderr, "HARNESS ERROR: cannot build the corpus:", err)
		return 2
	}
	byOrigin := map[string]int{}
	skipped := map[string]int{}
	baseStatus := map[string]int{}
	infos := make([]*pinfo, len(all))
	seen := map[string]bool{}
	drive.Par(len(all), func(i int) {
		p := &pinfo{prog: all[i]}
		infos[i] = p
		lr := reflex.Lex(p.src)
		if lr.Err != "" {
			p.skip = "reference lexer expects a lexical error: " + lr.Err
			return
		}
		if !lr.OnlyUnspec(allowedUnspec...) {
			p.skip = "tokenisation unspecified: " + strings.Join(lr.Unspec, ",")
			return
		}
		p.lex, p.baseToks = lr.Lexemes, tokens(lr)
		t0 := time.Now()
		for k, t := range targets {
			p.base[k] = drive.TranspileSrc(p.src, t)
			again := drive.TranspileSrc(p.src, t)
			if again.Script != p.base[k].Script || again.HasErr != p.base[k].HasErr {
				p.skip = "base transpilation is not repeatable (owned by C14)"
				return
			}
			if p.base[k].Panic != "" {
				p.skip = "base panics (owned by C13)"
				return
			}
		}
		p.costMs = float64(time.Since(t0).Microseconds()) / 4000
		if status(p.base[0]) != status(p.base[1]) {
			p.skip = "base accepted on one target only"
			return
		}
		// small generated programs additionally get every comment text at every comment site
		// (quick: the forms at top level and the top-level forms; thorough: every generated program)
		small := p.origin == "generated" && len(p.baseToks) <= 120 && !strings.Contains(p.src, "import")
		if !thorough {
			small = small && (strings.HasSuffix(p.name, "@top") || !strings.Contains(p.name, "@"))
		}
		p.sites = findSitesEx(p.src, p.lex, small)
	})
	for _, p := range infos {
		byOrigin[p.origin]++
		if seen[p.src] && p.skip == "" {
			p.skip = "duplicate text"
		}
		seen[p.src] = true
		if p.skip != "" {
			skipped[p.skip]++
			continue
		}
		baseStatus[p.origin+":"+status(p.base[0])]++
		c.progs = append(c.progs, p)
	}

	// ---- guard sentinel
	{
		sp := &pinfo{prog: prog{name: "sentinel", src: sentinelBase}}
		lr := reflex.Lex(sentinelBase)
		sp.lex, sp.baseToks = lr.Lexemes, tokens(lr)
		for k, t := range targets {
			sp.base[k] = drive.TranspileSrc(sentinelBase, t)
		}
		if !equalToks(sp.baseToks, tokens(reflex.Lex(sentinelVariant))) {
			fmt.Fprintln(os.Stderr, "HARNESS ERROR: sentinel variant is not token-preserving")
			return 2
		}
		sym, tg, _ := sp.judge(sentinelVariant)
		sym2, tg2, _ := sp.judge(sentinelVariant)
		if sym != sym2 || tg != tg2 {
			fmt.Fprintln(os.Stderr, "HARNESS ERROR: sentinel not repeatable")
			return 2
		}
		if sym != "" {
			r.Fail(guardKey, fmt.Sprintf("two block comments in one file: base %q, variant %q: %s on %s (the lexer's block-comment pattern is greedy and swallows the code between the first comment and the last \"*/\")", sentinelBase, sentinelVariant, sym, tg), func() findings.Replay {
				return findings.Replay{Files: map[string]string{"base/main.tsh": sentinelBase, "variant/main.tsh": sentinelVariant}, Script: replayScript("bash")}
			})
			c.guardOn = r.IsKnown(guardKey)
		}
		r.Set("guard_active", c.guardOn)
	}

	// ---- phase 1: deviation 1, all-at-once per transformation, whole-file styles
	// Quick tier: every program gets one site per (transformation, site kind) cell
	// (the first one); programs that are expensive to transpile (they import a library —
	// every transpilation re-lexes the 260-line std/strings.tsh — or are long) get
	// every all-at-once/style variant but single-site variants only for
	// (transformation, site kind) cells that fewer than two cheaper programs
	// already exercise. The thorough tier applies every site of every program.
	isHeavy := func(p *pinfo) bool {
		for _, t := range p.baseToks {
			if t.t == reflex.Import {
				return true
			}
		}
		return len(p.baseToks) > 150
	}
	order := make([]int, len(c.progs))
	for i := range order {
		order[i] = i
	}
	sort.SliceStable(order, func(a, b int) bool { return !isHeavy(c.progs[order[a]]) && isHeavy(c.progs[order[b]]) })
	cellCover := map[string]int{}
	var items []item
	nHeavy := 0
	for _, pi := range order {
		p := c.progs[pi]
		heavy := isHeavy(p) && !thorough
		if heavy {
			nHeavy++
		}
		seenCell := map[string]bool{}
		byT := map[string][]int{}
		nSingles := 0
		for si, s := range p.sites {
			byT[s.t] = append(byT[s.t], si)
			cell := s.t + "@" + s.kind
			if !thorough && seenCell[cell] {
				continue // quick: one site per (transformation, site kind) cell and program
			}
			if heavy && (cellCover[cell] >= 2 || nSingles >= quickCapHeavy) {
				continue
			}
			nSingles++
			if !seenCell[cell] {
				cellCover[cell]++
			}
			seenCell[cell] = true
			items = append(items, item{p: pi, sites: []int{si}, phase: "single"})
		}
		// all sites of one transformation at once (only the individually token-preserving ones)
		for _, t := range transformations {
			if heavy && !(t == "blank-line" || t == "comment-line" || t == "crlf" || t == "remove-blank" || t == "add-blank") {
				continue // quick tier, expensive program: the styles below cover the other transformations at all sites
			}
			var ok []int
			for _, si := range byT[t] {
				if txt, fine := apply(p.src, []site{p.sites[si]}); fine && p.preserved(txt, []site{p.sites[si]}) {
					ok = append(ok, si)
				}
			}
			if len(ok) > 1 {
				items = append(items, item{p: pi, sites: ok, phase: "all:" + t})
			}
		}
		// whole-file styles
		for _, st := range styles {
			var ok []int
			for _, t := range st.ts {
				for _, si := range byT[t] {
					if txt, fine := apply(p.src, []site{p.sites[si]}); fine && p.preserved(txt, []site{p.sites[si]}) {
						ok = append(ok, si)
					}
				}
			}
			if len(ok) > 1 {
				items = append(items, item{p: pi, sites: ok, phase: "style:" + st.name})
			}
		}
	}
	nPhase1 := len(items)
	{
		// where the time goes: estimated cost per program = base cost x work items
		perProg := map[int]int{}
		for _, it := range items {
			perProg[it.p]++
		}
		type row struct {
			name string
			est  float64
		}
		var rows []row
		tot := 0.0
		for pi, n := range perProg {
			e := c.progs[pi].costMs * float64(n) * 2 / 1000
			rows = append(rows, row{fmt.Sprintf("%s (%.1f ms x %d items)", c.progs[pi].name, c.progs[pi].costMs, n), e})
			tot += e
		}
		sort.Slice(rows, func(i, j int) bool { return rows[i].est > rows[j].est })
		top := []string{}
		for i := 0; i < len(rows) && i < 8; i++ {
			top = append(top, fmt.Sprintf("%.0fs %s", rows[i].est, rows[i].name))
		}
		r.Set("estimated_cpu_s_phase1", int(tot))
		r.Set("costliest_programs", top)
		fmt.Fprintf(os.Stderr, "C12: %d programs, %d phase-1 work items, estimated %.0f CPU-s; top: %v\n", len(c.progs), len(items), tot, top)
	}
	c.runItems(items)
	phase1Complete := !c.capHit.Load()

	// ---- phase 2 (thorough): all pairs of sites on the sub-corpus
	nPairs := 0
	pairsComplete := false
	if thorough && phase1Complete {
		items = items[:0]
		for pi, p := range c.progs {
			if p.origin != "generated" && p.origin != "rejected" {
				continue
			}
			// individually preserved sites only
			var ok []int
			for si := range p.sites {
				if txt, fine := apply(p.src, []site{p.sites[si]}); fine && txt != p.src && p.preserved(txt, []site{p.sites[si]}) {
					ok = append(ok, si)
				}
			}
			small := len(ok) <= 160
			tiny := len(ok) <= 80
			for x := 0; x < len(ok); x++ {
				for y := x + 1; y < len(ok); y++ {
					a, b := p.sites[ok[x]], p.sites[ok[y]]
					near := a.pos-b.pos <= 1 && b.pos-a.pos <= 1
					// same transformation anywhere (small programs); different transformations at the same or neighbouring lexeme
					// ... and every pair whatsoever in tiny programs
					if tiny || (a.t == b.t && small) || (a.t != b.t && near) {
						items = append(items, item{p: pi, sites: []int{ok[x], ok[y]}, phase: "pair"})
					}
				}
			}
		}
		nPairs = len(items)
		c.runItems(items)
		pairsComplete = !c.capHit.Load()
	}
	if h := c.harness.Load(); h != nil {
		fmt.Fprintln(os.Stderr, "HARNESS ERROR:", h)
		return 2
	}

	// ---- verdicts
	keys := drive.SortedKeys(c.finds)
	cellsFailing := map[string]interface{}{}
	for _, k := range keys {
		f := c.finds[k]
		ff := f
		r.Fail(k, fmt.Sprintf("%s (%d variants reduce to this cell)", f.desc, f.count), func() findings.Replay {
			return findings.Replay{Files: map[string]string{"base/main.tsh": ff.base, "variant/main.tsh": ff.variant}, Script: replayScript(ff.target)}
		})
		cellsFailing[k] = map[string]interface{}{"variants": f.count, "program": f.prog, "variant": f.variant}
	}

	// ---- evidence
	exhaustive := phase1Complete && (!thorough || pairsComplete)
	r.Set("evaluations", int(c.evals))
	r.Set("distinct_nontrivial", c.distinct.Len())
	r.Set("rule", "enumerated: corpus program x layout transformation x site set (each site alone; all sites of one transformation; whole-file styles; thorough: on the generated+rejected sub-corpus all pairs of sites in programs with <= 80 sites, all same-transformation pairs in programs with <= 160 sites, all cross-transformation pairs at the same or neighbouring lexeme everywhere); a variant counts as distinct/non-trivial when its text differs from the base and from every other variant of the same program and the reference lexer confirms that its token sequence equals the base's (modulo duplicated line ends at an existing line break / the final line end)")
	r.Set("exhaustive", exhaustive)
	if !exhaustive {
		r.Set("cap_hit", fmt.Sprintf("internal deadline reached (phase 1 complete: %v, pairs complete: %v)", phase1Complete, pairsComplete))
	}
	r.Set("corpus_by_origin", byOrigin)
	r.Set("corpus_used", len(c.progs))
	r.Set("corpus_skipped", skipped)
	r.Set("base_status_by_origin", baseStatus)
	r.Set("work_items_phase1", nPhase1)
	r.Set("work_items_pairs", nPairs)
	r.Set("heavy_programs_reduced_to_uncovered_cells", nHeavy)
	if !thorough {
		r.Set("quick_reductions", fmt.Sprintf("one site per (transformation, site kind) cell and program; programs with imports or > 150 tokens: only cells exercised by < 2 cheaper programs, at most %d single-site variants, all-at-once only for blank-line/comment-line/crlf/remove-blank/add-blank plus the four styles; the thorough tier has none of these reductions", quickCapHeavy))
	}
	r.Set("variants_by_phase_and_transformation", c.perT)
	r.Set("variants_rejected_by_reference_lexer_as_not_token_preserving", c.notPres)
	r.Set("overlapping_edit_pairs_skipped", int(c.overlap))
	r.Set("guarded_variants_not_judged", int(c.guarded))
	r.Set("outcomes", c.outcomes)
	r.Set("distinct_outcomes", len(c.outcomes))
	r.Set("site_cells_reached", len(c.cells))
	r.Set("failing_cells", cellsFailing)
	r.Set("targets", "bash and batch, in-process transpiler.Transpile via drive.TranspileSrc")
	if c.outcomes["same:accept"] == 0 || c.outcomes["same:reject"] == 0 {
		r.Assumef("WARNING vacuity: outcomes %v", c.outcomes)
	}
	r.Assumef("token preservation is decided by the reference lexer verif/reflex; `a - 1` -> `a-1` counts as token-preserving (Go's grammar), `x := -1` -> `x := - 1` does not (negative literal)")
	r.Assumef("blanks are toggled only around operators, commas and brackets (the property's list), not around '.', ':', ';', '@', '|'")
	r.Assumef("only the main file is re-laid-out; std imports resolve to the working tree's std copied next to the binary")
	return r.Finish()
}

// quickCapHeavy bounds the single-site variants of one expensive program in the quick tier.
const quickCapHeavy = 150

// styles: several transformations applied at all their sites at once.
var styles = []struct {
	name string
	ts   []string
}{
	{"windows-editor", []string{"crlf", "indent-blanks", "trailing-blanks"}},
	{"dense", []string{"remove-blank", "indent-none", "final-nl-absent"}},
	{"airy", []string{"add-blank", "blank-line", "indent-tab"}},
	{"commented", []string{"block-comment", "line-comment", "comment-line"}},
}

package c12

import (
	"strings"
	"testing"

	"verif/reflex"
)

func variantsOf(t *testing.T, src, tr string) []string {
	lr := reflex.Lex(src)
	p := &pinfo{prog: prog{src: src}, lex: lr.Lexemes, baseToks: tokens(lr)}
	var out []string
	for _, s := range findSites(src, lr.Lexemes) {
		if s.t != tr {
			continue
		}
		txt, ok := apply(src, []site{s})
		if !ok {
			t.Fatalf("single edit overlaps itself")
		}
		if p.preserved(txt, []site{s}) {
			out = append(out, s.kind+" => "+txt)
		} else {
			out = append(out, s.kind+" => NOT-PRESERVED "+txt)
		}
	}
	return out
}

func TestSites(t *testing.T) {
	src := "switch x {\ncase 1:\n\tprint(a - 1)\n}\n"
	got := strings.Join(variantsOf(t, src, "blank-line"), "|")
	for _, want := range []string{
		"in:switch{,after:{,before:case => switch x {\n\ncase 1:",
		"in:switch{,after::,before:print => switch x {\ncase 1:\n\n\tprint(a - 1)",
		"in:top,after:},before:eof => switch x {\ncase 1:\n\tprint(a - 1)\n}\n\n",
	} {
		if !strings.Contains(got, want) {
			t.Errorf("blank-line: missing %q in\n%s", want, got)
		}
	}
	rb := strings.Join(variantsOf(t, src, "remove-blank"), "|")
	if !strings.Contains(rb, "after:-,before:int => switch x {\ncase 1:\n\tprint(a -1)") || strings.Contains(rb, "NOT-PRESERVED") {
		t.Errorf("remove-blank: %s", rb)
	}
	// `a - -1` -> `a --1` must be refused, `x := -1` offers no site inside the literal
	rb = strings.Join(variantsOf(t, "y := a - -1\n", "remove-blank"), "|")
	if !strings.Contains(rb, "NOT-PRESERVED y := a --1") {
		t.Errorf("a - -1: %s", rb)
	}
	if ab := strings.Join(variantsOf(t, "x := -1\n", "add-blank"), "|"); strings.Contains(ab, "- 1") {
		t.Errorf("negative literal was split: %s", ab)
	}
	// import group context
	im := strings.Join(variantsOf(t, "import (\n\ta \"x\"\n\t\"y\"\n)\nprint(1)\n", "comment-line"), "|")
	for _, want := range []string{"in:import(,after:(,before:ident", "in:import(,after:istr,before:istr", "in:import(,after:istr,before:)", "in:top,after:),before:print"} {
		if !strings.Contains(im, want) {
			t.Errorf("comment-line: missing %q in %s", want, im)
		}
	}
	// final newline
	if v := variantsOf(t, "print(1)\n\n", "final-nl-absent"); len(v) != 1 || !strings.HasSuffix(v[0], "=> print(1)") {
		t.Errorf("final-nl-absent: %v", v)
	}
	if v := variantsOf(t, "print(1)", "final-nl-present"); len(v) != 1 || !strings.HasSuffix(v[0], "=> print(1)\n") {
		t.Errorf("final-nl-present: %v", v)
	}
	// a newline inside a raw string is a line end of the file too (Go discards the carriage return there)
	if v := variantsOf(t, "s := `a\nb`\n", "crlf"); len(v) != 2 {
		t.Errorf("crlf sites: %v", v)
	}
	// a block comment may not be inserted where it would turn "/" into "//"
	if v := strings.Join(variantsOf(t, "x := a / b\n", "block-comment"), "|"); !strings.Contains(v, "=> x := a / /* c */b") {
		t.Errorf("block-comment: %v", v)
	}
	if !inGreedyRegion("/* a */ x /* b */") || inGreedyRegion("/* a */ x") || !inGreedyRegion("/* a */ s := \"*/\"") || inGreedyRegion("s := \"/* */ */\"") {
		t.Errorf("inGreedyRegion")
	}
}

func TestCorpus(t *testing.T) {
	all, err := corpus()
	if err != nil {
		t.Fatal(err)
	}
	by := map[string]int{}
	for _, p := range all {
		by[p.origin]++
	}
	if by["tests"] < 100 || by["generated"] < 100 || by["rejected"] < 30 || by["examples"] < 3 || by["std"] < 2 {
		t.Errorf("corpus too small: %v", by)
	}
}

// c12-dev runs the C12 check stand-alone (development helper).
package main

import (
	"os"

	"verif/c12"
)

func main() { os.Exit(c12.Run()) }

package c12

import (
	"fmt"
	"go/ast"
	"go/parser"
	"go/token"
	"os"
	"path/filepath"
	"sort"
	"strconv"
	"strings"

	vcorpus "verif/corpus"
)

// prog is one corpus program (its text is the BASE layout).
type prog struct {
	name   string
	origin string // tests | tests-callout | examples | std | generated | rejected
	src    string
}

func repoRoot() string {
	if r := os.Getenv("VERIF_REPO"); r != "" {
		return r
	}
	return "/repo"
}

// testSources extracts, at run time, every TypeShell source that the
// repository's shared test bodies (tests/*.go without the per-OS wrappers) pass as a plain
// string literal: either directly as the source argument of the transpiler
// callback, or as the literal returned by a source callout `func(dir string)
// (string, error) { return `...`, nil }`. Computed sources are left out.
func testSources() ([]prog, error) {
	dir := filepath.Join(repoRoot(), "tests")
	files, err := filepath.Glob(filepath.Join(dir, "*.go"))
	if err != nil {
		return nil, err
	}
	sort.Strings(files)
	var out []prog
	fset := token.NewFileSet()
	for _, f := range files {
		// shared bodies only: the *_linux_test.go / *_windows_test.go files are thin wrappers
		if strings.HasSuffix(f, "_linux_test.go") || strings.HasSuffix(f, "_windows_test.go") || filepath.Base(f) == "helpers.go" {
			continue
		}
		af, err := parser.ParseFile(fset, f, nil, 0)
		if err != nil {
			return nil, err
		}
		for _, d := range af.Decls {
			fd, ok := d.(*ast.FuncDecl)
			if !ok || fd.Body == nil {
				continue
			}
			n := 0
			ast.Inspect(fd.Body, func(nd ast.Node) bool {
				call, ok := nd.(*ast.CallExpr)
				if !ok || len(call.Args) != 3 {
					return true
				}
				if id, ok := call.Fun.(*ast.Ident); !ok || id.Name != "transpilerFunc" {
					return true
				}
				origin := ""
				var lit *ast.BasicLit
				switch a := call.Args[1].(type) {
				case *ast.BasicLit:
					if a.Kind == token.STRING {
						lit, origin = a, "tests"
					}
				case *ast.FuncLit:
					// only `return <string literal>, nil` as the sole statement
					if len(a.Body.List) == 1 {
						if rs, ok := a.Body.List[0].(*ast.ReturnStmt); ok && len(rs.Results) == 2 {
							if bl, ok := rs.Results[0].(*ast.BasicLit); ok && bl.Kind == token.STRING {
								lit, origin = bl, "tests-callout"
							}
						}
					}
				}
				if lit == nil {
					return true
				}
				src, err := strconv.Unquote(lit.Value)
				if err != nil {
					return true
				}
				n++
				name := fmt.Sprintf("%s:%s", filepath.Base(f), fd.Name.Name)
				if n > 1 {
					name += fmt.Sprintf("#%d", n)
				}
				out = append(out, prog{name: name, origin: origin, src: src})
				return true
			})
		}
	}
	return out, nil
}

func fileSources(sub, origin string) []prog {
	files, _ := filepath.Glob(filepath.Join(repoRoot(), sub, "*.tsh"))
	sort.Strings(files)
	var out []prog
	for _, f := range files {
		b, err := os.ReadFile(f)
		if err == nil {
			out = append(out, prog{name: sub + "/" + filepath.Base(f), origin: origin, src: string(b)})
		}
	}
	return out
}

// ------------------------------------------------------- generated programs

// statement forms (one or a few lines each); every form is placed at top
// level, inside a function body, inside an if/else, a for body and a switch case.
// Preamble variables: a, b int; s, t string; ok bool; xs []int; ss []string.
const preamble = "a := 7\nb := 2\ns := \"hello\"\nt := `w`\nok := true\nxs := []int{1, 2, 3}\nss := []string{\"p\", \"q\"}\n"

var forms = []struct{ name, code string }{
	{"var-typed", "var v1 int\nprint(v1)"},
	{"var-typed-multi", "var v1, v2 int\nprint(v1, v2)"},
	{"var-typed-init", "var v1 int = 5\nprint(v1)"},
	{"var-init", "var v1 = \"x\"\nprint(v1)"},
	{"var-slice", "var v1 []string\nprint(len(v1))"},
	{"short-def", "v1 := a + 1\nprint(v1)"},
	{"short-def-multi", "v1, v2 := 5, \"six\"\nprint(v1, v2)"},
	{"assign", "a = b * 3\nprint(a)"},
	{"assign-multi", "a, b = 1, 2\nprint(a, b)"},
	{"op-assign", "a += 2\na -= 1\na *= 3\na /= 2\na %= 5\nprint(a)"},
	{"string-op-assign", "s += \"!\"\nprint(s)"},
	{"inc-dec", "a++\nb--\nprint(a, b)"},
	{"neg-literal", "v1 := -1\nv2 := a - -1\nprint(v1, v2, -3)"},
	{"arith", "print(a + b, a - b, a * b, a / b, a % b)"},
	{"arith-paren", "print((a + b) * (a - b), a + (b * 2))"},
	{"compare", "print(a == b, a != b, a < b, a <= b, a > b, a >= b)"},
	{"logical", "print(ok && a < b, ok || a < b, !ok)"},
	{"string-concat", "print(s + \" \" + t)"},
	{"string-compare", "print(s == t, s != \"hello\")"},
	{"string-index", "print(s[0], s[1:3], s[:2], s[2:], len(s))"},
	{"string-escapes", "print(\"tab\\there\", \"q\\\"q\", \"b\\\\b\", \"nl\\n\")"},
	{"raw-string", "print(`raw \\n \"q\"`)"},
	{"raw-string-multiline", "v1 := `line1\nline2`\nprint(v1)"},
	{"slice-literal", "v1 := []int{4, 5}\nv2 := []string{}\nv3 := []bool{true, false}\nprint(len(v1), len(v2), len(v3))"},
	{"slice-index", "print(xs[0], xs[a - 6], ss[1])"},
	{"slice-set", "xs[0] = 10\nss[2] = \"r\"\nprint(xs[0], ss[2])"},
	{"slice-copy", "v1 := []int{0, 0}\nn := copy(v1, xs)\nprint(n, v1[1])"},
	{"itoa", "print(itoa(a) + \"x\")"},
	{"print-forms", "print()\nprint(1)\nprint(\"a\", 2, true)"},
	{"if", "if a > b {\n\tprint(\"gt\")\n}"},
	{"if-else", "if a < b {\n\tprint(\"lt\")\n} else {\n\tprint(\"ge\")\n}"},
	{"if-elseif-else", "if a < b {\n\tprint(1)\n} else if a == b {\n\tprint(2)\n} else if ok {\n\tprint(3)\n} else {\n\tprint(4)\n}"},
	{"if-empty", "if ok {\n}"},
	{"if-nested", "if ok {\n\tif a > 1 {\n\t\tprint(\"in\")\n\t}\n}"},
	{"switch-tag", "switch a {\ncase 7:\n\tprint(\"seven\")\ncase 8:\n\tprint(\"eight\")\ndefault:\n\tprint(\"other\")\n}"},
	{"switch-default-first", "switch a {\ndefault:\n\tprint(\"other\")\ncase 7:\n\tprint(\"seven\")\n}"},
	{"switch-true", "switch true {\ncase a == 7:\n\tprint(\"t7\")\ndefault:\n\tprint(\"tf\")\n}"},
	{"switch-tagless", "switch {\ncase a < b:\n\tprint(\"lt\")\ncase a > b:\n\tprint(\"gt\")\n}"},
	{"switch-string", "switch s {\ncase \"hello\":\n\tprint(1)\n\tprint(2)\ncase t:\n}"},
	{"switch-empty", "switch a {\n}"},
	{"switch-only-default", "switch a {\ndefault:\n\tprint(\"d\")\n}"},
	{"for-three", "for i := 0; i < 3; i++ {\n\tprint(i)\n}"},
	{"for-three-noinit", "i := 0\nfor ; i < 2; i++ {\n\tprint(i)\n}"},
	{"for-three-nopost", "for i := 0; i < 2; {\n\ti++\n}"},
	{"for-cond", "n := 0\nfor n < 2 {\n\tn++\n}\nprint(n)"},
	{"for-bare-break", "n := 0\nfor {\n\tn++\n\tif n > 2 {\n\t\tbreak\n\t}\n}\nprint(n)"},
	{"for-continue", "for i := 0; i < 4; i++ {\n\tif i % 2 == 0 {\n\t\tcontinue\n\t}\n\tprint(i)\n}"},
	{"for-range-slice", "for i, v := range xs {\n\tprint(i, v)\n}"},
	{"for-range-index", "for i := range ss {\n\tprint(i)\n}"},
	{"for-range-string", "for i, c := range s {\n\tprint(i, c)\n}"},
	{"for-nested", "for i := 0; i < 2; i++ {\n\tfor j := 0; j < 2; j++ {\n\t\tprint(i * j)\n\t}\n}"},
	{"for-decrement", "for i := 2; i >= 0; i-- {\n\tprint(i)\n}"},
	{"panic", "if a < 0 {\n\tpanic(\"negative\")\n}"},
	{"write-read-exists", "write(\"f.txt\", s)\nwrite(\"f.txt\", t, true)\nprint(exists(\"f.txt\"), read(\"f.txt\"))"},
	{"input", "v1 := input(\"name: \")\nv2 := input()\nprint(v1, v2)"},
	{"app-call", "@echo(\"hi\")"},
	{"app-pipe", "@echo(\"b\") | @sort(\"-r\")"},
	{"app-capture", "o1, e1, c1 := @echo(\"x\") | @cat()\nprint(o1, e1, c1)"},
	{"app-path", "@`./tool.sh`(\"arg\", s)"},
	{"trailing-comment", "a = 1 // set a\nprint(a) /* done */"},
	{"comment-lines", "// leading comment\n/* block\n   comment */\nprint(a)"},
	{"nil-error", "var e1 error\nif e1 == nil {\n\tprint(\"none\")\n}"},
	{"bool-ops", "v1 := a < b == ok\nprint(v1, !(a < b))"},
	{"semicolon-free-header", "for ok {\n\tok = false\n}"},
}

// single statements placed last in a file / block.
var lastStatements = []struct{ name, code string }{
	{"var-typed", "var v1 int"},
	{"var-typed-multi", "var v1, v2 string"},
	{"var-typed-init", "var v1 int = 5"},
	{"var-init", "var v1 = a"},
	{"var-slice", "var v1 []int"},
	{"short-def", "v1 := a"},
	{"short-def-multi", "v1, v2 := a, s"},
	{"short-def-string", "v1 := \"x\""},
	{"short-def-raw", "v1 := `x`"},
	{"short-def-slice", "v1 := []int{1}"},
	{"short-def-bool", "v1 := true"},
	{"short-def-neg", "v1 := -1"},
	{"assign", "a = b"},
	{"assign-multi", "a, b = b, a"},
	{"op-assign", "a += b"},
	{"inc", "a++"},
	{"dec", "b--"},
	{"slice-set", "xs[0] = a"},
	{"print", "print(a)"},
	{"print-empty", "print()"},
	{"print-index", "print(xs[0])"},
	{"copy-def", "v1 := copy(xs, xs)"},
	{"len-def", "v1 := len(s)"},
	{"app-call", "@echo(s)"},
	{"write", "write(\"f.txt\", s)"},
	{"expr-stmt", "a + b"},
	{"compare-stmt", "a == b"},
	{"itoa-stmt", "itoa(a)"},
}

// function-level forms (only legal at top level).
var topForms = []struct{ name, code string }{
	{"func-void", "func f1() {\n\tprint(\"f1\")\n}\nf1()"},
	{"func-param-ret", "func f1(p int) int {\n\treturn p * 2\n}\nprint(f1(3))"},
	{"func-two-params", "func f1(p int, q string) string {\n\treturn q + itoa(p)\n}\nprint(f1(1, \"n\"))"},
	{"func-multi-ret", "func f1(p int, q int) (int, int) {\n\treturn p / q, p % q\n}\nd, m := f1(7, 2)\nprint(d, m)"},
	{"func-multi-ret-var", "func f1() (int, string) {\n\treturn 1, \"s\"\n}\nvar d, m = f1()\nprint(d, m)"},
	{"func-slice-param", "func f1(p []int) int {\n\treturn len(p)\n}\nprint(f1([]int{1, 2}))"},
	{"func-slice-ret", "func f1() []string {\n\treturn []string{\"a\"}\n}\nprint(len(f1()))"},
	{"func-early-return", "func f1(p int) string {\n\tif p > 1 {\n\t\treturn \"big\"\n\t}\n\treturn \"small\"\n}\nprint(f1(2))"},
	{"func-calls-func", "func f1() int {\n\treturn 1\n}\nfunc f2() int {\n\treturn f1() + 1\n}\nprint(f2())"},
	{"func-nested-call-args", "func f1(p int) int {\n\treturn p + 1\n}\nprint(f1(f1(1)), f1(2) * 3)"},
	{"func-global", "g1 := 5\nfunc f1() int {\n\treturn g1\n}\nprint(f1())"},
	{"func-error-ret", "func f1() error {\n\treturn nil\n}\nerr := f1()\nif err != nil {\n\tprint(err)\n}"},
	{"import-single", "import \"strings\"\nprint(strings.Contains(\"abc\", \"b\"))"},
	{"import-group", "import (\n\t\"strings\"\n)\nprint(strings.HasPrefix(\"abc\", \"a\"))"},
	{"import-group-alias", "import (\n\tst \"strings\"\n\t\"os\"\n)\nprint(st.Index(\"abc\", \"c\"), os.Shell())"},
	{"import-after-blank", "\n\nimport \"strings\"\n\nprint(strings.Join([]string{\"a\", \"b\"}, \"-\"))"},
	{"import-only", "import \"strings\""},
	{"import-group-only", "import (\n\t\"strings\"\n)"},
	{"empty-program", ""},
	{"only-comment", "// nothing here\n"},
	{"no-final-newline", "print(1)"},
	{"crlf-base", "a := 1\r\nif a == 1 {\r\n\tprint(a)\r\n}\r\n"},
	{"blanks-indent-base", "a := 1\nif a == 1 {\n    print(a)\n}\n"},
	{"dense-operators", "a:=1\nb:=a+2*(a+3)\nprint(a,b,a<b,a==b&&true)\nxs:=[]int{1,2}\nxs[0]=a\nprint(xs[0])"},
}

func indent(code, prefix string) string {
	lines := strings.Split(code, "\n")
	for i, l := range lines {
		if l != "" {
			lines[i] = prefix + l
		}
	}
	return strings.Join(lines, "\n")
}

func generated() []prog {
	var out []prog
	add := func(name, src string) { out = append(out, prog{name: "gen:" + name, origin: "generated", src: src}) }
	contexts := []string{"top", "func", "if-else", "for", "case"}
	for i, f := range forms {
		// every form at top level; other contexts in rotation so that every context sees every kind of form
		add(f.name+"@top", preamble+f.code+"\n")
		ctx := contexts[1+i%4]
		var src string
		multiline := strings.Contains(f.code, "`line1") // raw multi-line literal must not be indented
		body := f.code
		if !multiline {
			body = indent(f.code, "\t")
		}
		switch ctx {
		case "func":
			src = "func wrap(a int, b int, s string, t string, ok bool, xs []int, ss []string) {\n" + body + "\n}\nwrap(7, 2, \"hello\", `w`, true, []int{1, 2, 3}, []string{\"p\", \"q\"})\n"
		case "if-else":
			src = preamble + "if a > 100 {\n\tprint(\"never\")\n} else {\n" + body + "\n}\n"
		case "for":
			src = preamble + "for k := 0; k < 1; k++ {\n" + body + "\n}\n"
		case "case":
			src = preamble + "switch b {\ncase 2:\n" + body + "\ndefault:\n\tprint(\"no\")\n}\n"
		}
		add(f.name+"@"+ctx, src)
	}
	// compact spellings (no blanks around operators): a base layout need not be gofmt-style
	add("compact-operators", preamble+"c:=a-1\nd:=a -1\ne:=(a)-1+b*2\nf:=xs[b-1]+xs[b -1]\ng:=a<b&&b>1||ok\nprint(c,d,e,f,g,a+-1,a- -1,s+t)\nfor k:=0;k<2;k++{\n\tif k==a-7{\n\t\tprint(k-1,xs[k]-1)\n\t}\n}\n")
	add("multi-line-raw-string-and-comment", preamble+"/* a block comment\n   over two lines */ m := `first\nsecond\n\nfourth`\nprint(len(m), m)\nprint(m == \"first\\nsecond\\n\\nfourth\")\n")
	// every statement kind as the LAST statement of the file (with and without a final line end: the
	// final-newline transformations toggle it) and as the last statement of a block
	for _, ls := range lastStatements {
		add("last:"+ls.name+"@file", preamble+ls.code+"\n")
		add("last:"+ls.name+"@file-no-newline", preamble+ls.code)
		add("last:"+ls.name+"@if-block", preamble+"if ok {\n"+indent(ls.code, "\t")+"\n}\n")
		add("last:"+ls.name+"@for-block", preamble+"for k := 0; k < 1; k++ {\n"+indent(ls.code, "\t")+"\n}\n")
		add("last:"+ls.name+"@func-block", "func wrap(a int, b int, s string, ok bool, xs []int) {\n"+indent(ls.code, "\t")+"\n}\nwrap(7, 2, \"hello\", true, []int{1, 2, 3})\n")
		add("last:"+ls.name+"@case-block", preamble+"switch b {\ncase 2:\n"+indent(ls.code, "\t")+"\n}\n")
	}
	for _, f := range topForms {
		src := f.code
		if f.name != "empty-program" && f.name != "no-final-newline" && !strings.HasSuffix(src, "\n") {
			src += "\n"
		}
		add(f.name, src)
	}
	return out
}

// rejected programs: lexically valid (so that layout sites are well defined),
// refused by the parser/type checker for a reason unrelated to layout.
func rejected() []prog {
	srcs := []struct{ name, src string }{
		{"type-mismatch-assign", "a := 1\na = \"s\"\n"},
		{"type-mismatch-var", "var a int = \"s\"\n"},
		{"undefined-var", "print(zz)\n"},
		{"undefined-func", "zz(1)\n"},
		{"redefinition", "a := 1\na := 2\n"},
		{"non-bool-if", "if 1 {\n\tprint(1)\n}\n"},
		{"non-bool-for", "for \"s\" {\n\tprint(1)\n}\n"},
		{"arith-on-string", "a := \"s\" - 1\n"},
		{"compare-mixed", "print(1 == \"1\")\n"},
		{"logical-on-int", "print(1 && 2)\n"},
		{"not-on-int", "print(!1)\n"},
		{"wrong-arg-count", "func f(p int) int {\n\treturn p\n}\nprint(f(1, 2))\n"},
		{"wrong-arg-type", "func f(p int) int {\n\treturn p\n}\nprint(f(\"s\"))\n"},
		{"wrong-return-type", "func f() int {\n\treturn \"s\"\n}\nprint(f())\n"},
		{"missing-return", "func f() int {\n\tprint(1)\n}\nprint(f())\n"},
		{"return-count", "func f() (int, int) {\n\treturn 1\n}\na, b := f()\nprint(a, b)\n"},
		{"use-before-def-func", "print(f())\nfunc f() int {\n\treturn 1\n}\n"},
		{"break-outside", "break\n"},
		{"continue-outside", "continue\n"},
		{"return-outside-value", "a := 1\nif a == 1 {\n\tprint(a\n}\n"},
		{"unbalanced-brace", "if true {\n\tprint(1)\n"},
		{"unbalanced-paren", "print((1 + 2)\n"},
		{"missing-operand", "a := 1 +\nprint(a)\n"},
		{"double-operator", "a := 1 + * 2\n"},
		{"switch-type-mismatch", "a := 1\nswitch a {\ncase \"s\":\n\tprint(1)\n}\n"},
		{"switch-two-defaults", "a := 1\nswitch a {\ndefault:\n\tprint(1)\ndefault:\n\tprint(2)\n}\n"},
		{"slice-elem-type", "xs := []int{1, \"s\"}\n"},
		{"index-non-int", "xs := []int{1}\nprint(xs[\"0\"])\n"},
		{"range-over-int", "for i, v := range 5 {\n\tprint(i, v)\n}\n"},
		{"multi-assign-count", "a, b := 1\n"},
		{"stmt-garbage", "a := 1 2\n"},
		{"two-stmts-one-line", "a := 1 b := 2\n"},
		{"len-of-int", "print(len(5))\n"},
		{"scope-leak", "if true {\n\tinner := 1\n}\nprint(inner)\n"},
		{"import-missing", "import \"nonexistent_library\"\nprint(1)\n"},
		{"import-not-first", "print(1)\nimport \"strings\"\n"},
	}
	var out []prog
	for _, s := range srcs {
		out = append(out, prog{name: "rej:" + s.name, origin: "rejected", src: s.src})
	}
	return out
}

func corpus() ([]prog, error) {
	ts, err := testSources()
	if err != nil {
		return nil, err
	}
	var all []prog
	all = append(all, ts...)
	all = append(all, fileSources("examples", "examples")...)
	all = append(all, fileSources("std", "std")...)
	all = append(all, generated()...)
	all = append(all, rejected()...)
	// shared corpora (package corpus): the sole-facility programs and one program that executes every statement
	// of the cross-feature alphabet
	for _, p := range vcorpus.Tiny() {
		all = append(all, prog{name: "tiny:" + p.Name, origin: "generated", src: p.Src})
	}
	ca := vcorpus.CrossAll()
	all = append(all, prog{name: ca.Name, origin: "shared-corpus", src: ca.Src})
	return all, nil
}

// Package c13 decides property C13 (totality of transpilation) by
// bounded-exhaustive enumeration of inputs executed in crash-isolated workers.
package c13

import (
	"crypto/sha256"
	"encoding/json"
	"errors"
	"fmt"
	"os"
	"sort"
	"strings"
	"sync"
	"sync/atomic"
	"time"

	"verif/c13/ovl"
	"verif/c13/wpool"
	"verif/drive"
	"verif/findings"
)

const (
	batchSize = 48
	poolSize  = 16
)

type explorer struct {
	r        *findings.Run
	pool     *wpool.Pool
	mode     string // depth-counter | stack-limit+watchdog
	watchdog time.Duration
	deadline time.Time

	mu          sync.Mutex
	bySpace     map[string]map[string]int // space -> class -> count
	sigs        *findings.Distinct
	inputs      *findings.Distinct
	nontriv     *findings.Distinct
	evals       int64
	flaky       int64
	slowFails   int64      // confirmed hangs / worker deaths so far
	aloneMu     sync.Mutex // queue of the confirmations that run alone
	slowShrunk  int64      // hangs / worker deaths handed to the shrinker so far
	skips       map[string]int
	capHit      string
	failing     []failingCase
	failSeen    map[string]bool
	harnessErr  string
	memo        sync.Map // inputHash -> symptom of deterministic (non-timing) observations
	memoHits    int64
	guards      map[string]string // symptom -> listed guard key
	guarded     map[string]int
	confirmed   map[string]bool
	sampleCount map[string]int
}

type failingCase struct {
	c      Case
	sym    string
	detail string
}

func symptomOfResult(res WRes) string {
	switch res.Class {
	case "script", "error", "skip":
		return ""
	case "panic":
		return "panic:" + res.PanicClass + "@" + res.Func
	case "both":
		return "both(script+error)"
	}
	return res.Class // neither, empty-error, unbounded-recursion
}

func symptomOfFailure(err error) (string, string) {
	var f *wpool.Failure
	if errors.As(err, &f) {
		if f.Kind == wpool.ErrTimeout {
			return "hang", "no answer within the watchdog"
		}
		se := f.Stderr
		switch {
		case strings.Contains(se, "goroutine stack exceeds"):
			return "unbounded-recursion", "goroutine stack limit exceeded: " + firstLine(se)
		case strings.Contains(se, "out of memory") || strings.Contains(se, "cannot allocate memory"):
			return "worker-death:out-of-memory", firstLine(se)
		case strings.Contains(se, "fatal error:"):
			i := strings.Index(se, "fatal error:")
			return "worker-death:fatal-error", firstLine(se[i:])
		}
		return "worker-death:other", f.Wait + " " + firstLine(se)
	}
	return "harness", err.Error()
}

// sweepWatchdog is the first-pass limit of the sweep (typical cases take < 10 ms, the slowest corpus program
// ~0.2 s): a case that exceeds it is not judged by it, it is re-run alone under the full watchdog.
const sweepWatchdog = 8 * time.Second

// runOne executes a single case (alone: while nothing else runs).
func (e *explorer) runOne(w WCase, alone bool) (sym, detail string, res WRes) {
	return e.runOneT(w, alone, e.watchdog)
}

func (e *explorer) runOneT(w WCase, alone bool, limit time.Duration) (sym, detail string, res WRes) {
	req, _ := json.Marshal(WReq{Cases: []WCase{w}})
	var resp []byte
	var err error
	if alone {
		resp, err = e.pool.CallAlone(req, limit)
	} else {
		resp, err = e.pool.Call(req, limit)
	}
	if err != nil {
		sym, detail = symptomOfFailure(err)
		if sym == "harness" {
			e.harness("worker pool: " + detail)
		}
		return sym, detail, WRes{}
	}
	var wr WResp
	if jerr := json.Unmarshal(resp, &wr); jerr != nil || len(wr.Results) != 1 {
		e.harness("malformed worker reply: " + string(resp))
		return "harness", "malformed reply", WRes{}
	}
	res = wr.Results[0]
	sym = symptomOfResult(res)
	detail = res.PanicMsg
	return sym, detail, res
}

func (e *explorer) harness(msg string) {
	e.mu.Lock()
	if e.harnessErr == "" {
		e.harnessErr = msg
	}
	e.mu.Unlock()
}

func inputHash(w WCase) string {
	h := sha256.New()
	fmt.Fprintf(h, "%d|%s|", w.Target, w.Main)
	for _, f := range w.Files {
		fmt.Fprintf(h, "%s|%d|%d|", f.Name, f.Kind, len(f.Data))
		h.Write(f.Data)
	}
	return string(h.Sum(nil))
}

func (e *explorer) record(c Case, res WRes) {
	atomic.AddInt64(&e.evals, 1)
	if os.Getenv("VERIF_VERBOSE") != "" && strings.HasPrefix(c.Label, "special=import-std") {
		fmt.Fprintf(os.Stderr, "C13: %s target=%d -> %s %s\n", c.Label, c.W.Target, res.Class, clip(res.Sig, 120))
	}
	if res.Class != "hang" && !strings.HasPrefix(res.Class, "worker-death") {
		e.memo.Store(inputHash(c.W), symptomOfResult(res))
	}
	e.inputs.Add(inputHash(c.W))
	e.sigs.Add(res.Sig)
	nontriv := false
	for _, f := range c.W.Files {
		if f.Name == c.W.Main && len(f.Data) > 0 {
			nontriv = true
		}
	}
	if nontriv {
		e.nontriv.Add(inputHash(c.W))
	}
	e.mu.Lock()
	m := e.bySpace[c.Space]
	if m == nil {
		m = map[string]int{}
		e.bySpace[c.Space] = m
	}
	m[res.Class]++
	if res.Class == "skip" {
		e.skips[res.Skip]++
	}
	k := c.Space + "/" + res.Class
	take := e.sampleCount[k] < 1
	if take {
		e.sampleCount[k]++
	}
	e.mu.Unlock()
	if take {
		e.r.Sample(map[string]string{"kind": c.Space, "label": clip(c.Label, 200), "input": clip(renderTree(c.W.Files, c.W.Main), 300),
			"target": drive.Target(c.W.Target).String(), "outcome": res.Class, "signature": clip(res.Sig, 120)})
	}
}

func clip(s string, n int) string {
	if len(s) > n {
		return s[:n] + "..."
	}
	return s
}

func (e *explorer) addFailing(c Case, sym, detail string) {
	h := sym + "|" + inputHash(c.W)
	e.mu.Lock()
	defer e.mu.Unlock()
	if e.failSeen[h] {
		return
	}
	e.failSeen[h] = true
	e.failing = append(e.failing, failingCase{c, sym, detail})
}

// runBatch sends a batch; if the worker hangs or dies the cases are re-run one by one.
func (e *explorer) runBatch(cs []Case) {
	if e.flooded() {
		return
	}
	req := WReq{}
	for _, c := range cs {
		req.Cases = append(req.Cases, c.W)
	}
	b, _ := json.Marshal(req)
	// the batch watchdog is per case, so a batch of slow-but-terminating cases is not a hang
	// (first pass with the short sweep watchdog; whatever exceeds it is decided by the full watchdog below)
	resp, err := e.pool.Call(b, sweepWatchdog+time.Duration(len(cs))*500*time.Millisecond)
	if err == nil {
		var wr WResp
		if jerr := json.Unmarshal(resp, &wr); jerr != nil || len(wr.Results) != len(cs) {
			e.harness("malformed worker reply: " + clip(string(resp), 200))
			return
		}
		for i, res := range wr.Results {
			e.record(cs[i], res)
			if sym := symptomOfResult(res); sym != "" {
				e.addFailing(cs[i], sym, res.PanicMsg)
				if sym == "hang" || strings.HasPrefix(sym, "worker-death") {
					atomic.AddInt64(&e.slowFails, 1)
				}
			}
		}
		return
	}
	if s, d := symptomOfFailure(err); s == "harness" {
		e.harness("worker pool: " + d)
		return
	}
	for _, c := range cs {
		if e.flooded() {
			return
		}
		if time.Now().After(e.deadline.Add(2 * time.Minute)) {
			e.mu.Lock()
			if e.capHit == "" {
				e.capHit = "internal deadline reached while cases of a failed batch were re-run one by one"
			}
			e.mu.Unlock()
			return
		}
		sym, detail, res := e.runOneT(c.W, false, sweepWatchdog)
		if sym == "hang" || strings.HasPrefix(sym, "worker-death") || (sym == "unbounded-recursion" && res.Class == "") {
			// re-run once ALONE before believing it (the alone runs queue up behind each other: once enough
			// of them are confirmed, the ones still waiting are given up, unreported)
			e.aloneMu.Lock()
			if e.flooded() {
				e.aloneMu.Unlock()
				return
			}
			sym2, detail2, res2 := e.runOne(c.W, true)
			if sym2 == "hang" || strings.HasPrefix(sym2, "worker-death") {
				atomic.AddInt64(&e.slowFails, 1)
			}
			e.aloneMu.Unlock()
			if sym2 != sym {
				atomic.AddInt64(&e.flaky, 1)
			}
			sym, detail, res = sym2, detail2, res2
		}
		if res.Class == "" {
			res = WRes{Class: sym, Sig: sym}
		}
		e.record(c, res)
		if sym != "" {
			e.addFailing(c, sym, detail)
		}
	}
}

// maxSlowFails: every hang costs two watchdog periods; a tree on which whole input classes hang would keep
// the sweep busy for hours. After this many confirmed hangs / worker deaths the enumeration stops and the
// failures found so far are reported (the run is then not exhaustive, and says so).
const maxSlowFails = 8

func (e *explorer) flooded() bool {
	if atomic.LoadInt64(&e.slowFails) < maxSlowFails {
		return false
	}
	e.mu.Lock()
	if e.capHit == "" {
		e.capHit = fmt.Sprintf("enumeration stopped after %d confirmed hangs / worker deaths; they are reported", maxSlowFails)
	}
	e.mu.Unlock()
	return true
}

// sweep runs a generator through the pool.
func (e *explorer) sweep(name string, gen func(emit func(Case) bool)) {
	if only := os.Getenv("VERIF_C13_SPACES"); only != "" && !strings.Contains(","+only+",", ","+name+",") {
		e.mu.Lock()
		e.capHit = "development run restricted to spaces " + only
		e.mu.Unlock()
		return
	}
	t0 := time.Now()
	ev0 := atomic.LoadInt64(&e.evals)
	defer func() {
		if os.Getenv("VERIF_VERBOSE") != "" {
			fmt.Fprintf(os.Stderr, "C13: space %-3s %8d cases %7.1fs\n", name, atomic.LoadInt64(&e.evals)-ev0, time.Since(t0).Seconds())
		}
	}()
	ch := make(chan Case, 4*batchSize)
	var wg sync.WaitGroup
	for i := 0; i < poolSize+2; i++ {
		wg.Add(1)
		go func() {
			defer wg.Done()
			batch := make([]Case, 0, batchSize)
			for c := range ch {
				batch = append(batch, c)
				if len(batch) == batchSize {
					e.runBatch(batch)
					batch = batch[:0]
				}
			}
			if len(batch) > 0 {
				e.runBatch(batch)
			}
		}()
	}
	n := 0
	gen(func(c Case) bool {
		n++
		if n%64 == 0 && e.flooded() {
			return false
		}
		if (n == 1 || n%256 == 0) && time.Now().After(e.deadline) {
			e.mu.Lock()
			if e.capHit == "" {
				e.capHit = fmt.Sprintf("internal deadline reached in space %s after %d cases of it", name, n)
			}
			e.mu.Unlock()
			return false
		}
		ch <- c
		return true
	})
	close(ch)
	wg.Wait()
}

func otherTarget(t int) int { return 1 - t }

// GuardPrefix starts the key of a guard line in KNOWN_FINDINGS.txt: one listed
// line `known: property=C13 key=guard symptom=<symptom> :: ...` stands for every
// input that shows exactly that symptom (for a panic: error class and function),
// see DESIGN.md 1.6 "Guards instead of blanket exclusions". Without such a line
// every failing input is shrunk and keyed by its minimal witness.
const GuardPrefix = "guard symptom="

// report confirms, shrinks and reports one failing case.
func (e *explorer) report(fc failingCase) {
	c := fc.c
	if gk, ok := e.guards[fc.sym]; ok {
		e.mu.Lock()
		e.guarded[fc.sym]++
		first := e.guarded[fc.sym] == 1
		e.mu.Unlock()
		if first { // the sentinel is confirmed like any other failing case
			for k := 0; k < 2; k++ {
				if sym, _, _ := e.runOne(c.W, false); sym != fc.sym {
					e.harness(fmt.Sprintf("a failing case did not reproduce: %s input=%s first=%s again=%q", c.Label, clip(renderTree(c.W.Files, c.W.Main), 300), fc.sym, sym))
					return
				}
			}
		}
		e.r.Fail(gk, describe(fc.sym, fc.detail), nil)
		return
	}
	slow := fc.sym == "hang" || strings.HasPrefix(fc.sym, "worker-death") || (fc.sym == "unbounded-recursion" && e.mode != "depth-counter")
	same := func(w WCase) bool {
		h := inputHash(w)
		if v, ok := e.memo.Load(h); ok {
			atomic.AddInt64(&e.memoHits, 1)
			return v.(string) == fc.sym
		}
		s, _, res := e.runOne(w, false)
		if res.Class != "" {
			e.memo.Store(h, s)
		}
		return s == fc.sym
	}
	min := c.W
	inputKey := ""
	probes := 0
	budget := 1 << 30
	if slow {
		budget = 24 // every probe of a hang costs a watchdog period
		if n := atomic.AddInt64(&e.slowShrunk, 1); n > 3 {
			budget = 0 // a flood of hangs: the first three are shrunk, the others are reported as found
		}
	}
	if c.Graph != nil {
		g := shrinkGraph(*c.Graph, func(h Graph) bool {
			probes++
			if probes > budget {
				return false
			}
			return same(WCase{Files: h.Files(), Main: c.W.Main, Target: c.W.Target})
		})
		min = WCase{Files: g.Files(), Main: c.W.Main, Target: c.W.Target}
		if !same(min) { // canonical relabelling must preserve the symptom, otherwise keep the unrelabelled graph
			g = *c.Graph
			min = c.W
		}
		inputKey = "import-graph" + g.String()
	} else if fc.sym != "hang" {
		files := shrinkTree(c.W.Files, c.W.Main, func(fs []WFile) bool {
			probes++
			if probes > budget {
				return false
			}
			return same(WCase{Files: fs, Main: c.W.Main, Target: c.W.Target})
		})
		min = WCase{Files: files, Main: c.W.Main, Target: c.W.Target}
		inputKey = renderTree(files, c.W.Main)
	} else {
		inputKey = renderTree(c.W.Files, c.W.Main)
	}
	// Confirmation: the minimal witness (what is reported) is re-run twice with
	// fresh executions and must show the same symptom; once per witness.
	wkey := fc.sym + "|" + inputKey + "|" + fmt.Sprint(min.Target)
	e.mu.Lock()
	done := e.confirmed[wkey]
	e.confirmed[wkey] = true
	e.mu.Unlock()
	if done {
		return
	}
	reruns := 2
	if slow {
		reruns = 1 // hangs and deaths were already re-run alone during the sweep
	}
	for k := 0; k < reruns; k++ {
		sym, _, _ := e.runOne(min, slow)
		if sym != fc.sym {
			e.harness(fmt.Sprintf("a failing case did not reproduce: space=%s %s minimal input=%s first=%s again=%q",
				c.Space, c.Label, clip(inputKey, 300), fc.sym, sym))
			return
		}
	}
	// on which targets does the minimal input show the symptom?
	targets := drive.Target(min.Target).String()
	if !slow || c.Graph != nil {
		o := min
		o.Target = otherTarget(min.Target)
		if s2, _, _ := e.runOne(o, false); s2 == fc.sym {
			targets = "bash+batch"
			min.Target = 0
		}
	} else {
		targets += "(other target not probed)"
	}
	key := fmt.Sprintf("symptom=%s targets=%s input=%s", fc.sym, targets, inputKey)
	desc := fmt.Sprintf("%s; minimal input %s (found in space %s at %s)", describe(fc.sym, fc.detail), inputKey, c.Space, clip(c.Label, 160))
	e.r.Fail(key, desc, func() findings.Replay { return replayFor(min, fc.sym, fc.detail, c) })
}

func describe(sym, detail string) string {
	switch {
	case strings.HasPrefix(sym, "panic:"):
		return "Transpile panics (" + detail + ") in " + sym[strings.Index(sym, "@")+1:]
	case sym == "unbounded-recursion":
		return "Transpile recurses without bound (" + detail + ")"
	case sym == "hang":
		return "Transpile does not return within the watchdog"
	case sym == "neither":
		return "Transpile returns an empty script and a nil error"
	case sym == "both(script+error)":
		return "Transpile returns a script together with an error"
	case sym == "empty-error":
		return "Transpile returns an error whose text is empty"
	}
	return "the worker process died (" + sym + ": " + detail + ")"
}

// Run is the C13 check.
func Run() int {
	r := findings.New("C13")
	defer drive.Cleanup()
	deadline := r.Deadline(240*time.Second, 25*time.Minute)
	scratch := drive.NewDir("c13-")
	argv, mode, note, err := workerBinary(scratch)
	if err != nil {
		fmt.Fprintln(os.Stderr, "C13: HARNESS ERROR:", err)
		return 2
	}
	wdir := drive.NewDir("c13w-")
	pool, err := wpool.New(poolSize, argv, []string{"VERIF_WDIR=" + wdir})
	if err != nil {
		fmt.Fprintln(os.Stderr, "C13: HARNESS ERROR: cannot start workers:", err)
		return 2
	}
	defer pool.Close()
	e := &explorer{r: r, pool: pool, mode: mode, watchdog: 30 * time.Second, deadline: deadline,
		bySpace: map[string]map[string]int{}, sigs: findings.NewDistinct(), inputs: findings.NewDistinct(), nontriv: findings.NewDistinct(),
		guards: map[string]string{}, guarded: map[string]int{}, confirmed: map[string]bool{},
		skips: map[string]int{}, failSeen: map[string]bool{}, sampleCount: map[string]int{}}

	for _, k := range r.KnownKeys(GuardPrefix) {
		e.guards[strings.TrimPrefix(k, GuardPrefix)] = k
	}
	// handshake: the worker must answer and say whether the depth counter is compiled in
	hs, _ := json.Marshal(WReq{Cases: []WCase{{Files: []WFile{{Name: "main.tsh", Data: []byte("print(1)\n")}}, Main: "main.tsh"}}})
	resp, err := pool.Call(hs, 60*time.Second)
	var hr WResp
	if err != nil || json.Unmarshal(resp, &hr) != nil || len(hr.Results) != 1 {
		fmt.Fprintln(os.Stderr, "C13: HARNESS ERROR: worker handshake failed:", err, string(resp))
		return 2
	}
	if hr.Results[0].Class != "script" {
		fmt.Fprintf(os.Stderr, "C13: note: the trivial program print(1) is not transpiled to a script (%s)\n", hr.Results[0].Class)
	}
	if (hr.Depth == "on") != (mode == "depth-counter") {
		fmt.Fprintln(os.Stderr, "C13: HARNESS ERROR: depth-counter overlay state mismatch")
		return 2
	}
	r.Set("recursion_detection", mode)
	r.Set("recursion_detection_note", note)
	fallback := mode != "depth-counter"

	srcRoot, _ := ovl.SrcRoot()
	corpusAll, err := loadCorpus(srcRoot)
	if err != nil {
		fmt.Fprintln(os.Stderr, "C13: HARNESS ERROR: cannot read the corpus of valid programs:", err)
		return 2
	}
	// keep the programs that are valid after re-rendering lexeme-wise
	var corpus []Program
	dropped := 0
	for _, p := range corpusAll {
		toks, ok := Split(p.Src)
		if !ok {
			dropped++
			continue
		}
		p.Toks = toks
		valid := true
		for t := 0; t < 2 && valid; t++ {
			// (short limit: a valid program answers within a fraction of a second; one that does not is not used)
			_, _, res := e.runOneT(single("corpus", p.Name, Render(toks), t).W, false, sweepWatchdog)
			if res.Class != "script" {
				valid = false
			}
		}
		if !valid {
			dropped++
			continue
		}
		corpus = append(corpus, p)
	}
	if len(corpus) < 10 {
		fmt.Fprintf(os.Stderr, "C13: HARNESS ERROR: only %d valid programs found in %s (tests/*.go, examples, std)\n", len(corpus), srcRoot)
		return 2
	}
	// pick: n programs spread evenly over the repository's own sources (tests, examples, std) plus EVERY program of
	// the shared corpora (package corpus: sole-facility programs; the all-statements program in thorough) within
	// the token limit
	shared := func(p Program) bool { return strings.HasPrefix(p.Name, "tiny:") || p.Name == "cross-all-statements" }
	pick := func(n int, maxToks int) []Program {
		var pool, extra []Program
		for _, p := range corpus {
			if len(p.Toks) > maxToks {
				continue
			}
			if shared(p) {
				extra = append(extra, p)
			} else {
				pool = append(pool, p)
			}
		}
		if n >= len(pool) {
			return append(pool, extra...)
		}
		var out []Program
		for i := 0; i < n; i++ {
			out = append(out, pool[i*len(pool)/n])
		}
		return append(out, extra...)
	}
	r.Set("corpus_candidates", len(corpusAll))
	r.Set("corpus_valid", len(corpus))

	thorough := r.Thorough()
	var skippedCyclic int
	// smallest spaces first
	e.sweep("I", func(emit func(Case) bool) { skippedCyclic = genImports(emit, fallback) })
	e.sweep("N", genNearMiss)
	if thorough {
		e.sweep("L", func(emit func(Case) bool) { genLong(emit, []int{12, 24, 48, 96, 200}) })
	} else {
		e.sweep("L", func(emit func(Case) bool) { genLong(emit, []int{24, 48}) })
	}
	if thorough {
		e.sweep("B", func(emit func(Case) bool) { genBytes(emit, 2, 2, 3) })
		e.sweep("T", func(emit func(Case) bool) {
			genTokens(emit, append(append([]string{}, coreTokens...), moreTokens...), 0, 3, "alphabet=50")
		})
		e.sweep("E1", func(emit func(Case) bool) { genSingleEdits(emit, pick(150, 1<<30)) })
		e.sweep("E2", func(emit func(Case) bool) { genDoubleEdits(emit, pick(40, 60)) })
		e.sweep("T4", func(emit func(Case) bool) { genTokens(emit, coreTokens, 4, 4, "alphabet=30") })
	} else {
		e.sweep("B", func(emit func(Case) bool) { genBytes(emit, 2, 1, 0) })
		e.sweep("T", func(emit func(Case) bool) { genTokens(emit, coreTokens, 0, 3, "alphabet=30") })
		e.sweep("E1", func(emit func(Case) bool) { genSingleEdits(emit, pick(40, LongProgram)) })
	}
	if e.harnessErr != "" {
		fmt.Fprintln(os.Stderr, "C13: HARNESS ERROR:", e.harnessErr)
		return 2
	}

	// confirm, shrink, report
	tShrink := time.Now()
	defer func() {
		if os.Getenv("VERIF_VERBOSE") != "" {
			fmt.Fprintf(os.Stderr, "C13: confirm+shrink of %d failing cases %7.1fs\n", len(e.failing), time.Since(tShrink).Seconds())
		}
	}()
	sort.Slice(e.failing, func(i, j int) bool {
		a, b := e.failing[i], e.failing[j]
		if a.sym != b.sym {
			return a.sym < b.sym
		}
		la, lb := len(renderTree(a.c.W.Files, a.c.W.Main)), len(renderTree(b.c.W.Files, b.c.W.Main))
		if la != lb {
			return la < lb
		}
		return renderTree(a.c.W.Files, a.c.W.Main) < renderTree(b.c.W.Files, b.c.W.Main)
	})
	failBySym := map[string]int{}
	for _, fc := range e.failing {
		failBySym[fc.sym]++
	}
	var next int64 = -1
	var wg sync.WaitGroup
	notShrunk := int64(0)
	for w := 0; w < poolSize; w++ {
		wg.Add(1)
		go func() {
			defer wg.Done()
			for {
				i := int(atomic.AddInt64(&next, 1))
				if i >= len(e.failing) {
					return
				}
				if time.Now().After(e.deadline.Add(5 * time.Minute)) {
					atomic.AddInt64(&notShrunk, 1)
					fc := e.failing[i]
					in := renderTree(fc.c.W.Files, fc.c.W.Main)
					if fc.c.Graph != nil {
						in = "import-graph" + fc.c.Graph.Canonical().String()
					}
					key := fmt.Sprintf("symptom=%s targets=%s input=%s", fc.sym, drive.Target(fc.c.W.Target), in)
					e.r.Fail(key, describe(fc.sym, fc.detail)+" (not shrunk: time budget exhausted)", func() findings.Replay { return replayFor(fc.c.W, fc.sym, fc.detail, fc.c) })
					continue
				}
				e.report(e.failing[i])
			}
		}()
	}
	wg.Wait()
	if e.harnessErr != "" {
		fmt.Fprintln(os.Stderr, "C13: HARNESS ERROR:", e.harnessErr)
		return 2
	}

	// evidence
	classes := map[string]int{}
	spaces := map[string]interface{}{}
	for sp, m := range e.bySpace {
		mm := map[string]int{}
		tot := 0
		for k, v := range m {
			mm[k] = v
			classes[k] += v
			tot += v
		}
		mm["total"] = tot
		spaces[sp] = mm
	}
	r.Set("evaluations", int(e.evals))
	r.Set("distinct_inputs", e.inputs.Len())
	r.Set("distinct_nontrivial", e.nontriv.Len())
	r.Set("distinct_outcomes", e.sigs.Len())
	r.Set("outcome_classes", classes)
	r.Set("per_space", spaces)
	r.Set("failing_cases", len(e.failing))
	r.Set("failing_cases_by_symptom", failBySym)
	r.Set("failing_cases_not_shrunk", int(notShrunk))
	r.Set("failing_cases_under_listed_guard", e.guarded)
	r.Set("skipped_unspecified", e.skips)
	r.Set("timeouts_not_reproduced_alone", int(e.flaky))
	r.Set("shrink_probe_memo_hits", int(e.memoHits))
	r.Set("worker_restarts", int(pool.Restarts))
	r.Set("worker_calls", int(pool.Calls))
	r.Set("workers", poolSize)
	r.Set("watchdog_s", int(e.watchdog.Seconds()))
	r.Set("memory_cap_bytes", 2<<30)
	r.Set("cyclic_graphs_not_run_in_fallback_mode", skippedCyclic)
	exhaustive := e.capHit == "" && notShrunk == 0 && !(fallback && skippedCyclic > 0)
	r.Set("exhaustive", exhaustive)
	if e.capHit != "" {
		r.Set("cap_hit", e.capHit)
	} else if fallback && skippedCyclic > 0 {
		r.Set("cap_hit", fmt.Sprintf("no depth counter: %d cyclic import graphs replaced by the 6 minimal cyclic graphs", skippedCyclic))
	}
	tierRule := "quick: B = all byte strings of length <=2 over 256 values as main file and length <=1 as imported file; T = all sequences of length <=3 over 30 lexemes, with and without a declaring prelude; E1 = every single lexeme edit (delete, duplicate, swap with next, replace by each of 40 lexemes) of 40 valid programs; N; I"
	if thorough {
		tierRule = "thorough: B = all byte strings of length <=2 over 256 values as main and as imported file, Bclass = length 3 over a REDUCED alphabet of 42 class representatives (256^3 x 2 targets does not fit the time budget); T = all sequences of length <=3 over 50 lexemes and of length 4 over 30 lexemes, with and without a declaring prelude (length 4: shorter prelude without the multi-value function); E1 = every single lexeme edit of 150 valid programs (programs over 200 lexemes: delete/duplicate/swap only); E2 = every pair of edits (delete, duplicate, swap, replace by 8 lexemes) within a window of 3 lexemes of 40 valid programs; N; I"
	}
	r.Set("rule", tierRule+"; N = near-miss catalogue (every value position x every filler incl. void call, multi-value call, slice, app call; every construct with one lexeme missing); L = every repeatable / nestable production of the grammar repeated n times in a minimal program (operator chains per operator and in an argument, groups, negations, nested calls / builtins / subscripts, argument / result / definition lists, every block kind nested, else-if chains, cases, 19 statement kinds in sequence at top level and in a function, definitions, functions, call chains, long literals / identifiers / comments / blank runs, pipes, unclosed constructs; n = 24, 48 in quick, 12..200 in thorough); I = all 2^9 import graphs over 3 files incl. self-loops and cycles plus missing/directory/unreadable files; everything for both targets. A case is distinct if its (source tree, main, target) differs; non-trivial if the main file is not empty. Oracle: exactly one of (script, nil) / (\"\", error with text); no panic, no unbounded recursion, no hang, no worker death.")
	r.Assumef("unbounded recursion is reported when (*Parser).parse nests deeper than %d (depth counter inserted by a build overlay generated from the current parser.go) or, without the counter, when the goroutine stack exceeds its limit (64 MiB with the counter, 8 MiB without); a repair that merely bounds the import depth at >= %d would be misreported", DepthLimit, DepthLimit)
	r.Assumef("hang = no answer within %d s, confirmed by one re-run alone; typical cases take < 10 ms", int(e.watchdog.Seconds()))
	r.Assumef("unreadable files cannot be produced when the check runs as root; such cases are skipped and counted in skipped_unspecified")
	r.Assumef("byte strings of length 3 are covered over 42 class representatives only; longer inputs only through the token, edit and near-miss spaces")
	_ = dropped
	return r.Finish()
}

// Development entry point of the C13 check: `c13-dev` runs the check,
// `c13-dev c13worker` is the crash-isolated worker.
package main

import (
	"os"

	"verif/c13"
)

func main() {
	if len(os.Args) > 1 && os.Args[1] == "c13worker" {
		os.Exit(c13.Worker())
	}
	os.Exit(c13.Run())
}

package c13

import (
	"go/ast"
	"go/parser"
	"go/token"
	"os"
	"path/filepath"
	"sort"
	"strconv"
	"strings"

	vcorpus "verif/corpus"
)

// Tok is a lexeme of the harness' own splitter (independent of the repository's lexer;
// it is only used to cut inputs into pieces for edits and shrinking, never as an oracle).
type Tok struct {
	Text string // exact source text of the lexeme ("\n" for a newline)
	Kind byte   // 'i' identifier/keyword, 'n' number, 's' string, 'o' operator/punctuation, 'l' newline, 'x' other byte
}

var ops2 = []string{"==", "!=", "<=", ">=", "&&", "||", "+=", "-=", "*=", "/=", "%=", ":=", "++", "--"}

// valueBefore reports whether the last lexeme ends a value (then "-" is an operator).
func valueBefore(toks []Tok) bool {
	if len(toks) == 0 {
		return false
	}
	t := toks[len(toks)-1]
	return t.Kind == 'i' || t.Kind == 'n' || t.Kind == 's' || t.Text == ")" || t.Text == "]"
}

func isLetter(c byte) bool { return c == '_' || (c >= 'a' && c <= 'z') || (c >= 'A' && c <= 'Z') }
func isDigit(c byte) bool  { return c >= '0' && c <= '9' }

// Split cuts source text into lexemes; blanks and comments are dropped. ok is
// false if a string or block comment is not terminated (the caller then works on bytes).
func Split(src string) (toks []Tok, ok bool) {
	src = strings.ReplaceAll(src, "\r\n", "\n")
	i := 0
	for i < len(src) {
		c := src[i]
		switch {
		case c == ' ' || c == '\t':
			i++
		case c == '\n':
			toks = append(toks, Tok{"\n", 'l'})
			i++
		case c == '/' && i+1 < len(src) && src[i+1] == '/':
			for i < len(src) && src[i] != '\n' {
				i++
			}
		case c == '/' && i+1 < len(src) && src[i+1] == '*':
			j := strings.Index(src[i+2:], "*/")
			if j < 0 {
				return toks, false
			}
			if strings.Contains(src[i:i+2+j], "\n") {
				toks = append(toks, Tok{"\n", 'l'})
			}
			i += 2 + j + 2
		case c == '"':
			j := i + 1
			for j < len(src) && src[j] != '"' {
				if src[j] == '\\' {
					j++
				}
				j++
			}
			if j >= len(src) {
				return toks, false
			}
			toks = append(toks, Tok{src[i : j+1], 's'})
			i = j + 1
		case c == '`':
			j := strings.IndexByte(src[i+1:], '`')
			if j < 0 {
				return toks, false
			}
			toks = append(toks, Tok{src[i : i+1+j+1], 's'})
			i += j + 2
		case isLetter(c):
			j := i
			for j < len(src) && (isLetter(src[j]) || isDigit(src[j])) {
				j++
			}
			toks = append(toks, Tok{src[i:j], 'i'})
			i = j
		case isDigit(c) || (c == '-' && i+1 < len(src) && isDigit(src[i+1]) && !valueBefore(toks)):
			j := i
			if c == '-' {
				j++
			}
			for j < len(src) && (isDigit(src[j]) || (src[j] == '.' && j+1 < len(src) && isDigit(src[j+1]))) {
				j++
			}
			toks = append(toks, Tok{src[i:j], 'n'})
			i = j
		default:
			done := false
			for _, op := range ops2 {
				if strings.HasPrefix(src[i:], op) {
					toks = append(toks, Tok{op, 'o'})
					i += len(op)
					done = true
					break
				}
			}
			if !done {
				k := byte('o')
				if c < 0x20 || c >= 0x7f {
					k = 'x'
				}
				toks = append(toks, Tok{string(c), k})
				i++
			}
		}
	}
	return toks, true
}

// Render joins lexemes with single blanks; newlines stand alone.
func Render(toks []Tok) string {
	var sb strings.Builder
	for i, t := range toks {
		if t.Kind == 'l' {
			sb.WriteByte('\n')
			continue
		}
		if i > 0 && toks[i-1].Kind != 'l' {
			sb.WriteByte(' ')
		}
		sb.WriteString(t.Text)
	}
	return sb.String()
}

// Program is a member of the corpus of valid programs.
type Program struct {
	Name string // origin (file:ordinal)
	Src  string
	Toks []Tok
}

// loadCorpus collects candidate programs from the CURRENT tree: every string
// literal with a line break in the shared test bodies (tests/*.go without
// *_test.go and helpers.go), the examples and the standard library files.
func loadCorpus(srcRoot string) ([]Program, error) {
	var out []Program
	files, _ := filepath.Glob(filepath.Join(srcRoot, "tests", "*.go"))
	sort.Strings(files)
	fset := token.NewFileSet()
	for _, f := range files {
		base := filepath.Base(f)
		if strings.HasSuffix(base, "_test.go") || base == "helpers.go" {
			continue
		}
		af, err := parser.ParseFile(fset, f, nil, 0)
		if err != nil {
			return nil, err
		}
		n := 0
		ast.Inspect(af, func(nd ast.Node) bool {
			bl, ok := nd.(*ast.BasicLit)
			if !ok || bl.Kind != token.STRING {
				return true
			}
			s, err := strconv.Unquote(bl.Value)
			if err != nil || !strings.Contains(s, "\n") || len(strings.TrimSpace(s)) < 8 {
				return true
			}
			n++
			out = append(out, Program{Name: "tests/" + base + "#" + strconv.Itoa(n), Src: s})
			return true
		})
	}
	// shared corpora (package corpus)
	for _, p := range vcorpus.Tiny() {
		out = append(out, Program{Name: "tiny:" + p.Name, Src: p.Src})
	}
	ca := vcorpus.CrossAll()
	out = append(out, Program{Name: ca.Name, Src: ca.Src})
	for _, pat := range []string{"examples/*.tsh", "std/*.tsh"} {
		ms, _ := filepath.Glob(filepath.Join(srcRoot, pat))
		sort.Strings(ms)
		for _, m := range ms {
			b, err := os.ReadFile(m)
			if err != nil {
				continue
			}
			rel, _ := filepath.Rel(srcRoot, m)
			out = append(out, Program{Name: rel, Src: string(b)})
		}
	}
	return out, nil
}

#!/bin/bash
# Detection demo for C13: applies one property-breaking edit to a scratch COPY of /repo,
# runs the check against it (VERIF_REPO), prints the VIOLATION lines, deletes the copy.
# usage: demo.sh <peekat|nilnil|emptyerr|none> [quick|thorough]   (DEMO_SPACES=I,N,T restricts the spaces)
set -u
M=${1:-peekat}; TIER=${2:-quick}
. /verif/env.sh
W=$(mktemp -d /dev/shm/c13demo.XXXX); trap 'rm -rf "$W"' EXIT
cp -r /repo "$W/repo"; rm -rf "$W/repo/.git"
mkdir -p "$W/root"; ln -s /verif/engine "$W/root/engine"; ln -s /verif/.cache "$W/root/.cache"
# the defects of the pinned tree are listed so that only the mutant's effect is reported
grep -h '^known: property=C13' /verif/KNOWN_FINDINGS.txt /verif/engine/c13/KNOWN_PROPOSED.txt 2>/dev/null | sort -u > "$W/root/KNOWN_FINDINGS.txt"
python3 - "$M" "$W/repo" <<'PY'
import sys
m,root=sys.argv[1],sys.argv[2]
def sub(path,old,new,count=1):
    p=root+'/'+path; s=open(p).read()
    assert old in s, ('pattern not found',path,old)
    open(p,'w').write(s.replace(old,new,count))
if m=='peekat':
    sub('parser/parser.go','''	if index < len(tokens) {
		token = tokens[index]
	}
	return token''','''	token = tokens[index] // MUTANT: bounds check removed
	return token''')
elif m=='nilnil':
    sub('transpiler/transpiler.go','''	err = t.evaluate(ast)

	if err != nil {
		return "", err
	}''','''	err = t.evaluate(ast)

	if err != nil {
		return "", nil // MUTANT: error swallowed
	}''')
elif m=='emptyerr':
    sub('parser/parser.go','''		return nil, p.expectedError("variable name", nextToken)''','''		return nil, errors.New("") // MUTANT: error without text''')
elif m=='none':
    pass
else:
    sys.exit('unknown mutant '+m)
PY
[ $? -eq 0 ] || exit 2
echo "== mutant: $M =="; (cd "$W/repo" && diff -ru /repo . --exclude=.git | head -40)
(cd /verif/engine && go build -o "$W/c13-dev" ./c13/cmd) || exit 2
VERIF_C13_SPACES=${DEMO_SPACES:-} VERIF_TIER=$TIER VERIF_REPO="$W/repo" VERIF_ROOT="$W/root" timeout 2400 "$W/c13-dev" > "$W/out.txt" 2> "$W/err.txt"; st=$?
grep -v '^KNOWN-FINDING' "$W/out.txt" | cut -c1-420 | head -${DEMO_LINES:-12}; tail -3 "$W/err.txt"
echo "exit status: $st; VIOLATION lines: $(grep -c '^VIOLATION' "$W/out.txt"); KNOWN-FINDING lines: $(grep -c '^KNOWN-FINDING' "$W/out.txt")"
r=$(grep -o 'replay=/[^ ]*' "$W/out.txt" | head -1 | cut -d= -f2)
if [ -n "$r" ] && [ -f "$r/replay.sh" ]; then echo "== replay of the first violation against the mutated copy =="; sed "s#/repo#$W/repo#g" "$r/replay.sh" > "$r/replay_mut.sh"; (cd "$r" && bash replay_mut.sh 2>&1 | tail -4 | cut -c1-300); fi

package c13

import (
	"fmt"
	"strings"
)

// ------------------------------------------------- (L) one production repeated
//
// Every production of the grammar that can be repeated or nested, repeated / nested n times in an otherwise
// minimal program. The inputs are ordinary programs (most are valid); what is judged is what C13 states: the call
// returns - a script or an error - within the watchdog, without a panic or a crash. A cost that doubles per
// repetition stays invisible in the short inputs of the other spaces and cannot stay invisible here.

type longProd struct {
	name string
	gen  func(n int) string
}

func rep(s string, n int) string { return strings.Repeat(s, n) }

func longProductions() []longProd {
	var P []longProd
	add := func(name string, gen func(n int) string) { P = append(P, longProd{name, gen}) }
	chain := func(name, first, op, next, use string) {
		add("chain "+name, func(n int) string { return "v := 1\nw := \"a\"\nx := " + first + rep(" "+op+" "+next, n) + "\n" + use + "\n" })
		add("chain "+name+" in call argument", func(n int) string {
			return "v := 1\nw := \"a\"\nfunc k(p " + map[string]string{"print(x)": "int", "print(len(x))": "string", "print(x == true)": "bool"}[use] + ") {\n}\nk(" + first + rep(" "+op+" "+next, n) + ")\n"
		})
	}
	for _, op := range []string{"+", "-", "*", "/", "%"} {
		chain("int"+op, "7", op, "1", "print(x)")
	}
	chain("int-mixed", "7", "+", "2 * 3 - 1", "print(x)")
	chain("int-variables", "v", "+", "v", "print(x)")
	chain("string+", `"a"`, "+", `"b"`, "print(len(x))")
	chain("string-variables+", "w", "+", "w", "print(len(x))")
	chain("bool&&", "true", "&&", "true", "print(x == true)")
	chain("bool||", "false", "||", "false", "print(x == true)")
	chain("bool-mixed", "true", "&&", "false || true", "print(x == true)")
	chain("bool==", "true", "==", "true", "print(x == true)")
	chain("compare-then-equal", "1 < 2", "==", "true", "print(x == true)")
	add("left-nested groups", func(n int) string { return "x := " + rep("(", n) + "1" + rep(" + 1)", n) + "\nprint(x)\n" })
	add("right-nested groups", func(n int) string { return "x := " + rep("(1 + ", n) + "1" + rep(")", n) + "\nprint(x)\n" })
	add("redundant groups", func(n int) string { return "x := " + rep("(", n) + "1" + rep(")", n) + "\nprint(x)\n" })
	add("negations", func(n int) string { return "x := " + rep("!", n) + "true\nprint(x == true)\n" })
	add("nested calls", func(n int) string {
		return "func h(p int) int {\nreturn p + 1\n}\nx := " + rep("h(", n) + "1" + rep(")", n) + "\nprint(x)\n"
	})
	add("nested builtins", func(n int) string { return "x := " + rep("len(itoa(", n) + "1" + rep("))", n) + "\nprint(x)\n" })
	add("nested subscripts", func(n int) string {
		return "s := []int{0, 0}\nx := " + rep("s[", n) + "0" + rep("]", n) + "\nprint(x)\n"
	})
	add("call arguments", func(n int) string {
		var ps, as []string
		for i := 0; i < n; i++ {
			ps = append(ps, fmt.Sprintf("p%d int", i))
			as = append(as, fmt.Sprint(i))
		}
		return "func k(" + strings.Join(ps, ", ") + ") int {\nreturn p0\n}\nprint(k(" + strings.Join(as, ", ") + "))\n"
	})
	add("return values", func(n int) string {
		var ts, vs, ns []string
		for i := 0; i < n; i++ {
			ts, vs, ns = append(ts, "int"), append(vs, fmt.Sprint(i)), append(ns, fmt.Sprintf("r%d", i))
		}
		return "func k() (" + strings.Join(ts, ", ") + ") {\nreturn " + strings.Join(vs, ", ") + "\n}\n" + strings.Join(ns, ", ") + " := k()\nprint(r0)\n"
	})
	add("multi definition", func(n int) string {
		var vs, ns []string
		for i := 0; i < n; i++ {
			vs, ns = append(vs, fmt.Sprint(i)), append(ns, fmt.Sprintf("r%d", i))
		}
		return strings.Join(ns, ", ") + " := " + strings.Join(vs, ", ") + "\n" + strings.Join(ns, ", ") + " = " + strings.Join(vs, ", ") + "\nprint(r0)\n"
	})
	add("print arguments", func(n int) string { return "print(1" + rep(", 1", n) + ")\n" })
	add("slice literal elements", func(n int) string { return "s := []int{1" + rep(", 1", n) + "}\nprint(len(s))\n" })
	add("string slice literal elements", func(n int) string { return "s := []string{\"a\"" + rep(", \"a\"", n) + "}\nprint(len(s))\n" })
	add("nested if", func(n int) string { return "b := true\n" + rep("if b {\n", n) + "print(1)\n" + rep("}\n", n) })
	add("nested if-else", func(n int) string {
		return "b := false\n" + rep("if b {\nprint(0)\n} else {\n", n) + "print(1)\n" + rep("}\n", n)
	})
	add("nested for", func(n int) string { return "b := true\n" + rep("for b {\n", n) + "b = false\n" + rep("}\n", n) })
	add("nested three-part for", func(n int) string {
		var sb strings.Builder
		for i := 0; i < n; i++ {
			fmt.Fprintf(&sb, "for i%d := 0; i%d < 1; i%d++ {\n", i, i, i)
		}
		return sb.String() + "print(1)\n" + rep("}\n", n)
	})
	add("nested range", func(n int) string {
		var sb strings.Builder
		for i := 0; i < n; i++ {
			fmt.Fprintf(&sb, "for i%d, e%d := range s {\n", i, i)
		}
		return "s := []int{1}\n" + sb.String() + "print(1)\n" + rep("}\n", n)
	})
	add("nested switch", func(n int) string { return "x := 1\n" + rep("switch x {\ncase 1:\n", n) + "print(1)\n" + rep("}\n", n) })
	add("nested mixed blocks", func(n int) string {
		return "x := 1\nb := true\n" + rep("if b {\nfor b {\nswitch x {\ncase 1:\n", n/3+1) + "b = false\n" + rep("}\n}\n}\n", n/3+1)
	})
	add("else-if chain", func(n int) string {
		return "x := 0\nif x == 1 {\nprint(1)\n" + rep("} else if x == 2 {\nprint(2)\n", n) + "} else {\nprint(3)\n}\n"
	})
	add("switch cases", func(n int) string {
		var sb strings.Builder
		for i := 0; i < n; i++ {
			fmt.Fprintf(&sb, "case %d:\nprint(%d)\n", i, i)
		}
		return "x := 0\nswitch x {\n" + sb.String() + "default:\nprint(0)\n}\n"
	})
	add("tagless switch cases", func(n int) string { return "x := 0\nswitch {\n" + rep("case x == 1:\nprint(1)\n", n) + "}\n" })
	for _, st := range []string{"x++", "x += 1", "x = x + 1", "print(x)", "s[0] = x", "x = s[0]", "x = len(s)", "k()", "x = k()", "w = w + \"a\"", "w = itoa(x)", "x = len(w)", "b = x < 1", "if b {\n}", "for b {\nbreak\n}", "switch x {\n}", "// c", "/* c */", ""} {
		st := st
		add("statements "+strings.ReplaceAll(st, "\n", " "), func(n int) string {
			return "x := 0\nb := false\nw := \"\"\ns := []int{1}\nfunc k() int {\nreturn 1\n}\n" + rep(st+"\n", n) + "print(x, b, w, len(s))\n"
		})
		add("statements in a function "+strings.ReplaceAll(st, "\n", " "), func(n int) string {
			return "func k() int {\nreturn 1\n}\nfunc body() {\nx := 0\nb := false\nw := \"\"\ns := []int{1}\n" + rep(st+"\n", n) + "print(x, b, w, len(s))\n}\nbody()\n"
		})
	}
	add("definitions", func(n int) string {
		var sb strings.Builder
		for i := 0; i < n; i++ {
			fmt.Fprintf(&sb, "v%d := %d\n", i, i)
		}
		return sb.String() + "print(v0)\n"
	})
	add("functions", func(n int) string {
		var sb strings.Builder
		for i := 0; i < n; i++ {
			fmt.Fprintf(&sb, "func k%d() int {\nreturn %d\n}\n", i, i)
		}
		return sb.String() + "print(k0())\n"
	})
	add("function call chain", func(n int) string {
		var sb strings.Builder
		sb.WriteString("func k0() int {\nreturn 0\n}\n")
		for i := 1; i < n; i++ {
			fmt.Fprintf(&sb, "func k%d() int {\nreturn k%d() + 1\n}\n", i, i-1)
		}
		return sb.String() + fmt.Sprintf("print(k%d())\n", n-1)
	})
	add("long string literal", func(n int) string { return "x := \"" + rep("abcdefgh", n) + "\"\nprint(len(x))\n" })
	add("long raw string literal", func(n int) string { return "x := `" + rep("abc\ndefgh", n) + "`\nprint(len(x))\n" })
	add("string literal of escapes", func(n int) string { return "x := \"" + rep(`\n\t\\\"`, n) + "\"\nprint(len(x))\n" })
	add("long identifier", func(n int) string { id := "v" + rep("abcdefgh", n); return id + " := 1\nprint(" + id + ")\n" })
	add("long number", func(n int) string { return "x := " + rep("1", n) + "\nprint(x)\n" })
	add("long line comment", func(n int) string { return "// " + rep("comment ", n) + "\nprint(1)\n" })
	add("long block comment", func(n int) string { return "/* " + rep("comment\n * ", n) + "*/\nprint(1)\n" })
	add("blank lines", func(n int) string { return rep("\n", n) + "print(1)" + rep("\n", n) })
	add("blanks", func(n int) string { return rep(" ", n) + "print(" + rep("\t", n) + "1)" + rep(" ", n) + "\n" })
	add("command pipe", func(n int) string { return "x, y, z := @echo(\"a\")" + rep(" | @cat()", n) + "\nprint(x, y, z)\n" })
	add("command arguments", func(n int) string { return "@echo(\"a\"" + rep(", \"a\"", n) + ")\n" })
	add("substring steps", func(n int) string { return "w := \"abcdefgh\"\n" + rep("w = w[0:len(w)]\nw = w[0:] + w[:0]\n", n) + "print(w)\n" })
	add("grouped imports of one module", func(n int) string { return "import (\n" + rep("\"strings\"\n", n) + ")\nprint(1)\n" })
	add("unclosed groups", func(n int) string { return "x := " + rep("(", n) + "1\n" })
	add("unclosed blocks", func(n int) string { return "b := true\n" + rep("if b {\n", n) })
	add("operators without operands", func(n int) string { return "x := 1 " + rep("+ ", n) + "\n" })
	return P
}

// genLong: every production x every length of ns x both targets.
func genLong(emit func(Case) bool, ns []int) {
	for _, n := range ns {
		for _, p := range longProductions() {
			src := p.gen(n)
			for target := 0; target < 2; target++ {
				if !emit(single("L", fmt.Sprintf("production=%q n=%d", p.name, n), src, target)) {
					return
				}
			}
		}
	}
}

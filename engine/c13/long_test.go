package c13

import (
	"testing"

	"verif/drive"
)

// every production of space L that is meant to be a valid program is accepted at n = 5 (non-vacuity of the space)
func TestLongProductionsAccepted(t *testing.T) {
	for _, p := range longProductions() {
		if len(p.name) > 8 && (p.name[:8] == "unclosed" || p.name == "operators without operands" || p.name == "grouped imports of one module") {
			continue
		}
		for tg := 0; tg < 2; tg++ {
			res := drive.TranspileSrc(p.gen(5), drive.Target(tg))
			if !res.OK() {
				t.Errorf("%s target %d: %s %s\n%s", p.name, tg, res.Err, res.Panic, p.gen(5))
			}
		}
	}
}

// Package ovl builds worker binaries from the CURRENT repository tree with
// `go build -overlay`: generated or rewritten source files are supplied
// without touching the repository. It is shared by the C13 and C14 checks.
//
// Two roots are distinguished:
//
//	BuildRoot  the directory the engine module's go.mod replaces
//	           github.com/monstermichl/typeshell with (normally /repo);
//	SrcRoot    the tree whose sources are read (normally the same; a scratch
//	           copy with a deliberate property-breaking edit when the
//	           environment variable VERIF_REPO names one - detection demos).
//
// When the roots differ every Go file of SrcRoot is overlaid onto BuildRoot,
// so a worker always consists of SrcRoot's code.
package ovl

import (
	"bytes"
	"encoding/json"
	"fmt"
	"io"
	"os"
	"os/exec"
	"path/filepath"
	"regexp"
	"strings"

	"verif/findings"
)

const Module = "github.com/monstermichl/typeshell"

// EngineDir is the directory of the engine module (go build runs there).
func EngineDir() string {
	d := filepath.Join(findings.Root(), "engine")
	if r, err := filepath.EvalSymlinks(d); err == nil {
		return r // overlay keys must be the paths the go command sees
	}
	return d
}

var replaceLine = regexp.MustCompile(`(?m)^\s*replace\s+` + regexp.QuoteMeta(Module) + `\s*=>\s*(\S+)`)

// BuildRoot returns the replace target of the engine module.
func BuildRoot() (string, error) {
	b, err := os.ReadFile(filepath.Join(EngineDir(), "go.mod"))
	if err != nil {
		return "", err
	}
	m := replaceLine.FindSubmatch(b)
	if m == nil {
		return "", fmt.Errorf("no replace directive for %s in %s/go.mod", Module, EngineDir())
	}
	p := string(m[1])
	if !filepath.IsAbs(p) {
		p = filepath.Join(EngineDir(), p)
	}
	if r, err := filepath.EvalSymlinks(p); err == nil {
		p = r
	}
	return filepath.Clean(p), nil
}

// SrcRoot returns the tree whose sources are checked.
func SrcRoot() (string, error) {
	if r := os.Getenv("VERIF_REPO"); r != "" {
		a, err := filepath.Abs(r)
		if err != nil {
			return "", err
		}
		return a, nil
	}
	return BuildRoot()
}

// Overlay collects replacement files.
type Overlay struct {
	Dir       string            // scratch directory holding generated files
	Replace   map[string]string // build path -> file with the content ("" deletes)
	BuildRoot string
	SrcRoot   string
	seq       int
}

// New prepares an overlay; dir must be an existing scratch directory.
func New(dir string) (*Overlay, error) {
	br, err := BuildRoot()
	if err != nil {
		return nil, err
	}
	sr, err := SrcRoot()
	if err != nil {
		return nil, err
	}
	o := &Overlay{Dir: dir, Replace: map[string]string{}, BuildRoot: br, SrcRoot: sr}
	if sr != br {
		// Everything the build sees below BuildRoot comes from SrcRoot.
		seen := map[string]bool{}
		err := filepath.Walk(sr, func(p string, info os.FileInfo, err error) error {
			if err != nil {
				return err
			}
			if info.IsDir() {
				if n := info.Name(); p != sr && (strings.HasPrefix(n, ".") || n == "tests") {
					return filepath.SkipDir
				}
				return nil
			}
			if !strings.HasSuffix(p, ".go") || strings.HasSuffix(p, "_test.go") {
				return nil
			}
			rel, _ := filepath.Rel(sr, p)
			seen[rel] = true
			o.Replace[filepath.Join(br, rel)] = p
			return nil
		})
		if err != nil {
			return nil, err
		}
		filepath.Walk(br, func(p string, info os.FileInfo, err error) error {
			if err != nil {
				return nil
			}
			if info.IsDir() {
				if n := info.Name(); p != br && (strings.HasPrefix(n, ".") || n == "tests") {
					return filepath.SkipDir
				}
				return nil
			}
			if !strings.HasSuffix(p, ".go") || strings.HasSuffix(p, "_test.go") {
				return nil
			}
			rel, _ := filepath.Rel(br, p)
			if !seen[rel] {
				o.Replace[p] = "" // deleted in SrcRoot
			}
			return nil
		})
	}
	return o, nil
}

// Src returns the path below SrcRoot.
func (o *Overlay) Src(rel string) string { return filepath.Join(o.SrcRoot, rel) }

// Put supplies content for the file rel (relative to the repository root).
func (o *Overlay) Put(rel string, content []byte) error {
	return o.PutAbs(filepath.Join(o.BuildRoot, rel), content)
}

// PutAbs supplies content for an arbitrary build path (e.g. a file of the engine module).
func (o *Overlay) PutAbs(buildPath string, content []byte) error {
	o.seq++
	f := filepath.Join(o.Dir, fmt.Sprintf("ovl%03d_%s", o.seq, filepath.Base(buildPath)))
	if err := os.WriteFile(f, content, 0o644); err != nil {
		return err
	}
	o.Replace[buildPath] = f
	return nil
}

// GoEnv is the environment every go invocation of the harness needs (offline).
func GoEnv() []string {
	env := os.Environ()
	set := func(k, v string) {
		for i, e := range env {
			if strings.HasPrefix(e, k+"=") {
				env[i] = k + "=" + v
				return
			}
		}
		env = append(env, k+"="+v)
	}
	set("GOFLAGS", "-mod=mod")
	set("GOPROXY", "off")
	set("GOSUMDB", "off")
	set("GOTOOLCHAIN", "local")
	set("CGO_ENABLED", "0")
	if os.Getenv("GOCACHE") == "" {
		set("GOCACHE", filepath.Join(findings.Root(), ".cache", "go-build"))
	}
	return env
}

// Build compiles package pkg of the engine module into out with the overlay
// and places the checked tree's std library next to the binary (std imports
// resolve next to the executable).
func (o *Overlay) Build(pkg, out string) error {
	js, _ := json.MarshalIndent(map[string]interface{}{"Replace": o.Replace}, "", " ")
	jf := filepath.Join(o.Dir, fmt.Sprintf("overlay_%s.json", filepath.Base(out)))
	if err := os.WriteFile(jf, js, 0o644); err != nil {
		return err
	}
	cmd := exec.Command("go", "build", "-overlay", jf, "-o", out, pkg)
	cmd.Dir = EngineDir()
	cmd.Env = GoEnv()
	var buf bytes.Buffer
	cmd.Stdout, cmd.Stderr = &buf, &buf
	if err := cmd.Run(); err != nil {
		return fmt.Errorf("go build -overlay %s %s: %v\n%s", jf, pkg, err, buf.String())
	}
	return CopyStd(o.SrcRoot, filepath.Dir(out))
}

// CopyStd copies <root>/std/*.tsh to <dir>/std.
func CopyStd(root, dir string) error {
	dst := filepath.Join(dir, "std")
	os.RemoveAll(dst)
	if err := os.MkdirAll(dst, 0o755); err != nil {
		return err
	}
	ms, _ := filepath.Glob(filepath.Join(root, "std", "*.tsh"))
	for _, m := range ms {
		in, err := os.Open(m)
		if err != nil {
			return err
		}
		out, err := os.Create(filepath.Join(dst, filepath.Base(m)))
		if err != nil {
			in.Close()
			return err
		}
		_, err = io.Copy(out, in)
		in.Close()
		out.Close()
		if err != nil {
			return err
		}
	}
	return nil
}

// ReplayBuild returns the bash lines that rebuild the repository's own CLI
// from BuildRoot into "$T/tsh" with std next to it (used by replay.sh files).
func ReplayBuild() string {
	br, _ := BuildRoot()
	return `T=$(mktemp -d); trap 'chmod -R u+rwx "$T" 2>/dev/null; rm -rf "$T"' EXIT
export GOFLAGS=-mod=mod GOPROXY=off GOSUMDB=off GOTOOLCHAIN=local CGO_ENABLED=0
(cd ` + br + ` && go build -o "$T/tsh" . ) || { echo "REPLAY: cannot build the repository CLI"; exit 2; }
cp -r ` + br + `/std "$T/std"`
}

package c13

import (
	"fmt"
	"strings"

	"verif/c13/ovl"
	"verif/drive"
	"verif/findings"
)

// replayMain is a self-contained program (no code of the explorer) that calls
// the repository's Transpile once and classifies the outcome.
const replayMain = `// Replays one C13 case against the repository: go run . <main file> <bash|batch>
package main

import (
	"fmt"
	"os"
	"runtime/debug"

	"github.com/monstermichl/typeshell/converters/bash"
	"github.com/monstermichl/typeshell/converters/batch"
	"github.com/monstermichl/typeshell/transpiler"
)

func main() {
	debug.SetMaxStack(64 << 20) // unbounded recursion ends with "goroutine stack exceeds" instead of minutes of swapping
	var conv transpiler.Converter = bash.New()
	if os.Args[2] == "batch" {
		conv = batch.New()
	}
	defer func() {
		if r := recover(); r != nil {
			fmt.Printf("RESULT panic: %v\n%s\n", r, debug.Stack())
			os.Exit(1)
		}
	}()
	t := transpiler.New()
	script, err := t.Transpile(os.Args[1], conv)
	switch {
	case err == nil && script != "":
		fmt.Printf("RESULT script (%d bytes), no error: total\n", len(script))
	case err != nil && script == "" && err.Error() != "":
		fmt.Printf("RESULT error %q, no script: total\n", err.Error())
	case err == nil:
		fmt.Println("RESULT neither: empty script and nil error")
		os.Exit(1)
	case script != "":
		fmt.Printf("RESULT both: script (%d bytes) and error %q\n", len(script), err.Error())
		os.Exit(1)
	default:
		fmt.Println("RESULT empty-error: error with empty text")
		os.Exit(1)
	}
}
`

func replayFor(w WCase, sym, detail string, origin Case) findings.Replay {
	br, _ := ovl.BuildRoot()
	files := map[string]string{
		"replay_main.go.txt": replayMain,
		"detail.txt":         fmt.Sprintf("symptom: %s\ndetail: %s\ntarget: %s\nfound in space %s at %s\noriginal input: %s\n", sym, detail, drive.Target(w.Target), origin.Space, origin.Label, renderTree(origin.W.Files, origin.W.Main)),
	}
	var setup []string
	for _, f := range w.Files {
		switch f.Kind {
		case KFile:
			files["src/"+f.Name] = string(f.Data)
		case KDir:
			setup = append(setup, fmt.Sprintf("mkdir -p \"$T/src/%s\"", f.Name))
		case KUnreadable:
			files["src/"+f.Name] = string(f.Data)
			setup = append(setup, fmt.Sprintf("chmod 000 \"$T/src/%s\"", f.Name))
		}
	}
	script := `T=$(mktemp -d); trap 'chmod -R u+rwx "$T" 2>/dev/null; rm -rf "$T"' EXIT
export GOFLAGS=-mod=mod GOPROXY=off GOSUMDB=off GOTOOLCHAIN=local CGO_ENABLED=0
mkdir -p "$T/m" "$T/bin" "$T/src"
cp replay_main.go.txt "$T/m/main.go"
printf 'module replay\ngo 1.22\nrequire ` + ovl.Module + ` v0.0.0\nreplace ` + ovl.Module + ` => ` + br + `\n' > "$T/m/go.mod"
cp ` + br + `/go.sum "$T/m/go.sum" 2>/dev/null
(cd "$T/m" && go build -o "$T/bin/replay" .) || { echo "REPLAY: cannot build against ` + br + `"; exit 2; }
cp -r ` + br + `/std "$T/bin/std"
[ -d src ] && cp -r src/. "$T/src/"
` + strings.Join(setup, "\n") + `
timeout 120 "$T/bin/replay" "$T/src/` + w.Main + `" ` + drive.Target(w.Target).String() + ` > "$T/out.txt" 2>&1
st=$?
head -c 3000 "$T/out.txt"; echo
if [ $st -eq 0 ]; then echo "REPLAY: no longer reproduces (transpilation is total on this input)"; exit 0; fi
if [ $st -eq 124 ]; then echo "REPLAY: reproduced - no return within 120 s"; exit 1; fi
echo "REPLAY: reproduced (exit status $st)"; exit 1`
	return findings.Replay{Files: files, Script: script}
}

package c13

import (
	"fmt"
	"sort"
	"strconv"
	"strings"
)

var reserved = map[string]bool{}

func init() {
	for _, w := range strings.Fields("import var func return if else switch case default for range break continue nil len print input copy itoa exists read write panic bool int string error true false") {
		reserved[w] = true
	}
}

// tester answers "does this tree still show the symptom?".
type tester func(files []WFile) bool

func cloneFiles(fs []WFile) []WFile {
	out := make([]WFile, len(fs))
	copy(out, fs)
	return out
}

// windowSizes lists the deletion window sizes tried for n units, large first.
func windowSizes(n int) []int {
	var out []int
	if n <= 24 {
		for k := n; k >= 1; k-- {
			out = append(out, k)
		}
		return out
	}
	for k := n / 2; k > 8; k = k * 2 / 3 {
		out = append(out, k)
	}
	for k := 8; k >= 1; k-- {
		out = append(out, k)
	}
	return out
}

// linePass deletes windows of whole lines (statements and blocks) while test holds.
func linePass(toks []Tok, test func([]Tok) bool) []Tok {
	split := func(ts []Tok) [][]Tok {
		var lines [][]Tok
		cur := []Tok{}
		for _, t := range ts {
			cur = append(cur, t)
			if t.Kind == 'l' {
				lines = append(lines, cur)
				cur = []Tok{}
			}
		}
		if len(cur) > 0 {
			lines = append(lines, cur)
		}
		return lines
	}
	join := func(ls [][]Tok) []Tok {
		var out []Tok
		for _, l := range ls {
			out = append(out, l...)
		}
		return out
	}
	lines := split(toks)
	for _, size := range windowSizes(len(lines)) {
		for i := 0; i+size <= len(lines); {
			cand := append(append([][]Tok{}, lines[:i]...), lines[i+size:]...)
			if test(join(cand)) {
				lines = cand
			} else {
				i++
			}
		}
	}
	return join(lines)
}

// deletePass deletes windows of lexemes (large first, at every offset) while test holds.
func deletePass(toks []Tok, test func([]Tok) bool) []Tok {
	for changed := true; changed; {
		changed = false
		for _, size := range windowSizes(len(toks)) {
			for i := 0; i+size <= len(toks); {
				cand := append(append([]Tok{}, toks[:i]...), toks[i+size:]...)
				if test(cand) {
					toks = cand
					changed = true
				} else {
					i++
				}
			}
		}
	}
	return toks
}

func canonPass(toks []Tok, test func([]Tok) bool) []Tok {
	// literals first
	for i, t := range toks {
		var reps []string
		switch t.Kind {
		case 'n':
			reps = []string{"0", "1"}
		case 's':
			reps = []string{`""`, `"a"`}
		}
		for _, r := range reps {
			if t.Text == r {
				break
			}
			cand := append([]Tok{}, toks...)
			cand[i].Text = r
			if test(cand) {
				toks = cand
				break
			}
		}
	}
	// identifiers: a, b, c, ... in order of first appearance
	names := []string{}
	seen := map[string]bool{}
	for _, t := range toks {
		if t.Kind == 'i' && !reserved[t.Text] && !seen[t.Text] {
			seen[t.Text] = true
			names = append(names, t.Text)
		}
	}
	fresh := func(k int, upper bool) string {
		s := string(rune('a' + k%26))
		if upper {
			s = strings.ToUpper(s)
		}
		if k >= 26 {
			s += strconv.Itoa(k / 26)
		}
		return s
	}
	rename := func(in []Tok, m map[string]string) []Tok {
		out := append([]Tok{}, in...)
		for i, t := range out {
			if t.Kind == 'i' {
				if n, ok := m[t.Text]; ok {
					out[i].Text = n
				}
			}
		}
		return out
	}
	all := map[string]string{}
	for k, n := range names {
		all[n] = "\x00" + fresh(k, n[0] >= 'A' && n[0] <= 'Z')
	}
	strip := func(in []Tok) []Tok {
		out := append([]Tok{}, in...)
		for i := range out {
			out[i].Text = strings.TrimPrefix(out[i].Text, "\x00")
		}
		return out
	}
	if cand := strip(rename(toks, all)); test(cand) {
		return cand
	}
	for _, n := range names {
		target := strings.TrimPrefix(all[n], "\x00")
		if target == n || seen[target] {
			continue
		}
		cand := rename(toks, map[string]string{n: target})
		if test(cand) {
			toks = cand
			seen[target] = true
		}
	}
	return toks
}

func bytePass(b []byte, test func([]byte) bool) []byte {
	for chunk := len(b) / 2; chunk >= 1; chunk /= 2 {
		for i := 0; i+chunk <= len(b); {
			cand := append(append([]byte{}, b[:i]...), b[i+chunk:]...)
			if test(cand) {
				b = cand
			} else {
				i += chunk
			}
		}
	}
	for changed := true; changed; {
		changed = false
		for i := 0; i < len(b); i++ {
			cand := append(append([]byte{}, b[:i]...), b[i+1:]...)
			if test(cand) {
				b = cand
				changed = true
				i--
			}
		}
	}
	return b
}

// shrinkTree minimises a source tree while test keeps holding: files are
// dropped, then every file is reduced lexeme-wise (byte-wise if it cannot be
// split or does not survive re-rendering) and put into canonical spelling.
func shrinkTree(files []WFile, mainName string, test tester) []WFile {
	files = cloneFiles(files)
	sort.Slice(files, func(i, j int) bool { return files[i].Name < files[j].Name })
	// drop whole files (never the main file entry itself)
	for i := 0; i < len(files); i++ {
		if files[i].Name == mainName {
			continue
		}
		cand := append(cloneFiles(files[:i]), files[i+1:]...)
		if test(cand) {
			files = cand
			i--
		}
	}
	for round := 0; round < 3; round++ {
		before := renderTree(files, mainName)
		for i := range files {
			if files[i].Kind != KFile {
				continue
			}
			with := func(data []byte) []WFile {
				c := cloneFiles(files)
				c[i].Data = data
				return c
			}
			toks, ok := Split(string(files[i].Data))
			if ok && test(with([]byte(Render(toks)))) {
				tt := func(t []Tok) bool { return test(with([]byte(Render(t)))) }
				toks = linePass(toks, tt)
				toks = deletePass(toks, tt)
				toks = canonPass(toks, tt)
				toks = deletePass(toks, tt)
				files[i].Data = []byte(Render(toks))
			} else {
				files[i].Data = bytePass(files[i].Data, func(b []byte) bool { return test(with(b)) })
			}
		}
		// files that are no longer referenced can go now
		for i := 0; i < len(files); i++ {
			if files[i].Name == mainName {
				continue
			}
			cand := append(cloneFiles(files[:i]), files[i+1:]...)
			if test(cand) {
				files = cand
				i--
			}
		}
		if renderTree(files, mainName) == before {
			break
		}
	}
	return files
}

// renderTree prints a tree as the input part of a finding key.
func renderTree(files []WFile, mainName string) string {
	fs := cloneFiles(files)
	sort.Slice(fs, func(i, j int) bool { return fs[i].Name < fs[j].Name })
	one := func(f WFile) string {
		switch f.Kind {
		case KDir:
			return "<directory>"
		case KUnreadable:
			return "<unreadable>"
		case KAbsent:
			return "<missing>"
		}
		return strconv.QuoteToASCII(string(f.Data))
	}
	if len(fs) == 1 && fs[0].Name == mainName {
		return one(fs[0])
	}
	parts := []string{}
	for _, f := range fs {
		parts = append(parts, fmt.Sprintf("%s:%s", f.Name, one(f)))
	}
	return "{" + strings.Join(parts, ",") + "} main=" + mainName
}

// shrinkGraph removes edges while test keeps holding and returns the canonical form.
func shrinkGraph(g Graph, test func(Graph) bool) Graph {
	for changed := true; changed; {
		changed = false
		for i := 0; i < NFiles; i++ {
			for j := 0; j < NFiles; j++ {
				if !g.Edges[i][j] {
					continue
				}
				h := g
				h.Edges[i][j] = false
				if test(h) {
					g = h
					changed = true
				}
			}
		}
	}
	return g.Canonical()
}

package c13

import (
	"fmt"
	"sort"
	"strings"
)

// Case is one point of an enumeration space.
type Case struct {
	Space string // B, Bimp, T, E1, E2, N, I
	Label string // coordinates inside the space (for humans and samples)
	W     WCase
	Graph *Graph // I space: the import graph (shrinks on edges, not on tokens)
}

func single(space, label, src string, target int) Case {
	return Case{Space: space, Label: label, W: WCase{Files: []WFile{{Name: "main.tsh", Data: []byte(src)}}, Main: "main.tsh", Target: target}}
}

// ---------------------------------------------------------------- (B) bytes

// classAlphabet: one or two representatives of every character class the lexer
// distinguishes (letters, digits, both quotes, escape, comment starters, every
// operator start, blanks, line ends, unknown ASCII, NUL, DEL, UTF-8 lead and
// continuation bytes, invalid UTF-8).
var classAlphabet = []byte{'a', 'Z', '_', '0', '9', '"', '`', '\\', '/', '*', '\n', '\r', ' ', '\t',
	'(', ')', '[', ']', '{', '}', '=', ':', '!', '<', '&', '|', '+', '-', '%', ',', ';', '.', '@',
	'#', '$', '\'', 0x00, 0x7f, 0x80, 0xc3, 0xa9, 0xff}

func genBytes(emit func(Case) bool, mainLen, impLen, classLen int) {
	var rec func(prefix []byte, alpha []byte, depth, maxLen int, f func([]byte) bool) bool
	rec = func(prefix []byte, alpha []byte, depth, maxLen int, f func([]byte) bool) bool {
		if !f(prefix) {
			return false
		}
		if depth == maxLen {
			return true
		}
		for _, b := range alpha {
			if !rec(append(append([]byte{}, prefix...), b), alpha, depth+1, maxLen, f) {
				return false
			}
		}
		return true
	}
	all := make([]byte, 256)
	for i := range all {
		all[i] = byte(i)
	}
	for target := 0; target < 2; target++ {
		ok := rec(nil, all, 0, mainLen, func(s []byte) bool {
			return emit(Case{Space: "B", Label: fmt.Sprintf("main bytes=%x", s),
				W: WCase{Files: []WFile{{Name: "main.tsh", Data: s}}, Main: "main.tsh", Target: target}})
		})
		if !ok {
			return
		}
		ok = rec(nil, all, 0, impLen, func(s []byte) bool {
			return emit(Case{Space: "Bimp", Label: fmt.Sprintf("imported bytes=%x", s),
				W: WCase{Files: []WFile{{Name: "main.tsh", Data: []byte("import a \"a.tsh\"\n")}, {Name: "a.tsh", Data: s}}, Main: "main.tsh", Target: target}})
		})
		if !ok {
			return
		}
		if classLen > mainLen {
			ok = rec(nil, classAlphabet, 0, classLen, func(s []byte) bool {
				if len(s) <= mainLen {
					return true // already covered over all 256 values
				}
				return emit(Case{Space: "Bclass", Label: fmt.Sprintf("main bytes=%x", s),
					W: WCase{Files: []WFile{{Name: "main.tsh", Data: s}}, Main: "main.tsh", Target: target}})
			})
			if !ok {
				return
			}
		}
	}
}

// --------------------------------------------------------------- (T) tokens

// tokenPrelude declares the names the token alphabet refers to, so that
// sequences reach the type checks instead of stopping at "not defined".
const tokenPrelude = "var x int\nvar s []int\nfunc f() {\n}\nfunc g() (int, int) {\nreturn 1, 2\n}\n"

// shortTokenPrelude is used for the longest sequences (the repository's lexer
// costs about 10 microseconds per input byte, the prelude dominates the cost).
const shortTokenPrelude = "var x int\nvar s []int\nfunc f() {\n}\n"

// coreTokens (30): used up to the longest sequence length.
var coreTokens = []string{"x", "s", "f", "g", "1", `"a"`, "(", ")", "[", "]", "{", "}", "\n",
	"=", ":=", "+", "==", "!", ",", ":", ";", ".", "@", "var", "func", "if", "for", "return", "import", "int"}

// moreTokens (+20): added for sequences one shorter.
var moreTokens = []string{"y", "true", "nil", "&&", "++", "+=", "|", "-1", "else", "range", "switch", "case",
	"default", "break", "continue", "len", "print", "copy", "write", "string"}

func genTokens(emit func(Case) bool, alphabet []string, minLen, maxLen int, tag string) {
	idx := make([]int, maxLen)
	preludes := []string{"", tokenPrelude}
	if maxLen >= 4 {
		preludes = []string{"", shortTokenPrelude}
	}
	for _, prelude := range preludes {
		pname := "none"
		if prelude != "" {
			pname = "decls"
		}
		for target := 0; target < 2; target++ {
			for n := minLen; n <= maxLen; n++ {
				for i := range idx {
					idx[i] = 0
				}
				for {
					parts := make([]string, n)
					for i := 0; i < n; i++ {
						parts[i] = alphabet[idx[i]]
					}
					src := prelude + renderWords(parts)
					if !emit(single("T", fmt.Sprintf("%s prelude=%s seq=%q", tag, pname, parts), src, target)) {
						return
					}
					k := n - 1
					for k >= 0 {
						idx[k]++
						if idx[k] < len(alphabet) {
							break
						}
						idx[k] = 0
						k--
					}
					if k < 0 {
						break
					}
				}
			}
		}
	}
}

func renderWords(parts []string) string {
	var sb strings.Builder
	for i, p := range parts {
		if p == "\n" {
			sb.WriteByte('\n')
			continue
		}
		if i > 0 && parts[i-1] != "\n" {
			sb.WriteByte(' ')
		}
		sb.WriteString(p)
	}
	return sb.String()
}

// ---------------------------------------------------------------- (E) edits

// editTokens are the replacement lexemes of a single edit.
var editTokens = []Tok{{"x", 'i'}, {"zz", 'i'}, {"1", 'n'}, {`"a"`, 's'}, {"true", 'i'}, {"nil", 'i'},
	{"(", 'o'}, {")", 'o'}, {"[", 'o'}, {"]", 'o'}, {"{", 'o'}, {"}", 'o'}, {"\n", 'l'},
	{"=", 'o'}, {":=", 'o'}, {"+", 'o'}, {"==", 'o'}, {"&&", 'o'}, {"!", 'o'}, {",", 'o'}, {":", 'o'}, {";", 'o'}, {".", 'o'},
	{"++", 'o'}, {"+=", 'o'}, {"@", 'o'}, {"|", 'o'}, {"var", 'i'}, {"func", 'i'}, {"if", 'i'}, {"else", 'i'}, {"for", 'i'},
	{"range", 'i'}, {"return", 'i'}, {"switch", 'i'}, {"case", 'i'}, {"import", 'i'}, {"int", 'i'}, {"len", 'i'}, {"print", 'i'}}

// smallEditTokens are the replacements used by double edits.
var smallEditTokens = []Tok{{"x", 'i'}, {"1", 'n'}, {"(", 'o'}, {")", 'o'}, {"{", 'o'}, {"\n", 'l'}, {"=", 'o'}, {"+", 'o'}}

type edit struct {
	op  byte // 'd' delete, 'u' duplicate, 's' swap with next, 'r' replace
	pos int
	rep int // index into the replacement list
}

func (e edit) String() string {
	switch e.op {
	case 'd':
		return fmt.Sprintf("delete@%d", e.pos)
	case 'u':
		return fmt.Sprintf("duplicate@%d", e.pos)
	case 's':
		return fmt.Sprintf("swap@%d", e.pos)
	}
	return fmt.Sprintf("replace@%d:%d", e.pos, e.rep)
}

func applyEdit(toks []Tok, e edit, reps []Tok) ([]Tok, bool) {
	if e.pos < 0 || e.pos >= len(toks) {
		return nil, false
	}
	out := make([]Tok, 0, len(toks)+1)
	switch e.op {
	case 'd':
		out = append(out, toks[:e.pos]...)
		out = append(out, toks[e.pos+1:]...)
	case 'u':
		out = append(out, toks[:e.pos+1]...)
		out = append(out, toks[e.pos:]...)
	case 's':
		if e.pos+1 >= len(toks) || toks[e.pos] == toks[e.pos+1] {
			return nil, false
		}
		out = append(out, toks...)
		out[e.pos], out[e.pos+1] = out[e.pos+1], out[e.pos]
	case 'r':
		if toks[e.pos] == reps[e.rep] {
			return nil, false
		}
		out = append(out, toks...)
		out[e.pos] = reps[e.rep]
	}
	return out, true
}

func allEdits(pos int, reps []Tok, withReplace bool) []edit {
	es := []edit{{'d', pos, 0}, {'u', pos, 0}, {'s', pos, 0}}
	if withReplace {
		for r := range reps {
			es = append(es, edit{'r', pos, r})
		}
	}
	return es
}

// LongProgram: programs with more lexemes get delete/duplicate/swap only.
const LongProgram = 200

func genSingleEdits(emit func(Case) bool, progs []Program) {
	for _, p := range progs {
		for target := 0; target < 2; target++ {
			for pos := range p.Toks {
				for _, e := range allEdits(pos, editTokens, len(p.Toks) <= LongProgram) {
					toks, ok := applyEdit(p.Toks, e, editTokens)
					if !ok {
						continue
					}
					if !emit(single("E1", fmt.Sprintf("prog=%s edit=%s", p.Name, e), Render(toks), target)) {
						return
					}
				}
			}
		}
	}
}

func genDoubleEdits(emit func(Case) bool, progs []Program) {
	for _, p := range progs {
		if len(p.Toks) > LongProgram {
			continue
		}
		for target := 0; target < 2; target++ {
			for pos := range p.Toks {
				for _, e1 := range allEdits(pos, smallEditTokens, true) {
					t1, ok := applyEdit(p.Toks, e1, smallEditTokens)
					if !ok {
						continue
					}
					for d := 0; d < 3; d++ {
						for _, e2 := range allEdits(pos+d, smallEditTokens, true) {
							t2, ok := applyEdit(t1, e2, smallEditTokens)
							if !ok {
								continue
							}
							if !emit(single("E2", fmt.Sprintf("prog=%s edits=%s,%s", p.Name, e1, e2), Render(t2), target)) {
								return
							}
						}
					}
				}
			}
		}
	}
}

// ----------------------------------------------------------- (N) near misses

const nmLib = "func V() {\n}\nfunc M() (int, int) {\n\treturn 1, 2\n}\nfunc One() int {\n\treturn 1\n}\nvar Pub int = 1\n"

const nmPrelude = "import lib \"lib.tsh\"\nvar x int = 1\nvar t string = \"a\"\nvar b bool = true\nvar s []int = []int{1, 2}\nvar ss []string = []string{\"a\"}\n" +
	"func f() {\n}\nfunc g() (int, int) {\n\treturn 1, 2\n}\nfunc h(p int) int {\n\treturn p\n}\n"

// nmTemplates: every value position of the language; § is the hole.
var nmTemplates = []string{
	"§", "x = §", "y := §", "var y = §", "var y int = §", "var y []int = §", "x += §", "x, t = §", "y, z := §", "y, z := 1, §", "x = §, 1",
	"y := 1 + §", "y := § + 1", "y := § * 2", "y := 2 / §", "y := 1 - §", "y := § % 2", "y := t + §",
	"y := § == 1", "y := 1 < §", "y := § != §", "y := § && true", "y := true || §", "y := !§", "y := !!§", "y := (§)", "y := (§) + 1",
	"if § {\n}", "if true {\n} else if § {\n}", "if § == 1 {\n}", "if !§ {\n}",
	"for § {\n}", "for i := 0; §; i++ {\n}", "for i := §; i < 2; i++ {\n}", "for i := 0; i < §; i++ {\n}", "for i := 0; i < 2; x = § {\n}",
	"for i := range § {\n}", "for i, v := range § {\n}", "for _, v := range § {\n}",
	"switch § {\ncase 1:\n}", "switch x {\ncase §:\n}", "switch {\ncase §:\n}", "switch § {\n}", "switch § {\ndefault:\n}",
	"print(§)", "print(1, §)", "print(§, §)", "len(§)", "y := len(§)", "itoa(§)", "y := itoa(§)", "y := exists(§)", "y := read(§)",
	"write(§, \"d\")", "write(\"p\", §)", "write(\"p\", \"d\", §)", "panic(§)", "y := input(§)", "copy(s, §)", "copy(§, s)", "y := copy(s, §)",
	"s[§] = 1", "s[0] = §", "ss[0] = §", "y := s[§]", "y := t[§]", "y := t[§:1]", "y := t[0:§]", "y := t[§:]", "y := t[:§]", "y := §[0]",
	"y := []int{§}", "y := []int{1, §}", "y := []string{§}",
	"h(§)", "y := h(§)", "y := h(h(§))", "lib.One(§)", "@ls(§)", "a, e, c := @ls(§)", "@ls() | @wc(§)", "y := @ls(§)",
	"func k() int {\nreturn §\n}", "func k() (int, int) {\nreturn §\n}", "func k() (int, int) {\nreturn 1, §\n}", "func k() {\nreturn §\n}",
	"func k() []int {\nreturn §\n}", "func k(p int) int {\nif p == 0 {\nreturn §\n}\nreturn 1\n}",
	"§++", "§ = 1", "§[0] = 1", "§ += 1", "§.F()", "§()", "x.§",
}

// nmFillers: what is put into the hole.
var nmFillers = []string{"f()", "g()", "lib.V()", "lib.M()", "s", "@ls()", "[]int{}", "nil", "t", "b", "x", "1", `"a"`, "true",
	"h(1)", "lib.One()", "lib.Pub", "lib.Nope()", "nolib.F()", "input()", "len(s)", "y9", "f", "g", "lib", "-1", "99999999999999999999", "1.5", "copy(s, s)", "s[0]", "t[0]", "(f())", "!f()"}

// nmConstructs: valid statements; every single-lexeme deletion of each is a case.
var nmConstructs = []string{
	"var y int", "var y int = 1", "var y = 1", "var y, z int = 1, 2", "y := 1", "y, z := g()", "x = 2", "x, t = 2, \"b\"", "x += 2", "x++", "x--",
	"if b {\n} else if !b {\n} else {\n}", "for x < 3 {\nx++\n}", "for {\nbreak\n}", "for i := 0; i < 2; i++ {\ncontinue\n}", "for ; ; {\nbreak\n}",
	"for i := range s {\n}", "for i, v := range s {\n}", "for i, c := range t {\n}",
	"switch x {\ncase 1:\nprint(1)\ncase 2:\ndefault:\nbreak\n}", "switch {\ncase b:\n}",
	"func k(p int, q []string) (int, string) {\nreturn p, q[0]\n}\nk(1, ss)", "func k() {\n}\nk()", "func k(p int) int {\nreturn p\n}\ny := k(1)",
	"print(1, \"a\", b)", "print()", "y := len(s)", "y := len(t)", "y := itoa(1)", "y := exists(\"p\")", "y := read(\"p\")", "write(\"p\", \"d\", true)",
	"panic(\"m\")", "y := input(\"p\")", "y := input()", "y := copy(s, []int{3})", "s[5] = 1", "y := s[0]", "y := t[0]", "y := t[0:1]", "y := t[:1]", "y := t[1:]",
	"y := []int{1, 2}", "y := []string{}", "a, e, c := @ls(\"-l\", t) | @wc(\"-l\")", "@\"my prog\"(1)", "lib.V()", "y := lib.One()", "y, z := lib.M()", "y := lib.Pub",
	"y := (1 + 2) * 3 - 4 / 2 % 2", "y := 1 < 2 && 2 >= 1 || !b", "y := \"a\" + \"b\" == t",
}

// nmStatements x nmStmtPositions: every statement form in every position that takes a statement
// (for-header init and post included); illegal placements must be errors, never crashes.
var nmStatements = []string{
	"y := 1", "var y int = 1", "var y = 1", "var y int", "var y, z int", "y, z := 1, 2", "var y, z int = 1, 2", "var y, z = 1, 2",
	"y, z := g()", "var y, z = g()", "var y, z int = g()", "y, z := lib.M()", "a, e, c := @ls()", "var a, e, c = @ls()", "y := h(1)", "var y = f()",
	"x = 2", "x, t = 2, \"b\"", "x, x = g()", "x += 2", "x++", "x--", "s[0] = 1", "h(1)", "f()", "print(1)", "panic(\"m\")", "write(\"p\", \"d\")",
	"break", "continue", "return 1", "y := []int{1}", "copy(s, s)", "x", "1", "if b {\n}", "for {\nbreak\n}", "switch x {\n}", "func k2() {\n}",
}

var nmStmtPositions = []string{
	"§", "for §; x < 3; x++ {\nbreak\n}", "for ; x < 3; § {\nbreak\n}", "for §; ; {\nbreak\n}", "for §; x < 3; § {\nbreak\n}",
	"if b {\n§\n}", "if b {\n} else {\n§\n}", "if b {\n} else if !b {\n§\n}", "for x < 3 {\n§\nbreak\n}", "switch x {\ncase 1:\n§\n}", "switch x {\ndefault:\n§\n}",
	"func k() {\n§\n}\nk()", "func k() int {\n§\nreturn 1\n}\nprint(k())", "for i := range s {\n§\n}",
}

func nmCase(label, body string, target int) Case {
	return Case{Space: "N", Label: label, W: WCase{Files: []WFile{{Name: "main.tsh", Data: []byte(nmPrelude + body + "\n")}, {Name: "lib.tsh", Data: []byte(nmLib)}}, Main: "main.tsh", Target: target}}
}

func genNearMiss(emit func(Case) bool) {
	for target := 0; target < 2; target++ {
		for ti, tpl := range nmTemplates {
			for _, fill := range nmFillers {
				stmt := strings.ReplaceAll(tpl, "§", fill)
				if !emit(nmCase(fmt.Sprintf("value-position tpl#%d=%q fill=%q scope=global", ti, tpl, fill), stmt, target)) {
					return
				}
				if !strings.HasPrefix(tpl, "func ") {
					wrapped := "func w() {\n" + stmt + "\n}\nw()"
					if !emit(nmCase(fmt.Sprintf("value-position tpl#%d=%q fill=%q scope=func", ti, tpl, fill), wrapped, target)) {
						return
					}
				}
			}
		}
		for pi, pos := range nmStmtPositions {
			for _, st := range nmStatements {
				if !emit(nmCase(fmt.Sprintf("statement-position pos#%d=%q stmt=%q", pi, pos, st), strings.ReplaceAll(pos, "§", st), target)) {
					return
				}
			}
		}
		// arithmetic on two literals (a transpiler may compute it itself): every operator x boundary operands
		for _, a := range []string{"0", "1", "7", "-1", "9223372036854775807"} {
			for _, b := range []string{"0", "1", "-1", "2", "9223372036854775807"} {
				for _, op := range []string{"+", "-", "*", "/", "%"} {
					for si, shape := range []string{"x := A OP B\nprint(x)", "print(A OP B)", "s := \"abc\"\nprint(s[A OP B])", "ok := false\nif ok {\n\tprint(A OP B)\n}\nprint(\"alive\")", "func f() int {\n\treturn A OP B\n}\nprint(f())"} {
						src := strings.NewReplacer("A", a, "OP", op, "B", b).Replace(shape)
						if !emit(Case{Space: "N", Label: fmt.Sprintf("literal-arithmetic %s %s %s shape#%d", a, op, b, si), W: WCase{Files: []WFile{{Name: "main.tsh", Data: []byte(src + "\n")}}, Main: "main.tsh", Target: target}}) {
							return
						}
					}
				}
			}
		}
		for ci, c := range nmConstructs {
			toks, _ := Split(c)
			for pos := range toks {
				t2, _ := applyEdit(toks, edit{'d', pos, 0}, nil)
				if !emit(nmCase(fmt.Sprintf("missing-symbol construct#%d=%q without lexeme %d (%q)", ci, c, pos, toks[pos].Text), Render(t2), target)) {
					return
				}
			}
			// the import clause and the prelude's own declarations with one lexeme missing
		}
		ptoks, _ := Split(nmPrelude)
		for pos := range ptoks {
			t2, _ := applyEdit(ptoks, edit{'d', pos, 0}, nil)
			c := Case{Space: "N", Label: fmt.Sprintf("missing-symbol prelude without lexeme %d (%q)", pos, ptoks[pos].Text),
				W: WCase{Files: []WFile{{Name: "main.tsh", Data: []byte(Render(t2) + "\nprint(x)\n")}, {Name: "lib.tsh", Data: []byte(nmLib)}}, Main: "main.tsh", Target: target}}
			if !emit(c) {
				return
			}
		}
	}
}

// ----------------------------------------------------------- (I) import graphs

// Graph is a directed graph over NFiles files; Edges[i][j] means file i imports file j.
type Graph struct {
	Edges [3][3]bool
}

const NFiles = 3

func graphFromMask(mask int) Graph {
	var g Graph
	for i := 0; i < NFiles; i++ {
		for j := 0; j < NFiles; j++ {
			if mask&(1<<(i*NFiles+j)) != 0 {
				g.Edges[i][j] = true
			}
		}
	}
	return g
}

func (g Graph) String() string {
	var es []string
	for i := 0; i < NFiles; i++ {
		for j := 0; j < NFiles; j++ {
			if g.Edges[i][j] {
				es = append(es, fmt.Sprintf("%d>%d", i, j))
			}
		}
	}
	return "{" + strings.Join(es, ",") + "}"
}

// Canonical returns the graph with files 1 and 2 possibly exchanged (file 0 is
// the main file), whichever prints smaller.
func (g Graph) Canonical() Graph {
	var h Graph
	perm := [3]int{0, 2, 1}
	for i := 0; i < NFiles; i++ {
		for j := 0; j < NFiles; j++ {
			h.Edges[perm[i]][perm[j]] = g.Edges[i][j]
		}
	}
	if h.String() < g.String() {
		return h
	}
	return g
}

// ReachableCycle reports whether a cycle is reachable from file 0 (harness-side
// bookkeeping only: it sizes the fallback mode and the evidence, it is not the oracle).
func (g Graph) ReachableCycle() bool {
	state := [NFiles]int{}
	var dfs func(i int) bool
	dfs = func(i int) bool {
		state[i] = 1
		for j := 0; j < NFiles; j++ {
			if !g.Edges[i][j] {
				continue
			}
			if state[j] == 1 {
				return true
			}
			if state[j] == 0 && dfs(j) {
				return true
			}
		}
		state[i] = 2
		return false
	}
	return dfs(0)
}

// Files renders the graph as source files f0.tsh (main), f1.tsh, f2.tsh.
func (g Graph) Files() []WFile {
	var fs []WFile
	for i := 0; i < NFiles; i++ {
		var imps []string
		var calls []string
		for j := 0; j < NFiles; j++ {
			if g.Edges[i][j] {
				imps = append(imps, fmt.Sprintf("m%d \"f%d.tsh\"", j, j))
				calls = append(calls, fmt.Sprintf("m%d.F%d()", j, j))
			}
		}
		var sb strings.Builder
		switch len(imps) {
		case 0:
		case 1:
			sb.WriteString("import " + imps[0] + "\n")
		default:
			sb.WriteString("import (\n")
			for _, im := range imps {
				sb.WriteString("\t" + im + "\n")
			}
			sb.WriteString(")\n")
		}
		fmt.Fprintf(&sb, "func F%d() {\n}\n", i)
		for _, c := range calls {
			sb.WriteString(c + "\n")
		}
		if i == 0 {
			sb.WriteString("F0()\n")
		}
		fs = append(fs, WFile{Name: fmt.Sprintf("f%d.tsh", i), Data: []byte(sb.String())})
	}
	return fs
}

func graphCase(g Graph, target int) Case {
	gg := g
	return Case{Space: "I", Label: "graph=" + g.String(), Graph: &gg, W: WCase{Files: g.Files(), Main: "f0.tsh", Target: target}}
}

// minimalCycleGraphs are the six smallest graphs (up to exchanging files 1 and
// 2) in which a cycle is reachable from the main file.
func minimalCycleGraphs() []Graph {
	masks := [][][2]int{
		{{0, 0}},
		{{0, 1}, {1, 0}},
		{{0, 1}, {1, 1}},
		{{0, 1}, {1, 2}, {2, 0}},
		{{0, 1}, {1, 2}, {2, 1}},
		{{0, 1}, {1, 2}, {2, 2}},
	}
	var gs []Graph
	for _, m := range masks {
		var g Graph
		for _, e := range m {
			g.Edges[e[0]][e[1]] = true
		}
		gs = append(gs, g)
	}
	return gs
}

type special struct {
	name  string
	files []WFile
	main  string
}

func specialImportCases() []special {
	f := func(n, s string) WFile { return WFile{Name: n, Data: []byte(s)} }
	ok := "func A() {\n\tprint(\"a\")\n}\n"
	return []special{
		{"main-missing", []WFile{{Name: "main.tsh", Kind: KAbsent}}, "main.tsh"},
		{"main-is-directory", []WFile{{Name: "main.tsh", Kind: KDir}}, "main.tsh"},
		{"main-unreadable", []WFile{{Name: "main.tsh", Data: []byte("print(1)\n"), Kind: KUnreadable}}, "main.tsh"},
		{"main-empty", []WFile{f("main.tsh", "")}, "main.tsh"},
		{"main-in-missing-directory", []WFile{{Name: "d/x.tsh", Kind: KAbsent}}, "nodir/main.tsh"},
		{"import-missing-file", []WFile{f("main.tsh", "import a \"nope.tsh\"\n")}, "main.tsh"},
		{"import-missing-file-no-alias", []WFile{f("main.tsh", "import \"nope.tsh\"\n")}, "main.tsh"},
		{"import-missing-file-in-block", []WFile{f("main.tsh", "import (\n\ta \"a.tsh\"\n\tb \"nope.tsh\"\n)\n"), f("a.tsh", ok)}, "main.tsh"},
		{"import-directory", []WFile{f("main.tsh", "import a \"d\"\n"), {Name: "d", Kind: KDir}}, "main.tsh"},
		{"import-directory-named-tsh", []WFile{f("main.tsh", "import a \"d.tsh\"\n"), {Name: "d.tsh", Kind: KDir}}, "main.tsh"},
		{"import-directory-no-alias", []WFile{f("main.tsh", "import \"d\"\n"), {Name: "d", Kind: KDir}}, "main.tsh"},
		{"import-unreadable", []WFile{f("main.tsh", "import a \"a.tsh\"\n"), {Name: "a.tsh", Data: []byte(ok), Kind: KUnreadable}}, "main.tsh"},
		{"import-empty-path", []WFile{f("main.tsh", "import a \"\"\n")}, "main.tsh"},
		{"import-empty-path-no-alias", []WFile{f("main.tsh", "import \"\"\n")}, "main.tsh"},
		{"import-dot", []WFile{f("main.tsh", "import a \".\"\n")}, "main.tsh"},
		{"import-dotdot", []WFile{f("main.tsh", "import a \"..\"\n")}, "main.tsh"},
		{"import-trailing-slash", []WFile{f("main.tsh", "import a \"a.tsh/\"\n"), f("a.tsh", ok)}, "main.tsh"},
		{"import-nul-in-path", []WFile{f("main.tsh", "import a `a\x00b`\n")}, "main.tsh"},
		{"import-local-without-alias", []WFile{f("main.tsh", "import \"a.tsh\"\n"), f("a.tsh", ok)}, "main.tsh"},
		{"import-same-alias-twice", []WFile{f("main.tsh", "import (\n\ta \"a.tsh\"\n\ta \"b.tsh\"\n)\n"), f("a.tsh", ok), f("b.tsh", "func B() {\n}\n")}, "main.tsh"},
		{"import-same-file-two-aliases", []WFile{f("main.tsh", "import (\n\ta \"a.tsh\"\n\tb \"a.tsh\"\n)\na.A()\nb.A()\n"), f("a.tsh", ok)}, "main.tsh"},
		{"import-nested-missing", []WFile{f("main.tsh", "import a \"a.tsh\"\n"), f("a.tsh", "import b \"nope.tsh\"\n")}, "main.tsh"},
		{"import-nested-directory", []WFile{f("main.tsh", "import a \"a.tsh\"\n"), f("a.tsh", "import b \"d\"\n"), {Name: "d", Kind: KDir}}, "main.tsh"},
		{"import-subdir-relative", []WFile{f("main.tsh", "import a \"sub/a.tsh\"\na.A()\n"), f("sub/a.tsh", "import b \"b.tsh\"\nfunc A() {\n\tb.B()\n}\n"), f("sub/b.tsh", "func B() {\n}\n")}, "main.tsh"},
		{"import-std", []WFile{f("main.tsh", "import \"strings\"\nprint(strings.Contains(\"ab\", \"a\"))\n")}, "main.tsh"},
		// modules found next to the executable (see workerBinary): a chain, one importing itself, two importing each other
		{"import-std-chain", []WFile{f("main.tsh", "import \"chain1\"\nprint(chain1.F())\n")}, "main.tsh"},
		{"import-std-module-importing-itself", []WFile{f("main.tsh", "import \"selfie\"\nselfie.S()\n")}, "main.tsh"},
		{"import-std-modules-importing-each-other", []WFile{f("main.tsh", "import \"cyca\"\ncyca.A()\n")}, "main.tsh"},
		{"import-std-cycle-reached-from-a-local-file", []WFile{f("main.tsh", "import a \"a.tsh\"\na.A()\n"), f("a.tsh", "import \"cycb\"\nfunc A() {\n\tcycb.B()\n}\n")}, "main.tsh"},
		{"import-std-with-extension", []WFile{f("main.tsh", "import \"strings.tsh\"\n")}, "main.tsh"},
		{"import-std-shadowed-by-directory", []WFile{f("main.tsh", "import \"strings\"\n"), {Name: "strings", Kind: KDir}}, "main.tsh"},
		{"import-std-missing-name", []WFile{f("main.tsh", "import \"nosuchlib\"\n")}, "main.tsh"},
		{"import-block-empty", []WFile{f("main.tsh", "import (\n)\n")}, "main.tsh"},
		{"import-block-unterminated", []WFile{f("main.tsh", "import (\n\ta \"a.tsh\"\n"), f("a.tsh", ok)}, "main.tsh"},
		{"import-keyword-only", []WFile{f("main.tsh", "import")}, "main.tsh"},
		{"import-after-code", []WFile{f("main.tsh", "print(1)\nimport a \"a.tsh\"\n"), f("a.tsh", ok)}, "main.tsh"},
		{"import-twice", []WFile{f("main.tsh", "import a \"a.tsh\"\nimport b \"a.tsh\"\n"), f("a.tsh", ok)}, "main.tsh"},
		{"imported-file-with-syntax-error", []WFile{f("main.tsh", "import a \"a.tsh\"\n"), f("a.tsh", "func {")}, "main.tsh"},
		{"imported-file-with-void-call-operand", []WFile{f("main.tsh", "import a \"a.tsh\"\n"), f("a.tsh", "func f() {\n}\nx := 1 + f()\n")}, "main.tsh"},
	}
}

func genImports(emit func(Case) bool, fallback bool) (skippedCyclic int) {
	for target := 0; target < 2; target++ {
		for _, sp := range specialImportCases() {
			if !emit(Case{Space: "I", Label: "special=" + sp.name, W: WCase{Files: sp.files, Main: sp.main, Target: target}}) {
				return
			}
		}
		if fallback {
			// Without the depth counter every cyclic graph costs seconds: only the
			// minimal cyclic graphs are run, all acyclic ones are.
			for _, g := range minimalCycleGraphs() {
				if !emit(graphCase(g, target)) {
					return
				}
			}
		}
		for mask := 0; mask < 1<<(NFiles*NFiles); mask++ {
			g := graphFromMask(mask)
			if fallback && g.ReachableCycle() {
				skippedCyclic++
				continue
			}
			if !emit(graphCase(g, target)) {
				return
			}
		}
	}
	return
}

func sortedKeys(m map[string]int) []string {
	ks := make([]string, 0, len(m))
	for k := range m {
		ks = append(ks, k)
	}
	sort.Strings(ks)
	return ks
}

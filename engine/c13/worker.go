package c13

import (
	"crypto/sha256"
	"encoding/json"
	"fmt"
	"os"
	"path/filepath"
	"regexp"
	"runtime"
	"runtime/debug"
	"strings"

	"github.com/monstermichl/typeshell/converters/bash"
	"github.com/monstermichl/typeshell/converters/batch"
	"github.com/monstermichl/typeshell/transpiler"

	"verif/c13/ovl"
	"verif/c13/wpool"
)

// File kinds of a case.
const (
	KFile       = 0 // regular file with Data
	KDir        = 1 // a directory in place of the file
	KUnreadable = 2 // regular file with mode 000
	KAbsent     = 3 // nothing is created (missing file)
)

// WFile is one entry of the source tree of a case.
type WFile struct {
	Name string `json:"n"`
	Data []byte `json:"d,omitempty"`
	Kind int    `json:"k,omitempty"`
}

// WCase is one Transpile call: a source tree, the main file and the target (0 bash, 1 batch).
type WCase struct {
	Files  []WFile `json:"f"`
	Main   string  `json:"m"`
	Target int     `json:"t"`
}

// WReq is a batch of cases.
type WReq struct {
	Cases []WCase `json:"c"`
}

// WRes is the observation of one case.
type WRes struct {
	Class      string `json:"c"`            // script | error | both | neither | empty-error | panic | unbounded-recursion | skip
	PanicClass string `json:"pc,omitempty"` // class of the runtime error
	Func       string `json:"fn,omitempty"` // first repository function on the panicking stack
	PanicMsg   string `json:"pm,omitempty"`
	Sig        string `json:"s,omitempty"` // outcome signature (only used to count distinct outcomes)
	Skip       string `json:"k,omitempty"`
}

// WResp answers a WReq.
type WResp struct {
	Results []WRes `json:"r"`
	Depth   string `json:"d,omitempty"` // "on" when the worker was built with the depth-counter overlay
}

// RecursionSentinel is the panic value of the depth counter the overlay
// inserts at the entry of (*Parser).parse.
const RecursionSentinel = "VERIF:unbounded-recursion"

var (
	numRe  = regexp.MustCompile(`[0-9]+`)
	pathRe = regexp.MustCompile(`/[^ :"']*`)
)

// ClassifyPanic maps a recovered value to a runtime error class.
func ClassifyPanic(r interface{}) (class, msg string) {
	msg = fmt.Sprint(r)
	if _, ok := r.(runtime.Error); ok {
		switch {
		case strings.Contains(msg, "index out of range"):
			return "index-out-of-range", msg
		case strings.Contains(msg, "slice bounds out of range"):
			return "slice-bounds-out-of-range", msg
		case strings.Contains(msg, "nil pointer dereference"):
			return "nil-dereference", msg
		case strings.Contains(msg, "interface conversion"):
			return "interface-conversion", msg
		case strings.Contains(msg, "integer divide by zero"):
			return "divide-by-zero", msg
		case strings.Contains(msg, "makeslice") || strings.Contains(msg, "out of memory"):
			return "allocation", msg
		case strings.Contains(msg, "nil map"):
			return "nil-map-write", msg
		}
		return "runtime-error", msg
	}
	return "explicit-panic", msg
}

// topRepoFunc returns the innermost function of the repository on the current (panicking) stack.
func topRepoFunc() string {
	pcs := make([]uintptr, 64)
	n := runtime.Callers(3, pcs)
	frames := runtime.CallersFrames(pcs[:n])
	for {
		f, more := frames.Next()
		if strings.HasPrefix(f.Function, ovl.Module+"/") || strings.HasPrefix(f.Function, ovl.Module+".") {
			name := strings.TrimPrefix(f.Function, ovl.Module+"/")
			return name
		}
		if !more {
			break
		}
	}
	return "unknown"
}

// RunCase materialises the tree below dir (which must be empty) and calls Transpile.
func RunCase(dir string, c WCase) (res WRes) {
	for _, f := range c.Files {
		p := filepath.Join(dir, f.Name)
		os.MkdirAll(filepath.Dir(p), 0o755)
		switch f.Kind {
		case KFile:
			if err := os.WriteFile(p, f.Data, 0o644); err != nil {
				return WRes{Class: "skip", Skip: "cannot-write-file"}
			}
		case KDir:
			os.MkdirAll(p, 0o755)
		case KUnreadable:
			os.WriteFile(p, f.Data, 0o644)
			os.Chmod(p, 0)
			if _, err := os.ReadFile(p); err == nil {
				return WRes{Class: "skip", Skip: "unreadable-file-is-readable(root)"}
			}
		case KAbsent:
		}
	}
	defer func() {
		if r := recover(); r != nil {
			if s, ok := r.(string); ok && s == RecursionSentinel {
				res = WRes{Class: "unbounded-recursion", Sig: "unbounded-recursion", PanicMsg: "(*Parser).parse nested deeper than the depth limit of the generated counter"}
				return
			}
			pc, msg := ClassifyPanic(r)
			fn := topRepoFunc()
			if len(msg) > 300 {
				msg = msg[:300]
			}
			res = WRes{Class: "panic", PanicClass: pc, Func: fn, PanicMsg: msg, Sig: "panic:" + pc + "@" + fn}
		}
	}()
	t := transpiler.New()
	var conv transpiler.Converter
	if c.Target == 0 {
		conv = bash.New()
	} else {
		conv = batch.New()
	}
	script, err := t.Transpile(filepath.Join(dir, c.Main), conv)
	switch {
	case err == nil && script != "":
		h := sha256.Sum256([]byte(script))
		return WRes{Class: "script", Sig: fmt.Sprintf("script:%x", h[:6])}
	case err == nil && script == "":
		return WRes{Class: "neither", Sig: "neither"}
	}
	text := err.Error()
	sig := strings.ReplaceAll(text, dir, "")
	sig = pathRe.ReplaceAllString(sig, "<path>")
	sig = numRe.ReplaceAllString(sig, "#")
	if len(sig) > 100 {
		sig = sig[:100]
	}
	switch {
	case script != "":
		return WRes{Class: "both", Sig: "both:" + sig}
	case text == "":
		return WRes{Class: "empty-error", Sig: "empty-error"}
	}
	return WRes{Class: "error", Sig: "error:" + sig}
}

func cleanDir(dir string) {
	filepath.Walk(dir, func(p string, info os.FileInfo, err error) error {
		if err == nil {
			os.Chmod(p, 0o755)
		}
		return nil
	})
	es, _ := os.ReadDir(dir)
	for _, e := range es {
		os.RemoveAll(filepath.Join(dir, e.Name()))
	}
}

// Worker is the crash-isolated worker process (subcommand c13worker): it
// answers WReq lines with WResp lines until stdin is closed.
func Worker() int {
	// Memory cap: a runaway allocation kills this process, not the machine.
	capBytes := uint64(2 << 30)
	if err := wpool.LimitAddressSpace(capBytes); err != nil {
		fmt.Fprintln(os.Stderr, "c13worker: cannot set RLIMIT_AS:", err)
	}
	// A goroutine stack of 64 MiB is beyond anything the small inputs of this
	// check can need; exceeding the limit is unbounded recursion and kills the
	// process with "goroutine stack exceeds" which the explorer recognises.
	if os.Getenv("VERIF_DEPTH_COUNTER") == "on" {
		debug.SetMaxStack(64 << 20)
	} else {
		// Without the depth counter the stack limit is what makes unbounded recursion
		// visible within seconds: 8 MiB is still orders of magnitude above what the
		// inputs of this check (a few KiB at most) can legitimately need.
		debug.SetMaxStack(8 << 20)
	}
	root := os.Getenv("VERIF_WDIR")
	if root == "" {
		root = os.TempDir()
	}
	dir, err := os.MkdirTemp(root, "w")
	if err != nil {
		fmt.Fprintln(os.Stderr, "c13worker: scratch:", err)
		return 2
	}
	defer os.RemoveAll(dir)
	seq := 0
	return wpool.ServeLines(func(line []byte) []byte {
		var req WReq
		if err := json.Unmarshal(line, &req); err != nil {
			return []byte(`{"error":"bad request"}`)
		}
		resp := WResp{Depth: os.Getenv("VERIF_DEPTH_COUNTER")}
		for _, c := range req.Cases {
			seq++
			sub := filepath.Join(dir, "c")
			os.MkdirAll(sub, 0o755)
			resp.Results = append(resp.Results, RunCase(sub, c))
			cleanDir(sub)
		}
		b, _ := json.Marshal(resp)
		return b
	})
}

// Package wpool runs crash-isolated worker subprocesses that speak a
// one-JSON-line-per-request / one-JSON-line-per-reply protocol on
// stdin/stdout. A worker that dies (fatal error, stack exhaustion, OOM under
// its address-space limit) or does not answer within the watchdog is killed
// and replaced; the caller learns which of the two happened.
package wpool

import (
	"bufio"
	"bytes"
	"errors"
	"fmt"
	"io"
	"os"
	"os/exec"
	"sync"
	"sync/atomic"
	"syscall"
	"time"
)

var (
	ErrTimeout = errors.New("worker did not answer within the watchdog")
	ErrDied    = errors.New("worker process died")
)

// Failure describes a call that did not produce a reply.
type Failure struct {
	Kind   error  // ErrTimeout or ErrDied
	Stderr string // tail of the worker's stderr (fatal error text)
	Wait   string // exit status / signal
}

func (f *Failure) Error() string { return f.Kind.Error() + ": " + f.Wait }

type tailBuf struct {
	mu  sync.Mutex
	buf []byte
}

func (t *tailBuf) Write(p []byte) (int, error) {
	t.mu.Lock()
	t.buf = append(t.buf, p...)
	if len(t.buf) > 16384 {
		// keep head (the fatal error line) and tail
		head := append([]byte{}, t.buf[:6144]...)
		t.buf = append(head, t.buf[len(t.buf)-6144:]...)
	}
	t.mu.Unlock()
	return len(p), nil
}

func (t *tailBuf) String() string {
	t.mu.Lock()
	defer t.mu.Unlock()
	return string(t.buf)
}

type proc struct {
	cmd    *exec.Cmd
	in     io.WriteCloser
	lines  chan []byte
	stderr *tailBuf
	done   chan struct{}
	calls  int
}

// Pool is a fixed-size set of worker processes.
type Pool struct {
	argv []string
	env  []string
	idle chan *proc
	n    int
	excl sync.RWMutex

	// MaxCalls > 0: a worker is replaced by a fresh process after it served that many calls.
	MaxCalls int
	Recycled int64

	Restarts int64
	Calls    int64
	closed   int32
}

// New starts n workers running argv (argv[0] is the binary).
func New(n int, argv []string, env []string) (*Pool, error) {
	p := &Pool{argv: argv, env: env, idle: make(chan *proc, n), n: n}
	for i := 0; i < n; i++ {
		w, err := p.spawn()
		if err != nil {
			p.Close()
			return nil, err
		}
		p.idle <- w
	}
	return p, nil
}

func (p *Pool) spawn() (*proc, error) {
	cmd := exec.Command(p.argv[0], p.argv[1:]...)
	cmd.Env = append(os.Environ(), p.env...)
	cmd.SysProcAttr = &syscall.SysProcAttr{Setpgid: true}
	in, err := cmd.StdinPipe()
	if err != nil {
		return nil, err
	}
	out, err := cmd.StdoutPipe()
	if err != nil {
		return nil, err
	}
	tb := &tailBuf{}
	cmd.Stderr = tb
	if err := cmd.Start(); err != nil {
		return nil, err
	}
	w := &proc{cmd: cmd, in: in, lines: make(chan []byte, 1), stderr: tb, done: make(chan struct{})}
	go func() {
		rd := bufio.NewReaderSize(out, 1<<20)
		for {
			line, err := rd.ReadBytes('\n')
			if len(line) > 0 && line[len(line)-1] == '\n' {
				w.lines <- bytes.TrimRight(line, "\n")
			}
			if err != nil {
				break
			}
		}
		close(w.done)
	}()
	return w, nil
}

func (w *proc) kill() string {
	if w.cmd.Process != nil {
		syscall.Kill(-w.cmd.Process.Pid, syscall.SIGKILL)
		w.cmd.Process.Kill()
	}
	w.in.Close()
	err := w.cmd.Wait()
	if err != nil {
		return err.Error()
	}
	return "exit status 0"
}

// Call sends one request line and waits for the reply line.
func (p *Pool) Call(req []byte, watchdog time.Duration) ([]byte, error) {
	p.excl.RLock()
	defer p.excl.RUnlock()
	return p.call(req, watchdog)
}

// CallAlone runs the request while no other request of this pool is in flight.
func (p *Pool) CallAlone(req []byte, watchdog time.Duration) ([]byte, error) {
	p.excl.Lock()
	defer p.excl.Unlock()
	return p.call(req, watchdog)
}

// CallFresh runs the request in a brand-new worker process that is discarded afterwards.
func (p *Pool) CallFresh(req []byte, watchdog time.Duration) ([]byte, error) {
	p.excl.RLock()
	defer p.excl.RUnlock()
	w, err := p.spawn()
	if err != nil {
		return nil, err
	}
	resp, ferr := p.exchange(w, req, watchdog)
	if ferr == nil {
		w.kill()
	}
	return resp, ferr
}

func (p *Pool) call(req []byte, watchdog time.Duration) ([]byte, error) {
	w := <-p.idle
	resp, ferr := p.exchange(w, req, watchdog)
	if ferr != nil {
		atomic.AddInt64(&p.Restarts, 1)
		var nw *proc
		var err error
		for try := 0; try < 5; try++ {
			nw, err = p.spawn()
			if err == nil {
				break
			}
			time.Sleep(200 * time.Millisecond)
		}
		if err != nil {
			return nil, fmt.Errorf("cannot restart worker: %v", err)
		}
		p.idle <- nw
		return nil, ferr
	}
	if p.MaxCalls > 0 && w.calls >= p.MaxCalls {
		if nw, err := p.spawn(); err == nil {
			w.kill()
			atomic.AddInt64(&p.Recycled, 1)
			w = nw
		}
	}
	p.idle <- w
	return resp, nil
}

// exchange performs one request/reply; on failure the process is killed.
func (p *Pool) exchange(w *proc, req []byte, watchdog time.Duration) ([]byte, error) {
	atomic.AddInt64(&p.Calls, 1)
	w.calls++
	if bytes.IndexByte(req, '\n') >= 0 {
		panic("wpool: request contains a newline")
	}
	werr := make(chan error, 1)
	go func() {
		_, err := w.in.Write(append(append([]byte{}, req...), '\n'))
		werr <- err
	}()
	timer := time.NewTimer(watchdog)
	defer timer.Stop()
	select {
	case line := <-w.lines:
		return line, nil
	case <-w.done:
		// a last line may still be queued
		select {
		case line := <-w.lines:
			return line, nil
		default:
		}
		wait := w.kill()
		return nil, &Failure{Kind: ErrDied, Stderr: w.stderr.String(), Wait: wait}
	case <-timer.C:
		wait := w.kill()
		return nil, &Failure{Kind: ErrTimeout, Stderr: w.stderr.String(), Wait: wait}
	}
}

// Close kills all workers.
func (p *Pool) Close() {
	if !atomic.CompareAndSwapInt32(&p.closed, 0, 1) {
		return
	}
	p.excl.Lock()
	defer p.excl.Unlock()
	for {
		select {
		case w := <-p.idle:
			w.kill()
		default:
			return
		}
	}
}

// Size is the number of workers.
func (p *Pool) Size() int { return p.n }

// ServeLines is the worker side: it reads request lines from stdin and writes
// handle's reply lines to the original stdout. File descriptor 1 is redirected
// to /dev/null first so that nothing the code under test prints can corrupt
// the protocol.
func ServeLines(handle func(req []byte) []byte) int {
	fd, err := syscall.Dup(1)
	if err != nil {
		fmt.Fprintln(os.Stderr, "worker: dup:", err)
		return 2
	}
	out := os.NewFile(uintptr(fd), "protocol-out")
	if null, err := os.OpenFile(os.DevNull, os.O_WRONLY, 0); err == nil {
		syscall.Dup2(int(null.Fd()), 1)
	}
	rd := bufio.NewReaderSize(os.Stdin, 1<<20)
	wr := bufio.NewWriterSize(out, 1<<20)
	for {
		line, err := rd.ReadBytes('\n')
		if len(line) > 0 {
			resp := handle(bytes.TrimRight(line, "\n"))
			wr.Write(resp)
			wr.WriteByte('\n')
			wr.Flush()
		}
		if err != nil {
			return 0
		}
	}
}

// LimitAddressSpace applies RLIMIT_AS (bytes) to the calling process.
func LimitAddressSpace(bytes uint64) error {
	return syscall.Setrlimit(syscall.RLIMIT_AS, &syscall.Rlimit{Cur: bytes, Max: bytes})
}

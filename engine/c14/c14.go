// Package c14 decides property C14 (transpilation is a pure, repeatable
// function of source content and target) by explicit-state search over call
// histories, enumeration of map-iteration orders through a generated seam, and
// relocation of a source tree.
package c14

import (
	"encoding/json"
	"fmt"
	"go/token"
	"os"
	"path/filepath"
	"sort"
	"strings"
	"sync"
	"sync/atomic"
	"time"

	"verif/c13/ovl"
	"verif/c13/wpool"
	"verif/corpus"
	"verif/drive"
	"verif/findings"
)

const poolSize = 16

type checker struct {
	r        *findings.Run
	plain    *wpool.Pool
	seam     *wpool.Pool
	scratch  string
	deadline time.Time
	watchdog time.Duration

	alphabet []CallSpec
	names    []string // call names, e.g. P1-scalar/bash
	baseline []Obs

	mu         sync.Mutex
	harnessErr string
	evals      int64
	capHit     string
	seq        int64
}

func (c *checker) harness(format string, a ...interface{}) {
	c.mu.Lock()
	if c.harnessErr == "" {
		c.harnessErr = fmt.Sprintf(format, a...)
	}
	c.mu.Unlock()
}

func (c *checker) past() bool { return time.Now().After(c.deadline) }

func (c *checker) setCap(s string) {
	c.mu.Lock()
	if c.capHit == "" {
		c.capHit = s
	}
	c.mu.Unlock()
}

func targetName(t int) string { return drive.Target(t).String() }

// do sends a request (fresh: in a brand-new process).
func (c *checker) do(p *wpool.Pool, req Req, fresh bool) (Resp, bool) {
	b, _ := json.Marshal(req)
	var out []byte
	var err error
	if fresh {
		out, err = p.CallFresh(b, c.watchdog)
	} else {
		out, err = p.Call(b, c.watchdog)
	}
	if err != nil {
		c.harness("worker failed on %s: %v", clip(string(b), 300), err)
		return Resp{}, false
	}
	var resp Resp
	if jerr := json.Unmarshal(out, &resp); jerr != nil {
		c.harness("malformed worker reply %s", clip(string(out), 300))
		return Resp{}, false
	}
	if resp.Err != "" {
		c.harness("worker reported: %s", resp.Err)
		return Resp{}, false
	}
	atomic.AddInt64(&c.evals, int64(len(resp.Obs)))
	return resp, true
}

func clip(s string, n int) string {
	if len(s) > n {
		return s[:n] + "..."
	}
	return s
}

func writeTree(dir string, t Tree) error {
	for n, s := range t.Files {
		p := filepath.Join(dir, n)
		if err := os.MkdirAll(filepath.Dir(p), 0o755); err != nil {
			return err
		}
		if err := os.WriteFile(p, []byte(s), 0o644); err != nil {
			return err
		}
	}
	return nil
}

func (c *checker) histName(calls []int) string {
	var parts []string
	for _, ci := range calls {
		parts = append(parts, c.names[ci])
	}
	return "[" + strings.Join(parts, " ") + "]"
}

// Run is the C14 check.
func Run() int {
	r := findings.New("C14")
	r.Level = "model_checking"
	defer drive.Cleanup()
	deadline := r.Deadline(240*time.Second, 25*time.Minute)
	scratch := drive.NewDir("c14-")
	srcRoot, err := ovl.SrcRoot()
	if err != nil {
		fmt.Fprintln(os.Stderr, "C14: HARNESS ERROR:", err)
		return 2
	}
	fset := token.NewFileSet()
	pkgs, err := loadRepoPackages(srcRoot, fset)
	if err != nil || len(pkgs) == 0 {
		fmt.Fprintln(os.Stderr, "C14: HARNESS ERROR: cannot read the packages of", srcRoot, err)
		return 2
	}

	// Worker 1: current tree + accessors to all package-level variables.
	d1 := filepath.Join(scratch, "o1")
	bindir := filepath.Join(scratch, "bin") // one directory for both workers: the std library is found next to the executable
	os.MkdirAll(bindir, 0o755)
	os.MkdirAll(d1, 0o755)
	o1, err := ovl.New(d1)
	if err != nil {
		fmt.Fprintln(os.Stderr, "C14: HARNESS ERROR:", err)
		return 2
	}
	vars, err := genStateAccessors(o1, pkgs)
	globalsNote := "package-level variables of all linked repository packages are dumped through generated accessors"
	if err == nil {
		err = o1.Build("verif/c14/cmd", filepath.Join(bindir, "c14w-plain"))
	}
	if err != nil {
		globalsNote = "accessor overlay could not be built (" + clip(err.Error(), 200) + "); only the transpiler value is dumped"
		o1, _ = ovl.New(d1)
		if err := o1.Build("verif/c14/cmd", filepath.Join(bindir, "c14w-plain")); err != nil {
			fmt.Fprintln(os.Stderr, "C14: HARNESS ERROR: cannot build the worker from the current tree:", err)
			return 2
		}
	}
	// Worker 2: current tree with every range over a map rewritten to the seam.
	d2 := filepath.Join(scratch, "o2")
	os.MkdirAll(d2, 0o755)
	o2, err := ovl.New(d2)
	if err != nil {
		fmt.Fprintln(os.Stderr, "C14: HARNESS ERROR:", err)
		return 2
	}
	ranges, unowned, err := genSeam(o2, pkgs, fset)
	if err != nil {
		fmt.Fprintln(os.Stderr, "C14: HARNESS ERROR: the map-order seam cannot be generated for the current tree:", err)
		return 2
	}
	if err := o2.Build("verif/c14/cmd", filepath.Join(bindir, "c14w-seam")); err != nil {
		fmt.Fprintln(os.Stderr, "C14: HARNESS ERROR: the tree with the map-order seam does not build:", err)
		return 2
	}
	plain, err := wpool.New(poolSize, []string{filepath.Join(bindir, "c14w-plain"), "c14worker"}, nil)
	if err != nil {
		fmt.Fprintln(os.Stderr, "C14: HARNESS ERROR: cannot start workers:", err)
		return 2
	}
	defer plain.Close()
	plain.MaxCalls = 256 // bounds what a process can accumulate; the baseline is always a brand-new process
	seam, err := wpool.New(poolSize, []string{filepath.Join(bindir, "c14w-seam"), "c14worker"}, nil)
	if err != nil {
		fmt.Fprintln(os.Stderr, "C14: HARNESS ERROR: cannot start workers:", err)
		return 2
	}
	defer seam.Close()
	seam.MaxCalls = 256
	c := &checker{r: r, plain: plain, seam: seam, scratch: scratch, deadline: deadline, watchdog: 10 * time.Minute}

	r.Set("package_level_variables", vars)
	r.Set("package_level_variables_note", globalsNote)
	r.Set("map_ranges", ranges)
	r.Set("unowned_choice_points", unowned)

	only := os.Getenv("VERIF_C14_ONLY")
	want := func(part string) bool { return only == "" || strings.Contains(","+only+",", ","+part+",") }
	exhaustive := true
	if only != "" {
		exhaustive = false
		c.capHit = "development run restricted to " + only
	}
	if want("histories") {
		c.histories()
	}
	if c.harnessErr == "" && want("schedules") {
		c.schedules(ranges)
	}
	if c.harnessErr == "" && want("relocation") {
		c.relocation()
	}
	if c.harnessErr == "" && want("corpus") {
		c.corpusOrders()
	}
	if c.harnessErr != "" {
		fmt.Fprintln(os.Stderr, "C14: HARNESS ERROR:", c.harnessErr)
		return 2
	}
	r.Set("evaluations", int(c.evals))
	if c.capHit != "" {
		exhaustive = false
		r.Set("cap_hit", c.capHit)
	}
	r.Set("exhaustive", exhaustive)
	r.Set("workers", poolSize)
	r.Set("rule", "part 1: every history of Transpile calls over the alphabet {P1 scalar, P2 functions+slices+strings, P3 local+std imports, P4, P5, Perr rejected by the parser, Perr rejected late by the emitting stage, P6 = P3's main next to another library file, P7 command calls + files + input + std os} x {bash, batch} up to the stated length on ONE transpiler value with a fresh converter per call; every call must return byte-identically what it returns alone in a fresh process; the reachable hidden state (transpiler value + package-level variables) is hashed after every call and searched breadth-first with state deduplication until no new state appears. part 2: every iteration order of every range over a map (all n! for n<=5, rotations+reversal beyond), one or two non-default choice points per execution. part 3: the same tree at relocated places and under relative paths. part 4: every sole-facility program of package corpus: each of the two calls (bash, batch) alone in two fresh processes, then the histories [bash,batch], [batch,bash], [bash,bash,batch], [batch,batch,bash] on one transpiler value with a fresh converter per call, and the two-call histories also with one converter per target (as the tsh command does); every call must return the bytes it returns alone. distinct = distinct history / (program, order assignment) / location; non-trivial = at least two calls, or a non-default order, or a location different from the base.")
	r.Assumef("hidden state outside the transpiler value and the package-level variables of the repository packages (e.g. inside the Go standard library) is not dumped; it is still exercised by running every history without state deduplication")
	r.Assumef("map iteration inside the standard library is not owned by the explorer; such call sites are listed under unowned_choice_points (none means none exist in the current tree)")
	r.Assumef("memory-address- or time-dependent behaviour would escape the search; none exists in the code read")
	return r.Finish()
}

// ------------------------------------------------------------------ part 1

type histFailure struct {
	calls []int // minimal history; the last call differs
}

func (c *checker) histories() {
	r := c.r
	treeDir := filepath.Join(c.scratch, "trees")
	for ti, t := range AlphabetTrees {
		d := filepath.Join(treeDir, t.Name)
		if err := writeTree(d, t); err != nil {
			c.harness("cannot write tree: %v", err)
			return
		}
		for target := 0; target < 2; target++ {
			c.alphabet = append(c.alphabet, CallSpec{Path: filepath.Join(d, t.Main), Target: target})
			c.names = append(c.names, t.Name+"/"+targetName(target))
		}
		_ = ti
	}
	nA := len(c.alphabet)
	// Baseline: every call alone, in three separate fresh processes that must agree.
	c.baseline = make([]Obs, nA)
	var tInit, gInit string
	globalsVisible := false
	for ci := 0; ci < nA; ci++ {
		var outs []Obs
		for k := 0; k < 3; k++ {
			resp, ok := c.do(c.plain, Req{Op: "hist", Family: "fresh", Alphabet: c.alphabet, Calls: []int{ci}, WantText: true}, true)
			if !ok {
				return
			}
			outs = append(outs, resp.Obs[0])
			if tInit == "" {
				tInit, gInit, globalsVisible = resp.TInit, resp.GInit, resp.Globals
			} else if resp.TInit != tInit || resp.GInit != gInit {
				ci2 := ci
				r.Fail(fmt.Sprintf("part=baseline call=%s symptom=initial-state-differs-between-fresh-processes", c.names[ci2]),
					"the hidden state before the first call is not the same in every fresh process", nil)
			}
		}
		if outs[0].Out != outs[1].Out || outs[0].Out != outs[2].Out {
			name := c.names[ci]
			o0, o1, o2 := outs[0], outs[1], outs[2]
			spec := c.alphabet[ci]
			r.Fail(fmt.Sprintf("part=baseline call=%s symptom=fresh-processes-disagree", name),
				"the same single Transpile call returns different bytes in three fresh processes", func() findings.Replay {
					return c.replayStatistical(spec, name, []string{o0.Script, o1.Script, o2.Script})
				})
		}
		c.baseline[ci] = outs[0]
	}
	for ci, b := range c.baseline {
		wantClass := "script"
		if strings.HasPrefix(c.names[ci], "Perr") {
			wantClass = "error"
		}
		if b.Class != wantClass {
			c.harness("alphabet call %s is expected to yield a %s on every sound tree but yields %s (%s): the history search would be vacuous", c.names[ci], wantClass, b.Class, clip(b.ErrText, 200))
			return
		}
	}
	distinctOut := map[string]bool{}
	for _, b := range c.baseline {
		distinctOut[b.Out] = true
	}
	r.Set("alphabet", c.names)
	r.Set("baseline_distinct_outputs", len(distinctOut))
	r.Set("globals_visible", globalsVisible)

	// Explicit-state breadth-first search with state deduplication.
	type state struct {
		key  string
		hist []int
	}
	states := map[string][]int{tInit + "|" + gInit: {}}
	transitions := map[string]string{}
	var trMu sync.Mutex
	nondet := 0
	var failures [][]int
	var failMu sync.Mutex
	gChanged := map[string]bool{}
	judge := func(calls []int, resp Resp) {
		prev := resp.TInit + "|" + resp.GInit
		for k, o := range resp.Obs {
			cur := o.TState + "|" + o.GState
			tk := prev + ">" + fmt.Sprint(calls[k])
			trMu.Lock()
			if old, ok := transitions[tk]; ok && old != cur {
				nondet++
			}
			transitions[tk] = cur
			if _, ok := states[cur]; !ok {
				states[cur] = append([]int{}, calls[:k+1]...)
			}
			for v, h := range o.GVars {
				if resp.GInitV[v] != h {
					gChanged[v] = true
				}
			}
			trMu.Unlock()
			if o.Out != c.baseline[calls[k]].Out {
				failMu.Lock()
				failures = append(failures, append([]int{}, calls[:k+1]...))
				failMu.Unlock()
				break // later calls of this history are judged through other histories
			}
			prev = cur
		}
	}
	maxLen := 3 // 18 calls in the alphabet: 5832 histories of length 3, 104976 of length 4
	if r.Thorough() {
		maxLen = 4
	}
	frontier := []state{{tInit + "|" + gInit, nil}}
	fixpointAt := -1
	bfsTraces := 0
	for depth := 0; depth <= maxLen+1 && len(frontier) > 0; depth++ {
		var jobs [][]int
		for _, s := range frontier {
			for ci := 0; ci < nA; ci++ {
				jobs = append(jobs, append(append([]int{}, s.hist...), ci))
			}
		}
		known := map[string]bool{}
		for k := range states {
			known[k] = true
		}
		drive.Par(len(jobs), func(i int) {
			resp, ok := c.do(c.plain, Req{Op: "hist", Family: "fresh", Alphabet: c.alphabet, Calls: jobs[i]}, false)
			if ok && len(resp.Obs) == len(jobs[i]) {
				judge(jobs[i], resp)
			}
		})
		bfsTraces += len(jobs)
		if c.harnessErr != "" {
			return
		}
		frontier = nil
		var newKeys []string
		for k := range states {
			if !known[k] {
				newKeys = append(newKeys, k)
			}
		}
		sort.Strings(newKeys)
		for _, k := range newKeys {
			frontier = append(frontier, state{k, states[k]})
		}
		if len(frontier) == 0 {
			fixpointAt = depth + 1
		}
		if len(states) > 300 {
			c.setCap(fmt.Sprintf("the hidden state space does not close: %d states after depth %d (every call creates new state); breadth-first search stopped", len(states), depth+1))
			break
		}
	}
	bfsStates, bfsTransitions := len(states), len(transitions)

	// Every history of the full length, without deduplication (a dependence that
	// is not visible in the dumped state is still caught).
	total := 1
	for i := 0; i < maxLen; i++ {
		total *= nA
	}
	var done int64
	drive.Par(total, func(i int) {
		if c.past() {
			c.setCap(fmt.Sprintf("internal deadline reached after %d of %d histories of length %d", atomic.LoadInt64(&done), total, maxLen))
			return
		}
		failMu.Lock()
		nf := len(failures)
		failMu.Unlock()
		if nf >= 200 {
			c.setCap(fmt.Sprintf("%d failing histories found after %d of %d histories of length %d; enumeration stopped, the failures are reported", nf, atomic.LoadInt64(&done), total, maxLen))
			return
		}
		calls := make([]int, maxLen)
		x := i
		for k := maxLen - 1; k >= 0; k-- {
			calls[k] = x % nA
			x /= nA
		}
		resp, ok := c.do(c.plain, Req{Op: "hist", Family: "fresh", Alphabet: c.alphabet, Calls: calls}, false)
		if ok && len(resp.Obs) == len(calls) {
			judge(calls, resp)
			atomic.AddInt64(&done, 1)
		}
	})
	if c.harnessErr != "" {
		return
	}
	// Information: the converters reused the way tsh.go does (outside the library contract).
	reuseLen := maxLen - 1
	reuseTotal := 1
	for i := 0; i < reuseLen; i++ {
		reuseTotal *= nA
	}
	var reuseCalls, reuseDiff int64
	reuseExample := ""
	var exMu sync.Mutex
	drive.Par(reuseTotal, func(i int) {
		if c.past() {
			return
		}
		calls := make([]int, reuseLen)
		x := i
		for k := reuseLen - 1; k >= 0; k-- {
			calls[k] = x % nA
			x /= nA
		}
		resp, ok := c.do(c.plain, Req{Op: "hist", Family: "reuse", Alphabet: c.alphabet, Calls: calls}, false)
		if !ok {
			return
		}
		for k, o := range resp.Obs {
			atomic.AddInt64(&reuseCalls, 1)
			if o.Out != c.baseline[calls[k]].Out {
				atomic.AddInt64(&reuseDiff, 1)
				exMu.Lock()
				if reuseExample == "" || len(calls[:k+1]) < strings.Count(reuseExample, " ")+1 {
					reuseExample = c.histName(calls[:k+1])
				}
				exMu.Unlock()
			}
		}
	})
	if c.harnessErr != "" {
		return
	}

	// Failing histories: minimise, confirm in fresh processes, report.
	sort.Slice(failures, func(i, j int) bool {
		if len(failures[i]) != len(failures[j]) {
			return len(failures[i]) < len(failures[j])
		}
		return fmt.Sprint(failures[i]) < fmt.Sprint(failures[j])
	})
	differs := func(calls []int) (bool, Obs) {
		resp, ok := c.do(c.plain, Req{Op: "hist", Family: "fresh", Alphabet: c.alphabet, Calls: calls, WantText: true}, true)
		if !ok || len(resp.Obs) != len(calls) {
			return false, Obs{}
		}
		last := len(calls) - 1
		return resp.Obs[last].Out != c.baseline[calls[last]].Out, resp.Obs[last]
	}
	reported := map[string]bool{}
	processOnly := 0
	seenFull := map[string]bool{}
	processOnlySeen := map[string]bool{}
	tried, notMinimised := 0, 0
	for _, f := range failures {
		full := c.histName(f)
		if seenFull[full] {
			continue
		}
		seenFull[full] = true
		if len(f) == 1 && processOnlySeen[full] {
			continue
		}
		if tried >= 150 || len(reported) >= 12 {
			notMinimised++
			continue
		}
		tried++
		if ok, _ := differs(f); !ok {
			// not reproducible alone in a fresh process: the difference needs the earlier histories of the same process
			processOnly++
			processOnlySeen[c.histName(f[len(f)-1:])] = true
			key := fmt.Sprintf("part=histories family=fresh-converter class=needs-earlier-histories-in-the-same-process first-differing-call=%s", c.names[f[len(f)-1]])
			r.Fail(key, "a call returned different bytes only after other histories had run in the same process (state that outlives the transpiler value); see the history-keyed violations for a replayable witness", nil)
			continue
		}
		min := append([]int{}, f...)
		for i := 0; i < len(min)-1; {
			cand := append(append([]int{}, min[:i]...), min[i+1:]...)
			if ok, _ := differs(cand); ok {
				min = cand
			} else {
				i++
			}
		}
		name := c.histName(min)
		if reported[name] {
			continue
		}
		reported[name] = true
		ok1, obs := differs(min)
		ok2, obs2 := differs(min)
		if c.harnessErr != "" {
			return
		}
		if !ok1 || !ok2 || obs.Out != obs2.Out {
			// Identical runs in brand-new processes disagree: that is the property itself
			// (repeatability), not a harness problem - the harness replays byte-identical
			// inputs at identical paths.
			lc := min[len(min)-1]
			spec, nm := c.alphabet[lc], c.names[lc]
			r.Fail(fmt.Sprintf("part=histories call=%s symptom=not-repeatable-in-fresh-processes", nm),
				"the same history run again in a brand-new process returns other bytes for this call", func() findings.Replay {
					return c.replayStatistical(spec, nm, []string{obs.Script, obs2.Script})
				})
			continue
		}
		last := min[len(min)-1]
		key := fmt.Sprintf("part=histories family=fresh-converter history=%s first-differing-call=%d:%s", name, len(min), c.names[last])
		minCopy := min
		r.Fail(key, fmt.Sprintf("call %d of the history returns other bytes (%s) than the same call alone in a fresh process (%s)", len(min), obs.Class, c.baseline[last].Class),
			func() findings.Replay { return c.replayHistory(minCopy, obs, c.baseline[last]) })
	}

	var changed []string
	for v := range gChanged {
		changed = append(changed, v)
	}
	sort.Strings(changed)
	r.Set("states", len(states))
	r.Set("transitions", len(transitions))
	r.Set("states_found_by_bfs", bfsStates)
	r.Set("transitions_found_by_bfs", bfsTransitions)
	r.Set("bfs_fixpoint_reached_at_depth", fixpointAt)
	r.Set("bfs_traces", bfsTraces)
	r.Set("traces_validated_against_impl", bfsTraces+int(done)+3*nA)
	r.Set("history_length", maxLen)
	r.Set("histories_full_length", int(done))
	r.Set("histories_full_length_total", total)
	r.Set("distinct_nontrivial", int(done)+bfsTraces)
	r.Set("nondeterministic_transitions", nondet)
	r.Set("package_level_variables_changed_by_calls", changed)
	r.Set("failing_history_prefixes", len(failures))
	r.Set("failing_only_within_a_used_process", processOnly)
	r.Set("failing_histories_not_minimised", notMinimised)
	r.Set("reuse_family_information", map[string]interface{}{
		"what":            "same histories with ONE converter per target reused across calls (as tsh.go does); outside the library contract, not judged",
		"history_length":  reuseLen,
		"calls":           int(reuseCalls),
		"calls_differing": int(reuseDiff),
		"shortest_example": reuseExample,
	})
	// samples: three of the executed histories, written out call by call
	for k := 0; k < 3; k++ {
		i := int((r.Seed + int64(k)*int64(total/3+1) + 1234567) % int64(total))
		if i < 0 {
			i = -i
		}
		calls := make([]int, maxLen)
		x := i
		for j := maxLen - 1; j >= 0; j-- {
			calls[j] = x % nA
			x /= nA
		}
		resp, ok := c.do(c.plain, Req{Op: "hist", Family: "fresh", Alphabet: c.alphabet, Calls: calls}, false)
		if !ok || len(resp.Obs) != len(calls) {
			return
		}
		var steps []string
		for j, o := range resp.Obs {
			steps = append(steps, fmt.Sprintf("%s -> %s out=%s same-as-alone=%v state=%s", c.names[calls[j]], o.Class, o.Out[:8], o.Out == c.baseline[calls[j]].Out, o.TState[:8]))
		}
		r.Sample(map[string]string{"kind": "history", "history": c.histName(calls), "initial_state": resp.TInit[:8], "calls": strings.Join(steps, " ; ")})
	}
	if fixpointAt < 0 {
		c.setCap("the hidden state space did not close within the history bound")
	}
}

// ------------------------------------------------------------------ part 2

type choicePoint struct {
	ID   string // <pkg>#<hit>
	Site string
	N    int
}

func parseSeamLog(lines []string) []choicePoint {
	var cps []choicePoint
	for _, l := range lines {
		f := strings.Fields(l)
		if len(f) != 3 {
			continue
		}
		n := 0
		fmt.Sscanf(f[2], "%d", &n)
		cps = append(cps, choicePoint{f[0], f[1], n})
	}
	return cps
}

func factorial(n int) int {
	f := 1
	for i := 2; i <= n; i++ {
		f *= i
	}
	return f
}

// orders lists the non-default orders tried at a choice point with n keys.
func orders(n int, full bool) (perms []string, partial bool) {
	if n < 2 {
		return nil, false
	}
	if full && n <= 5 {
		for i := 1; i < factorial(n); i++ {
			perms = append(perms, fmt.Sprint(i))
		}
		return perms, false
	}
	for r := 1; r < n; r++ {
		perms = append(perms, fmt.Sprintf("r%d", r))
	}
	if n > 2 {
		perms = append(perms, "v")
	}
	return perms, factorial(n)-1 > len(perms)
}

func (c *checker) runSeam(path string, target int, overrides []string, fresh bool) (Obs, []choicePoint, bool) {
	n := atomic.AddInt64(&c.seq, 1)
	logf := filepath.Join(c.scratch, fmt.Sprintf("seamlog%d", n))
	resp, ok := c.do(c.seam, Req{Op: "single", Single: CallSpec{Path: path, Target: target}, Seam: fmt.Sprintf("g%d;%s", n, strings.Join(overrides, ",")), SeamLog: logf}, fresh)
	if !ok || len(resp.Obs) != 1 {
		return Obs{}, nil, false
	}
	return resp.Obs[0], parseSeamLog(resp.SeamLog), true
}

func (c *checker) schedules(ranges []MapRange) {
	r := c.r
	rewritten := 0
	for _, mr := range ranges {
		if mr.Rewritten {
			rewritten++
		}
	}
	r.Set("map_ranges_rewritten", rewritten)
	thorough := r.Thorough()
	var execs, points, partialPoints, distinctOrders, explained int64
	perProg := map[string]interface{}{}
	for _, t := range ScheduleTrees {
		d := filepath.Join(c.scratch, "sched", t.Name)
		if err := writeTree(d, t); err != nil {
			c.harness("cannot write tree: %v", err)
			return
		}
		path := filepath.Join(d, t.Main)
		for target := 0; target < 2; target++ {
			if c.harnessErr != "" {
				return
			}
			// what the unmodified tree returns (three fresh processes = three runtime map seeds)
			var real []Obs
			for k := 0; k < 3; k++ {
				resp, ok := c.do(c.plain, Req{Op: "single", Single: CallSpec{Path: path, Target: target}, WantText: true}, true)
				if !ok {
					return
				}
				real = append(real, resp.Obs[0])
			}
			if real[0].Class != "script" {
				c.harness("schedule program %s/%s is expected to be accepted by every sound tree but yields %s (%s)", t.Name, targetName(target), real[0].Class, clip(real[0].ErrText, 200))
				return
			}
			tname, tg := t.Name, target
			if real[0].Out != real[1].Out || real[0].Out != real[2].Out {
				scripts := []string{real[0].Script, real[1].Script, real[2].Script}
				r.Fail(fmt.Sprintf("part=schedules prog=%s target=%s points=runtime-order symptom=fresh-processes-disagree", tname, targetName(tg)),
					"the same Transpile call returns different bytes in three fresh processes (runtime map order)", func() findings.Replay {
						return c.replayStatistical(CallSpec{Path: path, Target: tg}, tname+"/"+targetName(tg), scripts)
					})
			}
			def, cps, ok := c.runSeam(path, target, nil, true)
			if !ok {
				return
			}
			atomic.AddInt64(&execs, 1)
			if def.Out != real[0].Out {
				r.Fail(fmt.Sprintf("part=schedules prog=%s target=%s points=all-sorted symptom=output-depends-on-map-order", tname, targetName(tg)),
					"with every map iterated in sorted key order the output differs from what the unmodified tree returns", nil)
			}
			if rewritten > 0 && len(cps) == 0 {
				c.harness("schedule program %s reaches no range over a map although %d are rewritten: the programs no longer exercise the seam", t.Name, rewritten)
				return
			}
			type job struct {
				ov    []string
				sites []string
			}
			var jobs []job
			sizes := []int{}
			for i, cp := range cps {
				sizes = append(sizes, cp.N)
				ps, partial := orders(cp.N, true)
				atomic.AddInt64(&points, 1)
				if partial {
					atomic.AddInt64(&partialPoints, 1)
				}
				for _, p := range ps {
					jobs = append(jobs, job{[]string{cp.ID + ":" + p}, []string{cp.Site}})
				}
				for j := i + 1; j < len(cps); j++ {
					psI, _ := orders(cp.N, thorough || factorial(cp.N) <= 6)
					psJ, _ := orders(cps[j].N, thorough || factorial(cps[j].N) <= 6)
					for _, pi := range psI {
						for _, pj := range psJ {
							jobs = append(jobs, job{[]string{cp.ID + ":" + pi, cps[j].ID + ":" + pj}, []string{cp.Site, cps[j].Site}})
						}
					}
				}
			}
			var failMu sync.Mutex
			failed := map[string]string{}
			var ran int64
			drive.Par(len(jobs), func(i int) {
				if c.past() {
					c.setCap(fmt.Sprintf("internal deadline reached in the schedule search of %s/%s after %d of %d orders", tname, targetName(tg), atomic.LoadInt64(&ran), len(jobs)))
					return
				}
				o, _, ok := c.runSeam(path, tg, jobs[i].ov, false)
				if !ok {
					return
				}
				atomic.AddInt64(&ran, 1)
				if o.Out != def.Out {
					k := strings.Join(jobs[i].sites, "+")
					failMu.Lock()
					if old, ok := failed[k]; !ok || strings.Join(jobs[i].ov, ",") < old {
						failed[k] = strings.Join(jobs[i].ov, ",")
					}
					failMu.Unlock()
				}
			})
			atomic.AddInt64(&execs, ran)
			atomic.AddInt64(&distinctOrders, ran)
			perProg[tname+"/"+targetName(tg)] = map[string]interface{}{"choice_points": len(cps), "map_sizes": sizes, "orders_executed": int(ran), "orders_planned": len(jobs)}
			var fk []string
			for k := range failed {
				fk = append(fk, k)
			}
			sort.Strings(fk)
			for _, k := range fk {
				ov := strings.Split(failed[k], ",")
				// confirm twice, each time in brand-new processes (default order and the
				// other order), so that state a long-lived worker may have accumulated
				// cannot be mistaken for order dependence
				d1, _, okd := c.runSeam(path, tg, nil, true)
				o1, _, ok1 := c.runSeam(path, tg, ov, true)
				o2, _, ok2 := c.runSeam(path, tg, ov, true)
				if !okd || !ok1 || !ok2 {
					return
				}
				if d1.Out != def.Out || o1.Out != o2.Out {
					spec := CallSpec{Path: path, Target: tg}
					r.Fail(fmt.Sprintf("part=schedules prog=%s target=%s points=%s symptom=not-repeatable-under-fixed-map-orders", tname, targetName(tg), k),
						"with every owned map order fixed, identical runs in brand-new processes still return different bytes (an order or state source the seam does not own)",
						func() findings.Replay { return c.replayStatistical(spec, tname+"/"+targetName(tg), nil) })
					continue
				}
				if o1.Out == d1.Out {
					atomic.AddInt64(&explained, 1) // differed only inside a used process: judged by the history search
					continue
				}
				spec := CallSpec{Path: path, Target: tg}
				r.Fail(fmt.Sprintf("part=schedules prog=%s target=%s points=%s symptom=output-depends-on-map-order", tname, targetName(tg), k),
					fmt.Sprintf("iterating the map(s) at %s in another order (first failing assignment %s) changes the emitted bytes", k, failed[k]),
					func() findings.Replay { return c.replayStatistical(spec, tname+"/"+targetName(tg), nil) })
			}
			if len(cps) > 0 {
				r.Sample(map[string]string{"kind": "schedule", "program": tname, "target": targetName(tg), "choice_points": fmt.Sprint(len(cps)), "map_sizes": fmt.Sprint(sizes), "orders_executed": fmt.Sprint(ran)})
			}
		}
	}
	r.Set("schedule_executions", int(execs))
	r.Set("schedule_differences_only_inside_a_used_process", int(explained))
	r.Set("schedule_choice_points", int(points))
	r.Set("schedule_choice_points_partially_permuted", int(partialPoints))
	r.Set("schedule_programs", perProg)
	cur, _ := r.Cov["distinct_nontrivial"].(int)
	r.Set("distinct_nontrivial", cur+int(distinctOrders))
	if !thorough {
		r.Set("schedule_pairs_note", "quick tier: pairs of non-default choice points use rotations+reversal when a map has more than 3 keys (all n! in the thorough tier for n<=5)")
	}
}

// ------------------------------------------------------------------ part 3

func (c *checker) relocation() {
	r := c.r
	root := filepath.Join(c.scratch, "reloc")
	base := filepath.Join(root, "base")
	type loc struct {
		class string
		dir   string // where the tree is
		cwd   string // "" = absolute path
		path  string
	}
	locs := []loc{
		{"deeper-below-old-path", filepath.Join(base, "nested", "deeper", "tree"), "", ""},
		{"path-with-blank", filepath.Join(root, "with blank", "my tree"), "", ""},
		{"old-path-is-string-prefix", base + "-copy", "", ""},
		{"shallower", filepath.Join(c.scratch, "r"), "", ""},
		{"relative-from-tree-dir", base, base, "main.tsh"},
		{"relative-from-parent-dir", base, root, filepath.Join("base", "main.tsh")},
		{"relative-with-dotdot-from-subdir", base, filepath.Join(base, "sub"), filepath.Join("..", "main.tsh")},
		{"relative-dot-slash", base, base, "./main.tsh"},
		// the SAME absolute path, the process standing somewhere else: nothing about the working directory
		// (not even entries named like the import strings) may reach the result
		{"absolute-path-cwd-empty-dir", base, filepath.Join(root, "cwd-empty"), filepath.Join(base, "main.tsh")},
		{"absolute-path-cwd-with-decoys", base, filepath.Join(root, "cwd-decoys"), filepath.Join(base, "main.tsh")},
	}
	os.MkdirAll(filepath.Join(root, "cwd-empty"), 0o755)
	for n, content := range map[string]string{
		"strings/keep": "a directory named like a standard library import\n", "os/keep": "x\n", "strings.tsh": "func Repeat(s string, n int) string {\n\treturn \"decoy\"\n}\n",
		"sub/util.tsh": "func Mark() string {\n\treturn \"decoy\"\n}\nfunc Twice(n int) int {\n\treturn -1\n}\n", "sub/deep/v.tsh": "func V() string {\n\treturn \"decoy\"\n}\n", "deep/v.tsh": "func V() string {\n\treturn \"decoy\"\n}\n", "main.tsh": "print(\"decoy\")\n",
	} {
		p := filepath.Join(root, "cwd-decoys", n)
		os.MkdirAll(filepath.Dir(p), 0o755)
		os.WriteFile(p, []byte(content), 0o644)
	}
	if err := writeTree(base, RelocTree); err != nil {
		c.harness("cannot write tree: %v", err)
		return
	}
	for _, l := range locs {
		if l.dir != base {
			if err := writeTree(l.dir, RelocTree); err != nil {
				c.harness("cannot write tree: %v", err)
				return
			}
		}
	}
	n := 0
	for target := 0; target < 2; target++ {
		resp, ok := c.do(c.plain, Req{Op: "single", Single: CallSpec{Path: filepath.Join(base, "main.tsh"), Target: target}, WantText: true}, true)
		if !ok {
			return
		}
		ref := resp.Obs[0]
		if ref.Class != "script" {
			c.harness("relocation program is expected to be accepted by every sound tree but yields %s (%s)", ref.Class, clip(ref.ErrText, 200))
			return
		}
		for _, l := range locs {
			req := Req{Op: "single", Single: CallSpec{Path: filepath.Join(l.dir, "main.tsh"), Target: target}, WantText: true}
			if l.cwd != "" {
				req.Cwd = l.cwd
				req.Single.Path = l.path
			}
			var obs []Obs
			for k := 0; k < 2; k++ { // two fresh processes: the observation must be repeatable
				resp, ok := c.do(c.plain, req, true)
				if !ok {
					return
				}
				obs = append(obs, resp.Obs[0])
			}
			n++
			if obs[0].Out != obs[1].Out {
				spec := req.Single
				r.Fail(fmt.Sprintf("part=relocation location=%s target=%s symptom=not-repeatable-in-fresh-processes", l.class, targetName(target)),
					"two brand-new processes return different bytes for the same tree at the same place", func() findings.Replay {
						return c.replayStatistical(CallSpec{Path: filepath.Join(base, "main.tsh"), Target: spec.Target}, "R-relocation/"+targetName(spec.Target), []string{obs[0].Script, obs[1].Script})
					})
				continue
			}
			if obs[0].Out != ref.Out {
				ll, tg, got := l, target, obs[0]
				r.Fail(fmt.Sprintf("part=relocation location=%s target=%s symptom=output-differs", l.class, targetName(target)),
					fmt.Sprintf("the same tree transpiled at another place (%s) returns other bytes (%s) than at the base place (%s)", l.class, got.Class, ref.Class),
					func() findings.Replay { return c.replayRelocation(ll.class, ll.dir, ll.cwd, ll.path, base, tg, ref, got) })
			}
			r.Sample(map[string]string{"kind": "relocation", "location": l.class, "target": targetName(target), "same_bytes": fmt.Sprint(obs[0].Out == ref.Out)})
		}
	}
	r.Set("relocation_cases", n)
	cur, _ := r.Cov["distinct_nontrivial"].(int)
	r.Set("distinct_nontrivial", cur+n)
}

// ------------------------------------------------------------------ part 4

// corpusOrders: the two targets never influence each other, whatever single facility a program uses.
func (c *checker) corpusOrders() {
	r := c.r
	progs := corpus.Tiny()
	treeDir := filepath.Join(c.scratch, "corpus")
	var mu sync.Mutex
	judged, histories := 0, 0
	drive.Par(len(progs), func(i int) {
		if c.past() {
			c.setCap("corpus sweep stopped at the internal deadline")
			return
		}
		p := progs[i]
		d := filepath.Join(treeDir, fmt.Sprintf("t%d", i))
		if err := writeTree(d, Tree{Name: p.Name, Main: "main.tsh", Files: map[string]string{"main.tsh": p.Src}}); err != nil {
			c.harness("cannot write tree: %v", err)
			return
		}
		alpha := []CallSpec{{Path: filepath.Join(d, "main.tsh"), Target: 0}, {Path: filepath.Join(d, "main.tsh"), Target: 1}}
		var base [2]Obs
		for ci := 0; ci < 2; ci++ {
			var outs []Obs
			for k := 0; k < 2; k++ {
				resp, ok := c.do(c.plain, Req{Op: "hist", Family: "fresh", Alphabet: alpha, Calls: []int{ci}, WantText: true}, true)
				if !ok || len(resp.Obs) != 1 {
					return
				}
				outs = append(outs, resp.Obs[0])
			}
			if outs[0].Out != outs[1].Out {
				r.Fail(fmt.Sprintf("part=corpus prog=%s target=%s symptom=fresh-processes-disagree", p.Name, targetName(ci)),
					"the same single Transpile call returns different bytes in two fresh processes", func() findings.Replay {
						return findings.Replay{Files: map[string]string{"src/main.tsh": p.Src, "first.txt": outs[0].Script + outs[0].ErrText, "second.txt": outs[1].Script + outs[1].ErrText}, Script: "diff first.txt second.txt"}
					})
				return
			}
			base[ci] = outs[0]
		}
		for _, fam := range []string{"fresh", "reuse"} {
			for _, h := range [][]int{{0, 1}, {1, 0}, {0, 0, 1}, {1, 1, 0}} {
				if fam == "reuse" && len(h) > 2 {
					continue // a converter serves ONE call per target (the command makes a new one for a repeated target)
				}
				resp, ok := c.do(c.plain, Req{Op: "hist", Family: fam, Alphabet: alpha, Calls: h, WantText: true}, true)
				if !ok || len(resp.Obs) != len(h) {
					return
				}
				mu.Lock()
				histories++
				judged += len(h)
				mu.Unlock()
				for k, ci := range h {
					if resp.Obs[k].Out != base[ci].Out {
						got, want := resp.Obs[k], base[ci]
						var hn []string
						for _, x := range h {
							hn = append(hn, targetName(x))
						}
						r.Fail(fmt.Sprintf("part=corpus prog=%s family=%s-converter history=%s differing-call=%d:%s", p.Name, fam, strings.Join(hn, ","), k+1, targetName(ci)),
							fmt.Sprintf("call %d of the history returns other bytes (%s) than the same call alone in a fresh process (%s)", k+1, got.Class, want.Class), func() findings.Replay {
								return findings.Replay{Files: map[string]string{"src/main.tsh": p.Src, "alone.txt": want.Script + want.ErrText, "in-history.txt": got.Script + got.ErrText}, Script: "diff alone.txt in-history.txt"}
							})
						break
					}
				}
			}
		}
	})
	r.Set("corpus_programs", len(progs))
	r.Set("corpus_histories", histories)
	r.Set("corpus_calls_judged", judged)
}

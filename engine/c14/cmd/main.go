// Development entry point of the C14 check: `c14-dev` runs the check,
// `c14-dev c14worker` is the worker process.
package main

import (
	"os"

	"verif/c14"
)

func main() {
	if len(os.Args) > 1 && os.Args[1] == "c14worker" {
		os.Exit(c14.Worker())
	}
	os.Exit(c14.Run())
}

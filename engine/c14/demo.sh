#!/bin/bash
# Detection demo for C14: applies one property-breaking edit to a scratch COPY of /repo,
# runs the check against it (VERIF_REPO), prints the VIOLATION lines, deletes the copy.
# usage: demo.sh <singleton|maporder|pathprefix|none> [quick|thorough]
set -u
M=${1:-singleton}; TIER=${2:-quick}
. /verif/env.sh
W=$(mktemp -d /dev/shm/c14demo.XXXX); trap 'rm -rf "$W"' EXIT
cp -r /repo "$W/repo"; rm -rf "$W/repo/.git"
mkdir -p "$W/root"; ln -s /verif/engine "$W/root/engine"; ln -s /verif/.cache "$W/root/.cache"; : > "$W/root/KNOWN_FINDINGS.txt"
python3 - "$M" "$W/repo" <<'PY'
import sys,re
m,root=sys.argv[1],sys.argv[2]
def sub(path,old,new,count=1):
    p=root+'/'+path; s=open(p).read()
    assert old in s, ('pattern not found',path,old)
    open(p,'w').write(s.replace(old,new,count))
if m=='singleton':
    sub('converters/bash/converter.go','''func New() *converter {
	return &converter{
		interpreter: "/bin/bash",
		code:        []string{},
	}
}''','''var mutantSingleton = &converter{
	interpreter: "/bin/bash",
	code:        []string{},
}

func New() *converter {
	return mutantSingleton
}''')
elif m=='maporder':
    sub('parser/parser.go','''	return Program{
		body: statements,
	}, nil
}

func (p *Parser) evaluateVarNames()''','''	// MUTANT: functions are collected in a map and emitted in its iteration order.
	funcs := map[string]Statement{}
	rest := []Statement{}
	for _, stmt := range statements {
		if fd, ok := stmt.(FunctionDefinition); ok {
			funcs[fd.Name()] = stmt
		} else {
			rest = append(rest, stmt)
		}
	}
	ordered := []Statement{}
	for _, stmt := range funcs {
		ordered = append(ordered, stmt)
	}
	return Program{
		body: append(ordered, rest...),
	}, nil
}

func (p *Parser) evaluateVarNames()''')
elif m=='pathprefix':
    sub('parser/parser.go','h.Write(source)','h.Write([]byte(path))')
elif m=='none':
    pass
else:
    sys.exit('unknown mutant '+m)
PY
[ $? -eq 0 ] || exit 2
echo "== mutant: $M =="; (cd "$W/repo" && diff -ru /repo . --exclude=.git | head -60)
(cd /verif/engine && go build -o "$W/c14-dev" ./c14/cmd) || exit 2
mkdir -p "$W/std"; cp /repo/std/*.tsh "$W/std/"
VERIF_TIER=$TIER VERIF_REPO="$W/repo" VERIF_ROOT="$W/root" timeout 1500 "$W/c14-dev" > "$W/out.txt" 2> "$W/err.txt"; st=$?
cut -c1-420 "$W/out.txt" | head -${DEMO_LINES:-12}; tail -3 "$W/err.txt"; echo "exit status: $st; VIOLATION lines: $(grep -c '^VIOLATION' "$W/out.txt")"
r=$(grep -o 'replay=/[^ ]*' "$W/out.txt" | head -1 | cut -d= -f2)
if [ -n "$r" ] && [ -f "$r/replay.sh" ]; then echo "== replay of the first violation against the mutated copy =="; sed "s#/repo#$W/repo#g" "$r/replay.sh" > "$r/replay_mut.sh"; (cd "$r" && bash replay_mut.sh 2>&1 | tail -6); fi

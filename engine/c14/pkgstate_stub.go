package c14

// packageVars returns pointers to the package-level variables of the
// repository packages. This stub is what an ordinary build contains; the check
// replaces it through `go build -overlay` by a generated version that calls the
// accessor generated into every repository package.
func packageVars() (map[string]map[string]interface{}, bool) {
	return nil, false
}

package c14

// Tree is a source tree with a main file.
type Tree struct {
	Name  string
	Files map[string]string
	Main  string
}

// The alphabet programs of the history search.
var (
	P1 = Tree{Name: "P1-scalar", Main: "main.tsh", Files: map[string]string{"main.tsh": `var a int = 3
var b int = a * 2 + 1
var s string = "x" + "y"
var c bool = a < b && s == "xy"
if c {
	print(a, b, s)
} else {
	print("no")
}
for i := 0; i < 3; i++ {
	a += i
}
switch a {
case 6:
	print("six")
default:
	print(a)
}
d := 5
a, d = d, a
print(a, d)
`}}

	P2 = Tree{Name: "P2-functions-slices-strings", Main: "main.tsh", Files: map[string]string{"main.tsh": `func sum(xs []int) int {
	t := 0
	for _, x := range xs {
		t += x
	}
	return t
}
func pair(s string) (string, int) {
	return s[0:1], len(s)
}
var xs []int = []int{1, 2, 3}
xs[4] = 5
ys := []int{}
n := copy(ys, xs)
h, l := pair("hello")
print(sum(xs), n, h, l, itoa(l) + "!", xs[1])
for i, ch := range "ab" {
	print(i, ch)
}
`}}

	P3 = Tree{Name: "P3-imports", Main: "main.tsh", Files: map[string]string{
		"main.tsh": `import (
	"strings"
	u "lib/util.tsh"
)
func shout(s string) string {
	return strings.Repeat(s, 2) + u.Mark()
}
print(shout("ab"))
print(strings.Contains("hello", "ell"), u.Twice(4))
`,
		"lib/util.tsh": `func Mark() string {
	return "!"
}
func helper(n int) int {
	return n
}
func Twice(n int) int {
	return helper(n) + helper(n)
}
func Unused() int {
	return 7
}
`}}

	Perr = Tree{Name: "Perr-rejected", Main: "main.tsh", Files: map[string]string{"main.tsh": `var a int = 1
var b string = a
print(b)
`}}
)

// P4 imports the same files as P3 but uses OTHER functions of them (what one program uses must
// not leak into the unused-function removal of the next); P5 defines functions with the names P2
// uses but does not call them.
var (
	P4 = Tree{Name: "P4-imports-other-functions", Main: "main.tsh", Files: map[string]string{
		"main.tsh": `import (
	"strings"
	u "lib/util.tsh"
)
print(strings.HasPrefix("hello", "he"), u.Unused())
`,
		"lib/util.tsh": P3.Files["lib/util.tsh"]}}

	P5 = Tree{Name: "P5-same-names-unused", Main: "main.tsh", Files: map[string]string{"main.tsh": `func sum(xs []int) int {
	return 0
}
func pair(s string) (string, int) {
	return s, 1
}
func only() int {
	return 42
}
print(only())
`}}
)

// Perr2 is rejected LATE: by a check of the emitting stage (the data argument of write), after statements
// that use every numbered or buffered facility (simultaneous assignment, loops, branches, slices, calls,
// substrings). Whatever an abandoned run has counted or buffered must not reach the next run.
var Perr2 = Tree{Name: "Perr-late-rejected", Main: "main.tsh", Files: map[string]string{"main.tsh": `func swap(a int, b int) (int, int) {
	return b, a
}
x := 1
y := 2
x, y = y, x
xs := []int{1, 2}
xs[3] = 4
for i := 0; i < 2; i++ {
	if i == 1 {
		x += i
	} else if i == 0 {
		y += i
	}
}
s := "ab"
print(s[0:1], len(xs), x, y)
p, q := swap(x, y)
p, q = q, p
print(p, q)
write("f.txt", 1)
`}}

// P6 has P3's main file, byte for byte, next to ANOTHER lib/util.tsh: what a file imports is decided by the
// file found at that place now, not by the import string an earlier program used.
var P6 = Tree{Name: "P6-same-import-string-other-file", Main: "main.tsh", Files: map[string]string{
	"main.tsh": P3.Files["main.tsh"],
	"lib/util.tsh": `func Mark() string {
	return "?"
}
func Twice(n int) int {
	return n * 2 + 100
}
`}}

// P7 uses what the other programs leave out: command calls (plain, piped, captured, with a call as argument,
// inside a function), the std os module, input, write / append / exists / read and panic.
var P7 = Tree{Name: "P7-commands-files-input", Main: "main.tsh", Files: map[string]string{"main.tsh": `import (
	"os"
)
func run(name string) string {
	out, err, code := @echo(name, "x y") | @tr("a-z", "A-Z")
	if code != 0 {
		return err
	}
	return out
}
@echo("plain", "call")
o, e, c := @printf("%s", run("ab"))
print(o, e, c, os.Shell())
s := input("name: ")
write("f.txt", s + o)
write("f.txt", "more", true)
if exists("f.txt") {
	print(read("f.txt"))
}
if len(s) > 3 {
	panic("too long: " + s)
}
`}}

// AlphabetTrees in alphabet order; call index = 2*tree + target.
var AlphabetTrees = []Tree{P1, P2, P3, Perr, P4, P5, Perr2, P6, P7}

// Schedule programs: they make the call-graph map that the import merge ranges over non-trivial.
var (
	S1 = Tree{Name: "S1-diamond", Main: "main.tsh", Files: map[string]string{
		"main.tsh": `import (
	a "a.tsh"
	b "b.tsh"
)
func m1() int {
	return a.A1() + b.B1()
}
func m2() int {
	return m1() + a.A3()
}
print(m2())
print(b.B3())
`,
		"a.tsh": `import c "c.tsh"
func a2() int {
	return c.C2()
}
func A1() int {
	return a2() + c.C1()
}
func A3() int {
	return A1() + a2()
}
`,
		"b.tsh": `import c "c.tsh"
func b2() int {
	return c.C1()
}
func B1() int {
	return b2() + c.C2()
}
func B3() int {
	return B1() + b2()
}
`,
		"c.tsh": `func c3() int {
	return 1
}
func C2() int {
	return c3() + 1
}
func C1() int {
	return C2() + 1
}
`}}

	S2 = Tree{Name: "S2-std-and-local", Main: "main.tsh", Files: map[string]string{
		"main.tsh": `import (
	"strings"
	x "x.tsh"
)
func f() string {
	return strings.TrimSpace(x.Pad("v"))
}
print(f(), strings.Count("aaa", "a"), x.Len3("abc"))
parts := strings.Split("a,b", ",")
print(strings.Join(parts, "-"))
`,
		"x.tsh": `import "strings"
func Pad(s string) string {
	return " " + strings.Repeat(s, 2) + " "
}
func inner(s string) int {
	return len(strings.TrimLeft(s, "a"))
}
func Len3(s string) int {
	return inner(s) + inner(s) + inner(s)
}
print(Pad("top"))
`}}

	S3 = Tree{Name: "S3-chain-with-toplevel-calls", Main: "main.tsh", Files: map[string]string{
		"main.tsh": `import (
	p "p.tsh"
	q "q.tsh"
)
print(p.P1(), q.Q1())
`,
		"p.tsh": `import q "q.tsh"
func p2() int {
	return q.Q1()
}
func P1() int {
	return p2() + q.Q2()
}
func p3() int {
	return P1()
}
print(p3())
`,
		"q.tsh": `func q3() int {
	return 2
}
func Q2() int {
	return q3()
}
func Q1() int {
	return Q2() + q3()
}
func q4() int {
	return Q1()
}
print(q4())
`}}
)

var ScheduleTrees = []Tree{S1, S2, S3}

// RelocTree is copied to several places; the output must not change.
var RelocTree = Tree{Name: "R-relocation", Main: "main.tsh", Files: map[string]string{
	"main.tsh": `import (
	"strings"
	u "sub/util.tsh"
	v "sub/deep/v.tsh"
)
var Greeting string = "hi"
func g() string {
	return strings.Repeat(Greeting, 2) + u.Mark() + v.V()
}
print(g(), u.Twice(4))
`,
	"sub/util.tsh": `import v "deep/v.tsh"
var Count int = 10
func Mark() string {
	return "!" + v.V()
}
func Twice(n int) int {
	return n + n
}
`,
	"sub/deep/v.tsh": `func V() string {
	return "v"
}
`}}

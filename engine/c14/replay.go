package c14

import (
	"fmt"
	"os"
	"path/filepath"
	"strings"

	"verif/c13/ovl"
	"verif/findings"
)

// replayMain contains no code of the explorer: it runs a history of Transpile
// calls on one transpiler value (fresh converter per call) and prints one hash
// per call.
const replayMain = `// usage: replay <main file> <bash|batch> [<main file> <bash|batch> ...]
package main

import (
	"crypto/sha256"
	"fmt"
	"os"

	"github.com/monstermichl/typeshell/converters/bash"
	"github.com/monstermichl/typeshell/converters/batch"
	"github.com/monstermichl/typeshell/transpiler"
)

func main() {
	t := transpiler.New()
	tp := &t
	for i := 1; i+1 < len(os.Args); i += 2 {
		var conv transpiler.Converter = bash.New()
		if os.Args[i+1] == "batch" {
			conv = batch.New()
		}
		script, err := tp.Transpile(os.Args[i], conv)
		class := "script"
		if err != nil {
			class = "error"
		}
		fmt.Printf("call %d %s %s sha=%x\n", (i+1)/2, os.Args[i+1], class, sha256.Sum256([]byte(class+"|"+script)))
		if os.Getenv("REPLAY_DUMP") != "" {
			os.WriteFile(fmt.Sprintf("%s.%d", os.Getenv("REPLAY_DUMP"), (i+1)/2), []byte(script), 0o644)
		}
	}
}
`

func replayPrologue() string {
	br, _ := ovl.BuildRoot()
	return `T=$(mktemp -d); trap 'rm -rf "$T"' EXIT
export GOFLAGS=-mod=mod GOPROXY=off GOSUMDB=off GOTOOLCHAIN=local CGO_ENABLED=0
mkdir -p "$T/m" "$T/bin"
cp replay_main.go.txt "$T/m/main.go"
printf 'module replay\ngo 1.22\nrequire ` + ovl.Module + ` v0.0.0\nreplace ` + ovl.Module + ` => ` + br + `\n' > "$T/m/go.mod"
cp ` + br + `/go.sum "$T/m/go.sum" 2>/dev/null
(cd "$T/m" && go build -o "$T/bin/replay" .) || { echo "REPLAY: cannot build against ` + br + `"; exit 2; }
cp -r ` + br + `/std "$T/bin/std"
cp -r src "$T/src"
sha() { tail -1 | sed 's/.*sha=//'; }
`
}

func treeFiles(prefix string, t Tree, into map[string]string) {
	for n, s := range t.Files {
		into[filepath.Join(prefix, n)] = s
	}
}

func (c *checker) treeOf(path string) (Tree, bool) {
	for _, ts := range [][]Tree{AlphabetTrees, ScheduleTrees, {RelocTree}} {
		for _, t := range ts {
			if strings.Contains(path, string(os.PathSeparator)+t.Name+string(os.PathSeparator)) {
				return t, true
			}
		}
	}
	return Tree{}, false
}

func (c *checker) replayHistory(calls []int, got, want Obs) findings.Replay {
	files := map[string]string{"replay_main.go.txt": replayMain, "actual_last_call.txt": got.Script, "expected_last_call.txt": want.Script}
	var args []string
	for _, ci := range calls {
		t := AlphabetTrees[ci/2]
		treeFiles(filepath.Join("src", t.Name), t, files)
		args = append(args, fmt.Sprintf("\"$T/src/%s/%s\" %s", t.Name, t.Main, targetName(ci%2)))
	}
	last := args[len(args)-1]
	script := replayPrologue() + `echo "history on one transpiler value:"; "$T/bin/replay" ` + strings.Join(args, " ") + ` | tee "$T/h.txt"
echo "last call alone in a fresh process:"; "$T/bin/replay" ` + last + ` | tee "$T/b.txt"
if [ "$(sha < "$T/h.txt")" = "$(sha < "$T/b.txt")" ]; then echo "REPLAY: no longer reproduces"; exit 0; else echo "REPLAY: reproduced (the last call of the history returns other bytes than the same call alone)"; exit 1; fi`
	return findings.Replay{Files: files, Script: script}
}

func (c *checker) replayStatistical(spec CallSpec, name string, scripts []string) findings.Replay {
	files := map[string]string{"replay_main.go.txt": replayMain}
	t, ok := c.treeOf(spec.Path)
	if ok {
		treeFiles(filepath.Join("src", t.Name), t, files)
	}
	for i, s := range scripts {
		files[fmt.Sprintf("observed_process_%d.txt", i+1)] = s
	}
	script := replayPrologue() + `# Go chooses the map iteration order per process: 40 fresh processes are compared.
# (The explorer itself decides this deterministically through its generated seam: VERIF_C14_ONLY=schedules ./run.sh C14 quick)
for i in $(seq 40); do "$T/bin/replay" "$T/src/` + t.Name + `/` + t.Main + `" ` + targetName(spec.Target) + ` | sha; done | sort | uniq -c | tee "$T/u.txt"
if [ "$(wc -l < "$T/u.txt")" -le 1 ]; then echo "REPLAY: not reproduced in 40 processes (` + name + `)"; exit 0; else echo "REPLAY: reproduced - the output differs between processes"; exit 1; fi`
	return findings.Replay{Files: files, Script: script}
}

func (c *checker) replayRelocation(class, dir, cwd, path, base string, target int, ref, got Obs) findings.Replay {
	files := map[string]string{"replay_main.go.txt": replayMain, "at_base.txt": ref.Script, "at_other_place.txt": got.Script}
	treeFiles(filepath.Join("src", "tree"), RelocTree, files)
	root := filepath.Dir(base)
	relDir, _ := filepath.Rel(root, dir)
	run := fmt.Sprintf(`"$T/bin/replay" "$T/reloc/%s/main.tsh" %s`, relDir, targetName(target))
	if cwd != "" {
		relCwd, _ := filepath.Rel(root, cwd)
		run = fmt.Sprintf(`(cd "$T/reloc/%s" && "$T/bin/replay" "%s" %s)`, relCwd, path, targetName(target))
	}
	script := replayPrologue() + fmt.Sprintf(`mkdir -p "$T/reloc/base" "$T/reloc/%s"
cp -r "$T/src/tree/." "$T/reloc/base/"; cp -r "$T/src/tree/." "$T/reloc/%s/"
a=$("$T/bin/replay" "$T/reloc/base/main.tsh" %s | sha)
b=$(%s | sha)
echo "base: $a"; echo "%s: $b"
if [ "$a" = "$b" ]; then echo "REPLAY: no longer reproduces"; exit 0; else echo "REPLAY: reproduced (relocated tree gives other bytes)"; exit 1; fi`,
		relDir, relDir, targetName(target), run, class)
	return findings.Replay{Files: files, Script: script}
}

package c14

import (
	"fmt"
	"reflect"
	"sort"
	"strings"
)

// dumpState prints everything reachable from v in a canonical, address-free
// form: pointers are followed (cycles are numbered), maps are printed in key
// order, unexported fields are included (only kind-based reflect getters are
// used, so no field needs to be exported or addressable).
func dumpState(v reflect.Value) string {
	var sb strings.Builder
	d := &dumper{sb: &sb, seen: map[uintptr]int{}}
	d.dump(v, 0)
	return sb.String()
}

type dumper struct {
	sb   *strings.Builder
	seen map[uintptr]int
}

func (d *dumper) dump(v reflect.Value, depth int) {
	if depth > 200 {
		d.sb.WriteString("<deep>")
		return
	}
	if !v.IsValid() {
		d.sb.WriteString("<invalid>")
		return
	}
	switch v.Kind() {
	case reflect.Bool:
		fmt.Fprintf(d.sb, "%v", v.Bool())
	case reflect.Int, reflect.Int8, reflect.Int16, reflect.Int32, reflect.Int64:
		fmt.Fprintf(d.sb, "%d", v.Int())
	case reflect.Uint, reflect.Uint8, reflect.Uint16, reflect.Uint32, reflect.Uint64, reflect.Uintptr:
		fmt.Fprintf(d.sb, "%d", v.Uint())
	case reflect.Float32, reflect.Float64:
		fmt.Fprintf(d.sb, "%g", v.Float())
	case reflect.Complex64, reflect.Complex128:
		fmt.Fprintf(d.sb, "%g", v.Complex())
	case reflect.String:
		fmt.Fprintf(d.sb, "%q", v.String())
	case reflect.Slice:
		if v.IsNil() {
			d.sb.WriteString("nil[]")
			return
		}
		fallthrough
	case reflect.Array:
		fmt.Fprintf(d.sb, "[%d:", v.Len())
		for i := 0; i < v.Len(); i++ {
			if i > 0 {
				d.sb.WriteByte(',')
			}
			d.dump(v.Index(i), depth+1)
		}
		d.sb.WriteByte(']')
	case reflect.Map:
		if v.IsNil() {
			d.sb.WriteString("nilmap")
			return
		}
		// keys are printed on their own and sorted; values are then visited in key
		// order, so that pointer numbering does not depend on Go's iteration order
		type kv struct {
			k string
			v reflect.Value
		}
		var items []kv
		it := v.MapRange()
		for it.Next() {
			var ks strings.Builder
			(&dumper{sb: &ks, seen: map[uintptr]int{}}).dump(it.Key(), depth+1)
			items = append(items, kv{ks.String(), it.Value()})
		}
		sort.Slice(items, func(i, j int) bool { return items[i].k < items[j].k })
		fmt.Fprintf(d.sb, "map[%d:", len(items))
		for i, it := range items {
			if i > 0 {
				d.sb.WriteByte(',')
			}
			d.sb.WriteString(it.k + "=>")
			d.dump(it.v, depth+1)
		}
		d.sb.WriteByte(']')
	case reflect.Ptr:
		if v.IsNil() {
			d.sb.WriteString("nilptr")
			return
		}
		p := v.Pointer()
		if id, ok := d.seen[p]; ok {
			fmt.Fprintf(d.sb, "&#%d", id)
			return
		}
		d.seen[p] = len(d.seen) + 1
		fmt.Fprintf(d.sb, "&#%d=", d.seen[p])
		d.dump(v.Elem(), depth+1)
	case reflect.Interface:
		if v.IsNil() {
			d.sb.WriteString("nilif")
			return
		}
		fmt.Fprintf(d.sb, "(%s)", v.Elem().Type().String())
		d.dump(v.Elem(), depth+1)
	case reflect.Struct:
		t := v.Type()
		d.sb.WriteString(t.String() + "{")
		for i := 0; i < v.NumField(); i++ {
			if i > 0 {
				d.sb.WriteByte(',')
			}
			d.sb.WriteString(t.Field(i).Name + ":")
			d.dump(v.Field(i), depth+1)
		}
		d.sb.WriteByte('}')
	case reflect.Func:
		if v.IsNil() {
			d.sb.WriteString("nilfunc")
		} else {
			d.sb.WriteString("func")
		}
	case reflect.Chan:
		fmt.Fprintf(d.sb, "chan(len=%d)", v.Len())
	case reflect.UnsafePointer:
		if v.Pointer() == 0 {
			d.sb.WriteString("nilunsafe")
		} else {
			d.sb.WriteString("unsafe")
		}
	default:
		d.sb.WriteString("<" + v.Kind().String() + ">")
	}
}

package c14

import (
	"crypto/sha256"
	"encoding/json"
	"fmt"
	"os"
	"reflect"
	"runtime/debug"
	"sort"
	"strings"

	"github.com/monstermichl/typeshell/converters/bash"
	"github.com/monstermichl/typeshell/converters/batch"
	"github.com/monstermichl/typeshell/transpiler"

	"verif/c13/wpool"
)

// CallSpec is one letter of the history alphabet.
type CallSpec struct {
	Path   string `json:"p"` // main file (absolute unless Cwd is used)
	Target int    `json:"t"` // 0 bash, 1 batch
}

// Req is one job for the worker.
type Req struct {
	Op       string     `json:"op"`            // hist | single
	Family   string     `json:"fam,omitempty"` // fresh (a new converter per call) | reuse (one converter per target, as tsh.go does)
	Alphabet []CallSpec `json:"a,omitempty"`
	Calls    []int      `json:"c,omitempty"`
	WantText bool       `json:"w,omitempty"`
	Single   CallSpec   `json:"s,omitempty"`
	Cwd      string     `json:"cwd,omitempty"`
	Seam     string     `json:"seam,omitempty"`
	SeamLog  string     `json:"log,omitempty"`
}

// Obs is what one Transpile call returned and left behind.
type Obs struct {
	Class   string            `json:"c"` // script | error | both | neither | panic
	Out     string            `json:"o"` // hash of (class, script bytes)
	ErrText string            `json:"e,omitempty"`
	Script  string            `json:"s,omitempty"`
	TState  string            `json:"ts,omitempty"` // hash of everything reachable from the transpiler value
	GState  string            `json:"gs,omitempty"` // hash of all package-level variables
	GVars   map[string]string `json:"gv,omitempty"` // per variable hash
	TText   string            `json:"tt,omitempty"`
}

// Resp answers a Req.
type Resp struct {
	Obs      []Obs             `json:"obs"`
	TInit    string            `json:"ti,omitempty"`
	GInit    string            `json:"gi,omitempty"`
	GInitV   map[string]string `json:"giv,omitempty"`
	Globals  bool              `json:"g"` // package-level variables are visible (accessor overlay compiled in)
	SeamLog  []string          `json:"sl,omitempty"`
	Err      string            `json:"err,omitempty"`
	Pid      int               `json:"pid"`
	JobCount int               `json:"jobs"`
}

func short(b []byte) string {
	h := sha256.Sum256(b)
	return fmt.Sprintf("%x", h[:10])
}

func globalsState() (string, map[string]string, bool) {
	pv, ok := packageVars()
	if !ok {
		return "", nil, false
	}
	per := map[string]string{}
	var names []string
	for pkg, vars := range pv {
		for name, ptr := range vars {
			full := pkg + "." + name
			per[full] = short([]byte(dumpState(reflect.ValueOf(ptr).Elem())))
			names = append(names, full)
		}
	}
	sort.Strings(names)
	var sb strings.Builder
	for _, n := range names {
		sb.WriteString(n + "=" + per[n] + ";")
	}
	return short([]byte(sb.String())), per, true
}

func newConv(target int) transpiler.Converter {
	if target == 0 {
		return bash.New()
	}
	return batch.New()
}

func transpileObserved(call func() (string, error)) (o Obs) {
	defer func() {
		if r := recover(); r != nil {
			o = Obs{Class: "panic", ErrText: fmt.Sprint(r)}
			o.Out = short([]byte("panic|" + o.ErrText))
		}
	}()
	script, err := call()
	switch {
	case err == nil && script != "":
		o.Class = "script"
	case err == nil:
		o.Class = "neither"
	case script != "":
		o.Class = "both"
	default:
		o.Class = "error"
	}
	if err != nil {
		o.ErrText = err.Error()
	}
	o.Out = short([]byte(o.Class + "|" + script))
	o.Script = script
	return o
}

var jobCount int

func handle(line []byte) []byte {
	var req Req
	resp := Resp{Pid: os.Getpid()}
	jobCount++
	resp.JobCount = jobCount
	if err := json.Unmarshal(line, &req); err != nil {
		resp.Err = "bad request: " + err.Error()
		b, _ := json.Marshal(resp)
		return b
	}
	switch req.Op {
	case "hist":
		t := transpiler.New()
		tp := &t
		resp.TInit = short([]byte(dumpState(reflect.ValueOf(tp).Elem())))
		resp.GInit, resp.GInitV, resp.Globals = globalsState()
		reuse := map[int]transpiler.Converter{}
		for _, ci := range req.Calls {
			if ci < 0 || ci >= len(req.Alphabet) {
				resp.Err = "call index out of range"
				break
			}
			cs := req.Alphabet[ci]
			var conv transpiler.Converter
			if req.Family == "reuse" {
				if reuse[cs.Target] == nil {
					reuse[cs.Target] = newConv(cs.Target)
				}
				conv = reuse[cs.Target]
			} else {
				conv = newConv(cs.Target)
			}
			o := transpileObserved(func() (string, error) { return tp.Transpile(cs.Path, conv) })
			ttext := dumpState(reflect.ValueOf(tp).Elem())
			o.TState = short([]byte(ttext))
			o.GState, o.GVars, _ = globalsState()
			if req.WantText {
				o.TText = ttext
			} else {
				o.Script = ""
			}
			resp.Obs = append(resp.Obs, o)
		}
	case "single":
		if req.Cwd != "" {
			if err := os.Chdir(req.Cwd); err != nil {
				resp.Err = "chdir: " + err.Error()
				break
			}
		}
		os.Setenv("VERIF_SEAM", req.Seam)
		os.Setenv("VERIF_SEAM_LOG", req.SeamLog)
		if req.SeamLog != "" {
			os.Remove(req.SeamLog)
		}
		t := transpiler.New()
		tp := &t
		o := transpileObserved(func() (string, error) { return tp.Transpile(req.Single.Path, newConv(req.Single.Target)) })
		if !req.WantText {
			o.Script = ""
		}
		resp.Obs = append(resp.Obs, o)
		if req.SeamLog != "" {
			if b, err := os.ReadFile(req.SeamLog); err == nil {
				for _, l := range strings.Split(strings.TrimSpace(string(b)), "\n") {
					if l != "" {
						resp.SeamLog = append(resp.SeamLog, l)
					}
				}
			}
			os.Remove(req.SeamLog)
		}
		_, _, resp.Globals = globalsState()
	default:
		resp.Err = "unknown op " + req.Op
	}
	b, _ := json.Marshal(resp)
	return b
}

// Worker is the C14 worker process (subcommand c14worker).
func Worker() int {
	wpool.LimitAddressSpace(4 << 30)
	debug.SetMaxStack(256 << 20)
	return wpool.ServeLines(handle)
}

// Package c15 decides property C15: the bundled std/strings library, compiled
// to Bash and executed, returns what Go's strings package returns.
//
// Space: for each of the 19 functions every argument tuple over small
// alphabets (see spaces()). Implementation under test: straight-line
// TypeShell programs with literal arguments -> real transpiler -> real bash.
// Oracle: the real Go strings function called here.
package c15

import (
	"fmt"
	"os"
	"sort"
	"strings"
	"sync"
	"time"

	"verif/drive"
	"verif/findings"
)

// ---------------------------------------------------------------------------
// tuples

// Tuple is one call: function name and its literal arguments.
type Tuple struct {
	Fn    string
	S     []string // string arguments in order
	N     int      // integer argument (Repeat count, Replace n)
	HasN  bool
	Elems []string // Join's slice
	IsJ   bool
}

func tsQuote(s string) string {
	var b strings.Builder
	b.WriteByte('"')
	for i := 0; i < len(s); i++ {
		switch c := s[i]; c {
		case '"':
			b.WriteString(`\"`)
		case '\\':
			b.WriteString(`\\`)
		case '\n':
			b.WriteString(`\n`)
		case '\t':
			b.WriteString(`\t`)
		case '\r':
			b.WriteString(`\r`)
		case '\v':
			b.WriteString(`\v`)
		case '\f':
			b.WriteString(`\f`)
		default:
			b.WriteByte(c)
		}
	}
	b.WriteByte('"')
	return b.String()
}

// Args renders the argument list as TypeShell (= Go) source.
func (t Tuple) Args() string {
	var parts []string
	if t.IsJ {
		var es []string
		for _, e := range t.Elems {
			es = append(es, tsQuote(e))
		}
		parts = append(parts, "[]string{"+strings.Join(es, ", ")+"}")
	}
	for _, s := range t.S {
		parts = append(parts, tsQuote(s))
	}
	if t.HasN {
		parts = append(parts, fmt.Sprint(t.N))
	}
	return strings.Join(parts, ", ")
}

func (t Tuple) String() string { return t.Fn + "(" + t.Args() + ")" }

func (t Tuple) hasBlank() bool {
	for _, s := range t.S {
		if strings.Contains(s, " ") {
			return true
		}
	}
	for _, s := range t.Elems {
		if strings.Contains(s, " ") {
			return true
		}
	}
	return false
}

// deblank returns the control tuple: every blank replaced by the letter c,
// which occurs in no enumerated argument. All functions except TrimSpace are
// equivariant under an injective renaming of characters, so in Go the result
// of the control tuple is the renamed result of the original.
func (t Tuple) deblank() Tuple {
	u := t
	u.S = nil
	for _, s := range t.S {
		u.S = append(u.S, strings.ReplaceAll(s, " ", "c"))
	}
	u.Elems = nil
	for _, s := range t.Elems {
		u.Elems = append(u.Elems, strings.ReplaceAll(s, " ", "c"))
	}
	return u
}

// ---------------------------------------------------------------------------
// oracle: Go's strings

// expected returns the exact stdout text the probe statements of emit() must
// produce for t, or skip=true when Go itself panics.
func expected(t Tuple) (out string, skip bool) {
	defer func() {
		if r := recover(); r != nil {
			out, skip = "", true
		}
	}()
	fr := func(s string) string { return "<" + s + ">" }
	b := func(v bool) string {
		if v {
			return "1"
		}
		return "0"
	}
	a := t.S
	switch t.Fn {
	case "Index":
		return fmt.Sprintf("%d\n", strings.Index(a[0], a[1])), false
	case "Contains":
		return b(strings.Contains(a[0], a[1])) + "\n", false
	case "Join":
		return fr(strings.Join(t.Elems, a[0])) + "\n", false
	case "HasPrefix":
		return b(strings.HasPrefix(a[0], a[1])) + "\n", false
	case "HasSuffix":
		return b(strings.HasSuffix(a[0], a[1])) + "\n", false
	case "Count":
		return fmt.Sprintf("%d\n", strings.Count(a[0], a[1])), false
	case "Split":
		el := strings.Split(a[0], a[1])
		o := fmt.Sprintf("%d\n", len(el))
		for _, e := range el {
			o += fr(e) + "\n"
		}
		return o, false
	case "Repeat":
		if t.N < 0 {
			return "", true // Go panics: negative Repeat count
		}
		return fr(strings.Repeat(a[0], t.N)) + "\n", false
	case "Replace":
		return fr(strings.Replace(a[0], a[1], a[2], t.N)) + "\n", false
	case "ReplaceAll":
		return fr(strings.ReplaceAll(a[0], a[1], a[2])) + "\n", false
	case "Cut":
		x, y, f := strings.Cut(a[0], a[1])
		return fr(x) + " " + fr(y) + " " + b(f) + "\n", false
	case "CutPrefix":
		x, f := strings.CutPrefix(a[0], a[1])
		return fr(x) + " " + b(f) + "\n", false
	case "CutSuffix":
		x, f := strings.CutSuffix(a[0], a[1])
		return fr(x) + " " + b(f) + "\n", false
	case "TrimPrefix":
		return fr(strings.TrimPrefix(a[0], a[1])) + "\n", false
	case "TrimSuffix":
		return fr(strings.TrimSuffix(a[0], a[1])) + "\n", false
	case "TrimLeft":
		return fr(strings.TrimLeft(a[0], a[1])) + "\n", false
	case "TrimRight":
		return fr(strings.TrimRight(a[0], a[1])) + "\n", false
	case "Trim":
		return fr(strings.Trim(a[0], a[1])) + "\n", false
	case "TrimSpace":
		return fr(strings.TrimSpace(a[0])) + "\n", false
	}
	panic("c15: unknown function " + t.Fn)
}

// emit renders the probe statements of tuple number k. The framing uses only
// print, string concatenation, len and slice indexing - never a function of
// the library under test.
func emit(t Tuple, k int) string {
	call := "strings." + t.Fn + "(" + t.Args() + ")"
	v := fmt.Sprintf("v%d", k)
	switch t.Fn {
	case "Index", "Count", "Contains", "HasPrefix", "HasSuffix":
		return fmt.Sprintf("%s := %s\nprint(%s)\n", v, call, v)
	case "Split":
		n := len(strings.Split(t.S[0], t.S[1]))
		o := fmt.Sprintf("%s := %s\nprint(len(%s))\n", v, call, v)
		for i := 0; i < n; i++ {
			o += fmt.Sprintf("print(\"<\" + %s[%d] + \">\")\n", v, i)
		}
		return o
	case "Cut":
		return fmt.Sprintf("%sa, %sb, %sf := %s\nprint(\"<\" + %sa + \">\", \"<\" + %sb + \">\", %sf)\n", v, v, v, call, v, v, v)
	case "CutPrefix", "CutSuffix":
		return fmt.Sprintf("%sa, %sf := %s\nprint(\"<\" + %sa + \">\", %sf)\n", v, v, call, v, v)
	default:
		return fmt.Sprintf("%s := %s\nprint(\"<\" + %s + \">\")\n", v, call, v)
	}
}

func marker(k int) string { return fmt.Sprintf("#%d", k) }

func program(ts []Tuple) (src, want string) {
	var sb, wb strings.Builder
	sb.WriteString("import \"strings\"\n\n")
	for k, t := range ts {
		sb.WriteString("print(\"" + marker(k) + "\")\n")
		sb.WriteString(emit(t, k))
		e, _ := expected(t)
		wb.WriteString(marker(k) + "\n" + e)
	}
	return sb.String(), wb.String()
}

// ---------------------------------------------------------------------------
// running

type obs struct {
	Symptom string // "" agrees
	Detail  string
	Src     string
	Want    string
	Script  string
	Got     drive.RunResult
}

func runBashStable(script string, o drive.RunOpts) drive.RunResult {
	got := drive.RunBash(script, o)
	if got.Runaway != "" && got.Runaway != "output-cap" {
		got2 := drive.RunBash(script, o)
		if got2.Runaway == "" {
			return got2
		}
	}
	return got
}

func judge(ts []Tuple) obs {
	src, want := program(ts)
	o := obs{Src: src, Want: want}
	tr := drive.Transpile(map[string]string{"main.tsh": src}, "main.tsh", drive.Bash)
	for try := 0; try < 100 && tr.HasErr && strings.Contains(tr.Err, "strings.tsh: no such file"); try++ {
		// bin/std is being re-created by a concurrent build.sh: an environment
		// race, not an observation of the code under test.
		time.Sleep(200 * time.Millisecond)
		tr = drive.Transpile(map[string]string{"main.tsh": src}, "main.tsh", drive.Bash)
	}
	if tr.HasErr && strings.Contains(tr.Err, "strings.tsh: no such file") {
		harnessError("the std library next to the executable is missing: %s", tr.Err)
	}
	if tr.Panic != "" {
		o.Symptom, o.Detail = "transpiler-panic", firstLine(tr.Panic)
		return o
	}
	if !tr.OK() {
		o.Symptom, o.Detail = "rejected", tr.Err
		return o
	}
	o.Script = tr.Script
	got := runBashStable(tr.Script, drive.RunOpts{OutputCap: 64<<10 + 16*len(want)})
	o.Got = got
	switch {
	case got.Runaway != "":
		o.Symptom, o.Detail = "runaway", got.Runaway
	case got.Stdout != want:
		o.Symptom, o.Detail = "value", diffHint(want, got.Stdout)
	case got.Stderr != "":
		o.Symptom, o.Detail = "stderr", firstLine(got.Stderr)
	case got.Exit != 0:
		o.Symptom, o.Detail = "exit", fmt.Sprintf("exit status %d", got.Exit)
	}
	return o
}

// parseSegments cuts a batch's stdout at the marker lines #0..#n-1. It returns
// nil unless every marker occurs exactly once, in order, at a line start.
func parseSegments(out string, n int) []string {
	segs := make([]string, n)
	rest := out
	for k := 0; k < n; k++ {
		m := marker(k) + "\n"
		if !strings.HasPrefix(rest, m) {
			return nil
		}
		rest = rest[len(m):]
		end := len(rest)
		if k+1 < n {
			nm := marker(k+1) + "\n"
			if strings.HasPrefix(rest, nm) {
				end = 0
			} else if i := strings.Index(rest, "\n"+nm); i >= 0 {
				end = i + 1
			} else {
				return nil
			}
		}
		segs[k] = rest[:end]
		rest = rest[end:]
	}
	return segs
}

func firstLine(s string) string {
	if i := strings.IndexByte(s, '\n'); i >= 0 {
		s = s[:i]
	}
	if len(s) > 300 {
		s = s[:300]
	}
	return s
}

func diffHint(want, got string) string {
	wl, gl := strings.Split(want, "\n"), strings.Split(got, "\n")
	for i := 0; i < len(wl) || i < len(gl); i++ {
		w, g := "<eof>", "<eof>"
		if i < len(wl) {
			w = wl[i]
		}
		if i < len(gl) {
			g = gl[i]
		}
		if w != g {
			return fmt.Sprintf("want %q got %q", w, g)
		}
	}
	return "identical?"
}

func harnessError(format string, a ...interface{}) {
	fmt.Fprintf(os.Stderr, "HARNESS ERROR: "+format+"\n", a...)
	drive.Cleanup()
	os.Exit(2)
}

func confirmObs(ts []Tuple, first obs) {
	for k := 0; k < 2; k++ {
		if again := judge(ts); again.Symptom != first.Symptom {
			harnessError("replay of the pre-flight program did not reproduce (first %s / again %s)", first.Symptom, again.Symptom)
		}
	}
}

// confirm re-runs a failing single tuple twice; observations must be identical.
func confirm(t Tuple, first obs) {
	for k := 0; k < 2; k++ {
		again := judge([]Tuple{t})
		same := again.Symptom == first.Symptom
		if same && first.Symptom != "runaway" {
			same = again.Got.Stdout == first.Got.Stdout && again.Got.Exit == first.Got.Exit
		}
		if !same {
			harnessError("replay of failing tuple %s did not reproduce (first %s %s / again %s %s)", t, first.Symptom, first.Detail, again.Symptom, again.Detail)
		}
	}
}

type failure struct {
	T       Tuple
	Symptom string
	O       obs
	Control string // "", "control-passes", "control-fails"
}

func replay(f failure) func() findings.Replay {
	return func() findings.Replay {
		return findings.Replay{
			Files: map[string]string{
				"src/main.tsh": f.O.Src,
				"expected.txt": f.O.Want + "exit=0\n",
				"actual.txt":   f.O.Got.Stdout + fmt.Sprintf("exit=%d\n", f.O.Got.Exit),
				"stderr.txt":   f.O.Got.Stderr,
				"script.sh":    f.O.Script,
				"detail.txt":   f.T.String() + ": " + f.Symptom + ": " + f.O.Detail + "\nexpected.txt was computed by calling Go's strings." + f.T.Fn + " with the same arguments\n",
			},
			Script: `set -e
T=$(mktemp -d); trap 'rm -rf "$T"' EXIT
(cd /repo && GOFLAGS=-mod=mod GOPROXY=off GOSUMDB=off GOTOOLCHAIN=local go build -o "$T/tsh" . ) && cp -r /repo/std "$T/std"
mkdir -p "$T/out" "$T/box"
cp -r src "$T/srcdir"
"$T/tsh" -i "$T/srcdir/main.tsh" -o "$T/out" -t bash || { echo "REPLAY: transpilation failed (see above)"; exit 1; }
( cd "$T/box" && env -i /bin/bash "$T/out/main.sh" < /dev/null > "$T/actual.txt" 2> "$T/stderr.txt"; echo "exit=$?" >> "$T/actual.txt" ) || true
if diff expected.txt "$T/actual.txt" && [ ! -s "$T/stderr.txt" ]; then echo "REPLAY: no longer reproduces"; exit 0; else echo "REPLAY: reproduced (diff above: < Go's strings, > std/strings.tsh; stderr below)"; cat "$T/stderr.txt"; exit 1; fi`,
		}
	}
}

// ---------------------------------------------------------------------------
// the sweep

func past(t time.Time) bool { return time.Now().After(t) }

// Run is the check's entry point (process exit status).
func Run() int {
	r := findings.New("C15")
	defer drive.Cleanup()
	deadline := r.Deadline(6*time.Minute, 45*time.Minute)
	r.Set("exhaustive", true)

	sp := spaces(r.Thorough())
	type job struct{ ts []Tuple }
	var jobs []job
	perFn := map[string]*fnStat{}
	skippedPanic := 0
	total := 0
	distinct := findings.NewDistinct()
	for _, fs := range sp {
		st := &fnStat{outcomes: map[string]int{}, cells: map[string]*cell{}}
		perFn[fs.Fn] = st
		var batch []Tuple
		for _, t := range fs.Tuples {
			e, skip := expected(t)
			if skip {
				skippedPanic++
				st.skipped++
				continue
			}
			st.tuples++
			st.outcomes[e]++
			sh := shapeOf(t)
			c := st.cells[sh]
			if c == nil {
				c = &cell{}
				st.cells[sh] = c
			}
			c.total++
			batch = append(batch, t)
			if len(batch) == fs.Batch {
				jobs = append(jobs, job{batch})
				batch = nil
			}
		}
		if len(batch) > 0 {
			jobs = append(jobs, job{batch})
		}
		total += st.tuples
	}

	// Pre-flight: the library as a whole must transpile, otherwise every tuple
	// fails for the same reason and bisecting 10^3..10^4 of them tells nothing more.
	{
		var one []Tuple
		for _, fs := range sp {
			for _, t := range fs.Tuples {
				if _, skip := expected(t); !skip {
					one = append(one, t)
					break
				}
			}
		}
		if o := judge(one); o.Symptom == "rejected" || o.Symptom == "transpiler-panic" {
			confirmObs(one, o)
			r.Fail("fn=* shape=any symptom="+o.Symptom, "a program that imports strings and calls each of the 19 functions once is not transpiled: "+o.Detail, replay(failure{T: one[0], Symptom: o.Symptom, O: o}))
			r.Set("evaluations", len(one))
			r.Set("distinct_nontrivial", len(one))
			r.Set("exhaustive", false)
			r.Set("cap_hit", "the library does not transpile; sweep not started")
			r.Set("rule", "pre-flight only")
			return r.Finish()
		}
	}

	var mu sync.Mutex
	var fails []failure
	evals, scripts, capped, interactions := 0, 0, false, 0
	maxFails, tooMany := 1500, false
	if r.Thorough() {
		maxFails = 15000
	}
	var run func(ts []Tuple) int // returns number of failing singles found below
	run = func(ts []Tuple) int {
		o := judge(ts)
		mu.Lock()
		scripts++
		mu.Unlock()
		if o.Symptom == "" {
			return 0
		}
		if len(ts) > 1 {
			// First try to attribute the failure by the marker-delimited output
			// segments: every tuple whose segment differs is re-run alone, the rest
			// is re-run together (and must then pass). Anything irregular (markers
			// missing, only stderr/exit wrong) falls back to halving.
			if segs := parseSegments(o.Got.Stdout, len(ts)); segs != nil && o.Symptom != "rejected" && o.Symptom != "transpiler-panic" {
				var sus, rest []Tuple
				for k, t := range ts {
					if e, _ := expected(t); segs[k] != e {
						sus = append(sus, t)
					} else {
						rest = append(rest, t)
					}
				}
				if len(sus) > 0 {
					n := 0
					for _, t := range sus {
						if run([]Tuple{t}) == 0 {
							// wrong inside the sequence, right alone
							mu.Lock()
							interactions++
							mu.Unlock()
							r.Fail(fmt.Sprintf("fn=%s args=(%s) shape=in-sequence-only symptom=%s", t.Fn, t.Args(), o.Symptom),
								fmt.Sprintf("%s gives a wrong result inside a straight-line sequence of %d calls but the right one alone", t, len(ts)),
								replay(failure{T: t, Symptom: o.Symptom, O: o}))
						}
						n++
					}
					if len(rest) > 0 {
						n += run(rest)
					}
					return n
				}
			}
			h := len(ts) / 2
			n := run(ts[:h]) + run(ts[h:])
			if n == 0 {
				// the batch fails but neither half does: an interaction between calls,
				// not attributable to one tuple. Reported under the first tuple's function.
				mu.Lock()
				interactions++
				mu.Unlock()
				r.Fail(fmt.Sprintf("fn=%s shape=sequence-of-calls symptom=%s", ts[0].Fn, o.Symptom),
					fmt.Sprintf("a straight-line sequence of %d calls starting with %s fails (%s) although both halves pass on their own", len(ts), ts[0], o.Detail),
					replay(failure{T: ts[0], Symptom: o.Symptom, O: o}))
				return 1
			}
			return n
		}
		t := ts[0]
		confirm(t, o)
		f := failure{T: t, Symptom: o.Symptom, O: o}
		if t.hasBlank() && t.Fn != "TrimSpace" {
			// Is this the library's logic or the back-end's handling of blanks (C08)?
			c := judge([]Tuple{t.deblank()})
			if c.Symptom == "" {
				f.Control = "control-passes"
				f.Symptom = "backend-quoting"
			} else {
				f.Control = "control-fails"
			}
		}
		mu.Lock()
		fails = append(fails, f)
		mu.Unlock()
		return 1
	}
	drive.Par(len(jobs), func(i int) {
		mu.Lock()
		if len(fails) > maxFails {
			tooMany = true
		}
		stop := tooMany
		mu.Unlock()
		if past(deadline) || stop {
			mu.Lock()
			capped = true
			mu.Unlock()
			return
		}
		run(jobs[i].ts)
		mu.Lock()
		evals += len(jobs[i].ts)
		for _, t := range jobs[i].ts {
			perFn[t.Fn].cells[shapeOf(t)].done++
			distinct.Add(t.String())
		}
		mu.Unlock()
		if i%37 == 0 {
			t := jobs[i].ts[0]
			e, _ := expected(t)
			r.Sample(map[string]string{"kind": "tuple", "call": t.String(), "shape": shapeOf(t), "expected_stdout": e})
		}
	})

	// ---- verdicts: one key per fully failing shape cell, else one per tuple
	sort.Slice(fails, func(i, j int) bool { return less(fails[i].T, fails[j].T) })
	type ck struct{ fn, shape, symptom string }
	byCell := map[ck][]failure{}
	for _, f := range fails {
		k := ck{f.T.Fn, shapeOf(f.T), f.Symptom}
		byCell[k] = append(byCell[k], f)
		perFn[f.T.Fn].failed++
	}
	var cks []ck
	for k := range byCell {
		cks = append(cks, k)
	}
	sort.Slice(cks, func(i, j int) bool {
		a, b := cks[i], cks[j]
		if a.fn != b.fn {
			return a.fn < b.fn
		}
		if a.shape != b.shape {
			return a.shape < b.shape
		}
		return a.symptom < b.symptom
	})
	var table []string
	dump := os.Getenv("C15_DUMP") != ""
	for _, k := range cks {
		fs := byCell[k]
		c := perFn[k.fn].cells[k.shape]
		f0 := fs[0]
		table = append(table, fmt.Sprintf("fn=%s shape=%s symptom=%s failing=%d of=%d smallest=%s (%s)", k.fn, k.shape, k.symptom, len(fs), c.total, f0.T, f0.O.Detail))
		if dump {
			for _, f := range fs {
				fmt.Printf("DUMP %s\t%s\t%s\t%s\t%s\t%s\n", k.fn, k.shape, f.Symptom, f.T, f.O.Detail, f.Control)
			}
		}
		// (in a run cut short by the deadline c.done < c.total: the key then speaks
		// about the evaluated part of the class and the evidence says exhaustive:false)
		if len(fs) == c.done {
			note := ""
			if k.symptom == "backend-quoting" {
				note = "; the same call with every blank replaced by the letter c agrees with Go, so this is the Bash back-end losing blanks (property C08), not the library's logic"
			}
			r.Fail(fmt.Sprintf("fn=%s shape=%s symptom=%s", k.fn, k.shape, k.symptom),
				fmt.Sprintf("strings.%s disagrees with Go for every enumerated tuple of shape %s [%s] (%d tuples); smallest: %s: %s%s",
					k.fn, k.shape, docOf(k.fn, k.shape), len(fs), f0.T, f0.O.Detail, note), replay(f0))
			continue
		}
		// only part of the cell fails: exact per-tuple keys
		for _, f := range fs {
			r.Fail(fmt.Sprintf("fn=%s args=(%s) symptom=%s", k.fn, f.T.Args(), f.Symptom),
				fmt.Sprintf("strings.%s: %s (%s; shape %s fails for %d of %d tuples)", f.T, f.Symptom, f.O.Detail, k.shape, len(fs), c.total), replay(f))
		}
	}

	// ---- evidence
	r.Set("evaluations", evals)
	r.Set("tuples_enumerated", total)
	r.Set("distinct_nontrivial", distinct.Len())
	r.Set("scripts_run", scripts)
	r.Set("batches", len(jobs))
	r.Set("skipped_go_panics", skippedPanic)
	r.Set("failing_tuples", len(fails))
	r.Set("failing_cells", table)
	r.Set("sequence_interactions", interactions)
	hist := map[string]interface{}{}
	vacuous := []string{}
	for fn, st := range perFn {
		shapes := map[string]int{}
		for s, c := range st.cells {
			shapes[s] = c.total
		}
		hist[fn] = map[string]interface{}{"tuples": st.tuples, "skipped_go_panics": st.skipped, "distinct_expected_outputs": len(st.outcomes), "failing": st.failed, "shape_cells": shapes}
		if len(st.outcomes) < 2 {
			vacuous = append(vacuous, fn)
		}
	}
	r.Set("per_function", hist)
	if len(vacuous) > 0 {
		sort.Strings(vacuous)
		r.Set("vacuity_warning", vacuous)
	}
	if capped {
		r.Set("exhaustive", false)
		r.Set("cap_hit", "sweep stopped at the internal deadline; shape-level keys then cover the evaluated part of a class only")
		if tooMany {
			r.Set("cap_hit", fmt.Sprintf("sweep stopped after more than %d failing tuples (the failures found are reported tuple by tuple)", maxFails))
		}
	}
	r.Set("rule", "every argument tuple of each of the 19 functions over the stated alphabets (subject strings over {a,b,blank} up to the tier's length, separators/prefixes/cutsets, replacements, counts -2..4, Join slices of up to 4 elements; TrimSpace additionally over {a,blank,tab,newline}); a case = one call with literal arguments; distinct by function+argument text (all enumerated tuples are distinct); every case is non-trivial in that the expected value is computed by Go's strings and compared byte for byte; per-function distinct expected outputs are recorded against vacuity")
	r.Assumef("Go's strings package of the toolchain that built the harness is the specification")
	r.Assumef("results are observed through print, string concatenation with < > frames, len and slice indexing of the Bash back-end; a disagreement that disappears when every blank is replaced by the letter c is attributed to the back-end (symptom backend-quoting, property C08) because all functions except TrimSpace are equivariant under renaming of characters")
	return r.Finish()
}

type cell struct{ total, done int }

type fnStat struct {
	tuples, skipped, failed int
	outcomes                map[string]int
	cells                   map[string]*cell
}

func less(a, b Tuple) bool {
	if a.hasBlank() != b.hasBlank() {
		return !a.hasBlank() // prefer a blank-free witness
	}
	la, lb := len(a.Args()), len(b.Args())
	if la != lb {
		return la < lb
	}
	return a.Args() < b.Args()
}

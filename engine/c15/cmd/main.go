// Development entry point of check C15 (build to /verif/bin/c15-dev).
package main

import (
	"os"

	"verif/c15"
)

func main() { os.Exit(c15.Run()) }

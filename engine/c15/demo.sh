#!/bin/bash
# Detection demonstration for C15. std/*.tsh is resolved next to the executable, so each mutant
# is a scratch directory holding a copy of the dev binary and a MUTATED COPY of /repo/std; /repo
# and /verif/bin/std are not touched. Known lines: KNOWN_PROPOSED.txt of this package.
#   s1  Index starts searching at 1            -> must be reported
#   s2  Split: next piece starts one too late  -> must be reported
#   s3  HasPrefix: len(s) > l instead of >=    -> must be reported
#   s4  Index: i <= len(s)                     -> NOT property-breaking (it repairs Index("","")): silent, 2 known lines no longer reproduce
#   fix the repair proposed in the report      -> the 11 logic lines stop reproducing; the two back-end (C08) lines stay and ONE new
#       back-end key appears (Split ...,piece-blank-lossy symptom=backend-quoting: those tuples were masked by the logic defect)
set -e
export GOFLAGS=-mod=mod GOPROXY=off GOSUMDB=off GOTOOLCHAIN=local GOCACHE=/verif/.cache/go-build CGO_ENABLED=0
here="$(cd "$(dirname "$0")" && pwd)"
S=$(mktemp -d /dev/shm/c15demo.XXXXXX); trap 'rm -rf "$S"' EXIT
(cd /verif/engine && go build -o "$S/c15-dev" ./c15/cmd)
mut() { # name, python replace expression pairs on stdin
  d="$S/$1"; mkdir -p "$d/bin/std"; cp "$S/c15-dev" "$d/bin/"; cp /repo/std/*.tsh "$d/bin/std/"
  grep -h '^known:' "$here/KNOWN_PROPOSED.txt" > "$d/KNOWN_FINDINGS.txt"
  python3 - "$d/bin/std/strings.tsh" <<PY
import sys
p=sys.argv[1]; s=open(p).read()
for old,new in $2:
    assert s.count(old)>=1, old
    s=s.replace(old,new,1)
open(p,'w').write(s)
PY
  ( cd "$d" && st=0; ./bin/c15-dev > out.txt 2> err.txt || st=$?; echo "[$1] exit=$st violations=$(grep -c '^VIOLATION' out.txt) $(tail -1 out.txt)"; grep '^VIOLATION' out.txt | head -2 | cut -c1-240 )
}
mut s1 '[("for i := 0; i < len(s); i++ {\n\t\tj := 0","for i := 1; i < len(s); i++ {\n\t\tj := 0")]'
mut s2 '[("endI += sepLen\n\t\t\t\t\tstartI = endI","endI += sepLen\n\t\t\t\t\tstartI = endI + 1")]'
mut s3 '[("if len(s) >= l {\n\t\treturn s[:l] == prefix","if len(s) > l {\n\t\treturn s[:l] == prefix")]'
mut s4 '[("for i := 0; i < len(s); i++ {\n\t\tj := 0","for i := 0; i <= len(s); i++ {\n\t\tj := 0")]'
mut fix '[("\tind := -1\n\n\tfor i","\tind := -1\n\n\tif sul == 0 {\n\t\treturn 0\n\t}\n\n\tfor i"),("\tl := len(suffix)\n\n\tif len(s) >= l {","\tl := len(suffix)\n\n\tif l == 0 {\n\t\treturn true\n\t}\n\n\tif len(s) >= l {"),("\t\t\t} else if endI == boundary {\n\t\t\t\t// Add last element to slice.\n\t\t\t\telems[elIndex] = s[startI:]\n\t\t\t\tbreak\n\t\t\t} else {\n\t\t\t\tendI++\n\t\t\t}\n\t\t}\n","\t\t\t} else {\n\t\t\t\tendI++\n\t\t\t}\n\t\t}\n\n\t\t// Add last element to slice.\n\t\tif sepLen > 0 {\n\t\t\telems[elIndex] = s[startI:]\n\t\t}\n"),("\tnew := s\n\n\tfor i := 1; i < count; i++ {","\tnew := \"\"\n\n\tfor i := 0; i < count; i++ {"),("\tif lenOld == 0 {\n\t\tres = new","\tif lenOld == 0 && n != 0 {\n\t\tres = new"),("\tlenS := len(s)\n\n\tif lenS > 0 {\n\t\ti := Index(s, sep)\n\n\t\tif i >= 0 {\n\t\t\treturn s[0:i], s[i+len(sep):], true\n\t\t}\n\t}\n\treturn s, \"\", false","\ti := Index(s, sep)\n\n\tif i >= 0 {\n\t\treturn s[0:i], s[i+len(sep):], true\n\t}\n\treturn s, \"\", false")]'

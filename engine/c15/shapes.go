package c15

import (
	"fmt"
	"strings"
)

// Shape classes: for each function an ORDERED list of named predicates on the
// argument tuple; the first predicate that holds names the tuple's class, so
// the classes partition the function's tuple space. A finding key
// `fn=F shape=S symptom=Y` is emitted only when EVERY enumerated tuple of class
// S fails with symptom Y; a class that fails only in part is reported tuple by
// tuple (key `fn=F args=(...) symptom=Y`), so no key ever hides a passing or a
// newly failing tuple.

type shape struct {
	name string
	doc  string
	pred func(t Tuple) bool
}

// blankLossy reports whether s is changed by the Bash back-end's unquoted
// `echo ${slice[i]}` (word splitting: leading/trailing blanks dropped, runs of
// blanks squeezed). It only ever selects the class in which a failure with
// symptom backend-quoting is expected; the symptom itself is decided by the
// control run, never by this predicate.
func blankLossy(s string) bool { return strings.Join(strings.Fields(s), " ") != s }

func anyLossy(ss []string) bool {
	for _, s := range ss {
		if blankLossy(s) {
			return true
		}
	}
	return false
}

// overlapping reports whether occurrences of p in s overlap (p non-empty).
func overlapping(s, p string) bool {
	if p == "" {
		return false
	}
	n := 0
	for i := 0; i+len(p) <= len(s); i++ {
		if s[i:i+len(p)] == p {
			n++
		}
	}
	return n > strings.Count(s, p)
}

func lastPieceShort(t Tuple) bool {
	if s1(t) == "" {
		return false
	}
	ps := strings.Split(s0(t), s1(t))
	return len(ps) >= 2 && len(ps[len(ps)-1]) < len(s1(t))
}

func s0(t Tuple) string { return t.S[0] }
func s1(t Tuple) string { return t.S[1] }

var (
	always = func(Tuple) bool { return true }

	searchShapes = []shape{ // Index, Contains, Cut
		{"s-empty,sep-empty", `s == "" and the second argument == ""`, func(t Tuple) bool { return s0(t) == "" && s1(t) == "" }},
		{"s-empty", `s == "", second argument non-empty`, func(t Tuple) bool { return s0(t) == "" }},
		{"sep-empty", `s non-empty, second argument == ""`, func(t Tuple) bool { return s1(t) == "" }},
		{"overlap", `both non-empty, occurrences of the second argument in s overlap`, func(t Tuple) bool { return overlapping(s0(t), s1(t)) }},
		{"present", `both non-empty, s contains the second argument, no overlapping occurrences`, func(t Tuple) bool { return strings.Contains(s0(t), s1(t)) }},
		{"absent", `both non-empty, s does not contain the second argument`, always},
	}
	prefixShapes = []shape{ // HasPrefix, CutPrefix, TrimPrefix
		{"s-empty,prefix-empty", `s == "" and prefix == ""`, func(t Tuple) bool { return s0(t) == "" && s1(t) == "" }},
		{"prefix-empty,s-nonempty", `prefix == "", s non-empty`, func(t Tuple) bool { return s1(t) == "" }},
		{"s-empty", `s == "", prefix non-empty`, func(t Tuple) bool { return s0(t) == "" }},
		{"prefix-longer", `prefix longer than s, both non-empty`, func(t Tuple) bool { return len(s1(t)) > len(s0(t)) }},
		{"whole", `prefix == s, non-empty`, func(t Tuple) bool { return s1(t) == s0(t) }},
		{"is-prefix", `prefix is a proper non-empty prefix of s`, func(t Tuple) bool { return strings.HasPrefix(s0(t), s1(t)) }},
		{"not-prefix", `prefix non-empty, not longer than s, not a prefix of s`, always},
	}
	suffixShapes = []shape{ // HasSuffix, CutSuffix, TrimSuffix
		{"s-empty,suffix-empty", `s == "" and suffix == ""`, func(t Tuple) bool { return s0(t) == "" && s1(t) == "" }},
		{"suffix-empty,s-nonempty", `suffix == "", s non-empty`, func(t Tuple) bool { return s1(t) == "" }},
		{"s-empty", `s == "", suffix non-empty`, func(t Tuple) bool { return s0(t) == "" }},
		{"suffix-longer", `suffix longer than s, both non-empty`, func(t Tuple) bool { return len(s1(t)) > len(s0(t)) }},
		{"whole", `suffix == s, non-empty`, func(t Tuple) bool { return s1(t) == s0(t) }},
		{"is-suffix", `suffix is a proper non-empty suffix of s`, func(t Tuple) bool { return strings.HasSuffix(s0(t), s1(t)) }},
		{"not-suffix", `suffix non-empty, not longer than s, not a suffix of s`, always},
	}
	splitShapes = []shape{
		{"s-empty,sep-empty", `s == "" and sep == ""`, func(t Tuple) bool { return s0(t) == "" && s1(t) == "" }},
		{"s-shorter-than-sep,piece-blank-lossy", `s non-empty and shorter than sep, and s (Go's only piece) has a leading/trailing blank`, func(t Tuple) bool {
			return s0(t) != "" && len(s0(t)) < len(s1(t)) && blankLossy(s0(t))
		}},
		{"s-shorter-than-sep", `s non-empty and shorter than sep, s without leading/trailing blank`, func(t Tuple) bool { return s0(t) != "" && len(s0(t)) < len(s1(t)) }},
		{"last-piece-shorter-than-sep,piece-blank-lossy", `as last-piece-shorter-than-sep, and some piece of Go's result has a leading/trailing blank or consists of blanks`, func(t Tuple) bool {
			return lastPieceShort(t) && anyLossy(strings.Split(s0(t), s1(t)))
		}},
		{"last-piece-shorter-than-sep", `sep non-empty, Go's result has at least 2 pieces and its last piece is shorter than sep (includes: s ends with sep); no blank-lossy piece`, lastPieceShort},
		{"piece-blank-lossy", `none of the above, and some piece of Go's result has a leading/trailing blank or consists of blanks`, func(t Tuple) bool { return anyLossy(strings.Split(s0(t), s1(t))) }},
		{"sep-empty", `sep == "", s non-empty, no blank-lossy piece`, func(t Tuple) bool { return s1(t) == "" }},
		{"s-empty", `s == "", sep non-empty`, func(t Tuple) bool { return s0(t) == "" }},
		{"splits", `sep occurs in s, last piece at least as long as sep, no blank-lossy piece`, func(t Tuple) bool { return strings.Contains(s0(t), s1(t)) }},
		{"sep-absent", `sep non-empty and not longer than s, does not occur in s, no blank-lossy piece`, always},
	}
	trimShapes = []shape{ // TrimLeft, TrimRight, Trim
		{"s-empty,cutset-empty", `s == "" and cutset == ""`, func(t Tuple) bool { return s0(t) == "" && s1(t) == "" }},
		{"cutset-empty", `cutset == "", s non-empty`, func(t Tuple) bool { return s1(t) == "" }},
		{"s-empty", `s == "", cutset non-empty`, func(t Tuple) bool { return s0(t) == "" }},
		{"trims-all", `every character of s is in the cutset`, func(t Tuple) bool { return strings.Trim(s0(t), s1(t)) == "" }},
		{"trims-some", `Go's result is a proper non-empty part of s`, func(t Tuple) bool {
			switch t.Fn {
			case "TrimLeft":
				return strings.TrimLeft(s0(t), s1(t)) != s0(t)
			case "TrimRight":
				return strings.TrimRight(s0(t), s1(t)) != s0(t)
			}
			return strings.Trim(s0(t), s1(t)) != s0(t)
		}},
		{"trims-nothing", `Go's result is s`, always},
	}
)

var shapesByFn = map[string][]shape{
	"Index": searchShapes, "Contains": searchShapes, "Cut": searchShapes,
	"HasPrefix": prefixShapes, "CutPrefix": prefixShapes, "TrimPrefix": prefixShapes,
	"HasSuffix": suffixShapes, "CutSuffix": suffixShapes, "TrimSuffix": suffixShapes,
	"Split":    splitShapes,
	"TrimLeft": trimShapes, "TrimRight": trimShapes, "Trim": trimShapes,
	"Count": {
		{"s-empty,sep-empty", `s == "" and substr == ""`, func(t Tuple) bool { return s0(t) == "" && s1(t) == "" }},
		{"sep-empty", `substr == "", s non-empty`, func(t Tuple) bool { return s1(t) == "" }},
		{"s-empty", `s == "", substr non-empty`, func(t Tuple) bool { return s0(t) == "" }},
		{"overlap", `occurrences of substr in s overlap`, func(t Tuple) bool { return overlapping(s0(t), s1(t)) }},
		{"present", `substr occurs in s without overlap`, func(t Tuple) bool { return strings.Contains(s0(t), s1(t)) }},
		{"absent", `substr does not occur in s`, always},
	},
	"Join": {
		{"elem-blank-lossy", `some element has a leading/trailing blank or consists of blanks`, func(t Tuple) bool { return anyLossy(t.Elems) }},
		{"elems=0", `empty slice`, func(t Tuple) bool { return len(t.Elems) == 0 }},
		{"elems=1", `one element`, func(t Tuple) bool { return len(t.Elems) == 1 }},
		{"sep-empty", `at least 2 elements, sep == ""`, func(t Tuple) bool { return s0(t) == "" }},
		{"elems>=2", `at least 2 elements, sep non-empty`, always},
	},
	"Repeat": {
		{"count=0,s-nonempty", `count == 0 and s non-empty`, func(t Tuple) bool { return t.N == 0 && s0(t) != "" }},
		{"count=0,s-empty", `count == 0 and s == ""`, func(t Tuple) bool { return t.N == 0 }},
		{"s-empty", `s == "", count > 0`, func(t Tuple) bool { return s0(t) == "" }},
		{"count=1", `count == 1, s non-empty`, func(t Tuple) bool { return t.N == 1 }},
		{"count>=2", `count >= 2, s non-empty`, always},
	},
	"Replace": {
		{"old-empty,n=0,new-nonempty", `old == "", n == 0, new non-empty`, func(t Tuple) bool { return s1(t) == "" && t.N == 0 && t.S[2] != "" }},
		{"old-empty,n=0,new-empty", `old == "", n == 0, new == ""`, func(t Tuple) bool { return s1(t) == "" && t.N == 0 }},
		{"old-empty,n<0", `old == "", n < 0`, func(t Tuple) bool { return s1(t) == "" && t.N < 0 }},
		{"old-empty,n>0", `old == "", n > 0`, func(t Tuple) bool { return s1(t) == "" }},
		{"n=0", `old non-empty, n == 0`, func(t Tuple) bool { return t.N == 0 }},
		{"old-absent", `old non-empty, n != 0, old does not occur in s`, func(t Tuple) bool { return !strings.Contains(s0(t), s1(t)) }},
		{"overlap", `old non-empty, n != 0, occurrences of old in s overlap`, func(t Tuple) bool { return overlapping(s0(t), s1(t)) }},
		{"n<0", `old occurs in s without overlap, n < 0 (replace all)`, func(t Tuple) bool { return t.N < 0 }},
		{"n<count", `old occurs in s without overlap, 0 < n < number of occurrences`, func(t Tuple) bool { return t.N < strings.Count(s0(t), s1(t)) }},
		{"n>=count", `old occurs in s without overlap, n >= number of occurrences`, always},
	},
	"ReplaceAll": {
		{"old-empty", `old == ""`, func(t Tuple) bool { return s1(t) == "" }},
		{"old-absent", `old non-empty and not in s`, func(t Tuple) bool { return !strings.Contains(s0(t), s1(t)) }},
		{"overlap", `occurrences of old in s overlap`, func(t Tuple) bool { return overlapping(s0(t), s1(t)) }},
		{"old-present", `old occurs in s without overlap`, always},
	},
	"TrimSpace": {
		{"s-empty", `s == ""`, func(t Tuple) bool { return s0(t) == "" }},
		{"all-space", `s consists of white space only`, func(t Tuple) bool { return strings.TrimSpace(s0(t)) == "" }},
		{"edge-space", `s has leading or trailing white space and a non-space character`, func(t Tuple) bool { return strings.TrimSpace(s0(t)) != s0(t) }},
		{"no-edge-space", `s non-empty without leading/trailing white space`, always},
	},
}

var shapeDoc = map[string]string{}

func init() {
	for fn, shs := range shapesByFn {
		seen := map[string]bool{}
		for _, sh := range shs {
			if seen[sh.name] {
				panic("c15: duplicate shape " + fn + "/" + sh.name)
			}
			seen[sh.name] = true
			if d, ok := shapeDoc[sh.name]; ok && d != sh.doc {
				// same name, different wording across functions: keep both readable
				shapeDoc[fn+"/"+sh.name] = sh.doc
				continue
			}
			shapeDoc[sh.name] = sh.doc
		}
	}
	for _, fn := range AllFunctions {
		if shapesByFn[fn] == nil {
			panic("c15: no shapes for " + fn)
		}
	}
}

func docOf(fn, shape string) string {
	if d, ok := shapeDoc[fn+"/"+shape]; ok {
		return d
	}
	return shapeDoc[shape]
}

func shapeOf(t Tuple) string {
	for _, sh := range shapesByFn[t.Fn] {
		if sh.pred(t) {
			return sh.name
		}
	}
	panic(fmt.Sprintf("c15: no shape for %s", t))
}

package c15

import (
	"bufio"
	"os"
	"sort"
	"strings"
	"testing"
)

// TestShapesAgainstDump is a development aid: given the DUMP lines of an
// earlier sweep (C15_DUMP=1 output; file named by C15_DUMP_FILE, tier by
// VERIF_TIER) it checks, without executing anything, that every shape class is
// either failing completely with one symptom or not at all.
func TestShapesAgainstDump(t *testing.T) {
	fn := os.Getenv("C15_DUMP_FILE")
	if fn == "" {
		t.Skip("C15_DUMP_FILE not set")
	}
	f, err := os.Open(fn)
	if err != nil {
		t.Fatal(err)
	}
	defer f.Close()
	failing := map[string]string{}
	sc := bufio.NewScanner(f)
	sc.Buffer(make([]byte, 1<<20), 1<<20)
	for sc.Scan() {
		p := strings.Split(sc.Text(), "\t")
		if len(p) < 4 || !strings.HasPrefix(p[0], "DUMP ") {
			continue
		}
		failing[p[3]] = p[2]
	}
	type cellStat struct {
		total int
		sym   map[string]int
		ex    []string
	}
	cells := map[string]*cellStat{}
	for _, fs := range spaces(os.Getenv("VERIF_TIER") == "thorough") {
		for _, tu := range fs.Tuples {
			if _, skip := expected(tu); skip {
				continue
			}
			k := tu.Fn + " " + shapeOf(tu)
			c := cells[k]
			if c == nil {
				c = &cellStat{sym: map[string]int{}}
				cells[k] = c
			}
			c.total++
			if s, bad := failing[tu.String()]; bad {
				c.sym[s]++
				delete(failing, tu.String())
			} else if len(c.ex) < 5 {
				c.ex = append(c.ex, tu.String())
			}
		}
	}
	if len(failing) > 0 {
		t.Errorf("%d dumped failures are not in the enumerated space", len(failing))
	}
	var ks []string
	for k := range cells {
		ks = append(ks, k)
	}
	sort.Strings(ks)
	for _, k := range ks {
		c := cells[k]
		n := 0
		for _, v := range c.sym {
			n += v
		}
		st := "pass"
		if n > 0 {
			st = "FAIL-ALL"
			if n != c.total || len(c.sym) != 1 {
				st = "PARTIAL"
				t.Errorf("cell %s partial: %v of %d; passing e.g. %v", k, c.sym, c.total, c.ex)
			}
		}
		t.Logf("%-45s total=%5d %v %s", k, c.total, c.sym, st)
	}
}

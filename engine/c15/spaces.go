package c15

// strs returns every string over alpha of length <= n, shortest first.
func strs(alpha []string, n int) []string {
	out := []string{""}
	level := []string{""}
	for l := 1; l <= n; l++ {
		var next []string
		for _, p := range level {
			for _, a := range alpha {
				next = append(next, p+a)
			}
		}
		out = append(out, next...)
		level = next
	}
	return out
}

// lists returns every list over elems of length <= n, shortest first.
func lists(elems []string, n int) [][]string {
	out := [][]string{{}}
	level := [][]string{{}}
	for l := 1; l <= n; l++ {
		var next [][]string
		for _, p := range level {
			for _, e := range elems {
				q := append(append([]string{}, p...), e)
				next = append(next, q)
			}
		}
		out = append(out, next...)
		level = next
	}
	return out
}

type fnSpace struct {
	Fn     string
	Tuples []Tuple
	Batch  int
}

var abc = []string{"a", "b", " "}

// Two-argument functions (subject, separator/prefix/suffix/cutset).
var twoArg = []string{"Index", "Contains", "HasPrefix", "HasSuffix", "Count", "Split", "Cut", "CutPrefix", "CutSuffix",
	"TrimPrefix", "TrimSuffix", "TrimLeft", "TrimRight", "Trim"}

// AllFunctions lists the 19 functions of the property statement.
var AllFunctions = append(append([]string{}, twoArg...), "Join", "Repeat", "Replace", "ReplaceAll", "TrimSpace")

func spaces(thorough bool) []fnSpace {
	subjN, sepN, batch := 2, 1, 24
	if thorough {
		// every script pays ~0.1 s for lexing std/strings.tsh: larger batches in the big tier
		subjN, sepN, batch = 3, 2, 60
	}
	subj := strs(abc, subjN)
	seps := strs(abc, sepN)
	// quick tier: a dense blank-free sub-space where partial and overlapping matches exist
	// (subjects of length 3-4 over {a, b}, separators of length 2)
	var denseSubj, denseSeps []string
	if !thorough {
		denseSubj = append(denseSubj, "aaa", "aab", "aba", "abb", "baa", "bab", "bba", "bbb", "aabb", "abab", "abba", "baab", "ababb", "aabab")
		denseSeps = []string{"aa", "ab", "ba", "bb", "abb"}
	}
	repl := strs(abc, 1)
	counts := []int{-2, -1, 0, 1, 2, 3, 4}
	var out []fnSpace
	for _, fn := range twoArg {
		fs := fnSpace{Fn: fn, Batch: batch}
		for _, s := range subj {
			for _, p := range seps {
				fs.Tuples = append(fs.Tuples, Tuple{Fn: fn, S: []string{s, p}})
			}
		}
		for _, s := range denseSubj {
			for _, p := range denseSeps {
				fs.Tuples = append(fs.Tuples, Tuple{Fn: fn, S: []string{s, p}})
			}
		}
		out = append(out, fs)
	}
	// Join: quick = lists of <= 3 elements over {"", a, blank}; thorough = lists of <= 4 over {"", a, b, blank, ab}
	{
		el, n := []string{"", "a", " "}, 3
		if thorough {
			el, n = []string{"", "a", "b", " ", "ab"}, 4
		}
		fs := fnSpace{Fn: "Join", Batch: batch}
		for _, l := range lists(el, n) {
			for _, p := range seps {
				fs.Tuples = append(fs.Tuples, Tuple{Fn: "Join", IsJ: true, Elems: l, S: []string{p}})
			}
		}
		out = append(out, fs)
	}
	{
		fs := fnSpace{Fn: "Repeat", Batch: batch}
		for _, s := range subj {
			for _, c := range counts {
				fs.Tuples = append(fs.Tuples, Tuple{Fn: "Repeat", S: []string{s}, N: c, HasN: true})
			}
		}
		out = append(out, fs)
	}
	{
		fs := fnSpace{Fn: "Replace", Batch: batch}
		fa := fnSpace{Fn: "ReplaceAll", Batch: batch}
		for _, s := range subj {
			for _, o := range seps {
				for _, nw := range repl {
					fa.Tuples = append(fa.Tuples, Tuple{Fn: "ReplaceAll", S: []string{s, o, nw}})
					for _, c := range counts {
						fs.Tuples = append(fs.Tuples, Tuple{Fn: "Replace", S: []string{s, o, nw}, N: c, HasN: true})
					}
				}
			}
		}
		for _, s := range denseSubj {
			for _, o := range denseSeps {
				for _, nw := range []string{"", "b", "ab"} {
					fa.Tuples = append(fa.Tuples, Tuple{Fn: "ReplaceAll", S: []string{s, o, nw}})
					for _, c := range []int{-1, 1, 2} {
						fs.Tuples = append(fs.Tuples, Tuple{Fn: "Replace", S: []string{s, o, nw}, N: c, HasN: true})
					}
				}
			}
		}
		out = append(out, fs, fa)
	}
	{
		// TrimSpace: the blank alphabet plus the other white space the library lists.
		fs := fnSpace{Fn: "TrimSpace", Batch: batch}
		seen := map[string]bool{}
		for _, s := range subj {
			seen[s] = true
			fs.Tuples = append(fs.Tuples, Tuple{Fn: "TrimSpace", S: []string{s}})
		}
		n := 3
		if thorough {
			n = 4
		}
		for _, s := range strs([]string{"a", " ", "\t", "\n"}, n) {
			if !seen[s] {
				seen[s] = true
				fs.Tuples = append(fs.Tuples, Tuple{Fn: "TrimSpace", S: []string{s}})
			}
		}
		out = append(out, fs)
	}
	return out
}

package c18

// The Batch phase of C18. There is no cmd.exe here: the emitted script runs under verif/cmdmodel, whose rule 12
// (external.go) interprets `call prog args`, pipes between programs and the capture helper `_ach` from their text
// for cmd-neutral command lines; the probe programs are a Go function installed as the model's hook. Whatever the
// model refuses is counted per rule and never judged.

import (
	"fmt"
	"os"
	"regexp"
	"strings"
	"sync"
	"time"

	"verif/cmdmodel"
	"verif/drive"
	"verif/findings"
)

// ---------------------------------------------------------------------------
// the probe programs p1..p5 and say, as the hook of the cmd.exe model
//
//	pN [xS] [tailnone|tailmute] args...   every line L of its standard input is printed as "pN-L", then its own
//	                                      line "pN." (tailnone: without line end, tailmute: not at all); the exit
//	                                      status is S when the FIRST argument is x<decimal>, else 0
//	say w                                 prints w and a line end
//
// The control words are letters and digits only, so that the whole command line stays cmd-neutral.

type bStart struct {
	Name string
	Args []string
}

var bStatusArg = regexp.MustCompile(`^x([0-9]{1,3})$`)

// bProbeRun is the reference semantics of a probe (line end "\n").
func bProbeRun(name, stdin string, args []string) (out string, status int, ok bool) {
	if name == "say" {
		if len(args) != 1 {
			return "", 0, false
		}
		return args[0] + "\n", 0, true
	}
	if len(name) != 2 || name[0] != 'p' || name[1] < '1' || name[1] > '5' {
		return "", 0, false
	}
	if stdin != "" {
		for _, l := range strings.Split(strings.TrimSuffix(stdin, "\n"), "\n") {
			out += name + "-" + strings.TrimSuffix(l, "\r") + "\n"
		}
	}
	if len(args) > 0 {
		if m := bStatusArg.FindStringSubmatch(args[0]); m != nil {
			fmt.Sscanf(m[1], "%d", &status)
		}
	}
	tail := "one"
	for _, a := range args {
		switch a {
		case "tailnone":
			tail = "none"
		case "tailmute":
			tail = "mute"
		}
	}
	switch tail {
	case "none":
		out += name + "."
	case "mute":
	default:
		out += name + ".\n"
	}
	return out, status, true
}

// bHook is the hook handed to the model: argv by the C runtime's rules, output with CR LF line ends.
func bHook(log *[]bStart) cmdmodel.External {
	return func(c cmdmodel.ExternalCall) (string, int, bool) {
		argv, ok := cmdmodel.SplitCommandLine(c.CommandLine)
		if !ok || len(argv) == 0 {
			return "", 0, false
		}
		out, st, ok := bProbeRun(argv[0], strings.ReplaceAll(c.Stdin, "\r\n", "\n"), argv[1:])
		if !ok {
			return "", 0, false
		}
		*log = append(*log, bStart{argv[0], append([]string{}, argv[1:]...)})
		return strings.ReplaceAll(out, "\n", "\r\n"), st, true
	}
}

// ---------------------------------------------------------------------------
// programs

// bSite is one call chain in a program.
type bSite struct {
	Stages  [][]Arg
	Mode    string // captured | uncaptured
	Targets string // "" = all three named
	Form    string // "" | var | assign
	Tag     string // coordinates
	Bare    bool   // the site is written without any string literal (no arguments; the results are printed as they are)
}

func (s bSite) tag() string {
	c := Case{Targets: s.Targets, Form: s.Form}
	return s.Tag + c.targetKey()
}

func (s bSite) blank() bool { return strings.Contains(s.Targets, "_") }

// bProg is one program: sites arranged by a shape.
//
//	top         the sites one after the other at top level
//	loop        site 0 in the body of a loop that runs Reps times
//	func        site 0 in a function that is called Reps times
//	func-mixed  site 0 in a function; the program calls it, runs site 1 at top level and calls it again
type bProg struct {
	Family string
	Shape  string
	Reps   int
	Sites  []bSite
}

func (p bProg) key() string {
	var t []string
	for _, s := range p.Sites {
		t = append(t, "{"+s.tag()+"}")
	}
	k := "batch shape=" + p.Shape
	if p.Shape == "loop" || p.Shape == "func" {
		k += fmt.Sprintf(" reps=%d", p.Reps)
	}
	return k + " sites=" + strings.Join(t, "")
}

// events lists the site indices in execution order.
func (p bProg) events() []int {
	switch p.Shape {
	case "loop", "func":
		return make([]int, p.Reps)
	case "func-mixed":
		return []int{0, 1, 0}
	}
	ev := make([]int, len(p.Sites))
	for i := range ev {
		ev[i] = i
	}
	return ev
}

func bExprOf(a Arg, id string, pre *[]string, needID *bool) string {
	switch a.Origin {
	case "var":
		*pre = append(*pre, fmt.Sprintf("%s := %s", id, tsQuote(a.Value)))
		return id
	case "concat":
		h := len(a.Value) / 2
		return tsQuote(a.Value[:h]) + " + " + tsQuote(a.Value[h:])
	case "call":
		*needID = true
		return "id(" + tsQuote(a.Value) + ")"
	case "capture":
		return "@say(" + tsQuote(a.Value) + ")"
	}
	return tsQuote(a.Value)
}

// siteSource renders site k; needID reports the use of the identity function.
func siteSource(s bSite, k int, indent string, needID *bool) string {
	var pre, chain []string
	for si, st := range s.Stages {
		var as []string
		for ai, a := range st {
			as = append(as, bExprOf(a, fmt.Sprintf("v%d%d%d", k, si, ai), &pre, needID))
		}
		chain = append(chain, fmt.Sprintf("@p%d(%s)", si+1, strings.Join(as, ", ")))
	}
	var lines []string
	lines = append(lines, pre...)
	call := strings.Join(chain, " | ")
	if s.Mode != "captured" {
		lines = append(lines, call)
	} else {
		c := Case{Targets: s.Targets}
		_, named := c.targetNames()
		names := [3]string{fmt.Sprintf("o%d", k), fmt.Sprintf("e%d", k), fmt.Sprintf("c%d", k)}
		list := make([]string, 3)
		for i := range names {
			list[i] = names[i]
			if !named[i] {
				list[i] = "_"
			}
		}
		l := strings.Join(list, ", ")
		switch s.Form {
		case "var":
			lines = append(lines, "var "+l+" = "+call)
		case "assign":
			lines = append(lines, names[0]+` := ""`, names[1]+` := ""`, names[2]+" := 0")
			if s.blank() {
				lines = append(lines, `_ := ""`)
			}
			lines = append(lines, l+" = "+call)
		default:
			lines = append(lines, l+" := "+call)
		}
		if named[0] && s.Bare {
			lines = append(lines, "print("+names[0]+")")
		} else if named[0] {
			lines = append(lines, `print("[" + `+names[0]+` + "]")`)
		}
		if named[2] {
			lines = append(lines, "print("+names[2]+")")
		}
	}
	return indent + strings.Join(lines, "\n"+indent) + "\n"
}

func (p bProg) source() string {
	needID := false
	var body strings.Builder
	switch p.Shape {
	case "loop":
		fmt.Fprintf(&body, "for i := 0; i < %d; i++ {\n%s}\n", p.Reps, siteSource(p.Sites[0], 0, "\t", &needID))
	case "func":
		fmt.Fprintf(&body, "func work() {\n%s}\n", siteSource(p.Sites[0], 0, "\t", &needID))
		for i := 0; i < p.Reps; i++ {
			body.WriteString("work()\n")
		}
	case "func-mixed":
		fmt.Fprintf(&body, "func work() {\n%s}\nwork()\n%swork()\n", siteSource(p.Sites[0], 0, "\t", &needID), siteSource(p.Sites[1], 1, "", &needID))
	default:
		for k, s := range p.Sites {
			body.WriteString(siteSource(s, k, "", &needID))
		}
	}
	src := ""
	if needID {
		src = "func id(s string) string {\n\treturn s\n}\n\n"
	}
	if p.bare() {
		return src + body.String() // (not a single string literal in the whole program)
	}
	return src + body.String() + "print(\"done\")\n"
}

func (p bProg) bare() bool {
	for _, s := range p.Sites {
		if !s.Bare {
			return false
		}
	}
	return true
}

// expect is the reference: stdout and the program starts in order, per program name.
func (p bProg) expect() (stdout string, starts map[string][][]string, captures int, skip string) {
	starts = map[string][][]string{}
	for _, k := range p.events() {
		s := p.Sites[k]
		data, status := "", 0
		for si, st := range s.Stages {
			var vals []string
			for _, a := range st {
				if a.Origin == "capture" {
					starts["say"] = append(starts["say"], []string{a.Value})
					captures++
				}
				vals = append(vals, a.Value)
			}
			name := fmt.Sprintf("p%d", si+1)
			starts[name] = append(starts[name], vals)
			data, status, _ = bProbeRun(name, data, vals)
		}
		if s.Mode != "captured" {
			stdout += data
			continue
		}
		captures++
		if strings.HasSuffix(data, "\n\n") {
			return "", nil, 0, "output ends in two newlines"
		}
		c := Case{Targets: s.Targets}
		_, named := c.targetNames()
		if named[0] && s.Bare {
			stdout += strings.TrimSuffix(data, "\n") + "\n"
		} else if named[0] {
			stdout += "[" + strings.TrimSuffix(data, "\n") + "]\n"
		}
		if named[2] {
			stdout += fmt.Sprint(status) + "\n"
		}
	}
	if p.bare() {
		return stdout, starts, captures, ""
	}
	return stdout + "done\n", starts, captures, ""
}

// ---------------------------------------------------------------------------
// judging

type bObs struct {
	Symptom    string // "" | unmodelled | rejected | transpiler-panic | script-error | runaway | not-run | run-count | value | split | vanished | fewer-args | extra-run | stdout | exit
	Detail     string
	Src        string
	Script     string
	WantOut    string
	WantStarts map[string][][]string
	GotOut     string
	GotStarts  []bStart
	Exit       int
	Externals  int
	Captures   int
}

func runBatchModel(script string, budget int) (cmdmodel.Result, []bStart) {
	var log []bStart
	res := cmdmodel.Run(script, cmdmodel.Options{MaxSteps: budget, Files: map[string]string{}, External: bHook(&log)})
	return res, log
}

func judgeBatch(p bProg) bObs {
	src := p.source()
	wantOut, wantStarts, captures, _ := p.expect()
	o := bObs{Src: src, WantOut: wantOut, WantStarts: wantStarts, Captures: captures}
	tr := drive.TranspileSrc(src, drive.Batch)
	if tr.Panic != "" {
		o.Symptom, o.Detail = "transpiler-panic", firstLine(tr.Panic)
		return o
	}
	if !tr.OK() {
		o.Symptom, o.Detail = "rejected", tr.Err
		return o
	}
	o.Script = tr.Script
	budget := 200000 + 600*len(wantOut) + 50*len(src)
	res, log := runBatchModel(tr.Script, budget)
	if res.Unmodelled == "step budget" {
		res, log = runBatchModel(tr.Script, 8*budget)
		if res.Unmodelled == "step budget" {
			o.Symptom, o.Detail = "runaway", fmt.Sprintf("no termination within %d cmd steps", 8*budget)
			return o
		}
	}
	o.GotOut = strings.ReplaceAll(res.Stdout, "\r\n", "\n")
	o.GotStarts, o.Exit, o.Externals = log, res.Exit, res.Externals
	if res.Unmodelled != "" {
		o.Symptom, o.Detail = "unmodelled", res.Unmodelled
		return o
	}
	if res.Error != "" {
		o.Symptom, o.Detail = "script-error", res.Error
		return o
	}
	got := map[string][][]string{}
	for _, s := range log {
		got[s.Name] = append(got[s.Name], s.Args)
	}
	// 1. arguments, per program in start order
	for _, n := range drive.SortedKeys(wantStarts) {
		w, g := wantStarts[n], got[n]
		switch {
		case len(g) == 0:
			o.Symptom, o.Detail = "not-run", fmt.Sprintf("%s was never started, the program starts it %d time(s)", n, len(w))
			return o
		case len(g) != len(w):
			o.Symptom, o.Detail = "run-count", fmt.Sprintf("%s was started %d times, the program starts it %d time(s)", n, len(g), len(w))
			return o
		}
		for i := range w {
			if fmt.Sprintf("%q", w[i]) == fmt.Sprintf("%q", g[i]) {
				continue
			}
			switch {
			case len(g[i]) == 0 && len(w[i]) > 0:
				o.Symptom = "vanished"
			case len(g[i]) < len(w[i]):
				o.Symptom = "fewer-args"
			case len(g[i]) > len(w[i]):
				o.Symptom = "split"
			default:
				o.Symptom = "value"
			}
			o.Detail = fmt.Sprintf("start %d of %s received %d argument(s) %q, the call gives %d: %q", i+1, n, len(g[i]), g[i], len(w[i]), w[i])
			return o
		}
	}
	for n := range got {
		if _, ok := wantStarts[n]; !ok {
			o.Symptom, o.Detail = "extra-run", n+" was started although no call names it"
			return o
		}
	}
	// 2. data, captured status, exit status of the script
	switch {
	case o.GotOut != wantOut:
		o.Symptom, o.Detail = "stdout", diffHint(wantOut, o.GotOut)
	case res.Exit != 0:
		o.Symptom, o.Detail = "exit", fmt.Sprintf("script exit status %d", res.Exit)
	}
	return o
}

func confirmBatch(p bProg, first bObs) {
	for k := 0; k < 2; k++ {
		again := judgeBatch(p)
		if again.Symptom != first.Symptom || again.GotOut != first.GotOut || again.Exit != first.Exit || fmt.Sprint(again.GotStarts) != fmt.Sprint(first.GotStarts) {
			harnessError("replay of a failing Batch case did not reproduce: %s\nfirst: %s %s\nagain: %s %s", p.key(), first.Symptom, first.Detail, again.Symptom, again.Detail)
		}
	}
}

func startsText(m map[string][][]string) string {
	var b strings.Builder
	for _, n := range drive.SortedKeys(m) {
		for _, a := range m[n] {
			fmt.Fprintf(&b, "%s %q\n", n, a)
		}
	}
	return b.String()
}

func replayBatch(p bProg, o bObs) func() findings.Replay {
	return func() findings.Replay {
		got := map[string][][]string{}
		for _, s := range o.GotStarts {
			got[s.Name] = append(got[s.Name], s.Args)
		}
		return findings.Replay{Files: map[string]string{
			"src/main.tsh": o.Src,
			"expected.txt": o.WantOut + "exit=0\n--- program starts\n" + startsText(o.WantStarts),
			"actual.txt":   o.GotOut + fmt.Sprintf("exit=%d\n--- program starts\n", o.Exit) + startsText(got),
			"script.bat":   o.Script,
			"detail.txt":   p.key() + "\n" + o.Symptom + ": " + o.Detail + "\n",
		}, Script: `set -e
# re-transpiles with the repository's own CLI and runs the Batch script under the cmd.exe model with C18's probe programs
T=$(mktemp -d); trap 'rm -rf "$T"' EXIT
export GOFLAGS=-mod=mod GOPROXY=off GOSUMDB=off GOTOOLCHAIN=local
(cd /repo && go build -o "$T/tsh" . ) && cp -r /repo/std "$T/std"
(cd /verif/engine && go build -o "$T/c18dev" ./c18/cmd )
mkdir -p "$T/out"; "$T/tsh" -i src/main.tsh -o "$T/out" -t batch || { echo "REPLAY: transpilation failed"; exit 1; }
"$T/c18dev" batrun "$T/out/main.bat" > "$T/actual.txt" || true
if diff expected.txt "$T/actual.txt"; then echo "REPLAY: no longer reproduces"; else echo "REPLAY: reproduced (diff above)"; exit 1; fi`}
	}
}

// BatRun runs a Batch script under the cmd.exe model with the probe programs (replay helper of the dev binary).
func BatRun(args []string) int {
	if len(args) != 1 {
		fmt.Fprintln(os.Stderr, "usage: batrun file.bat")
		return 2
	}
	b, err := os.ReadFile(args[0])
	if err != nil {
		fmt.Fprintln(os.Stderr, err)
		return 2
	}
	res, log := runBatchModel(string(b), 0)
	got := map[string][][]string{}
	for _, s := range log {
		got[s.Name] = append(got[s.Name], s.Args)
	}
	fmt.Print(strings.ReplaceAll(res.Stdout, "\r\n", "\n"))
	fmt.Printf("exit=%d\n--- program starts\n%s", res.Exit, startsText(got))
	if res.Error != "" || res.Unmodelled != "" {
		fmt.Printf("error=%s\nunmodelled=%s\n", res.Error, res.Unmodelled)
	}
	return 0
}

// ---------------------------------------------------------------------------
// enumeration

var bArgValue = map[string]string{"a": "a", "B7": "B7", "b_c": "b c"}

// bCells: the single-argument table of the Batch phase. The alphabet is cmd-neutral: letters, digits and - as a
// literal, which the converter quotes - a blank. The blank also appears once computed (b_c:var), where the
// converter does not quote it: that cell is judged like any other.
func bCells() []Arg {
	var out []Arg
	for _, n := range []string{"a", "B7"} {
		for _, o := range origins {
			out = append(out, Arg{Name: n, Value: bArgValue[n], Origin: o})
		}
	}
	out = append(out, Arg{Name: "b_c", Value: "b c", Origin: "literal"}, Arg{Name: "b_c", Value: "b c", Origin: "var"})
	return out
}

func bAux(v string) Arg { return Arg{Value: v, Origin: "literal"} }

var bPats = map[string][]Arg{
	"none": nil,
	"one":  {{Name: "a", Value: "a", Origin: "literal"}},
	"two":  {{Name: "b_c", Value: "b c", Origin: "literal"}, {Name: "B7", Value: "B7", Origin: "var"}},
}

// bChain builds a site: L stages, argument pattern, tail of every stage, statuses of the earlier stages, status of
// the last stage.
func bChain(L int, pn, tail string, pr []int, last int, mode string) bSite {
	var stages [][]Arg
	for s := 0; s < L; s++ {
		st := last
		if s < L-1 {
			st = pr[s]
		}
		as := []Arg{bAux(fmt.Sprintf("x%d", st))}
		if tail != "one" {
			as = append(as, bAux("tail"+tail))
		}
		as = append(as, bPats[pn]...)
		stages = append(stages, as)
	}
	tag := fmt.Sprintf("chain=%d argpat=%s tail=%s prior=%s status=%d mode=%s", L, pn, tail, strings.Trim(strings.ReplaceAll(fmt.Sprint(pr), " ", ","), "[]"), last, mode)
	return bSite{Stages: stages, Mode: mode, Tag: tag}
}

// bAlphabet: the sites that are combined with each other (sequences, loops, functions). They differ in what a
// helper could wrongly keep from one call to the next: output of one / several lines / none at all, status zero
// / non-zero, captured / uncaptured, quoted and computed arguments, chain length.
func bAlphabet() []bSite {
	return []bSite{
		bChain(1, "one", "one", nil, 0, "captured"),
		bChain(1, "one", "one", nil, 3, "captured"),
		bChain(2, "none", "one", []int{0}, 0, "captured"),
		bChain(2, "one", "one", []int{3}, 5, "captured"),
		bChain(1, "none", "mute", nil, 0, "captured"),
		bChain(1, "none", "mute", nil, 7, "captured"),
		bChain(1, "two", "one", nil, 255, "captured"),
		bChain(3, "two", "one", []int{0, 3}, 0, "captured"),
		bChain(1, "one", "one", nil, 4, "uncaptured"),
		bChain(2, "two", "one", []int{3}, 4, "uncaptured"),
	}
}

func bPriors(L int) [][]int {
	priors := [][]int{{}}
	for i := 1; i < L; i++ {
		var nx [][]int
		for _, p := range priors {
			for _, s := range []int{0, 3} {
				nx = append(nx, append(append([]int{}, p...), s))
			}
		}
		priors = nx
	}
	return priors
}

func batchPrograms(thorough bool) []bProg {
	var out []bProg
	one := func(fam string, s bSite) {
		out = append(out, bProg{Family: fam, Shape: "top", Sites: []bSite{s}})
		out = append(out, bProg{Family: fam, Shape: "func", Reps: 1, Sites: []bSite{s}})
	}
	// (b-D) single chains: length x argument pattern x tail x earlier statuses x last status x mode, top level and
	// in a function. A captured chain whose output lacks the final line end is enumerated in a small sub-family only
	// (chain 1-2, pattern one, status 0/3, top level).
	statuses := []int{0, 1, 3, 255}
	if thorough {
		statuses = nil
		for i := 0; i < 256; i++ {
			statuses = append(statuses, i)
		}
	}
	for L := 1; L <= 3; L++ {
		for _, pn := range []string{"none", "one", "two"} {
			for _, tail := range []string{"one", "mute", "none"} {
				for _, pr := range bPriors(L) {
					for _, last := range statuses {
						for _, m := range modes {
							if m == "uncaptured" && last != 0 && last != 3 {
								continue
							}
							if tail == "none" && m == "captured" {
								if L <= 2 && pn == "one" && (last == 0 || last == 3) && (L == 1 || pr[0] == 0) {
									out = append(out, bProg{Family: "chain", Shape: "top", Sites: []bSite{bChain(L, pn, tail, pr, last, m)}})
								}
								continue
							}
							one("chain", bChain(L, pn, tail, pr, last, m))
						}
					}
				}
			}
		}
	}
	// (b-S) two and three call chains per run: every ordered pair / triple over the site alphabet, at top level
	A := bAlphabet()
	for _, s1 := range A {
		for _, s2 := range A {
			out = append(out, bProg{Family: "sequence", Shape: "top", Sites: []bSite{s1, s2}})
			for _, s3 := range A {
				out = append(out, bProg{Family: "sequence", Shape: "top", Sites: []bSite{s1, s2, s3}})
			}
		}
	}
	// (b-L) one call site executed repeatedly: in a loop and in a function called 2 and 3 times; a function's
	// site with another site between its two calls
	for _, s := range A {
		for _, reps := range []int{2, 3} {
			out = append(out, bProg{Family: "repeated", Shape: "loop", Reps: reps, Sites: []bSite{s}})
			out = append(out, bProg{Family: "repeated", Shape: "func", Reps: reps, Sites: []bSite{s}})
		}
		for _, s2 := range A {
			out = append(out, bProg{Family: "repeated", Shape: "func-mixed", Sites: []bSite{s, s2}})
		}
	}
	// (b-T) the target vector of every captured alphabet site: alone, repeated, and between two other captured calls
	for _, tv := range append([][2]string{{"", ""}}, targetVectors()...) {
		if tv[0] == "" && tv[1] == "" {
			continue
		}
		for _, s := range A {
			if s.Mode != "captured" {
				continue
			}
			t := s
			t.Targets, t.Form = tv[0], tv[1]
			out = append(out, bProg{Family: "targets", Shape: "top", Sites: []bSite{t}})
			out = append(out, bProg{Family: "targets", Shape: "func", Reps: 2, Sites: []bSite{t}})
			out = append(out, bProg{Family: "targets", Shape: "loop", Reps: 2, Sites: []bSite{t}})
			out = append(out, bProg{Family: "targets", Shape: "top", Sites: []bSite{A[1], t, A[3]}})
		}
	}
	// (b-N) programs without a single string literal: chains of 1..3 argument-less stages (two and three lines of
	// output from length 2 on), captured and uncaptured, alone / twice in a row / in a loop / in a function called
	// twice - whatever a helper needs must not depend on another statement having defined it
	for L := 1; L <= 3; L++ {
		for _, m := range modes {
			bs := bSite{Stages: make([][]Arg, L), Mode: m, Bare: true, Tag: fmt.Sprintf("no-string-literal chain=%d mode=%s", L, m)}
			out = append(out, bProg{Family: "bare", Shape: "top", Sites: []bSite{bs}})
			out = append(out, bProg{Family: "bare", Shape: "top", Sites: []bSite{bs, bs}})
			out = append(out, bProg{Family: "bare", Shape: "loop", Reps: 2, Sites: []bSite{bs}})
			out = append(out, bProg{Family: "bare", Shape: "func", Reps: 2, Sites: []bSite{bs}})
		}
	}
	return out
}

// bArgPrograms: the single-argument cells and, over the cells in `pass`, every list of two (thorough: three).
func bArgSingles() []bProg {
	var out []bProg
	for _, a := range bCells() {
		for _, m := range modes {
			s := bSite{Stages: [][]Arg{{a}}, Mode: m, Tag: fmt.Sprintf("arg=%s origin=%s mode=%s", a.Name, a.Origin, m)}
			out = append(out, bProg{Family: "arg", Shape: "top", Sites: []bSite{s}})
		}
	}
	return out
}

func bArgLists(pass map[string]bool, thorough bool) []bProg {
	var out []bProg
	cells := bCells()
	maxLen := 2
	if thorough {
		maxLen = 3
	}
	for _, m := range modes {
		var ok []Arg
		for _, a := range cells {
			if pass[a.Name+":"+a.Origin+":"+m] {
				ok = append(ok, a)
			}
		}
		level := [][]Arg{{}}
		for l := 1; l <= maxLen; l++ {
			var next [][]Arg
			for _, p := range level {
				for _, a := range ok {
					next = append(next, append(append([]Arg{}, p...), a))
				}
			}
			level = next
			if l < 2 {
				continue
			}
			for _, list := range level {
				var t []string
				for _, a := range list {
					t = append(t, a.Name+":"+a.Origin)
				}
				s := bSite{Stages: [][]Arg{list}, Mode: m, Tag: fmt.Sprintf("args=[%s] mode=%s", strings.Join(t, ","), m)}
				out = append(out, bProg{Family: "arg", Shape: "top", Sites: []bSite{s}})
			}
		}
	}
	return out
}

var ruleNo = regexp.MustCompile(`^rule [0-9]+[a-z]?`)

// runBatchPhase enumerates and judges the Batch space; the counters go into the evidence of the run.
func runBatchPhase(r *findings.Run, past func() bool) (evals, distinctN int, capped bool) {
	t0 := time.Now()
	distinct := findings.NewDistinct()
	outcomes := findings.NewDistinct()
	var mu sync.Mutex
	unmodelled := map[string]int{}
	symptoms := map[string]int{}
	perFamily := map[string]int{}
	capturesPerRun := map[string]int{}
	judged, rejected, skipped, starts := 0, 0, 0, 0
	run := func(progs []bProg, onResult func(p bProg, o bObs)) {
		drive.Par(len(progs), func(i int) {
			if past() {
				mu.Lock()
				capped = true
				mu.Unlock()
				return
			}
			p := progs[i]
			if _, _, _, skip := p.expect(); skip != "" {
				mu.Lock()
				skipped++
				mu.Unlock()
				return
			}
			o := judgeBatch(p)
			distinct.Add(p.key())
			outcomes.Add(o.WantOut + startsText(o.WantStarts))
			mu.Lock()
			evals++
			perFamily[p.Family]++
			symptoms[o.Symptom]++
			switch o.Symptom {
			case "unmodelled":
				unmodelled[ruleNo.FindString(o.Detail)+" ("+firstWords(o.Detail, 9)+")"]++
			case "rejected":
				rejected++
			default:
				judged++
				starts += o.Externals
				n := o.Captures
				if n > 4 {
					n = 4
				}
				capturesPerRun[fmt.Sprintf("%d", n)]++
			}
			mu.Unlock()
			if i%401 == 0 {
				r.Sample(map[string]string{"kind": "batch", "case": p.key(), "source": o.Src, "expected_stdout": o.WantOut, "symptom": o.Symptom})
			}
			if onResult != nil {
				onResult(p, o)
			}
			switch o.Symptom {
			case "", "unmodelled":
				return
			case "rejected":
				if p.Family == "targets" {
					return // whether a target vector is accepted is not a clause of this property
				}
			}
			confirmBatch(p, o)
			r.Fail(p.key()+" symptom="+o.Symptom, fmt.Sprintf("Batch target under the cmd.exe model, %s: %s", p.key(), o.Detail), replayBatch(p, o))
		})
	}
	// the table of single-argument cells first: lists are built over the cells that pass
	pass := map[string]bool{}
	run(bArgSingles(), func(p bProg, o bObs) {
		if o.Symptom == "" {
			a := p.Sites[0].Stages[0][0]
			mu.Lock()
			pass[a.Name+":"+a.Origin+":"+p.Sites[0].Mode] = true
			mu.Unlock()
		}
	})
	run(bArgLists(pass, r.Thorough()), nil)
	run(batchPrograms(r.Thorough()), nil)

	r.Set("batch_programs", evals)
	r.Set("batch_programs_judged", judged)
	r.Set("batch_programs_by_family", perFamily)
	r.Set("batch_programs_the_cmd_model_refused_by_rule", unmodelled)
	r.Set("batch_programs_rejected_by_the_transpiler", rejected)
	r.Set("batch_skipped_ambiguous_trailing_newlines", skipped)
	r.Set("batch_program_starts_observed", starts)
	r.Set("batch_judged_runs_by_number_of_captured_calls_executed", capturesPerRun)
	r.Set("batch_symptom_histogram", symptoms)
	r.Set("batch_distinct_programs", distinct.Len())
	r.Set("batch_distinct_expected_observations", outcomes.Len())
	r.Set("batch_single_argument_cells_passing", len(pass))
	r.Set("batch_phase_seconds", int(time.Since(t0).Seconds()+0.5))
	return evals, distinct.Len(), capped
}

func firstWords(s string, n int) string {
	f := strings.Fields(s)
	if len(f) > n {
		f = f[:n]
	}
	return strings.Join(f, " ")
}

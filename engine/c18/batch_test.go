package c18

import (
	"os"
	"strings"
	"testing"
)

// The generator's own invariants: coordinates identify a program, and the reference output of a hand-computed
// program is what the comments say.
func TestBatchSpaceKeysAreUnique(t *testing.T) {
	seen := map[string]string{}
	all := append(bArgSingles(), batchPrograms(false)...)
	for _, p := range all {
		k, src := p.key(), p.source()
		if old, dup := seen[k]; dup && old != src {
			t.Fatalf("key %q names two different programs", k)
		}
		seen[k] = src
	}
	if len(seen) < 2000 {
		t.Fatalf("only %d distinct programs", len(seen))
	}
}

func TestBatchReference(t *testing.T) {
	A := bAlphabet()
	p := bProg{Family: "repeated", Shape: "func-mixed", Sites: []bSite{A[3], A[5]}}
	out, starts, captures, skip := p.expect()
	want := "[p2-p1.\np2.]\n5\n[]\n7\n[p2-p1.\np2.]\n5\ndone\n"
	if skip != "" || out != want || captures != 3 || len(starts["p1"]) != 3 || len(starts["p2"]) != 2 {
		t.Fatalf("reference: out %q captures %d starts %v", out, captures, starts)
	}
	if os.Getenv("C18_SHOW") != "" {
		t.Log("\n" + p.source())
		t.Log("\n" + bProg{Family: "targets", Shape: "loop", Reps: 2, Sites: []bSite{{Stages: A[6].Stages, Mode: "captured", Targets: "_,_,c", Form: "assign", Tag: A[6].Tag}}}.source())
		t.Log("\n" + Case{Kind: "pipeline", Stages: A[6].Stages, Mode: "captured", Targets: "_,e,_", Form: "var", InFunc: true}.source())
	}
	if !strings.Contains(p.source(), "func work() {") {
		t.Fatal("shape func-mixed lacks the function")
	}
}

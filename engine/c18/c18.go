// Package c18 decides property C18: a command call runs the program with
// exactly the given arguments, pipes connect stages in order, and a captured
// call chain yields the last stage's output (minus one trailing newline) and
// its exit status without printing anything - on the Bash target with the real
// bash (this file) and on the Batch target under the cmd.exe model (batch.go).
//
// A probe executable (bash builtins only; the scripts run with an empty
// environment) records its argv hex-encoded, tags what it reads from stdin and
// exits with the status its first argument asks for.
package c18

import (
	"encoding/hex"
	"fmt"
	"os"
	"sort"
	"strings"
	"sync"
	"time"

	"verif/drive"
	"verif/findings"
)

// ---------------------------------------------------------------------------
// the probe

const probeSrc = `#!/bin/bash
# C18 probe (bash builtins only): logs argv hex-encoded to log/<name>, copies
# stdin to stdout tagging every line, prints its own line, exits as asked.
LC_ALL=C
n="${0##*/}"
line="argc=$#"
for a in "$@"; do
  h=""
  i=0
  while [ $i -lt ${#a} ]; do
    c="${a:$i:1}"
    printf -v x '%02x' "'$c"
    h="$h$x"
    i=$((i+1))
  done
  line="$line [$h]"
done
printf '%s\n' "$line" >> "log/$n"
while IFS= read -r l || [ -n "$l" ]; do
  printf '%s(%s)\n' "$n" "$l"
done
st=0; tail=one
case "$1" in exit:*) st="${1#exit:}";; esac
for a in "$@"; do
  case "$a" in tail:*) tail="${a#tail:}";; esac
done
case "$tail" in
  none) printf '%s.' "$n";;
  mute) ;;
  *) printf '%s.\n' "$n";;
esac
exit "$st"
`

// saySrc prints its first argument and a newline: a captured call of it yields that argument as a value.
const saySrc = "#!/bin/bash\nprintf '%s\\n' \"$1\"\n"

func boxFiles() map[string]string {
	return map[string]string{"p1": probeSrc, "p2": probeSrc, "p3": probeSrc, "p4": probeSrc, "p5": probeSrc, "say": saySrc, "x": "decoy: a one-letter file name so that ? and * have something to match\n", "log/.keep": ""}
}

func logLine(args []string) string {
	s := fmt.Sprintf("argc=%d", len(args))
	for _, a := range args {
		s += " [" + hex.EncodeToString([]byte(a)) + "]"
	}
	return s + "\n"
}

// probeRun models the probe: what stage `name` prints given its stdin and args, and its status.
func probeRun(name, stdin string, args []string) (out string, status int) {
	if stdin != "" {
		lines := strings.Split(strings.TrimSuffix(stdin, "\n"), "\n")
		for _, l := range lines {
			out += name + "(" + l + ")\n"
		}
	}
	tail := "one"
	if len(args) > 0 && strings.HasPrefix(args[0], "exit:") {
		fmt.Sscanf(args[0], "exit:%d", &status)
	}
	for _, a := range args {
		if strings.HasPrefix(a, "tail:") {
			tail = strings.TrimPrefix(a, "tail:")
		}
	}
	switch tail {
	case "none":
		out += name + "."
	case "mute": // the program prints nothing of its own
	default:
		out += name + ".\n"
	}
	return out, status
}

// ---------------------------------------------------------------------------
// programs

// The 12 representative argument strings, by key name.
var argNames = []string{"a", "empty", "b_c", "lead", "star", "qmark", "semi", "dollar", "dq", "sq", "dashn", "bslash", "b__c", "trail", "tab", "b_sq", "b_dq", "b_star", "pct", "pct_s", "b_tab", "b_nl", "b_ctl"}
var argValue = map[string]string{"a": "a", "empty": "", "b_c": "b c", "lead": " lead", "star": "*", "qmark": "?", "semi": "a;b",
	"dollar": "$HOME", "dq": `"q"`, "sq": "'q'", "dashn": "-n", "bslash": `\`, "b__c": "b  c", "trail": "t  ", "tab": "x\ty",
	// a blank TOGETHER with a quote or a glob character (whatever quoting a blank triggers must still be right for the rest)
	"b_sq": "it's a", "b_dq": `say "hi" x`, "b_star": "a *",
	// a percent sign (a format verb to a careless printf / Sprintf)
	"pct": "100%", "pct_s": "%s x %d",
	// a blank TOGETHER with a tab, a line break, a control character (what a quoting routine writes for the
	// blank must not re-spell the other bytes)
	"b_tab": "a b\tc", "b_nl": "a b\nc", "b_ctl": "a b\x01c"}

var origins = []string{"literal", "var", "concat", "call", "capture", "concat-var"}

// Arg is one argument of a stage.
type Arg struct {
	Name   string // key name; "" for auxiliary arguments (exit:N, tail:none), which are plain literals
	Value  string
	Origin string
}

func tsQuote(s string) string {
	var b strings.Builder
	b.WriteByte('"')
	for i := 0; i < len(s); i++ {
		switch c := s[i]; c {
		case '"':
			b.WriteString(`\"`)
		case '\\':
			b.WriteString(`\\`)
		case '\n':
			b.WriteString(`\n`)
		default:
			b.WriteByte(c)
		}
	}
	b.WriteByte('"')
	return b.String()
}

// exprOf renders the argument expression; pre collects statements needed before the call.
func exprOf(a Arg, id string, pre *[]string, needID *bool) string {
	switch a.Origin {
	case "var":
		*pre = append(*pre, fmt.Sprintf("%s := %s", id, tsQuote(a.Value)))
		return id
	case "concat":
		h := len(a.Value) / 2
		return tsQuote(a.Value[:h]) + " + " + tsQuote(a.Value[h:])
	case "call":
		*needID = true
		return "id(" + tsQuote(a.Value) + ")"
	case "concat-var":
		// a literal joined with a variable, written directly as the argument
		h := len(a.Value) / 2
		*pre = append(*pre, fmt.Sprintf("%s := %s", id, tsQuote(a.Value[h:])))
		return tsQuote(a.Value[:h]) + " + " + id
	case "capture":
		// the standard output of another command call, captured in the same statement
		return "@\"./say\"(" + tsQuote(a.Value) + ")"
	case "traced":
		// the result of a function that reports its evaluation on standard output (family T)
		return "tr(" + tsQuote(a.Value) + ")"
	}
	return tsQuote(a.Value)
}

// Case is one program: a call chain, captured or not.
type Case struct {
	Kind   string  // args | pipeline
	Stages [][]Arg // per stage
	Mode   string  // uncaptured | captured
	Coord  string  // coordinates for pipeline keys
	InFunc bool    // the call chain sits inside a function body
	// Warm: another captured command call (@"./say"("warm", "up")) runs BEFORE the chain, so the chain is not the
	// first command call the transpiler emits (whatever it keeps from one call site to the next must not matter)
	Warm bool
	// Targets: which of the three targets of a capturing definition/assignment carry a name ("" = all three:
	// o, e, c) and which are the blank name, e.g. "_,_,c"; Form: "" (o, e, c := chain), "var" (var o, e, c = chain)
	// or "assign" (the targets are defined beforehand, o, e, c = chain). Captured output must never be printed,
	// whatever the targets are called.
	Targets string
	Form    string
}

// targetNames returns the three target spellings and which of them are named.
func (c Case) targetNames() (names [3]string, named [3]bool) {
	names = [3]string{"o", "e", "c"}
	named = [3]bool{true, true, true}
	if c.Targets != "" {
		for i, t := range strings.Split(c.Targets, ",") {
			names[i] = t
			named[i] = t != "_"
		}
	}
	return
}

// targetKey is the coordinate suffix of the target-vector dimension ("" for the base form).
func (c Case) targetKey() string {
	if c.Targets == "" && c.Form == "" {
		return ""
	}
	t, f := c.Targets, c.Form
	if t == "" {
		t = "o,e,c"
	}
	if f == "" {
		f = "define"
	}
	return " targets=" + t + " form=" + f
}

func (c Case) cells() []string {
	var out []string
	for _, st := range c.Stages {
		for _, a := range st {
			if a.Name != "" {
				out = append(out, a.Name+":"+a.Origin)
			}
		}
	}
	return out
}

func (c Case) String() string {
	var st []string
	for _, s := range c.Stages {
		var as []string
		for _, a := range s {
			if a.Name != "" {
				as = append(as, a.Name+":"+a.Origin)
			} else {
				as = append(as, a.Value)
			}
		}
		st = append(st, "["+strings.Join(as, ",")+"]")
	}
	w := ""
	if c.Warm {
		w = " after-another-call"
	}
	return fmt.Sprintf("%s mode=%s stages=%s%s%s", c.Kind, c.Mode, strings.Join(st, "|"), w, c.targetKey())
}

func (c Case) source() string {
	var pre []string
	needID := false
	var chain []string
	for si, st := range c.Stages {
		var as []string
		for ai, a := range st {
			as = append(as, exprOf(a, fmt.Sprintf("v%d%d", si, ai), &pre, &needID))
		}
		chain = append(chain, fmt.Sprintf("@\"./p%d\"(%s)", si+1, strings.Join(as, ", ")))
	}
	var sb strings.Builder
	if needID {
		sb.WriteString("func id(s string) string {\n\treturn s\n}\n\n")
	}
	for _, st := range c.Stages {
		for _, a := range st {
			if a.Origin == "traced" && !strings.Contains(sb.String(), "func tr(") {
				sb.WriteString("func tr(s string) string {\n\tprint(\"ev\", s)\n\treturn s\n}\n\n")
			}
		}
	}
	if c.Warm {
		sb.WriteString("wo, we, wc := @\"./say\"(\"warm\", \"up\")\nprint(wo, we, wc)\n")
	}
	if c.InFunc {
		sb.WriteString("func work() {\n")
	}
	for _, p := range pre {
		sb.WriteString(p + "\n")
	}
	if c.Mode == "captured" {
		names, named := c.targetNames()
		list := names[0] + ", " + names[1] + ", " + names[2]
		switch c.Form {
		case "var":
			sb.WriteString("var " + list + " = " + strings.Join(chain, " | ") + "\n")
		case "assign":
			// every target exists already; the blank name is an ordinary (string) variable
			sb.WriteString("o := \"\"\ne := \"\"\nc := 0\n")
			if !named[0] || !named[1] {
				sb.WriteString("_ := \"\"\n")
			}
			sb.WriteString(list + " = " + strings.Join(chain, " | ") + "\n")
		default:
			sb.WriteString(list + " := " + strings.Join(chain, " | ") + "\n")
		}
		if named[0] {
			sb.WriteString("print(\"<\" + o + \">\")\n")
		}
		if named[2] {
			sb.WriteString("print(c)\n")
		}
	} else {
		sb.WriteString(strings.Join(chain, " | ") + "\n")
	}
	if c.InFunc {
		sb.WriteString("}\nwork()\n")
	}
	sb.WriteString("print(\"done\")\n")
	return sb.String()
}

// expect computes the model observation: stdout and the log of every stage.
func (c Case) expect() (stdout string, logs map[string]string, skip string) {
	logs = map[string]string{}
	data, status := "", 0
	for si, st := range c.Stages {
		var vals []string
		for _, a := range st {
			vals = append(vals, a.Value)
		}
		name := fmt.Sprintf("p%d", si+1)
		logs["log/"+name] = logLine(vals)
		data, status = probeRun(name, data, vals)
	}
	if c.Mode == "captured" {
		if strings.HasSuffix(data, "\n\n") {
			return "", nil, "output ends in two newlines: 'without its trailing newline' is ambiguous"
		}
		_, named := c.targetNames()
		if named[0] {
			stdout = "<" + strings.TrimSuffix(data, "\n") + ">\n"
		}
		if named[2] {
			stdout += fmt.Sprint(status) + "\n"
		}
	} else {
		stdout = data
		if !strings.HasSuffix(data, "\n") {
			// the next print starts on the same line; that is what exact pass-through means
		}
	}
	// every argument of every stage is evaluated, in source order, before the chain runs
	ev := ""
	for _, st := range c.Stages {
		for _, a := range st {
			if a.Origin == "traced" {
				ev += "ev " + a.Value + "\n"
			}
		}
	}
	stdout = ev + stdout
	if c.Warm {
		stdout = "warm  0\n" + stdout
	}
	return stdout + "done\n", logs, ""
}

// ---------------------------------------------------------------------------
// running

type obs struct {
	Symptom string
	Detail  string
	Src     string
	Script  string
	WantOut string
	WantLog map[string]string
	Got     drive.RunResult
	Words   []string // what stage 1 actually received (nil if its log has not exactly one line)
	WordOK  bool     // stage 1 log has exactly one well-formed line and nothing else went wrong
}

func parseLog(s string) ([]string, bool) {
	if strings.Count(s, "\n") != 1 || !strings.HasSuffix(s, "\n") {
		return nil, false
	}
	f := strings.Fields(strings.TrimSuffix(s, "\n"))
	if len(f) == 0 || !strings.HasPrefix(f[0], "argc=") {
		return nil, false
	}
	words := []string{}
	for _, w := range f[1:] {
		if len(w) < 2 || w[0] != '[' || w[len(w)-1] != ']' {
			return nil, false
		}
		b, err := hex.DecodeString(w[1 : len(w)-1])
		if err != nil {
			return nil, false
		}
		words = append(words, string(b))
	}
	var n int
	fmt.Sscanf(f[0], "argc=%d", &n)
	if n != len(words) {
		return nil, false
	}
	return words, true
}

func judge(c Case) obs {
	src := c.source()
	wantOut, wantLog, _ := c.expect()
	o := obs{Src: src, WantOut: wantOut, WantLog: wantLog}
	tr := drive.TranspileSrc(src, drive.Bash)
	if tr.Panic != "" {
		o.Symptom, o.Detail = "transpiler-panic", firstLine(tr.Panic)
		return o
	}
	if !tr.OK() {
		o.Symptom, o.Detail = "rejected", tr.Err
		return o
	}
	o.Script = tr.Script
	got := runBox(tr.Script)
	o.Got = got
	if got.Runaway != "" {
		o.Symptom, o.Detail = "runaway", got.Runaway
		return o
	}
	gotLogs := map[string]string{}
	for n, s := range got.Files {
		if strings.HasPrefix(n, "log/") && n != "log/.keep" {
			gotLogs[n] = s
		}
	}
	if w, ok := parseLog(gotLogs["log/p1"]); ok {
		o.Words = w
	}
	// 1. arguments
	for _, n := range drive.SortedKeys(wantLog) {
		g, ok := gotLogs[n]
		if ok && g == wantLog[n] {
			continue
		}
		stage := strings.TrimPrefix(n, "log/")
		switch w, wellFormed := parseLog(g); {
		case !ok:
			o.Symptom, o.Detail = "not-run", stage+" was never started (no argv record)"
		case !wellFormed:
			o.Symptom, o.Detail = "run-count", fmt.Sprintf("%s was started %d times", stage, strings.Count(g, "\n"))
		default:
			want, _ := parseLog(wantLog[n])
			switch {
			case len(w) == 0 && len(want) > 0:
				o.Symptom = "vanished"
			case len(w) < len(want):
				o.Symptom = "fewer-args"
			case len(w) > len(want):
				o.Symptom = "split"
			default:
				o.Symptom = "value"
			}
			o.Detail = fmt.Sprintf("%s received %d argument(s) %q, the call gives %d: %q", stage, len(w), w, len(want), want)
		}
		return o
	}
	for n := range gotLogs {
		if _, ok := wantLog[n]; !ok {
			o.Symptom, o.Detail = "extra-run", n+" was started although it is not in the chain"
			return o
		}
	}
	// 2. data and status
	switch {
	case got.Stdout != wantOut:
		o.Symptom, o.Detail = "stdout", diffHint(wantOut, got.Stdout)
		if c.Mode == "captured" && c.Targets == "" {
			wl, gl := strings.Split(wantOut, "\n"), strings.Split(got.Stdout, "\n")
			if len(wl) == len(gl) && len(wl) >= 3 {
				same := true
				for i := range wl {
					if i != len(wl)-3 && wl[i] != gl[i] {
						same = false
					}
				}
				if same {
					o.Symptom, o.Detail = "code", fmt.Sprintf("captured status: want %s got %s", wl[len(wl)-3], gl[len(gl)-3])
				}
			}
		}
	case got.Stderr != "":
		o.Symptom, o.Detail = "stderr", firstLine(got.Stderr)
	case got.Exit != 0:
		o.Symptom, o.Detail = "exit", fmt.Sprintf("script exit status %d", got.Exit)
	}
	o.WordOK = o.Symptom == ""
	return o
}

// wordLevel reports whether a failing single-argument observation is confined to
// the argument words: the probe ran exactly once, everything else is as modelled
// for the words it received (so the cell's effect can be composed into longer lists).
func wordLevel(c Case, o obs) bool {
	if o.Words == nil || o.Got.Stderr != "" || o.Got.Exit != 0 {
		return false
	}
	// stdout must be what the model gives (argument values do not influence it here)
	return o.Got.Stdout == o.WantOut
}

// runBox runs an emitted script in a sandbox holding the probes. The probes are
// written by the (multi-threaded) harness just before bash executes them; a
// concurrent fork in another worker can still hold the write descriptor for a
// moment, in which case the kernel refuses the exec with ETXTBSY. That is an
// artefact of the harness, not an observation: such a run is repeated.
func runBox(script string) drive.RunResult {
	var got drive.RunResult
	for try := 0; try < 50; try++ {
		got = drive.RunBash(script, drive.RunOpts{Files: boxFiles(), KeepFiles: true, OutputCap: 64 << 10})
		if strings.Contains(got.Stderr, "Text file busy") {
			time.Sleep(time.Duration(try+1) * time.Millisecond)
			continue
		}
		if got.Runaway != "" && got.Runaway != "output-cap" && try == 0 {
			continue // a killed run is repeated once alone before it is believed
		}
		return got
	}
	harnessError("sandbox cannot execute the probe (ETXTBSY persists): %s", got.Stderr)
	return got
}

func firstLine(s string) string {
	if i := strings.IndexByte(s, '\n'); i >= 0 {
		s = s[:i]
	}
	if len(s) > 300 {
		s = s[:300]
	}
	return s
}

func diffHint(want, got string) string {
	wl, gl := strings.Split(want, "\n"), strings.Split(got, "\n")
	for i := 0; i < len(wl) || i < len(gl); i++ {
		w, g := "<eof>", "<eof>"
		if i < len(wl) {
			w = wl[i]
		}
		if i < len(gl) {
			g = gl[i]
		}
		if w != g {
			return fmt.Sprintf("line %d: want %q got %q", i+1, w, g)
		}
	}
	return "identical?"
}

func harnessError(format string, a ...interface{}) {
	fmt.Fprintf(os.Stderr, "HARNESS ERROR: "+format+"\n", a...)
	drive.Cleanup()
	os.Exit(2)
}

func confirm(c Case, first obs) {
	for k := 0; k < 2; k++ {
		again := judge(c)
		same := again.Symptom == first.Symptom
		if same && first.Symptom != "runaway" {
			same = again.Got.Stdout == first.Got.Stdout && again.Got.Exit == first.Got.Exit && fmt.Sprint(again.Got.Files) == fmt.Sprint(first.Got.Files)
		}
		if !same {
			harnessError("replay of a failing case did not reproduce: %s\nfirst: %s %s (stderr %q)\nagain: %s %s (stderr %q)", c, first.Symptom, first.Detail, first.Got.Stderr, again.Symptom, again.Detail, again.Got.Stderr)
		}
	}
}

// upstream runs the witness program for a computed argument: is the value
// already different from the intended string before it reaches the command call?
func upstream(a Arg) bool {
	var pre []string
	needID := false
	e := exprOf(a, "v", &pre, &needID)
	var sb strings.Builder
	if needID {
		sb.WriteString("func id(s string) string {\n\treturn s\n}\n\n")
	}
	for _, p := range pre {
		sb.WriteString(p + "\n")
	}
	if a.Origin == "capture" {
		sb.WriteString("w, we, wc := " + e + "\nprint(\"[\", w, \"]\")\n")
	} else {
		sb.WriteString("w := " + e + "\nprint(\"[\", w, \"]\")\n")
	}
	tr := drive.TranspileSrc(sb.String(), drive.Bash)
	if !tr.OK() {
		return true
	}
	got := runBox(tr.Script)
	return got.Stdout != "[ "+a.Value+" ]\n" || got.Stderr != "" || got.Exit != 0
}

func replay(c Case, o obs) func() findings.Replay {
	return func() findings.Replay {
		files := map[string]string{
			"src/main.tsh":        o.Src,
			"expected_stdout.txt": o.WantOut,
			"actual_stdout.txt":   o.Got.Stdout,
			"stderr.txt":          o.Got.Stderr,
			"script.sh":           o.Script,
			"detail.txt":          c.String() + "\n" + o.Symptom + ": " + o.Detail + "\n",
		}
		for n, s := range boxFiles() {
			files["box/"+n] = s
		}
		for n, s := range o.WantLog {
			files["expected_"+n] = s
		}
		return findings.Replay{Files: files, Script: `set -u
T=$(mktemp -d); trap 'rm -rf "$T"' EXIT
(cd /repo && GOFLAGS=-mod=mod GOPROXY=off GOSUMDB=off GOTOOLCHAIN=local go build -o "$T/tsh" . ) && cp -r /repo/std "$T/std" || exit 2
mkdir -p "$T/out" "$T/box"; cp -r src "$T/srcdir"; cp -r box/. "$T/box/"; chmod +x "$T/box/p1" "$T/box/p2" "$T/box/p3"
"$T/tsh" -i "$T/srcdir/main.tsh" -o "$T/out" -t bash || { echo "REPLAY: transpilation failed"; exit 1; }
( cd "$T/box" && env -i /bin/bash "$T/out/main.sh" < /dev/null > "$T/stdout.txt" 2> "$T/stderr.txt" )
bad=0
diff expected_stdout.txt "$T/stdout.txt" || bad=1
for f in expected_log/*; do n=$(basename "$f"); echo "--- argv record of $n (hex; < the call's arguments, > what the probe received)"; diff "$f" "$T/box/log/$n" || bad=1; done
[ -s "$T/stderr.txt" ] && { echo "--- stderr"; cat "$T/stderr.txt"; bad=1; }
if [ $bad = 0 ]; then echo "REPLAY: no longer reproduces"; exit 0; else echo "REPLAY: reproduced"; exit 1; fi`}
	}
}

// ---------------------------------------------------------------------------
// enumeration

func lit(name string) Arg { return Arg{Name: name, Value: argValue[name], Origin: "literal"} }

func aux(v string) Arg { return Arg{Value: v, Origin: "literal"} }

func listsOver(names []string, minLen, maxLen int) [][]string {
	var out [][]string
	level := [][]string{{}}
	for l := 0; l <= maxLen; l++ {
		if l >= minLen {
			out = append(out, level...)
		}
		var next [][]string
		for _, p := range level {
			for _, n := range names {
				next = append(next, append(append([]string{}, p...), n))
			}
		}
		level = next
	}
	return out
}

func originVectors(n int, os []string) [][]string { return listsOver(os, n, n) }

var modes = []string{"uncaptured", "captured"}

func argCases(thorough bool) []Case {
	var out []Case
	seen := map[string]bool{}
	add := func(names, orgs []string, mode string) {
		var st []Arg
		for i, n := range names {
			st = append(st, Arg{Name: n, Value: argValue[n], Origin: orgs[i]})
		}
		c := Case{Kind: "args", Stages: [][]Arg{st}, Mode: mode}
		if !seen[c.String()] {
			seen[c.String()] = true
			out = append(out, c)
		}
	}
	maxA := 2
	if thorough {
		maxA = 3
	}
	for _, m := range modes {
		// (A) all literal lists up to the tier's length
		for _, l := range listsOver(argNames, 0, maxA) {
			add(l, originVectors(len(l), []string{"literal"})[0], m)
		}
		// (B) every origin vector for lists of length 1 and 2; length 3 (thorough) over literal/var
		for _, l := range listsOver(argNames, 1, 2) {
			for _, ov := range originVectors(len(l), origins) {
				add(l, ov, m)
			}
		}
		if thorough {
			for _, l := range listsOver(argNames, 3, 3) {
				for _, ov := range originVectors(3, []string{"literal", "var"}) {
					add(l, ov, m)
				}
			}
		}
		// (B') the same kind of lists as the SECOND command call of the program (Warm): length 2 with every origin
		// vector, length 3 over the origins that evaluate something (call, capture) and literals
		addWarm := func(names, orgs []string) {
			var st []Arg
			for i, n := range names {
				st = append(st, Arg{Name: n, Value: argValue[n], Origin: orgs[i]})
			}
			c := Case{Kind: "args", Stages: [][]Arg{st}, Mode: m, Warm: true}
			if !seen[c.String()] {
				seen[c.String()] = true
				out = append(out, c)
			}
		}
		for _, l := range listsOver([]string{"a", "b_c", "star"}, 2, 2) {
			for _, ov := range originVectors(2, origins) {
				addWarm(l, ov)
			}
		}
		for _, l := range listsOver([]string{"a", "b__c"}, 3, 3) {
			for _, ov := range originVectors(3, []string{"literal", "call", "capture"}) {
				addWarm(l, ov)
			}
		}
		// (C) long lists over 4 of the strings
		four := []string{"a", "empty", "b_c", "star"}
		for _, l := range listsOver(four, 4, 5) {
			if m == "captured" && !thorough && len(l) == 5 {
				continue
			}
			for _, o := range []string{"literal", "var"} {
				ov := make([]string, len(l))
				for i := range ov {
					ov[i] = o
				}
				add(l, ov, m)
			}
		}
	}
	return out
}

func pipelineCases(thorough bool) []Case {
	statuses := []int{0, 1, 2, 37, 126, 127, 128, 255}
	if thorough {
		statuses = nil
		for i := 0; i < 256; i++ {
			statuses = append(statuses, i)
		}
	}
	pats := map[string][]Arg{
		"none": nil,
		"one":  {lit("a")},
		"two":  {{Name: "b_c", Value: "b c", Origin: "var"}, lit("dashn")},
	}
	var out []Case
	mk := func(L int, pn, tail string, pr []int, last int, m string) ([][]Arg, string) {
		var stages [][]Arg
		for s := 0; s < L; s++ {
			st := last
			if s < L-1 {
				st = pr[s]
			}
			as := []Arg{aux(fmt.Sprintf("exit:%d", st))}
			if tail != "one" {
				as = append(as, aux("tail:"+tail))
			}
			as = append(as, pats[pn]...)
			stages = append(stages, as)
		}
		coord := fmt.Sprintf("pipeline=%d argpat=%s tail=%s prior=%s status=%d mode=%s", L, pn, tail, strings.Trim(strings.ReplaceAll(fmt.Sprint(pr), " ", ","), "[]"), last, m)
		return stages, coord
	}
	for L := 1; L <= 3; L++ {
		priors := [][]int{{}}
		for i := 1; i < L; i++ {
			var nx [][]int
			for _, p := range priors {
				for _, s := range []int{0, 3} {
					nx = append(nx, append(append([]int{}, p...), s))
				}
			}
			priors = nx
		}
		for _, pn := range []string{"none", "one", "two"} {
			for _, tail := range []string{"one", "none", "mute"} {
				for _, pr := range priors {
					for _, last := range statuses {
						if tail == "mute" && last != 0 && last != 37 {
							continue // a program without output of its own: two statuses
						}
						for _, m := range modes {
							if m == "uncaptured" && last != 0 && last != 37 {
								continue // the status of an uncaptured chain is not observable
							}
							stages, coord := mk(L, pn, tail, pr, last, m)
							out = append(out, Case{Kind: "pipeline", Stages: stages, Mode: m, Coord: coord})
							// the same chain inside a function body (locals, helper variables and $? behave differently there)
							out = append(out, Case{Kind: "pipeline", Stages: stages, Mode: m, Coord: coord + " ctx=function", InFunc: true})
						}
					}
				}
			}
		}
	}
	// (E) the target vector of a capturing definition / assignment: each of the three targets named or the blank
	// name, in the := form, the var form and (where the blank name can be typed: it is an ordinary string variable)
	// as an assignment to existing variables, at top level and inside a function, crossed with chain length x
	// argument pattern x trailing newline x status of the first / the last stage
	tStatuses := []int{0, 37}
	if thorough {
		tStatuses = []int{0, 1, 2, 37, 126, 127, 128, 255}
	}
	for _, tv := range targetVectors() {
		for L := 1; L <= 3; L++ {
			priors := [][]int{make([]int, L-1)}
			if L > 1 {
				p := make([]int, L-1)
				p[0] = 3
				priors = append(priors, p)
			}
			for _, pn := range []string{"none", "one", "two"} {
				for _, tail := range []string{"one", "none"} {
					for _, pr := range priors {
						for _, last := range tStatuses {
							stages, coord := mk(L, pn, tail, pr, last, "captured")
							c := Case{Kind: "pipeline", Stages: stages, Mode: "captured", Targets: tv[0], Form: tv[1]}
							c.Coord = coord + c.targetKey()
							out = append(out, c)
							c.InFunc = true
							c.Coord = coord + " ctx=function" + c.targetKey()
							out = append(out, c)
						}
					}
				}
			}
		}
	}
	// chains of four and five stages (beyond the property's stated 1..3: every stage must still be there, in order)
	for L := 4; L <= 5; L++ {
		for _, mid := range []int{0, 3} {
			for _, last := range []int{0, 37} {
				for _, m := range modes {
					var stages [][]Arg
					pr := make([]int, L-1)
					pr[L/2] = mid
					for s := 0; s < L; s++ {
						st := last
						if s < L-1 {
							st = pr[s]
						}
						stages = append(stages, []Arg{aux(fmt.Sprintf("exit:%d", st)), lit("a")})
					}
					coord := fmt.Sprintf("pipeline=%d argpat=one tail=one prior=%s status=%d mode=%s", L, strings.Trim(strings.ReplaceAll(fmt.Sprint(pr), " ", ","), "[]"), last, m)
					out = append(out, Case{Kind: "pipeline", Stages: stages, Mode: m, Coord: coord})
					out = append(out, Case{Kind: "pipeline", Stages: stages, Mode: m, Coord: coord + " ctx=function", InFunc: true})
				}
			}
		}
	}
	// (T) evaluation of the arguments across the stages of a chain: chains of 1..3 stages with one or two arguments
	// per stage, every vector over {literal, traced} with at least two traced arguments (each traced argument
	// reports its evaluation on standard output; the values differ, so the order is visible)
	vals := []string{"a", "B7", "c3", "d", "e5", "f"}
	for L := 1; L <= 3; L++ {
		for k := 1; k <= 2; k++ {
			slots := L * k
			for v := 0; v < 1<<slots; v++ {
				if popcount(v) < 2 {
					continue
				}
				for _, m := range modes {
					var stages [][]Arg
					for si := 0; si < L; si++ {
						st := []Arg{aux("exit:0")}
						for ai := 0; ai < k; ai++ {
							sl := si*k + ai
							o := "literal"
							if v&(1<<sl) != 0 {
								o = "traced"
							}
							st = append(st, Arg{Name: vals[sl], Value: vals[sl], Origin: o})
						}
						stages = append(stages, st)
					}
					coord := fmt.Sprintf("traced-arguments pipeline=%d args-per-stage=%d traced-mask=%d mode=%s", L, k, v, m)
					out = append(out, Case{Kind: "pipeline", Stages: stages, Mode: m, Coord: coord})
					if L*k <= 4 {
						out = append(out, Case{Kind: "pipeline", Stages: stages, Mode: m, Coord: coord + " ctx=function", InFunc: true})
					}
				}
			}
		}
	}
	return out
}

func popcount(x int) int {
	n := 0
	for ; x != 0; x &= x - 1 {
		n++
	}
	return n
}

// targetVectors lists (targets, form) for every vector over {named, blank}^3 in the := and var forms and, for the
// vectors whose blank positions are strings, as an assignment; the base form (o, e, c :=) is not repeated.
func targetVectors() [][2]string {
	var out [][2]string
	for m := 0; m < 8; m++ {
		names := []string{"o", "e", "c"}
		for i := range names {
			if m&(1<<i) != 0 {
				names[i] = "_"
			}
		}
		t := strings.Join(names, ",")
		if m != 0 {
			out = append(out, [2]string{t, ""})
		}
		out = append(out, [2]string{t, "var"})
		if names[2] != "_" {
			out = append(out, [2]string{t, "assign"})
		}
	}
	return out
}

// ---------------------------------------------------------------------------

type cellInfo struct {
	symptom string
	words   []string // what the probe received for the single argument
	level   string   // word | command
	o       obs
	c       Case
}

// Run is the check's entry point.
func Run() int {
	r := findings.New("C18")
	defer drive.Cleanup()
	deadline := r.Deadline(6*time.Minute, 40*time.Minute)
	r.Set("exhaustive", true)

	// the probe must work with builtins only in an empty environment
	{
		got := runBox("#!/bin/bash\n./p1 'exit:7' 'b c' '' '*' | ./p2 'tail:none'\necho \"st=$?\"\n")
		want := "p2(p1.)\np2.st=0\n"
		if got.Stdout != want || got.Stderr != "" || got.Files["log/p1"] != logLine([]string{"exit:7", "b c", "", "*"}) || got.Files["log/p2"] != logLine([]string{"tail:none"}) {
			harnessError("the probe does not behave as modelled in the sandbox: stdout %q stderr %q files %v", got.Stdout, got.Stderr, got.Files)
		}
	}

	args := argCases(r.Thorough())
	pipes := pipelineCases(r.Thorough())
	distinct := findings.NewDistinct()
	outcomes := findings.NewDistinct()
	var mu sync.Mutex
	capped := false
	capReason := "sweep stopped at the internal deadline"
	evals, skippedAmbiguous := 0, 0
	symptomHist := map[string]int{}
	statusSeen := map[int]bool{}

	// ---- Batch phase (in-process under the cmd.exe model; a few seconds)
	bEvals, bDistinct, bCapped := runBatchPhase(r, func() bool { return time.Now().After(deadline) })
	evals += bEvals
	if bCapped {
		capped = true
	}

	if os.Getenv("VERIF_C18_PHASE") == "batch" {
		// development aid: the Batch phase alone (the run is then NOT exhaustive and says so)
		args, pipes = nil, nil
		capped = true
		capReason = "development switch VERIF_C18_PHASE=batch: the Bash phases were not run"
	}

	// ---- phase 1: single-argument cells (the table)
	cells := map[string]*cellInfo{} // "name:origin:mode" -> failing cell
	var singles, lists []Case
	for _, c := range args {
		if len(c.Stages[0]) == 1 {
			singles = append(singles, c)
		} else {
			lists = append(lists, c)
		}
	}
	drive.Par(len(singles), func(i int) {
		c := singles[i]
		distinct.Add(c.String())
		o := judge(c)
		outcomes.Add(o.WantOut + fmt.Sprint(o.WantLog))
		mu.Lock()
		evals++
		symptomHist["args:"+o.Symptom]++
		mu.Unlock()
		if o.Symptom == "" {
			return
		}
		confirm(c, o)
		a := c.Stages[0][0]
		ci := &cellInfo{symptom: o.Symptom, words: o.Words, level: "command", o: o, c: c}
		if wordLevel(c, o) {
			ci.level = "word"
		}
		if a.Origin != "literal" && upstream(a) {
			ci.symptom = "upstream-value"
		}
		mu.Lock()
		cells[a.Name+":"+a.Origin+":"+c.Mode] = ci
		mu.Unlock()
	})
	for _, k := range drive.SortedKeys(cells) {
		ci := cells[k]
		a := ci.c.Stages[0][0]
		note := ""
		if ci.symptom == "upstream-value" {
			note = "; the value is already different from the intended string before the command call (a witness program that assigns the same expression and prints it shows it): the literal/assignment/function-argument path of the Bash back-end (property C08) corrupts it, the command-call path then passes that value on"
		}
		r.Fail(fmt.Sprintf("arg=%s origin=%s mode=%s symptom=%s", a.Name, a.Origin, ci.c.Mode, ci.symptom),
			fmt.Sprintf("@\"./p1\"(x) with x = %s given as %s, %s: %s%s", tsQuote(a.Value), a.Origin, ci.c.Mode, ci.o.Detail, note), replay(ci.c, ci.o))
	}

	// ---- phase 1b: every passing captured cell under every other target vector (:= form)
	targetRuns, targetRejected, targetSkippedOnFailingCell := 0, 0, 0
	var tcells []Case
	for _, c := range singles {
		if c.Mode != "captured" {
			continue
		}
		a := c.Stages[0][0]
		if _, bad := cells[a.Name+":"+a.Origin+":"+c.Mode]; bad {
			targetSkippedOnFailingCell += 7
			continue
		}
		for _, tv := range targetVectors() {
			if tv[1] == "" {
				tc := c
				tc.Targets = tv[0]
				tcells = append(tcells, tc)
			}
		}
	}
	drive.Par(len(tcells), func(i int) {
		c := tcells[i]
		distinct.Add(c.String())
		o := judge(c)
		outcomes.Add(o.WantOut + fmt.Sprint(o.WantLog))
		mu.Lock()
		evals++
		targetRuns++
		symptomHist["targets:"+o.Symptom]++
		if o.Symptom == "rejected" {
			targetRejected++
		}
		mu.Unlock()
		if o.Symptom == "" || o.Symptom == "rejected" {
			return // whether a target vector is accepted is not a clause of this property
		}
		confirm(c, o)
		a := c.Stages[0][0]
		r.Fail(fmt.Sprintf("arg=%s origin=%s mode=%s%s symptom=%s", a.Name, a.Origin, c.Mode, c.targetKey(), o.Symptom),
			fmt.Sprintf("%s: %s", c, o.Detail), replay(c, o))
	})

	// ---- phase 2: longer lists, explained compositionally by the cells or reported on their own
	explainedExact, explainedCommand, unexplained, badCellPassing := 0, 0, 0, 0
	var passingExamples []string
	drive.Par(len(lists), func(i int) {
		if time.Now().After(deadline) {
			mu.Lock()
			capped = true
			mu.Unlock()
			return
		}
		c := lists[i]
		distinct.Add(c.String())
		o := judge(c)
		outcomes.Add(o.WantOut + fmt.Sprint(o.WantLog))
		var bad []*cellInfo
		command := false
		var predicted []string
		for _, a := range c.Stages[0] {
			if ci, ok := cells[a.Name+":"+a.Origin+":"+c.Mode]; ok {
				bad = append(bad, ci)
				if ci.level == "command" {
					command = true
				}
				predicted = append(predicted, ci.words...)
			} else {
				predicted = append(predicted, a.Value)
			}
		}
		mu.Lock()
		evals++
		symptomHist["args:"+o.Symptom]++
		mu.Unlock()
		if i%397 == 0 {
			r.Sample(map[string]string{"kind": "argument-list", "case": c.String(), "source": c.source(), "symptom": o.Symptom})
		}
		if o.Symptom == "" {
			if len(bad) > 0 {
				mu.Lock()
				badCellPassing++
				if len(passingExamples) < 10 {
					passingExamples = append(passingExamples, c.String())
				}
				mu.Unlock()
			}
			return
		}
		switch {
		case len(bad) > 0 && !command:
			// word-level cells: the probe must have received exactly the composition
			if o.Words != nil && fmt.Sprintf("%q", o.Words) == fmt.Sprintf("%q", predicted) && o.Got.Stderr == "" && o.Got.Exit == 0 && o.Got.Stdout == o.WantOut {
				mu.Lock()
				explainedExact++
				mu.Unlock()
				return
			}
		case len(bad) > 0:
			// a command-level cell (the command line itself is cut or continued): no composition rule
			mu.Lock()
			explainedCommand++
			mu.Unlock()
			return
		}
		confirm(c, o)
		mu.Lock()
		unexplained++
		mu.Unlock()
		wk := ""
		if c.Warm {
			wk = " after-another-call"
		}
		r.Fail(fmt.Sprintf("args=[%s] mode=%s%s symptom=%s", strings.Join(c.cells(), ","), c.Mode, wk, o.Symptom),
			fmt.Sprintf("%s: %s (not the composition of the single-argument findings; predicted words %q)", c, o.Detail, predicted), replay(c, o))
	})

	// ---- phase 3: pipelines, statuses, capture
	pipeFails := map[string]int{}
	drive.Par(len(pipes), func(i int) {
		if time.Now().After(deadline) {
			mu.Lock()
			capped = true
			mu.Unlock()
			return
		}
		c := pipes[i]
		if _, _, skip := c.expect(); skip != "" {
			mu.Lock()
			skippedAmbiguous++
			mu.Unlock()
			return
		}
		distinct.Add(c.Coord)
		o := judge(c)
		outcomes.Add(o.WantOut + fmt.Sprint(o.WantLog))
		mu.Lock()
		evals++
		symptomHist["pipeline:"+o.Symptom]++
		var st int
		fmt.Sscanf(c.Coord[strings.Index(c.Coord, "status=")+7:], "%d", &st)
		statusSeen[st] = true
		if c.targetKey() != "" {
			targetRuns++
			if o.Symptom == "rejected" {
				targetRejected++
			}
		}
		mu.Unlock()
		if i%211 == 0 {
			r.Sample(map[string]string{"kind": "pipeline", "case": c.Coord, "source": c.source(), "expected_stdout": o.WantOut, "symptom": o.Symptom})
		}
		if o.Symptom == "" {
			return
		}
		if c.targetKey() != "" && o.Symptom == "rejected" {
			return // whether a target vector is accepted is not a clause of this property
		}
		confirm(c, o)
		mu.Lock()
		pipeFails[o.Symptom]++
		mu.Unlock()
		r.Fail(c.Coord+" symptom="+o.Symptom, fmt.Sprintf("call chain %s: %s", c.Coord, o.Detail), replay(c, o))
	})

	// ---- evidence
	var table []string
	for _, k := range drive.SortedKeys(cells) {
		ci := cells[k]
		table = append(table, fmt.Sprintf("%s symptom=%s level=%s received=%q", k, ci.symptom, ci.level, ci.words))
	}
	sort.Strings(passingExamples)
	r.Set("evaluations", evals)
	r.Set("distinct_nontrivial", distinct.Len()+bDistinct)
	r.Set("distinct_expected_observations", outcomes.Len())
	r.Set("argument_programs", len(args))
	r.Set("pipeline_programs", len(pipes))
	r.Set("failing_single_argument_cells", table)
	r.Set("cells_total", len(argNames)*len(origins)*len(modes))
	r.Set("lists_failing_exactly_as_composed_from_cells", explainedExact)
	r.Set("lists_failing_with_a_command_level_cell", explainedCommand)
	r.Set("lists_failing_unexplained", unexplained)
	r.Set("lists_passing_although_containing_a_failing_cell", badCellPassing)
	r.Set("lists_passing_although_containing_a_failing_cell_examples", passingExamples)
	r.Set("symptom_histogram", symptomHist)
	r.Set("exit_statuses_exercised", len(statusSeen))
	r.Set("pipeline_failures", pipeFails)
	r.Set("target_vector_programs", targetRuns)
	r.Set("target_vector_programs_rejected_by_the_transpiler_not_judged", targetRejected)
	r.Set("target_vector_cells_not_run_because_the_base_cell_fails", targetSkippedOnFailingCell)
	r.Set("skipped_ambiguous_trailing_newlines", skippedAmbiguous)
	if capped {
		r.Set("exhaustive", false)
		r.Set("cap_hit", capReason)
	}
	r.Set("rule", "a case = one TypeShell program, transpiled by the real transpiler; BASH PHASE (one call chain of probe stages per program, run by the real bash in an empty environment): (A) every literal argument list up to the tier's length over the representative strings, (B) every origin vector over {literal,var,concat,call,capture,concat-var (a literal joined with a variable)} for lists of length 1-2 (length 3 over {literal,var} in thorough), (B') lists of length 2 (every origin vector) and 3 (origins literal/call/capture) as the SECOND command call of the program, after a captured call; (C) every list of length 4-5 over {a, empty, 'b c', *} all-literal and all-variable, each uncaptured and captured; (D) chains of 1..3 stages x argument pattern x last stage's own line with / without line end / absent (a program that prints nothing) x status of earlier stages {0,3} x status of the last stage (tier's set) x captured/uncaptured x top level / function body; (T) chains of 1..3 stages with one or two arguments per stage, every vector over {literal, traced} with at least two traced arguments - a traced argument is the result of a function that reports its evaluation, so the order in which the arguments of all stages are evaluated (source order, all before the chain runs) is part of the expected output; (E) the TARGET VECTOR of a capturing definition: each of the three targets named or the blank name _ (8 vectors) x form {:=, var, assignment to existing variables where _ can be typed} x top level / function body x chain length 1..3 x argument pattern x line end present/absent x first-stage status {0,3} x last status, and every passing captured single-argument cell under the 7 other vectors: captured output is never printed and the named targets hold output and status, whatever the targets are called; BATCH PHASE (the emitted .bat interpreted by verif/cmdmodel, the probe programs installed as its external-program hook; argument alphabet cmd-neutral: letters, digits, a blank inside a literal): (b-A) single-argument cells {a,B7} x 5 origins + 'b c' literal/var, every list of 2 (thorough 3) over the passing cells, (b-D) chains as in (D) with statuses {0,1,3,255} (thorough 0..255), (b-S) TWO and THREE call chains per run: every ordered pair and triple over a 10-site alphabet (output of one line / several / none, status zero / non-zero, captured / uncaptured, quoted and computed arguments, chain length 1-3), (b-L) one site executed 2 and 3 times in a loop and in a function, a function's site with every other site between its two calls, (b-T) the target vectors and forms of (E) on every captured alphabet site alone, repeated in a loop / function and between two other captured calls; distinct by coordinates; every case compares the argv record of every program start, stdout, the captured status, stderr (bash) and the script's exit status with the model of the probe")
	r.Assumef("Batch target: there is no cmd.exe on this machine; the emitted script runs under verif/cmdmodel (rule 12: call PROGRAM, pipes between programs and the capture helper's for /f over cmd /V:ON /C are interpreted from the emitted text for cmd-neutral command lines; the probe programs are a function installed as the model's hook); every run the model refuses is counted by rule in batch_programs_the_cmd_model_refused_by_rule and never judged")
	r.Assumef("whether a capturing definition with a given vector of named / blank targets is ACCEPTED is not a clause of this property: rejected programs of the target-vector families are counted, not reported")
	r.Assumef("the sandbox directory contains the probes p1 p2 p3, a directory log and a one-letter file x, so that unquoted glob characters have something to match")
	r.Assumef("a list that contains failing single-argument cells is attributed to them when the probe received exactly the concatenation of what each cell receives alone (word-level cells) or when one of its cells cuts or continues the command line itself (semicolon, trailing backslash: no composition rule); every other failing list is reported with its full coordinates")
	r.Assumef("a captured output ending in two newlines is not compared ('without its trailing newline' is ambiguous there); such cases are not enumerated")
	return r.Finish()
}

// Development entry point of check C18 (build to /verif/bin/c18-dev).
package main

import (
	"os"

	"verif/c18"
)

func main() {
	if len(os.Args) > 2 && os.Args[1] == "batrun" {
		os.Exit(c18.BatRun(os.Args[2:])) // replay helper: a Batch script under the cmd.exe model with the probes
	}
	os.Exit(c18.Run())
}

// Development entry point of check C18 (build to /verif/bin/c18-dev).
package main

import (
	"os"

	"verif/c18"
)

func main() { os.Exit(c18.Run()) }

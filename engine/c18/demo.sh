#!/bin/bash
# Detection demonstration for C18: the Bash converter is linked into the harness, so each mutant is
# built from a scratch COPY of /repo and of the engine sources (go.mod replace -> the copy); /repo is
# not touched. Known lines: KNOWN_PROPOSED.txt of this package.
#   m1  quote only arguments that contain a blank (variables unquoted) -> reported (b_c/lead/star... origin var/concat/call)
#   m2  join stages with ; instead of |                                 -> reported (pipeline data)
#   m3  another assignment between $( ) and reading $?                  -> reported (captured status)
#   fix always quote every argument (proposed repair of AppCall)        -> 11 of the 34 known cells disappear; NOTE that the
#       repository's own TestStdOsShellSuccess then fails: std/os.tsh relies on "$$" being expanded and on the shell
#       removing literal quote characters, so this repair is not safe on its own
set -e
export GOFLAGS=-mod=mod GOPROXY=off GOSUMDB=off GOTOOLCHAIN=local GOCACHE=/verif/.cache/go-build CGO_ENABLED=0
here="$(cd "$(dirname "$0")" && pwd)"
S=$(mktemp -d /dev/shm/c18demo.XXXXXX); trap 'rm -rf "$S"' EXIT
mkdir -p "$S/xengine"; cp -r /repo "$S/xrepo"; rm -rf "$S/xrepo/.git"
cp -r /verif/engine/go.mod /verif/engine/drive /verif/engine/findings /verif/engine/c18 "$S/xengine/"; cp /repo/go.sum "$S/xengine/go.sum"
sed -i "s#=> /repo#=> $S/xrepo#" "$S/xengine/go.mod"
F="$S/xrepo/converters/bash/converter.go"; cp "$F" "$S/converter.orig.go"
run() { d="$S/run-$1"; mkdir -p "$d/bin/std"; cp "$S/xrepo/std/"*.tsh "$d/bin/std/"; grep -h '^known:' "$here/KNOWN_PROPOSED.txt" > "$d/KNOWN_FINDINGS.txt"
  (cd "$S/xengine" && go build -o "$d/bin/c18-dev" ./c18/cmd)
  ( cd "$d" && st=0; ./bin/c18-dev > out.txt 2> err.txt || st=$?; echo "[$1] exit=$st violations=$(grep -c '^VIOLATION' out.txt) $(tail -1 out.txt)"; grep '^VIOLATION' out.txt | head -2 | cut -c1-260 ); cp "$S/converter.orig.go" "$F"; }
sed -i 's/if strings.HasPrefix(arg, "\$") || len(strings.Split(arg, " ")) > 1 {/if len(strings.Split(arg, " ")) > 1 {/' "$F"; run m1
sed -i 's/callString := strings.Join(callStrings, " | ")/callString := strings.Join(callStrings, " ; ")/' "$F"; run m2
sed -i 's/\t\tc.VarDefinition(helper2, "\$?", false)/\t\tc.VarAssignment("_stderr", "", true)\n\t\tc.VarDefinition(helper2, "$?", false)/' "$F"; run m3
sed -i 's/if strings.HasPrefix(arg, "\$") || len(strings.Split(arg, " ")) > 1 {/if true {/' "$F"; run fix
run base

// Package c19 decides property C19: the tsh command writes exactly the
// library's output for every requested target, or nothing.
//
// The real binary is built from /repo's working tree at check time. Every
// enumerated command line is executed in a fresh scratch tree; the oracle
// looks only at the exit status (zero / non-zero), the content of the output
// directory before and after, and the input file's bytes and mtime. Expected
// bytes come from the library linked into the harness (drive.TranspilePath on
// the same path).
package c19

import (
	"bytes"
	"context"
	"fmt"
	"os"
	"os/exec"
	"path/filepath"
	"sort"
	"strings"
	"sync"
	"sync/atomic"
	"time"

	"verif/corpus"
	"verif/drive"
	"verif/findings"
)

// ---------------------------------------------------------------------------
// the configuration space

var extOf = map[string]string{"bash": "sh", "batch": "bat"}

// program classes
type progClass struct {
	Name   string
	Main   string            // source of F ("" with Kind != file)
	Extra  map[string]string // files next to F
	Kind   string            // file | missing | dir
	Reject bool              // the library is expected to reject it (checked at start)
	Mixed  bool              // the library's verdict differs per target (no class-level expectation)
	Link   bool              // F is a symbolic link: its target has another name and lies in another directory, next to another helper.tsh
}

var programs = []progClass{
	// small, but uses whatever a transpiler object could number, buffer or cache across targets: a simultaneous
	// assignment, a loop, a branch chain, a slice literal and growth, a function with two results, a substring,
	// literals with ! ^ and a newline
	{Name: "ok-small", Kind: "file", Main: "func swap(a int, b int) (int, int) {\n\treturn b, a\n}\nx := 1 + 2\ny := 5\nx, y = y, x\nxs := []int{1, 2}\nxs[3] = x\nfor i := 0; i < 2; i++ {\n\tif i == 1 {\n\t\ty += i\n\t} else if i == 0 {\n\t\tx += i\n\t}\n}\np, q := swap(x, y)\ns := \"Hi! a^b\"\nprint(s, s[0:2], len(xs), p, q, \"two\\nlines\")\n"},
	{Name: "ok-import", Kind: "file", Main: "import (\n\thp \"helper.tsh\"\n\t\"strings\"\n)\n\nprint(hp.Twice(\"ab\"))\nprint(strings.Contains(\"hello\", \"ell\"))\n",
		Extra: map[string]string{"helper.tsh": "func Twice(s string) string {\n\treturn s + s\n}\n"}},
	// F is a symbolic link to ../impl/main_v2.tsh; F's directory and the target's directory both hold a helper.tsh
	// (different ones). What the library returns for F (the path given) is the reference, as always.
	{Name: "ok-symlink", Kind: "file", Link: true, Main: "import hp \"helper.tsh\"\n\nprint(hp.Who(), 1 + 2)\n",
		Extra: map[string]string{"helper.tsh": "func Who() string {\n\treturn \"the helper next to F\"\n}\n"}},
	{Name: "lexical-error", Kind: "file", Main: "x := \"abc\nprint(x)\n", Reject: true},
	{Name: "syntax-error", Kind: "file", Main: "x := (1 +\nprint(x)\n", Reject: true},
	{Name: "type-error", Kind: "file", Main: "var x int = \"s\"\nprint(x)\n", Reject: true},
	{Name: "conversion-error", Kind: "file", Main: "b := \"a\" < \"b\"\nprint(b)\n", Reject: true},
	// accepted by the Bash converter, rejected by the Batch converter: a failing target next to a succeeding one
	{Name: "one-target-error", Kind: "file", Main: "x := 1\nswitch x {\ndefault:\n\tbreak\n}\nprint(x)\n", Mixed: true},
	{Name: "input-missing", Kind: "missing", Reject: true},
	{Name: "input-is-dir", Kind: "dir", Reject: true},
}

var fileNames = []string{"p.tsh", "a.b.c.tsh", "noext", "with blank.tsh", "UPPER.TSH", "tests.tsh", "hash.tsh", "dot..tsh", "50%off.tsh", "100%s.tsh"}

// names that begin or end with white space (family G)
var blankNames = []string{" lead.tsh", "trail.tsh ", "noext ", "\ttab.tsh", " both .tsh "}

// baseOf is "F minus its last extension", written independently of tsh.go.
func baseOf(f string) string {
	if i := strings.LastIndexByte(f, '.'); i >= 0 {
		return f[:i]
	}
	return f
}

// Config is one command line plus the tree it runs in.
type Config struct {
	Targets []string // requested targets in order ("bash"/"batch", or an unknown name in bad sets)
	Order   string   // arrangement of the pairs, e.g. "I,O,T,T" (T = next target in sequence)
	Spell   string   // per pair in Order: s(hort) or l(ong), e.g. "s,l,s,s"
	File    string
	Prog    string
	Dir     string   // empty | sentinel
	Form    string   // abs | rel | rel-out-named (cwd = parent, -o <OutName>) | rel-in-cwd (cwd = input directory, -i <bare file name>)
	OutName string   // name of the output directory ("" = out)
	Fault   string   // "" | outfile-is-dir:<ext>
	Race    int      // > 0: run number of the free-running pass under Go's race detector (family R)
	Bad     string   // "" or the name of a bad option set
	Raw     []string // bad option sets: argument template with {F} and {D}
}

func (c Config) String() string {
	s := fmt.Sprintf("targets=%s order=%s spell=%s file=%q prog=%s dir=%s form=%s", strings.Join(c.Targets, ","), c.Order, c.Spell, c.File, c.Prog, c.Dir, c.Form)
	if c.Fault != "" {
		s += " fault=" + c.Fault
	}
	if c.Race > 0 {
		s += fmt.Sprintf(" race-detector-run=%d", c.Race)
	}
	if c.OutName != "" {
		s += " outdir=" + c.OutName
	}
	if c.Bad != "" {
		s += " bad=" + c.Bad + " args=" + strings.Join(c.Raw, "␣")
	}
	return s
}

// argv builds the command line; fp and dp are the paths given for F and D.
func (c Config) argv(fp, dp string) []string {
	if c.Raw != nil {
		out := make([]string, len(c.Raw))
		for i, a := range c.Raw {
			a = strings.ReplaceAll(a, "{F}", fp)
			a = strings.ReplaceAll(a, "{D}", dp)
			out[i] = a
		}
		return out
	}
	var out []string
	ord := strings.Split(c.Order, ",")
	sp := strings.Split(c.Spell, ",")
	ti := 0
	for i, o := range ord {
		long := sp[i] == "l"
		switch o {
		case "I":
			if long {
				out = append(out, "--in", fp)
			} else {
				out = append(out, "-i", fp)
			}
		case "O":
			if long {
				out = append(out, "--out", dp)
			} else {
				out = append(out, "-o", dp)
			}
		case "T":
			if long {
				out = append(out, "--type", c.Targets[ti])
			} else {
				out = append(out, "-t", c.Targets[ti])
			}
			ti++
		}
	}
	return out
}

func targetSeqs(maxLen int) [][]string {
	out := [][]string{}
	level := [][]string{{}}
	for l := 1; l <= maxLen; l++ {
		var next [][]string
		for _, p := range level {
			for _, t := range []string{"bash", "batch"} {
				next = append(next, append(append([]string{}, p...), t))
			}
		}
		out = append(out, next...)
		level = next
	}
	return out
}

// orders returns every arrangement of I, O and k T's (targets keep their order).
func orders(k int) []string {
	n := k + 2
	var out []string
	for i := 0; i < n; i++ {
		for o := 0; o < n; o++ {
			if i == o {
				continue
			}
			s := make([]string, n)
			for j := range s {
				s[j] = "T"
			}
			s[i], s[o] = "I", "O"
			out = append(out, strings.Join(s, ","))
		}
	}
	sort.Strings(out)
	return out
}

func spellings(n int, all bool) []string {
	mk := func(f func(i int) bool) string {
		s := make([]string, n)
		for i := range s {
			s[i] = "s"
			if f(i) {
				s[i] = "l"
			}
		}
		return strings.Join(s, ",")
	}
	if all {
		var out []string
		for m := 0; m < 1<<n; m++ {
			out = append(out, mk(func(i int) bool { return m>>i&1 == 1 }))
		}
		return out
	}
	seen := map[string]bool{}
	var out []string
	for _, s := range []string{
		mk(func(int) bool { return false }), mk(func(int) bool { return true }),
		mk(func(i int) bool { return i%2 == 0 }), mk(func(i int) bool { return i%2 == 1 }),
	} {
		if !seen[s] {
			seen[s] = true
			out = append(out, s)
		}
	}
	return out
}

func shortSpell(n int) string { return spellings(n, false)[0] }

func canonOrder(k int) string { return "I,O" + strings.Repeat(",T", k) }

func enumerate(thorough bool) []Config {
	var out []Config
	maxT := 3
	// (A) option order x spelling x target sequence x D, base file and both accepted programs
	for _, ts := range targetSeqs(maxT) {
		for _, ord := range orders(len(ts)) {
			for _, sp := range spellings(len(ts)+2, thorough) {
				for _, d := range []string{"empty", "sentinel"} {
					progs := []string{"ok-small"}
					if thorough {
						progs = []string{"ok-small", "type-error"}
						// the program importing std/strings costs ~0.1 s per transpilation: representative spellings only
						for _, rs := range spellings(len(ts)+2, false) {
							if rs == sp {
								progs = append(progs, "ok-import")
							}
						}
					}
					for _, p := range progs {
						out = append(out, Config{Targets: ts, Order: ord, Spell: sp, File: "p.tsh", Prog: p, Dir: d, Form: "abs"})
					}
				}
			}
		}
	}
	// (B) file name x program x D x target sequence x path form; canonical and two rotated orders
	seqB := targetSeqs(maxT)
	if thorough {
		seqB = targetSeqs(4)
	}
	for _, f := range fileNames {
		for _, p := range programs {
			for _, d := range []string{"empty", "sentinel"} {
				for _, ts := range seqB {
					k := len(ts)
					ords := []string{canonOrder(k), strings.Repeat("T,", k) + "I,O", "O," + strings.Repeat("T,", k) + "I"}
					if thorough && k <= 2 {
						ords = orders(k)
					}
					for _, ord := range ords {
						for _, form := range []string{"abs", "rel"} {
							if ord != canonOrder(k) && form == "rel" && !thorough {
								continue
							}
							out = append(out, Config{Targets: ts, Order: ord, Spell: shortSpell(k + 2), File: f, Prog: p.Name, Dir: d, Form: form})
						}
					}
				}
			}
		}
	}
	// (C) bad option sets (base: accepted program p.tsh, one valid target unless stated)
	bad := func(name string, targets []string, raw ...string) {
		for _, d := range []string{"empty", "sentinel"} {
			out = append(out, Config{Targets: targets, Bad: name, Raw: raw, File: "p.tsh", Prog: "ok-small", Dir: d, Form: "abs", Order: "-", Spell: "-"})
		}
	}
	b1 := []string{"bash"}
	bad("no-arguments", nil)
	bad("missing-i", b1, "-o", "{D}", "-t", "bash")
	bad("missing-i", b1, "-t", "bash", "-o", "{D}")
	bad("missing-o", b1, "-i", "{F}", "-t", "bash")
	bad("missing-o", b1, "-t", "bash", "-i", "{F}")
	bad("missing-t", nil, "-i", "{F}", "-o", "{D}")
	bad("missing-t", nil, "-o", "{D}", "-i", "{F}")
	for _, sw := range []string{"-x", "--input", "-I", "t", "--t", "-"} {
		bad("unknown-switch:"+sw+"@first", b1, sw, "v", "-i", "{F}", "-o", "{D}", "-t", "bash")
		bad("unknown-switch:"+sw+"@middle", b1, "-i", "{F}", sw, "v", "-o", "{D}", "-t", "bash")
		bad("unknown-switch:"+sw+"@last", b1, "-i", "{F}", "-o", "{D}", "-t", "bash", sw, "v")
	}
	for _, tg := range []string{"zsh", "BASH", "sh", "", "bash,batch"} {
		bad("unknown-target:"+fmt.Sprintf("%q", tg)+"@only", []string{tg}, "-i", "{F}", "-o", "{D}", "-t", tg)
		bad("unknown-target:"+fmt.Sprintf("%q", tg)+"@after-valid", []string{"bash", tg}, "-i", "{F}", "-o", "{D}", "-t", "bash", "-t", tg)
		bad("unknown-target:"+fmt.Sprintf("%q", tg)+"@before-valid", []string{tg, "bash"}, "-t", tg, "-t", "bash", "-i", "{F}", "-o", "{D}")
	}
	for _, sw := range []string{"-t", "--type", "-i", "--in", "-o", "--out", "-x", "word"} {
		// a trailing switch (or stray word) without a value
		bad("dangling:"+sw+"@last", b1, "-i", "{F}", "-o", "{D}", "-t", "bash", sw)
	}
	bad("dangling:-i@first", b1, "-i", "-o", "{D}", "-t", "bash")
	bad("dangling:-o@middle", b1, "-i", "{F}", "-o", "-t", "bash")
	bad("dangling:-t@middle", b1, "-i", "{F}", "-t", "-o", "{D}")
	bad("stray-word@first", b1, "word", "-i", "{F}", "-o", "{D}", "-t", "bash")
	bad("out-dir-missing", b1, "-i", "{F}", "-o", "{D}/nonexistent", "-t", "bash")
	bad("out-dir-is-file", b1, "-i", "{F}", "-o", "{F}", "-t", "bash")
	// (E) option VALUES that coincide with each other or with a target name: an output directory called bash or
	// batch given relatively, an input file called bash or batch given by its bare name; every option order
	for _, ts := range targetSeqs(2) {
		for _, ord := range orders(len(ts)) {
			for _, d := range []string{"empty", "sentinel"} {
				for _, on := range []string{"bash", "batch"} {
					out = append(out, Config{Targets: ts, Order: ord, Spell: shortSpell(len(ts) + 2), File: "p.tsh", Prog: "ok-small", Dir: d, Form: "rel-out-named", OutName: on})
				}
				for _, f := range []string{"bash", "batch"} {
					out = append(out, Config{Targets: ts, Order: ord, Spell: shortSpell(len(ts) + 2), File: f, Prog: "ok-small", Dir: d, Form: "rel-in-cwd"})
				}
			}
		}
	}
	// (F) every sole-facility program (package corpus) x every target sequence of length <= 2 (3 in thorough):
	// what one target's run leaves in the shared transpiler must not reach the next target's output, whatever
	// single facility the program uses
	for _, p := range corpusProgs {
		seqs := targetSeqs(2)
		if thorough {
			seqs = targetSeqs(3)
		}
		for _, ts := range seqs {
			out = append(out, Config{Targets: ts, Order: canonOrder(len(ts)), Spell: shortSpell(len(ts) + 2), File: "p.tsh", Prog: p.Name, Dir: "empty", Form: "abs"})
		}
	}
	// (G) arguments that begin or end with white space: a file / directory name is the argument byte for byte
	// (a decoy file with the trimmed name, holding another program, lies next to the input), and a padded switch or
	// target name is not a switch / a target
	for _, f := range blankNames {
		for _, ts := range targetSeqs(2) {
			for _, d := range []string{"empty", "sentinel"} {
				for _, form := range []string{"abs", "rel", "rel-in-cwd"} {
					for _, ord := range []string{canonOrder(len(ts)), strings.Repeat("T,", len(ts)) + "I,O"} {
						out = append(out, Config{Targets: ts, Order: ord, Spell: shortSpell(len(ts) + 2), File: f, Prog: "ok-small", Dir: d, Form: form})
					}
				}
			}
		}
	}
	for _, on := range []string{"out ", " out", "out\t", " o ut ", "out%sdir", "100%"} {
		for _, ts := range targetSeqs(2) {
			for _, d := range []string{"empty", "sentinel"} {
				out = append(out, Config{Targets: ts, Order: canonOrder(len(ts)), Spell: shortSpell(len(ts) + 2), File: "p.tsh", Prog: "ok-small", Dir: d, Form: "rel-out-named", OutName: on})
			}
		}
	}
	for _, tg := range []string{"bash ", " bash", "batch\t", " batch "} {
		bad("padded-target:"+fmt.Sprintf("%q", tg)+"@only", []string{tg}, "-i", "{F}", "-o", "{D}", "-t", tg)
		bad("padded-target:"+fmt.Sprintf("%q", tg)+"@after-valid", []string{"bash", tg}, "-i", "{F}", "-o", "{D}", "-t", "bash", "-t", tg)
	}
	for _, sw := range []string{" -i", "-i ", "-o ", " -t", "--in ", "\t--out"} {
		raw := []string{"-i", "{F}", "-o", "{D}", "-t", "bash"}
		for i, a := range raw {
			if a == strings.TrimSpace(sw) || (strings.TrimSpace(sw) == "--in" && a == "-i") || (strings.TrimSpace(sw) == "--out" && a == "-o") {
				raw[i] = sw
			}
		}
		bad("padded-switch:"+fmt.Sprintf("%q", sw), b1, raw...)
	}
	// (R) free-running pass under Go's race detector: the command built with -race, every target sequence up to
	// length 3, two runs each. The command is sequential today; if it ever starts goroutines, an unsynchronised
	// access between them is reported here whatever the schedule of the run happened to be (the detector works on
	// happens-before, not on the interleaving that occurred), besides the usual comparison of the written bytes.
	if tshRaceBin != "" {
		rp := []string{"ok-small", "ok-import"}
		for i, p := range corpusProgs {
			if i%8 == 0 {
				rp = append(rp, p.Name)
			}
		}
		for _, ts := range targetSeqs(3) {
			for _, p := range rp {
				for run := 1; run <= 2; run++ {
					out = append(out, Config{Targets: ts, Order: canonOrder(len(ts)), Spell: shortSpell(len(ts) + 2), File: "p.tsh", Prog: p, Dir: "empty", Form: "abs", Race: run})
				}
			}
		}
	}
	// (D) injected environment fault: the output path of one target is a directory
	for _, ts := range targetSeqs(2) {
		for _, ext := range []string{"sh", "bat"} {
			req := false
			for _, t := range ts {
				if extOf[t] == ext {
					req = true
				}
			}
			if !req {
				continue
			}
			for _, ord := range []string{canonOrder(len(ts)), strings.Repeat("T,", len(ts)) + "I,O"} {
				for _, f := range []string{"p.tsh", "with blank.tsh"} {
					out = append(out, Config{Targets: ts, Order: ord, Spell: shortSpell(len(ts) + 2), File: f, Prog: "ok-small", Dir: "sentinel", Form: "abs", Fault: "outfile-is-dir:" + ext})
				}
			}
		}
	}
	return out
}

// ---------------------------------------------------------------------------
// running one configuration

type entry struct {
	IsDir bool
	Data  string
}

func snapshot(dir string) map[string]entry {
	m := map[string]entry{}
	filepath.Walk(dir, func(p string, info os.FileInfo, err error) error {
		if err != nil || p == dir {
			return nil
		}
		rel, _ := filepath.Rel(dir, p)
		if info.IsDir() {
			m[rel] = entry{IsDir: true}
			return nil
		}
		b, _ := os.ReadFile(p)
		m[rel] = entry{Data: string(b)}
		return nil
	})
	return m
}

var oldTime = time.Date(2001, 2, 3, 4, 5, 6, 0, time.UTC)

type result struct {
	C         Config
	Expect    string // success | fail:<why>
	Symptoms  string // "" = conforms
	Exit      int
	Stderr    string
	Detail    string
	Argv      []string // with the literal placeholders $IN and $OUT for replay
	LibOut    map[string]string
	Files     map[string]string // input tree
	LibNondet bool
}

var tshBin string

// tshRaceBin is the command built with Go's race detector ("" = not available here: family R is skipped and counted)
var tshRaceBin, tshRaceNote string

func buildTshRace() {
	dir := drive.NewDir("tsh-race-")
	bin := filepath.Join(dir, "tsh")
	repo := os.Getenv("VERIF_REPO")
	if repo == "" {
		repo = "/repo"
	}
	cmd := exec.Command("go", "build", "-race", "-o", bin, ".")
	cmd.Dir = repo
	env := []string{}
	for _, e := range goEnv() {
		if e != "CGO_ENABLED=0" {
			env = append(env, e)
		}
	}
	cmd.Env = append(env, "CGO_ENABLED=1")
	if outb, err := cmd.CombinedOutput(); err != nil {
		tshRaceNote = "race-detector build not available: " + firstLine(string(outb)) + " " + err.Error()
		return
	}
	std := filepath.Join(dir, "std")
	os.MkdirAll(std, 0o755)
	ents, _ := filepath.Glob(filepath.Join(repo, "std", "*.tsh"))
	for _, e := range ents {
		b, _ := os.ReadFile(e)
		os.WriteFile(filepath.Join(std, filepath.Base(e)), b, 0o644)
	}
	tshRaceBin = bin
}

// corpusProgs: the sole-facility programs of package corpus (family F). No class-level expectation: whatever the
// library returns for a target is what the command must write for it.
var corpusProgs = func() []progClass {
	var out []progClass
	for _, p := range corpus.Tiny() {
		out = append(out, progClass{Name: "tiny:" + p.Name, Kind: "file", Main: p.Src, Mixed: true})
	}
	return out
}()

func progByName(n string) progClass {
	for _, p := range programs {
		if p.Name == n {
			return p
		}
	}
	for _, p := range corpusProgs {
		if p.Name == n {
			return p
		}
	}
	panic("c19: program " + n)
}

func runConfig(c Config) result {
	res := result{C: c}
	root := drive.NewDir("c19-")
	defer os.RemoveAll(root)
	outName := "out"
	if c.OutName != "" {
		outName = c.OutName
	}
	in, out := filepath.Join(root, "in"), filepath.Join(root, outName)
	os.MkdirAll(in, 0o755)
	os.MkdirAll(out, 0o755)
	pc := progByName(c.Prog)
	fpath := filepath.Join(in, c.File)
	res.Files = map[string]string{}
	switch pc.Kind {
	case "file":
		if pc.Link {
			impl := filepath.Join(root, "impl")
			os.MkdirAll(impl, 0o755)
			os.WriteFile(filepath.Join(impl, "main_v2.tsh"), []byte(pc.Main), 0o644)
			os.WriteFile(filepath.Join(impl, "helper.tsh"), []byte("func Who() string {\n\treturn \"the helper next to the link target\"\n}\n"), 0o644)
			os.Chtimes(filepath.Join(impl, "helper.tsh"), oldTime, oldTime)
			os.Symlink(filepath.Join("..", "impl", "main_v2.tsh"), fpath)
		} else {
			os.WriteFile(fpath, []byte(pc.Main), 0o644)
		}
		res.Files[c.File] = pc.Main
		for n, s := range pc.Extra {
			os.WriteFile(filepath.Join(in, n), []byte(s), 0o644)
			res.Files[n] = s
		}
	case "dir":
		os.MkdirAll(fpath, 0o755)
	}
	if tf := strings.TrimSpace(c.File); tf != c.File && tf != "" {
		// decoy: another program under the trimmed name
		os.WriteFile(filepath.Join(in, tf), []byte("print(\"decoy\")\n"), 0o644)
	}
	if tn := strings.TrimSpace(outName); tn != outName && tn != "" {
		os.MkdirAll(filepath.Join(root, tn), 0o755) // decoy directory under the trimmed name
	}
	filepath.Walk(in, func(p string, info os.FileInfo, err error) error {
		if err == nil {
			os.Chtimes(p, oldTime, oldTime)
		}
		return nil
	})
	base := baseOf(c.File)
	if c.Dir == "sentinel" {
		for _, e := range []string{"sh", "bat"} {
			os.WriteFile(filepath.Join(out, base+"."+e), []byte(sentinelContent(e)), 0o644)
		}
		os.WriteFile(filepath.Join(out, "unrelated.txt"), []byte("unrelated\n"), 0o644)
	}
	if c.Fault != "" {
		e := strings.TrimPrefix(c.Fault, "outfile-is-dir:")
		os.Remove(filepath.Join(out, base+"."+e))
		os.MkdirAll(filepath.Join(out, base+"."+e), 0o755)
	}

	// ---- expectation (library in-process, same path), before the command runs
	why := ""
	if c.Bad != "" {
		why = "bad-options:" + c.Bad
	} else if pc.Kind != "file" {
		why = pc.Name
	}
	res.LibOut = map[string]string{}
	failing := map[string]bool{} // ext -> the library rejects F for this target
	var reqExt []string
	seenExt := map[string]bool{}
	for _, t := range c.Targets {
		e, ok := extOf[t]
		if !ok || seenExt[e] {
			continue
		}
		seenExt[e] = true
		reqExt = append(reqExt, e)
		if pc.Kind != "file" {
			failing[e] = true
			continue
		}
		tg := drive.Bash
		if t == "batch" {
			tg = drive.Batch
		}
		lr := libResult(c.File, c.Prog, tg, fpath, in)
		if lr.nondet {
			res.LibNondet = true
		}
		if lr.ok {
			res.LibOut[e] = lr.script
		} else {
			failing[e] = true
			if why == "" {
				why = pc.Name
			}
		}
	}
	if c.Fault != "" && why == "" {
		why = "write-fault"
		failing[strings.TrimPrefix(c.Fault, "outfile-is-dir:")] = true
	}
	if why == "" {
		res.Expect = "success"
	} else {
		res.Expect = "fail:" + why
		if strings.HasPrefix(why, "bad-options:") || pc.Kind != "file" {
			for _, e := range []string{"sh", "bat"} {
				failing[e] = true
			}
		}
	}

	before := snapshot(out)
	inBefore := snapshot(in)

	// ---- the command
	fp, dp, cwd := fpath, out, filepath.Join(root, "cwd")
	os.MkdirAll(cwd, 0o755)
	rfp, rdp := "$IN/"+c.File, "$OUT"
	switch c.Form {
	case "rel":
		fp, dp, cwd = filepath.Join("in", c.File), "out", root
	case "rel-out-named":
		fp, dp, cwd = filepath.Join("in", c.File), outName, root
		rfp, rdp = fp, dp
	case "rel-in-cwd":
		fp, dp, cwd = c.File, filepath.Join("..", outName), in
		rfp, rdp = fp, dp
	}
	argv := c.argv(fp, dp)
	res.Argv = c.argv(rfp, rdp)
	ctx, cancel := context.WithTimeout(context.Background(), 120*time.Second)
	defer cancel()
	bin := tshBin
	if c.Race > 0 {
		bin = tshRaceBin
	}
	cmd := exec.CommandContext(ctx, bin, argv...)
	cmd.Dir = cwd
	cmd.Env = []string{}
	if c.Race > 0 {
		cmd.Env = []string{"GORACE=halt_on_error=0 exitcode=0"}
	}
	var se bytes.Buffer
	cmd.Stderr = &se
	cmd.Stdout = &se
	err := cmd.Run()
	res.Exit = 0
	if err != nil {
		if ee, ok := err.(*exec.ExitError); ok {
			res.Exit = ee.ExitCode()
		} else {
			res.Exit = -2
		}
	}
	res.Stderr = se.String()
	raceSeen := c.Race > 0 && strings.Contains(res.Stderr, "WARNING: DATA RACE")
	if len(res.Stderr) > 600 {
		res.Stderr = res.Stderr[:600]
	}
	after := snapshot(out)
	inAfter := snapshot(in)

	// ---- verdict
	var sy []string
	if ctx.Err() != nil {
		sy = append(sy, "runaway")
	}
	if raceSeen {
		// two goroutines of the command touched the same memory without synchronisation: what the run writes
		// depends on the schedule, so the bytes are not a function of the options
		sy = append(sy, "data-race")
	}
	names := map[string]string{}
	for _, e := range []string{"sh", "bat"} {
		names[base+"."+e] = e
	}
	changed := func(n string) bool {
		a, okA := after[n]
		b, okB := before[n]
		return okA != okB || a != b
	}
	if res.Expect == "success" {
		if res.Exit != 0 {
			sy = append(sy, "exit-nonzero")
		}
		for _, e := range reqExt {
			n := base + "." + e
			a, ok := after[n]
			switch {
			case !ok:
				sy = append(sy, "missing:"+e)
			case a.IsDir || a.Data != res.LibOut[e]:
				sy = append(sy, "bytes-differ:"+e)
			}
		}
		for n, e := range names {
			if !seenExt[e] && changed(n) {
				sy = append(sy, "unrequested-changed:"+e)
			}
		}
	} else {
		if res.Exit == 0 {
			sy = append(sy, "exit-0")
		}
		for n, e := range names {
			if !changed(n) {
				continue
			}
			if failing[e] || !seenExt[e] {
				sy = append(sy, "written:"+e)
			} else if a := after[n]; a.IsDir || a.Data != res.LibOut[e] {
				// a requested target that did not fail may be written exactly or not at all
				sy = append(sy, "garbage:"+e)
			}
		}
	}
	for n := range after {
		if _, isOut := names[n]; isOut {
			continue
		}
		if changed(n) {
			sy = append(sy, "extra-file")
			res.Detail += " extra:" + n
		}
	}
	for n := range before {
		if _, ok := after[n]; !ok {
			if _, isOut := names[n]; !isOut {
				sy = append(sy, "file-removed")
			}
		}
	}
	// the input: bytes, mtime, and nothing new next to it
	if len(inBefore) != len(inAfter) {
		sy = append(sy, "input-dir-changed")
	}
	for n, b := range inBefore {
		if a, ok := inAfter[n]; !ok || a != b {
			sy = append(sy, "input-modified")
		} else if st, err := os.Stat(filepath.Join(in, n)); err == nil && !st.IsDir() && !st.ModTime().Equal(oldTime) {
			sy = append(sy, "input-mtime-changed")
		}
	}
	sort.Strings(sy)
	sy = uniq(sy)
	if raceSeen {
		// what else such a run shows depends on the schedule: the report itself is the (repeatable) symptom
		sy = []string{"data-race"}
		res.Detail += " the race detector reports unsynchronised access between goroutines of the command;"
		res.Exit = -1
	}
	res.Symptoms = strings.Join(sy, "+")
	if res.Symptoms != "" {
		res.Detail = fmt.Sprintf("exit status %d; expected %s;%s stderr: %s", res.Exit, res.Expect, res.Detail, firstLine(res.Stderr))
	}
	return res
}

func uniq(s []string) []string {
	var out []string
	for i, x := range s {
		if i == 0 || x != s[i-1] {
			out = append(out, x)
		}
	}
	return out
}

func firstLine(s string) string {
	if i := strings.IndexByte(s, '\n'); i >= 0 {
		s = s[:i]
	}
	if len(s) > 200 {
		s = s[:200]
	}
	return s
}

type libRes struct {
	ok     bool
	script string
	nondet bool
}

var (
	libMu    sync.Mutex
	libCache = map[string]*libRes{}
	libCalls int
)

// libResult is what the library returns for (F, program, target). It is
// computed on the path of the first run that needs it AND on a copy of the
// same tree in a different directory; the two must agree (the library's
// answer must be a function of the file, not of where it lies), after which
// the bytes are reused for every run with the same F, program and target
// (transpiling the std import costs ~0.1 s; thousands of runs share it).
func libResult(file, prog string, tg drive.Target, fpath, inDir string) *libRes {
	key := file + "\x00" + prog + "\x00" + tg.String()
	libMu.Lock()
	if r, ok := libCache[key]; ok {
		libMu.Unlock()
		return r
	}
	libMu.Unlock()
	tr := libTranspile(fpath, tg)
	r := &libRes{ok: tr.OK(), script: tr.Script}
	// second opinion in another directory
	d2 := drive.NewDir("c19-lib2-")
	defer os.RemoveAll(d2)
	filepath.Walk(inDir, func(p string, info os.FileInfo, err error) error {
		if err != nil || info.IsDir() {
			return nil
		}
		rel, _ := filepath.Rel(inDir, p)
		b, _ := os.ReadFile(p)
		os.MkdirAll(filepath.Dir(filepath.Join(d2, "sub", rel)), 0o755)
		os.WriteFile(filepath.Join(d2, "sub", rel), b, 0o644)
		return nil
	})
	tr2 := libTranspile(filepath.Join(d2, "sub", file), tg)
	if tr2.OK() != tr.OK() || tr2.Script != tr.Script {
		r.nondet = true
	}
	libMu.Lock()
	libCalls += 2
	if prev, ok := libCache[key]; ok {
		r = prev
	} else {
		libCache[key] = r
	}
	libMu.Unlock()
	return r
}

// libTranspile waits out a concurrent re-creation of bin/std (build.sh).
func libTranspile(path string, tg drive.Target) drive.TResult {
	tr := drive.TranspilePath(path, tg)
	for try := 0; try < 100 && tr.HasErr && strings.Contains(tr.Err, "std/") && strings.Contains(tr.Err, "no such file"); try++ {
		time.Sleep(200 * time.Millisecond)
		tr = drive.TranspilePath(path, tg)
	}
	return tr
}

// ---------------------------------------------------------------------------

func harnessError(format string, a ...interface{}) {
	fmt.Fprintf(os.Stderr, "HARNESS ERROR: "+format+"\n", a...)
	drive.Cleanup()
	os.Exit(2)
}

func goEnv() []string {
	cache := os.Getenv("GOCACHE")
	if cache == "" {
		cache = "/verif/.cache/go-build"
		if _, err := os.Stat(cache); err != nil {
			cache = filepath.Join(findings.Root(), ".cache", "go-build")
		}
	}
	env := []string{"GOFLAGS=-mod=mod", "GOPROXY=off", "GOSUMDB=off", "GOTOOLCHAIN=local", "CGO_ENABLED=0", "GOCACHE=" + cache,
		"HOME=" + os.Getenv("HOME"), "PATH=" + os.Getenv("PATH")}
	for _, k := range []string{"GOROOT", "GOPATH", "GOMODCACHE"} {
		if v := os.Getenv(k); v != "" {
			env = append(env, k+"="+v)
		}
	}
	return env
}

// buildTsh builds the real command from /repo's working tree into scratch and
// puts /repo/std next to it. C19_OVERLAY (development only) names a go build
// -overlay file, used to demonstrate detection on mutants without touching /repo.
// sentinelContent is what a pre-existing output file holds: longer than any script the
// enumerated programs produce, so an output that is not truncated keeps a visible tail.
func sentinelContent(ext string) string {
	return "SENTINEL " + ext + "\n" + strings.Repeat("# stale line of an older, longer output\n", 1500)
}

func buildTsh() string {
	dir := drive.NewDir("tsh-")
	bin := filepath.Join(dir, "tsh")
	args := []string{"build", "-o", bin}
	if ov := os.Getenv("C19_OVERLAY"); ov != "" {
		args = append(args, "-overlay", ov)
	}
	args = append(args, ".")
	repo := os.Getenv("VERIF_REPO") // a scratch copy of the repository (mutant demonstrations); default /repo
	if repo == "" {
		repo = "/repo"
	}
	cmd := exec.Command("go", args...)
	cmd.Dir = repo
	cmd.Env = goEnv()
	if outb, err := cmd.CombinedOutput(); err != nil {
		harnessError("cannot build tsh from /repo: %v\n%s", err, outb)
	}
	std := filepath.Join(dir, "std")
	os.MkdirAll(std, 0o755)
	ents, _ := filepath.Glob(filepath.Join(repo, "std", "*.tsh"))
	for _, e := range ents {
		b, _ := os.ReadFile(e)
		os.WriteFile(filepath.Join(std, filepath.Base(e)), b, 0o644)
	}
	return bin
}

func shQuote(s string) string {
	if strings.HasPrefix(s, "$IN") || strings.HasPrefix(s, "$OUT") {
		return `"` + s + `"`
	}
	return "'" + strings.ReplaceAll(s, "'", `'\''`) + "'"
}

func replay(res result) func() findings.Replay {
	return func() findings.Replay {
		files := map[string]string{"detail.txt": res.C.String() + "\nsymptoms: " + res.Symptoms + "\n" + res.Detail + "\n"}
		for n, s := range res.Files {
			files["in/"+n] = s
		}
		for e, s := range res.LibOut {
			files["expected/"+baseOf(res.C.File)+"."+e] = s
		}
		var q []string
		for _, a := range res.Argv {
			q = append(q, shQuote(a))
		}
		base := baseOf(res.C.File)
		var sb strings.Builder
		sb.WriteString("set -u\nT=$(mktemp -d); trap 'rm -rf \"$T\"' EXIT\n")
		sb.WriteString("(cd /repo && GOFLAGS=-mod=mod GOPROXY=off GOSUMDB=off GOTOOLCHAIN=local go build -o \"$T/tsh\" . ) && cp -r /repo/std \"$T/std\" || exit 2\n")
		outName, runIn := "out", "$T/cwd"
		if res.C.OutName != "" {
			outName = res.C.OutName
		}
		switch res.C.Form {
		case "rel-out-named":
			runIn = "$T"
		case "rel-in-cwd":
			runIn = "$T/in"
		}
		sb.WriteString("IN=\"$T/in\"; OUT=\"$T/" + outName + "\"; mkdir -p \"$IN\" \"$OUT\" \"$T/cwd\"\n[ -d in ] && cp -r in/. \"$IN/\"\n")
		pc := progByName(res.C.Prog)
		if pc.Kind == "dir" {
			sb.WriteString("mkdir -p \"$IN/\"" + shQuote(res.C.File) + "\n")
		}
		if res.C.Dir == "sentinel" {
			sb.WriteString("{ printf 'SENTINEL sh\\n'; for i in $(seq 1500); do echo '# stale line of an older, longer output'; done; } > \"$OUT/\"" + shQuote(base+".sh") + "; { printf 'SENTINEL bat\\n'; for i in $(seq 1500); do echo '# stale line of an older, longer output'; done; } > \"$OUT/\"" + shQuote(base+".bat") + "; printf 'unrelated\\n' > \"$OUT/unrelated.txt\"\n")
		}
		if res.C.Fault != "" {
			e := strings.TrimPrefix(res.C.Fault, "outfile-is-dir:")
			sb.WriteString("rm -f \"$OUT/\"" + shQuote(base+"."+e) + "; mkdir \"$OUT/\"" + shQuote(base+"."+e) + "\n")
		}
		sb.WriteString("cp -r \"$OUT\" \"$T/out.before\"\n")
		sb.WriteString("( cd \"" + runIn + "\" && \"$T/tsh\" " + strings.Join(q, " ") + " ) 2> \"$T/stderr.txt\"; st=$?\n")
		sb.WriteString("echo \"exit status: $st (the property expects: " + res.Expect + ")\"; head -3 \"$T/stderr.txt\"\necho \"output directory now:\"; ls -la \"$OUT\"\nbad=0\n")
		if res.Expect == "success" {
			sb.WriteString("[ $st -ne 0 ] && bad=1\n")
			sb.WriteString("for f in expected/*; do b=$(basename \"$f\"); echo \"--- diff library-output $b / written file\"; diff \"$f\" \"$OUT/$b\" && echo same || bad=1; done\n")
		} else {
			sb.WriteString("[ $st -eq 0 ] && bad=1\n")
			sb.WriteString("echo \"--- changes in the output directory (none allowed)\"; diff -r \"$T/out.before\" \"$OUT\" || bad=1\n")
		}
		sb.WriteString("echo \"observed when recorded: " + res.Symptoms + "\"\n")
		sb.WriteString("if [ $bad = 0 ]; then echo \"REPLAY: no longer reproduces\"; exit 0; else echo \"REPLAY: reproduced\"; exit 1; fi\n")
		return findings.Replay{Files: files, Script: sb.String()}
	}
}

// Run is the check's entry point.
func Run() int {
	r := findings.New("C19")
	defer drive.Cleanup()
	deadline := r.Deadline(6*time.Minute, 30*time.Minute)
	r.Set("exhaustive", true)
	tshBin = buildTsh()
	buildTshRace()
	if tshRaceBin == "" {
		r.Set("race_detector_pass", "skipped: "+tshRaceNote)
	} else {
		r.Set("race_detector_pass", "the command built with -race, family R")
	}

	// the program classes must be what they claim (otherwise the sweep is vacuous)
	{
		d := drive.NewDir("c19-classes")
		for _, p := range programs {
			if p.Kind != "file" {
				continue
			}
			os.WriteFile(filepath.Join(d, "p.tsh"), []byte(p.Main), 0o644)
			for n, s := range p.Extra {
				os.WriteFile(filepath.Join(d, n), []byte(s), 0o644)
			}
			for _, tg := range []drive.Target{drive.Bash, drive.Batch} {
				tr := libTranspile(filepath.Join(d, "p.tsh"), tg)
				if !p.Mixed && tr.OK() == p.Reject {
					harnessError("program class %s: library accepted=%v for %s, the class expects rejected=%v (%s)", p.Name, tr.OK(), tg, p.Reject, tr.Err)
				}
			}
		}
		os.RemoveAll(d)
	}

	var cfgs []Config
	distinct := findings.NewDistinct()
	{
		seen := map[string]bool{}
		for _, c := range enumerate(r.Thorough()) {
			if seen[c.String()] {
				continue // sweeps A and B overlap on the base file
			}
			seen[c.String()] = true
			cfgs = append(cfgs, c)
		}
	}
	type cellKey struct{ expect, targets, fault string }
	cellOf := func(res result) cellKey {
		return cellKey{res.Expect, strings.Join(res.C.Targets, ","), res.C.Fault}
	}
	var mu sync.Mutex
	cellTotal := map[cellKey]int{}
	cellFails := map[cellKey][]result{}
	exits := map[string]int{}
	expects := map[string]int{}
	libOuts := findings.NewDistinct()
	dims := map[string]map[string]int{"file": {}, "prog": {}, "dir": {}, "form": {}, "order": {}, "spell": {}, "targets": {}, "bad": {}, "fault": {}}
	done, capped, nondet := 0, false, 0
	// family R (race detector) first, as a pass of its own: whether the command has goroutines that race decides how
	// a command line that gives two results is read below
	sort.SliceStable(cfgs, func(a, b int) bool { return cfgs[a].Race > 0 && cfgs[b].Race == 0 })
	nRace := 0
	for _, c := range cfgs {
		if c.Race > 0 {
			nRace++
		}
	}
	var raceFound int32
	process := func(i int) {
		if time.Now().After(deadline) {
			mu.Lock()
			capped = true
			mu.Unlock()
			return
		}
		c := cfgs[i]
		res := runConfig(c)
		if c.Race > 0 && res.Symptoms == "data-race" {
			atomic.StoreInt32(&raceFound, 1)
		}
		if res.LibNondet {
			// the library itself gives two answers for one (F, target): unspecified here (property C14)
			mu.Lock()
			nondet++
			mu.Unlock()
			return
		}
		// (a report of the race detector is not re-run: the detector has no false positives, and whether a given
		// run shows the report depends on the schedule)
		if res.Symptoms != "" && !(c.Race > 0 && res.Symptoms == "data-race") {
			for k := 0; k < 2; k++ {
				again := runConfig(c)
				if (again.Symptoms != res.Symptoms || again.Exit != res.Exit) && tshRaceBin != "" && c.Race == 0 {
					// the same command line gives two results. If the race detector reports unsynchronised access
					// between goroutines of the command for this very configuration, the command's result depends on
					// the schedule (a violation: the written bytes are not a function of the options); otherwise the
					// harness is at fault (below).
					rc := c
					rc.Race = 9
					rr := runConfig(rc)
					for try := 0; try < 12 && rr.Symptoms != "data-race"; try++ {
						// (the detector needs both goroutines' accesses in its window: not every run shows the report)
						rr = runConfig(rc)
					}
					if os.Getenv("VERIF_VERBOSE") != "" {
						fmt.Fprintf(os.Stderr, "C19: two results for %s; race-detector run: symptoms=%q exit=%d stderr=%q\n", c, rr.Symptoms, rr.Exit, firstLine(rr.Stderr))
					}
					if rr.Symptoms != "data-race" && atomic.LoadInt32(&raceFound) != 0 {
						// the race-detector pass found goroutines of this command racing (family R reports it)
						rr = res
						rr.Detail += " the same command line gave another result on a re-run, and the race-detector pass reports racing goroutines in the command;"
						rr.Symptoms = "data-race"
					}
					if rr.Symptoms == "data-race" {
						res = rr
						res.C = c
						res.Symptoms = "schedule-dependent+data-race"
						break
					}
				}
				if again.Symptoms != res.Symptoms || again.Exit != res.Exit {
					harnessError("replay of a failing configuration did not reproduce: %s\nfirst: %s (exit %d)\nagain: %s (exit %d)", c, res.Symptoms, res.Exit, again.Symptoms, again.Exit)
				}
			}
		}
		for _, s := range res.LibOut {
			libOuts.Add(s)
		}
		distinct.Add(c.String())
		mu.Lock()
		done++
		ck := cellOf(res)
		cellTotal[ck]++
		if res.Symptoms != "" {
			cellFails[ck] = append(cellFails[ck], res)
		}
		exits[fmt.Sprint(res.Exit)]++
		ex := res.Expect
		if strings.HasPrefix(ex, "fail:bad-options:") {
			ex = "fail:bad-options"
		}
		expects[ex]++
		dims["file"][c.File]++
		dims["prog"][c.Prog]++
		dims["dir"][c.Dir]++
		dims["form"][c.Form]++
		dims["order"][c.Order]++
		dims["spell"][c.Spell]++
		dims["targets"][strings.Join(c.Targets, ",")]++
		if c.Bad != "" {
			dims["bad"][c.Bad]++
		}
		if c.Fault != "" {
			dims["fault"][c.Fault]++
		}
		mu.Unlock()
		if i%211 == 0 {
			r.Sample(map[string]string{"kind": "configuration", "config": c.String(), "argv": strings.Join(res.Argv, " "), "expect": res.Expect, "exit": fmt.Sprint(res.Exit), "symptoms": res.Symptoms})
		}
	}
	drive.Par(nRace, process)
	drive.Par(len(cfgs)-nRace, func(i int) { process(nRace + i) })
	r.Set("race_detector_runs", nRace)

	// ---- verdicts: a whole cell (expectation class, target sequence, fault) failing in one way is one key;
	// anything less regular is reported with its full coordinates.
	var cks []cellKey
	for k := range cellFails {
		cks = append(cks, k)
	}
	sort.Slice(cks, func(i, j int) bool { return fmt.Sprint(cks[i]) < fmt.Sprint(cks[j]) })
	var table []string
	for _, ck := range cks {
		fs := cellFails[ck]
		sort.Slice(fs, func(i, j int) bool { return fs[i].C.String() < fs[j].C.String() })
		uniform := len(fs) == cellTotal[ck] // cellTotal counts evaluated runs (all of them unless the deadline cut the sweep)
		for _, f := range fs {
			if f.Symptoms != fs[0].Symptoms {
				uniform = false
			}
		}
		cellName := "expect=" + ck.expect + " targets=" + ck.targets
		if ck.fault != "" {
			cellName += " fault=" + ck.fault
		}
		table = append(table, fmt.Sprintf("%s failing=%d of=%d symptoms=%s", cellName, len(fs), cellTotal[ck], fs[0].Symptoms))
		if uniform {
			r.Fail(cellName+" symptom="+fs[0].Symptoms,
				fmt.Sprintf("tsh: every enumerated run of this class (%d runs over all option orders, spellings, file names, programs and output directories) shows %s; e.g. `tsh %s`: %s", len(fs), fs[0].Symptoms, strings.Join(fs[0].Argv, " "), fs[0].Detail),
				replay(fs[0]))
			continue
		}
		for _, f := range fs {
			r.Fail(f.C.String()+" symptom="+f.Symptoms, fmt.Sprintf("tsh %s: %s (%d of the %d runs of class %s fail)", strings.Join(f.Argv, " "), f.Detail, len(fs), cellTotal[ck], cellName), replay(f))
		}
	}

	r.Set("evaluations", done)
	r.Set("configurations_enumerated", len(cfgs))
	r.Set("distinct_nontrivial", distinct.Len())
	r.Set("exit_status_histogram", exits)
	r.Set("expectation_histogram", expects)
	r.Set("distinct_library_outputs", libOuts.Len())
	r.Set("dimension_histograms", dims)
	r.Set("failing_cells", table)
	r.Set("skipped_library_nondeterministic", nondet)
	r.Set("library_transpilations", libCalls)
	if capped {
		r.Set("exhaustive", false)
		r.Set("cap_hit", "sweep stopped at the internal deadline")
	}
	r.Set("rule", "a case = one execution of the real tsh binary (built from /repo at check time) in a fresh tree; coordinates: arrangement of the pairs -i/-o/-t..., short/long spelling per pair, target sequence of length 1..3 (4 in thorough sweep B), input file name (10, two of them with a percent sign), program class (9: 3 accepted - one of them a symbolic link whose target has another name and lies in another directory next to another helper file -, lexical/syntax/type/conversion error, missing file, directory), output directory (empty / pre-populated with sentinel outputs), path form (absolute / relative), 70+ malformed option sets, 1 injected write fault, plus (F) every sole-facility program of package corpus x every target sequence of length <= 2 (3 in thorough), (R) the command built with Go's race detector run free on every target sequence up to length 3 (a report of unsynchronised access between goroutines is the symptom data-race), (G) arguments that begin or end with white space: 5 such input names (a decoy program under the trimmed name next to each) x 3 path forms x 2 orders, 4 such output directories (a decoy directory under the trimmed name), padded target names and switches as malformed option sets; distinct by the full coordinate string; non-trivial: every case compares exit status, the full before/after content of the output directory against the library's bytes, and the input's bytes and mtime")
	r.Assumef("the library's result for (F, program, target) is computed in-process by the transpiler linked from the same /repo working tree, on the path of the first run that needs it and on a copy in another directory (the two must agree, else the case is counted unspecified), then reused for every run with the same F, program and target; std is copied from /repo/std next to both executables")
	r.Assumef("on an error the property fixes only: non-zero exit status, no new or changed output for a failing target, input untouched; a requested target that did not fail may be written exactly or not at all; the text and the value of a non-zero status are not compared")
	r.Assumef("a trailing switch without a value and a stray word are counted as bad options")
	return r.Finish()
}

// Development entry point of check C19 (build to /verif/bin/c19-dev).
package main

import (
	"os"

	"verif/c19"
)

func main() { os.Exit(c19.Run()) }

#!/bin/bash
# Detection demonstration for C19: mutants of /repo/tsh.go are applied with `go build -overlay`
# (env C19_OVERLAY, read by buildTsh in c19.go); /repo is not touched. Known lines: KNOWN_PROPOSED.txt.
#   m1  extension stripped with strings.Split(file, ".")[0]   -> a.b.c.tsh is written to a.sh: reported
#   m2  output written before the error is looked at          -> empty files for rejected programs: reported
#   m3  transpile error swallowed (continue instead of panic)  -> exit 0 on errors: reported
#   fix the repair proposed in the report                       -> silent, no known line reproduces any more
set -e
export GOFLAGS=-mod=mod GOPROXY=off GOSUMDB=off GOTOOLCHAIN=local GOCACHE=/verif/.cache/go-build CGO_ENABLED=0
here="$(cd "$(dirname "$0")" && pwd)"
S=$(mktemp -d /dev/shm/c19demo.XXXXXX); trap 'rm -rf "$S"' EXIT
mkdir -p "$S/bin/std"; cp /repo/std/*.tsh "$S/bin/std/"; (cd /verif/engine && go build -o "$S/bin/c19-dev" ./c19/cmd)
grep -h '^known:' "$here/KNOWN_PROPOSED.txt" > "$S/KNOWN_FINDINGS.txt"
python3 - "$S" <<'PY'
import json,sys
S=sys.argv[1]; src=open('/repo/tsh.go').read()
def rep(s,old,new):
    assert s.count(old)==1, old
    return s.replace(old,new)
m={}
m['m1']=rep(src,'file = file[0 : len(file)-len(filepath.Ext(in))] // Remove extension.','file = strings.Split(file, ".")[0] // Remove extension.')
m['m2']=rep(src,'''		if err != nil {
			panic(err)
		}
		file := filepath.Base(in)
		file = file[0 : len(file)-len(filepath.Ext(in))] // Remove extension.

		os.WriteFile(filepath.Join(options.out, fmt.Sprintf("%s.%s", file, conv.Extension())), []byte(dump), 0777)''','''		file := filepath.Base(in)
		file = file[0 : len(file)-len(filepath.Ext(in))] // Remove extension.

		os.WriteFile(filepath.Join(options.out, fmt.Sprintf("%s.%s", file, conv.Extension())), []byte(dump), 0777)

		if err != nil {
			panic(err)
		}''')
m['m3']=rep(src,'''		if err != nil {
			panic(err)
		}
		file := filepath.Base(in)''','''		if err != nil {
			fmt.Fprintln(os.Stderr, err)
			continue
		}
		file := filepath.Base(in)''')
f=rep(src,'''var convMapping = map[string]transpiler.Converter{
	typeBatch: batch.New(),
	typeBash:  bash.New(),
}''','''var convMapping = map[string]func() transpiler.Converter{
	typeBatch: func() transpiler.Converter { return batch.New() },
	typeBash:  func() transpiler.Converter { return bash.New() },
}''')
f=rep(f,'options.converters = append(options.converters, conv)','options.converters = append(options.converters, conv())')
f=rep(f,'''		os.WriteFile(filepath.Join(options.out, fmt.Sprintf("%s.%s", file, conv.Extension())), []byte(dump), 0777)''','''		err = os.WriteFile(filepath.Join(options.out, fmt.Sprintf("%s.%s", file, conv.Extension())), []byte(dump), 0777)

		if err != nil {
			panic(err)
		}''')
f=rep(f,'''	for i := 1; i < (len(args) - 1); i += 2 {''','''	if len(args)%2 == 0 {
		panic(fmt.Errorf("option %s has no value", args[len(args)-1]))
	}

	for i := 1; i < (len(args) - 1); i += 2 {''')
m['fix']=f
for k,v in m.items():
    open(f'{S}/tsh_{k}.go','w').write(v)
    json.dump({"Replace":{"/repo/tsh.go":f"{S}/tsh_{k}.go"}},open(f'{S}/{k}.json','w'))
PY
for m in m1 m2 m3 fix; do
  ( cd "$S" && st=0; C19_OVERLAY="$S/$m.json" ./bin/c19-dev > "$m.out" 2> "$m.err" || st=$?; echo "[$m] exit=$st violations=$(grep -c '^VIOLATION' $m.out) $(tail -1 $m.out)"; grep '^VIOLATION' "$m.out" | head -2 | cut -c1-260 )
done

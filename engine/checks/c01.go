package checks

import (
	"fmt"
	"os"
	"sort"
	"strings"
	"sync"
	"time"

	"verif/drive"
	"verif/findings"
	. "verif/tsmodel"
)

func init() { Registry["C01"] = C01 }

// ---------------------------------------------------------------------------
// (E) expression trees

type exprAlphabet struct {
	intLeaves, boolLeaves, strLeaves []Expr
	arith, cmpInt, eq, logic         []string
	strOps                           bool // string +, ==, !=, itoa
	not                              bool
}

func fullAlphabet() exprAlphabet {
	return exprAlphabet{
		intLeaves:  []Expr{Var{"a"}, Var{"b"}, IntLit{0}, IntLit{1}, IntLit{-1}, IntLit{7}},
		boolLeaves: []Expr{Var{"p"}, Var{"q"}, BoolLit{true}, BoolLit{false}},
		strLeaves:  []Expr{Var{"s"}, Var{"u"}, StrLit{V: "x"}, StrLit{V: ""}},
		arith:      []string{"+", "-", "*", "/", "%"},
		cmpInt:     []string{"==", "!=", "<", "<=", ">", ">="},
		eq:         []string{"==", "!="},
		logic:      []string{"&&", "||"},
		strOps:     true, not: true,
	}
}

func varsAlphabet() exprAlphabet {
	a := fullAlphabet()
	a.intLeaves = a.intLeaves[:2]
	a.boolLeaves = a.boolLeaves[:2]
	a.strLeaves = a.strLeaves[:2]
	return a
}

// precedence alphabet: one operator per precedence class / associativity-sensitive pair.
func precAlphabet() exprAlphabet {
	return exprAlphabet{
		intLeaves:  []Expr{Var{"a"}, Var{"b"}, IntLit{7}},
		boolLeaves: []Expr{Var{"p"}, Var{"q"}},
		arith:      []string{"*", "/", "+", "-"},
		cmpInt:     []string{"<", "=="},
		eq:         []string{"=="},
		logic:      []string{"&&", "||"},
		not:        true,
	}
}

type exprGen struct {
	al   exprAlphabet
	memo map[string][]Expr
}

// gen returns all expressions of the given type with exactly k operator nodes.
func (g *exprGen) gen(t string, k int) []Expr {
	key := fmt.Sprintf("%s/%d", t, k)
	if r, ok := g.memo[key]; ok {
		return r
	}
	var out []Expr
	if k == 0 {
		switch t {
		case "int":
			out = g.al.intLeaves
		case "bool":
			out = g.al.boolLeaves
		case "string":
			out = g.al.strLeaves
		}
		g.memo[key] = out
		return out
	}
	bin := func(ops []string, lt, rt string) {
		for kl := 0; kl <= k-1; kl++ {
			ls, rs := g.gen(lt, kl), g.gen(rt, k-1-kl)
			for _, op := range ops {
				for _, l := range ls {
					for _, r := range rs {
						out = append(out, Binary{Op: op, L: l, R: r})
					}
				}
			}
		}
	}
	switch t {
	case "int":
		bin(g.al.arith, "int", "int")
	case "bool":
		bin(g.al.cmpInt, "int", "int")
		bin(g.al.eq, "bool", "bool")
		bin(g.al.logic, "bool", "bool")
		if g.al.strOps {
			bin(g.al.eq, "string", "string")
		}
		if g.al.not {
			for _, x := range g.gen("bool", k-1) {
				out = append(out, Unary{Op: "!", X: x})
			}
		}
	case "string":
		if g.al.strOps {
			bin([]string{"+"}, "string", "string")
			for _, x := range g.gen("int", k-1) {
				out = append(out, Itoa{X: x})
			}
		}
	}
	g.memo[key] = out
	return out
}

// fullParens wraps every compound operand in explicit redundant parentheses.
func fullParens(e Expr) Expr {
	wrap := func(x Expr) Expr {
		y := fullParens(x)
		switch y.(type) {
		case Binary, Unary:
			return Group{X: y}
		}
		return y
	}
	switch x := e.(type) {
	case Binary:
		return Binary{Op: x.Op, L: wrap(x.L), R: wrap(x.R)}
	case Unary:
		return Unary{Op: x.Op, X: wrap(x.X)}
	case Itoa:
		return Itoa{X: fullParens(x.X)}
	}
	return e
}

func hasCompound(e Expr) bool {
	switch x := e.(type) {
	case Binary:
		_, l := x.L.(Binary)
		_, r := x.R.(Binary)
		_, lu := x.L.(Unary)
		_, ru := x.R.(Unary)
		return l || r || lu || ru
	case Unary:
		switch x.X.(type) {
		case Binary, Unary:
			return true
		}
	}
	return false
}

type valuation struct {
	a, b int64
	p, q bool
	s, u string
}

func (v valuation) stmts() []Stmt {
	return []Stmt{
		Assign{Names: []string{"a"}, Vals: []Expr{IntLit{v.a}}},
		Assign{Names: []string{"b"}, Vals: []Expr{IntLit{v.b}}},
		Assign{Names: []string{"p"}, Vals: []Expr{BoolLit{v.p}}},
		Assign{Names: []string{"q"}, Vals: []Expr{BoolLit{v.q}}},
		Assign{Names: []string{"s"}, Vals: []Expr{StrLit{V: v.s}}},
		Assign{Names: []string{"u"}, Vals: []Expr{StrLit{V: v.u}}},
	}
}

func (v valuation) String() string {
	return fmt.Sprintf("a=%d b=%d p=%v q=%v s=%q u=%q", v.a, v.b, v.p, v.q, v.s, v.u)
}

const (
	maxI64 = int64(9223372036854775807)
	minI64 = -maxI64 - 1
)

var boundary = []int64{0, 1, -1, 2, 7, -8, 10, 99, 2147483647, -2147483648, maxI64, minI64}

func allValuations() []valuation {
	var out []valuation
	strs := []string{"", "x", "ab"}
	n := 0
	for _, a := range boundary {
		for _, b := range boundary {
			out = append(out, valuation{a: a, b: b, p: n&1 == 1, q: n&2 == 2, s: strs[n%3], u: strs[(n/3)%3]})
			n++
		}
	}
	return out
}

func curatedValuations() []valuation {
	return []valuation{
		{7, 2, true, true, "x", ""},
		{-8, 3, true, false, "ab", "x"},
		{-7, -2, false, true, "", ""},
		{0, 1, false, false, "x", "x"},
		{2147483647, 2, true, false, "", "ab"},
		{-2147483648, -1, false, true, "ab", "ab"},
		{maxI64, -1, true, true, "x", "ab"},
		{minI64, 2, false, false, "", "x"},
	}
}

var exprPrelude = []Stmt{
	Define{Names: []string{"a"}, Form: DefShort, Vals: []Expr{IntLit{0}}},
	Define{Names: []string{"b"}, Form: DefShort, Vals: []Expr{IntLit{0}}},
	Define{Names: []string{"p"}, Form: DefShort, Vals: []Expr{BoolLit{false}}},
	Define{Names: []string{"q"}, Form: DefShort, Vals: []Expr{BoolLit{false}}},
	Define{Names: []string{"s"}, Form: DefShort, Vals: []Expr{StrLit{V: ""}}},
	Define{Names: []string{"u"}, Form: DefShort, Vals: []Expr{StrLit{V: ""}}},
}

// exprCell is one observation: an expression under one valuation.
type exprCell struct {
	e Expr
	v valuation
}

func cellProg(v valuation, es []Expr) *Prog {
	st := append([]Stmt{}, exprPrelude...)
	st = append(st, v.stmts()...)
	for i, e := range es {
		st = append(st, Print{Args: []Expr{StrLit{V: fmt.Sprintf("c%d", i)}, e}})
	}
	return &Prog{Stmts: st}
}

// definedUnder reports whether the model can evaluate e under v.
func definedUnder(v valuation, e Expr) bool {
	in := &Interp{Width: 64}
	return in.Run(cellProg(v, []Expr{e})).Undefined == ""
}

// guard: a named region of the program space tied 1:1 to a known finding.
type exprGuard struct {
	key      string
	pred     func(Expr) bool
	sentinel Expr
}

func anyNode(e Expr, f func(Expr) bool) bool {
	if f(e) {
		return true
	}
	switch x := e.(type) {
	case Binary:
		return anyNode(x.L, f) || anyNode(x.R, f)
	case Unary:
		return anyNode(x.X, f)
	case Group:
		return anyNode(x.X, f)
	case Itoa:
		return anyNode(x.X, f)
	}
	return false
}

func isCmp(op string) bool { return Prec(op) == 3 }

var exprGuards = []exprGuard{
	{
		key: "guard=double-negation",
		pred: func(e Expr) bool {
			return anyNode(e, func(n Expr) bool {
				u, ok := n.(Unary)
				if !ok {
					return false
				}
				_, in := u.X.(Unary)
				return in
			})
		},
		sentinel: Unary{Op: "!", X: Unary{Op: "!", X: Var{"p"}}},
	},
	{
		// a comparison whose LEFT operand is an unparenthesised comparison: Go parses
		// (x < y) == z left-associatively.
		key: "guard=comparison-chain-left-assoc",
		pred: func(e Expr) bool {
			return anyNode(e, func(n Expr) bool {
				b, ok := n.(Binary)
				if !ok || !isCmp(b.Op) {
					return false
				}
				l, ok := b.L.(Binary)
				return ok && isCmp(l.Op)
			})
		},
		sentinel: Binary{Op: "==", L: Binary{Op: "<", L: Var{"a"}, R: Var{"b"}}, R: Var{"p"}},
	},
}

func c01Expressions(r *findings.Run, deadline time.Time) {
	type job struct {
		v  valuation
		es []Expr
	}
	var jobs []job
	distinct := findings.NewDistinct()
	var evals, skippedUndef, guarded int
	activeGuards := []exprGuard{}
	for _, g := range exprGuards {
		if r.IsKnown(g.key) {
			activeGuards = append(activeGuards, g)
		}
	}
	addTrees := func(label string, trees []Expr, vals []valuation, parenVariant bool) {
		var kept []Expr
		for _, e := range trees {
			skip := false
			for _, g := range activeGuards {
				if g.pred(e) {
					skip = true
				}
			}
			if skip {
				guarded++
				continue
			}
			kept = append(kept, e)
			if parenVariant && hasCompound(e) {
				kept = append(kept, fullParens(e))
			}
		}
		r.Set("expr_trees_"+label, len(kept))
		for _, v := range vals {
			var batch []Expr
			for _, e := range kept {
				if !definedUnder(v, e) {
					skippedUndef++
					continue
				}
				batch = append(batch, e)
				if len(batch) == 80 {
					jobs = append(jobs, job{v, batch})
					batch = nil
				}
			}
			if len(batch) > 0 {
				jobs = append(jobs, job{v, batch})
			}
		}
	}
	full := &exprGen{al: fullAlphabet(), memo: map[string][]Expr{}}
	var k01 []Expr
	for _, t := range []string{"int", "bool", "string"} {
		k01 = append(k01, full.gen(t, 0)...)
		k01 = append(k01, full.gen(t, 1)...)
	}
	addTrees("k0-1_full_allvaluations", k01, allValuations(), false)
	var k2 []Expr
	for _, t := range []string{"int", "bool", "string"} {
		k2 = append(k2, full.gen(t, 2)...)
	}
	if r.Thorough() {
		addTrees("k2_full", k2, curatedValuations(), true)
	} else {
		addTrees("k2_full", k2, curatedValuations()[:3], false)
		var k2p []Expr
		for _, e := range k2 {
			if hasCompound(e) {
				k2p = append(k2p, fullParens(e))
			}
		}
		addTrees("k2_full_redundant_parens", k2p, curatedValuations()[1:2], false)
	}
	pa := &exprGen{al: precAlphabet(), memo: map[string][]Expr{}}
	var k3 []Expr
	for _, t := range []string{"int", "bool"} {
		k3 = append(k3, pa.gen(t, 3)...)
	}
	if r.Thorough() {
		addTrees("k3_precedence", k3, curatedValuations()[:4], false)
	} else {
		addTrees("k3_precedence", k3, curatedValuations()[1:3], false)
	}
	if r.Thorough() {
		va := &exprGen{al: varsAlphabet(), memo: map[string][]Expr{}}
		var k3v []Expr
		for _, t := range []string{"int", "bool", "string"} {
			k3v = append(k3v, va.gen(t, 3)...)
		}
		addTrees("k3_vars", k3v, curatedValuations(), false)
		addTrees("k4_precedence_bool", pa.gen("bool", 4), curatedValuations()[:2], false)
	}

	var mu sync.Mutex
	capped := false
	compactCells := 0
	var judge func(v valuation, es []Expr, o ProgOpts)
	judge = func(v valuation, es []Expr, o ProgOpts) {
		prog := cellProg(v, es)
		pv := JudgeBash(prog, o)
		if pv.Symptom == "" {
			return
		}
		if pv.Symptom == "undefined" {
			panic("c01: undefined cell slipped through: " + pv.Detail)
		}
		if len(es) > 1 {
			if r.Violations() > 25 {
				return // enough distinct reports; do not bisect further
			}
			h := len(es) / 2
			judge(v, es[:h], o)
			judge(v, es[h:], o)
			return
		}
		pv = confirm(prog, o, pv)
		if pv.Symptom == "" {
			return // a sandbox kill that did not repeat (counted in common.go)
		}
		lay := ""
		if o.Compact {
			lay = " layout=compact"
		}
		key := fmt.Sprintf("expr=%s%s symptom=%s", PrintExpr(es[0]), lay, pv.Symptom)
		r.Fail(key, fmt.Sprintf("expression `%s`%s under %s: %s (%s)", PrintExpr(es[0]), lay, v, pv.Symptom, pv.Detail), progReplay(pv, nil))
	}
	drive.Par(len(jobs), func(i int) {
		if past(deadline) {
			mu.Lock()
			capped = true
			mu.Unlock()
			return
		}
		j := jobs[i]
		judge(j.v, j.es, ProgOpts{})
		if i%8 == 0 {
			// every eighth batch also in the compact spelling (`(a+b)-1`, `a<b&&p`): the same cells, other layout
			judge(j.v, j.es, ProgOpts{Compact: true})
			mu.Lock()
			compactCells += len(j.es)
			mu.Unlock()
		}
		mu.Lock()
		evals += len(j.es)
		mu.Unlock()
		for _, e := range j.es {
			distinct.Add(PrintExpr(e) + "|" + j.v.String())
		}
		if i%97 == 0 {
			r.Sample(map[string]string{"kind": "expression-cell", "expr": PrintExpr(j.es[0]), "valuation": j.v.String()})
		}
	})
	// sentinels of active guards
	for _, g := range activeGuards {
		v := curatedValuations()[0]
		prog := cellProg(v, []Expr{g.sentinel})
		pv := JudgeBash(prog, ProgOpts{})
		if pv.Symptom != "" && pv.Symptom != "undefined" {
			r.Fail(g.key, "", nil)
		}
	}
	r.Add("evaluations", evals)
	r.Set("expr_cells", evals)
	r.Set("expr_cells_also_in_compact_layout", compactCells)
	r.Set("expr_cells_distinct", distinct.Len())
	r.Set("expr_cells_skipped_undefined", skippedUndef)
	r.Set("expr_trees_guarded_by_known_findings", guarded)
	r.Set("expr_batches", len(jobs))
	if capped {
		r.Set("exhaustive", false)
		r.Set("cap_hit", "expression sweep stopped at the internal deadline")
	}
}

// ---------------------------------------------------------------------------
// (S) control-flow skeletons

type skKind struct {
	name   string
	blocks int  // number of nested blocks
	loop   bool // blocks[0] is a loop body
	jump   string
	form   string
}

type skNode struct {
	kind skKind
	kids [][]skNode // per block
}

var ifKinds = []skKind{
	{name: "if", blocks: 1}, {name: "if-else", blocks: 2}, {name: "if-elif", blocks: 2},
	{name: "if-elif-else", blocks: 3}, {name: "if-elif-elif-else", blocks: 4},
}

var switchKinds = []skKind{
	{name: "sw-tag-0", blocks: 1}, {name: "sw-tag-0-1", blocks: 2}, {name: "sw-tag-1-default", blocks: 2},
	{name: "sw-tag-default-0", blocks: 2}, {name: "sw-tag-0-default-1", blocks: 3}, {name: "sw-default", blocks: 1},
	{name: "sw-empty", blocks: 0}, {name: "sw-true", blocks: 2}, {name: "sw-tagless", blocks: 2},
}

var leafKinds = []skKind{
	{name: "if-empty"}, {name: "for-empty"}, {name: "case-empty"}, {name: "panic"}, {name: "panic-if"},
	{name: "simple2"},
	// empty bodies in the MIDDLE of a chain (an empty branch still terminates the chain when its condition holds)
	{name: "elif-empty-middle"}, {name: "elif-empty-last"}, {name: "case-empty-middle"},
	// calls of functions whose bodies contain loops / branches of their own (loop flags, labels and
	// helper state of a callee must not interfere with the caller's constructs)
	{name: "call-lf-three"}, {name: "call-lf-cond"}, {name: "call-lf-bare"}, {name: "call-lf-nested"}, {name: "call-lf-branch"},
	// jumps placed ANYWHERE below a loop (in a branch of a chain, in a switch case, at any depth): a continue
	// refers to the nearest loop through every if and switch; a break likewise through every if (a break inside a
	// switch is excluded as undefined, the leaf is a plain statement there, and outside any loop)
	{name: "jump-continue"}, {name: "jump-break"}, {name: "jump-continue-bare"},
}

// skLoopFuncs are the callee definitions used by the call-lf-* kinds.
func skLoopFunc(kind string) Stmt {
	k := Var{"k"}
	show := func(tag string) Stmt { return Print{Args: []Expr{StrLit{V: tag}, k}} }
	inc := IncDec{Name: "k", Inc: true}
	def := Define{Names: []string{"k"}, Form: DefShort, Vals: []Expr{IntLit{0}}}
	lt2 := Binary{Op: "<", L: k, R: IntLit{2}}
	switch kind {
	case "call-lf-three":
		return FuncDef{Name: "lfthree", Body: []Stmt{For{Init: def, Cond: lt2, Post: inc, Body: []Stmt{show("lf3")}}}}
	case "call-lf-cond":
		return FuncDef{Name: "lfcond", Body: []Stmt{def, For{Cond: lt2, Body: []Stmt{show("lfc"), inc}}}}
	case "call-lf-bare":
		return FuncDef{Name: "lfbare", Body: []Stmt{def, For{Body: []Stmt{If{Cond: Binary{Op: ">=", L: k, R: IntLit{2}}, Then: []Stmt{Break{}}}, show("lfb"), inc}}}}
	case "call-lf-nested":
		return FuncDef{Name: "lfnested", Body: []Stmt{For{Init: def, Cond: lt2, Post: inc, Body: []Stmt{
			Define{Names: []string{"m"}, Form: DefShort, Vals: []Expr{IntLit{0}}},
			For{Cond: Binary{Op: "<", L: Var{"m"}, R: IntLit{2}}, Body: []Stmt{IncDec{Name: "m", Inc: true}, If{Cond: Binary{Op: "==", L: Var{"m"}, R: IntLit{1}}, Then: []Stmt{Continue{}}}, Print{Args: []Expr{StrLit{V: "lfn"}, k, Var{"m"}}}}}}}}}
	case "call-lf-branch":
		return FuncDef{Name: "lfbranch", Params: []Param{{"k", TInt}}, Body: []Stmt{If{Cond: Binary{Op: "==", L: k, R: IntLit{0}}, Then: []Stmt{show("lfi0")}, Elifs: []ElseIf{{Cond: Binary{Op: "==", L: k, R: IntLit{1}}, Body: []Stmt{show("lfi1")}}}, Else: []Stmt{show("lfie")}, HasElse: true},
			Switch{Tag: k, Cases: []Case{{Val: IntLit{1}, Body: []Stmt{show("lfs1")}}, {Default: true, Body: []Stmt{show("lfsd")}}}}}}
	}
	return nil
}

func skUsedLoopFuncs(seq []skNode, into map[string]bool) {
	for _, n := range seq {
		if strings.HasPrefix(n.kind.name, "call-lf-") {
			into[n.kind.name] = true
		}
		for _, kid := range n.kids {
			skUsedLoopFuncs(kid, into)
		}
	}
}

func skLoopFuncDefs(seq []skNode) []Stmt {
	used := map[string]bool{}
	skUsedLoopFuncs(seq, used)
	var out []Stmt
	for _, k := range []string{"call-lf-three", "call-lf-cond", "call-lf-bare", "call-lf-nested", "call-lf-branch"} {
		if used[k] {
			out = append(out, skLoopFunc(k))
		}
	}
	return out
}

var forForms = []string{"three", "noinit", "nopost", "nocond", "semis", "cond", "bare", "down", "assigninit", "oppost"}
var jumps = []string{"", "break-start", "continue-start", "break-end", "continue-end", "break-uncond"}

func forKinds(forms, js []string) []skKind {
	var out []skKind
	for _, f := range forms {
		for _, j := range js {
			out = append(out, skKind{name: "for-" + f + "/" + j, blocks: 1, loop: true, jump: j, form: f})
		}
	}
	return out
}

func fullKinds() []skKind {
	ks := append([]skKind{}, ifKinds...)
	ks = append(ks, switchKinds...)
	ks = append(ks, leafKinds...)
	ks = append(ks, forKinds(forForms, jumps)...)
	return ks
}

func controlKinds() []skKind {
	ks := []skKind{ifKinds[0], ifKinds[3], switchKinds[2], {name: "call-lf-cond"}, {name: "call-lf-three"}, {name: "jump-continue"}, {name: "jump-break"}}
	ks = append(ks, forKinds([]string{"three"}, []string{"", "break-start", "continue-end"})...)
	ks = append(ks, forKinds([]string{"cond"}, []string{"", "continue-start"})...)
	ks = append(ks, forKinds([]string{"bare"}, []string{"", "break-end"})...)
	return ks
}

func mediumKinds() []skKind {
	ks := []skKind{ifKinds[0], ifKinds[1], ifKinds[3], switchKinds[1], switchKinds[2], switchKinds[7], leafKinds[0], leafKinds[1]}
	ks = append(ks, forKinds([]string{"three", "cond", "bare", "nopost"}, []string{"", "break-start", "continue-start", "continue-end"})...)
	return ks
}

// enumSeqs returns all construct sequences with exactly n constructs in total,
// nesting depth <= d, at most maxLen constructs per block.
func enumSeqs(kinds []skKind, n, d, maxLen int, memo map[[3]int][][]skNode) [][]skNode {
	if n == 0 {
		return [][]skNode{nil}
	}
	if maxLen == 0 || d == 0 {
		return nil
	}
	key := [3]int{n, d, maxLen}
	if r, ok := memo[key]; ok {
		return r
	}
	var out [][]skNode
	for first := 1; first <= n; first++ {
		heads := enumNodes(kinds, first, d, memo)
		rests := enumSeqs(kinds, n-first, d, maxLen-1, memo)
		for _, h := range heads {
			for _, rest := range rests {
				seq := append([]skNode{h}, rest...)
				out = append(out, seq)
			}
		}
	}
	memo[key] = out
	return out
}

func enumNodes(kinds []skKind, n, d int, memo map[[3]int][][]skNode) []skNode {
	var out []skNode
	for _, k := range kinds {
		if k.blocks == 0 {
			if n == 1 {
				out = append(out, skNode{kind: k})
			}
			continue
		}
		// distribute n-1 constructs over the blocks
		var dist func(b, left int, acc [][]skNode)
		dist = func(b, left int, acc [][]skNode) {
			if b == k.blocks {
				if left == 0 {
					out = append(out, skNode{kind: k, kids: append([][]skNode{}, acc...)})
				}
				return
			}
			for m := 0; m <= left; m++ {
				for _, s := range enumSeqs(kinds, m, d-1, 2, memo) {
					dist(b+1, left-m, append(acc, s))
				}
			}
		}
		dist(0, n-1, nil)
	}
	return out
}

// skRec records, for the static Batch checks of C16, which marker ids were allocated inside
// each construct and which marker sits directly in front of each break/continue.
type skConstruct struct {
	name   string
	loop   bool
	lo, hi int // marker ids allocated while building the construct: [lo, hi] (empty if hi < lo)
}
type skJump struct {
	marker int    // id of the marker printed immediately before the jump statement
	kind   string // break | continue
	loop   int    // index into constructs
}
type skRec struct {
	constructs []skConstruct
	jumps      []skJump
}

// skBuilder turns a skeleton into a program.
type skBuilder struct {
	rec        *skRec
	nextMarker int
	nextCtr    int
	nextSimple int
	nextCond   int
	loops      []skLoopCtx // enclosing loops of the position being built, innermost last
}

// skLoopCtx describes an enclosing loop for the jump leaves (continue / break placed anywhere below a loop).
type skLoopCtx struct {
	ctr   string
	step  []Stmt // the manual increment of a loop form without a post clause (must precede a continue)
	idx   int    // index of the loop in rec.constructs
	inner []string
	sw    int // switches entered since the loop (a break there would leave the switch: excluded as undefined)
}

// jumpIf emits `if cond { marker; [step;] continue|break }` for the loop lc; the marker in front of the jump lets
// C16 locate the emitted jump.
func (b *skBuilder) jumpIf(lc skLoopCtx, cond Expr, kind string) Stmt {
	lo := b.nextMarker + 1
	m := b.marker(lc.inner)
	if b.rec != nil {
		b.rec.constructs = append(b.rec.constructs, skConstruct{name: "jump-if", lo: lo, hi: b.nextMarker})
		b.rec.jumps = append(b.rec.jumps, skJump{marker: b.nextMarker, kind: kind, loop: lc.idx})
	}
	if kind == "break" {
		return If{Cond: cond, Then: []Stmt{m, Break{}}}
	}
	return If{Cond: cond, Then: append(append([]Stmt{m}, lc.step...), Continue{})}
}

var simpleCycle = []func() Stmt{
	func() Stmt { return IncDec{Name: "x", Inc: true} },
	func() Stmt { return OpAssign{Name: "x", Op: "+", Val: IntLit{2}} },
	func() Stmt { return OpAssign{Name: "x", Op: "*", Val: IntLit{3}} },
	func() Stmt { return OpAssign{Name: "x", Op: "-", Val: IntLit{1}} },
	func() Stmt { return IncDec{Name: "x", Inc: false} },
	func() Stmt { return OpAssign{Name: "x", Op: "/", Val: IntLit{2}} },
	func() Stmt { return OpAssign{Name: "x", Op: "%", Val: IntLit{7}} },
	func() Stmt { return Assign{Names: []string{"t"}, Vals: []Expr{Unary{Op: "!", X: Var{"t"}}}} },
	func() Stmt { return OpAssign{Name: "w", Op: "+", Val: StrLit{V: "a"}} },
	func() Stmt {
		return Assign{Names: []string{"x"}, Vals: []Expr{Binary{Op: "+", L: Var{"x"}, R: IntLit{1}}}}
	},
}

func (b *skBuilder) marker(ctrs []string) Stmt {
	b.nextMarker++
	args := []Expr{StrLit{V: fmt.Sprintf("m%d", b.nextMarker)}, Var{"x"}, Var{"t"}, Var{"w"}}
	for _, c := range ctrs {
		args = append(args, Var{c})
	}
	return Print{Args: args}
}

func (b *skBuilder) simple() Stmt {
	s := simpleCycle[b.nextSimple%len(simpleCycle)]()
	b.nextSimple++
	return s
}

// subject returns the expression conditions talk about: the innermost live
// counter, or x modulo 3 at top level.
func subject(ctrs []string) Expr {
	if len(ctrs) > 0 {
		return Var{ctrs[len(ctrs)-1]}
	}
	return Binary{Op: "%", L: Var{"x"}, R: IntLit{3}}
}

func (b *skBuilder) cond(ctrs []string) Expr {
	s := subject(ctrs)
	b.nextCond++
	switch b.nextCond % 6 {
	case 0:
		return Binary{Op: "==", L: s, R: IntLit{0}}
	case 1:
		return Binary{Op: "<", L: s, R: IntLit{2}}
	case 2:
		return Binary{Op: "!=", L: s, R: IntLit{1}}
	case 3:
		return Unary{Op: "!", X: Group{X: Binary{Op: "==", L: s, R: IntLit{2}}}}
	case 4:
		return Binary{Op: "||", L: Binary{Op: "==", L: s, R: IntLit{0}}, R: Binary{Op: "&&", L: Binary{Op: "==", L: s, R: IntLit{2}}, R: Binary{Op: ">", L: Var{"x"}, R: IntLit{0}}}}
	}
	return Binary{Op: "&&", L: Group{X: Binary{Op: "||", L: Binary{Op: "==", L: s, R: IntLit{0}}, R: Binary{Op: "==", L: s, R: IntLit{2}}}}, R: Binary{Op: ">", L: Var{"x"}, R: IntLit{0}}}
}

func eqc(s Expr, c int64) Expr { return Binary{Op: "==", L: s, R: IntLit{c}} }

func (b *skBuilder) block(kids []skNode, ctrs []string, inLoop bool) []Stmt {
	out := []Stmt{b.marker(ctrs), b.simple()}
	for _, k := range kids {
		out = append(out, b.node(k, ctrs, inLoop)...)
		out = append(out, b.marker(ctrs))
	}
	return out
}

func (b *skBuilder) node(n skNode, ctrs []string, inLoop bool) []Stmt {
	if b.rec != nil && !n.kind.loop {
		lo := b.nextMarker + 1
		idx := len(b.rec.constructs)
		b.rec.constructs = append(b.rec.constructs, skConstruct{name: n.kind.name})
		out := b.nodeInner(n, ctrs, inLoop)
		b.rec.constructs[idx].lo, b.rec.constructs[idx].hi = lo, b.nextMarker
		return out
	}
	return b.nodeInner(n, ctrs, inLoop)
}

func (b *skBuilder) nodeInner(n skNode, ctrs []string, inLoop bool) []Stmt {
	k := n.kind
	blk := func(i int) []Stmt { return b.block(n.kids[i], ctrs, inLoop) }
	s := subject(ctrs)
	if strings.HasPrefix(k.name, "sw-") && len(b.loops) > 0 {
		b.loops[len(b.loops)-1].sw++
		defer func() { b.loops[len(b.loops)-1].sw-- }()
	}
	switch {
	case strings.HasPrefix(k.name, "jump-"):
		if len(b.loops) == 0 {
			return []Stmt{b.simple()}
		}
		lc := b.loops[len(b.loops)-1]
		switch k.name {
		case "jump-continue":
			return []Stmt{b.jumpIf(lc, eqc(Var{lc.ctr}, 1), "continue")}
		case "jump-break":
			if lc.sw > 0 {
				return []Stmt{b.simple()}
			}
			return []Stmt{b.jumpIf(lc, eqc(Var{lc.ctr}, 2), "break")}
		}
		// an unconditional continue as a statement of its own (whatever follows it in the block is never run)
		j := b.jumpIf(lc, BoolLit{true}, "continue").(If)
		return j.Then
	case k.name == "if":
		return []Stmt{If{Cond: b.cond(ctrs), Then: blk(0)}}
	case k.name == "if-else":
		return []Stmt{If{Cond: b.cond(ctrs), Then: blk(0), Else: blk(1), HasElse: true}}
	case k.name == "if-elif":
		return []Stmt{If{Cond: eqc(s, 0), Then: blk(0), Elifs: []ElseIf{{Cond: eqc(s, 1), Body: blk(1)}}}}
	case k.name == "if-elif-else":
		return []Stmt{If{Cond: eqc(s, 1), Then: blk(0), Elifs: []ElseIf{{Cond: Binary{Op: "<", L: s, R: IntLit{1}}, Body: blk(1)}}, Else: blk(2), HasElse: true}}
	case k.name == "if-elif-elif-else":
		return []Stmt{If{Cond: eqc(s, 2), Then: blk(0), Elifs: []ElseIf{{Cond: eqc(s, 0), Body: blk(1)}, {Cond: Binary{Op: ">=", L: s, R: IntLit{0}}, Body: blk(2)}}, Else: blk(3), HasElse: true}}
	case k.name == "sw-tag-0":
		return []Stmt{Switch{Tag: s, Cases: []Case{{Val: IntLit{0}, Body: blk(0)}}}}
	case k.name == "sw-tag-0-1":
		return []Stmt{Switch{Tag: s, Cases: []Case{{Val: IntLit{0}, Body: blk(0)}, {Val: IntLit{1}, Body: blk(1)}}}}
	case k.name == "sw-tag-1-default":
		return []Stmt{Switch{Tag: s, Cases: []Case{{Val: IntLit{1}, Body: blk(0)}, {Default: true, Body: blk(1)}}}}
	case k.name == "sw-tag-default-0":
		return []Stmt{Switch{Tag: s, Cases: []Case{{Default: true, Body: blk(0)}, {Val: IntLit{0}, Body: blk(1)}}}}
	case k.name == "sw-tag-0-default-1":
		return []Stmt{Switch{Tag: s, Cases: []Case{{Val: IntLit{0}, Body: blk(0)}, {Default: true, Body: blk(1)}, {Val: IntLit{1}, Body: blk(2)}}}}
	case k.name == "sw-default":
		return []Stmt{Switch{Tag: s, Cases: []Case{{Default: true, Body: blk(0)}}}}
	case k.name == "sw-empty":
		return []Stmt{Switch{Tag: s}}
	case k.name == "sw-true":
		return []Stmt{Switch{Tag: BoolLit{true}, Cases: []Case{{Val: eqc(s, 0), Body: blk(0)}, {Default: true, Body: blk(1)}}}}
	case k.name == "sw-tagless":
		return []Stmt{Switch{Cases: []Case{{Val: eqc(s, 1), Body: blk(0)}, {Val: Binary{Op: "<", L: s, R: IntLit{1}}, Body: blk(1)}}}}
	case k.name == "if-empty":
		return []Stmt{If{Cond: b.cond(ctrs)}}
	case k.name == "case-empty":
		return []Stmt{Switch{Tag: s, Cases: []Case{{Val: IntLit{0}}, {Default: true, Body: []Stmt{b.simple()}}}}}
	case k.name == "elif-empty-middle":
		return []Stmt{If{Cond: eqc(s, 2), Then: []Stmt{b.simple()}, Elifs: []ElseIf{{Cond: Binary{Op: "<", L: s, R: IntLit{2}}}, {Cond: eqc(s, 1), Body: []Stmt{b.simple(), b.simple()}}}, Else: []Stmt{b.simple(), b.simple(), b.simple()}, HasElse: true}}
	case k.name == "elif-empty-last":
		return []Stmt{If{Cond: eqc(s, 2), Then: []Stmt{b.simple()}, Elifs: []ElseIf{{Cond: eqc(s, 0), Body: []Stmt{b.simple(), b.simple()}}, {Cond: Binary{Op: ">=", L: s, R: IntLit{0}}}}}}
	case k.name == "case-empty-middle":
		return []Stmt{Switch{Tag: s, Cases: []Case{{Val: IntLit{2}, Body: []Stmt{b.simple()}}, {Val: IntLit{0}}, {Val: IntLit{1}, Body: []Stmt{b.simple(), b.simple()}}, {Default: true, Body: []Stmt{b.simple(), b.simple(), b.simple()}}}}}
	case k.name == "for-empty":
		b.nextCtr++
		c := fmt.Sprintf("c%d", b.nextCtr)
		return []Stmt{For{Init: Define{Names: []string{c}, Form: DefShort, Vals: []Expr{IntLit{0}}}, Cond: Binary{Op: "<", L: Var{c}, R: IntLit{3}}, Post: IncDec{Name: c, Inc: true}}}
	case k.name == "panic":
		b.nextMarker++
		return []Stmt{Panic{X: StrLit{V: fmt.Sprintf("p%d", b.nextMarker)}}}
	case k.name == "panic-if":
		b.nextMarker++
		return []Stmt{If{Cond: eqc(s, 1), Then: []Stmt{Panic{X: StrLit{V: fmt.Sprintf("p%d", b.nextMarker)}}}}}
	case k.name == "simple2":
		return []Stmt{b.simple(), b.simple()}
	case k.name == "call-lf-branch":
		return []Stmt{ExprStmt{X: Call{Fn: "lfbranch", Args: []Expr{s}}}}
	case strings.HasPrefix(k.name, "call-lf-"):
		return []Stmt{ExprStmt{X: Call{Fn: "lf" + strings.TrimPrefix(k.name, "call-lf-")}}}
	case k.loop:
		return b.loop(n, ctrs)
	}
	panic("skBuilder: unknown kind " + k.name)
}

func (b *skBuilder) loop(n skNode, ctrs []string) []Stmt {
	k := n.kind
	b.nextCtr++
	c := fmt.Sprintf("c%d", b.nextCtr)
	inner := append(append([]string{}, ctrs...), c)
	down := k.form == "down"
	def := Define{Names: []string{c}, Form: DefShort, Vals: []Expr{IntLit{0}}}
	var cond Expr = Binary{Op: "<", L: Var{c}, R: IntLit{3}}
	var post Stmt = IncDec{Name: c, Inc: true}
	if down {
		def.Vals = []Expr{IntLit{2}}
		cond = Binary{Op: ">=", L: Var{c}, R: IntLit{0}}
		post = IncDec{Name: c, Inc: false}
	}
	hasPost := k.form == "three" || k.form == "noinit" || k.form == "nocond" || k.form == "down" || k.form == "assigninit" || k.form == "oppost"
	hasCond := k.form == "three" || k.form == "noinit" || k.form == "nopost" || k.form == "cond" || k.form == "down" || k.form == "assigninit" || k.form == "oppost"
	step := func() []Stmt { // manual increment for forms without a post statement
		if hasPost {
			return nil
		}
		return []Stmt{post}
	}
	var body []Stmt
	loopIdx := -1
	loLoop := b.nextMarker + 1
	if b.rec != nil {
		loopIdx = len(b.rec.constructs)
		b.rec.constructs = append(b.rec.constructs, skConstruct{name: k.name, loop: true})
	}
	// every break/continue is preceded by its own marker, so the emitted jump can be located
	lc := skLoopCtx{ctr: c, step: step(), idx: loopIdx, inner: inner}
	jumpIf := func(cond Expr, kind string) Stmt { return b.jumpIf(lc, cond, kind) }
	if !hasCond {
		body = append(body, jumpIf(Binary{Op: ">=", L: Var{c}, R: IntLit{3}}, "break"))
	}
	jumpStmt := func(kind string) Stmt { return jumpIf(eqc(Var{c}, 1), kind) }
	switch k.jump {
	case "break-start":
		body = append(body, jumpStmt("break"))
	case "continue-start":
		body = append(body, jumpStmt("continue"))
	}
	b.loops = append(b.loops, lc)
	body = append(body, b.block(n.kids[0], inner, true)...)
	b.loops = b.loops[:len(b.loops)-1]
	switch k.jump {
	case "break-end":
		body = append(body, jumpStmt("break"))
	case "continue-end":
		body = append(body, jumpStmt("continue"))
	}
	body = append(body, b.marker(inner))
	if k.jump == "break-uncond" {
		if b.rec != nil {
			b.rec.jumps = append(b.rec.jumps, skJump{marker: b.nextMarker, kind: "break", loop: loopIdx})
		}
		body = append(body, Break{})
	} else {
		body = append(body, step()...)
	}
	if b.rec != nil {
		b.rec.constructs[loopIdx].lo, b.rec.constructs[loopIdx].hi = loLoop, b.nextMarker
	}
	var out []Stmt
	f := For{Body: body}
	switch k.form {
	case "three", "down":
		f.Init, f.Cond, f.Post = def, cond, post
	case "noinit":
		out = append(out, def)
		f.Cond, f.Post, f.Three = cond, post, true
	case "assigninit":
		// the init clause ASSIGNS a variable declared before the loop (for c = 0; ...)
		out = append(out, Define{Names: def.Names, Form: DefShort, Vals: []Expr{IntLit{7}}})
		f.Init, f.Cond, f.Post = Assign{Names: def.Names, Vals: def.Vals}, cond, post
	case "oppost":
		// the post clause is a compound assignment (c += 1)
		f.Init, f.Cond, f.Post = def, cond, OpAssign{Name: c, Op: "+", Val: IntLit{1}}
	case "nopost":
		f.Init, f.Cond, f.Three = def, cond, true
	case "nocond":
		f.Init, f.Post, f.Three = def, post, true
	case "semis":
		out = append(out, def)
		f.Three = true
	case "cond":
		out = append(out, def)
		f.Cond = cond
	case "bare":
		out = append(out, def)
	}
	return append(out, f)
}

func skProgram(seq []skNode) *Prog {
	b := &skBuilder{}
	st := skLoopFuncDefs(seq)
	st = append(st, []Stmt{
		Define{Names: []string{"x"}, Form: DefShort, Vals: []Expr{IntLit{0}}},
		Define{Names: []string{"t"}, Form: DefShort, Vals: []Expr{BoolLit{false}}},
		Define{Names: []string{"w"}, Form: DefShort, Vals: []Expr{StrLit{V: ""}}},
	}...)
	for _, n := range seq {
		st = append(st, b.node(n, nil, false)...)
		st = append(st, b.marker(nil))
	}
	return &Prog{Stmts: st}
}

func skName(seq []skNode) string {
	var parts []string
	for _, n := range seq {
		s := n.kind.name
		if len(n.kids) > 0 {
			var ks []string
			for _, kid := range n.kids {
				ks = append(ks, skName(kid))
			}
			s += "{" + strings.Join(ks, "|") + "}"
		}
		parts = append(parts, s)
	}
	return strings.Join(parts, ";")
}

// simple-statement table: every simple statement form in every context.
func c01SimplePrograms() []*Prog {
	simples := []Stmt{
		Assign{Names: []string{"x"}, Vals: []Expr{Binary{Op: "+", L: Var{"x"}, R: IntLit{1}}}},
		OpAssign{Name: "x", Op: "+", Val: IntLit{2}}, OpAssign{Name: "x", Op: "-", Val: IntLit{1}},
		OpAssign{Name: "x", Op: "*", Val: IntLit{2}}, OpAssign{Name: "x", Op: "/", Val: IntLit{2}},
		OpAssign{Name: "x", Op: "%", Val: IntLit{3}}, IncDec{Name: "x", Inc: true}, IncDec{Name: "x", Inc: false},
		Assign{Names: []string{"t"}, Vals: []Expr{Unary{Op: "!", X: Var{"t"}}}},
		OpAssign{Name: "w", Op: "+", Val: StrLit{V: "a"}},
		Define{Names: []string{"y", "z"}, Form: DefShort, Vals: []Expr{IntLit{1}, IntLit{2}}},
		Define{Names: []string{"y"}, Form: DefVarType, T: TInt},
		Define{Names: []string{"y", "z"}, Form: DefVarType, T: TStr},
		Define{Names: []string{"y"}, Form: DefVarType, T: TBool},
		Define{Names: []string{"y"}, Form: DefVarTypeIn, T: TInt, Vals: []Expr{IntLit{3}}},
		Define{Names: []string{"y", "z"}, Form: DefVarTypeIn, T: TInt, Vals: []Expr{IntLit{3}, Var{"x"}}},
		Define{Names: []string{"y"}, Form: DefVarInit, Vals: []Expr{StrLit{V: "v"}}},
		Define{Names: []string{"y"}, Form: DefVarInit, Vals: []Expr{Binary{Op: "<", L: Var{"x"}, R: IntLit{5}}}},
		Assign{Names: []string{"x", "w"}, Vals: []Expr{IntLit{9}, StrLit{V: "n"}}},
		Assign{Names: []string{"x", "w"}, Vals: []Expr{Binary{Op: "+", L: Var{"x"}, R: IntLit{1}}, Itoa{X: Var{"x"}}}},
		Assign{Names: []string{"x", "v2"}, Vals: []Expr{Group{X: Var{"v2"}}, Group{X: Var{"x"}}}},
		Assign{Names: []string{"t", "x", "v2"}, Vals: []Expr{Binary{Op: "<", L: Var{"x"}, R: Var{"v2"}}, Var{"v2"}, Binary{Op: "*", L: Group{X: Var{"x"}}, R: IntLit{2}}}},
		Assign{Names: []string{"w", "x"}, Vals: []Expr{Binary{Op: "+", L: Itoa{X: Var{"x"}}, R: Var{"w"}}, Len{X: Var{"w"}}}},
		Print{}, Print{Args: []Expr{Var{"x"}}}, Print{Args: []Expr{Var{"x"}, Var{"t"}}}, Print{Args: []Expr{Var{"x"}, Var{"t"}, Var{"w"}}},
		Print{Args: []Expr{Itoa{X: Var{"x"}}, Binary{Op: "+", L: Itoa{X: IntLit{12}}, R: StrLit{V: "z"}}}},
	}
	after := func(s Stmt) []Stmt { // show what a definition defined
		if d, ok := s.(Define); ok {
			args := []Expr{StrLit{V: "def"}}
			for _, n := range d.Names {
				args = append(args, Var{n})
			}
			return []Stmt{Print{Args: args}}
		}
		return nil
	}
	pre := []Stmt{
		Define{Names: []string{"x"}, Form: DefShort, Vals: []Expr{IntLit{5}}},
		Define{Names: []string{"t"}, Form: DefShort, Vals: []Expr{BoolLit{false}}},
		Define{Names: []string{"w"}, Form: DefShort, Vals: []Expr{StrLit{V: "q"}}},
		Define{Names: []string{"v2"}, Form: DefShort, Vals: []Expr{IntLit{3}}},
	}
	show := Print{Args: []Expr{StrLit{V: "end"}, Var{"x"}, Var{"t"}, Var{"w"}, Var{"v2"}}}
	wrap := []func(body []Stmt) []Stmt{
		func(b []Stmt) []Stmt { return b },
		func(b []Stmt) []Stmt { return []Stmt{If{Cond: BoolLit{true}, Then: b}} },
		func(b []Stmt) []Stmt {
			return []Stmt{If{Cond: BoolLit{false}, Then: []Stmt{show}, Else: b, HasElse: true}}
		},
		func(b []Stmt) []Stmt {
			return []Stmt{For{Init: Define{Names: []string{"i"}, Form: DefShort, Vals: []Expr{IntLit{0}}}, Cond: Binary{Op: "<", L: Var{"i"}, R: IntLit{2}}, Post: IncDec{Name: "i", Inc: true}, Body: b}}
		},
		func(b []Stmt) []Stmt {
			return []Stmt{Switch{Tag: Var{"x"}, Cases: []Case{{Val: IntLit{5}, Body: b}, {Default: true, Body: []Stmt{show}}}}}
		},
		func(b []Stmt) []Stmt {
			return []Stmt{For{Cond: Binary{Op: "<", L: Var{"x"}, R: IntLit{7}}, Body: []Stmt{If{Cond: Unary{Op: "!", X: Var{"t"}}, Then: b}, IncDec{Name: "x", Inc: true}}}}
		},
	}
	var out []*Prog
	for _, s := range simples {
		for _, w := range wrap {
			body := append([]Stmt{s}, after(s)...)
			body = append(body, show)
			st := append(append([]Stmt{}, pre...), w(body)...)
			st = append(st, show)
			out = append(out, &Prog{Stmts: st})
		}
	}
	// names that live only inside a construct are free again after it, in the same block: a second loop with
	// the same counter, a definition of the counter's name after the loop, a block-local name defined again
	// after the block (also with another type)
	loopK := func(from, to int, body ...Stmt) Stmt {
		return For{Init: Define{Names: []string{"k"}, Form: DefShort, Vals: []Expr{IntLit{int64(from)}}}, Cond: Binary{Op: "<", L: Var{"k"}, R: IntLit{int64(to)}}, Post: IncDec{Name: "k", Inc: true}, Body: body}
	}
	pk := Print{Args: []Expr{StrLit{V: "k"}, Var{"k"}}}
	py := Print{Args: []Expr{StrLit{V: "y"}, Var{"y"}}}
	defY := func(v Expr) Stmt { return Define{Names: []string{"y"}, Form: DefShort, Vals: []Expr{v}} }
	reuse := [][]Stmt{
		{loopK(0, 2, pk), loopK(5, 7, pk)},
		{loopK(0, 2, pk), loopK(5, 7, pk), loopK(1, 2, pk)},
		{loopK(0, 2, pk), Define{Names: []string{"k"}, Form: DefShort, Vals: []Expr{IntLit{9}}}, pk},
		{loopK(0, 2, pk), Define{Names: []string{"k"}, Form: DefVarTypeIn, T: TStr, Vals: []Expr{StrLit{V: "s"}}}, pk},
		{loopK(0, 2, pk), Define{Names: []string{"k"}, Form: DefVarType, T: TBool}, pk},
		{loopK(0, 2, defY(Binary{Op: "*", L: Var{"k"}, R: IntLit{2}}), py), defY(IntLit{3}), py, loopK(3, 4, pk)},
		{If{Cond: BoolLit{true}, Then: []Stmt{defY(IntLit{1}), py}}, defY(IntLit{2}), py},
		{If{Cond: Var{"t"}, Then: []Stmt{defY(IntLit{1}), py}, Else: []Stmt{defY(StrLit{V: "e"}), py}, HasElse: true}, defY(BoolLit{true}), py},
		{Switch{Tag: Var{"x"}, Cases: []Case{{Val: IntLit{5}, Body: []Stmt{defY(IntLit{1}), py}}, {Default: true, Body: []Stmt{defY(IntLit{2}), py}}}}, defY(IntLit{7}), py},
		{For{Cond: Binary{Op: "<", L: Var{"v2"}, R: IntLit{5}}, Body: []Stmt{defY(Var{"v2"}), py, IncDec{Name: "v2", Inc: true}}}, defY(StrLit{V: "after"}), py},
	}
	// literal conditions in every position of a chain (a back-end may fold a constant branch away)
	for _, c1 := range []Expr{BoolLit{false}, BoolLit{true}} {
		for _, c2 := range []Expr{BoolLit{false}, BoolLit{true}, Binary{Op: ">", L: Var{"x"}, R: IntLit{3}}, Binary{Op: ">", L: Var{"x"}, R: IntLit{30}}} {
			pz := func(tag string) []Stmt { return []Stmt{Print{Args: []Expr{StrLit{V: tag}, Var{"x"}}}} }
			reuse = append(reuse,
				[]Stmt{If{Cond: c1, Then: pz("then"), Elifs: []ElseIf{{Cond: c2, Body: pz("elif")}}, Else: pz("else"), HasElse: true}},
				[]Stmt{If{Cond: c1, Then: pz("then"), Elifs: []ElseIf{{Cond: c2, Body: pz("elif")}}}},
				[]Stmt{If{Cond: c2, Then: pz("then"), Elifs: []ElseIf{{Cond: c1, Body: pz("elif")}, {Cond: c2, Body: pz("elif2")}}, Else: pz("else"), HasElse: true}},
				[]Stmt{If{Cond: c1, Then: pz("then"), Else: pz("else"), HasElse: true}, If{Cond: c2, Then: pz("then2")}},
				[]Stmt{Switch{Tag: c1, Cases: []Case{{Val: BoolLit{true}, Body: pz("case-true")}, {Val: c2, Body: pz("case-c2")}, {Default: true, Body: pz("default")}}}},
				[]Stmt{For{Cond: Binary{Op: "&&", L: c2, R: Binary{Op: "<", L: Var{"x"}, R: IntLit{250}}}, Body: append(pz("loop"), OpAssign{Name: "x", Op: "+", Val: IntLit{100}}, If{Cond: c1, Then: []Stmt{Break{}}})}, If{Cond: Binary{Op: ">", L: Var{"x"}, R: IntLit{250}}, Then: pz("stop")}},
			)
		}
	}
	for _, body := range reuse {
		for _, w := range wrap {
			st := append(append([]Stmt{}, pre...), w(append(append([]Stmt{}, body...), show))...)
			st = append(st, show)
			out = append(out, &Prog{Stmts: st})
		}
	}
	out = append(out, c01TwelveOfEach()...)
	// all ordered pairs of non-defining simple statements at top level and in a loop
	for i, s1 := range simples[:10] {
		for j, s2 := range simples[:10] {
			_ = i
			_ = j
			for _, w := range wrap[:4:4] {
				st := append(append([]Stmt{}, pre...), w([]Stmt{s1, s2, show})...)
				out = append(out, &Prog{Stmts: st})
			}
		}
	}
	return out
}

func c01Skeletons(r *findings.Run, deadline time.Time) {
	type sk struct {
		name string
		prog *Prog
	}
	var all []sk
	add := func(label string, kinds []skKind, n, d int) {
		memo := map[[3]int][][]skNode{}
		seqs := enumSeqs(kinds, n, d, 3, memo)
		for _, s := range seqs {
			all = append(all, sk{label + ":" + skName(s), skProgram(s)})
		}
		r.Set("skeletons_"+label, len(seqs))
	}
	for i, p := range c01SimplePrograms() {
		all = append(all, sk{fmt.Sprintf("simple:#%d", i), p})
	}
	r.Set("skeletons_simple_table", len(all))
	add("n1_full", fullKinds(), 1, 1)
	add("n2_full", fullKinds(), 2, 2)
	add("n3_control", controlKinds(), 3, 3)
	if r.Thorough() {
		add("n3_medium", mediumKinds(), 3, 3)
		add("n4_control", controlKinds(), 4, 3)
	}
	distinct := findings.NewDistinct()
	outcomes := findings.NewDistinct()
	var mu sync.Mutex
	done, undef := 0, 0
	respelled := 0
	capped := false
	kindsSeen := map[string]int{}
	drive.Par(len(all), func(i int) {
		if past(deadline) {
			mu.Lock()
			capped = true
			mu.Unlock()
			return
		}
		s := all[i]
		pv := JudgeBash(s.prog, ProgOpts{})
		mu.Lock()
		done++
		mu.Unlock()
		distinct.Add(pv.Src)
		if pv.Symptom == "undefined" {
			mu.Lock()
			undef++
			mu.Unlock()
			return
		}
		outcomes.Add(pv.Want.Stdout)
		if i%499 == 0 {
			r.Sample(map[string]string{"kind": "skeleton", "name": s.name, "source": pv.Src})
		}
		if pv.Symptom != "" {
			if r.Violations() > 40 {
				return
			}
			pv = confirm(s.prog, ProgOpts{}, pv)
			if pv.Symptom == "" {
				return // a sandbox kill that did not repeat (counted in common.go)
			}
			r.Fail("skeleton="+s.name+" symptom="+pv.Symptom, fmt.Sprintf("control skeleton %s: %s (%s)", s.name, pv.Symptom, pv.Detail), progReplay(pv, nil))
		} else if sp := spellings[i%len(spellings)]; i%2 == 0 || strings.HasPrefix(s.name, "simple:") {
			// the same program in another identifier spelling (every second skeleton, every simple program; the
			// spellings take turns): acceptance and behaviour must not depend on how names look
			rp := renameProg(s.prog, sp.f)
			if rv := JudgeBash(rp, ProgOpts{}); rv.Symptom != "" && rv.Symptom != "undefined" && r.Violations() <= 40 {
				rv = confirm(rp, ProgOpts{}, rv)
				if rv.Symptom != "" {
					r.Fail("skeleton="+s.name+" spelling="+sp.name+" symptom="+rv.Symptom, fmt.Sprintf("control skeleton %s with %s identifiers: %s (%s)", s.name, sp.name, rv.Symptom, rv.Detail), progReplay(rv, nil))
				}
			}
			mu.Lock()
			respelled++
			mu.Unlock()
		}
		if pv.Symptom == "" && (strings.HasPrefix(s.name, "simple:") || i%16 == 0) {
			// the simple-statement programs and every sixteenth skeleton also in the compact spelling
			if cv := JudgeBash(s.prog, ProgOpts{Compact: true}); cv.Symptom != "" && cv.Symptom != "undefined" && r.Violations() <= 40 {
				cv = confirm(s.prog, ProgOpts{Compact: true}, cv)
				if cv.Symptom == "" {
					return // a sandbox kill that did not repeat (counted in common.go)
				}
				r.Fail("skeleton="+s.name+" layout=compact symptom="+cv.Symptom, fmt.Sprintf("control skeleton %s in compact layout: %s (%s)", s.name, cv.Symptom, cv.Detail), progReplay(cv, nil))
			}
		}
		mu.Lock()
		kindsSeen[strings.SplitN(s.name, ":", 2)[0]]++
		mu.Unlock()
	})
	r.Add("evaluations", done)
	r.Set("skeleton_programs", done)
	r.Set("skeleton_programs_distinct", distinct.Len())
	r.Set("skeleton_distinct_expected_outputs", outcomes.Len())
	r.Set("skeleton_skipped_undefined", undef)
	r.Set("skeleton_programs_also_judged_in_another_identifier_spelling", respelled)
	ks := []string{}
	for k, n := range kindsSeen {
		ks = append(ks, fmt.Sprintf("%s=%d", k, n))
	}
	sort.Strings(ks)
	r.Set("skeleton_groups_run", ks)
	if capped {
		r.Set("exhaustive", false)
		r.Set("cap_hit_skeletons", "skeleton sweep stopped at the internal deadline")
	}
}

// c01Conformance binds the reference interpreter to the Go toolchain (see goconf.go).
func c01Conformance(r *findings.Run) bool {
	var progs []*Prog
	showAll := Print{Args: []Expr{StrLit{V: "vars"}, Var{"a"}, Var{"b"}, Var{"p"}, Var{"q"}, Var{"s"}, Var{"u"}}}
	addCells := func(trees []Expr, vals []valuation) {
		for _, v := range vals {
			var batch []Expr
			flush := func() {
				if len(batch) > 0 {
					p := cellProg(v, batch)
					p.Stmts = append(p.Stmts, showAll)
					progs = append(progs, p)
					batch = nil
				}
			}
			for _, e := range trees {
				if definedUnder(v, e) {
					batch = append(batch, e)
					if len(batch) == 100 {
						flush()
					}
				}
			}
			flush()
		}
	}
	full := &exprGen{al: fullAlphabet(), memo: map[string][]Expr{}}
	var k01, k2 []Expr
	for _, t := range []string{"int", "bool", "string"} {
		k01 = append(k01, full.gen(t, 0)...)
		k01 = append(k01, full.gen(t, 1)...)
		k2 = append(k2, full.gen(t, 2)...)
	}
	addCells(k01, allValuations())
	if r.Thorough() {
		addCells(k2, curatedValuations())
	} else {
		addCells(k2, curatedValuations()[1:2])
	}
	pa := &exprGen{al: precAlphabet(), memo: map[string][]Expr{}}
	var k3 []Expr
	for _, t := range []string{"int", "bool"} {
		k3 = append(k3, pa.gen(t, 3)...)
	}
	addCells(k3, curatedValuations()[1:2])
	nCells := len(progs)
	hasFunc := func(p *Prog) bool {
		return progHas(p, func(s Stmt) bool { _, ok := s.(FuncDef); return ok })
	}
	for _, p := range c01SimplePrograms() {
		progs = append(progs, p)
	}
	addSk := func(kinds []skKind, n, d int) {
		memo := map[[3]int][][]skNode{}
		for _, s := range enumSeqs(kinds, n, d, 3, memo) {
			if p := skProgram(s); !hasFunc(p) {
				progs = append(progs, p)
			}
		}
	}
	addSk(fullKinds(), 1, 1)
	addSk(fullKinds(), 2, 2)
	if r.Thorough() {
		addSk(controlKinds(), 3, 3)
		addSk(mediumKinds(), 3, 3)
	}
	compared, problems := goConformance(progs, 700)
	r.Set("model_conformance_programs_compiled_with_go", compared)
	r.Set("model_conformance_expression_batches", nCells)
	r.Set("traces_validated_against_go_toolchain", compared)
	if len(problems) > 0 {
		for _, p := range problems {
			fmt.Fprintln(os.Stderr, "MODEL CONFORMANCE:", p)
		}
		fmt.Fprintln(os.Stderr, "HARNESS ERROR: the reference interpreter does not agree with the Go toolchain on generated programs; nothing is judged")
		return false
	}
	return true
}

func C01() int {
	r := findings.New("C01")
	defer drive.Cleanup()
	deadline := r.Deadline(10*time.Minute, 40*time.Minute)
	r.Set("exhaustive", true)
	if !c01Conformance(r) {
		return 2
	}
	if os.Getenv("VERIF_C01_ONLY_CONFORMANCE") != "" {
		fmt.Println("conformance:", r.Cov["model_conformance_programs_compiled_with_go"], "programs agree with the Go toolchain")
		return 0
	}
	c01Expressions(r, deadline)
	c01Skeletons(r, deadline)
	xd, xn, ok := crossRun(r, 1, deadline)
	if !ok {
		return 2
	}
	r.Add("evaluations", xd)
	ec, _ := r.Cov["expr_cells_distinct"].(int)
	sc, _ := r.Cov["skeleton_programs_distinct"].(int)
	r.Set("distinct_nontrivial", ec+sc+xn)
	r.Set("rule", "bounded-exhaustive enumeration: (E) every well-typed expression tree with k operator nodes over the stated leaf/operator alphabets, each under every listed valuation (a cell = tree x valuation; distinct by printed text+valuation; cells the model flags undefined, e.g. zero divisor, are skipped and counted); (S) every control skeleton with n constructs / depth d over the stated construct alphabet plus the simple-statement x context table (distinct by source text). (X) the scalar share of the cross-feature space (cross.go): every statement of a 74-statement alphabet in every context and every context nested in every context, and every ordered pair of statements in a context. Every case is transpiled by the real transpiler, run by the real bash and compared with the reference interpreter (stdout bytes, exit status, empty stderr).")
	r.Assumef("reference interpreter tsmodel (independent of the repository code) is the meaning of the program; strings restricted to shell-neutral content (C08 owns the rest)")
	r.Assumef("bash at /bin/bash, run with empty environment in an empty directory")
	return finish(r)
}

// c01TwelveOfEach: whatever a back-end numbers (loop flags and labels, branch labels, helper temporaries,
// function prefixes, return registers) reaches two digits: twelve constructs of one kind in a row and nested.
func c01TwelveOfEach() []*Prog {
	const n = 12
	iv := func(i int) Expr { return IntLit{int64(i)} }
	pr := func(tag string, es ...Expr) Stmt { return Print{Args: append([]Expr{StrLit{V: tag}}, es...)} }
	x := Var{"x"}
	defX := Define{Names: []string{"x"}, Form: DefShort, Vals: []Expr{iv(0)}}
	var out []*Prog
	// loops in a row, every third with continue, every fourth with break
	{
		st := []Stmt{defX}
		for i := 1; i <= n; i++ {
			k := fmt.Sprintf("k%d", i)
			body := []Stmt{OpAssign{Name: "x", Op: "+", Val: Binary{Op: "*", L: Var{k}, R: iv(i)}}}
			if i%3 == 0 {
				body = append([]Stmt{If{Cond: Binary{Op: "==", L: Var{k}, R: iv(1)}, Then: []Stmt{Continue{}}}}, body...)
			}
			if i%4 == 0 {
				body = append(body, If{Cond: Binary{Op: ">", L: x, R: iv(40 * i)}, Then: []Stmt{Break{}}})
			}
			st = append(st, For{Init: Define{Names: []string{k}, Form: DefShort, Vals: []Expr{iv(0)}}, Cond: Binary{Op: "<", L: Var{k}, R: iv(3)}, Post: IncDec{Name: k, Inc: true}, Body: body}, pr("loop", iv(i), x))
		}
		out = append(out, &Prog{Stmts: st})
	}
	// if / else-if chains and switches in a row
	{
		st := []Stmt{defX}
		for i := 1; i <= n; i++ {
			st = append(st, If{Cond: Binary{Op: "==", L: Binary{Op: "%", L: x, R: iv(3)}, R: iv(0)}, Then: []Stmt{OpAssign{Name: "x", Op: "+", Val: iv(i)}},
				Elifs: []ElseIf{{Cond: Binary{Op: "==", L: Binary{Op: "%", L: x, R: iv(3)}, R: iv(1)}, Body: []Stmt{OpAssign{Name: "x", Op: "+", Val: iv(2 * i)}}}},
				Else:  []Stmt{OpAssign{Name: "x", Op: "-", Val: iv(1)}}, HasElse: true}, pr("if", iv(i), x))
		}
		for i := 1; i <= n; i++ {
			st = append(st, Switch{Tag: Binary{Op: "%", L: x, R: iv(4)}, Cases: []Case{{Val: iv(0), Body: []Stmt{OpAssign{Name: "x", Op: "+", Val: iv(i)}}}, {Val: iv(1), Body: []Stmt{OpAssign{Name: "x", Op: "*", Val: iv(2)}}},
				{Default: true, Body: []Stmt{OpAssign{Name: "x", Op: "+", Val: iv(3)}}}}}, pr("sw", iv(i), x))
		}
		out = append(out, &Prog{Stmts: st})
	}
	// nesting depth 12: loops and branches alternating
	{
		inner := []Stmt{OpAssign{Name: "x", Op: "+", Val: iv(1)}, pr("deep", x)}
		for d := n; d >= 1; d-- {
			k := fmt.Sprintf("d%d", d)
			if d%2 == 0 {
				inner = []Stmt{If{Cond: Binary{Op: ">=", L: x, R: iv(0)}, Then: inner, Else: []Stmt{pr("never", iv(d))}, HasElse: true}}
			} else {
				inner = []Stmt{For{Init: Define{Names: []string{k}, Form: DefShort, Vals: []Expr{iv(0)}}, Cond: Binary{Op: "<", L: Var{k}, R: iv(1 + d%2)}, Post: IncDec{Name: k, Inc: true}, Body: inner}, pr("after", iv(d), x)}
			}
		}
		out = append(out, &Prog{Stmts: append([]Stmt{defX}, inner...)})
	}
	// twelve functions, each with a parameter, a local and a loop; called in a row and nested twelve deep
	{
		var st []Stmt
		for i := 1; i <= n; i++ {
			body := []Stmt{Define{Names: []string{"t"}, Form: DefShort, Vals: []Expr{Binary{Op: "+", L: Var{"a"}, R: iv(i)}}},
				For{Init: Define{Names: []string{"j"}, Form: DefShort, Vals: []Expr{iv(0)}}, Cond: Binary{Op: "<", L: Var{"j"}, R: iv(2)}, Post: IncDec{Name: "j", Inc: true}, Body: []Stmt{OpAssign{Name: "t", Op: "+", Val: Var{"j"}}}}}
			if i > 1 {
				body = append(body, OpAssign{Name: "t", Op: "+", Val: Call{Fn: fmt.Sprintf("f%d", i-1), Args: []Expr{Var{"a"}}}})
			}
			body = append(body, Return{Vals: []Expr{Var{"t"}}})
			st = append(st, FuncDef{Name: fmt.Sprintf("f%d", i), Params: []Param{{"a", TInt}}, Rets: []Type{TInt}, Body: body})
		}
		var nest Expr = iv(1)
		for i := 1; i <= n; i++ {
			st = append(st, pr("call", iv(i), Call{Fn: fmt.Sprintf("f%d", i), Args: []Expr{iv(i)}}))
			nest = Call{Fn: fmt.Sprintf("f%d", 1+(i*5)%n), Args: []Expr{nest}}
		}
		st = append(st, pr("nested", nest))
		out = append(out, &Prog{Stmts: st})
	}
	// one expression with more than ten temporaries of every kind
	{
		var sum Expr = iv(1)
		var all Expr = BoolLit{true}
		var cat Expr = StrLit{V: "s"}
		for i := 2; i <= n+1; i++ {
			sum = Binary{Op: []string{"+", "-", "*"}[i%3], L: sum, R: Group{X: Binary{Op: "%", L: Binary{Op: "+", L: x, R: iv(i)}, R: iv(7)}}}
			all = Binary{Op: []string{"&&", "||"}[i%2], L: all, R: Binary{Op: []string{"<", ">=", "!="}[i%3], L: Binary{Op: "+", L: x, R: iv(i)}, R: iv(2 * i)}}
			cat = Binary{Op: "+", L: cat, R: Itoa{X: Binary{Op: "*", L: x, R: iv(i)}}}
		}
		st := []Stmt{Define{Names: []string{"x"}, Form: DefShort, Vals: []Expr{iv(5)}}, pr("sum", sum), pr("all", all), pr("cat", cat), pr("mix", sum, all, cat, Len{X: cat})}
		out = append(out, &Prog{Stmts: st})
	}
	return out
}

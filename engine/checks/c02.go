package checks

import (
	"fmt"
	"os"
	"strings"
	"sync"
	"time"

	"verif/drive"
	"verif/findings"
	. "verif/tsmodel"
)

func init() { Registry["C02"] = C02 }

// fnSpec describes one generated function; the body is synthesised from it.
type fnSpec struct {
	params   []string // ordered subset of {x, y}
	nret     int
	locals   bool   // define every free name of {x, y} as a local
	write    string // "=", "+=", "++", "swap", "multi"
	callee   int    // index (0-based) of an earlier function, -1 none
	callForm string // "stmt", "value", "multi-def", "multi-assign", "nested", "stmt-nested", "return"
}

func (s fnSpec) String() string {
	return fmt.Sprintf("(%s)->%d locals=%v write=%s call=%d/%s", strings.Join(s.params, ","), s.nret, s.locals, s.write, s.callee, s.callForm)
}

func lit(n int) Expr { return IntLit{V: int64(n)} }

// c02Program builds the whole program for a list of function specs.
// Globals: g before every function (read/written in place by all of them),
// y between f1 and f2 (a global for f2.., a free name for f1), x after all
// functions (never visible inside them, so x is reused as parameter/local).
func c02Program(specs []fnSpec) *Prog {
	var st []Stmt
	st = append(st, Define{Names: []string{"g"}, Form: DefShort, Vals: []Expr{lit(100)}})
	for i, s := range specs {
		if i == 1 {
			st = append(st, Define{Names: []string{"y"}, Form: DefVarTypeIn, T: TInt, Vals: []Expr{lit(200)}})
		}
		st = append(st, c02Func(i, s, specs))
	}
	if len(specs) < 2 {
		st = append(st, Define{Names: []string{"y"}, Form: DefVarTypeIn, T: TInt, Vals: []Expr{lit(200)}})
	}
	// composite spellings: globals named <function>_<variable of that function>, and two functions on one call
	// chain whose names and locals concatenate to the same string (get + item_n / get_item + n)
	st = append(st,
		Define{Names: []string{"item_count"}, Form: DefShort, Vals: []Expr{lit(77)}},
		Define{Names: []string{"item_total"}, Form: DefShort, Vals: []Expr{lit(88)}},
		FuncDef{Name: "get_item", Params: []Param{{"n", TInt}}, Rets: []Type{TInt}, Body: []Stmt{Define{Names: []string{"total"}, Form: DefShort, Vals: []Expr{Binary{Op: "*", L: Var{"n"}, R: lit(3)}}}, Return{Vals: []Expr{Var{"total"}}}}},
		FuncDef{Name: "get", Params: []Param{{"count", TInt}}, Rets: []Type{TInt}, Body: []Stmt{
			Define{Names: []string{"item_n"}, Form: DefShort, Vals: []Expr{Binary{Op: "+", L: Var{"count"}, R: lit(10)}}},
			Define{Names: []string{"item_total2"}, Form: DefShort, Vals: []Expr{Call{Fn: "get_item", Args: []Expr{lit(2)}}}},
			Return{Vals: []Expr{Binary{Op: "+", L: Var{"item_n"}, R: Var{"item_total2"}}}}}},
		FuncDef{Name: "item", Params: []Param{{"count", TInt}}, Rets: []Type{TInt}, Body: []Stmt{
			Define{Names: []string{"total"}, Form: DefShort, Vals: []Expr{Binary{Op: "*", L: Var{"count"}, R: lit(2)}}}, IncDec{Name: "count", Inc: true},
			Return{Vals: []Expr{Binary{Op: "+", L: Var{"total"}, R: Var{"count"}}}}}},
		Print{Args: []Expr{StrLit{V: "composite"}, Call{Fn: "item", Args: []Expr{lit(5)}}, Var{"item_count"}, Var{"item_total"}, Call{Fn: "get", Args: []Expr{lit(1)}}, Var{"item_count"}, Var{"item_total"}}},
	)
	{ // variables of top-level BLOCKS (not globals) spelled like locals of the functions - x, and total (a local of
		// the function defined last) - alive while every function is called; x becomes a global only afterwards
		calls := func(base int) []Stmt {
			var out []Stmt
			for i, s := range specs {
				out = append(out, ExprStmt{X: Call{Fn: fmt.Sprintf("f%d", i+1), Args: c02Args(effParams(i, s), []string{"g"}, base+100*(i+1))}})
			}
			return append(out, Print{Args: []Expr{StrLit{V: "blk:item"}, Call{Fn: "item", Args: []Expr{lit(4)}}, Call{Fn: "get", Args: []Expr{lit(2)}}}})
		}
		st = append(st,
			If{Cond: Binary{Op: ">", L: Var{"g"}, R: lit(-99999)}, Then: append(append([]Stmt{
				Define{Names: []string{"x"}, Form: DefShort, Vals: []Expr{lit(40)}},
				Define{Names: []string{"total"}, Form: DefShort, Vals: []Expr{lit(41)}}},
				calls(5000)...), Print{Args: []Expr{StrLit{V: "blk:if"}, Var{"x"}, Var{"total"}, Var{"g"}}})},
			For{Init: Define{Names: []string{"bk"}, Form: DefShort, Vals: []Expr{lit(0)}}, Cond: Binary{Op: "<", L: Var{"bk"}, R: lit(2)}, Post: IncDec{Name: "bk", Inc: true},
				Body: append(append([]Stmt{
					Define{Names: []string{"x"}, Form: DefShort, Vals: []Expr{Binary{Op: "+", L: Var{"bk"}, R: lit(60)}}},
					Define{Names: []string{"total"}, Form: DefShort, Vals: []Expr{Binary{Op: "+", L: Var{"bk"}, R: lit(70)}}}},
					calls(6000)...), Print{Args: []Expr{StrLit{V: "blk:for"}, Var{"bk"}, Var{"x"}, Var{"total"}, Var{"g"}}})},
		)
	}
	st = append(st, Define{Names: []string{"x"}, Form: DefShort, Vals: []Expr{lit(7)}})
	show := func(tag string, extra ...Expr) Stmt {
		args := []Expr{StrLit{V: tag}, Var{"g"}, Var{"y"}, Var{"x"}}
		return Print{Args: append(args, extra...)}
	}
	st = append(st, show("main:start"))
	for i, s := range specs {
		name := fmt.Sprintf("f%d", i+1)
		args := c02Args(effParams(i, s), []string{"x", "g", "y"}, 1000*(i+1))
		// statement call
		st = append(st, ExprStmt{X: Call{Fn: name, Args: args}}, show("main:after-stmt-"+name))
		// value uses
		switch {
		case s.nret == 1:
			r := fmt.Sprintf("r%d", i+1)
			st = append(st, Define{Names: []string{r}, Form: DefShort, Vals: []Expr{Binary{Op: "+", L: Call{Fn: name, Args: args}, R: lit(1)}}}, show("main:after-val-"+name, Var{r}))
			// Several operands in one statement: only x is read next to a call. The functions write g and y,
			// and Go leaves the order between a variable read and a call that writes the variable unspecified
			// (found by the Go conformance run: gc performs the call first), so such statements are outside
			// the defined fragment. x is defined after all functions and cannot be touched by them.
			argsX := c02Args(effParams(i, s), []string{"x"}, 1000*(i+1))
			st = append(st, Print{Args: []Expr{StrLit{V: "main:direct"}, Call{Fn: name, Args: args}, Call{Fn: name, Args: argsX}}})
			// simultaneous assignment whose later value is a call (the callee may itself assign simultaneously)
			st = append(st, Assign{Names: []string{"x", "g"}, Vals: []Expr{Binary{Op: "+", L: Var{"x"}, R: lit(1)}, Call{Fn: name, Args: argsX}}}, show("main:assign-with-call-"+name))
			st = append(st, Assign{Names: []string{"g", "y", "x"}, Vals: []Expr{Var{"x"}, Call{Fn: name, Args: argsX}, Binary{Op: "+", L: Var{"x"}, R: lit(5)}}}, show("main:rotate-with-call-"+name))
		case s.nret >= 2:
			var names []string
			var vars []Expr
			for k := 0; k < s.nret; k++ {
				n := fmt.Sprintf("r%d_%d", i+1, k)
				names = append(names, n)
				vars = append(vars, Var{n})
			}
			st = append(st, Define{Names: names, Form: DefShort, Vals: []Expr{Call{Fn: name, Args: args}}}, show("main:after-multi-"+name, vars...))
			if s.nret == 2 {
				st = append(st, Assign{Names: []string{"x", "g"}, Vals: []Expr{Call{Fn: name, Args: args}}}, show("main:after-multi-assign-"+name))
			}
		}
	}
	// simultaneous assignment uses the old values on the right
	st = append(st,
		Assign{Names: []string{"x", "g"}, Vals: []Expr{Var{"g"}, Var{"x"}}}, show("main:swap"),
		Assign{Names: []string{"x", "y", "g"}, Vals: []Expr{Var{"y"}, Var{"g"}, Var{"x"}}}, show("main:rotate"),
	)
	return &Prog{Stmts: st}
}

// effParams counts the parameters function i really has: a name that is a
// visible global at its definition (y from f2 on) cannot be a parameter.
func effParams(i int, s fnSpec) int {
	n := 0
	for _, p := range s.params {
		if !(i >= 1 && p == "y") {
			n++
		}
	}
	return n
}

func c02Args(n int, vars []string, base int) []Expr {
	var out []Expr
	for k := 0; k < n; k++ {
		if k < len(vars) {
			out = append(out, Binary{Op: "+", L: Var{vars[k]}, R: lit(base + k)})
		} else {
			out = append(out, lit(base+k))
		}
	}
	return out
}

func c02Func(i int, s fnSpec, specs []fnSpec) Stmt {
	name := fmt.Sprintf("f%d", i+1)
	globals := []string{"g"}
	if i >= 1 {
		globals = append(globals, "y")
	}
	isGlobal := func(n string) bool {
		for _, g := range globals {
			if g == n {
				return true
			}
		}
		return false
	}
	var params []Param
	scope := []string{} // assignable int variables in scope, in order
	for _, p := range s.params {
		if isGlobal(p) {
			continue // a parameter may not reuse the name of a visible global
		}
		params = append(params, Param{Name: p, T: TInt})
		scope = append(scope, p)
	}
	inScope := func(n string) bool {
		for _, v := range scope {
			if v == n {
				return true
			}
		}
		return false
	}
	var body []Stmt
	showAll := func(tag string) Stmt {
		args := []Expr{StrLit{V: name + ":" + tag}}
		for _, v := range scope {
			args = append(args, Var{v})
		}
		for _, g := range globals {
			args = append(args, Var{g})
		}
		return Print{Args: args}
	}
	body = append(body, showAll("in"))
	if s.locals {
		for k, n := range []string{"x", "y"} {
			if !inScope(n) && !isGlobal(n) {
				body = append(body, Define{Names: []string{n}, Form: DefShort, Vals: []Expr{lit(10*(i+1) + k)}})
				scope = append(scope, n)
			}
		}
	}
	all := append(append([]string{}, scope...), globals...)
	var ret []Expr
	if s.callee >= 0 {
		cs := specs[s.callee]
		cname := fmt.Sprintf("f%d", s.callee+1)
		np := effParams(s.callee, cs)
		args := c02Args(np, all, 100*(i+1))
		call := Call{Fn: cname, Args: args}
		switch s.callForm {
		case "stmt":
			body = append(body, ExprStmt{X: call})
		case "value":
			t := fmt.Sprintf("t%d", i+1)
			body = append(body, Define{Names: []string{t}, Form: DefShort, Vals: []Expr{Binary{Op: "*", L: call, R: lit(2)}}}, Print{Args: []Expr{StrLit{V: name + ":val"}, Var{t}}})
		case "multi-def":
			var names []string
			var vars []Expr
			for k := 0; k < cs.nret; k++ {
				n := fmt.Sprintf("m%d_%d", i+1, k)
				names = append(names, n)
				vars = append(vars, Var{n})
			}
			body = append(body, Define{Names: names, Form: DefShort, Vals: []Expr{call}}, Print{Args: append([]Expr{StrLit{V: name + ":multi"}}, vars...)})
		case "multi-assign":
			if cs.nret <= len(all) {
				body = append(body, Assign{Names: all[:cs.nret], Vals: []Expr{call}})
			} else { // fewer assignable variables than results: define fresh ones instead
				var names []string
				for k := 0; k < cs.nret; k++ {
					names = append(names, fmt.Sprintf("ma%d_%d", i+1, k))
				}
				var vars []Expr
				for _, n := range names {
					vars = append(vars, Var{n})
				}
				body = append(body, Define{Names: names, Form: DefShort, Vals: []Expr{call}}, Print{Args: append([]Expr{StrLit{V: name + ":multi-assign"}}, vars...)})
			}
		case "nested":
			inner := make([]Expr, np)
			for k := range inner {
				inner[k] = Call{Fn: cname, Args: c02Args(np, all, 100*(i+1)+10*(k+1))}
			}
			t := fmt.Sprintf("t%d", i+1)
			body = append(body, Define{Names: []string{t}, Form: DefShort, Vals: []Expr{Call{Fn: cname, Args: inner}}}, Print{Args: []Expr{StrLit{V: name + ":nested"}, Var{t}}})
		case "stmt-nested":
			// a call statement (its own result is dropped) whose arguments are calls: their values are needed
			inner := make([]Expr, np)
			for k := range inner {
				inner[k] = Call{Fn: cname, Args: c02Args(np, all, 100*(i+1)+10*(k+1))}
			}
			body = append(body, ExprStmt{X: Call{Fn: cname, Args: inner}})
		case "return":
			ret = append(ret, call)
		}
		body = append(body, showAll("after-call"))
	}
	for k, v := range all {
		switch s.write {
		case "=":
			body = append(body, Assign{Names: []string{v}, Vals: []Expr{Binary{Op: "+", L: Var{v}, R: lit(i + 1)}}})
		case "+=":
			body = append(body, OpAssign{Name: v, Op: "+", Val: lit(i + 2)})
		case "++":
			body = append(body, IncDec{Name: v, Inc: true})
		case "swap":
			if k+1 < len(all) && k%2 == 0 {
				body = append(body, Assign{Names: []string{v, all[k+1]}, Vals: []Expr{Var{all[k+1]}, Var{v}}})
			}
		case "swap-grouped":
			// the same exchange with the values written as a group / through a pure call: still the OLD values
			if k+1 < len(all) && k%2 == 0 {
				body = append(body, Assign{Names: []string{v, all[k+1]}, Vals: []Expr{Group{X: Var{all[k+1]}}, Group{X: Var{v}}}})
			}
		case "multi":
			if k+1 < len(all) && k%2 == 0 {
				body = append(body, Assign{Names: []string{v, all[k+1]}, Vals: []Expr{Binary{Op: "+", L: Var{all[k+1]}, R: lit(1)}, lit(50 + i)}})
			}
		case "redefine":
			// 'g, fresh := ...' inside the function: like in Go, := with one new name defines a NEW local g
			// that shadows the global from here on; the global itself must stay untouched
			if v == "g" {
				fresh := fmt.Sprintf("nw%d", i+1)
				body = append(body, Define{Names: []string{"g", fresh}, Form: DefShort, Vals: []Expr{Binary{Op: "+", L: Var{"g"}, R: lit(50)}, lit(60 + i)}},
					OpAssign{Name: "g", Op: "+", Val: lit(1)}, IncDec{Name: "g", Inc: true},
					Print{Args: []Expr{StrLit{V: name + ":shadow"}, Var{"g"}, Var{fresh}}})
			}
		}
	}
	body = append(body, showAll("out"))
	var rets []Type
	for k := 0; k < s.nret; k++ {
		rets = append(rets, TInt)
		if len(ret) <= k {
			if k < len(all) {
				ret = append(ret, Binary{Op: "+", L: Var{all[k]}, R: lit(k)})
			} else {
				ret = append(ret, lit(9000+10*i+k))
			}
		}
	}
	if s.nret > 0 {
		body = append(body, Return{Vals: ret[:s.nret]})
	}
	return FuncDef{Name: name, Params: params, Rets: rets, Body: body}
}

func c02Specs(idx int, prev []fnSpec, full bool) []fnSpec {
	paramSets := [][]string{{}, {"x"}, {"x", "y"}, {"y", "x"}}
	nrets := []int{0, 1, 2}
	writes := []string{"=", "++", "swap", "swap-grouped", "multi", "redefine"}
	if full {
		paramSets = [][]string{{}, {"x"}, {"y"}, {"x", "y"}, {"y", "x"}}
		nrets = []int{0, 1, 2, 3}
		writes = []string{"=", "+=", "++", "swap", "swap-grouped", "multi", "redefine"}
	}
	var out []fnSpec
	for _, ps := range paramSets {
		for _, nr := range nrets {
			for _, loc := range []bool{false, true} {
				for _, w := range writes {
					base := fnSpec{params: ps, nret: nr, locals: loc, write: w, callee: -1}
					if idx == 0 {
						out = append(out, base)
						continue
					}
					c := idx - 1
					cs := prev[c]
					forms := []string{"stmt"}
					if cs.nret == 1 {
						forms = append(forms, "value")
						if len(cs.params) > 0 {
							forms = append(forms, "nested", "stmt-nested")
						}
						if nr >= 1 {
							forms = append(forms, "return")
						}
					}
					if cs.nret >= 2 {
						forms = append(forms, "multi-def", "multi-assign")
					}
					for _, f := range forms {
						s := base
						s.callee, s.callForm = c, f
						out = append(out, s)
					}
				}
			}
		}
	}
	return out
}

// handwritten family: typed parameters/returns and slices by reference
func c02Typed() []*Prog {
	srcs := []string{}
	_ = srcs
	var out []*Prog
	mk := func(st ...Stmt) { out = append(out, &Prog{Stmts: st}) }
	// mixed scalar types through parameters and returns
	for _, order := range [][]int{{0, 1, 2}, {2, 0, 1}, {1, 2, 0}} {
		types := []Type{TInt, TBool, TStr}
		names := []string{"n", "b", "s"}
		vals := []Expr{lit(42), BoolLit{true}, StrLit{V: "txt"}}
		var ps []Param
		var rets []Type
		var retv, args []Expr
		for _, k := range order {
			ps = append(ps, Param{names[k], types[k]})
			args = append(args, vals[k])
		}
		for j := len(order) - 1; j >= 0; j-- {
			k := order[j]
			rets = append(rets, types[k])
			retv = append(retv, Var{names[k]})
		}
		mk(
			FuncDef{Name: "mix", Params: ps, Rets: rets, Body: []Stmt{Print{Args: []Expr{StrLit{V: "in"}, Var{ps[0].Name}, Var{ps[1].Name}, Var{ps[2].Name}}}, Return{Vals: retv}}},
			Define{Names: []string{"r0", "r1", "r2"}, Form: DefShort, Vals: []Expr{Call{Fn: "mix", Args: args}}},
			Print{Args: []Expr{StrLit{V: "out"}, Var{"r0"}, Var{"r1"}, Var{"r2"}}},
		)
	}
	// slices by reference: write and growth through a parameter, returned alias
	for _, elem := range []struct {
		t    Type
		a, b Expr
	}{{TInt, lit(1), lit(9)}, {TStr, StrLit{V: "p"}, StrLit{V: "q"}}, {TBool, BoolLit{true}, BoolLit{false}}} {
		st := Type{Base: elem.t.Base, Slice: true}
		for _, idx := range []int{0, 1, 2, 4} {
			mk(
				FuncDef{Name: "set", Params: []Param{{"v", st}, {"i", TInt}}, Body: []Stmt{SliceSet{Name: "v", I: Var{"i"}, Val: elem.b}, Print{Args: []Expr{StrLit{V: "in"}, Len{X: Var{"v"}}}}}},
				FuncDef{Name: "same", Params: []Param{{"v", st}}, Rets: []Type{st}, Body: []Stmt{Return{Vals: []Expr{Var{"v"}}}}},
				Define{Names: []string{"a"}, Form: DefShort, Vals: []Expr{SliceLit{Elem: elem.t, Elems: []Expr{elem.a, elem.a}}}},
				Define{Names: []string{"w"}, Form: DefShort, Vals: []Expr{Call{Fn: "same", Args: []Expr{Var{"a"}}}}},
				ExprStmt{X: Call{Fn: "set", Args: []Expr{Var{"a"}, lit(idx)}}},
				ForRange{I: "k", V: "e", X: Var{"a"}, Body: []Stmt{Print{Args: []Expr{StrLit{V: "a"}, Var{"k"}, Var{"e"}}}}},
				ForRange{I: "k", V: "e", X: Var{"w"}, Body: []Stmt{Print{Args: []Expr{StrLit{V: "w"}, Var{"k"}, Var{"e"}}}}},
				Print{Args: []Expr{StrLit{V: "len"}, Len{X: Var{"a"}}, Len{X: Var{"w"}}}},
			)
		}
	}
	// string arguments incl. the empty string in every position (arguments bind in order, by value)
	{
		strs := []Expr{StrLit{V: "x"}, StrLit{V: ""}, StrLit{V: "a b"}, StrLit{V: "yy"}}
		join3 := FuncDef{Name: "join3", Params: []Param{{"a", TStr}, {"b", TStr}, {"c", TStr}}, Rets: []Type{TStr}, Body: []Stmt{
			Return{Vals: []Expr{Binary{Op: "+", L: Binary{Op: "+", L: Binary{Op: "+", L: Binary{Op: "+", L: Binary{Op: "+", L: Binary{Op: "+", L: StrLit{V: "["}, R: Var{"a"}}, R: StrLit{V: "|"}}, R: Var{"b"}}, R: StrLit{V: "|"}}, R: Var{"c"}}, R: StrLit{V: "]"}}}}}}
		tag := FuncDef{Name: "tag", Params: []Param{{"s", TStr}, {"n", TInt}, {"f", TBool}}, Body: []Stmt{Print{Args: []Expr{StrLit{V: "tag"}, Binary{Op: "+", L: Binary{Op: "+", L: Var{"s"}, R: StrLit{V: "#"}}, R: Itoa{X: Var{"n"}}}, Var{"f"}}}}}
		st := []Stmt{join3, tag, Define{Names: []string{"e"}, Form: DefShort, Vals: []Expr{StrLit{V: ""}}}, Define{Names: []string{"w"}, Form: DefShort, Vals: []Expr{StrLit{V: "vw"}}}}
		for _, a := range strs {
			for _, b := range strs {
				for _, c := range strs {
					st = append(st, Print{Args: []Expr{Call{Fn: "join3", Args: []Expr{a, b, c}}}})
				}
			}
		}
		st = append(st,
			Print{Args: []Expr{Call{Fn: "join3", Args: []Expr{Var{"e"}, Var{"w"}, Var{"e"}}}}},
			Print{Args: []Expr{Call{Fn: "join3", Args: []Expr{Var{"w"}, Var{"e"}, Binary{Op: "+", L: Var{"e"}, R: Var{"e"}}}}}},
			Print{Args: []Expr{Call{Fn: "join3", Args: []Expr{Call{Fn: "join3", Args: []Expr{StrLit{V: ""}, StrLit{V: ""}, StrLit{V: ""}}}, StrLit{V: ""}, Itoa{X: lit(0)}}}}},
			ExprStmt{X: Call{Fn: "tag", Args: []Expr{StrLit{V: ""}, lit(7), BoolLit{true}}}},
			ExprStmt{X: Call{Fn: "tag", Args: []Expr{Var{"e"}, lit(0), BoolLit{false}}}},
			ExprStmt{X: Call{Fn: "tag", Args: []Expr{StrLit{V: "t"}, lit(-3), Binary{Op: "==", L: Var{"e"}, R: StrLit{V: ""}}}}},
		)
		mk(st...)
	}
	// ten and more parameters
	{
		var ps []Param
		var args, sum []Expr
		for i := 1; i <= 11; i++ {
			ps = append(ps, Param{fmt.Sprintf("p%d", i), TInt})
			args = append(args, lit(i*3))
			sum = append(sum, Var{fmt.Sprintf("p%d", i)})
		}
		mk(FuncDef{Name: "many", Params: ps, Rets: []Type{TInt}, Body: []Stmt{Print{Args: sum}, Return{Vals: []Expr{Var{"p11"}}}}},
			Print{Args: []Expr{StrLit{V: "last"}, Call{Fn: "many", Args: args}}})
	}
	// the blank identifier as a receiver of a multi-value call: the other values keep their positions
	// (TypeShell treats _ as an ordinary variable with one type, so every discarded value here is an int)
	{
		divmod := FuncDef{Name: "divmod", Params: []Param{{"a", TInt}, {"b", TInt}}, Rets: []Type{TInt, TInt}, Body: []Stmt{Return{Vals: []Expr{Binary{Op: "/", L: Var{"a"}, R: Var{"b"}}, Binary{Op: "%", L: Var{"a"}, R: Var{"b"}}}}}}
		span := FuncDef{Name: "span", Params: []Param{{"a", TInt}}, Rets: []Type{TInt, TInt, TInt}, Body: []Stmt{Return{Vals: []Expr{Binary{Op: "-", L: Var{"a"}, R: lit(1)}, lit(777), Binary{Op: "+", L: Var{"a"}, R: lit(1)}}}}}
		c := func(f string, a ...Expr) Expr { return Call{Fn: f, Args: a} }
		top := []Stmt{
			Define{Names: []string{"_", "r1"}, Form: DefShort, Vals: []Expr{c("divmod", lit(17), lit(5))}},
			Define{Names: []string{"q1", "_"}, Form: DefShort, Vals: []Expr{c("divmod", lit(17), lit(5))}},
			Define{Names: []string{"lo", "_", "hi"}, Form: DefShort, Vals: []Expr{c("span", lit(10))}},
			Print{Args: []Expr{StrLit{V: "defs"}, Var{"r1"}, Var{"q1"}, Var{"lo"}, Var{"hi"}}},
			Assign{Names: []string{"_", "q1"}, Vals: []Expr{c("divmod", lit(29), lit(6))}},
			Assign{Names: []string{"hi", "_", "lo"}, Vals: []Expr{c("span", lit(20))}},
			Print{Args: []Expr{StrLit{V: "assigns"}, Var{"r1"}, Var{"q1"}, Var{"lo"}, Var{"hi"}}},
		}
		mk(append([]Stmt{divmod, span}, top...)...)
		inFn := FuncDef{Name: "work", Params: []Param{{"n", TInt}}, Rets: []Type{TInt}, Body: []Stmt{
			Define{Names: []string{"_", "m"}, Form: DefShort, Vals: []Expr{c("divmod", Var{"n"}, lit(4))}},
			Define{Names: []string{"a", "_", "z"}, Form: DefShort, Vals: []Expr{c("span", Var{"m"})}},
			Assign{Names: []string{"_", "m"}, Vals: []Expr{c("divmod", Var{"z"}, lit(2))}},
			Return{Vals: []Expr{Binary{Op: "+", L: Binary{Op: "*", L: Var{"a"}, R: lit(100)}, R: Binary{Op: "+", L: Binary{Op: "*", L: Var{"z"}, R: lit(10)}, R: Var{"m"}}}}}}}
		mk(divmod, span, inFn, Print{Args: []Expr{StrLit{V: "work"}, c("work", lit(11)), c("work", lit(30))}})
	}
	return out
}

func C02() int {
	r := findings.New("C02")
	defer drive.Cleanup()
	deadline := r.Deadline(10*time.Minute, 30*time.Minute)
	type item struct {
		name string
		prog *Prog
	}
	var all []item
	for i, p := range c02Typed() {
		all = append(all, item{fmt.Sprintf("typed#%d", i), p})
	}
	full := r.Thorough()
	f1s := c02Specs(0, nil, full)
	for _, s1 := range f1s {
		all = append(all, item{"1fn:" + s1.String(), c02Program([]fnSpec{s1})})
	}
	n2 := 0
	for _, s1 := range f1s {
		for _, s2 := range c02Specs(1, []fnSpec{s1}, full) {
			all = append(all, item{"2fn:" + s1.String() + " | " + s2.String(), c02Program([]fnSpec{s1, s2})})
			n2++
		}
	}
	r.Set("programs_1fn", len(f1s))
	r.Set("programs_2fn", n2)
	n3 := 0
	if r.Thorough() {
		// three functions, call chain f3 -> f2 -> f1, reduced per-function domains
		for _, s1 := range c02Specs(0, nil, false) {
			if s1.locals || s1.write == "swap" || s1.write == "swap-grouped" {
				continue
			}
			for _, s2 := range c02Specs(1, []fnSpec{s1}, false) {
				if !s2.locals || s2.write == "++" {
					continue
				}
				for _, s3 := range c02Specs(2, []fnSpec{s1, s2}, false) {
					if s3.write != "=" {
						continue
					}
					all = append(all, item{"3fn:" + s1.String() + " | " + s2.String() + " | " + s3.String(), c02Program([]fnSpec{s1, s2, s3})})
					n3++
				}
			}
		}
	}
	r.Set("programs_3fn", n3)
	{ // drop programs with identical source text (different specs can coincide)
		seen := map[string]bool{}
		var uniq []item
		for _, it := range all {
			src := PrintProg(*it.prog)
			if !seen[src] {
				seen[src] = true
				uniq = append(uniq, it)
			}
		}
		r.Set("programs_generated", len(all))
		all = uniq
	}
	{ // bind the reference interpreter's function/frame semantics to the Go toolchain (see goconf.go)
		var conf []*Prog
		for _, it := range all {
			if progHas(it.prog, func(s Stmt) bool { _, ok := s.(SliceSet); return ok }) {
				continue // growing slice writes have no Go counterpart
			}
			conf = append(conf, it.prog)
			if !r.Thorough() && len(conf) >= 4000 {
				break
			}
		}
		compared, problems := goConformance(conf, 500)
		r.Set("traces_validated_against_go_toolchain", compared)
		if len(problems) > 0 {
			for _, p := range problems {
				fmt.Fprintln(os.Stderr, "MODEL CONFORMANCE:", p)
			}
			fmt.Fprintln(os.Stderr, "HARNESS ERROR: the reference interpreter does not agree with the Go toolchain on generated programs; nothing is judged")
			return 2
		}
	}
	distinct := findings.NewDistinct()
	outcomes := findings.NewDistinct()
	var mu sync.Mutex
	done, undef, capped := 0, 0, false
	respelled := 0
	drive.Par(len(all), func(i int) {
		if past(deadline) {
			mu.Lock()
			capped = true
			mu.Unlock()
			return
		}
		it := all[i]
		pv := JudgeBash(it.prog, ProgOpts{})
		mu.Lock()
		done++
		mu.Unlock()
		distinct.Add(pv.Src)
		if pv.Symptom == "" {
			// the same program in other identifier spellings (isolation must not depend on how names look):
			// one spelling per program in turn (quick), all of them (thorough)
			for k, sp := range spellings {
				if !r.Thorough() && k != i%len(spellings) {
					continue
				}
				rp := renameProg(it.prog, sp.f)
				rv := JudgeBash(rp, ProgOpts{})
				mu.Lock()
				done++
				respelled++
				mu.Unlock()
				distinct.Add(rv.Src)
				if rv.Symptom != "" && rv.Symptom != "undefined" && r.Violations() <= 40 {
					rv = confirm(rp, ProgOpts{}, rv)
					if rv.Symptom != "" {
						r.Fail("prog="+it.name+" spelling="+sp.name+" symptom="+rv.Symptom, fmt.Sprintf("function program %s with %s identifiers: %s (%s)", it.name, sp.name, rv.Symptom, rv.Detail), progReplay(rv, nil))
					}
				}
			}
		}
		if pv.Symptom == "undefined" {
			mu.Lock()
			undef++
			mu.Unlock()
			if undef < 4 {
				fmt.Printf("note: skipped as undefined (%s): %s\n", pv.Detail, it.name)
			}
			return
		}
		outcomes.Add(pv.Want.Stdout)
		if i%977 == 0 {
			r.Sample(map[string]string{"kind": "function-program", "name": it.name, "source": pv.Src})
		}
		if pv.Symptom != "" {
			if r.Violations() > 40 {
				return
			}
			pv = confirm(it.prog, ProgOpts{}, pv)
			if pv.Symptom == "" {
				return // a sandbox kill that did not repeat (counted in common.go)
			}
			r.Fail("prog="+it.name+" symptom="+pv.Symptom, fmt.Sprintf("function program %s: %s (%s)", it.name, pv.Symptom, pv.Detail), progReplay(pv, nil))
		}
	})
	r.Set("exhaustive", !capped)
	if capped {
		r.Set("cap_hit", "stopped at the internal deadline")
	}
	xd, xn, ok := crossRun(r, 2, deadline)
	if !ok {
		return 2
	}
	r.Set("evaluations", done+xd)
	r.Set("distinct_nontrivial", distinct.Len()+xn)
	r.Set("distinct_expected_outputs", outcomes.Len())
	r.Set("programs_also_judged_in_another_identifier_spelling", respelled)
	r.Set("skipped_undefined", undef)
	r.Set("rule", "every program built from function specs (parameter list over {x,y} x return arity x locals x write form x call form into the previous function), for 1 and 2 functions (3 in thorough), with globals g (before all functions, written in place), y (between f1 and f2) and x (after all functions, so x is reused as parameter/local), a fixed main that calls every function as statement, as value, in multi-value definition/assignment and performs simultaneous assignments; plus a handwritten typed/slice-by-reference family. Distinct by source text; every program prints all visible variables before/after every call. Plus the function share of the cross-feature space (cross.go): statements that call functions, and every statement inside function contexts (called once, twice, for a result, with parameters), single, nested and as ordered pairs.")
	r.Assumef("reference interpreter tsmodel with lexical frames (scalars by value, slices by reference)")
	return finish(r)
}

package checks

import (
	"fmt"
	"os"
	"strings"
	"sync"
	"time"

	"verif/drive"
	"verif/findings"
	. "verif/tsmodel"
)

func init() { Registry["C03"] = C03 }

// ---------------------------------------------------------------------------
// (H) explicit-state search over slice histories

// abstract state: two variables v, w referring to slice objects.
type c03State struct {
	objs [][]int // slice objects; element = index into the value alphabet (0 = zero value)
	v, w int     // object ids
}

func (s c03State) clone() c03State {
	n := c03State{v: s.v, w: s.w}
	for _, o := range s.objs {
		n.objs = append(n.objs, append([]int{}, o...))
	}
	return n
}

// canon: alias relation + contents (unreachable objects dropped).
func (s c03State) canon() string {
	if s.v == s.w {
		return fmt.Sprintf("alias%v", s.objs[s.v])
	}
	return fmt.Sprintf("v%v|w%v", s.objs[s.v], s.objs[s.w])
}

type c03Op struct {
	name  string
	ok    func(s c03State) bool
	apply func(s *c03State)
	stmts func(s c03State, el c03Elem) []Stmt // statements, built against the state BEFORE the op
}

type c03Elem struct {
	t    Type
	vals []Expr // vals[0] = zero value, vals[1..3] = a, b, c
	tag  string // "" or the name of a variant of the same element type
}

func (e c03Elem) label() string {
	if e.tag != "" {
		return e.tag
	}
	return e.t.Base
}

var c03Elems = []c03Elem{
	{TInt, []Expr{lit(0), lit(1), lit(2), lit(3)}, ""},
	{TStr, []Expr{StrLit{V: ""}, StrLit{V: "p"}, StrLit{V: "q"}, StrLit{V: "r"}}, ""},
	{TBool, []Expr{BoolLit{false}, BoolLit{true}, BoolLit{true}, BoolLit{true}}, ""},
	// strings that are formats, options or several words to a careless back-end (C03 only; C05 keeps to
	// its cmd-neutral alphabet)
	{TStr, []Expr{StrLit{V: ""}, StrLit{V: "50% off"}, StrLit{V: "%s -n"}, StrLit{V: "100%"}}, "string-rich"},
}

func (s *c03State) setAt(obj int, i int, val int) {
	o := s.objs[obj]
	for len(o) < i {
		o = append(o, 0)
	}
	if len(o) == i {
		o = append(o, val)
	} else {
		o[i] = val
	}
	s.objs[obj] = o
}

func c03Ops() []c03Op {
	var ops []c03Op
	always := func(c03State) bool { return true }
	inst := func(name string, idx []int) c03Op {
		return c03Op{name: name, ok: always,
			apply: func(s *c03State) { s.objs = append(s.objs, append([]int{}, idx...)); s.v = len(s.objs) - 1 },
			stmts: func(s c03State, el c03Elem) []Stmt {
				var es []Expr
				for _, i := range idx {
					es = append(es, el.vals[i])
				}
				return []Stmt{Assign{Names: []string{"v"}, Vals: []Expr{SliceLit{Elem: el.t, Elems: es}}}}
			}}
	}
	ops = append(ops, inst("v=[]", nil), inst("v=[a]", []int{1}), inst("v=[a,b,c]", []int{1, 2, 3}))
	// the element type's zero value written inside a literal (for strings: the empty string), in the middle and alone
	ops = append(ops, inst("v=[a,zero,c]", []int{1, 0, 3}), inst("v=[zero,zero]", []int{0, 0}))
	ops = append(ops,
		c03Op{name: "w=v", ok: always, apply: func(s *c03State) { s.w = s.v },
			stmts: func(c03State, c03Elem) []Stmt {
				return []Stmt{Assign{Names: []string{"w"}, Vals: []Expr{Var{"v"}}}}
			}},
		c03Op{name: "v=w", ok: always, apply: func(s *c03State) { s.v = s.w },
			stmts: func(c03State, c03Elem) []Stmt {
				return []Stmt{Assign{Names: []string{"v"}, Vals: []Expr{Var{"w"}}}}
			}},
	)
	// simultaneous assignment of slice variables: the right-hand sides are the OLD references
	ops = append(ops,
		c03Op{name: "v,w=w,v (swap)", ok: always, apply: func(s *c03State) { s.v, s.w = s.w, s.v },
			stmts: func(c03State, c03Elem) []Stmt {
				return []Stmt{Assign{Names: []string{"v", "w"}, Vals: []Expr{Var{"w"}, Var{"v"}}}}
			}},
		c03Op{name: "n,v,w=len(v),w,v (swap with a scalar)", ok: always, apply: func(s *c03State) { s.v, s.w = s.w, s.v },
			stmts: func(c03State, c03Elem) []Stmt {
				return []Stmt{Assign{Names: []string{"n", "v", "w"}, Vals: []Expr{Len{X: Var{"v"}}, Var{"w"}, Var{"v"}}}, Print{Args: []Expr{StrLit{V: "n"}, Var{"n"}}}}
			}},
	)
	// writes through v at positions relative to the current length (literal index)
	for _, rel := range []struct {
		name string
		off  int
	}{{"len-1", -1}, {"len", 0}, {"len+1", 1}, {"len+3", 3}} {
		rel := rel
		ops = append(ops, c03Op{name: "v[" + rel.name + "]=c",
			ok:    func(s c03State) bool { return len(s.objs[s.v])+rel.off >= 0 && len(s.objs[s.v])+rel.off <= 14 },
			apply: func(s *c03State) { s.setAt(s.v, len(s.objs[s.v])+rel.off, 3) },
			stmts: func(s c03State, el c03Elem) []Stmt {
				return []Stmt{SliceSet{Name: "v", I: lit(len(s.objs[s.v]) + rel.off), Val: el.vals[3]}}
			}})
	}
	ops = append(ops,
		c03Op{name: "v[0]=b", ok: always, apply: func(s *c03State) { s.setAt(s.v, 0, 2) },
			stmts: func(s c03State, el c03Elem) []Stmt {
				return []Stmt{SliceSet{Name: "v", I: lit(0), Val: el.vals[2]}}
			}},
		// index given as an int expression
		c03Op{name: "v[len(v)]=a", ok: func(s c03State) bool { return len(s.objs[s.v]) <= 14 }, apply: func(s *c03State) { s.setAt(s.v, len(s.objs[s.v]), 1) },
			stmts: func(s c03State, el c03Elem) []Stmt {
				return []Stmt{SliceSet{Name: "v", I: Len{X: Var{"v"}}, Val: el.vals[1]}}
			}},
		c03Op{name: "w[len(w)+1]=b", ok: func(s c03State) bool { return len(s.objs[s.w]) <= 13 }, apply: func(s *c03State) { s.setAt(s.w, len(s.objs[s.w])+1, 2) },
			stmts: func(s c03State, el c03Elem) []Stmt {
				return []Stmt{SliceSet{Name: "w", I: Binary{Op: "+", L: Len{X: Var{"w"}}, R: lit(1)}, Val: el.vals[2]}}
			}},
		// two-digit indices
		c03Op{name: "v[10]=a", ok: func(s c03State) bool { return len(s.objs[s.v]) <= 11 }, apply: func(s *c03State) { s.setAt(s.v, 10, 1) },
			stmts: func(s c03State, el c03Elem) []Stmt {
				return []Stmt{SliceSet{Name: "v", I: lit(10), Val: el.vals[1]}}
			}},
		c03Op{name: "v[9]=b", ok: func(s c03State) bool { return len(s.objs[s.v]) <= 11 }, apply: func(s *c03State) { s.setAt(s.v, 9, 2) },
			stmts: func(s c03State, el c03Elem) []Stmt {
				return []Stmt{SliceSet{Name: "v", I: lit(9), Val: el.vals[2]}}
			}},
		// copy (only defined when the destination is not longer than the source)
		c03Op{name: "n=copy(w,v)", ok: func(s c03State) bool { return len(s.objs[s.w]) <= len(s.objs[s.v]) },
			apply: func(s *c03State) { s.objs[s.w] = append([]int{}, s.objs[s.v]...) },
			stmts: func(c03State, c03Elem) []Stmt {
				return []Stmt{Assign{Names: []string{"n"}, Vals: []Expr{CopyE{Dst: "w", Src: Var{"v"}}}}, Print{Args: []Expr{StrLit{V: "copied"}, Var{"n"}}}}
			}},
		c03Op{name: "n=copy(v,w)", ok: func(s c03State) bool { return len(s.objs[s.v]) <= len(s.objs[s.w]) },
			apply: func(s *c03State) { s.objs[s.v] = append([]int{}, s.objs[s.w]...) },
			stmts: func(c03State, c03Elem) []Stmt {
				return []Stmt{Assign{Names: []string{"n"}, Vals: []Expr{CopyE{Dst: "v", Src: Var{"w"}}}}, Print{Args: []Expr{StrLit{V: "copied"}, Var{"n"}}}}
			}},
		c03Op{name: "range v", ok: always, apply: func(*c03State) {},
			stmts: func(c03State, c03Elem) []Stmt {
				return []Stmt{ForRange{I: "ri", V: "re", X: Var{"v"}, Body: []Stmt{Print{Args: []Expr{StrLit{V: "range"}, Var{"ri"}, Var{"re"}}}}}}
			}},
		c03Op{name: "range w with _ as index", ok: always, apply: func(*c03State) {},
			stmts: func(c03State, c03Elem) []Stmt {
				return []Stmt{ForRange{I: "_", V: "re", X: Var{"w"}, Body: []Stmt{Print{Args: []Expr{StrLit{V: "range_"}, Var{"re"}}}}}}
			}},
		// a blank-index range loop whose body calls a function that runs a blank-index range loop of its own
		c03Op{name: "range_ v calling each(w)", ok: func(s c03State) bool { return len(s.objs[s.v])*len(s.objs[s.w]) <= 40 }, apply: func(*c03State) {},
			stmts: func(c03State, c03Elem) []Stmt {
				return []Stmt{ForRange{I: "_", V: "oe", X: Var{"v"}, Body: []Stmt{ExprStmt{X: Call{Fn: "each", Args: []Expr{Var{"w"}, StrLit{V: "in"}}}}, Print{Args: []Expr{StrLit{V: "out"}, Var{"oe"}}}}}}
			}},
		// copy as a STATEMENT (the count is dropped) whose source is a call
		c03Op{name: "copy(w,same(v)) as a statement", ok: func(s c03State) bool { return len(s.objs[s.w]) <= len(s.objs[s.v]) },
			apply: func(s *c03State) { s.objs[s.w] = append([]int{}, s.objs[s.v]...) },
			stmts: func(c03State, c03Elem) []Stmt {
				return []Stmt{ExprStmt{X: CopyE{Dst: "w", Src: Call{Fn: "same", Args: []Expr{Var{"v"}}}}}}
			}},
		c03Op{name: "range w index-only", ok: always, apply: func(*c03State) {},
			stmts: func(c03State, c03Elem) []Stmt {
				return []Stmt{ForRange{I: "ri", X: Var{"w"}, Body: []Stmt{Print{Args: []Expr{StrLit{V: "rangei"}, Var{"ri"}, Index{X: Var{"w"}, I: Var{"ri"}}}}}}}
			}},
		// through a function: write/grow via a parameter, return a new slice, identity alias
		c03Op{name: "setf(v,len,c)", ok: func(s c03State) bool { return len(s.objs[s.v]) <= 14 }, apply: func(s *c03State) { s.setAt(s.v, len(s.objs[s.v]), 3) },
			stmts: func(s c03State, el c03Elem) []Stmt {
				return []Stmt{ExprStmt{X: Call{Fn: "setf", Args: []Expr{Var{"v"}, lit(len(s.objs[s.v])), el.vals[3]}}}}
			}},
		c03Op{name: "setf(w,0,a)", ok: always, apply: func(s *c03State) { s.setAt(s.w, 0, 1) },
			stmts: func(s c03State, el c03Elem) []Stmt {
				return []Stmt{ExprStmt{X: Call{Fn: "setf", Args: []Expr{Var{"w"}, lit(0), el.vals[1]}}}}
			}},
		c03Op{name: "w=mk()", ok: always, apply: func(s *c03State) { s.objs = append(s.objs, []int{2, 1}); s.w = len(s.objs) - 1 },
			stmts: func(c03State, c03Elem) []Stmt {
				return []Stmt{Assign{Names: []string{"w"}, Vals: []Expr{Call{Fn: "mk"}}}}
			}},
		// several slice values created within ONE statement (each literal must be its own object)
		c03Op{name: "v,w=[c],[a,b] (two literals in one assignment)", ok: always,
			apply: func(s *c03State) {
				s.objs = append(s.objs, []int{3}, []int{1, 2})
				s.v, s.w = len(s.objs)-2, len(s.objs)-1
			},
			stmts: func(s c03State, el c03Elem) []Stmt {
				return []Stmt{Assign{Names: []string{"v", "w"}, Vals: []Expr{SliceLit{Elem: el.t, Elems: []Expr{el.vals[3]}}, SliceLit{Elem: el.t, Elems: []Expr{el.vals[1], el.vals[2]}}}}}
			}},
		c03Op{name: "v=pick([a],[b,c]) (two literals as arguments)", ok: always,
			apply: func(s *c03State) { s.objs = append(s.objs, []int{2, 3, 1}); s.v = len(s.objs) - 1 },
			stmts: func(s c03State, el c03Elem) []Stmt {
				return []Stmt{Assign{Names: []string{"v"}, Vals: []Expr{Call{Fn: "pick", Args: []Expr{SliceLit{Elem: el.t, Elems: []Expr{el.vals[1]}}, SliceLit{Elem: el.t, Elems: []Expr{el.vals[2], el.vals[3]}}}}}}}
			}},
		// a slice literal written ONCE but executed twice (inside a loop): every execution makes a new object
		c03Op{name: "v,w=literal in a loop, 1st and 2nd iteration kept", ok: always,
			apply: func(s *c03State) {
				s.objs = append(s.objs, []int{1, 2}, []int{1, 3})
				s.v, s.w = len(s.objs)-2, len(s.objs)-1
			},
			stmts: func(s c03State, el c03Elem) []Stmt {
				return []Stmt{For{Init: Define{Names: []string{"lk"}, Form: DefShort, Vals: []Expr{lit(0)}}, Cond: Binary{Op: "<", L: Var{"lk"}, R: lit(2)}, Post: IncDec{Name: "lk", Inc: true}, Body: []Stmt{
					Define{Names: []string{"lt"}, Form: DefShort, Vals: []Expr{SliceLit{Elem: el.t, Elems: []Expr{el.vals[1]}}}},
					If{Cond: Binary{Op: "==", L: Var{"lk"}, R: lit(0)}, Then: []Stmt{SliceSet{Name: "lt", I: lit(1), Val: el.vals[2]}, Assign{Names: []string{"v"}, Vals: []Expr{Var{"lt"}}}},
						Else: []Stmt{SliceSet{Name: "lt", I: lit(1), Val: el.vals[3]}, Assign{Names: []string{"w"}, Vals: []Expr{Var{"lt"}}}}, HasElse: true},
				}}}
			}},
		// a range loop nested in a range loop over a slice of another length
		c03Op{name: "nested range v x w", ok: func(s c03State) bool { return len(s.objs[s.v])*len(s.objs[s.w]) <= 40 }, apply: func(*c03State) {},
			stmts: func(c03State, c03Elem) []Stmt {
				return []Stmt{ForRange{I: "oi", V: "oe", X: Var{"v"}, Body: []Stmt{
					ForRange{I: "ii", V: "ie", X: Var{"w"}, Body: []Stmt{Print{Args: []Expr{StrLit{V: "nest"}, Var{"oi"}, Var{"ii"}, Var{"oe"}, Var{"ie"}}}}},
					Print{Args: []Expr{StrLit{V: "outer"}, Var{"oi"}, Var{"oe"}}}}},
					ForRange{I: "oi", X: StrLit{V: "xyz"}, Body: []Stmt{ForRange{I: "ii", V: "ie", X: Var{"v"}, Body: []Stmt{Print{Args: []Expr{StrLit{V: "nest2"}, Var{"oi"}, Var{"ii"}, Var{"ie"}}}}}}}}
			}},
		// the same operations inside functions that work on the program-level slices
		c03Op{name: "gcopy() [n=copy(w,v) in a function]", ok: func(s c03State) bool { return len(s.objs[s.w]) <= len(s.objs[s.v]) },
			apply: func(s *c03State) { s.objs[s.w] = append([]int{}, s.objs[s.v]...) },
			stmts: func(c03State, c03Elem) []Stmt {
				return []Stmt{ExprStmt{X: Call{Fn: "gcopy"}}, Print{Args: []Expr{StrLit{V: "copied"}, Var{"n"}}}}
			}},
		c03Op{name: "gset(len(v),c) [v[i]=e in a function]", ok: func(s c03State) bool { return len(s.objs[s.v]) <= 14 }, apply: func(s *c03State) { s.setAt(s.v, len(s.objs[s.v]), 3) },
			stmts: func(s c03State, el c03Elem) []Stmt {
				return []Stmt{ExprStmt{X: Call{Fn: "gset", Args: []Expr{lit(len(s.objs[s.v])), el.vals[3]}}}}
			}},
		c03Op{name: "galias() [w=v in a function]", ok: always, apply: func(s *c03State) { s.w = s.v },
			stmts: func(c03State, c03Elem) []Stmt { return []Stmt{ExprStmt{X: Call{Fn: "galias"}}} }},
		c03Op{name: "v=same(w)", ok: always, apply: func(s *c03State) { s.v = s.w },
			stmts: func(c03State, c03Elem) []Stmt {
				return []Stmt{Assign{Names: []string{"v"}, Vals: []Expr{Call{Fn: "same", Args: []Expr{Var{"w"}}}}}}
			}},
	)
	return ops
}

func c03Dump(step int, s c03State) []Stmt {
	d := func(name string, n int) Stmt {
		args := []Expr{StrLit{V: fmt.Sprintf("s%d %s", step, name)}, Len{X: Var{name}}}
		for i := 0; i < n; i++ {
			args = append(args, StrLit{V: "|"}, Index{X: Var{name}, I: lit(i)})
		}
		return Print{Args: args}
	}
	lens := Print{Args: []Expr{StrLit{V: fmt.Sprintf("s%d lens", step)}, Len{X: Var{"v"}}, Len{X: Var{"w"}}, Binary{Op: "==", L: Len{X: Var{"v"}}, R: Len{X: Var{"w"}}}, Binary{Op: "-", L: Len{X: Var{"v"}}, R: Len{X: Var{"w"}}}}}
	return []Stmt{d("v", len(s.objs[s.v])), d("w", len(s.objs[s.w])), lens}
}

func c03HistoryProg(hist []int, ops []c03Op, el c03Elem) (*Prog, c03State) {
	st := c03State{objs: [][]int{{1, 2}, {}}, v: 0, w: 1}
	sl := Type{Base: el.t.Base, Slice: true}
	stmts := []Stmt{
		FuncDef{Name: "setf", Params: []Param{{"s", sl}, {"i", TInt}, {"e", el.t}}, Body: []Stmt{SliceSet{Name: "s", I: Var{"i"}, Val: Var{"e"}}}},
		FuncDef{Name: "mk", Rets: []Type{sl}, Body: []Stmt{Define{Names: []string{"m"}, Form: DefShort, Vals: []Expr{SliceLit{Elem: el.t, Elems: []Expr{el.vals[2], el.vals[1]}}}}, Return{Vals: []Expr{Var{"m"}}}}},
		FuncDef{Name: "same", Params: []Param{{"s", sl}}, Rets: []Type{sl}, Body: []Stmt{Return{Vals: []Expr{Var{"s"}}}}},
		// each ranges over its parameter with the blank identifier as index
		FuncDef{Name: "each", Params: []Param{{"s", sl}, {"tag", TStr}}, Body: []Stmt{ForRange{I: "_", V: "e", X: Var{"s"}, Body: []Stmt{Print{Args: []Expr{Var{"tag"}, Var{"e"}}}}}}},
		// pick appends the first element of p to q's object and returns q (p and q must be distinct objects)
		FuncDef{Name: "pick", Params: []Param{{"p", sl}, {"q", sl}}, Rets: []Type{sl}, Body: []Stmt{
			Print{Args: []Expr{StrLit{V: "pick"}, Len{X: Var{"p"}}, Len{X: Var{"q"}}}},
			SliceSet{Name: "q", I: Len{X: Var{"q"}}, Val: Index{X: Var{"p"}, I: lit(0)}},
			Print{Args: []Expr{StrLit{V: "picked"}, Len{X: Var{"p"}}, Len{X: Var{"q"}}}},
			Return{Vals: []Expr{Var{"q"}}}}},
		Define{Names: []string{"v"}, Form: DefShort, Vals: []Expr{SliceLit{Elem: el.t, Elems: []Expr{el.vals[1], el.vals[2]}}}},
		Define{Names: []string{"w"}, Form: DefShort, Vals: []Expr{SliceLit{Elem: el.t}}},
		Define{Names: []string{"n"}, Form: DefShort, Vals: []Expr{lit(0)}},
		FuncDef{Name: "gcopy", Body: []Stmt{Assign{Names: []string{"n"}, Vals: []Expr{CopyE{Dst: "w", Src: Var{"v"}}}}}},
		FuncDef{Name: "gset", Params: []Param{{"i", TInt}, {"e", el.t}}, Body: []Stmt{SliceSet{Name: "v", I: Var{"i"}, Val: Var{"e"}}, Print{Args: []Expr{StrLit{V: "gset"}, Len{X: Var{"v"}}}}}},
		FuncDef{Name: "galias", Body: []Stmt{Assign{Names: []string{"w"}, Vals: []Expr{Var{"v"}}}}},
	}
	stmts = append(stmts, c03Dump(0, st)...)
	for k, oi := range hist {
		op := ops[oi]
		stmts = append(stmts, op.stmts(st, el)...)
		op.apply(&st)
		stmts = append(stmts, c03Dump(k+1, st)...)
	}
	return &Prog{Stmts: stmts}, st
}

func c03HistName(hist []int, ops []c03Op, el c03Elem) string {
	var parts []string
	for _, o := range hist {
		parts = append(parts, ops[o].name)
	}
	return "[]" + el.label() + ": " + strings.Join(parts, " ; ")
}

type c03Stats struct {
	distinct    *findings.Distinct
	mu          sync.Mutex
	states      map[string]bool
	transitions int
	validated   int
	undef       int
	capped      bool
}

type c03Job struct {
	prog *Prog
	name string
	kind string
}

var c03Jobs []c03Job

func c03Run(r *findings.Run, progs []*Prog, names []string, stats *c03Stats, deadline time.Time, kind string) {
	for i := range progs {
		c03Jobs = append(c03Jobs, c03Job{progs[i], names[i], kind})
	}
}

func c03RunAll(r *findings.Run, stats *c03Stats, deadline time.Time) {
	jobs := c03Jobs
	drive.Par(len(jobs), func(i int) {
		progs := []*Prog{jobs[i].prog}
		names := []string{jobs[i].name}
		kind := jobs[i].kind
		i = 0
		if past(deadline) {
			stats.mu.Lock()
			stats.capped = true
			stats.mu.Unlock()
			return
		}
		pv := JudgeBash(progs[i], ProgOpts{})
		stats.distinct.Add(pv.Src)
		stats.mu.Lock()
		switch pv.Symptom {
		case "":
			stats.validated++
		case "undefined":
			stats.undef++
			if kind == "index-sweep" {
				// the sweeps are written to stay in range: an undefined one is a mistake of this check
				fmt.Fprintf(os.Stderr, "HARNESS ERROR: sweep program %s leaves the defined fragment: %s\n", names[i], pv.Detail)
				os.Exit(2)
			}
		}
		stats.mu.Unlock()
		if stats.validated%313 == 1 {
			r.Sample(map[string]string{"kind": kind, "case": names[i], "source": pv.Src})
		}
		if pv.Symptom != "" && pv.Symptom != "undefined" {
			if r.Violations() > 40 {
				return
			}
			pv = confirm(progs[i], ProgOpts{}, pv)
			if pv.Symptom == "" {
				return // a sandbox kill that did not repeat (counted in common.go)
			}
			r.Fail(kind+"="+names[i]+" symptom="+pv.Symptom, fmt.Sprintf("%s %s: %s (%s)", kind, names[i], pv.Symptom, pv.Detail), progReplay(pv, nil))
		}
	})
}

// c03Histories: (a) every history up to depth kAll (all paths, no merging);
// (b) breadth-first search with state merging up to depth kBFS: from every
// distinct abstract state every applicable operation is tried, the program
// replays the shortest history reaching the state plus the operation.
func c03Histories(r *findings.Run, stats *c03Stats, deadline time.Time) {
	ops := c03Ops()
	for ei, el := range c03Elems {
		kAll, kBFS := 2, 3
		_ = ei // (quick used to run all paths of depth 3 for []int: with ~30 operations that alone was 25 000 programs)
		if el.tag != "" {
			kBFS = 2 // a variant of an element type: all histories of two operations
		}
		if r.Thorough() {
			kAll, kBFS = 3, 4
			if ei == 0 {
				kBFS = 5
			}
		}
		var progs []*Prog
		var names []string
		seenProg := map[string]bool{}
		add := func(h []int) {
			key := fmt.Sprint(h)
			if seenProg[key] {
				return
			}
			seenProg[key] = true
			p, _ := c03HistoryProg(h, ops, el)
			progs = append(progs, p)
			names = append(names, c03HistName(h, ops, el))
		}
		// (a) all histories
		var rec func(h []int, st c03State, depth int)
		rec = func(h []int, st c03State, depth int) {
			if len(h) > 0 {
				add(h)
			}
			if depth == kAll {
				return
			}
			for oi, op := range ops {
				if !op.ok(st) {
					continue
				}
				ns := st.clone()
				op.apply(&ns)
				stats.mu.Lock()
				stats.transitions++
				stats.states[el.label()+":"+ns.canon()] = true
				stats.mu.Unlock()
				rec(append(append([]int{}, h...), oi), ns, depth+1)
			}
		}
		init := c03State{objs: [][]int{{1, 2}, {}}, v: 0, w: 1}
		stats.states[el.label()+":"+init.canon()] = true
		rec(nil, init, 0)
		nAll := len(progs)
		// (b) BFS with merging
		type node struct {
			hist []int
			st   c03State
		}
		seen := map[string]bool{init.canon(): true}
		frontier := []node{{nil, init}}
		for depth := 0; depth < kBFS && len(frontier) > 0; depth++ {
			var next []node
			for _, nd := range frontier {
				for oi, op := range ops {
					if !op.ok(nd.st) {
						continue
					}
					ns := nd.st.clone()
					op.apply(&ns)
					h := append(append([]int{}, nd.hist...), oi)
					stats.mu.Lock()
					stats.transitions++
					stats.states[el.label()+":"+ns.canon()] = true
					stats.mu.Unlock()
					add(h)
					if c := ns.canon(); !seen[c] {
						seen[c] = true
						next = append(next, node{h, ns})
					}
				}
			}
			frontier = next
		}
		r.Set("histories_all_paths_"+el.label(), nAll)
		r.Set("histories_bfs_extra_"+el.label(), len(progs)-nAll)
		r.Set("bounds_"+el.label(), fmt.Sprintf("all paths depth<=%d, state-merged BFS depth<=%d, %d operations", kAll, kBFS, len(ops)))
		c03Run(r, progs, names, stats, deadline, "slice-history")
	}
}

// ---------------------------------------------------------------------------
// (I) index sweeps

const c03Alphabet = "abcdefghijklmnopqrstuvwxyzABCDEFGHIJKLMNOPQRSTUVWXYZ"

func c03Sweeps(r *findings.Run, stats *c03Stats, deadline time.Time) {
	L := 12
	if r.Thorough() {
		L = 40
	}
	var progs []*Prog
	var names []string
	fr := func(e Expr) Expr {
		return Binary{Op: "+", L: Binary{Op: "+", L: StrLit{V: "<"}, R: e}, R: StrLit{V: ">"}}
	}
	for n := 0; n <= L; n++ {
		s := c03Alphabet[:n]
		// computed indices: all in-range pairs (a, b) through loop variables
		body := []Stmt{
			Define{Names: []string{"s"}, Form: DefShort, Vals: []Expr{StrLit{V: s}}},
			Define{Names: []string{"n"}, Form: DefShort, Vals: []Expr{Len{X: Var{"s"}}}},
			Print{Args: []Expr{StrLit{V: "len"}, Var{"n"}, fr(Substr{X: Var{"s"}})}},
			For{Init: Define{Names: []string{"a"}, Form: DefShort, Vals: []Expr{lit(0)}}, Cond: Binary{Op: "<=", L: Var{"a"}, R: Var{"n"}}, Post: IncDec{Name: "a", Inc: true}, Body: []Stmt{
				Print{Args: []Expr{StrLit{V: "open"}, Var{"a"}, fr(Substr{X: Var{"s"}, Lo: Var{"a"}}), fr(Substr{X: Var{"s"}, Hi: Var{"a"}})}},
				For{Init: Define{Names: []string{"b"}, Form: DefShort, Vals: []Expr{Var{"a"}}}, Cond: Binary{Op: "<=", L: Var{"b"}, R: Var{"n"}}, Post: IncDec{Name: "b", Inc: true}, Body: []Stmt{
					Print{Args: []Expr{StrLit{V: "sub"}, Var{"a"}, Var{"b"}, fr(Substr{X: Var{"s"}, Lo: Var{"a"}, Hi: Var{"b"}})}},
				}},
			}},
			For{Init: Define{Names: []string{"i"}, Form: DefShort, Vals: []Expr{lit(0)}}, Cond: Binary{Op: "<", L: Var{"i"}, R: Var{"n"}}, Post: IncDec{Name: "i", Inc: true}, Body: []Stmt{
				Print{Args: []Expr{StrLit{V: "idx"}, Var{"i"}, fr(Index{X: Var{"s"}, I: Var{"i"}}), fr(Index{X: Var{"s"}, I: Binary{Op: "-", L: Binary{Op: "-", L: Var{"n"}, R: lit(1)}, R: Var{"i"}}})}},
			}},
			ForRange{I: "k", V: "c", X: Var{"s"}, Body: []Stmt{Print{Args: []Expr{StrLit{V: "range"}, Var{"k"}, fr(Var{"c"})}}}},
			ForRange{I: "_", V: "c", X: Var{"s"}, Body: []Stmt{Print{Args: []Expr{StrLit{V: "range_"}, fr(Var{"c"})}}}},
			Print{Args: []Expr{StrLit{V: "concat"}, fr(Binary{Op: "+", L: Var{"s"}, R: Var{"s"}}), Len{X: Binary{Op: "+", L: Var{"s"}, R: StrLit{V: "xy"}}},
				Binary{Op: "==", L: Var{"s"}, R: StrLit{V: s}}, Binary{Op: "!=", L: Var{"s"}, R: StrLit{V: s}}, Binary{Op: "==", L: Var{"s"}, R: StrLit{V: s + "z"}}, Binary{Op: "!=", L: Binary{Op: "+", L: Var{"s"}, R: StrLit{V: "z"}}, R: Var{"s"}}}},
		}
		progs = append(progs, &Prog{Stmts: body})
		names = append(names, fmt.Sprintf("string-sweep computed-indices len=%d", n))
		// literal indices (all pairs) for short strings, on a literal and on a variable
		if n <= 6 {
			var st []Stmt
			st = append(st, Define{Names: []string{"s"}, Form: DefShort, Vals: []Expr{StrLit{V: s}}})
			for a := 0; a <= n; a++ {
				for b := a; b <= n; b++ {
					st = append(st, Print{Args: []Expr{StrLit{V: fmt.Sprintf("lit %d %d", a, b)}, fr(Substr{X: Var{"s"}, Lo: lit(a), Hi: lit(b)})}})
				}
				if a < n {
					st = append(st, Print{Args: []Expr{StrLit{V: fmt.Sprintf("lit %d", a)}, fr(Index{X: Var{"s"}, I: lit(a)})}})
				}
			}
			progs = append(progs, &Prog{Stmts: st})
			names = append(names, fmt.Sprintf("string-sweep literal-indices len=%d", n))
		}
	}
	// indices that are calls sharing state ("index any int expression"): each bound is evaluated once, the
	// low bound before the high bound, subscripts of one statement from left to right
	for _, n := range []int{11, 14} {
		s := c03Alphabet[:n]
		next := Call{Fn: "next"}
		st := []Stmt{
			Define{Names: []string{"c"}, Form: DefShort, Vals: []Expr{lit(0)}},
			FuncDef{Name: "next", Rets: []Type{TInt}, Body: []Stmt{IncDec{Name: "c", Inc: true}, Return{Vals: []Expr{Var{"c"}}}}},
			FuncDef{Name: "reset", Params: []Param{{"v", TInt}}, Body: []Stmt{Assign{Names: []string{"c"}, Vals: []Expr{Var{"v"}}}}},
			Define{Names: []string{"s"}, Form: DefShort, Vals: []Expr{StrLit{V: s}}},
			Define{Names: []string{"v"}, Form: DefShort, Vals: []Expr{SliceLit{Elem: TInt, Elems: []Expr{lit(10), lit(11), lit(12), lit(13), lit(14), lit(15), lit(16), lit(17), lit(18)}}}},
		}
		for start := 0; start <= 3; start++ {
			st = append(st,
				ExprStmt{X: Call{Fn: "reset", Args: []Expr{lit(start)}}},
				Print{Args: []Expr{StrLit{V: "low-high"}, fr(Substr{X: Var{"s"}, Lo: next, Hi: Binary{Op: "+", L: next, R: lit(2)}}), Var{"c"}}},
				ExprStmt{X: Call{Fn: "reset", Args: []Expr{lit(start)}}},
				Print{Args: []Expr{StrLit{V: "two-chars"}, fr(Index{X: Var{"s"}, I: next}), fr(Index{X: Var{"s"}, I: next}), Var{"c"}}},
				ExprStmt{X: Call{Fn: "reset", Args: []Expr{lit(start)}}},
				Print{Args: []Expr{StrLit{V: "open"}, fr(Substr{X: Var{"s"}, Hi: next}), fr(Substr{X: Var{"s"}, Lo: next}), Var{"c"}}},
				ExprStmt{X: Call{Fn: "reset", Args: []Expr{lit(start)}}},
				Print{Args: []Expr{StrLit{V: "elements"}, Index{X: Var{"v"}, I: next}, Index{X: Var{"v"}, I: next}, Binary{Op: "-", L: Index{X: Var{"v"}, I: next}, R: Index{X: Var{"v"}, I: next}}, Var{"c"}}},
				ExprStmt{X: Call{Fn: "reset", Args: []Expr{lit(start)}}},
				// (a subscript of a subscript, s[a:][b:c], is not accepted by the parser: two steps)
				Define{Names: []string{fmt.Sprintf("u%d", start)}, Form: DefShort, Vals: []Expr{Substr{X: Var{"s"}, Lo: next}}},
				Define{Names: []string{fmt.Sprintf("t%d", start)}, Form: DefShort, Vals: []Expr{Substr{X: Var{fmt.Sprintf("u%d", start)}, Lo: lit(0), Hi: next}}},
				Print{Args: []Expr{StrLit{V: "two-step"}, fr(Var{fmt.Sprintf("t%d", start)}), Var{"c"}}},
			)
		}
		progs = append(progs, &Prog{Stmts: st})
		names = append(names, fmt.Sprintf("string-sweep call-indices len=%d", n))
	}
	// slice growth one element at a time with read-back (multi-digit indices), per element type
	for _, el := range c03Elems {
		if el.tag != "" {
			continue
		}
		for _, n := range []int{L / 2, L} {
			val := func(i Expr) Expr {
				switch el.t.Base {
				case "int":
					return Binary{Op: "*", L: i, R: lit(3)}
				case "string":
					return Binary{Op: "+", L: StrLit{V: "e"}, R: Itoa{X: i}}
				}
				return Binary{Op: "==", L: Binary{Op: "%", L: i, R: lit(2)}, R: lit(0)}
			}
			st := []Stmt{
				Define{Names: []string{"v"}, Form: DefVarType, T: Type{Base: el.t.Base, Slice: true}},
				For{Init: Define{Names: []string{"i"}, Form: DefShort, Vals: []Expr{lit(0)}}, Cond: Binary{Op: "<", L: Var{"i"}, R: lit(n)}, Post: IncDec{Name: "i", Inc: true}, Body: []Stmt{
					SliceSet{Name: "v", I: Var{"i"}, Val: val(Var{"i"})},
					Print{Args: []Expr{StrLit{V: "grown"}, Len{X: Var{"v"}}}},
				}},
				For{Init: Define{Names: []string{"i"}, Form: DefShort, Vals: []Expr{lit(0)}}, Cond: Binary{Op: "<", L: Var{"i"}, R: Len{X: Var{"v"}}}, Post: IncDec{Name: "i", Inc: true}, Body: []Stmt{
					Print{Args: []Expr{StrLit{V: "at"}, Var{"i"}, Index{X: Var{"v"}, I: Var{"i"}}}},
				}},
				// a gap write far beyond the end fills with zero values
				SliceSet{Name: "v", I: lit(n + 7), Val: val(lit(1))},
				ForRange{I: "k", V: "e", X: Var{"v"}, Body: []Stmt{Print{Args: []Expr{StrLit{V: "after-gap"}, Var{"k"}, StrLit{V: "["}, Var{"e"}, StrLit{V: "]"}}}}},
				Define{Names: []string{"d"}, Form: DefVarType, T: Type{Base: el.t.Base, Slice: true}},
				Print{Args: []Expr{StrLit{V: "copy"}, CopyE{Dst: "d", Src: Var{"v"}}, Len{X: Var{"d"}}}},
				ForRange{I: "k", V: "e", X: Var{"d"}, Body: []Stmt{Print{Args: []Expr{StrLit{V: "copied"}, Var{"k"}, StrLit{V: "["}, Var{"e"}, StrLit{V: "]"}}}}},
			}
			progs = append(progs, &Prog{Stmts: st})
			names = append(names, fmt.Sprintf("slice-growth []%s to %d", el.t.Base, n))
		}
	}
	r.Set("sweep_programs", len(progs))
	r.Set("sweep_max_length", L)
	c03Run(r, progs, names, stats, deadline, "index-sweep")
}

func C03() int {
	r := findings.New("C03")
	r.Level = "model_checking"
	defer drive.Cleanup()
	deadline := r.Deadline(10*time.Minute, 40*time.Minute)
	stats := &c03Stats{states: map[string]bool{}, distinct: findings.NewDistinct()}
	c03Jobs = nil
	c03Sweeps(r, stats, deadline) // the long programs first
	c03Histories(r, stats, deadline)
	c03RunAll(r, stats, deadline)
	xd, xn, ok := crossRun(r, 3, deadline)
	if !ok {
		return 2
	}
	r.Set("states", len(stats.states))
	r.Set("transitions", stats.transitions)
	r.Set("traces_validated_against_impl", stats.validated)
	r.Set("evaluations", stats.validated+stats.undef+r.Violations()+xd)
	r.Set("distinct_nontrivial", stats.distinct.Len()+xn)
	r.Set("skipped_undefined", stats.undef)
	if stats.capped {
		r.Set("exhaustive", false)
	} else if _, set := r.Cov["exhaustive"]; !set {
		r.Set("exhaustive", true)
	}
	r.Set("rule", "explicit-state search over the abstract heap of two slice variables (alias relation + contents) for []int, []string, []bool: every operation sequence up to the all-paths depth, then breadth-first search with state merging up to the BFS depth; every history (shortest path + operation) is replayed as a TypeShell program on the real transpiler + bash with len and all elements of both variables printed after every step, and compared with the reference interpreter. states = distinct abstract heaps reached, transitions = operation applications, traces_validated_against_impl = programs whose real run agreed with the model. Plus index sweeps: for every string length 0..L all in-range (a,b) pairs for s[a:b], s[:b], s[a:], s[:], s[i], len, +, ==, !=, range; slice growth element by element with read-back. Plus the slice/string share of the cross-feature space (cross.go): slice and string statements crossed with every other statement kind and every context.")
	r.Assumef("state merging assumes two histories reaching the same abstract heap have the same futures in the implementation; the all-paths tier does not rely on it")
	return finish(r)
}

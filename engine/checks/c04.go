package checks

import (
	"fmt"
	"os"
	"sort"
	"strings"
	"sync"
	"time"

	"verif/drive"
	"verif/findings"
	. "verif/tsmodel"
)

func init() { Registry["C04"] = C04 }

// A slot template: a statement with k operand positions. Each position can be
// filled with its plain value or with a tracer call that prints its id and
// bumps the global counter n.
type c04Tmpl struct {
	name  string
	types []string // operand types: int bool string slice
	plain []Expr   // plain operand values
	decls func(op []Expr) []Stmt
	body  func(op []Expr) []Stmt
}

func c04Tracer(typ string, id int, v Expr) Expr {
	fn := map[string]string{"int": "t", "bool": "tb", "string": "ts", "slice": "tv"}[typ]
	return Call{Fn: fn, Args: []Expr{lit(id), v}}
}

// The shapes a traced operand can take. D is the tracer call written directly in the slot; the others keep the
// value and the single evaluation but make the slot's expression something else than a direct call: A a binary
// operation on the call (t + 0, ts + "", !tb(!v)), G the call in parentheses, N the call as argument of another
// user function (which reports its own entry), B the call as argument of a builtin / as operand of a comparison
// (v + len(ts(id, "")), itoa-free for strings: ts(..)[0:len], tb(..) == true).
var c04Forms = []string{"D", "A", "G", "N", "B"}

func c04TracerForm(typ string, id int, v Expr, form string) Expr {
	d := c04Tracer(typ, id, v)
	if typ == "slice" || form == "D" {
		return d
	}
	switch form {
	case "G":
		return Group{X: d}
	case "N":
		return Call{Fn: map[string]string{"int": "idi", "bool": "idb", "string": "ids"}[typ], Args: []Expr{d}}
	case "A":
		switch typ {
		case "int":
			return Binary{Op: "+", L: d, R: lit(0)}
		case "string":
			return Binary{Op: "+", L: d, R: StrLit{V: ""}}
		default:
			return Unary{Op: "!", X: c04Tracer(typ, id, Unary{Op: "!", X: Group{X: v}})}
		}
	case "B":
		switch typ {
		case "int":
			return Binary{Op: "+", L: Group{X: v}, R: Len{X: c04Tracer("string", id, StrLit{V: ""})}}
		case "string":
			return Binary{Op: "+", L: StrLit{V: ""}, R: d}
		default:
			return Binary{Op: "==", L: d, R: BoolLit{true}}
		}
	}
	panic("c04TracerForm: " + form)
}

func c04Prelude() []Stmt {
	tr := func(name string, t Type) Stmt {
		return FuncDef{Name: name, Params: []Param{{"id", TInt}, {"v", t}}, Rets: []Type{t}, Body: []Stmt{
			Print{Args: []Expr{StrLit{V: "trace"}, Var{"id"}}},
			IncDec{Name: "n", Inc: true},
			Return{Vals: []Expr{Var{"v"}}},
		}}
	}
	return []Stmt{
		Define{Names: []string{"n"}, Form: DefShort, Vals: []Expr{lit(0)}},
		tr("t", TInt), tr("tb", TBool), tr("ts", TStr), tr("tv", Type{Base: "int", Slice: true}),
		FuncDef{Name: "f3", Params: []Param{{"a", TInt}, {"b", TInt}, {"c", TInt}}, Rets: []Type{TInt}, Body: []Stmt{
			Print{Args: []Expr{StrLit{V: "f3"}, Var{"a"}, Var{"b"}, Var{"c"}}},
			Return{Vals: []Expr{Binary{Op: "+", L: Binary{Op: "+", L: Var{"a"}, R: Var{"b"}}, R: Var{"c"}}}},
		}},
		// spin contains a condition-only loop (no increment clause), two and three return several values
		FuncDef{Name: "spin", Params: []Param{{"a", TInt}}, Rets: []Type{TInt}, Body: []Stmt{
			Define{Names: []string{"k"}, Form: DefShort, Vals: []Expr{lit(0)}},
			For{Cond: Binary{Op: "<", L: Var{"k"}, R: Var{"a"}}, Body: []Stmt{IncDec{Name: "k", Inc: true}}},
			Return{Vals: []Expr{Var{"k"}}}}},
		FuncDef{Name: "two", Params: []Param{{"a", TInt}, {"b", TInt}}, Rets: []Type{TInt, TInt}, Body: []Stmt{
			Print{Args: []Expr{StrLit{V: "two"}, Var{"a"}, Var{"b"}}}, Return{Vals: []Expr{Var{"a"}, Var{"b"}}}}},
		FuncDef{Name: "three", Params: []Param{{"a", TInt}, {"b", TInt}, {"c", TInt}}, Rets: []Type{TInt, TInt, TInt}, Body: []Stmt{
			Print{Args: []Expr{StrLit{V: "three"}, Var{"a"}, Var{"b"}, Var{"c"}}}, Return{Vals: []Expr{Var{"a"}, Var{"b"}, Var{"c"}}}}},
		FuncDef{Name: "f1", Params: []Param{{"a", TInt}}, Rets: []Type{TInt}, Body: []Stmt{
			Print{Args: []Expr{StrLit{V: "f1"}, Var{"a"}}},
			Return{Vals: []Expr{Binary{Op: "*", L: Var{"a"}, R: lit(2)}}},
		}},
		// identity functions that report their entry (tracer form N)
		FuncDef{Name: "idi", Params: []Param{{"a", TInt}}, Rets: []Type{TInt}, Body: []Stmt{Print{Args: []Expr{StrLit{V: "idi"}, Var{"a"}}}, Return{Vals: []Expr{Var{"a"}}}}},
		FuncDef{Name: "idb", Params: []Param{{"a", TBool}}, Rets: []Type{TBool}, Body: []Stmt{Print{Args: []Expr{StrLit{V: "idb"}, Var{"a"}}}, Return{Vals: []Expr{Var{"a"}}}}},
		FuncDef{Name: "ids", Params: []Param{{"a", TStr}}, Rets: []Type{TStr}, Body: []Stmt{Print{Args: []Expr{StrLit{V: "ids"}, Var{"a"}}}, Return{Vals: []Expr{Var{"a"}}}}},
	}
}

func c04Locals() []Stmt {
	return []Stmt{
		Define{Names: []string{"r"}, Form: DefShort, Vals: []Expr{lit(0)}},
		Define{Names: []string{"bb"}, Form: DefShort, Vals: []Expr{BoolLit{false}}},
		Define{Names: []string{"s"}, Form: DefShort, Vals: []Expr{StrLit{V: ""}}},
		Define{Names: []string{"sl"}, Form: DefShort, Vals: []Expr{SliceLit{Elem: TInt, Elems: []Expr{lit(10), lit(20), lit(30), lit(40)}}}},
		Define{Names: []string{"str"}, Form: DefShort, Vals: []Expr{StrLit{V: "abcdef"}}},
	}
}

func c04Show() Stmt {
	return Print{Args: []Expr{StrLit{V: "state"}, Var{"r"}, Var{"bb"}, Var{"s"}, Len{X: Var{"sl"}}, Index{X: Var{"sl"}, I: lit(0)}, Index{X: Var{"sl"}, I: lit(1)}, Index{X: Var{"sl"}, I: lit(2)}, Var{"n"}}}
}

func mark(s string) Stmt { return Print{Args: []Expr{StrLit{V: s}}} }

func c04Templates() []c04Tmpl {
	setR := func(e Expr) []Stmt { return []Stmt{Assign{Names: []string{"r"}, Vals: []Expr{e}}} }
	setB := func(e Expr) []Stmt { return []Stmt{Assign{Names: []string{"bb"}, Vals: []Expr{e}}} }
	setS := func(e Expr) []Stmt { return []Stmt{Assign{Names: []string{"s"}, Vals: []Expr{e}}} }
	ints := func(vs ...int) []Expr {
		var out []Expr
		for _, v := range vs {
			out = append(out, lit(v))
		}
		return out
	}
	var T []c04Tmpl
	for _, op := range []string{"+", "-", "*", "/", "%"} {
		op := op
		T = append(T, c04Tmpl{name: "binary" + op, types: []string{"int", "int"}, plain: ints(17, 5),
			body: func(o []Expr) []Stmt { return setR(Binary{Op: op, L: o[0], R: o[1]}) }})
	}
	for _, op := range []string{"<", "==", ">", ">=", "<=", "!="} {
		op := op
		T = append(T, c04Tmpl{name: "compare-int" + op, types: []string{"int", "int"}, plain: ints(3, 4),
			body: func(o []Expr) []Stmt { return setB(Binary{Op: op, L: o[0], R: o[1]}) }})
	}
	T = append(T,
		c04Tmpl{name: "compare-string", types: []string{"string", "string"}, plain: []Expr{StrLit{V: "u"}, StrLit{V: "v"}},
			body: func(o []Expr) []Stmt { return setB(Binary{Op: "!=", L: o[0], R: o[1]}) }},
		c04Tmpl{name: "compare-bool", types: []string{"bool", "bool"}, plain: []Expr{BoolLit{true}, BoolLit{false}},
			body: func(o []Expr) []Stmt { return setB(Binary{Op: "==", L: o[0], R: o[1]}) }},
		c04Tmpl{name: "and-false-left", types: []string{"bool", "bool"}, plain: []Expr{BoolLit{false}, BoolLit{true}},
			body: func(o []Expr) []Stmt { return setB(Binary{Op: "&&", L: o[0], R: o[1]}) }},
		c04Tmpl{name: "or-true-left", types: []string{"bool", "bool"}, plain: []Expr{BoolLit{true}, BoolLit{false}},
			body: func(o []Expr) []Stmt { return setB(Binary{Op: "||", L: o[0], R: o[1]}) }},
		c04Tmpl{name: "and-or-mixed", types: []string{"bool", "bool", "bool"}, plain: []Expr{BoolLit{true}, BoolLit{false}, BoolLit{true}},
			body: func(o []Expr) []Stmt {
				return setB(Binary{Op: "||", L: o[0], R: Binary{Op: "&&", L: o[1], R: o[2]}})
			}},
		c04Tmpl{name: "not", types: []string{"bool"}, plain: []Expr{BoolLit{true}},
			body: func(o []Expr) []Stmt { return setB(Unary{Op: "!", X: o[0]}) }},
		c04Tmpl{name: "nested-arith", types: []string{"int", "int", "int"}, plain: ints(2, 3, 4),
			body: func(o []Expr) []Stmt {
				return setR(Binary{Op: "+", L: o[0], R: Binary{Op: "*", L: o[1], R: o[2]}})
			}},
		c04Tmpl{name: "grouped-arith", types: []string{"int", "int", "int"}, plain: ints(2, 3, 4),
			body: func(o []Expr) []Stmt {
				return setR(Binary{Op: "*", L: Group{X: Binary{Op: "+", L: o[0], R: o[1]}}, R: o[2]})
			}},
		c04Tmpl{name: "left-assoc-sub", types: []string{"int", "int", "int"}, plain: ints(20, 3, 4),
			body: func(o []Expr) []Stmt {
				return setR(Binary{Op: "-", L: Binary{Op: "-", L: o[0], R: o[1]}, R: o[2]})
			}},
		c04Tmpl{name: "call-args", types: []string{"int", "int", "int"}, plain: ints(1, 2, 3),
			body: func(o []Expr) []Stmt { return setR(Call{Fn: "f3", Args: o}) }},
		c04Tmpl{name: "call-stmt-args", types: []string{"int", "int", "int"}, plain: ints(1, 2, 3),
			body: func(o []Expr) []Stmt { return []Stmt{ExprStmt{X: Call{Fn: "f3", Args: o}}} }},
		c04Tmpl{name: "nested-calls", types: []string{"int", "int"}, plain: ints(5, 6),
			body: func(o []Expr) []Stmt {
				return setR(Call{Fn: "f3", Args: []Expr{Call{Fn: "f1", Args: []Expr{o[0]}}, lit(0), Call{Fn: "f1", Args: []Expr{o[1]}}}})
			}},
		c04Tmpl{name: "slice-read-index", types: []string{"int"}, plain: ints(2),
			body: func(o []Expr) []Stmt { return setR(Index{X: Var{"sl"}, I: o[0]}) }},
		c04Tmpl{name: "slice-read-two", types: []string{"int", "int"}, plain: ints(1, 3),
			body: func(o []Expr) []Stmt {
				return setR(Binary{Op: "+", L: Index{X: Var{"sl"}, I: o[0]}, R: Index{X: Var{"sl"}, I: o[1]}})
			}},
		c04Tmpl{name: "slice-write", types: []string{"int", "int"}, plain: ints(1, 99),
			body: func(o []Expr) []Stmt { return []Stmt{SliceSet{Name: "sl", I: o[0], Val: o[1]}} }},
		c04Tmpl{name: "slice-write-grow", types: []string{"int", "int"}, plain: ints(6, 99),
			body: func(o []Expr) []Stmt { return []Stmt{SliceSet{Name: "sl", I: o[0], Val: o[1]}} }},
		c04Tmpl{name: "string-index", types: []string{"int"}, plain: ints(2),
			body: func(o []Expr) []Stmt { return setS(Index{X: Var{"str"}, I: o[0]}) }},
		c04Tmpl{name: "string-range", types: []string{"int", "int"}, plain: ints(1, 4),
			body: func(o []Expr) []Stmt { return setS(Substr{X: Var{"str"}, Lo: o[0], Hi: o[1]}) }},
		c04Tmpl{name: "string-range-open-start", types: []string{"int"}, plain: ints(3),
			body: func(o []Expr) []Stmt { return setS(Substr{X: Var{"str"}, Hi: o[0]}) }},
		c04Tmpl{name: "string-range-open-end", types: []string{"int"}, plain: ints(3),
			body: func(o []Expr) []Stmt { return setS(Substr{X: Var{"str"}, Lo: o[0]}) }},
		c04Tmpl{name: "string-concat", types: []string{"string", "string", "string"}, plain: []Expr{StrLit{V: "a"}, StrLit{V: "b"}, StrLit{V: "c"}},
			body: func(o []Expr) []Stmt {
				return setS(Binary{Op: "+", L: Binary{Op: "+", L: o[0], R: o[1]}, R: o[2]})
			}},
		c04Tmpl{name: "slice-literal", types: []string{"int", "int", "int"}, plain: ints(7, 8, 9),
			body: func(o []Expr) []Stmt {
				return []Stmt{Assign{Names: []string{"sl"}, Vals: []Expr{SliceLit{Elem: TInt, Elems: o}}}}
			}},
		c04Tmpl{name: "print-args", types: []string{"int", "string", "bool"}, plain: []Expr{lit(1), StrLit{V: "w"}, BoolLit{true}},
			body: func(o []Expr) []Stmt { return []Stmt{Print{Args: o}} }},
		c04Tmpl{name: "return-values", types: []string{"int", "int"}, plain: ints(4, 5),
			decls: func(o []Expr) []Stmt {
				return []Stmt{FuncDef{Name: "rv", Rets: []Type{TInt, TInt}, Body: []Stmt{mark("rv-body"), Return{Vals: o}}}}
			},
			body: func(o []Expr) []Stmt {
				return []Stmt{Define{Names: []string{"q1", "q2"}, Form: DefShort, Vals: []Expr{Call{Fn: "rv"}}}, Print{Args: []Expr{StrLit{V: "rv"}, Var{"q1"}, Var{"q2"}}}}
			}},
		c04Tmpl{name: "define-multi", types: []string{"int", "int"}, plain: ints(4, 5),
			body: func(o []Expr) []Stmt {
				return []Stmt{Define{Names: []string{"d1", "d2"}, Form: DefShort, Vals: o}, Print{Args: []Expr{StrLit{V: "def"}, Var{"d1"}, Var{"d2"}}}}
			}},
		c04Tmpl{name: "define-var-typed", types: []string{"int"}, plain: ints(4),
			body: func(o []Expr) []Stmt {
				return []Stmt{Define{Names: []string{"d1"}, Form: DefVarTypeIn, T: TInt, Vals: o}, Print{Args: []Expr{StrLit{V: "def"}, Var{"d1"}}}}
			}},
		c04Tmpl{name: "assign-multi", types: []string{"int", "string"}, plain: []Expr{lit(4), StrLit{V: "k"}},
			body: func(o []Expr) []Stmt { return []Stmt{Assign{Names: []string{"r", "s"}, Vals: o}} }},
		c04Tmpl{name: "compound-assign", types: []string{"int"}, plain: ints(4),
			body: func(o []Expr) []Stmt { return []Stmt{OpAssign{Name: "r", Op: "+", Val: o[0]}} }},
		c04Tmpl{name: "if-chain-conditions", types: []string{"bool", "bool", "bool"}, plain: []Expr{BoolLit{false}, BoolLit{true}, BoolLit{true}},
			body: func(o []Expr) []Stmt {
				return []Stmt{If{Cond: o[0], Then: []Stmt{mark("then")}, Elifs: []ElseIf{{Cond: o[1], Body: []Stmt{mark("elif1")}}, {Cond: o[2], Body: []Stmt{mark("elif2")}}}, Else: []Stmt{mark("else")}, HasElse: true}}
			}},
		c04Tmpl{name: "if-chain-first-true", types: []string{"bool", "bool"}, plain: []Expr{BoolLit{true}, BoolLit{true}},
			body: func(o []Expr) []Stmt {
				return []Stmt{If{Cond: o[0], Then: []Stmt{mark("then")}, Elifs: []ElseIf{{Cond: o[1], Body: []Stmt{mark("elif1")}}}}}
			}},
		// an if nested as the only statement of an else block is NOT part of the chain: its condition is
		// evaluated only when the else block runs
		c04Tmpl{name: "else-contains-if-taken-first", types: []string{"bool", "bool"}, plain: []Expr{BoolLit{true}, BoolLit{true}},
			body: func(o []Expr) []Stmt {
				return []Stmt{If{Cond: o[0], Then: []Stmt{mark("then")}, HasElse: true, Else: []Stmt{If{Cond: o[1], Then: []Stmt{mark("inner-then")}, HasElse: true, Else: []Stmt{mark("inner-else")}}}}}
			}},
		c04Tmpl{name: "else-contains-if-taken-else", types: []string{"bool", "bool"}, plain: []Expr{BoolLit{false}, BoolLit{true}},
			body: func(o []Expr) []Stmt {
				return []Stmt{If{Cond: o[0], Then: []Stmt{mark("then")}, HasElse: true, Else: []Stmt{If{Cond: o[1], Then: []Stmt{mark("inner-then")}, HasElse: true, Else: []Stmt{mark("inner-else")}}}}}
			}},
		c04Tmpl{name: "else-contains-switch", types: []string{"bool", "int"}, plain: []Expr{BoolLit{true}, lit(2)},
			body: func(o []Expr) []Stmt {
				return []Stmt{If{Cond: o[0], Then: []Stmt{mark("then")}, HasElse: true, Else: []Stmt{Switch{Tag: lit(2), Cases: []Case{{Val: o[1], Body: []Stmt{mark("case")}}}}}}}
			}},
		// empty branch bodies: the conditions are evaluated all the same
		c04Tmpl{name: "if-chain-empty-bodies", types: []string{"bool", "bool", "bool"}, plain: []Expr{BoolLit{false}, BoolLit{false}, BoolLit{true}},
			body: func(o []Expr) []Stmt {
				return []Stmt{If{Cond: o[0], Then: []Stmt{mark("then")}, Elifs: []ElseIf{{Cond: o[1]}, {Cond: o[2]}}}}
			}},
		c04Tmpl{name: "switch-empty-last-case", types: []string{"int", "int"}, plain: ints(1, 2),
			body: func(o []Expr) []Stmt {
				return []Stmt{Switch{Tag: lit(2), Cases: []Case{{Val: o[0], Body: []Stmt{mark("case1")}}, {Val: o[1]}}}}
			}},
		c04Tmpl{name: "switch-case-expressions", types: []string{"int", "int", "int"}, plain: ints(1, 2, 3),
			body: func(o []Expr) []Stmt {
				return []Stmt{Switch{Tag: lit(2), Cases: []Case{{Val: o[0], Body: []Stmt{mark("case1")}}, {Val: o[1], Body: []Stmt{mark("case2")}}, {Val: o[2], Body: []Stmt{mark("case3")}}, {Default: true, Body: []Stmt{mark("default")}}}}}
			}},
		c04Tmpl{name: "switch-tagless-cases", types: []string{"bool", "bool"}, plain: []Expr{BoolLit{false}, BoolLit{true}},
			body: func(o []Expr) []Stmt {
				return []Stmt{Switch{Cases: []Case{{Val: o[0], Body: []Stmt{mark("case1")}}, {Val: o[1], Body: []Stmt{mark("case2")}}}}}
			}},
		c04Tmpl{name: "for-header", types: []string{"int", "int", "int"}, plain: ints(0, 2, 1),
			body: func(o []Expr) []Stmt {
				return []Stmt{For{Init: Define{Names: []string{"fi"}, Form: DefShort, Vals: []Expr{o[0]}}, Cond: Binary{Op: "<", L: Var{"fi"}, R: o[1]}, Post: OpAssign{Name: "fi", Op: "+", Val: o[2]}, Body: []Stmt{Print{Args: []Expr{StrLit{V: "body"}, Var{"fi"}}}}}}
			}},
		c04Tmpl{name: "for-header-continue", types: []string{"int", "int"}, plain: ints(3, 1),
			body: func(o []Expr) []Stmt {
				return []Stmt{For{Init: Define{Names: []string{"fi"}, Form: DefShort, Vals: []Expr{lit(0)}}, Cond: Binary{Op: "<", L: Var{"fi"}, R: o[0]}, Post: OpAssign{Name: "fi", Op: "+", Val: o[1]}, Body: []Stmt{
					If{Cond: Binary{Op: "==", L: Var{"fi"}, R: lit(1)}, Then: []Stmt{Continue{}}}, Print{Args: []Expr{StrLit{V: "body"}, Var{"fi"}}}}}}
			}},
		c04Tmpl{name: "for-condition-only", types: []string{"int"}, plain: ints(2),
			body: func(o []Expr) []Stmt {
				return []Stmt{Assign{Names: []string{"r"}, Vals: []Expr{lit(0)}}, For{Cond: Binary{Op: "<", L: Var{"r"}, R: o[0]}, Body: []Stmt{IncDec{Name: "r", Inc: true}, Print{Args: []Expr{StrLit{V: "body"}, Var{"r"}}}}}}
			}},
		c04Tmpl{name: "len-string", types: []string{"string"}, plain: []Expr{StrLit{V: "four"}},
			body: func(o []Expr) []Stmt { return setR(Len{X: o[0]}) }},
		c04Tmpl{name: "len-slice", types: []string{"slice"}, plain: []Expr{Var{"sl"}},
			body: func(o []Expr) []Stmt { return setR(Len{X: o[0]}) }},
		c04Tmpl{name: "itoa", types: []string{"int"}, plain: ints(12),
			body: func(o []Expr) []Stmt { return setS(Itoa{X: o[0]}) }},
		c04Tmpl{name: "copy-source", types: []string{"slice"}, plain: []Expr{Var{"sl"}},
			body: func(o []Expr) []Stmt {
				return []Stmt{Define{Names: []string{"dst"}, Form: DefShort, Vals: []Expr{SliceLit{Elem: TInt}}}, Assign{Names: []string{"r"}, Vals: []Expr{CopyE{Dst: "dst", Src: o[0]}}}, Print{Args: []Expr{StrLit{V: "dst"}, Len{X: Var{"dst"}}, Index{X: Var{"dst"}, I: lit(3)}}}}
			}},
		c04Tmpl{name: "write-args", types: []string{"string", "string", "bool"}, plain: []Expr{StrLit{V: "out.txt"}, StrLit{V: "data"}, BoolLit{false}},
			body: func(o []Expr) []Stmt {
				return []Stmt{Write{Path: o[0], Data: o[1], Append: o[2]}, Print{Args: []Expr{StrLit{V: "file"}, ReadE{Path: StrLit{V: "out.txt"}}}}}
			}},
		c04Tmpl{name: "read-exists-args", types: []string{"string", "string"}, plain: []Expr{StrLit{V: "in.txt"}, StrLit{V: "in.txt"}},
			body: func(o []Expr) []Stmt {
				return []Stmt{Write{Path: StrLit{V: "in.txt"}, Data: StrLit{V: "hello"}}, Assign{Names: []string{"s"}, Vals: []Expr{ReadE{Path: o[0]}}}, Assign{Names: []string{"bb"}, Vals: []Expr{ExistsE{Path: o[1]}}}}
			}},
		c04Tmpl{name: "panic-arg", types: []string{"string"}, plain: []Expr{StrLit{V: "boom"}},
			body: func(o []Expr) []Stmt { return []Stmt{Panic{X: o[0]}} }},
	)
	// the blank identifier as a target: its value is evaluated like any other, and the values of a call keep
	// their positions; a loop whose body calls a function that loops without an increment clause
	T = append(T,
		c04Tmpl{name: "define-blank-second", types: []string{"int", "int"}, plain: ints(4, 5),
			body: func(o []Expr) []Stmt {
				return []Stmt{Define{Names: []string{"d1", "_"}, Form: DefShort, Vals: o}, Print{Args: []Expr{StrLit{V: "def"}, Var{"d1"}}}}
			}},
		c04Tmpl{name: "define-blank-first", types: []string{"int", "int"}, plain: ints(4, 5),
			body: func(o []Expr) []Stmt {
				return []Stmt{Define{Names: []string{"_", "d2"}, Form: DefShort, Vals: o}, Print{Args: []Expr{StrLit{V: "def"}, Var{"d2"}}}}
			}},
		c04Tmpl{name: "define-var-blank", types: []string{"int"}, plain: ints(4),
			body: func(o []Expr) []Stmt { return []Stmt{Define{Names: []string{"_"}, Form: DefVarInit, Vals: o}} }},
		c04Tmpl{name: "define-call-blank-first", types: []string{"int", "int"}, plain: ints(17, 5),
			body: func(o []Expr) []Stmt {
				return []Stmt{Define{Names: []string{"_", "d2"}, Form: DefShort, Vals: []Expr{Call{Fn: "two", Args: o}}}, Print{Args: []Expr{StrLit{V: "def"}, Var{"d2"}}}}
			}},
		c04Tmpl{name: "define-call-blank-middle", types: []string{"int", "int", "int"}, plain: ints(1, 2, 3),
			body: func(o []Expr) []Stmt {
				return []Stmt{Define{Names: []string{"d1", "_", "d3"}, Form: DefShort, Vals: []Expr{Call{Fn: "three", Args: o}}}, Print{Args: []Expr{StrLit{V: "def"}, Var{"d1"}, Var{"d3"}}}}
			}},
		c04Tmpl{name: "assign-call-blank-first", types: []string{"int", "int"}, plain: ints(17, 5),
			body: func(o []Expr) []Stmt {
				return []Stmt{Define{Names: []string{"_"}, Form: DefShort, Vals: []Expr{lit(0)}}, Assign{Names: []string{"_", "r"}, Vals: []Expr{Call{Fn: "two", Args: o}}}}
			}},
		c04Tmpl{name: "for-header-body-calls-looping-function", types: []string{"int", "int", "int"}, plain: ints(0, 3, 1),
			body: func(o []Expr) []Stmt {
				return []Stmt{For{Init: Define{Names: []string{"fi"}, Form: DefShort, Vals: []Expr{o[0]}}, Cond: Binary{Op: "<", L: Var{"fi"}, R: o[1]}, Post: OpAssign{Name: "fi", Op: "+", Val: o[2]}, Body: []Stmt{Print{Args: []Expr{StrLit{V: "body"}, Var{"fi"}, Call{Fn: "spin", Args: []Expr{lit(2)}}}}}}}
			}},
	)
	// expressions written as statements (the value is not used): the operands are evaluated all the same
	es := func(e Expr) []Stmt { return []Stmt{ExprStmt{X: e}} }
	T = append(T,
		c04Tmpl{name: "stmt-arith", types: []string{"int", "int"}, plain: ints(17, 5),
			body: func(o []Expr) []Stmt { return es(Binary{Op: "+", L: o[0], R: o[1]}) }},
		c04Tmpl{name: "stmt-arith-nested", types: []string{"int", "int", "int"}, plain: ints(2, 3, 4),
			body: func(o []Expr) []Stmt {
				return es(Binary{Op: "*", L: Group{X: Binary{Op: "-", L: o[0], R: o[1]}}, R: o[2]})
			}},
		c04Tmpl{name: "stmt-compare", types: []string{"int", "int"}, plain: ints(3, 4),
			body: func(o []Expr) []Stmt { return es(Binary{Op: "==", L: o[0], R: o[1]}) }},
		c04Tmpl{name: "stmt-compare-string", types: []string{"string", "string"}, plain: []Expr{StrLit{V: "u"}, StrLit{V: "v"}},
			body: func(o []Expr) []Stmt { return es(Binary{Op: "!=", L: o[0], R: o[1]}) }},
		c04Tmpl{name: "stmt-logical", types: []string{"bool", "bool"}, plain: []Expr{BoolLit{true}, BoolLit{false}},
			body: func(o []Expr) []Stmt { return es(Binary{Op: "&&", L: o[0], R: o[1]}) }},
		c04Tmpl{name: "stmt-not", types: []string{"bool"}, plain: []Expr{BoolLit{true}},
			body: func(o []Expr) []Stmt { return es(Unary{Op: "!", X: o[0]}) }},
		c04Tmpl{name: "stmt-group", types: []string{"int"}, plain: ints(6),
			body: func(o []Expr) []Stmt { return es(Group{X: o[0]}) }},
		c04Tmpl{name: "stmt-concat", types: []string{"string", "string"}, plain: []Expr{StrLit{V: "a"}, StrLit{V: "b"}},
			body: func(o []Expr) []Stmt { return es(Binary{Op: "+", L: o[0], R: o[1]}) }},
		c04Tmpl{name: "stmt-itoa", types: []string{"int"}, plain: ints(12),
			body: func(o []Expr) []Stmt { return es(Itoa{X: o[0]}) }},
		c04Tmpl{name: "stmt-len", types: []string{"string"}, plain: []Expr{StrLit{V: "four"}},
			body: func(o []Expr) []Stmt { return es(Len{X: o[0]}) }},
		// (a slice element as a statement, `sl[2]`, is read as the start of an element assignment and rejected:
		// not an accepted program, so not in this alphabet)
		c04Tmpl{name: "stmt-string-range", types: []string{"int", "int"}, plain: ints(1, 4),
			body: func(o []Expr) []Stmt { return es(Substr{X: Var{"str"}, Lo: o[0], Hi: o[1]}) }},
	)
	return T
}

var c04Contexts = []string{"top", "function", "loop", "if-branch", "elif-branch", "case-body", "nested"}

func c04Program(t c04Tmpl, mask int, ctx string) *Prog { return c04ProgramForms(t, mask, ctx, nil) }

// forms[i] is the shape of the tracer in slot i (nil: every tracer is a direct call)
func c04ProgramForms(t c04Tmpl, mask int, ctx string, forms []string) *Prog {
	ops := make([]Expr, len(t.plain))
	for i := range ops {
		if mask&(1<<i) != 0 {
			f := "D"
			if forms != nil {
				f = forms[i]
			}
			ops[i] = c04TracerForm(t.types[i], i+1, t.plain[i], f)
		} else {
			ops[i] = t.plain[i]
		}
	}
	st := c04Prelude()
	if t.decls != nil {
		st = append(st, t.decls(ops)...)
	}
	core := append(append([]Stmt{}, c04Locals()...), mark("before"))
	inner := append(t.body(ops), c04Show())
	switch ctx {
	case "top":
		st = append(st, core...)
		st = append(st, inner...)
	case "function":
		body := append(core, inner...)
		st = append(st, FuncDef{Name: "ctx", Body: body}, ExprStmt{X: Call{Fn: "ctx"}}, Print{Args: []Expr{StrLit{V: "n"}, Var{"n"}}})
	case "loop":
		st = append(st, core...)
		st = append(st, For{Init: Define{Names: []string{"li"}, Form: DefShort, Vals: []Expr{lit(0)}}, Cond: Binary{Op: "<", L: Var{"li"}, R: lit(2)}, Post: IncDec{Name: "li", Inc: true}, Body: append([]Stmt{Print{Args: []Expr{StrLit{V: "iter"}, Var{"li"}}}}, inner...)})
	case "if-branch":
		st = append(st, core...)
		st = append(st, If{Cond: Binary{Op: "==", L: Var{"n"}, R: lit(0)}, Then: inner, Else: []Stmt{mark("wrong-branch")}, HasElse: true})
	case "elif-branch":
		st = append(st, core...)
		st = append(st, If{Cond: Binary{Op: "!=", L: Var{"n"}, R: lit(0)}, Then: []Stmt{mark("wrong-branch")}, Elifs: []ElseIf{{Cond: Binary{Op: "==", L: Var{"r"}, R: lit(0)}, Body: inner}}})
	case "case-body":
		st = append(st, core...)
		st = append(st, Switch{Tag: Var{"r"}, Cases: []Case{{Val: lit(5), Body: []Stmt{mark("wrong-case")}}, {Val: lit(0), Body: inner}}})
	case "nested": // function > loop > else branch > case body
		body := append(core, For{Init: Define{Names: []string{"li"}, Form: DefShort, Vals: []Expr{lit(0)}}, Cond: Binary{Op: "<", L: Var{"li"}, R: lit(2)}, Post: IncDec{Name: "li", Inc: true}, Body: []Stmt{
			If{Cond: Binary{Op: "==", L: Var{"li"}, R: lit(5)}, Then: []Stmt{mark("wrong-branch")}, HasElse: true, Else: []Stmt{
				Switch{Tag: Var{"li"}, Cases: []Case{{Val: lit(0), Body: append([]Stmt{mark("iter0")}, inner...)}, {Default: true, Body: []Stmt{mark("iter1")}}}}}}}})
		st = append(st, FuncDef{Name: "ctx", Body: body}, ExprStmt{X: Call{Fn: "ctx"}})
	}
	st = append(st, Print{Args: []Expr{StrLit{V: "end"}, Var{"n"}}})
	return &Prog{Stmts: st}
}

// c04TwinProgram fills every non-slice slot of t with one and the same call expression.
func c04TwinProgram(t c04Tmpl, ctx string) *Prog {
	tw := t
	tw.plain = make([]Expr, len(t.plain))
	for i, ty := range t.types {
		switch ty {
		case "int":
			tw.plain[i] = Call{Fn: "nx"}
		case "bool":
			tw.plain[i] = Call{Fn: "nb"}
		case "string":
			tw.plain[i] = Call{Fn: "ns"}
		default:
			tw.plain[i] = t.plain[i]
		}
	}
	p := c04Program(tw, 0, ctx)
	bump := func(name string, rt Type, val Expr) Stmt {
		return FuncDef{Name: name, Rets: []Type{rt}, Body: []Stmt{IncDec{Name: "n", Inc: true}, Print{Args: []Expr{StrLit{V: name}, Var{"n"}}}, Return{Vals: []Expr{val}}}}
	}
	twinFns := []Stmt{
		bump("nx", TInt, Var{"n"}),
		bump("nb", TBool, Binary{Op: "==", L: Binary{Op: "%", L: Var{"n"}, R: lit(2)}, R: lit(1)}),
		bump("ns", TStr, Binary{Op: "+", L: StrLit{V: "s"}, R: Itoa{X: Var{"n"}}}),
	}
	// after the definition of n (first statement of the prelude)
	st := append([]Stmt{p.Stmts[0]}, twinFns...)
	st = append(st, p.Stmts[1:]...)
	return &Prog{Stmts: st}
}

func popcount(x int) int {
	n := 0
	for ; x != 0; x &= x - 1 {
		n++
	}
	return n
}

func C04() int {
	r := findings.New("C04")
	defer drive.Cleanup()
	deadline := r.Deadline(5*time.Minute, 20*time.Minute)
	type item struct {
		key  string
		prog *Prog
	}
	var all []item
	tm := c04Templates()
	slots := 0
	for _, t := range tm {
		slots += len(t.plain)
		for mask := 0; mask < 1<<len(t.plain); mask++ {
			for _, ctx := range c04Contexts {
				// quick: all single slots in all contexts, all pairs/triples at top level and in a function;
				// thorough: every subset in every context.
				if !r.Thorough() && popcount(mask) != 1 && ctx != "top" && ctx != "function" {
					continue
				}
				var ids []string
				for i := range t.plain {
					if mask&(1<<i) != 0 {
						ids = append(ids, fmt.Sprint(i+1))
					}
				}
				all = append(all, item{fmt.Sprintf("stmt=%s traced=[%s] ctx=%s", t.name, strings.Join(ids, ","), ctx), c04Program(t, mask, ctx)})
			}
		}
	}
	// tracer shapes: every traced slot in every shape of c04Forms (single slots: every context; several slots:
	// every vector of shapes at top level, thorough also in a function and in a loop)
	shaped := 0
	for _, t := range tm {
		for mask := 1; mask < 1<<len(t.plain); mask++ {
			var slotsOf []int
			for i := range t.plain {
				if mask&(1<<i) != 0 && t.types[i] != "slice" {
					slotsOf = append(slotsOf, i)
				}
			}
			if len(slotsOf) == 0 {
				continue
			}
			ctxs := []string{"top"}
			if len(slotsOf) == 1 {
				ctxs = c04Contexts
			} else if r.Thorough() {
				ctxs = []string{"top", "function", "loop"}
			}
			nv := 1
			for range slotsOf {
				nv *= len(c04Forms)
			}
			for v := 0; v < nv; v++ {
				forms := make([]string, len(t.plain))
				for i := range forms {
					forms[i] = "D"
				}
				allD, x := true, v
				for _, sl := range slotsOf {
					forms[sl] = c04Forms[x%len(c04Forms)]
					x /= len(c04Forms)
					if forms[sl] != "D" {
						allD = false
					}
				}
				if allD {
					continue // the plain programs above
				}
				var ids []string
				for i := range t.plain {
					if mask&(1<<i) != 0 {
						ids = append(ids, fmt.Sprint(i+1)+forms[i])
					}
				}
				for _, ctx := range ctxs {
					all = append(all, item{fmt.Sprintf("stmt=%s traced=[%s] ctx=%s", t.name, strings.Join(ids, ","), ctx), c04ProgramForms(t, mask, ctx, forms)})
					shaped++
				}
			}
		}
	}
	r.Set("shaped_tracer_programs", shaped)
	// twins: every operand slot of a statement holds the SAME effectful expression text (nx() for int slots, nb()
	// for bool, ns() for string: each call bumps n and returns a value derived from it), so structurally equal
	// operands occur several times in one statement; each occurrence is its own evaluation
	twins := 0
	for _, t := range tm {
		nTwin := 0
		for _, ty := range t.types {
			if ty != "slice" {
				nTwin++
			}
		}
		if nTwin < 2 {
			continue
		}
		for _, ctx := range []string{"top", "function", "loop"} {
			all = append(all, item{fmt.Sprintf("stmt=%s twins ctx=%s", t.name, ctx), c04TwinProgram(t, ctx)})
			twins++
		}
	}
	r.Set("twin_operand_programs", twins)
	// every ordered pair of statement kinds in sequence, all operands traced (helper/register reuse across statements)
	for _, t1 := range tm {
		for _, t2 := range tm {
			if t1.decls != nil || t2.decls != nil || strings.HasPrefix(t1.name, "panic") || (!r.Thorough() && len(t1.plain)+len(t2.plain) > 4) {
				continue
			}
			mk := func(t c04Tmpl, base int) []Stmt {
				ops := make([]Expr, len(t.plain))
				for i := range ops {
					ops[i] = c04Tracer(t.types[i], base+i+1, t.plain[i])
				}
				return t.body(ops)
			}
			st := append(c04Prelude(), c04Locals()...)
			st = append(st, mark("first"))
			st = append(st, mk(t1, 0)...)
			st = append(st, c04Show(), mark("second"))
			second := mk(t2, 10)
			// the second statement must not redefine names of the first
			if ((strings.HasPrefix(t1.name, "define") || strings.HasPrefix(t1.name, "assign-call-blank")) && (strings.HasPrefix(t2.name, "define") || strings.HasPrefix(t2.name, "assign-call-blank"))) || (t1.name == t2.name && t1.name == "copy-source") {
				continue
			}
			st = append(st, second...)
			st = append(st, c04Show(), Print{Args: []Expr{StrLit{V: "end"}, Var{"n"}}})
			all = append(all, item{fmt.Sprintf("stmt=%s then=%s traced=all ctx=top", t1.name, t2.name), &Prog{Stmts: st}})
		}
	}
	{ // bind the interpreter's evaluation order to the Go toolchain for the statement kinds whose Go meaning
		// is the same (no growing slice writes, no string subscripts (Go yields bytes), no file builtins, and no
		// tracer inside && / || / a condition chain / case expressions, which TypeShell evaluates eagerly by design)
		goSame := map[string]bool{"binary+": true, "binary-": true, "binary*": true, "binary/": true, "binary%": true, "compare-int<": true, "compare-int==": true, "compare-int>": true, "compare-int>=": true, "compare-int<=": true, "compare-int!=": true,
			"compare-string": true, "compare-bool": true, "not": true, "nested-arith": true, "grouped-arith": true, "left-assoc-sub": true, "call-args": true,
			"call-stmt-args": true, "nested-calls": true, "slice-read-index": true, "slice-read-two": true, "slice-literal": true, "print-args": true, "return-values": true,
			"define-multi": true, "define-var-typed": true, "define-blank-second": true, "define-blank-first": true, "define-var-blank": true, "define-call-blank-first": true, "define-call-blank-middle": true, "for-header-body-calls-looping-function": true, "assign-multi": true, "compound-assign": true, "for-header": true, "for-header-continue": true,
			"for-condition-only": true, "len-string": true, "len-slice": true, "itoa": true, "string-concat": true}
		var conf []*Prog
		for _, it := range all {
			name := strings.TrimPrefix(strings.Fields(it.key)[0], "stmt=")
			if !goSame[name] {
				continue
			}
			if f := strings.Fields(it.key); len(f) > 1 && strings.HasPrefix(f[1], "then=") && !goSame[strings.TrimPrefix(f[1], "then=")] {
				continue
			}
			conf = append(conf, it.prog)
		}
		compared, problems := goConformance(conf, 400)
		r.Set("traces_validated_against_go_toolchain", compared)
		if len(problems) > 0 {
			for _, p := range problems {
				fmt.Fprintln(os.Stderr, "MODEL CONFORMANCE:", p)
			}
			fmt.Fprintln(os.Stderr, "HARNESS ERROR: the reference interpreter does not agree with the Go toolchain on generated programs; nothing is judged")
			return 2
		}
	}
	r.Set("statement_templates", len(tm))
	r.Set("operand_slots", slots)
	distinct := findings.NewDistinct()
	outcomes := findings.NewDistinct()
	var mu sync.Mutex
	done, undef, capped := 0, 0, false
	perTmpl := map[string]int{}
	drive.Par(len(all), func(i int) {
		if past(deadline) {
			mu.Lock()
			capped = true
			mu.Unlock()
			return
		}
		it := all[i]
		pv := JudgeBash(it.prog, ProgOpts{KeepFS: false})
		mu.Lock()
		done++
		perTmpl[strings.Fields(it.key)[0]]++
		mu.Unlock()
		distinct.Add(pv.Src)
		if pv.Symptom == "undefined" {
			mu.Lock()
			undef++
			mu.Unlock()
			fmt.Printf("note: model skipped %s: %s\n", it.key, pv.Detail)
			return
		}
		outcomes.Add(pv.Want.Stdout)
		if i%211 == 0 {
			r.Sample(map[string]string{"kind": "traced-statement", "case": it.key, "source": pv.Src, "expected_trace": pv.Want.Stdout})
		}
		if pv.Symptom != "" {
			pv = confirm(it.prog, ProgOpts{}, pv)
			if pv.Symptom == "" {
				return // a sandbox kill that did not repeat (counted in common.go)
			}
			sym := pv.Symptom
			if sym == "stdout-diff" {
				sym = c04Classify(pv.Want.Stdout, pv.Got.Stdout)
			}
			r.Fail(it.key+" symptom="+sym, fmt.Sprintf("%s: %s (%s)", it.key, sym, pv.Detail), progReplay(pv, nil))
		}
	})
	var pt []string
	for k, n := range perTmpl {
		pt = append(pt, fmt.Sprintf("%s:%d", strings.TrimPrefix(k, "stmt="), n))
	}
	sort.Strings(pt)
	r.Set("programs_per_statement_kind", pt)
	r.Set("evaluations", done)
	r.Set("distinct_nontrivial", distinct.Len())
	r.Set("distinct_expected_traces", outcomes.Len())
	r.Set("skipped_undefined", undef)
	r.Set("exhaustive", !capped)
	r.Set("rule", "table of statement kinds x operand slots: every non-empty subset of a statement's operand slots is wrapped in tracer calls (print id, bump global counter) and the statement is placed in each context (top level, function body, loop body, if branch, else-if branch, case body); quick = all single slots in all contexts + all subsets at top level and in a function, thorough = all subsets in all contexts. Oracle = the reference interpreter's effect trace (left-to-right, exactly once, all chain conditions/case expressions before any body, loop condition once per iteration after the post statement). Switch tags and range operands never carry a tracer (unspecified). Distinct by source text.")
	r.Assumef("tracers have no effect other than printing and counting, so Go's unspecified order between variable reads and calls is never observable")
	return finish(r)
}

// c04Classify separates order from multiplicity symptoms by looking at the trace lines only.
func c04Classify(want, got string) string {
	tr := func(s string) []string {
		var out []string
		for _, l := range strings.Split(s, "\n") {
			if strings.HasPrefix(l, "trace ") {
				out = append(out, l)
			}
		}
		return out
	}
	w, g := tr(want), tr(got)
	if len(w) != len(g) {
		return "multiplicity"
	}
	ws, gs := append([]string{}, w...), append([]string{}, g...)
	sort.Strings(ws)
	sort.Strings(gs)
	if strings.Join(ws, "|") != strings.Join(gs, "|") {
		return "multiplicity"
	}
	if strings.Join(w, "|") != strings.Join(g, "|") {
		return "order"
	}
	return "value-or-interleaving"
}

package checks

import (
	"fmt"
	"os"
	"os/exec"
	"path/filepath"
	"sort"
	"strings"
	"sync"
	"time"

	"verif/cmdmodel"
	"verif/corpus"
	"verif/drive"
	"verif/findings"
	. "verif/tsmodel"
	"verif/tsparse"
)

func init() { Registry["C05"] = C05 }

// BatchVerdict is the outcome of running one model program on the Batch target under cmdmodel.
type BatchVerdict struct {
	Symptom string // "" agrees; "undefined" model left the fragment; "unmodelled" cmdmodel refuses; else symptom
	Detail  string
	Src     string
	Script  string
	Want    Obs
	Got     cmdmodel.Result
	Steps   int
}

func JudgeBatch(prog *Prog) BatchVerdict {
	v, _ := JudgeBatchFiles(prog, nil)
	return v
}

// JudgeBatchFiles is JudgeBatch with a file system: pre holds the files present before the script starts
// (model spelling: lines end in \n); the second result is the file system after the cmd.exe-model run, in the
// same spelling. The reference's final file system is in Want.FS.
func JudgeBatchFiles(prog *Prog, pre map[string]string) (BatchVerdict, map[string]string) {
	src := PrintProg(*prog)
	in := &Interp{Width: 32}
	fs := map[string]string{}
	if pre != nil {
		in.FS = map[string]string{}
		for k, c := range pre {
			in.FS[k] = c
			fs[k] = strings.ReplaceAll(c, "\n", "\r\n")
		}
	}
	v := judgeBatchRun(prog, src, in, fs)
	after := map[string]string{}
	for k, c := range fs {
		after[k] = strings.ReplaceAll(c, "\r\n", "\n")
	}
	return v, after
}

func judgeBatchRun(prog *Prog, src string, in *Interp, fs map[string]string) BatchVerdict {
	want := in.Run(prog)
	v := BatchVerdict{Src: src, Want: want}
	if want.Undefined != "" {
		v.Symptom, v.Detail = "undefined", want.Undefined
		return v
	}
	tr := drive.TranspileSrc(src, drive.Batch)
	if tr.Panic != "" {
		v.Symptom, v.Detail = "transpiler-panic", firstLine(tr.Panic)
		return v
	}
	if !tr.OK() {
		v.Symptom, v.Detail = "rejected", tr.Err
		return v
	}
	v.Script = tr.Script
	budget := 300000 + 600*len(want.Stdout) + 50*len(src)
	start := map[string]string{}
	for k, c := range fs {
		start[k] = c
	}
	got := cmdmodel.Run(tr.Script, cmdmodel.Options{MaxSteps: budget, Files: fs})
	if got.Unmodelled == "step budget" {
		// believe a runaway only after a run with a much larger budget
		for k := range fs {
			delete(fs, k)
		}
		for k, c := range start {
			fs[k] = c
		}
		got = cmdmodel.Run(tr.Script, cmdmodel.Options{MaxSteps: 8 * budget, Files: fs})
		if got.Unmodelled == "step budget" {
			v.Got = got
			v.Symptom, v.Detail = "runaway", fmt.Sprintf("no termination within %d cmd steps (the reference run ends after %d output bytes)", 8*budget, len(want.Stdout))
			return v
		}
	}
	v.Got = got
	v.Steps = got.Steps
	if got.Unmodelled != "" {
		v.Symptom, v.Detail = "unmodelled", got.Unmodelled
		return v
	}
	out := strings.ReplaceAll(got.Stdout, "\r\n", "\n")
	switch {
	case got.Error != "":
		v.Symptom, v.Detail = "script-error", got.Error
	case out != want.Stdout:
		v.Symptom, v.Detail = "stdout-diff", diffHint(want.Stdout, out)
	case got.Exit != want.Exit:
		v.Symptom, v.Detail = "exit-diff", fmt.Sprintf("want %d got %d", want.Exit, got.Exit)
	}
	return v
}

func batchReplay(v BatchVerdict) func() findings.Replay {
	return func() findings.Replay {
		return findings.Replay{Files: map[string]string{
			"src/main.tsh": v.Src,
			"expected.txt": v.Want.Stdout + fmt.Sprintf("exit=%d\n", v.Want.Exit),
			"actual.txt":   strings.ReplaceAll(v.Got.Stdout, "\r\n", "\n") + fmt.Sprintf("exit=%d\nerror=%s\n", v.Got.Exit, v.Got.Error),
			"script.bat":   v.Script,
			"detail.txt":   v.Symptom + ": " + v.Detail + "\n",
		}, Script: `set -e
# re-transpiles with the repository's own CLI and runs the Batch script under the cmd.exe model
T=$(mktemp -d); trap 'rm -rf "$T"' EXIT
(cd /repo && GOFLAGS=-mod=mod GOPROXY=off GOSUMDB=off GOTOOLCHAIN=local go build -o "$T/tsh" . ) && cp -r /repo/std "$T/std"
mkdir -p "$T/out"; "$T/tsh" -i src/main.tsh -o "$T/out" -t batch || { echo "REPLAY: transpilation failed"; exit 1; }
/verif/bin/vcheck cmdrun "$T/out/main.bat" > "$T/actual.txt" || true
if diff expected.txt "$T/actual.txt"; then echo "REPLAY: no longer reproduces"; else echo "REPLAY: reproduced (diff above)"; exit 1; fi`}
	}
}

func init() {
	Tools["cmdrun"] = func(args []string) int {
		b, err := os.ReadFile(args[0])
		if err != nil {
			fmt.Fprintln(os.Stderr, err)
			return 2
		}
		res := cmdmodel.Run(string(b), cmdmodel.Options{Files: map[string]string{}})
		fmt.Print(strings.ReplaceAll(res.Stdout, "\r\n", "\n"))
		fmt.Printf("exit=%d\n", res.Exit)
		if res.Error != "" || res.Unmodelled != "" {
			fmt.Printf("error=%s\nunmodelled=%s\n", res.Error, res.Unmodelled)
		}
		return 0
	}
}

// c05Calibrate runs the Windows half of the repository's suite under cmdmodel.
// Returns the failing test names (empty = calibrated).
func c05Calibrate(r *findings.Run) (fails []string, summary string, err error) {
	script := filepath.Join(findings.Root(), "engine", "cmdmodel", "calib", "run.sh")
	cmd := exec.Command("bash", script)
	repo := os.Getenv("VERIF_REPO")
	if repo == "" {
		repo = "/repo"
	}
	cmd.Env = append(os.Environ(), "REPO="+repo)
	out, e := cmd.CombinedOutput()
	lines := strings.Split(string(out), "\n")
	pass, unm := 0, 0
	for _, l := range lines {
		switch {
		case strings.HasPrefix(l, "PASS"):
			pass++
		case strings.HasPrefix(l, "UNMODELLED"):
			unm++
		case strings.HasPrefix(l, "FAIL"):
			fails = append(fails, firstLine(l))
		}
	}
	summary = fmt.Sprintf("pass=%d fail=%d unmodelled=%d", pass, len(fails), unm)
	if pass == 0 {
		return nil, summary, fmt.Errorf("calibration harness did not run: %v\n%s", e, lastLines(string(out), 15))
	}
	return fails, summary, nil
}

func lastLines(s string, n int) string {
	l := strings.Split(strings.TrimRight(s, "\n"), "\n")
	if len(l) > n {
		l = l[len(l)-n:]
	}
	return strings.Join(l, "\n")
}

var boundary32 = []int64{0, 1, -1, 2, 7, -8, 10, 99, 2147483647, -2147483647, 46341, -46341}

func c05Programs(r *findings.Run) (progs []*Prog, names []string) {
	add := func(n string, p *Prog) { progs = append(progs, p); names = append(names, n) }
	// --- C01 fragment: expression cells (batched), 32-bit valuations
	full := &exprGen{al: fullAlphabet(), memo: map[string][]Expr{}}
	var k01, k2 []Expr
	for _, t := range []string{"int", "bool", "string"} {
		k01 = append(k01, full.gen(t, 0)...)
		k01 = append(k01, full.gen(t, 1)...)
	}
	pa := &exprGen{al: precAlphabet(), memo: map[string][]Expr{}}
	for _, t := range []string{"int", "bool"} {
		k2 = append(k2, pa.gen(t, 2)...)
		if r.Thorough() {
			k2 = append(k2, pa.gen(t, 3)...)
		}
	}
	strs := []string{"", "x", "ab"}
	n := 0
	var vals []valuation
	for _, a := range boundary32 {
		for _, b := range boundary32 {
			vals = append(vals, valuation{a: a, b: b, p: n&1 == 1, q: n&2 == 2, s: strs[n%3], u: strs[(n/3)%3]})
			n++
		}
	}
	if !r.Thorough() {
		// quick: a diagonal-ish subset of the 144 valuations (every a and every b value occurs)
		var sub []valuation
		for i, v := range vals {
			if i%12 == (i/12)%12 || i%12 == (i/12+5)%12 {
				sub = append(sub, v)
			}
		}
		vals = sub
	}
	cells := 0
	batch := func(label string, trees []Expr, vs []valuation) {
		for vi, v := range vs {
			var b []Expr
			flush := func() {
				if len(b) > 0 {
					add(fmt.Sprintf("expr-batch %s valuation#%d (%s) first=%s n=%d", label, vi, v, PrintExpr(b[0]), len(b)), cellProg(v, b))
					cells += len(b)
					b = nil
				}
			}
			for _, e := range trees {
				in := &Interp{Width: 32}
				if in.Run(cellProg(v, []Expr{e})).Undefined != "" {
					continue
				}
				b = append(b, e)
				if len(b) == 40 {
					flush()
				}
			}
			flush()
		}
	}
	batch("k0-1", k01, vals)
	batch("k2-3prec", k2, []valuation{{7, 2, true, false, "x", ""}, {-8, 3, false, true, "ab", "x"}})
	r.Set("expression_cells", cells)
	// --- C01 fragment: control skeletons (label allocation: every nesting and sequencing)
	for i, p := range c01SimplePrograms() {
		add(fmt.Sprintf("simple:#%d", i), p)
	}
	sk := func(label string, kinds []skKind, n, d int) {
		memo := map[[3]int][][]skNode{}
		seqs := enumSeqs(kinds, n, d, 3, memo)
		for _, s := range seqs {
			add("skeleton "+label+":"+skName(s), skProgram(s))
		}
		r.Set("skeletons_"+label, len(seqs))
	}
	sk("n1_full", fullKinds(), 1, 1)
	sk("n2_control", controlKinds(), 2, 2)
	sk("n3_control", controlKinds(), 3, 3)
	if r.Thorough() {
		sk("n2_full", fullKinds(), 2, 2)
		sk("n4_control", controlKinds(), 4, 3)
	}
	// --- C02 fragment
	for i, p := range c02Typed() {
		add(fmt.Sprintf("functions typed#%d", i), p)
	}
	f1s := c02Specs(0, nil, false)
	seen := map[string]bool{}
	for _, s1 := range f1s {
		add("functions 1fn:"+s1.String(), c02Program([]fnSpec{s1}))
		for _, s2 := range c02Specs(1, []fnSpec{s1}, false) {
			if !r.Thorough() && (s1.locals || s2.write == "++") {
				continue
			}
			p := c02Program([]fnSpec{s1, s2})
			src := PrintProg(*p)
			if seen[src] {
				continue
			}
			seen[src] = true
			add("functions 2fn:"+s1.String()+" | "+s2.String(), p)
		}
	}
	// three and more functions (any number of functions): a chain f3 -> f2 -> f1
	for _, s1 := range f1s[:6] {
		s2s := c02Specs(1, []fnSpec{s1}, false)
		s2 := s2s[len(s2s)/2]
		s3s := c02Specs(2, []fnSpec{s1, s2}, false)
		for j, s3 := range s3s {
			if j%7 == 0 {
				add("functions 3fn:"+s1.String()+" | "+s2.String()+" | "+s3.String(), c02Program([]fnSpec{s1, s2, s3}))
			}
		}
	}
	// --- C03 fragment: slice histories depth 2 (3 thorough) and sweeps with two-digit indices
	ops := c03Ops()
	for _, el := range c03Elems {
		if el.tag != "" {
			continue
		}
		depth := 2
		if r.Thorough() && el.t.Base == "int" {
			depth = 3
		}
		var rec func(h []int, st c03State, d int)
		rec = func(h []int, st c03State, d int) {
			if len(h) > 0 {
				p, _ := c03HistoryProg(h, ops, el)
				add("slice-history "+c03HistName(h, ops, el), p)
			}
			if d == depth {
				return
			}
			for oi, op := range ops {
				if op.ok(st) {
					ns := st.clone()
					op.apply(&ns)
					rec(append(append([]int{}, h...), oi), ns, d+1)
				}
			}
		}
		rec(nil, c03State{objs: [][]int{{1, 2}, {}}, v: 0, w: 1}, 0)
	}
	c03Jobs = nil
	stats := &c03Stats{states: map[string]bool{}}
	fake := findings.New("C05") // only to reuse the sweep generator's tier switch
	_ = fake
	c03Sweeps(r, stats, time.Time{})
	for _, j := range c03Jobs {
		add("sweep "+j.name, j.prog)
	}
	c03Jobs = nil
	// slice lengths and indices 0..25 (string-wise lss on two-digit numbers)
	for _, n := range []int{9, 10, 11, 12, 19, 20, 21, 25} {
		st := []Stmt{
			Define{Names: []string{"v"}, Form: DefVarType, T: Type{Base: "int", Slice: true}},
			SliceSet{Name: "v", I: lit(n), Val: lit(7)},
			Print{Args: []Expr{StrLit{V: "len"}, Len{X: Var{"v"}}, Index{X: Var{"v"}, I: lit(0)}, Index{X: Var{"v"}, I: lit(n / 2)}, Index{X: Var{"v"}, I: lit(n)}}},
			SliceSet{Name: "v", I: lit(n - 1), Val: lit(3)},
			Print{Args: []Expr{StrLit{V: "len2"}, Len{X: Var{"v"}}, Index{X: Var{"v"}, I: lit(n - 1)}}},
			Define{Names: []string{"d"}, Form: DefVarType, T: Type{Base: "int", Slice: true}},
			Print{Args: []Expr{StrLit{V: "copy"}, CopyE{Dst: "d", Src: Var{"v"}}, Len{X: Var{"d"}}, Index{X: Var{"d"}, I: lit(n)}}},
		}
		add(fmt.Sprintf("slice two-digit gap write at %d", n), &Prog{Stmts: st})
	}
	// --- C04 fragment
	for _, t := range c04Templates() {
		if strings.HasPrefix(t.name, "write") || strings.HasPrefix(t.name, "read") {
			continue // file helpers are unmodelled (external commands)
		}
		for mask := 1; mask < 1<<len(t.plain); mask++ {
			for _, ctx := range c04Contexts {
				if !r.Thorough() && popcount(mask) != 1 && ctx != "top" {
					continue
				}
				add(fmt.Sprintf("traced stmt=%s mask=%d ctx=%s", t.name, mask, ctx), c04Program(t, mask, ctx))
			}
		}
	}
	// programs that use ONE run-time facility and report through panic only (no print anywhere): whatever a
	// facility needs in the script (helper routines, set-up lines) must not depend on another statement's presence
	{
		pn := func(e Expr) Stmt { return Panic{X: e} }
		one := func(name string, st ...Stmt) { add("sole-facility "+name, &Prog{Stmts: st}) }
		sl := Define{Names: []string{"sl"}, Form: DefShort, Vals: []Expr{SliceLit{Elem: TInt, Elems: []Expr{lit(4), lit(5), lit(6)}}}}
		str := Define{Names: []string{"str"}, Form: DefShort, Vals: []Expr{StrLit{V: "abcdef"}}}
		x := Define{Names: []string{"x"}, Form: DefShort, Vals: []Expr{lit(3)}}
		one("panic-literal", pn(StrLit{V: "boom"}))
		one("panic-in-if", x, If{Cond: Binary{Op: ">", L: Var{"x"}, R: lit(2)}, Then: []Stmt{pn(StrLit{V: "big"})}})
		one("panic-in-function", FuncDef{Name: "f", Body: []Stmt{pn(StrLit{V: "inner"})}}, ExprStmt{X: Call{Fn: "f"}})
		one("panic-after-loop", x, For{Init: Define{Names: []string{"i"}, Form: DefShort, Vals: []Expr{lit(0)}}, Cond: Binary{Op: "<", L: Var{"i"}, R: lit(3)}, Post: IncDec{Name: "i", Inc: true}, Body: []Stmt{OpAssign{Name: "x", Op: "+", Val: Var{"i"}}}}, pn(Itoa{X: Var{"x"}}))
		one("panic-itoa", x, pn(Itoa{X: Binary{Op: "*", L: Var{"x"}, R: lit(7)}}))
		one("panic-concat", x, pn(Binary{Op: "+", L: StrLit{V: "v="}, R: Itoa{X: Var{"x"}}}))
		one("slice-len", sl, pn(Itoa{X: Len{X: Var{"sl"}}}))
		one("slice-index", sl, pn(Itoa{X: Index{X: Var{"sl"}, I: lit(1)}}))
		one("slice-assign", sl, SliceSet{Name: "sl", I: lit(1), Val: lit(9)}, pn(Itoa{X: Index{X: Var{"sl"}, I: lit(1)}}))
		one("slice-grow", sl, SliceSet{Name: "sl", I: lit(5), Val: lit(9)}, pn(Itoa{X: Index{X: Var{"sl"}, I: lit(4)}}))
		one("slice-copy", sl, Define{Names: []string{"d"}, Form: DefShort, Vals: []Expr{SliceLit{Elem: TInt}}}, Define{Names: []string{"n"}, Form: DefShort, Vals: []Expr{CopyE{Dst: "d", Src: Var{"sl"}}}}, pn(Itoa{X: Var{"n"}}))
		one("slice-copy-then-index", sl, Define{Names: []string{"d"}, Form: DefShort, Vals: []Expr{SliceLit{Elem: TInt}}}, Define{Names: []string{"n"}, Form: DefShort, Vals: []Expr{CopyE{Dst: "d", Src: Var{"sl"}}}}, pn(Itoa{X: Binary{Op: "+", L: Var{"n"}, R: Index{X: Var{"d"}, I: lit(2)}}}))
		one("slice-range", sl, x, ForRange{I: "i", V: "v", X: Var{"sl"}, Body: []Stmt{OpAssign{Name: "x", Op: "+", Val: Binary{Op: "*", L: Var{"i"}, R: Var{"v"}}}}}, pn(Itoa{X: Var{"x"}}))
		one("string-len", str, pn(Itoa{X: Len{X: Var{"str"}}}))
		one("string-index", str, pn(Index{X: Var{"str"}, I: lit(2)}))
		one("string-sub", str, pn(Substr{X: Var{"str"}, Lo: lit(1), Hi: lit(4)}))
		one("string-range", str, Define{Names: []string{"acc"}, Form: DefShort, Vals: []Expr{StrLit{V: ""}}}, ForRange{I: "i", V: "c", X: Var{"str"}, Body: []Stmt{Assign{Names: []string{"acc"}, Vals: []Expr{Binary{Op: "+", L: Var{"c"}, R: Var{"acc"}}}}}}, pn(Var{"acc"}))
		one("function-result", FuncDef{Name: "f", Params: []Param{{"a", TInt}}, Rets: []Type{TInt}, Body: []Stmt{Return{Vals: []Expr{Binary{Op: "+", L: Var{"a"}, R: lit(1)}}}}}, pn(Itoa{X: Call{Fn: "f", Args: []Expr{lit(4)}}}))
		one("multi-assign", x, Define{Names: []string{"y"}, Form: DefShort, Vals: []Expr{lit(8)}}, Assign{Names: []string{"x", "y"}, Vals: []Expr{Var{"y"}, Var{"x"}}}, pn(Itoa{X: Binary{Op: "-", L: Var{"x"}, R: Var{"y"}}}))
	}
	// sole-facility programs written as text (package corpus), as far as the reference model reads them
	for _, tp := range corpus.Tiny() {
		if strings.ContainsAny(tp.Src, "!^%") {
			continue // not the cmd-neutral string alphabet of C05 (C08 owns content: a ^ next to a ! is its listed finding)
		}
		if p, err := tsparse.Parse(tp.Src); err == nil && len(p.Imports) == 0 {
			add("tiny "+tp.Name, p)
		}
	}
	// the cross-feature space (cross.go): statements of all fragments crossed with every context / with each other
	// (pairs also inside an if branch and a loop body: cmd.exe reads a parenthesised block as a whole, so two
	// statements of one block instance share one %-expansion)
	for _, cp := range crossReduced(r.Thorough(), "if", "for3x2") {
		add("cross "+cp.name, cp.prog)
	}
	// panic inside a function followed by more top-level code
	add("panic in function then top-level code", &Prog{Stmts: []Stmt{
		FuncDef{Name: "boom", Body: []Stmt{Print{Args: []Expr{StrLit{V: "in"}}}, Panic{X: StrLit{V: "stop"}}}},
		Print{Args: []Expr{StrLit{V: "before"}}}, ExprStmt{X: Call{Fn: "boom"}}, Print{Args: []Expr{StrLit{V: "after"}}},
	}})
	return
}

// c05Guard decides whether a program falls into the region of a listed known finding.
type c05Guard struct {
	key  string
	pred func(name string, p *Prog) bool
}

func progHas(p *Prog, f func(Stmt) bool) bool {
	var walk func(ss []Stmt) bool
	walk = func(ss []Stmt) bool {
		for _, s := range ss {
			if f(s) {
				return true
			}
			switch x := s.(type) {
			case If:
				if walk(x.Then) || walk(x.Else) {
					return true
				}
				for _, e := range x.Elifs {
					if walk(e.Body) {
						return true
					}
				}
			case Switch:
				for _, c := range x.Cases {
					if walk(c.Body) {
						return true
					}
				}
			case For:
				if walk(x.Body) {
					return true
				}
			case ForRange:
				if walk(x.Body) {
					return true
				}
			case FuncDef:
				if walk(x.Body) {
					return true
				}
			}
		}
		return false
	}
	return walk(p.Stmts)
}

func C05() int {
	r := findings.New("C05")
	defer drive.Cleanup()
	deadline := r.Deadline(10*time.Minute, 40*time.Minute)
	// 1. calibration: the model must reproduce the repository's Windows expectations
	fails, summary, err := c05Calibrate(r)
	r.Set("calibration", summary)
	if err != nil {
		fmt.Fprintln(os.Stderr, "HARNESS ERROR:", err)
		return 2
	}
	for _, f := range fails {
		f := f
		r.Fail("calibration "+strings.Fields(f + " ? ?")[1], "a Windows test of the repository's own suite no longer yields its expected output under the cmd.exe model: "+f, func() findings.Replay {
			return findings.Replay{Files: map[string]string{"calibration.txt": f + "\n"}, Script: "bash /verif/engine/cmdmodel/calib/run.sh"}
		})
	}
	progs, names := c05Programs(r)
	// guards: regions of the program space tied 1:1 to a listed known finding; their programs are
	// not swept, the sentinel witness is judged instead (and reports nothing once the defect is gone).
	guards := []c05Guard{
		{key: "guard=panic-inside-function", pred: func(_ string, p *Prog) bool {
			return progHas(p, func(s Stmt) bool {
				f, ok := s.(FuncDef)
				return ok && progHas(&Prog{Stmts: f.Body}, func(t Stmt) bool { _, isP := t.(Panic); return isP })
			})
		}},
	}
	guarded := 0
	for _, g := range guards {
		if !r.IsKnown(g.key) {
			continue
		}
		var kp []*Prog
		var kn []string
		var sentinel *Prog
		for i, p := range progs {
			if g.pred(names[i], p) {
				guarded++
				// the witness is the program written for it (code after the call shows that the caller went on)
				if names[i] == "panic in function then top-level code" {
					sentinel = p
				}
				continue
			}
			kp, kn = append(kp, p), append(kn, names[i])
		}
		progs, names = kp, kn
		if sentinel != nil {
			if bv := JudgeBatch(sentinel); bv.Symptom != "" && bv.Symptom != "undefined" && bv.Symptom != "unmodelled" {
				r.Fail(g.key, "", nil)
			}
		}
	}
	r.Set("programs_guarded_by_known_findings", guarded)
	distinct := findings.NewDistinct()
	outcomes := findings.NewDistinct()
	var mu sync.Mutex
	done, undef, agreed, capped := 0, 0, 0, false
	stray := 0
	unmodelled := map[string]int{}
	groups := map[string]int{}
	drive.Par(len(progs), func(i int) {
		if past(deadline) {
			mu.Lock()
			capped = true
			mu.Unlock()
			return
		}
		bv := JudgeBatch(progs[i])
		distinct.Add(bv.Src)
		mu.Lock()
		done++
		groups[strings.Fields(names[i])[0]]++
		stray += bv.Got.StrayParens
		switch bv.Symptom {
		case "":
			agreed++
		case "undefined":
			undef++
		case "unmodelled":
			unmodelled[bv.Detail]++
		}
		mu.Unlock()
		if bv.Symptom == "" {
			outcomes.Add(bv.Want.Stdout)
		}
		if i%401 == 0 {
			r.Sample(map[string]string{"kind": strings.Fields(names[i])[0], "case": names[i], "source": clipN(bv.Src, 1500)})
		}
		if bv.Symptom == "" || bv.Symptom == "undefined" || bv.Symptom == "unmodelled" {
			return
		}
		again := JudgeBatch(progs[i])
		if again.Symptom != bv.Symptom || again.Got.Stdout != bv.Got.Stdout {
			fmt.Fprintf(os.Stderr, "HARNESS ERROR: batch replay not deterministic for %s\n", names[i])
			os.Exit(2)
		}
		r.Fail("prog="+names[i]+" symptom="+bv.Symptom, fmt.Sprintf("%s: %s (%s)", names[i], bv.Symptom, bv.Detail), batchReplay(bv))
	})
	var un []string
	for k, n := range unmodelled {
		un = append(un, fmt.Sprintf("%d x %s", n, k))
	}
	sort.Strings(un)
	var gr []string
	for k, n := range groups {
		gr = append(gr, fmt.Sprintf("%s=%d", k, n))
	}
	sort.Strings(gr)
	r.Set("program_groups", gr)
	r.Set("unmodelled_reasons", un)
	r.Set("executed_stray_closing_parenthesis_lines", stray)
	r.Set("unmodelled", done-agreed-undef-r.Violations())
	r.Set("agreed_with_reference", agreed)
	r.Set("skipped_undefined", undef)
	r.Set("evaluations", done)
	r.Set("distinct_nontrivial", distinct.Len())
	r.Set("distinct_expected_outputs", outcomes.Len())
	r.Set("exhaustive", !capped)
	r.Set("rule", "the enumerators of C01 (expression cells over 32-bit boundary valuations, control skeletons: every nesting and sequencing of up to 3 constructs), C02 (function programs), C03 (slice histories, index sweeps incl. two-digit indices) and C04 (traced operand slots) at reduced bounds, plus the cross-feature space of cross.go (every statement of all fragments in every context, every ordered pair inside a function called twice; thorough: the whole quick space of C01-C03); each program is transpiled to Batch by the real transpiler and executed under cmdmodel (an executable model of cmd.exe's documented rules, calibrated on every run against the Windows half of the repository's own suite); stdout lines and exit status must equal the 32-bit reference interpreter's. Runs the model refuses to decide are counted as unmodelled, never judged. Distinct by source text.")
	r.Assumef("no cmd.exe exists in the sandbox: the trusted base is cmdmodel (engine/cmdmodel, ~2900 lines) whose rules are cmd.exe's documented ones and which reproduces the expected output of every modelled Windows test of the repository's suite (calibration result in coverage.calibration)")
	r.Assumef("agreement with the Bash script follows transitively: C01-C04 compare Bash with the same reference on the same generators")
	return finish(r)
}

func clipN(s string, n int) string {
	if len(s) > n {
		return s[:n] + "…"
	}
	return s
}

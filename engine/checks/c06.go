package checks

import (
	"fmt"
	"sort"
	"strings"
	"sync"
	"time"

	"verif/drive"
	"verif/findings"
)

func init() { Registry["C06"] = C06 }

// offered expressions by type tag
type c06Offer struct {
	typ, spelling, src string
	isVar              bool
}

func c06Offers() []c06Offer {
	o := func(typ, spelling, src string, isVar bool) c06Offer { return c06Offer{typ, spelling, src, isVar} }
	return []c06Offer{
		o("int", "literal", "5", false), o("int", "variable", "vi", true), o("int", "call", "fi()", false), o("int", "compound", "(vi + 2)", false), o("int", "builtin", "len(vs)", false),
		o("bool", "literal", "true", false), o("bool", "variable", "vb", true), o("bool", "call", "fb()", false), o("bool", "compound", "(vi < 2)", false), o("bool", "negation", "!vb", false),
		o("string", "literal", `"lit"`, false), o("string", "variable", "vs", true), o("string", "call", "fs()", false), o("string", "compound", `(vs + "a")`, false), o("string", "builtin", "itoa(vi)", false), o("string", "error-variable", "ve", true), o("string", "subscript", "vs[0]", false),
		o("[]int", "literal", "[]int{1, 2}", false), o("[]int", "variable", "vsi", true), o("[]int", "call", "fsi()", false),
		o("[]bool", "literal", "[]bool{true}", false), o("[]bool", "variable", "vsb", true),
		o("[]string", "literal", `[]string{"a"}`, false), o("[]string", "variable", "vss", true), o("[]string", "call", "fss()", false),
		o("void", "call", "fv()", false),
		o("multi", "call", "f2()", false),
		// the same without a single value behind parentheses, and a program call (three values: output, error output, status)
		o("multi-grouped", "grouped-multi-call", "(f2())", false), o("multi-grouped", "twice-grouped-multi-call", "((f2()))", false), o("ill", "grouped-void-call", "(fv())", false),
		o("multi3", "program-call", `@echo("x")`, false), o("multi3-grouped", "grouped-program-call", `(@echo("x"))`, false),
		// expressions that are ill-typed in themselves (type tag "ill"): no position accepts them, whatever
		// type the broken operator would have produced
		o("ill", "not-int", "!5", false), o("ill", "not-not-int", "!!5", false), o("ill", "not-not-string", "!!vs", false), o("ill", "not-not-not-int", "!!!vi", false),
		o("ill", "not-not-slice", "!!vsi", false), o("ill", "not-not-group-int", "!(!(vi))", false), o("ill", "int-plus-string", "(vi + vs)", false), o("ill", "bool-and-int", "(vb && vi)", false),
		o("ill", "int-less-string", "(vi < vs)", false), o("ill", "len-of-int", "len(vi)", false), o("ill", "itoa-of-string", "itoa(vs)", false), o("ill", "string-index", "vsi[vs]", false),
		o("ill", "call-with-argument-for-none", "fi(1)", false), o("ill", "group-not-not-int", "(!!5)", false),
	}
}

const c06Prelude = `vi := 1
vi2 := 2
vb := true
vs := "s"
var ve error = "e"
vsi := []int{1, 2, 3}
vsb := []bool{true}
vss := []string{"a", "b"}
func fi() int {
	return 1
}
func fb() bool {
	return true
}
func fs() string {
	return "s"
}
func fsi() []int {
	return []int{1}
}
func fss() []string {
	return []string{"a"}
}
func fv() {
	print("v")
}
func f2() (int, int) {
	return 1, 2
}
func p1(a int) {
	print(a)
}
func p2(a int, b string) {
	print(a, b)
}
func p3(a int, b string, c bool) {
	print(a, b, c)
}
func ps(a []int) {
	print(len(a))
}
`

// a typed position: template with %H, the set of accepted type tags
type c06Pos struct {
	name    string
	decl    string // top-level declarations (may contain %H), placed after the prelude
	stmt    string // statement(s) placed in the context (may contain %H)
	accept  []string
	varOnly bool                  // the hole must be a variable name
	skip    func(o c06Offer) bool // (position, offered) pairs the property leaves unspecified
	noCtx   bool                  // do not wrap into contexts (position brings its own structure)
}

func c06Positions() []c06Pos {
	var P []c06Pos
	add := func(p c06Pos) { P = append(P, p) }
	single := []string{"int", "bool", "string", "[]int", "[]bool", "[]string"}
	seq := []string{"string", "[]int", "[]bool", "[]string"}
	isSlice := func(o c06Offer) bool { return strings.HasPrefix(o.typ, "[]") }
	for _, op := range []string{"+", "-", "*", "/", "%"} {
		add(c06Pos{name: "arith" + op + ".left", stmt: "r := %H " + op + " 3\nprint(r)", accept: []string{"int"}})
		add(c06Pos{name: "arith" + op + ".right", stmt: "r := 3 " + op + " %H\nprint(r)", accept: []string{"int"}})
	}
	add(c06Pos{name: "concat.left", stmt: `r := %H + "a"` + "\nprint(r)", accept: []string{"string"}})
	add(c06Pos{name: "concat.right", stmt: `r := "a" + %H` + "\nprint(r)", accept: []string{"string"}})
	add(c06Pos{name: "string-minus.right", stmt: `r := "a" - %H` + "\nprint(r)", accept: nil})
	for _, op := range []string{"<", "<=", ">", ">=", "==", "!="} {
		add(c06Pos{name: "compare-int" + op + ".left", stmt: "r := %H " + op + " 3\nprint(r)", accept: []string{"int"}})
		add(c06Pos{name: "compare-int" + op + ".right", stmt: "r := 3 " + op + " %H\nprint(r)", accept: []string{"int"}})
	}
	for _, op := range []string{"==", "!="} {
		add(c06Pos{name: "compare-bool" + op + ".left", stmt: "r := %H " + op + " true\nprint(r)", accept: []string{"bool"}})
		add(c06Pos{name: "compare-bool" + op + ".right", stmt: "r := vb " + op + " %H\nprint(r)", accept: []string{"bool"}})
		add(c06Pos{name: "compare-string" + op + ".left", stmt: "r := %H " + op + ` "x"` + "\nprint(r)", accept: []string{"string"}})
		add(c06Pos{name: "compare-string" + op + ".right", stmt: "r := vs " + op + " %H\nprint(r)", accept: []string{"string"}})
		// slice equality is unspecified: skip slices of the same type
		add(c06Pos{name: "compare-slice" + op + ".right", stmt: "r := vsi " + op + " %H\nprint(r)", accept: nil, skip: func(o c06Offer) bool { return o.typ == "[]int" }})
	}
	// comparison chains (left-associative): the second operator compares a bool
	add(c06Pos{name: "compare-chain.last", stmt: "r := vi < 2 == %H\nprint(r)", accept: []string{"bool"}})
	add(c06Pos{name: "compare-chain.middle", stmt: "r := vi < %H == true\nprint(r)", accept: []string{"int"}})
	add(c06Pos{name: "compare-chain-string.last", stmt: "r := vs == \"x\" != %H\nprint(r)", accept: []string{"bool"}})
	add(c06Pos{name: "compare-chain-three.last", stmt: "r := vi == 1 != vb == %H\nprint(r)", accept: []string{"bool"}})
	add(c06Pos{name: "arith-chain.last", stmt: "r := vi + 1 - 2 * %H\nprint(r)", accept: []string{"int"}})
	add(c06Pos{name: "logical-chain.last", stmt: "r := vb && vi < 2 || %H\nprint(r)", accept: []string{"bool"}})
	for _, op := range []string{"<", ">="} { // ordering of bools is not allowed; of strings unspecified
		add(c06Pos{name: "order-bool" + op + ".right", stmt: "r := vb " + op + " %H\nprint(r)", accept: nil})
		add(c06Pos{name: "order-string" + op + ".right", stmt: "r := vs " + op + " %H\nprint(r)", accept: nil, skip: func(o c06Offer) bool { return o.typ == "string" }})
	}
	for _, op := range []string{"&&", "||"} {
		add(c06Pos{name: "logical" + op + ".left", stmt: "r := %H " + op + " true\nprint(r)", accept: []string{"bool"}})
		add(c06Pos{name: "logical" + op + ".right", stmt: "r := vb " + op + " %H\nprint(r)", accept: []string{"bool"}})
	}
	add(c06Pos{name: "not.operand", stmt: "r := !%H\nprint(r)", accept: []string{"bool"}})
	// chains of the unary operator: every level requires a bool
	add(c06Pos{name: "not-not.operand", stmt: "r := !!%H\nprint(r)", accept: []string{"bool"}})
	add(c06Pos{name: "not-not-not.operand", stmt: "r := !!!%H\nprint(r)", accept: []string{"bool"}})
	add(c06Pos{name: "not-x4.operand", stmt: "r := !!!!%H\nprint(r)", accept: []string{"bool"}})
	add(c06Pos{name: "not-group-not.operand", stmt: "r := !(!%H)\nprint(r)", accept: []string{"bool"}})
	add(c06Pos{name: "not-not-in-condition.operand", stmt: "if !!%H {\nprint(1)\n}", accept: []string{"bool"}})
	add(c06Pos{name: "not-not-as-argument.operand", stmt: `p3(1, "x", !!%H)`, accept: []string{"bool"}})
	add(c06Pos{name: "not-not-compared.operand", stmt: "r := !!%H == vb\nprint(r)", accept: []string{"bool"}})
	add(c06Pos{name: "group.arith", stmt: "r := (%H) * 2\nprint(r)", accept: []string{"int"}})
	// definitions
	add(c06Pos{name: "define-short", stmt: "d := %H\nprint(len(vs))", accept: single})
	add(c06Pos{name: "define-var-infer", stmt: "var d = %H\nprint(len(vs))", accept: single})
	for _, t := range single {
		add(c06Pos{name: "define-var-typed:" + t, stmt: "var d " + t + " = %H\nprint(len(vs))", accept: []string{t}})
	}
	add(c06Pos{name: "define-var-typed:error", stmt: "var d error = %H\nprint(len(vs))", accept: []string{"string"}})
	add(c06Pos{name: "define-short-grouped", stmt: "d := (%H)\nprint(len(vs))", accept: single})
	add(c06Pos{name: "assign-grouped:int", stmt: "vi = (%H)", accept: []string{"int"}})
	add(c06Pos{name: "redefine-existing-int-with-new", stmt: "vi, dnew := %H, 1\nprint(dnew)", accept: []string{"int"}, noCtx: true})
	add(c06Pos{name: "redefine-existing-string-with-new", stmt: "dnew, vs := 1, %H\nprint(dnew)", accept: []string{"string"}, noCtx: true})
	add(c06Pos{name: "redefine-existing-string-from-call", stmt: "vs, dnew := %H\nprint(dnew)", accept: nil, noCtx: true})
	add(c06Pos{name: "redefine-existing-ints-from-call", stmt: "vi, dnew := %H\nprint(dnew)", accept: []string{"multi"}, noCtx: true})
	add(c06Pos{name: "define-multi.first", stmt: "d1, d2 := %H, 1\nprint(d2)", accept: single})
	add(c06Pos{name: "define-multi.second", stmt: "d1, d2 := 1, %H\nprint(d1)", accept: single})
	add(c06Pos{name: "define-multi.from-call", stmt: "d1, d2 := %H\nprint(len(vs))", accept: []string{"multi"}})
	add(c06Pos{name: "define-multi-typed.from-call", stmt: "var d1, d2 int = %H\nprint(len(vs))", accept: []string{"multi"}})
	add(c06Pos{name: "define-multi-typed-string.from-call", stmt: "var d1, d2 string = %H\nprint(len(vs))", accept: nil})
	add(c06Pos{name: "define-three.from-call", stmt: "d1, d2, d3 := %H\nprint(len(vs))", accept: []string{"multi3"}})
	// assignments
	add(c06Pos{name: "assign:int", stmt: "vi = %H", accept: []string{"int"}})
	add(c06Pos{name: "assign:bool", stmt: "vb = %H", accept: []string{"bool"}})
	add(c06Pos{name: "assign:string", stmt: "vs = %H", accept: []string{"string"}})
	add(c06Pos{name: "assign:error", stmt: "ve = %H", accept: []string{"string"}})
	add(c06Pos{name: "assign:[]int", stmt: "vsi = %H", accept: []string{"[]int"}})
	add(c06Pos{name: "assign:[]string", stmt: "vss = %H", accept: []string{"[]string"}})
	add(c06Pos{name: "assign-multi.first", stmt: `vi, vs = %H, "x"`, accept: []string{"int"}})
	add(c06Pos{name: "assign-multi.second", stmt: "vi, vs = 1, %H", accept: []string{"string"}})
	add(c06Pos{name: "assign-multi.from-call", stmt: "vi, vi2 = %H", accept: []string{"multi"}})
	add(c06Pos{name: "assign-multi.from-call-wrong-types", stmt: "vi, vs = %H", accept: nil})
	add(c06Pos{name: "assign-single.from-call", stmt: "vi = %H", accept: []string{"int"}})
	for _, op := range []string{"+", "-", "*", "/", "%"} {
		add(c06Pos{name: "compound" + op + "=:int", stmt: "vi " + op + "= %H", accept: []string{"int"}})
	}
	add(c06Pos{name: "compound+=:string", stmt: "vs += %H", accept: []string{"string"}})
	add(c06Pos{name: "compound-=:string", stmt: "vs -= %H", accept: nil})
	add(c06Pos{name: "compound+=:bool", stmt: "vb += %H", accept: nil})
	add(c06Pos{name: "compound+=:[]int", stmt: "vsi += %H", accept: nil})
	add(c06Pos{name: "increment.target", stmt: "%H++", accept: []string{"int"}, varOnly: true})
	add(c06Pos{name: "decrement.target", stmt: "%H--", accept: []string{"int"}, varOnly: true})
	// calls
	add(c06Pos{name: "call-arg-1of1", stmt: "p1(%H)", accept: []string{"int"}})
	add(c06Pos{name: "call-arg-1of2", stmt: `p2(%H, "x")`, accept: []string{"int"}})
	add(c06Pos{name: "call-arg-2of2", stmt: "p2(1, %H)", accept: []string{"string"}})
	add(c06Pos{name: "call-arg-3of3", stmt: `p3(1, "x", %H)`, accept: []string{"bool"}})
	add(c06Pos{name: "call-arg-slice", stmt: "ps(%H)", accept: []string{"[]int"}})
	add(c06Pos{name: "call-arg-nested", stmt: "p1(fi() + %H)", accept: []string{"int"}})
	add(c06Pos{name: "call-too-few", stmt: "p2(%H)", accept: nil})
	add(c06Pos{name: "call-too-many", stmt: "p1(1, %H)", accept: nil})
	// arity against a function declared WITHOUT parameters (as statement, as value, nested in an expression)
	add(c06Pos{name: "call-one-for-none.void-stmt", stmt: "fv(%H)", accept: nil})
	add(c06Pos{name: "call-two-for-none.void-stmt", stmt: "fv(1, %H)", accept: nil})
	add(c06Pos{name: "call-one-for-none.value", stmt: "r := fi(%H)\nprint(r)", accept: nil})
	add(c06Pos{name: "call-one-for-none.nested", stmt: "r := 1 + fi(%H)\nprint(r)", accept: nil})
	add(c06Pos{name: "call-one-for-none.as-argument", stmt: "p1(fi(%H))", accept: nil})
	add(c06Pos{name: "call-too-many-3of2", stmt: `p2(1, "x", %H)`, accept: nil})
	add(c06Pos{name: "call-too-few-2of3", stmt: "p3(1, %H)", accept: nil})
	add(c06Pos{name: "call-none-for-one", stmt: "p1()\nprint(%H)", accept: nil, skip: func(o c06Offer) bool { return o.typ == "void" || o.typ == "multi" || strings.HasPrefix(o.typ, "[]") }})
	// return values at nesting depths 0, 1, 2
	wrapRet := map[string][2]string{
		"depth0":        {"", ""},
		"depth1-if":     {"if vb {\n", "}\n"},
		"depth1-for":    {"for k := 0; k < 1; k++ {\n", "}\n"},
		"depth1-switch": {"switch vi {\ncase 1:\n", "}\n"},
		"depth2-if-for": {"if vb {\nfor k := 0; k < 1; k++ {\n", "}\n}\n"},
		"depth2-for-if": {"for k := 0; k < 1; k++ {\nif vb {\n", "}\n}\n"},
		"depth1-else":   {"if vb {\nprint(1)\n} else {\n", "}\n"},
	}
	var wk []string
	for k := range wrapRet {
		wk = append(wk, k)
	}
	sort.Strings(wk)
	for _, k := range wk {
		w := wrapRet[k]
		tail := "return 0\n"
		if k == "depth0" {
			tail = ""
		}
		add(c06Pos{name: "return-int@" + k, decl: "func g() int {\n" + w[0] + "return %H\n" + w[1] + tail + "}\n", stmt: "print(g())", accept: []string{"int"}, noCtx: true})
		tail2 := `return 0, "z"` + "\n"
		if k == "depth0" {
			tail2 = ""
		}
		add(c06Pos{name: "return-2nd-of-2@" + k, decl: "func g() (int, string) {\n" + w[0] + "return 1, %H\n" + w[1] + tail2 + "}\n", stmt: "a, b := g()\nprint(a, b)", accept: []string{"string"}, noCtx: true})
		add(c06Pos{name: "return-1st-of-2@" + k, decl: "func g() (int, string) {\n" + w[0] + "return %H, \"z\"\n" + w[1] + tail2 + "}\n", stmt: "a, b := g()\nprint(a, b)", accept: []string{"int"}, noCtx: true})
		add(c06Pos{name: "return-2nd-of-3@" + k, decl: "func g() (int, bool, string) {\n" + w[0] + "return 1, %H, \"z\"\n" + w[1] + strings.Replace(tail2, "return 0, \"z\"", "return 0, true, \"z\"", 1) + "}\n", stmt: "a, b, c := g()\nprint(a, b, c)", accept: []string{"bool"}, noCtx: true})
		add(c06Pos{name: "return-too-many@" + k, decl: "func g() int {\n" + w[0] + "return 1, %H\n" + w[1] + tail + "}\n", stmt: "print(g())", accept: nil, noCtx: true})
		add(c06Pos{name: "return-too-few@" + k, decl: "func g() (int, int) {\n" + w[0] + "return %H\n" + w[1] + strings.Replace(tail, "return 0", "return 0, 0", 1) + "}\n", stmt: "a, b := g()\nprint(a, b)", accept: []string{"multi"}, noCtx: true,
			skip: func(o c06Offer) bool { return o.typ == "multi" }}) // return f2() from a (int, int) function: legal Go, not promised by the README
		add(c06Pos{name: "return-value-in-void@" + k, decl: "func g() {\n" + w[0] + "return %H\n" + w[1] + "print(1)\n}\n", stmt: "g()", accept: nil, noCtx: true})
	}
	add(c06Pos{name: "return-slice", decl: "func g() []int {\nreturn %H\n}\n", stmt: "print(len(g()))", accept: []string{"[]int"}, noCtx: true})
	// conditions
	add(c06Pos{name: "if-condition", stmt: "if %H {\nprint(1)\n}", accept: []string{"bool"}})
	add(c06Pos{name: "else-if-condition", stmt: "if vb {\nprint(1)\n} else if %H {\nprint(2)\n}", accept: []string{"bool"}})
	add(c06Pos{name: "for-condition", stmt: "for %H {\nbreak\n}", accept: []string{"bool"}})
	add(c06Pos{name: "for3-condition", stmt: "for k := 0; %H; k++ {\nbreak\n}", accept: []string{"bool"}})
	add(c06Pos{name: "for3-init-value", stmt: "for k := %H; k < 2; k++ {\nbreak\n}", accept: []string{"int"}})
	add(c06Pos{name: "for3-post-value", stmt: "for k := 0; k < 2; k += %H {\nbreak\n}", accept: []string{"int"}})
	// switch
	add(c06Pos{name: "switch-case:int-tag", stmt: "switch vi {\ncase %H:\nprint(1)\n}", accept: []string{"int"}})
	add(c06Pos{name: "switch-case:string-tag", stmt: "switch vs {\ncase %H:\nprint(1)\n}", accept: []string{"string"}})
	add(c06Pos{name: "switch-case:bool-tag", stmt: "switch vb {\ncase %H:\nprint(1)\n}", accept: []string{"bool"}})
	add(c06Pos{name: "switch-case:tagless", stmt: "switch {\ncase %H:\nprint(1)\n}", accept: []string{"bool"}})
	add(c06Pos{name: "switch-case:second-case", stmt: "switch vi {\ncase 1:\nprint(1)\ncase %H:\nprint(2)\ndefault:\nprint(3)\n}", accept: []string{"int"}})
	add(c06Pos{name: "switch-tag:int-cases", stmt: "switch %H {\ncase 1:\nprint(1)\n}", accept: []string{"int"}})
	add(c06Pos{name: "switch-tag:no-cases", stmt: "switch %H {\ndefault:\nprint(1)\n}", accept: []string{"int", "bool", "string"}})
	// slices and strings
	add(c06Pos{name: "slice-literal-element:int", stmt: "d := []int{1, %H}\nprint(len(d))", accept: []string{"int"}})
	add(c06Pos{name: "slice-literal-element:string", stmt: "d := []string{%H}\nprint(len(d))", accept: []string{"string"}})
	add(c06Pos{name: "slice-literal-element:bool", stmt: "d := []bool{%H, true}\nprint(len(d))", accept: []string{"bool"}})
	add(c06Pos{name: "slice-assign-index", stmt: "vsi[%H] = 1", accept: []string{"int"}})
	add(c06Pos{name: "slice-assign-value:int", stmt: "vsi[0] = %H", accept: []string{"int"}})
	add(c06Pos{name: "slice-assign-value:string", stmt: "vss[0] = %H", accept: []string{"string"}})
	add(c06Pos{name: "slice-assign-value:bool", stmt: "vsb[0] = %H", accept: []string{"bool"}})
	add(c06Pos{name: "slice-assign-base", stmt: "%H[0] = 1", accept: []string{"[]int"}, varOnly: true})
	add(c06Pos{name: "slice-read-index", stmt: "r := vsi[%H]\nprint(r)", accept: []string{"int"}})
	add(c06Pos{name: "string-index", stmt: "r := vs[%H]\nprint(r)", accept: []string{"int"}})
	add(c06Pos{name: "string-range-start", stmt: "r := vs[%H:1]\nprint(r)", accept: []string{"int"}})
	add(c06Pos{name: "string-range-end", stmt: "r := vs[0:%H]\nprint(r)", accept: []string{"int"}})
	add(c06Pos{name: "subscript-base", stmt: "r := %H[0]\nprint(len(vs))", accept: seq, varOnly: true})
	add(c06Pos{name: "slice-range-subscript", stmt: "r := %H[0:1]\nprint(len(vs))", accept: []string{"string"}, varOnly: true})
	add(c06Pos{name: "range-operand", stmt: "for i, e := range %H {\nprint(i)\n}", accept: seq})
	add(c06Pos{name: "range-operand-index-only", stmt: "for i := range %H {\nprint(i)\n}", accept: seq})
	// builtins
	add(c06Pos{name: "len-arg", stmt: "r := len(%H)\nprint(r)", accept: seq})
	add(c06Pos{name: "itoa-arg", stmt: "r := itoa(%H)\nprint(r)", accept: []string{"int"}})
	add(c06Pos{name: "copy-source", stmt: "r := copy(vsi, %H)\nprint(r)", accept: []string{"[]int"}})
	add(c06Pos{name: "copy-destination", stmt: "r := copy(%H, vsi)\nprint(r)", accept: []string{"[]int"}, varOnly: true})
	add(c06Pos{name: "copy-destination-not-variable", stmt: "r := copy(%H, vsi)\nprint(r)", accept: nil, skip: func(o c06Offer) bool { return o.isVar }})
	add(c06Pos{name: "read-path", stmt: "r := read(%H)\nprint(r)", accept: []string{"string"}})
	add(c06Pos{name: "exists-path", stmt: "r := exists(%H)\nprint(r)", accept: []string{"string"}})
	add(c06Pos{name: "write-path", stmt: `write(%H, "d")`, accept: []string{"string"}})
	add(c06Pos{name: "write-data", stmt: `write("p", %H)`, accept: []string{"string"}})
	add(c06Pos{name: "write-append", stmt: `write("p", "d", %H)`, accept: []string{"bool"}})
	add(c06Pos{name: "input-prompt", stmt: "r := input(%H)\nprint(r)", accept: []string{"string"}})
	add(c06Pos{name: "print-arg", stmt: "print(%H)", accept: []string{"int", "bool", "string"}, skip: func(o c06Offer) bool { return isSlice(o) || o.typ == "multi" }})
	add(c06Pos{name: "print-second-arg", stmt: "print(1, %H)", accept: []string{"int", "bool", "string"}, skip: func(o c06Offer) bool { return isSlice(o) || o.typ == "multi" }})
	add(c06Pos{name: "panic-arg", stmt: "panic(%H)", accept: []string{"string"}, skip: func(o c06Offer) bool { return o.typ != "void" && o.typ != "multi" && o.typ != "string" }})
	add(c06Pos{name: "itoa-result-as-int", stmt: "r := itoa(vi) + %H\nprint(r)", accept: []string{"string"}})
	add(c06Pos{name: "len-result-as-string", stmt: `r := len(vs) + %H` + "\nprint(r)", accept: []string{"int"}})
	add(c06Pos{name: "exists-result", stmt: `r := exists("p") && %H` + "\nprint(r)", accept: []string{"bool"}})
	// builtin arities (the hole is an extra or missing argument)
	add(c06Pos{name: "len-two-args", stmt: "r := len(vs, %H)\nprint(r)", accept: nil})
	add(c06Pos{name: "itoa-two-args", stmt: "r := itoa(1, %H)\nprint(r)", accept: nil})
	add(c06Pos{name: "copy-three-args", stmt: "r := copy(vsi, vsi, %H)\nprint(r)", accept: nil})
	add(c06Pos{name: "read-two-args", stmt: `r := read("p", %H)` + "\nprint(r)", accept: nil})
	add(c06Pos{name: "exists-two-args", stmt: `r := exists("p", %H)` + "\nprint(r)", accept: nil})
	add(c06Pos{name: "write-four-args", stmt: `write("p", "d", true, %H)`, accept: nil})
	add(c06Pos{name: "write-one-arg", stmt: "write(%H)", accept: nil})
	add(c06Pos{name: "input-two-args", stmt: `r := input("p", %H)` + "\nprint(r)", accept: nil})
	add(c06Pos{name: "panic-two-args", stmt: `panic("p", %H)`, accept: nil})
	return P
}

var c06Contexts = map[string][2]string{
	"top":       {"", ""},
	"function":  {"func ctx() {\n", "}\nctx()\n"},
	"if-body":   {"if vb {\n", "}\n"},
	"for-body":  {"for q := 0; q < 1; q++ {\n", "}\n"},
	"case-body": {"switch vi {\ncase 1:\n", "}\n"},
	"else-body": {"if vb {\nprint(0)\n} else {\n", "}\n"},
}

func contains(xs []string, x string) bool {
	for _, y := range xs {
		if x == y {
			return true
		}
	}
	return false
}

func C06() int {
	r := findings.New("C06")
	defer drive.Cleanup()
	deadline := r.Deadline(6*time.Minute, 20*time.Minute)
	type cas struct {
		key    string
		src    string
		accept bool
	}
	var cases []cas
	offers := c06Offers()
	pos := c06Positions()
	ctxNames := []string{"top", "function", "if-body", "for-body", "case-body", "else-body"}
	skipped := 0
	for _, p := range pos {
		for _, o := range offers {
			if p.varOnly && !o.isVar {
				continue
			}
			if p.skip != nil && p.skip(o) {
				skipped++
				continue
			}
			// parentheses around a call with several values: Go accepts them where the bare call is accepted, the
			// property does not say; everywhere else the offer is as wrong as the bare call
			if (o.typ == "multi-grouped" && (contains(p.accept, "multi") || (p.skip != nil && p.skip(c06Offer{typ: "multi"})))) || (o.typ == "multi3-grouped" && contains(p.accept, "multi3")) {
				skipped++
				continue
			}
			if o.typ == "multi3" && p.skip != nil && p.skip(c06Offer{typ: "multi"}) {
				skipped++
				continue
			}
			cn := ctxNames
			if p.noCtx {
				cn = []string{"top"}
			} else if o.typ == "ill" || strings.HasPrefix(o.typ, "multi") && o.typ != "multi" {
				cn = []string{"top", "function"}
			}
			for _, c := range cn {
				w := c06Contexts[c]
				stmt := strings.ReplaceAll(p.stmt, "%H", o.src)
				decl := strings.ReplaceAll(p.decl, "%H", o.src)
				src := c06Prelude + decl + w[0] + stmt + "\n" + w[1]
				cases = append(cases, cas{
					key:    fmt.Sprintf("pos=%s offered=%s/%s ctx=%s", p.name, o.typ, o.spelling, c),
					src:    src,
					accept: contains(p.accept, o.typ),
				})
			}
		}
	}
	// (M) base programs with no corruption must be accepted: every position with a fitting offer is in the table above.
	var mu sync.Mutex
	distinct := findings.NewDistinct()
	done, nAcc, nRej, capped := 0, 0, 0, false
	drive.Par(len(cases), func(i int) {
		if past(deadline) {
			mu.Lock()
			capped = true
			mu.Unlock()
			return
		}
		c := cases[i]
		distinct.Add(c.src)
		var res [2]drive.TResult
		for t := 0; t < 2; t++ {
			res[t] = drive.TranspileSrc(c.src, drive.Target(t))
		}
		mu.Lock()
		done++
		if c.accept {
			nAcc++
		} else {
			nRej++
		}
		mu.Unlock()
		if i%1013 == 0 {
			r.Sample(map[string]string{"kind": "typed-position", "case": c.key, "oracle": map[bool]string{true: "accept", false: "reject"}[c.accept], "source_tail": lastLines(c.src, 6)})
		}
		rep := func(sym, detail string) {
			key := c.key + " symptom=" + sym
			// One root cause, one key: a return statement that is not the last statement of the
			// function body is not type-checked at all. Only the (reject expected, accepted)
			// cells of the nested-return positions map to it; everything else keeps its exact key.
			if strings.HasPrefix(c.key, "pos=return-") && !strings.Contains(c.key, "@depth0 ") && strings.HasPrefix(sym, "accepted-") {
				key = "region=nested-return-unchecked symptom=accepted"
			}
			r.Fail(key, fmt.Sprintf("%s: %s (%s)", c.key, sym, detail), func() findings.Replay {
				return findings.Replay{Files: map[string]string{"src/main.tsh": c.src, "detail.txt": c.key + "\n" + sym + ": " + detail + "\n"}, Script: transpileOnlyReplay()}
			})
		}
		for t := 0; t < 2; t++ {
			tg := drive.Target(t).String()
			switch {
			case res[t].Panic != "":
				rep("panic-"+tg, firstLine(res[t].Panic))
			case c.accept && !res[t].OK():
				rep("rejected-"+tg, res[t].Err)
			case !c.accept && !res[t].Rejected():
				rep("accepted-"+tg, "ill-typed program was translated")
			}
		}
		if res[0].Panic == "" && res[1].Panic == "" && res[0].OK() != res[1].OK() {
			rep("targets-differ", fmt.Sprintf("bash accepted=%v batch accepted=%v", res[0].OK(), res[1].OK()))
		}
	})
	r.Set("positions", len(pos))
	r.Set("offered_expressions", len(offers))
	r.Set("contexts", len(ctxNames))
	r.Set("oracle_accept", nAcc)
	r.Set("oracle_reject", nRej)
	r.Set("pairs_skipped_unspecified", skipped)
	r.Set("evaluations", done)
	r.Set("distinct_nontrivial", distinct.Len())
	r.Set("exhaustive", !capped)
	r.Set("rule", "complete table: typed position (operator operands, definitions, assignments, compound assignments, ++/--, call arguments and arities, return values at nesting depth 0/1/2, conditions, switch tag/cases, subscripts, slice elements, range operand, builtin arguments and arities) x offered expression (27 spellings over int, bool, string/error, []int, []bool, []string, no-value call, two-value call) x enclosing context (top level, function, if, for, case, else body). Oracle: Go's typing rules for the shared syntax and the README's builtin signatures decide accept/reject per (position, offered type); both targets must agree with it and with each other. Distinct by source text.")
	r.Assumef("unspecified by the property and skipped: ordering comparison of strings, panic's argument type, equality of slices, print of slices / multi-value calls, `return f2()` forwarding")
	return finish(r)
}

package checks

import (
	"fmt"
	"strings"
	"sync"
	"time"

	"verif/drive"
	"verif/findings"
	. "verif/tsmodel"
)

func init() { Registry["C07"] = C07 }

// scope skeleton items
type c07Item struct {
	kind string // D U A brk cont ret callf callg | if for3 forr forj sw fnfx fnfi fng fngi
	kids [][]c07Item
}

var c07Leaves = []string{"D", "U", "A", "brk", "cont", "ret", "callf", "callg"}
var c07Containers = []string{"if", "for3", "forr", "forj", "sw", "fnfx", "fnfi", "fng", "fngi", "fnfxx", "fnfxy", "for3v", "for3c"}

func c07Blocks(kind string) int {
	if kind == "sw" {
		return 2
	}
	return 1
}

func c07Enum(leaves, conts []string, n, d, maxLen int, memo map[[3]int][][]c07Item) [][]c07Item {
	if n == 0 {
		return [][]c07Item{nil}
	}
	if maxLen == 0 {
		return nil
	}
	key := [3]int{n, d, maxLen}
	if r, ok := memo[key]; ok {
		return r
	}
	var out [][]c07Item
	for first := 1; first <= n; first++ {
		var heads []c07Item
		if first == 1 {
			for _, l := range leaves {
				heads = append(heads, c07Item{kind: l})
			}
		}
		if d > 0 {
			for _, c := range conts {
				nb := c07Blocks(c)
				var dist func(b, left int, acc [][]c07Item)
				dist = func(b, left int, acc [][]c07Item) {
					if b == nb {
						if left == 0 {
							heads = append(heads, c07Item{kind: c, kids: append([][]c07Item{}, acc...)})
						}
						return
					}
					for m := 0; m <= left; m++ {
						for _, s := range c07Enum(leaves, conts, m, d-1, 3, memo) {
							dist(b+1, left-m, append(acc, s))
						}
					}
				}
				dist(0, first-1, nil)
			}
		}
		rests := c07Enum(leaves, conts, n-first, d, maxLen-1, memo)
		for _, h := range heads {
			for _, rest := range rests {
				out = append(out, append([]c07Item{h}, rest...))
			}
		}
	}
	memo[key] = out
	return out
}

// ---------------------------------------------------------------- the scoper (oracle)

type c07Verdict int

const (
	vAccept c07Verdict = iota
	vReject
	vUnspec
)

type c07Scoper struct {
	scopes    []map[string]bool // variable scopes, innermost last
	funcBase  int               // index of the first scope that belongs to the current function (0 = not in function)
	globals   map[string]bool   // variables defined at top level outside any block so far
	funcs     map[string]string // defined function name -> kind
	inFunc    string            // kind of enclosing function ("" = none)
	loopDepth int
	swDepth   int
	reject    bool
	unspec    bool
	why       string
}

func (s *c07Scoper) visible(name string) bool {
	if s.inFunc != "" {
		for i := len(s.scopes) - 1; i >= s.funcBase; i-- {
			if s.scopes[i][name] {
				return true
			}
		}
		return s.globals[name]
	}
	for i := len(s.scopes) - 1; i >= 0; i-- {
		if s.scopes[i][name] {
			return true
		}
	}
	return false
}

func (s *c07Scoper) rej(why string) {
	if !s.reject {
		s.why = why
	}
	s.reject = true
}

func (s *c07Scoper) define(name string) {
	if s.visible(name) {
		s.rej("redefinition of " + name + " in a visible scope")
		return
	}
	s.scopes[len(s.scopes)-1][name] = true
	if len(s.scopes) == 1 && s.inFunc == "" {
		s.globals[name] = true
	}
}

func (s *c07Scoper) push() { s.scopes = append(s.scopes, map[string]bool{}) }
func (s *c07Scoper) pop()  { s.scopes = s.scopes[:len(s.scopes)-1] }

func (s *c07Scoper) block(items []c07Item, depth int) {
	s.push()
	for _, it := range items {
		s.item(it, depth)
	}
	s.pop()
}

func (s *c07Scoper) item(it c07Item, depth int) {
	switch it.kind {
	case "D":
		s.define("x")
	case "U", "A":
		if !s.visible("x") {
			s.rej("use of undefined x")
		}
	case "Ds", "Dvs", "Dms", "forrs", "forvs", "for3s":
		// the defining statement uses the very name it introduces: if the name is visible already this is a
		// redefinition, if it is not this is a use before the definition - rejected either way
		s.rej("the defining statement uses the name it defines")
	case "brk":
		if s.loopDepth == 0 {
			if s.swDepth > 0 {
				s.unspec = true // break inside a switch outside a loop: legal Go, the property names loops only
			} else {
				s.rej("break outside a loop")
			}
		}
	case "cont":
		if s.loopDepth == 0 {
			s.rej("continue outside a loop")
		}
	case "ret":
		switch s.inFunc {
		case "":
			s.rej("return outside a function")
		case "fnfi", "fngi":
		default:
			s.unspec = true // returning a value from a function without results is a typing matter (C06)
		}
	case "callf", "callg":
		name := "f"
		if it.kind == "callg" {
			name = "g"
		}
		if _, ok := s.funcs[name]; !ok {
			s.rej("call of undefined function " + name)
		}
	case "if":
		s.block(it.kids[0], depth+1)
	case "sw":
		s.swDepth++
		s.block(it.kids[0], depth+1)
		s.block(it.kids[1], depth+1)
		s.swDepth--
	case "for3":
		s.push()
		s.define("x")
		s.loopDepth++
		s.block(it.kids[0], depth+1)
		s.loopDepth--
		s.pop()
	case "for3v", "for3c":
		s.push()
		s.define("x")
		if it.kind == "for3c" {
			s.define(fmt.Sprintf("y%d", depth))
		}
		s.loopDepth++
		s.block(it.kids[0], depth+1)
		s.loopDepth--
		s.pop()
	case "forr":
		s.push()
		s.define(fmt.Sprintf("i%d", depth))
		s.define("x")
		s.loopDepth++
		s.block(it.kids[0], depth+1)
		s.loopDepth--
		s.pop()
	case "forj":
		s.push()
		s.define(fmt.Sprintf("j%d", depth))
		s.loopDepth++
		s.block(it.kids[0], depth+1)
		s.loopDepth--
		s.pop()
	case "fnfx", "fnfi", "fng", "fngi", "fnfxx", "fnfxy":
		name := "f"
		if it.kind == "fng" || it.kind == "fngi" {
			name = "g"
		}
		if it.kind == "fnfxx" || it.kind == "fnfxy" {
			s.rej("second parameter of the same name")
			return
		}
		if depth > 0 || s.inFunc != "" {
			s.rej("function definition below top level")
			return
		}
		if _, ok := s.funcs[name]; ok {
			s.rej("second function named " + name)
			return
		}
		saved := *s
		s.inFunc = it.kind
		s.funcBase = len(s.scopes)
		s.loopDepth, s.swDepth = 0, 0
		s.push()
		if it.kind == "fnfx" {
			s.define("x") // parameter
		}
		body := it.kids[0]
		s.block(body, depth+1)
		s.pop()
		if it.kind == "fngi" { // value-returning function without an appended return
			if len(body) == 0 {
				s.rej("value-returning function falls off its end")
			} else {
				last := body[len(body)-1]
				switch {
				case last.kind == "ret":
				case len(last.kids) == 0:
					s.rej("value-returning function falls off its end")
				default:
					s.unspec = true // ends in a compound statement: Go's terminating-statement analysis vs "last statement is a return"
				}
			}
		}
		rej, un, why := s.reject, s.unspec, s.why
		*s = saved
		s.reject, s.unspec, s.why = rej, un, why
		s.funcs[name] = it.kind
	}
}

func c07Judge(items []c07Item) (c07Verdict, string) {
	s := &c07Scoper{globals: map[string]bool{}, funcs: map[string]string{}}
	s.block(items, 0)
	switch {
	case s.reject:
		return vReject, s.why
	case s.unspec:
		return vUnspec, ""
	}
	return vAccept, ""
}

// ---------------------------------------------------------------- skeleton -> program

type c07Builder struct {
	needStr bool
	needTwo bool
	marker  int
	funcs   map[string]string
}

func (b *c07Builder) mark() Stmt {
	b.marker++
	return Print{Args: []Expr{StrLit{V: fmt.Sprintf("m%d", b.marker)}}}
}

func (b *c07Builder) block(items []c07Item, depth int) []Stmt {
	var out []Stmt
	for _, it := range items {
		out = append(out, b.item(it, depth)...)
	}
	return out
}

func (b *c07Builder) item(it c07Item, depth int) []Stmt {
	b.marker++
	id := int64(b.marker)
	switch it.kind {
	case "D":
		return []Stmt{Define{Names: []string{"x"}, Form: DefShort, Vals: []Expr{IntLit{id}}}}
	case "U":
		return []Stmt{Print{Args: []Expr{StrLit{V: fmt.Sprintf("u%d", id)}, Var{"x"}}}}
	case "A":
		return []Stmt{Assign{Names: []string{"x"}, Vals: []Expr{IntLit{id + 100}}}}
	case "Ds":
		return []Stmt{Define{Names: []string{"x"}, Form: DefShort, Vals: []Expr{Binary{Op: "+", L: Var{"x"}, R: IntLit{id}}}}}
	case "Dvs":
		return []Stmt{Define{Names: []string{"x"}, Form: DefVarInit, Vals: []Expr{Binary{Op: "+", L: Var{"x"}, R: IntLit{id}}}}}
	case "Dms":
		y := fmt.Sprintf("y%d", depth)
		return []Stmt{Define{Names: []string{"x", y}, Form: DefShort, Vals: []Expr{Var{y}, IntLit{id}}}}
	case "forrs": // the range expression mentions the loop's own index
		b.needStr = true
		i := fmt.Sprintf("i%d", depth)
		return []Stmt{ForRange{I: i, V: "x", X: Substr{X: Var{"sv"}, Lo: Var{i}}, Body: append([]Stmt{b.mark()}, b.block(it.kids[0], depth+1)...)}}
	case "forvs": // ... the loop's own value variable
		b.needStr = true
		return []Stmt{ForRange{I: fmt.Sprintf("i%d", depth), V: "x", X: Substr{X: Var{"sv"}, Lo: Len{X: Var{"x"}}}, Body: append([]Stmt{b.mark()}, b.block(it.kids[0], depth+1)...)}}
	case "for3s": // the init value mentions the variable it defines
		return []Stmt{For{Init: Define{Names: []string{"x"}, Form: DefShort, Vals: []Expr{Binary{Op: "-", L: Var{"x"}, R: Var{"x"}}}}, Cond: Binary{Op: "<", L: Var{"x"}, R: IntLit{1}}, Post: IncDec{Name: "x", Inc: true},
			Body: append([]Stmt{b.mark()}, b.block(it.kids[0], depth+1)...)}}
	case "brk":
		return []Stmt{Break{}}
	case "cont":
		return []Stmt{Continue{}}
	case "ret":
		return []Stmt{Return{Vals: []Expr{IntLit{id}}}}
	case "callf":
		switch b.funcs["f"] {
		case "fnfxx":
			return []Stmt{ExprStmt{X: Call{Fn: "f", Args: []Expr{IntLit{id}, IntLit{id + 1}}}}}
		case "fnfxy":
			return []Stmt{ExprStmt{X: Call{Fn: "f", Args: []Expr{IntLit{id}, BoolLit{true}, SliceLit{Elem: TStr}}}}}
		case "fnfx":
			return []Stmt{ExprStmt{X: Call{Fn: "f", Args: []Expr{IntLit{id}}}}}
		case "fnfi":
			return []Stmt{Print{Args: []Expr{StrLit{V: "rf"}, Call{Fn: "f"}}}}
		}
		return []Stmt{ExprStmt{X: Call{Fn: "f"}}}
	case "callg":
		if b.funcs["g"] == "fngi" {
			return []Stmt{Print{Args: []Expr{StrLit{V: "rg"}, Call{Fn: "g"}}}}
		}
		return []Stmt{ExprStmt{X: Call{Fn: "g"}}}
	case "if":
		return []Stmt{If{Cond: BoolLit{true}, Then: append([]Stmt{b.mark()}, b.block(it.kids[0], depth+1)...)}}
	case "sw":
		return []Stmt{Switch{Tag: IntLit{1}, Cases: []Case{
			{Val: IntLit{1}, Body: append([]Stmt{b.mark()}, b.block(it.kids[0], depth+1)...)},
			{Default: true, Body: append([]Stmt{b.mark()}, b.block(it.kids[1], depth+1)...)}}}}
	case "for3":
		return []Stmt{For{Init: Define{Names: []string{"x"}, Form: DefShort, Vals: []Expr{IntLit{0}}}, Cond: Binary{Op: "<", L: Var{"x"}, R: IntLit{1}}, Post: IncDec{Name: "x", Inc: true},
			Body: append([]Stmt{b.mark()}, b.block(it.kids[0], depth+1)...)}}
	case "for3v":
		return []Stmt{For{Init: Define{Names: []string{"x"}, Form: DefVarTypeIn, T: TInt, Vals: []Expr{IntLit{0}}}, Cond: Binary{Op: "<", L: Var{"x"}, R: IntLit{1}}, Post: IncDec{Name: "x", Inc: true},
			Body: append([]Stmt{b.mark()}, b.block(it.kids[0], depth+1)...)}}
	case "for3c":
		b.needTwo = true
		return []Stmt{For{Init: Define{Names: []string{"x", fmt.Sprintf("y%d", depth)}, Form: DefVarInit, Vals: []Expr{Call{Fn: "two"}}}, Cond: Binary{Op: "<", L: Var{"x"}, R: IntLit{1}}, Post: IncDec{Name: "x", Inc: true},
			Body: append([]Stmt{b.mark()}, b.block(it.kids[0], depth+1)...)}}
	case "forr":
		return []Stmt{ForRange{I: fmt.Sprintf("i%d", depth), V: "x", X: SliceLit{Elem: TInt, Elems: []Expr{IntLit{id}}}, Body: append([]Stmt{b.mark()}, b.block(it.kids[0], depth+1)...)}}
	case "forj":
		j := fmt.Sprintf("j%d", depth)
		return []Stmt{For{Init: Define{Names: []string{j}, Form: DefShort, Vals: []Expr{IntLit{0}}}, Cond: Binary{Op: "<", L: Var{j}, R: IntLit{1}}, Post: IncDec{Name: j, Inc: true},
			Body: append([]Stmt{b.mark()}, b.block(it.kids[0], depth+1)...)}}
	case "fnfx", "fnfi", "fng", "fngi", "fnfxx", "fnfxy":
		name := "f"
		if it.kind == "fng" || it.kind == "fngi" {
			name = "g"
		}
		fd := FuncDef{Name: name}
		if it.kind == "fnfxy" { // the same name again with another type, not adjacent
			fd.Params = []Param{{"x", TInt}, {"z", TBool}, {"x", Type{Base: "string", Slice: true}}}
		}
		if it.kind == "fnfx" {
			fd.Params = []Param{{"x", TInt}}
		}
		if it.kind == "fnfxx" {
			fd.Params = []Param{{"x", TInt}, {"x", TInt}}
		}
		if it.kind == "fnfi" || it.kind == "fngi" {
			fd.Rets = []Type{TInt}
		}
		fd.Body = append([]Stmt{b.mark()}, b.block(it.kids[0], depth+1)...)
		if it.kind == "fngi" && len(it.kids[0]) == 0 {
			fd.Body = nil // a value-returning function with NO statement at all (not even the marker print)
		}
		if it.kind == "fnfi" {
			fd.Body = append(fd.Body, Return{Vals: []Expr{IntLit{id + 500}}})
		}
		if _, ok := b.funcs[name]; !ok {
			b.funcs[name] = it.kind
		}
		return []Stmt{fd}
	}
	panic("c07: unknown item " + it.kind)
}

func c07Prog(items []c07Item) *Prog {
	b := &c07Builder{funcs: map[string]string{}}
	st := b.block(items, 0)
	st = append(st, Print{Args: []Expr{StrLit{V: "end"}}})
	if b.needStr {
		st = append([]Stmt{Define{Names: []string{"sv"}, Form: DefShort, Vals: []Expr{StrLit{V: "ab"}}}}, st...)
	}
	if b.needTwo {
		st = append([]Stmt{FuncDef{Name: "two", Rets: []Type{TInt, TInt}, Body: []Stmt{Return{Vals: []Expr{IntLit{0}, IntLit{5}}}}}}, st...)
	}
	return &Prog{Stmts: st}
}

func c07Name(items []c07Item) string {
	var parts []string
	for _, it := range items {
		s := it.kind
		if len(it.kids) > 0 {
			var ks []string
			for _, k := range it.kids {
				ks = append(ks, c07Name(k))
			}
			s += "{" + strings.Join(ks, "|") + "}"
		}
		parts = append(parts, s)
	}
	return strings.Join(parts, " ")
}

// import-boundary table
type c07ImportCase struct {
	name   string
	main   string
	lib    string
	accept bool
}

func c07ImportCases() []c07ImportCase {
	lib := "func Get() int {\n\treturn 7\n}\nfunc helper() int {\n\treturn 8\n}\nfunc Wrap() int {\n\treturn helper() + 1\n}\nfunc _under() int {\n\treturn 9\n}\nfunc _Upper() int {\n\treturn _under() + 1\n}\n"
	imp := "import (\n\tlb \"lib.tsh\"\n)\n"
	return []c07ImportCase{
		{"public via alias", imp + "print(lb.Get())\n", lib, true},
		{"public calling private via alias", imp + "print(lb.Wrap())\n", lib, true},
		{"private via alias", imp + "print(lb.helper())\n", lib, false},
		{"underscore-lowercase name via alias (not exported)", imp + "print(lb._under())\n", lib, false},
		{"underscore-uppercase name via alias (not exported: first character is not an upper-case letter)", imp + "print(lb._Upper())\n", lib, false},
		{"public bare", imp + "print(Get())\n", lib, false},
		{"private bare", imp + "print(helper())\n", lib, false},
		{"wrong alias", imp + "print(xx.Get())\n", lib, false},
		{"undefined via alias", imp + "print(lb.Nope())\n", lib, false},
		{"own function same name as imported public", imp + "func Get() int {\n\treturn 1\n}\nprint(Get(), lb.Get())\n", lib, true},
		{"own function same name as imported private", imp + "func helper() int {\n\treturn 1\n}\nprint(helper(), lb.Wrap())\n", lib, true},
		{"import without alias of a local file", "import (\n\t\"lib.tsh\"\n)\nprint(1)\n", lib, false},
		{"alias used twice", "import (\n\tlb \"lib.tsh\"\n\tlb \"lib2.tsh\"\n)\nprint(1)\n", lib, false},
	}
}

// c07ImportSpace enumerates the qualified-name space at the import boundary: qualifier (none, an imported alias, a
// second imported alias, an alias that was never imported) x callee name (public / private / underscore-led in the
// first file, public only in the second file, defined only in the main file, defined nowhere) x a function of the
// main file with one of those names (or none) x call site (top level, inside a function of the main file). The
// oracle is the rule C07/C09 state: a bare name reaches exactly the main file's own functions, alias.Name exactly
// the PUBLIC functions of the file imported under that alias - whatever else happens to carry the same name.
// Accepted cases are executed: every function returns its own constant.
type c07QualCase struct {
	name, main string
	accept     bool
	want       string
}

const c07Lib1 = "func Get() int {\n\treturn 7\n}\nfunc helper() int {\n\treturn 8\n}\nfunc Wrap() int {\n\treturn helper() + 1\n}\nfunc _under() int {\n\treturn 9\n}\n"
const c07Lib2 = "func Get() int {\n\treturn 70\n}\nfunc Only() int {\n\treturn 71\n}\nfunc helper() int {\n\treturn 72\n}\n"

func c07ImportSpace() []c07QualCase {
	pub1 := map[string]int{"Get": 7, "Wrap": 9}
	pub2 := map[string]int{"Get": 70, "Only": 71}
	var out []c07QualCase
	for _, q := range []string{"", "lb", "lc", "xx"} {
		for _, callee := range []string{"Get", "Wrap", "helper", "_under", "Only", "own", "Nope"} {
			for _, def := range []string{"", "Get", "helper", "Only", "own", "_under"} {
				for _, site := range []string{"top", "func"} {
					src := "import (\n\tlb \"lib.tsh\"\n\tlc \"lib2.tsh\"\n)\n"
					if def != "" {
						src += "func " + def + "() int {\n\treturn 100\n}\n"
					}
					call := callee + "()"
					if q != "" {
						call = q + "." + call
					}
					if site == "top" {
						src += "print(\"r\", " + call + ")\n"
					} else {
						src += "func site() int {\n\treturn " + call + " + 1000\n}\nprint(\"r\", site() - 1000)\n"
					}
					val, ok := 0, false
					switch q {
					case "":
						if def == callee {
							val, ok = 100, true
						}
					case "lb":
						val, ok = pub1[callee], pub1[callee] != 0
					case "lc":
						val, ok = pub2[callee], pub2[callee] != 0
					}
					out = append(out, c07QualCase{name: fmt.Sprintf("qualifier=%s callee=%s main-defines=%s site=%s", map[bool]string{true: "none", false: q}[q == ""], callee, map[bool]string{true: "nothing", false: def}[def == ""], site),
						main: src, accept: ok, want: fmt.Sprintf("r %d\n", val)})
				}
			}
		}
	}
	return out
}

func C07() int {
	r := findings.New("C07")
	defer drive.Cleanup()
	deadline := r.Deadline(6*time.Minute, 30*time.Minute)
	type cand struct {
		items []c07Item
	}
	var all [][]c07Item
	add := func(label string, leaves, conts []string, n, d int) {
		memo := map[[3]int][][]c07Item{}
		seqs := c07Enum(leaves, conts, n, d, 3, memo)
		all = append(all, seqs...)
		r.Set("skeletons_"+label, len(seqs))
	}
	redL := []string{"D", "U", "brk", "ret", "callf"}
	redC := []string{"if", "for3", "fnfx", "fng"}
	add("n1", c07Leaves, c07Containers, 1, 3)
	add("n2", c07Leaves, c07Containers, 2, 3)
	add("n3", c07Leaves, c07Containers, 3, 3)
	add("n4_reduced", redL, redC, 4, 3)
	{ // defining statements that use the name they define (as leaf and as loop header), in every skeleton of up to
		// two items that contains one of them
		selfL := append(append([]string{}, c07Leaves...), "Ds", "Dvs", "Dms")
		selfC := append(append([]string{}, c07Containers...), "forrs", "forvs", "for3s")
		isSelf := map[string]bool{"Ds": true, "Dvs": true, "Dms": true, "forrs": true, "forvs": true, "for3s": true}
		var has func(items []c07Item) bool
		has = func(items []c07Item) bool {
			for _, it := range items {
				if isSelf[it.kind] {
					return true
				}
				for _, k := range it.kids {
					if has(k) {
						return true
					}
				}
			}
			return false
		}
		n := 0
		for _, k := range []int{1, 2} {
			for _, sq := range c07Enum(selfL, selfC, k, 3, 3, map[[3]int][][]c07Item{}) {
				if has(sq) {
					all = append(all, sq)
					n++
				}
			}
		}
		r.Set("skeletons_self_reference", n)
	}
	if r.Thorough() {
		add("n4_full", c07Leaves, c07Containers, 4, 3)
		add("n5_reduced", redL, redC, 5, 3)
	}
	// the skeletons of up to two items once more with the variable spelled as the blank identifier: TypeShell
	// treats `_` as an ordinary variable (definable, readable), so the clauses hold for it like for any name
	blankFrom := len(all)
	for _, k := range []int{1, 2} {
		all = append(all, c07Enum(c07Leaves, c07Containers, k, 3, 3, map[[3]int][][]c07Item{})...)
	}
	r.Set("skeletons_with_the_variable_spelled_as_blank_identifier", len(all)-blankFrom)
	var mu sync.Mutex
	cnt := map[string]int{}
	distinct := findings.NewDistinct()
	done, executed, capped := 0, 0, false
	libDone, libExecuted := 0, 0
	execBudget := 6000
	if r.Thorough() {
		execBudget = 60000
	}
	drive.Par(len(all), func(i int) {
		if past(deadline) {
			mu.Lock()
			capped = true
			mu.Unlock()
			return
		}
		items := all[i]
		verdict, why := c07Judge(items)
		prog := c07Prog(items)
		name := c07Name(items)
		if i >= blankFrom {
			prog = renameProg(prog, func(n string) string {
				if n == "x" {
					return "_"
				}
				return n
			})
			name += " x-spelled=_"
		}
		src := PrintProg(*prog)
		distinct.Add(src)
		mu.Lock()
		done++
		cnt[[]string{"oracle-accept", "oracle-reject", "oracle-unspecified"}[verdict]]++
		mu.Unlock()
		if verdict == vUnspec {
			return
		}
		var res [2]drive.TResult
		for t := 0; t < 2; t++ {
			res[t] = drive.TranspileSrc(src, drive.Target(t))
		}
		if i%1999 == 0 {
			r.Sample(map[string]string{"kind": "scope-skeleton", "skeleton": name, "oracle": []string{"accept", "reject"}[verdict], "why": why, "source": src})
		}
		rep := func(sym, detail string) {
			r.Fail("skeleton="+name+" symptom="+sym, fmt.Sprintf("scope skeleton `%s`: %s (%s; oracle: %s)", name, sym, detail, why), func() findings.Replay {
				return findings.Replay{Files: map[string]string{"src/main.tsh": src, "detail.txt": sym + ": " + detail + "\noracle: " + why + "\n"},
					Script: transpileOnlyReplay()}
			})
		}
		for t := 0; t < 2; t++ {
			tg := drive.Target(t).String()
			switch {
			case res[t].Panic != "":
				rep("panic-"+tg, firstLine(res[t].Panic))
			case verdict == vAccept && !res[t].OK():
				rep("rejected-"+tg, res[t].Err)
			case verdict == vReject && !res[t].Rejected():
				rep("accepted-"+tg, "transpiled although the construct is out of scope or misplaced")
			}
		}
		// the same program as an IMPORTED file (main only imports it and prints one line): an import boundary
		// changes nothing about the block structure inside the file, so the verdict is the same and the
		// file's top-level code runs before the importer's
		if len(items) <= 3 && c07Count(items) <= 3 {
			libMain := &Prog{Imports: []Import{{Alias: "lb", Path: "lib.tsh"}}, Stmts: []Stmt{Print{Args: []Expr{StrLit{V: "importer"}}}}}
			mainSrc := PrintProg(*libMain)
			files := map[string]string{"main.tsh": mainSrc, "lib.tsh": src}
			repL := func(sym, detail string) {
				r.Fail("skeleton="+name+" as=imported-file symptom="+sym, fmt.Sprintf("scope skeleton `%s` as an imported file: %s (%s; oracle: %s)", name, sym, detail, why), func() findings.Replay {
					return findings.Replay{Files: map[string]string{"src/main.tsh": mainSrc, "src/lib.tsh": src, "detail.txt": sym + ": " + detail + "\noracle: " + why + "\n"},
						Script: transpileOnlyReplay()}
				})
			}
			var lres [2]drive.TResult
			for t := 0; t < 2; t++ {
				lres[t] = drive.Transpile(files, "main.tsh", drive.Target(t))
				tg := drive.Target(t).String()
				switch {
				case lres[t].Panic != "":
					repL("panic-"+tg, firstLine(lres[t].Panic))
				case verdict == vAccept && !lres[t].OK():
					repL("rejected-"+tg, lres[t].Err)
				case verdict == vReject && !lres[t].Rejected():
					repL("accepted-"+tg, "transpiled although the construct is out of scope or misplaced")
				}
			}
			mu.Lock()
			libDone++
			runL := verdict == vAccept && lres[0].OK() && libExecuted < execBudget/2
			if runL {
				libExecuted++
			}
			mu.Unlock()
			if runL {
				lib := prog
				o := ProgOpts{Files: map[string]string{"lib.tsh": src}, Loader: func(from, path string) (string, *Prog) { return path, lib }}
				pv := JudgeBash(libMain, o)
				if pv.Symptom != "" && pv.Symptom != "undefined" {
					pv = confirm(libMain, o, pv)
					if pv.Symptom == "" {
						return // a sandbox kill that did not repeat (counted in common.go)
					}
					r.Fail("skeleton="+name+" as=imported-file symptom=run-"+pv.Symptom, fmt.Sprintf("accepted scope skeleton `%s` misbehaves when run as an imported file: %s (%s)", name, pv.Symptom, pv.Detail), progReplay(pv, map[string]string{"src/lib.tsh": src}))
				}
			}
		}
		if verdict == vAccept && res[0].OK() {
			mu.Lock()
			run := executed < execBudget
			if run {
				executed++
			}
			mu.Unlock()
			if run {
				pv := JudgeBash(prog, ProgOpts{})
				if pv.Symptom != "" && pv.Symptom != "undefined" {
					pv = confirm(prog, ProgOpts{}, pv)
					if pv.Symptom == "" {
						return // a sandbox kill that did not repeat (counted in common.go)
					}
					r.Fail("skeleton="+name+" symptom=run-"+pv.Symptom, fmt.Sprintf("accepted scope skeleton `%s` misbehaves when run: %s (%s)", name, pv.Symptom, pv.Detail), progReplay(pv, nil))
				}
			}
		}
	})
	// import boundary
	for _, ic := range c07ImportCases() {
		for t := 0; t < 2; t++ {
			res := drive.Transpile(map[string]string{"main.tsh": ic.main, "lib.tsh": ic.lib, "lib2.tsh": ic.lib + "// other\n"}, "main.tsh", drive.Target(t))
			done++
			sym := ""
			switch {
			case res.Panic != "":
				sym = "panic"
			case ic.accept && !res.OK():
				sym = "rejected"
			case !ic.accept && !res.Rejected():
				sym = "accepted"
			}
			if sym != "" {
				ic := ic
				r.Fail("import-case="+ic.name+" symptom="+sym+"-"+drive.Target(t).String(), fmt.Sprintf("import boundary case %q: %s (%s)", ic.name, sym, res.Err), func() findings.Replay {
					return findings.Replay{Files: map[string]string{"src/main.tsh": ic.main, "src/lib.tsh": ic.lib, "src/lib2.tsh": ic.lib + "// other\n"}, Script: transpileOnlyReplay()}
				})
			}
		}
	}
	// the qualified-name space (c07ImportSpace)
	qc := c07ImportSpace()
	drive.Par(len(qc), func(i int) {
		ic := qc[i]
		files := map[string]string{"main.tsh": ic.main, "lib.tsh": c07Lib1, "lib2.tsh": c07Lib2}
		replay := func() findings.Replay {
			return findings.Replay{Files: map[string]string{"src/main.tsh": ic.main, "src/lib.tsh": c07Lib1, "src/lib2.tsh": c07Lib2, "expected.txt": ic.want}, Script: transpileOnlyReplay()}
		}
		for t := 0; t < 2; t++ {
			res := drive.Transpile(files, "main.tsh", drive.Target(t))
			sym := ""
			switch {
			case res.Panic != "":
				sym = "panic"
			case ic.accept && !res.OK():
				sym = "rejected"
			case !ic.accept && !res.Rejected():
				sym = "accepted"
			}
			if sym == "" && ic.accept && t == int(drive.Bash) {
				got := runBashStable(res.Script, drive.RunOpts{})
				if got.Runaway == "" && (got.Stdout != ic.want || got.Exit != 0 || got.Stderr != "") {
					sym = "wrong-function-reached"
				}
			}
			if sym != "" {
				r.Fail("qualified-name "+ic.name+" symptom="+sym+"-"+drive.Target(t).String(), fmt.Sprintf("import boundary, %s: %s (%s)", ic.name, sym, res.Err), replay)
			}
		}
	})
	done += 2 * len(qc)
	r.Set("qualified_name_cases", len(qc))
	r.Set("import_boundary_cases", len(c07ImportCases()))
	r.Set("skeletons_also_judged_as_imported_file", libDone)
	r.Set("skeletons_executed_as_imported_file", libExecuted)
	r.Set("oracle_accept", cnt["oracle-accept"])
	r.Set("oracle_reject", cnt["oracle-reject"])
	r.Set("oracle_unspecified_skipped", cnt["oracle-unspecified"])
	r.Set("accepted_programs_executed", executed)
	r.Set("evaluations", done)
	r.Set("distinct_nontrivial", distinct.Len())
	r.Set("exhaustive", !capped)
	r.Set("rule", "every block-structure skeleton with n items in total, nesting depth <= 3, <= 3 items per block over {define x, use x, assign x, break, continue, return, call f, call g, if, for x:=.., for i,x := range, for j:=.., switch(2 branches), func f(x), func f() int, func g(), func g() int without final return}; an independent scoper decides accept/reject/unspecified from the rules C07 states; both targets must agree with it; accepted programs are also executed against the reference interpreter. Plus a two-file import-boundary table and the qualified-name space (qualifier x callee name x a main-file function of such a name x call site over a main file and two imported files; accepted cases executed). Distinct by source text.")
	r.Assumef("unspecified and therefore skipped: break inside a switch outside a loop, returning a value from a result-less function (typing, C06), value-returning functions ending in a compound statement")
	return finish(r)
}

func transpileOnlyReplay() string {
	return `set -e
T=$(mktemp -d); trap 'rm -rf "$T"' EXIT
(cd /repo && GOFLAGS=-mod=mod GOPROXY=off GOSUMDB=off GOTOOLCHAIN=local go build -o "$T/tsh" . ) && cp -r /repo/std "$T/std"
mkdir -p "$T/out"
for t in bash batch; do
  if "$T/tsh" -i src/main.tsh -o "$T/out" -t $t >"$T/log.$t" 2>&1; then echo "$t: ACCEPTED"; else echo "$t: REJECTED: $(grep -m1 -E 'panic|error' "$T/log.$t" | cut -c1-200)"; fi
done
cat detail.txt`
}

// c07Count is the total number of items of a skeleton (all nesting levels).
func c07Count(items []c07Item) int {
	n := 0
	for _, it := range items {
		n++
		for _, k := range it.kids {
			n += c07Count(k)
		}
	}
	return n
}

package checks

import (
	"fmt"
	"sort"
	"strings"
	"sync"
	"time"
	"verif/cmdmodel"

	"verif/drive"
	"verif/findings"
	"verif/tsmodel"
)

func init() { Registry["C08"] = C08 }

var c08Paths = []string{"print", "assign", "concat", "concat-direct", "compare", "compare-var-right", "argument", "argument-direct", "return", "slice-store-literal", "slice-store-assign", "range", "subscript", "len", "write-read", "direct-measure", "direct-store"}
var c08Origins = []string{"literal", "file", "stdin", "command", "stdin-in-function", "literal-in-function"}
var c08Positions = []string{"only", "first", "middle", "last"}

func c08Value(c byte, pos string) string {
	switch pos {
	case "only":
		return string(c)
	case "first":
		return string(c) + "ab"
	case "middle":
		return "a" + string(c) + "b"
	}
	return "ab" + string(c)
}

// c08Program builds the program for one (value, path, origin) and its expected stdout and files.
func c08Program(v, path, origin string) (src string, stdin string, pre map[string]string, wantOut string, wantFiles map[string]string, ok bool) {
	q := tsmodel.Quote
	pre = map[string]string{}
	wantFiles = map[string]string{}
	var b strings.Builder
	// origin literal-in-function: the program of the literal origin with everything but its function definitions
	// moved into the body of a function that is called once (a literal inside a function body is emitted, indented
	// and scoped by other code than one at top level)
	inFunction := origin == "literal-in-function"
	if inFunction {
		origin = "literal"
	}
	defer func() {
		if inFunction && ok {
			src = c08IntoFunction(src)
		}
	}()
	switch origin {
	case "literal":
		b.WriteString("v := " + q(v) + "\n")
	case "file":
		if strings.HasSuffix(v, "\n") {
			// read() is defined as "content without its final newline": the file holds v + "\n"
		}
		pre["in.txt"] = v + "\n"
		b.WriteString("v := read(\"in.txt\")\n")
	case "stdin":
		if strings.Contains(v, "\n") {
			return "", "", nil, "", nil, false // input() reads one line
		}
		stdin = v + "\n"
		b.WriteString("v := input()\n")
	case "stdin-in-function":
		if strings.Contains(v, "\n") {
			return "", "", nil, "", nil, false
		}
		stdin = v + "\n"
		b.WriteString("func ask() string {\n\tline := input()\n\treturn line\n}\nv := ask()\n")
	case "command":
		pre["in.txt"] = v + "\n"
		b.WriteString("v, ce, cc := @cat(\"in.txt\")\n")
	}
	frame := func(x string) string { return "S " + x + " E\n" }
	switch path {
	case "print":
		b.WriteString("print(\"S\", v, \"E\")\n")
		wantOut = frame(v)
	case "assign":
		b.WriteString("w := v\nx := \"\"\nx = w\nprint(\"S\", x, \"E\")\n")
		wantOut = frame(v)
	case "concat":
		b.WriteString("w := \"<\" + v + \">\"\nw += v\nprint(w)\n")
		wantOut = "<" + v + ">" + v + "\n"
	case "compare":
		b.WriteString("print(v == " + q(v) + ", v != " + q(v) + ", v == " + q(v+"x") + ", v != \"\")\n")
		ne := "1"
		if v == "" {
			ne = "0"
		}
		wantOut = "1 0 0 " + ne + "\n"
	case "concat-direct":
		// the literal is written directly as an operand of + (only meaningful for a literal)
		if origin != "literal" {
			return "", "", nil, "", nil, false
		}
		b.WriteString("a := \"A\"\nw := \"<\" + " + q(v) + " + \">\"\nw += " + q(v) + "\nprint(w)\nprint(a + " + q(v) + " + a, len(" + q(v) + " + a))\n")
		wantOut = "<" + v + ">" + v + "\n" + "A" + v + "A " + fmt.Sprint(len(v)+1) + "\n"
	case "compare-var-right":
		// the value is the RIGHT operand, held in a variable (a pattern position of [[ ]])
		b01 := func(c bool) string {
			if c {
				return "1"
			}
			return "0"
		}
		b.WriteString("w := v\nprint(\"k\" == w, \"kk\" != w, v == w, w != v, \"report.txt\" == w)\nswitch \"k\" {\ncase w:\n\tprint(\"case\")\ndefault:\n\tprint(\"default\")\n}\n")
		wantOut = b01(v == "k") + " " + b01(v != "kk") + " 1 0 " + b01(v == "report.txt") + "\n"
		if v == "k" {
			wantOut += "case\n"
		} else {
			wantOut += "default\n"
		}
	case "argument":
		b.WriteString("func show(a string) {\n\tprint(\"S\", a, \"E\")\n}\nshow(v)\n")
		wantOut = frame(v)
	case "argument-direct":
		// the value is written directly in the argument list (only meaningful for a literal)
		if origin != "literal" {
			return "", "", nil, "", nil, false
		}
		b.WriteString("func show(a string, b string) {\n\tprint(\"S\", a, \"E\")\n\tprint(\"T\", b, \"E\")\n}\nshow(" + q(v) + ", \"k\")\nshow(\"k\", " + q(v) + ")\n")
		wantOut = frame(v) + "T k E\n" + "S k E\n" + "T " + v + " E\n"
	case "return":
		b.WriteString("func same(a string) string {\n\treturn a\n}\nr := same(v)\nprint(\"S\", r, \"E\")\n")
		wantOut = frame(v)
	case "slice-store-literal":
		b.WriteString("sl := []string{v, \"k\"}\nprint(\"S\", sl[0], \"E\")\nprint(len(sl), sl[1])\n")
		wantOut = frame(v) + "2 k\n"
	case "slice-store-assign":
		b.WriteString("sl := []string{\"k\"}\nsl[1] = v\nsl[3] = v\nprint(\"S\", sl[1], \"E\")\nprint(len(sl), sl[0])\nprint(\"S\", sl[3], \"E\")\n")
		wantOut = frame(v) + "4 k\n" + frame(v)
	case "range":
		b.WriteString("for i, ch := range v {\n\tprint(i, \"S\", ch, \"E\")\n}\nprint(\"end\")\n")
		for i := 0; i < len(v); i++ {
			wantOut += fmt.Sprintf("%d S %s E\n", i, string(v[i]))
		}
		wantOut += "end\n"
	case "subscript":
		b.WriteString("n := len(v)\nprint(\"S\", v[0:n], \"E\")\nprint(\"S\", v[0], \"E\")\nprint(\"S\", v[n - 1], \"E\")\nprint(\"S\", v[:1] + v[1:], \"E\")\n")
		wantOut = frame(v) + frame(string(v[0])) + frame(string(v[len(v)-1])) + frame(v)
	case "len":
		b.WriteString("print(len(v), len(v + \"xy\"))\n")
		wantOut = fmt.Sprintf("%d %d\n", len(v), len(v)+2)
	case "direct-measure":
		// the literal written directly where a string is measured or ranged over (a back-end may fold those)
		if origin != "literal" {
			return "", "", nil, "", nil, false
		}
		b.WriteString("print(len(" + q(v) + "), len(" + q(v) + " + \"xy\"))\nfor i, ch := range " + q(v) + " {\n\tprint(i, \"S\", ch, \"E\")\n}\nprint(\"end\")\n")
		wantOut = fmt.Sprintf("%d %d\n", len(v), len(v)+2)
		for i := 0; i < len(v); i++ {
			wantOut += fmt.Sprintf("%d S %s E\n", i, string(v[i]))
		}
		wantOut += "end\n"
	case "direct-store":
		// the literal written directly as a returned value, a slice element (literal and assignment), a printed value
		// and a case expression
		if origin != "literal" {
			return "", "", nil, "", nil, false
		}
		b.WriteString("func lit() string {\n\treturn " + q(v) + "\n}\nsl := []string{" + q(v) + ", \"k\"}\nsl[3] = " + q(v) + "\nprint(\"S\", sl[0], \"E\")\nprint(\"S\", sl[3], \"E\")\nprint(len(sl), sl[1])\nprint(\"S\", lit(), \"E\")\nprint(\"S\", " + q(v) + ", \"E\")\nswitch v {\ncase \"k\":\n\tprint(\"k\")\ncase " + q(v) + ":\n\tprint(\"case\")\ndefault:\n\tprint(\"default\")\n}\n")
		wantOut = frame(v) + frame(v) + "4 k\n" + frame(v) + frame(v)
		if v == "k" {
			wantOut += "k\n"
		} else {
			wantOut += "case\n"
		}
	case "write-read":
		b.WriteString("write(\"out.txt\", v)\nprint(\"S\", read(\"out.txt\"), \"E\")\nwrite(\"out.txt\", v, true)\nprint(exists(\"out.txt\"))\n")
		wantOut = frame(v) + "1\n"
		wantFiles["out.txt"] = v + "\n" + v + "\n"
	}
	return b.String(), stdin, pre, wantOut, wantFiles, true
}

// c08IntoFunction moves every top-level line that is not part of a function definition into `func cell() { ... }`.
func c08IntoFunction(src string) string {
	var defs, body []string
	in := false
	for _, l := range strings.Split(strings.TrimSuffix(src, "\n"), "\n") {
		switch {
		case in:
			defs = append(defs, l)
			if l == "}" {
				in = false
			}
		case strings.HasPrefix(l, "func "):
			in = true
			defs = append(defs, l)
		default:
			body = append(body, "\t"+l)
		}
	}
	return strings.Join(defs, "\n") + "\nfunc cell() {\n" + strings.Join(body, "\n") + "\n}\ncell()\n"
}

type c08Cell struct {
	v, path, origin string
	exactKey        string // key of this cell
	setKey          string // key prefix of the set-valued known line this cell belongs to
	member          string // member token inside the set line
	derivedFrom     []string
}

// c08JudgeBatch: the literal cell on the Batch target, executed under the cmd.exe model (parse-time %,
// run-time !, ^ escapes, quotes); paths that need external programs (files) are unmodelled and skipped.
func c08JudgeBatch(c c08Cell) (sym, detail string, replay func() findings.Replay, skipped bool) {
	src, _, pre, wantOut, _, ok := c08Program(c.v, c.path, "literal")
	if !ok || len(pre) > 0 {
		return "", "", nil, true
	}
	tr := drive.TranspileSrc(src, drive.Batch)
	mk := func(script, out, errs string) func() findings.Replay {
		return func() findings.Replay {
			return findings.Replay{Files: map[string]string{"src/main.tsh": src, "expected.txt": wantOut + "exit=0\n", "actual.txt": out + "\n--error--\n" + errs, "script.bat": script,
				"detail.txt": fmt.Sprintf("value=%q path=%s origin=literal target=batch\n", c.v, c.path)}, Script: repoTshReplay("batch")}
		}
	}
	if tr.Panic != "" {
		return "transpiler-panic", firstLine(tr.Panic), mk("", "", tr.Panic), false
	}
	if !tr.OK() {
		return "rejected", tr.Err, mk("", "", tr.Err), false
	}
	res := cmdmodel.Run(tr.Script, cmdmodel.Options{MaxSteps: 400000, Files: map[string]string{}})
	if res.Unmodelled != "" {
		return "", "", nil, true
	}
	out := strings.ReplaceAll(res.Stdout, "\r\n", "\n")
	rp := mk(tr.Script, out, res.Error)
	switch {
	case res.Error != "":
		return "script-error", res.Error, rp, false
	case out != wantOut:
		return "output-diff", diffHint(wantOut, out), rp, false
	case res.Exit != 0:
		return "exit", fmt.Sprint(res.Exit), rp, false
	}
	return "", "", nil, false
}

func c08Judge(c c08Cell) (sym, detail string, replay func() findings.Replay, skipped bool) {
	if c.origin == "literal@batch" {
		return c08JudgeBatch(c)
	}
	src, stdin, pre, wantOut, wantFiles, ok := c08Program(c.v, c.path, c.origin)
	if !ok {
		return "", "", nil, true
	}
	mk := func(script, out, errs string, files map[string]string) func() findings.Replay {
		return func() findings.Replay {
			fs := map[string]string{"src/main.tsh": src, "expected.txt": wantOut + "exit=0\n", "actual.txt": out + "\n--stderr--\n" + errs, "script.sh": script, "stdin.txt": stdin,
				"detail.txt": fmt.Sprintf("value=%q path=%s origin=%s\n", c.v, c.path, c.origin)}
			for k, v := range pre {
				fs["box/"+k] = v
			}
			return findings.Replay{Files: fs, Script: "export STDIN_FILE=$PWD/stdin.txt\n" + repoTshReplay("bash")}
		}
	}
	tr := drive.TranspileSrc(src, drive.Bash)
	if tr.Panic != "" {
		return "transpiler-panic", firstLine(tr.Panic), mk("", "", tr.Panic, nil), false
	}
	if !tr.OK() {
		return "rejected", tr.Err, mk("", "", tr.Err, nil), false
	}
	sym, detail, replay = c08RunScript(tr.Script, stdin, pre, wantOut, wantFiles, mk)
	if sym == "" && c.origin == "literal" {
		// the same source as the SECOND target served by one transpiler object (tsh -t batch -t bash): a literal
		// must reach the Bash script as it does from a fresh transpiler
		if seq := drive.TranspileSeqSrc(src, drive.Batch, drive.Bash); seq[1].Script != tr.Script {
			switch {
			case seq[1].Panic != "":
				return "transpiler-panic@second-target-of-one-transpiler", firstLine(seq[1].Panic), mk("", "", seq[1].Panic, nil), false
			case !seq[1].OK():
				return "rejected@second-target-of-one-transpiler", seq[1].Err, mk("", "", seq[1].Err, nil), false
			}
			if s2, d2, r2 := c08RunScript(seq[1].Script, stdin, pre, wantOut, wantFiles, mk); s2 != "" {
				return s2 + "@second-target-of-one-transpiler", d2, r2, false
			}
		}
	}
	return sym, detail, replay, false
}

func c08RunScript(script, stdin string, pre map[string]string, wantOut string, wantFiles map[string]string, mk func(script, out, errs string, files map[string]string) func() findings.Replay) (sym, detail string, replay func() findings.Replay) {
	sym, detail, replay, _ = c08RunScript4(script, stdin, pre, wantOut, wantFiles, mk)
	return
}

func c08RunScript4(script, stdin string, pre map[string]string, wantOut string, wantFiles map[string]string, mk func(script, out, errs string, files map[string]string) func() findings.Replay) (sym, detail string, replay func() findings.Replay, skipped bool) {
	got := drive.RunBash(script, drive.RunOpts{Stdin: stdin, Files: pre, KeepFiles: true, CPUSecs: 5, Backstop: 90 * time.Second})
	rp := mk(script, got.Stdout, got.Stderr, got.Files)
	switch {
	case got.Runaway != "":
		return "runaway", got.Runaway, rp, false
	case strings.Contains(got.Stderr, "syntax error") || strings.Contains(got.Stderr, "unexpected EOF"):
		return "shell-syntax-error", firstLine(got.Stderr), rp, false
	}
	var unexpected []string
	for name, content := range got.Files {
		if want, ok := wantFiles[name]; ok {
			if want != content {
				return "file-content", fmt.Sprintf("%s holds %q, want %q", name, clip(content), clip(want)), rp, false
			}
			continue
		}
		unexpected = append(unexpected, name)
	}
	sort.Strings(unexpected)
	if len(unexpected) > 0 {
		return "unexpected-file", fmt.Sprintf("files %q appeared in the sandbox (expansion or execution of data)", unexpected), rp, false
	}
	for name := range wantFiles {
		if _, ok := got.Files[name]; !ok {
			return "file-missing", name, rp, false
		}
	}
	switch {
	case got.Stdout != wantOut:
		return "output-diff", diffHint(wantOut, got.Stdout), rp, false
	case got.Exit != 0:
		return "exit", fmt.Sprint(got.Exit), rp, false
	case got.Stderr != "":
		return "stderr", firstLine(got.Stderr), rp, false
	}
	return "", "", nil, false
}

// c08Known is the expanded form of the set-valued known lines:
// "path=P origin=O pos=Q chars=0x22,0x24" -> members {0x22, 0x24}.
type c08Known struct {
	sets map[string]map[string]bool // set key prefix -> members
	line map[string]string          // set key prefix -> full listed key
}

func c08LoadKnown(r *findings.Run) c08Known {
	k := c08Known{sets: map[string]map[string]bool{}, line: map[string]string{}}
	for _, key := range r.KnownKeys("path=") {
		i := strings.Index(key, " chars=")
		if i < 0 {
			continue
		}
		prefix := key[:i]
		k.line[prefix] = key
		k.sets[prefix] = map[string]bool{}
		for _, m := range strings.Split(key[i+len(" chars="):], ",") {
			k.sets[prefix][strings.TrimSpace(m)] = true
		}
	}
	return k
}

func (k c08Known) has(prefix, member string) bool { return k.sets[prefix][member] }

func C08() int {
	r := findings.New("C08")
	defer drive.Cleanup()
	deadline := r.Deadline(8*time.Minute, 40*time.Minute)
	known := c08LoadKnown(r)
	var chars []byte
	for c := byte(32); c < 127; c++ {
		chars = append(chars, c)
	}
	chars = append(chars, '\n', '\t')
	var cells []c08Cell
	originsT := append(append([]string{}, c08Origins...), "literal@batch")
	for _, p := range c08Paths {
		for _, o := range originsT {
			for _, pos := range c08Positions {
				for _, c := range chars {
					prefix := fmt.Sprintf("path=%s origin=%s pos=%s", p, o, pos)
					member := fmt.Sprintf("0x%02x", c)
					cells = append(cells, c08Cell{v: c08Value(c, pos), path: p, origin: o, exactKey: prefix + " char=" + member, setKey: prefix, member: member})
				}
			}
		}
	}
	nTable := len(cells)
	// multi-character hazards on every path and origin
	hazards := []string{"$(touch CANARY)", "`touch CANARY`", "$HOME", "${HOME}", "*", "-n", "-e", "-E x", "a  b", " lead", "trail ", "\"; touch CANARY; \"", "'; touch CANARY; '", "$((1+1))", "a\\nb", "\\", "%s", "!!", "~", "a;touch CANARY", "a|cat", "a&", "> CANARY", "{a,b}", "[a-c]", "?", "#x", "x #y", "$1", "$?", "$_", "\\$(touch CANARY)"}
	for _, p := range c08Paths {
		for _, o := range originsT {
			for hi, h := range hazards {
				prefix := fmt.Sprintf("path=%s origin=%s hazards", p, o)
				member := fmt.Sprintf("h%d", hi)
				cells = append(cells, c08Cell{v: h, path: p, origin: o, exactKey: prefix + " hazard=" + member + fmt.Sprintf("(%q)", h), setKey: prefix, member: member})
			}
		}
	}
	nHaz := len(cells) - nTable
	// all strings of length 2 over the full alphabet on the three most exposed paths (thorough; quick: a 12-char sub-alphabet)
	alpha2 := chars
	if !r.Thorough() {
		alpha2 = []byte{'a', ' ', '"', '$', '`', '\\', '*', '-', '\'', '(', ';', '\n'}
	}
	for _, p := range []string{"print", "slice-store-assign", "write-read"} {
		for _, o := range []string{"literal", "file"} {
			for _, c1 := range alpha2 {
				for _, c2 := range alpha2 {
					prefix := fmt.Sprintf("path=%s origin=%s len2", p, o)
					member := fmt.Sprintf("0x%02x%02x", c1, c2)
					cells = append(cells, c08Cell{v: string([]byte{c1, c2}), path: p, origin: o, exactKey: prefix + " string=" + member, setKey: prefix, member: member,
						derivedFrom: []string{
							fmt.Sprintf("path=%s origin=%s pos=first|0x%02x", p, o, c1), fmt.Sprintf("path=%s origin=%s pos=last|0x%02x", p, o, c2),
							fmt.Sprintf("path=%s origin=%s pos=only|0x%02x", p, o, c1), fmt.Sprintf("path=%s origin=%s pos=only|0x%02x", p, o, c2),
							fmt.Sprintf("path=%s origin=%s pos=middle|0x%02x", p, o, c1), fmt.Sprintf("path=%s origin=%s pos=middle|0x%02x", p, o, c2)}})
				}
			}
		}
	}
	var mu sync.Mutex
	done, skipped, failing, capped := 0, 0, 0, false
	transient := 0
	distinct := findings.NewDistinct()
	failTable := map[string][]string{} // set key -> failing members (for triage output)
	symCount := map[string]int{}
	triage := map[string]map[string]bool{}
	drive.Par(len(cells), func(i int) {
		if past(deadline) {
			mu.Lock()
			capped = true
			mu.Unlock()
			return
		}
		c := cells[i]
		sym, detail, rp, skip := c08Judge(c)
		mu.Lock()
		done++
		if skip {
			skipped++
		}
		mu.Unlock()
		if skip {
			return
		}
		distinct.Add(c.v + "\x00" + c.path + "\x00" + c.origin)
		if i%1009 == 0 {
			r.Sample(map[string]string{"kind": "string-cell", "value": fmt.Sprintf("%q", c.v), "path": c.path, "origin": c.origin, "result": map[bool]string{true: "arrives unchanged", false: sym}[sym == ""]})
		}
		if sym == "" {
			return
		}
		// replay once more: identical symptom required
		sym2, _, _, _ := c08Judge(c)
		if sym2 != sym {
			// a run killed by the sandbox limits on an overloaded machine is believed only if it repeats
			if sym3, _, _, _ := c08Judge(c); sym == "runaway" && sym2 == "" && sym3 == "" {
				mu.Lock()
				transient++
				mu.Unlock()
				return
			}
			panic(fmt.Sprintf("HARNESS ERROR: c08 cell not deterministic: %s (%s vs %s)", c.exactKey, sym, sym2))
		}
		mu.Lock()
		failing++
		symCount[sym]++
		failTable[c.setKey] = append(failTable[c.setKey], c.member)
		if triage[c.setKey] == nil {
			triage[c.setKey] = map[string]bool{}
		}
		triage[c.setKey][sym] = true
		mu.Unlock()
		desc := fmt.Sprintf("value %q on path %s from origin %s: %s (%s)", c.v, c.path, c.origin, sym, detail)
		if known.has(c.setKey, c.member) {
			r.Fail(known.line[c.setKey], desc, rp)
			return
		}
		for _, d := range c.derivedFrom { // a 2-character string is explained by a listed single-character cell
			pm := strings.SplitN(d, "|", 2)
			if known.has(pm[0], pm[1]) {
				r.Fail(known.line[pm[0]], desc, rp)
				return
			}
		}
		r.Fail(c.exactKey+" symptom="+sym, desc, rp)
	})
	if os := strings.TrimSpace(getenv("VERIF_C08_TRIAGE")); os != "" {
		// triage output: the exact set-valued lines for the current tree (reviewed by hand before they are committed)
		var keys []string
		for k := range failTable {
			keys = append(keys, k)
		}
		sort.Strings(keys)
		for _, k := range keys {
			m := failTable[k]
			sort.Strings(m)
			var syms []string
			for s := range triage[k] {
				syms = append(syms, s)
			}
			sort.Strings(syms)
			fmt.Printf("TRIAGE known: property=C08 key=%s chars=%s :: string content is not opaque on this path (%s)\n", k, strings.Join(m, ","), strings.Join(syms, ", "))
		}
	}
	var sc []string
	for k, n := range symCount {
		sc = append(sc, fmt.Sprintf("%s=%d", k, n))
	}
	sort.Strings(sc)
	r.Set("cells_table", nTable)
	r.Set("cells_hazards", nHaz)
	r.Set("cells_length2", len(cells)-nTable-nHaz)
	r.Set("cells_failing_incl_known", failing)
	r.Set("failing_by_symptom", sc)
	r.Set("cells_skipped_not_expressible", skipped)
	r.Set("sandbox_kills_not_reproduced_on_two_reruns", transient)
	r.Set("evaluations", done)
	r.Set("distinct_nontrivial", distinct.Len())
	r.Set("exhaustive", !capped)
	r.Set("rule", "cell table: every printable ASCII character plus \\n and \\t (97) x position {only, first, middle, last} x 15 data paths x 5 origins on Bash (literal, read from file, standard input, command output, standard input read inside a function) plus the literal origin on the Batch target under the cmd.exe model (runs the model does not decide are skipped and counted), one program per cell, observed by framed prints and by listing/reading the sandbox afterwards (no file may appear that the program did not write; written files must hold the exact bytes); plus a list of multi-character hazards on every path/origin and all strings of length 2 over the alphabet on the three most exposed paths (replaces the property's random strings: sampling is outside this technique). Distinct by (value, path, origin).")
	r.Assumef("known findings are listed per (path, origin, position) with the exact set of failing characters; a failing 2-character string is attributed to a listed single-character cell of one of its characters, anything else is a violation")
	return finish(r)
}

package checks

import (
	"crypto/sha256"
	"fmt"
	"regexp"
	"sort"
	"strings"
	"sync"
	"sync/atomic"
	"time"

	"verif/drive"
	"verif/findings"
	. "verif/tsmodel"
)

func init() { Registry["C09"] = C09 }

// feature bits of a library file
const (
	fPriv    = 1 << iota // private helper() + public Wrap() calling it
	fGlobal              // global variable + top-level code using it
	fInit                // top-level statement calling the file's own public function
	fUseGlob             // public function reading the file's own global (needs fGlobal)
	fDeep                // public function calling into the file's own import (set by the graph)
	fUnder               // underscore-led private names (global _cnt, function _step) used by a public function
	fPub                 // PUBLIC global Total, changed through the public Add (also by the top-level code of every importer) and by the file's own top-level code
)

type c09Lib struct {
	id      int
	feat    int
	imports []int // ids of libraries this one imports
	twinOf  int   // != 0: the file has exactly the statements of library twinOf (same constants); only a comment differs
}

func c09LibProg(l c09Lib) *Prog { return c09LibProgIn(l, nil) }

// c09LibProgIn: libs are the libraries of the case (the top-level code of an importer changes the public state of
// the files it imports)
func c09LibProgIn(l c09Lib, libs []c09Lib) *Prog {
	p := &Prog{}
	for _, j := range l.imports {
		p.Imports = append(p.Imports, Import{Alias: fmt.Sprintf("d%d", j), Path: fmt.Sprintf("l%d.tsh", j)})
	}
	id := l.id
	if l.twinOf != 0 {
		id = l.twinOf
	}
	if l.feat&fGlobal != 0 {
		p.Stmts = append(p.Stmts, Define{Names: []string{"count"}, Form: DefShort, Vals: []Expr{lit(id * 11)}})
	}
	p.Stmts = append(p.Stmts, FuncDef{Name: "Get", Rets: []Type{TInt}, Body: []Stmt{Return{Vals: []Expr{lit(id)}}}})
	if l.feat&fPriv != 0 {
		p.Stmts = append(p.Stmts,
			FuncDef{Name: "helper", Rets: []Type{TInt}, Body: []Stmt{Return{Vals: []Expr{lit(id * 10)}}}},
			FuncDef{Name: "Wrap", Rets: []Type{TInt}, Body: []Stmt{Return{Vals: []Expr{Binary{Op: "+", L: Call{Fn: "helper"}, R: lit(1)}}}}},
			FuncDef{Name: "unused", Rets: []Type{TInt}, Body: []Stmt{Return{Vals: []Expr{Call{Fn: "helper"}}}}},
		)
	}
	if l.feat&fUnder != 0 {
		p.Stmts = append(p.Stmts,
			Define{Names: []string{"_cnt"}, Form: DefShort, Vals: []Expr{lit(id * 100)}},
			FuncDef{Name: "_step", Rets: []Type{TInt}, Body: []Stmt{Return{Vals: []Expr{lit(id)}}}},
			FuncDef{Name: "Next", Rets: []Type{TInt}, Body: []Stmt{OpAssign{Name: "_cnt", Op: "+", Val: Call{Fn: "_step"}}, Return{Vals: []Expr{Var{"_cnt"}}}}},
		)
	}
	if l.feat&fPub != 0 {
		p.Stmts = append(p.Stmts,
			Define{Names: []string{"Total"}, Form: DefShort, Vals: []Expr{lit(id * 13)}},
			FuncDef{Name: "Add", Params: []Param{{"k", TInt}}, Body: []Stmt{OpAssign{Name: "Total", Op: "+", Val: Var{"k"}}}},
			FuncDef{Name: "Tot", Rets: []Type{TInt}, Body: []Stmt{Return{Vals: []Expr{Var{"Total"}}}}},
			OpAssign{Name: "Total", Op: "+", Val: lit(1)},
			Print{Args: []Expr{StrLit{V: fmt.Sprintf("tot%d", id)}, Var{"Total"}}})
	}
	for _, j := range l.imports {
		for _, o := range libs {
			if o.id == j && o.feat&fPub != 0 {
				// this file registers itself with the file it imports while it is loaded
				p.Stmts = append(p.Stmts, ExprStmt{X: Call{Alias: fmt.Sprintf("d%d", j), Fn: "Add", Args: []Expr{lit(id * 5)}}},
					Print{Args: []Expr{StrLit{V: fmt.Sprintf("reg%d", id)}, Call{Alias: fmt.Sprintf("d%d", j), Fn: "Tot"}}})
			}
		}
	}
	if l.feat&fUseGlob != 0 && l.feat&fGlobal != 0 {
		p.Stmts = append(p.Stmts, FuncDef{Name: "Cnt", Rets: []Type{TInt}, Body: []Stmt{Return{Vals: []Expr{Binary{Op: "+", L: Var{"count"}, R: lit(1000)}}}}})
	}
	for _, j := range l.imports {
		p.Stmts = append(p.Stmts, FuncDef{Name: fmt.Sprintf("Deep%d", j), Rets: []Type{TInt}, Body: []Stmt{Return{Vals: []Expr{Binary{Op: "+", L: Call{Alias: fmt.Sprintf("d%d", j), Fn: "Get"}, R: lit(100 * id)}}}}})
	}
	if l.feat&fGlobal != 0 {
		p.Stmts = append(p.Stmts, Print{Args: []Expr{StrLit{V: fmt.Sprintf("top%d", id)}, Var{"count"}}},
			OpAssign{Name: "count", Op: "+", Val: lit(1)},
			// the file's own global read and written inside blocks of its top-level code
			If{Cond: Binary{Op: ">", L: Var{"count"}, R: lit(0)}, Then: []Stmt{OpAssign{Name: "count", Op: "+", Val: lit(2)}, Print{Args: []Expr{StrLit{V: fmt.Sprintf("blk%d", id)}, Var{"count"}}}}},
			For{Init: Define{Names: []string{"bk"}, Form: DefShort, Vals: []Expr{lit(0)}}, Cond: Binary{Op: "<", L: Var{"bk"}, R: lit(2)}, Post: IncDec{Name: "bk", Inc: true}, Body: []Stmt{OpAssign{Name: "count", Op: "+", Val: Var{"bk"}}}})
	}
	if l.feat&fInit != 0 {
		// boot is reachable only from this file's own top-level code
		p.Stmts = append(p.Stmts,
			FuncDef{Name: "boot", Rets: []Type{TInt}, Body: []Stmt{Return{Vals: []Expr{lit(id * 7)}}}},
			Print{Args: []Expr{StrLit{V: fmt.Sprintf("init%d", id)}, Call{Fn: "Get"}, Call{Fn: "boot"}}})
	}
	return p
}

type c09Case struct {
	name     string
	libs     []c09Lib
	mainImp  [][2]string // alias, lib path
	std      bool
	localStd bool           // a local file strings.tsh (with its own Contains) imported under the alias mystr
	nonce    map[int]string // per lib: desired first hex digit of the content hash ("" = none)
}

func c09MainProg(c c09Case) *Prog {
	p := &Prog{}
	if c.std {
		p.Imports = append(p.Imports, Import{Path: "strings"})
	}
	libByPath := map[string]c09Lib{}
	for _, l := range c.libs {
		libByPath[fmt.Sprintf("l%d.tsh", l.id)] = l
	}
	for _, mi := range c.mainImp {
		p.Imports = append(p.Imports, Import{Alias: mi[0], Path: mi[1]})
	}
	if c.localStd {
		p.Imports = append(p.Imports, Import{Alias: "mystr", Path: "strings.tsh"})
	}
	// own functions with the same names as the libraries'
	p.Stmts = append(p.Stmts,
		FuncDef{Name: "helper", Rets: []Type{TInt}, Body: []Stmt{Return{Vals: []Expr{lit(-10)}}}},
		// Get calls helper; Gethelper (the two names joined) is called from the top level only
		FuncDef{Name: "Get", Rets: []Type{TInt}, Body: []Stmt{Return{Vals: []Expr{Binary{Op: "+", L: Call{Fn: "helper"}, R: lit(9)}}}}},
		FuncDef{Name: "Gethelper", Rets: []Type{TInt}, Body: []Stmt{Return{Vals: []Expr{lit(-77)}}}},
		Print{Args: []Expr{StrLit{V: "main"}, Call{Fn: "Get"}, Call{Fn: "helper"}, Call{Fn: "Gethelper"}}},
	)
	for _, mi := range c.mainImp {
		l := libByPath[mi[1]]
		args := []Expr{StrLit{V: mi[0]}, Call{Alias: mi[0], Fn: "Get"}}
		if l.feat&fPriv != 0 {
			args = append(args, Call{Alias: mi[0], Fn: "Wrap"})
		}
		if l.feat&fUseGlob != 0 && l.feat&fGlobal != 0 {
			args = append(args, Call{Alias: mi[0], Fn: "Cnt"})
		}
		if l.feat&fUnder != 0 {
			args = append(args, Call{Alias: mi[0], Fn: "Next"}, Call{Alias: mi[0], Fn: "Next"})
		}
		if l.feat&fPub != 0 {
			p.Stmts = append(p.Stmts, ExprStmt{X: Call{Alias: mi[0], Fn: "Add", Args: []Expr{lit(3)}}})
			args = append(args, Call{Alias: mi[0], Fn: "Tot"})
		}
		for _, j := range l.imports {
			args = append(args, Call{Alias: mi[0], Fn: fmt.Sprintf("Deep%d", j)})
		}
		p.Stmts = append(p.Stmts, Print{Args: args})
	}
	if c.localStd {
		p.Stmts = append(p.Stmts, Print{Args: []Expr{StrLit{V: "local"}, Call{Alias: "mystr", Fn: "Contains", Args: []Expr{StrLit{V: "hello"}, StrLit{V: "ell"}}}}})
	}
	if c.std {
		p.Stmts = append(p.Stmts, Raw{Text: `print("std", strings.Contains("hello", "ell"), strings.HasPrefix("hello", "x"))`})
	}
	p.Stmts = append(p.Stmts, Print{Args: []Expr{StrLit{V: "end"}, Call{Fn: "Get"}}})
	return p
}

// c09LibSource is the text of a library file of a case (nonce comment, twin comment).
func c09LibSource(c c09Case, l c09Lib, p *Prog) string {
	src := withNonce(PrintProg(*p), c.nonce[l.id])
	if l.twinOf != 0 {
		// (a comment at the end of the first line: same statements, same line structure, other bytes)
		src = strings.Replace(src, "\n", fmt.Sprintf(" // the same statements as l%d.tsh, another file\n", l.twinOf), 1)
	}
	return src
}

// withNonce appends a comment so that the content hash starts with the wanted hex digit.
func withNonce(src string, want string) string {
	if want == "" {
		return src
	}
	for n := 0; ; n++ {
		s := fmt.Sprintf("%s// nonce %d\n", src, n)
		h := sha256.Sum256([]byte(s))
		if fmt.Sprintf("%x", h[:1])[:1] == want {
			return s
		}
	}
}

func c09Cases(thorough bool) []c09Case {
	var out []c09Case
	feats := []int{0, fPriv, fPriv | fGlobal, fPriv | fInit, fGlobal | fUseGlob, fPriv | fGlobal | fInit | fUseGlob, fUnder, fUnder | fPriv | fGlobal | fInit | fUseGlob, fPub, fPub | fUnder | fPriv | fGlobal | fInit | fUseGlob}
	nonces := []string{"", "1", "c"} // first hex digit of the content hash: unconstrained, a digit, a letter
	if thorough {
		nonces = []string{"", "0", "1", "2", "3", "4", "5", "6", "7", "8", "9", "a", "b", "c", "d", "e", "f"}
	}
	// one library
	for _, f := range feats {
		for _, nc := range nonces {
			out = append(out, c09Case{name: fmt.Sprintf("main->L1 feat=%d hash=%s", f, nc), libs: []c09Lib{{id: 1, feat: f}}, mainImp: [][2]string{{"a1", "l1.tsh"}}, nonce: map[int]string{1: nc}})
		}
		out = append(out, c09Case{name: fmt.Sprintf("main->L1 twice (two aliases) feat=%d", f), libs: []c09Lib{{id: 1, feat: f}}, mainImp: [][2]string{{"a1", "l1.tsh"}, {"b1", "l1.tsh"}}})
		out = append(out, c09Case{name: fmt.Sprintf("main->L1 + std feat=%d", f), libs: []c09Lib{{id: 1, feat: f}}, mainImp: [][2]string{{"a1", "l1.tsh"}}, std: true})
	}
	// a LOCAL file named like a standard library script, next to the real std import
	out = append(out, c09Case{name: "local strings.tsh next to std strings", localStd: true, libs: []c09Lib{{id: 1, feat: fPriv}}, mainImp: [][2]string{{"a1", "l1.tsh"}}, std: true})
	// twins: two files with the same statements (only a comment differs), each with its own state
	for _, f := range []int{fGlobal | fUseGlob, fUnder, fUnder | fPriv | fGlobal | fInit | fUseGlob} {
		out = append(out, c09Case{name: fmt.Sprintf("main->L1, main->L2 (same statements as L1) feat=%d", f), libs: []c09Lib{{id: 1, feat: f}, {id: 2, feat: f, twinOf: 1}}, mainImp: [][2]string{{"a1", "l1.tsh"}, {"a2", "l2.tsh"}}})
	}
	// two libraries: every edge set {main->L1, main->L2, L1->L2} in which every library is reachable
	for _, f1 := range feats {
		for _, f2 := range feats {
			for mask := 1; mask < 8; mask++ {
				m1, m2, e12 := mask&1 != 0, mask&2 != 0, mask&4 != 0
				if !m1 && !(m2 && false) {
					// L1 must be imported by main to be reachable (nothing else imports it)
					if !m1 {
						continue
					}
				}
				if !m2 && !e12 {
					continue // L2 unreachable
				}
				l1 := c09Lib{id: 1, feat: f1}
				if e12 {
					l1.imports = []int{2}
				}
				c := c09Case{name: fmt.Sprintf("2libs mainL1=%v mainL2=%v L1->L2=%v feat=%d,%d", m1, m2, e12, f1, f2), libs: []c09Lib{l1, {id: 2, feat: f2}}}
				if m1 {
					c.mainImp = append(c.mainImp, [2]string{"a1", "l1.tsh"})
				}
				if m2 {
					c.mainImp = append(c.mainImp, [2]string{"a2", "l2.tsh"})
				}
				out = append(out, c)
				if f1 == f2 {
					for _, nc := range nonces[1:] {
						cc := c
						cc.name += " hash=" + nc
						cc.nonce = map[int]string{1: nc, 2: nc}
						out = append(out, cc)
					}
				}
			}
		}
	}
	{
		// three libraries: every DAG over L1 < L2 < L3 (edges Li->Lj, i<j) x every non-empty set of main edges with all libs reachable
		type triple [3]int
		var f3 []triple
		all := fPriv | fGlobal | fInit | fUseGlob | fUnder
		f3 = append(f3, triple{all, all, all}, triple{all | fPub, all | fPub, all | fPub})
		if thorough {
			f3 = nil
			for _, a := range feats {
				for _, b := range feats {
					for _, c := range feats {
						f3 = append(f3, triple{a, b, c})
					}
				}
			}
		}
		for _, ft := range f3 {
			for dag := 0; dag < 8; dag++ {
				e12, e13, e23 := dag&1 != 0, dag&2 != 0, dag&4 != 0
				for mm := 1; mm < 8; mm++ {
					m := [3]bool{mm&1 != 0, mm&2 != 0, mm&4 != 0}
					reach := m
					if reach[0] && e12 {
						reach[1] = true
					}
					if reach[0] && e13 {
						reach[2] = true
					}
					if reach[1] && e23 {
						reach[2] = true
					}
					if !(reach[0] && reach[1] && reach[2]) {
						continue
					}
					l1, l2, l3 := c09Lib{id: 1, feat: ft[0]}, c09Lib{id: 2, feat: ft[1]}, c09Lib{id: 3, feat: ft[2]}
					if e12 {
						l1.imports = append(l1.imports, 2)
					}
					if e13 {
						l1.imports = append(l1.imports, 3)
					}
					if e23 {
						l2.imports = append(l2.imports, 3)
					}
					c := c09Case{name: fmt.Sprintf("3libs dag=%d main=%d feat=%d,%d,%d", dag, mm, ft[0], ft[1], ft[2]), libs: []c09Lib{l1, l2, l3}}
					for i := 0; i < 3; i++ {
						if m[i] {
							c.mainImp = append(c.mainImp, [2]string{fmt.Sprintf("a%d", i+1), fmt.Sprintf("l%d.tsh", i+1)})
						}
					}
					out = append(out, c)
				}
			}
		}
	}
	return out
}

var bashFuncDef = regexp.MustCompile(`(?m)^([A-Za-z_][A-Za-z0-9_]*)\(\) \{$`)

// c09Static: every function defined once; every defined function that is invoked is defined before its first call.
var c09Prefixed = regexp.MustCompile(`^_[0-9a-f]{7}_(.)`)

func c09Static(script string) string {
	defs := map[string]int{}
	lines := strings.Split(script, "\n")
	firstDup := ""
	for i, l := range lines {
		if m := bashFuncDef.FindStringSubmatch(l); m != nil {
			if _, dup := defs[m[1]]; dup {
				// a PUBLIC function (prefix + upper-case name) is de-duplicated by the import machinery even for a
				// file that is reached twice; only private ones fall under the listed finding
				if pm := c09Prefixed.FindStringSubmatch(m[1]); pm != nil && pm[1] >= "A" && pm[1] <= "Z" {
					return "public function " + m[1] + " defined twice"
				}
				if firstDup == "" {
					firstDup = m[1]
				}
			}
			defs[m[1]] = i
		}
	}
	if firstDup != "" {
		return "function " + firstDup + " defined twice"
	}
	depth := 0
	for i, l := range lines {
		if bashFuncDef.MatchString(l) {
			depth++
			continue
		}
		if l == "}" && depth > 0 {
			depth--
			continue
		}
		w := strings.Fields(l)
		if len(w) == 0 || depth > 0 {
			continue // calls inside function bodies run later
		}
		if at, ok := defs[w[0]]; ok && at > i {
			return "function " + w[0] + " invoked at top level before its definition"
		}
	}
	return ""
}

func C09() int {
	r := findings.New("C09")
	defer drive.Cleanup()
	deadline := r.Deadline(6*time.Minute, 30*time.Minute)
	cases := c09Cases(r.Thorough())
	var mu sync.Mutex
	distinct := findings.NewDistinct()
	outcomes := findings.NewDistinct()
	done, undef, capped := 0, 0, false
	illegal := 0
	prefixClasses := map[string]int{}
	drive.Par(len(cases), func(i int) {
		if past(deadline) {
			mu.Lock()
			capped = true
			mu.Unlock()
			return
		}
		c := cases[i]
		progs := map[string]*Prog{}
		files := map[string]string{}
		for _, l := range c.libs {
			name := fmt.Sprintf("l%d.tsh", l.id)
			p := c09LibProgIn(l, c.libs)
			progs[name] = p
			files[name] = c09LibSource(c, l, p)
			h := sha256.Sum256([]byte(files[name]))
			cls := "letter"
			if d := fmt.Sprintf("%x", h[:1])[0]; d >= '0' && d <= '9' {
				cls = "digit"
			}
			mu.Lock()
			prefixClasses[cls]++
			mu.Unlock()
		}
		if c.localStd { // its Contains answers something else than the std one
			lp := &Prog{Stmts: []Stmt{FuncDef{Name: "Contains", Params: []Param{{"s", TStr}, {"sub", TStr}}, Rets: []Type{TStr}, Body: []Stmt{Return{Vals: []Expr{Binary{Op: "+", L: StrLit{V: "mine:"}, R: Var{"sub"}}}}}}}}
			progs["strings.tsh"] = lp
			files["strings.tsh"] = PrintProg(*lp)
		}
		main := c09MainProg(c)
		// the model does not interpret the std library: drop the std line from the model program, re-add its known output
		modelMain := *main
		modelMain.Imports = nil
		for _, im := range main.Imports {
			if im.Path != "strings" {
				modelMain.Imports = append(modelMain.Imports, im)
			}
		}
		modelMain.Stmts = nil
		for _, s := range main.Stmts {
			if _, raw := s.(Raw); raw {
				modelMain.Stmts = append(modelMain.Stmts, Print{Args: []Expr{StrLit{V: "std"}, BoolLit{true}, BoolLit{false}}})
			} else {
				modelMain.Stmts = append(modelMain.Stmts, s)
			}
		}
		loader := func(from, path string) (string, *Prog) { return path, progs[path] }
		in := &Interp{Width: 64, Loader: loader}
		want := in.Run(&modelMain)
		wantIfRerun := ""
		if c09ReachedTwice(c) {
			// what the listed defect (a file reached twice runs its top-level code twice) would print
			wantIfRerun = (&Interp{Width: 64, Loader: loader, RerunImports: true}).Run(&modelMain).Stdout
		}
		src := PrintProg(*main)
		files["main.tsh"] = src
		all := src
		for _, k := range drive.SortedKeys(files) {
			all += "\x00" + k + "\x00" + files[k]
		}
		distinct.Add(all)
		mu.Lock()
		done++
		mu.Unlock()
		if want.Undefined != "" {
			mu.Lock()
			undef++
			mu.Unlock()
			fmt.Printf("note: model skipped %s: %s\n", c.name, want.Undefined)
			return
		}
		outcomes.Add(want.Stdout)
		if i%37 == 0 {
			r.Sample(map[string]string{"kind": "import-graph", "case": c.name, "main": src, "expected": want.Stdout})
		}
		judge := func() (string, string, drive.TResult, drive.RunResult) {
			tr := drive.Transpile(files, "main.tsh", drive.Bash)
			if tr.Panic != "" {
				return "transpiler-panic", firstLine(tr.Panic), tr, drive.RunResult{}
			}
			if !tr.OK() {
				return "rejected", tr.Err, tr, drive.RunResult{}
			}
			if tb := drive.Transpile(files, "main.tsh", drive.Batch); !tb.OK() {
				return "rejected-batch", tb.Err + firstLine(tb.Panic), tr, drive.RunResult{}
			}
			got := runBashStable(tr.Script, drive.RunOpts{})
			switch {
			case got.Runaway != "":
				return "runaway", got.Runaway, tr, got
			case got.Stdout != want.Stdout:
				return "stdout-diff", diffHint(want.Stdout, got.Stdout), tr, got
			case got.Exit != want.Exit:
				return "exit-diff", fmt.Sprint(got.Exit), tr, got
			case got.Stderr != "":
				return "stderr", firstLine(got.Stderr), tr, got
			}
			if st := c09Static(tr.Script); st != "" {
				return "static", st, tr, got
			}
			return "", "", tr, got
		}
		// illegal accesses: the same files with ONE more statement in main that reaches for something the
		// import rules do not expose; every such program must be rejected for both targets
		{
			type bad struct{ what, stmt string }
			var bads []bad
			libByPath := map[string]c09Lib{}
			for _, l := range c.libs {
				libByPath[fmt.Sprintf("l%d.tsh", l.id)] = l
			}
			mainAlias := map[string]bool{}
			for _, mi := range c.mainImp {
				mainAlias[mi[0]] = true
			}
			for _, mi := range c.mainImp {
				l, a := libByPath[mi[1]], mi[0]
				bads = append(bads, bad{"undefined name via alias", "print(" + a + ".Nope())"})
				if l.feat&fPriv != 0 {
					bads = append(bads, bad{"private function via alias", "print(" + a + ".helper())"}, bad{"unused private function via alias", "print(" + a + ".unused())"},
						bad{"imported public function without alias", "print(Wrap())"})
				}
				if l.feat&fUnder != 0 {
					bads = append(bads, bad{"underscore-led function via alias", "print(" + a + "._step())"})
				}
				if l.feat&fInit != 0 {
					bads = append(bads, bad{"private function used by the file's top-level code via alias", "print(" + a + ".boot())"})
				}
				if l.feat&fUseGlob != 0 && l.feat&fGlobal != 0 {
					bads = append(bads, bad{"imported public function without alias", "print(Cnt())"})
				}
				for _, j := range l.imports {
					if d := fmt.Sprintf("d%d", j); !mainAlias[d] {
						bads = append(bads, bad{"alias of an imported file's own import", "print(" + d + ".Get())"})
					}
				}
			}
			bads = append(bads, bad{"unknown alias", "print(zz.Get())"})
			seen := map[string]bool{}
			for _, b := range bads {
				if seen[b.stmt] {
					continue
				}
				seen[b.stmt] = true
				bf := map[string]string{}
				for k, v := range files {
					bf[k] = v
				}
				bf["main.tsh"] = src + b.stmt + "\n"
				for t := 0; t < 2; t++ {
					res := drive.Transpile(bf, "main.tsh", drive.Target(t))
					mu.Lock()
					illegal++
					mu.Unlock()
					if res.Rejected() {
						continue
					}
					sym := "accepted"
					if res.Panic != "" {
						sym = "transpiler-panic"
					}
					b, bf, tg := b, bf, drive.Target(t).String()
					r.Fail("case="+c.name+" illegal="+b.what+" symptom="+sym+"-"+tg, fmt.Sprintf("import graph %s with `%s` (%s): %s for %s", c.name, b.stmt, b.what, sym, tg), func() findings.Replay {
						fs := map[string]string{"detail.txt": b.what + ": " + b.stmt + "\n"}
						for k, v := range bf {
							fs["src/"+k] = v
						}
						return findings.Replay{Files: fs, Script: transpileOnlyReplay()}
					})
				}
			}
		}
		sym, detail, tr, got := judge()
		if sym == "" {
			return
		}
		sym2, _, tr2, got2 := judge()
		if (sym2 != sym || got2.Stdout != got.Stdout) && tr2.Script != tr.Script {
			atomic.AddInt64(&HistoryDependent, 1) // another script for the same files on the re-run: C14's subject
			return
		}
		if sym2 != sym || got2.Stdout != got.Stdout {
			if sym3, _, _, _ := judge(); sym == "runaway" && sym2 == "" && sym3 == "" {
				atomic.AddInt64(&TransientKills, 1) // a sandbox kill on an overloaded machine that did not repeat
				return
			}
			panic("HARNESS ERROR: c09 replay differs for " + c.name)
		}
		key := "case=" + c.name + " symptom=" + sym
		r.Fail(c09KnownKeyD(c, sym, detail, want.Stdout, wantIfRerun, got, key), fmt.Sprintf("import graph %s: %s (%s)", c.name, sym, detail), func() findings.Replay {
			fs := map[string]string{"expected.txt": want.Stdout + fmt.Sprintf("exit=%d\n", want.Exit), "actual.txt": got.Stdout + fmt.Sprintf("exit=%d\n", got.Exit), "stderr.txt": got.Stderr, "script.sh": tr.Script}
			for k, v := range files {
				fs["src/"+k] = v
			}
			return findings.Replay{Files: fs, Script: repoTshReplay("bash")}
		})
	})
	var pc []string
	for k, n := range prefixClasses {
		pc = append(pc, fmt.Sprintf("%s=%d", k, n))
	}
	sort.Strings(pc)
	r.Set("hash_prefix_first_char", pc)
	// every program of the reduced cross-feature space AS AN IMPORTED FILE: its top-level code, globals and the
	// functions only that code calls must work behind an import boundary exactly as they do in a main file
	xAsLib := 0
	{
		xs := crossReduced(false)
		mainProg := &Prog{Imports: []Import{{Alias: "lb", Path: "lib.tsh"}}, Stmts: []Stmt{Print{Args: []Expr{StrLit{V: "main done"}}}}}
		drive.Par(len(xs), func(i int) {
			if past(deadline) {
				mu.Lock()
				capped = true
				mu.Unlock()
				return
			}
			cp := xs[i]
			if cp.nStmts != 1 && !r.Thorough() {
				return // quick: the single statements in every context; thorough: also the pairs inside a function
			}
			libSrc := PrintProg(*cp.prog)
			o := ProgOpts{Files: map[string]string{"lib.tsh": libSrc}, Loader: func(from, path string) (string, *Prog) { return path, cp.prog }}
			pv := JudgeBash(mainProg, o)
			mu.Lock()
			done++
			xAsLib++
			mu.Unlock()
			distinct.Add("lib:" + libSrc)
			if pv.Symptom == "" || pv.Symptom == "undefined" {
				return
			}
			pv = confirm(mainProg, o, pv)
			if pv.Symptom == "" {
				return
			}
			r.Fail("cross-as-imported-file: "+cp.name+" symptom="+pv.Symptom, fmt.Sprintf("cross-feature program [%s] as an imported file: %s (%s)", cp.name, pv.Symptom, pv.Detail), progReplay(pv, map[string]string{"lib.tsh": libSrc}))
		})
	}
	r.Set("cross_programs_as_imported_file", xAsLib)
	r.Set("evaluations", done)
	r.Set("distinct_nontrivial", distinct.Len())
	r.Set("distinct_expected_outputs", outcomes.Len())
	r.Set("skipped_undefined", undef)
	r.Set("illegal_access_programs_judged", illegal)
	r.Set("exhaustive", !capped)
	r.Set("rule", "every import graph over main + up to 2 library files (3 in thorough: every DAG x every set of main edges with all files reachable), each library drawn from feature combinations {public func, private func + public wrapper + unused func, global + top-level code, top-level call of own function, public func reading own global, func calling into own import}, equal names (Get, helper, Wrap) in every file and in main, a file imported under two aliases, std strings mixed in, and content-hash prefixes steered to start with a digit / a letter (every hex digit in thorough). Oracle: the reference interpreter's module semantics (each file's top-level code once, in dependency order); bash stdout/exit/stderr must match; static scan: no function defined twice or invoked at top level before its definition; the Batch target must accept the same files; and for every graph, main extended by one illegal access (private, underscore-led, undefined or unaliased name, alias of a file's own import, unknown alias) must be rejected for both targets. Plus every program of the reduced cross-feature space (cross.go) as an imported file. Distinct by the set of file contents.")
	r.Assumef("the std library is not interpreted by the model; its one call has a fixed expected value")
	return finish(r)
}

// c09KnownKey maps a failing case to the key of a listed root cause when the failure has exactly
// that cause's shape; otherwise the exact per-case key is kept.
// c09ReachedTwice reports whether some file of the case is imported more than once
// (under two aliases, or along two import paths).
func c09ReachedTwice(c c09Case) bool {
	paths := map[string]int{}
	for _, mi := range c.mainImp {
		paths[mi[1]]++
	}
	for _, l := range c.libs {
		for _, j := range l.imports {
			paths[fmt.Sprintf("l%d.tsh", j)]++
		}
	}
	for _, n := range paths {
		if n > 1 {
			return true
		}
	}
	return false
}

func c09KnownKey(c c09Case, sym, want, wantIfRerun string, got drive.RunResult, exact string) string {
	return c09KnownKeyD(c, sym, "", want, wantIfRerun, got, exact)
}

func c09KnownKeyD(c c09Case, sym, detail, want, wantIfRerun string, got drive.RunResult, exact string) string {
	twice := c09ReachedTwice(c)
	diamond := twice
	if (twice || diamond) && sym == "stdout-diff" && (c09OnlyDuplicatedTopLevel(want, got.Stdout) || got.Stdout == wantIfRerun) {
		return "region=file-reached-twice-runs-its-top-level-code-twice symptom=stdout-diff"
	}
	if (twice || diamond) && sym == "static" && !strings.HasPrefix(detail, "public function") {
		return "region=file-reached-twice-private-function-emitted-twice symptom=static"
	}
	return exact
}

// c09OnlyDuplicatedTopLevel: got equals want except that some topN/initN lines occur more often.
func c09OnlyDuplicatedTopLevel(want, got string) bool {
	w := strings.Split(strings.TrimRight(want, "\n"), "\n")
	g := strings.Split(strings.TrimRight(got, "\n"), "\n")
	i := 0
	extra := 0
	for _, l := range g {
		if i < len(w) && l == w[i] {
			i++
			continue
		}
		if strings.HasPrefix(l, "top") || strings.HasPrefix(l, "init") {
			extra++
			continue
		}
		return false
	}
	return i == len(w) && extra > 0
}

package checks

import (
	"fmt"
	"regexp"
	"sort"
	"strings"
	"sync"
	"time"

	"verif/cmdmodel"
	"verif/drive"
	"verif/findings"
)

func init() { Registry["C10"] = C10 }

// corpus programs with identifier roles written as @kind:default@
type c10Prog struct {
	name  string
	text  string
	files map[string]string // further files of the program (reached from the main file); may contain role holes too
	// group "base": the eight programs of rounds 1-6, every role of which takes every name harvested from any
	// program of the group. Every other program takes the names harvested from its OWN two scripts.
	own   bool
	stdin string            // standard input of the Bash run (input())
	box   map[string]string // files that exist in the working directory before the run
	// lax: the default-named program may end with a non-zero status / write to stderr (panic) and the Batch
	// run may be outside the cmd.exe model (set /p, external programs); the Bash run must still end normally
	lax bool
}

// c10Files renders the further files of a program (nil renaming = default names).
func c10Files(p c10Prog, ren map[string]string) map[string]string {
	if len(p.files) == 0 {
		return nil
	}
	out := map[string]string{}
	for k, v := range p.files {
		out[k] = c10Render(v, ren)
	}
	return out
}

// c10AllText is the main file followed by the further files in the order of their names (role discovery).
func c10AllText(p c10Prog) string {
	t := p.text
	for _, k := range drive.SortedKeys(p.files) {
		t += "\n" + p.files[k]
	}
	return t
}

func c10Transpile(src string, files map[string]string, t drive.Target) drive.TResult {
	if len(files) == 0 {
		return drive.TranspileSrc(src, t)
	}
	all := map[string]string{"main.tsh": src}
	for k, v := range files {
		all[k] = v
	}
	return drive.Transpile(all, "main.tsh", t)
}

var c10Corpus = []c10Prog{
	{name: "scalars-loops", text: `@global:alpha@ := 3
@global:beta@ := 4
for @loop:idx@ := 0; @loop:idx@ < 3; @loop:idx@++ {
	@global:alpha@ += @loop:idx@ * @global:beta@
	if @global:alpha@ > 10 && @loop:idx@ != 1 {
		print("big", @global:alpha@)
	} else {
		print("small", @global:alpha@, @loop:idx@)
	}
}
@global:gamma@ := "s" + itoa(@global:alpha@)
print(@global:alpha@, @global:beta@, @global:gamma@, @global:alpha@ % 5 == 1)
`},
	{name: "functions", text: `@global:total@ := 10
func @func:addup@(@param:left@ int, @param:right@ int) int {
	@local:sum@ := @param:left@ + @param:right@
	@global:total@ += @local:sum@
	return @local:sum@ * 2
}
func @func:twice@(@param:val@ int) (int, int) {
	@local:first@ := @func:addup@(@param:val@, 1)
	@local:second@ := @func:addup@(@local:first@, @param:val@)
	return @local:first@, @local:second@
}
@global:one@, @global:two@ := @func:twice@(5)
print(@global:one@, @global:two@, @global:total@)
@global:one@, @global:two@ = @global:two@, @global:one@
print(@global:one@, @global:two@, @func:addup@(@func:addup@(1, 2), @global:total@))
`},
	{name: "slices", text: `@global:items@ := []int{5, 6, 7}
@global:items@[5] = 9
@global:other@ := []int{}
@global:count@ := copy(@global:other@, @global:items@)
func @func:fill@(@param:target@ []int, @param:pos@ int) {
	@param:target@[@param:pos@] = @param:pos@ * 11
}
@func:fill@(@global:other@, 1)
@func:fill@(@global:other@, 7)
for @range:key@, @range:elem@ := range @global:other@ {
	print(@range:key@, @range:elem@)
}
print(@global:count@, len(@global:items@), len(@global:other@), @global:items@[1])
@global:words@ := []string{"a", "b"}
@global:words@[2] = "c"
print(len(@global:words@), @global:words@[0] + @global:words@[2])
`},
	{name: "strings", text: `@global:text@ := "hello world"
@global:part@ := @global:text@[0:5]
@global:char@ := @global:text@[6]
func @func:tail@(@param:src@ string, @param:from@ int) string {
	@local:rest@ := @param:src@[@param:from@:]
	return @local:rest@ + "!"
}
print(@global:part@, @global:char@, len(@global:text@), @func:tail@(@global:text@, 6))
for @range:at@, @range:ch@ := range @global:part@ {
	if @range:ch@ == "l" {
		print("l at", @range:at@)
	}
}
print(@global:text@[:2] + @global:text@[9:], @global:part@ == "hello", @global:char@ != "w")
`},
	{name: "switch-output", text: `func @func:show@(@param:msg@ string) {
	print("show", @param:msg@)
}
@global:level@ := 2
switch @global:level@ {
case 1:
	@func:show@("one")
case 2:
	@func:show@("two")
default:
	@func:show@("many")
}
@global:flag@ := !(@global:level@ == 3)
for @global:flag@ {
	@global:level@++
	@global:flag@ = @global:level@ < 4
	print("level", @global:level@)
}
@func:show@("done")
print("end", @global:level@, @global:flag@)
`},
}

func init() {
	// the same spelling used in different scopes (locals of two functions on one call chain, and a
	// global defined after both): a renaming changes all of them consistently
	c10Corpus = append(c10Corpus, c10Prog{name: "shared-spelling", text: `func @func:inner@(@param:seed@ int) int {
	@local:count@ := @param:seed@ + 3
	@local:count@ += 1
	return @local:count@ * 2
}
func @func:outer@(@param:seed@ int) int {
	@local:count@ := 5
	@local:extra@ := @func:inner@(@local:count@ + @param:seed@)
	@local:count@ += @local:extra@
	return @local:count@
}
@global:result@ := @func:outer@(1)
@local:count@ := 100
@global:result@ += @func:outer@(2) + @local:count@
@local:count@++
print(@global:result@, @local:count@, @func:inner@(0))
`})
}

func init() {
	// a program with an imported file: the names the import machinery derives for the file's public and
	// private functions and variables (<prefix>_<name>) are harvested like every other emitted name
	c10Corpus = append(c10Corpus, c10Prog{name: "imported-file", text: `import lib "lib.tsh"

func @func:wrap@(@param:val@ int) int {
	@local:part@ := lib.Compute(@param:val@)
	return @local:part@ + 1
}
@global:total@ := @func:wrap@(3)
@global:hidden@ := 100
print("total", @global:total@, lib.Compute(1), lib.Compute(99), @global:hidden@)
`, files: map[string]string{"lib.tsh": `var Limit int = 40
var hidden int = 7

func helper(v int) int {
	return v + hidden
}

func Compute(v int) int {
	if v > Limit {
		return Limit
	}
	return helper(v) * 2
}
`}})
}

func init() {
	// simultaneous assignments among the locals and parameters of a function, with other locals read later
	// (buffers and temporaries of the back-ends live next to the function's own names)
	c10Corpus = append(c10Corpus, c10Prog{name: "swap-in-function", text: `func @func:rotate@(@param:first@ int, @param:second@ int) int {
	@local:base@ := 100
	@local:spare@ := 7
	@param:first@, @param:second@ = @param:second@, @param:first@
	@local:spare@, @param:first@, @param:second@ = @param:first@, @param:second@, @local:spare@
	return @local:base@ + @param:first@ * 10 + @param:second@ + @local:spare@
}
func @func:getTotal@() int {
	return @func:rotate@(1, 2) + 1
}
func @func:fetch@() int {
	return @func:getTotal@() * 2
}
print(@func:rotate@(3, 4), @func:getTotal@(), @func:fetch@())
`})
}

var c10Hole = regexp.MustCompile(`@([a-z]+):([A-Za-z0-9_]+)@`)

func c10Roles(text string) [][2]string { // (kind, default name), in order of first occurrence
	var out [][2]string
	seen := map[string]bool{}
	for _, m := range c10Hole.FindAllStringSubmatch(text, -1) {
		if !seen[m[2]] {
			seen[m[2]] = true
			out = append(out, [2]string{m[1], m[2]})
		}
	}
	return out
}

func c10Render(text string, ren map[string]string) string {
	return c10Hole.ReplaceAllStringFunc(text, func(h string) string {
		m := c10Hole.FindStringSubmatch(h)
		if n, ok := ren[m[2]]; ok {
			return n
		}
		return m[2]
	})
}

var (
	bashNames = []*regexp.Regexp{
		regexp.MustCompile(`(?m)^\s*(?:local\s+)?([A-Za-z_][A-Za-z0-9_]*)=`),
		regexp.MustCompile(`\$\{#?([A-Za-z_][A-Za-z0-9_]*)`),
		regexp.MustCompile(`(?m)^([A-Za-z_][A-Za-z0-9_]*)\(\) \{`),
		regexp.MustCompile(`\(\(([A-Za-z_][A-Za-z0-9_]*)=`),
		regexp.MustCompile(`(?m)^\s*(?:read(?: -p "[^"]*")?|local)\s+([A-Za-z_][A-Za-z0-9_]*)`),
	}
	batchNames = []*regexp.Regexp{
		regexp.MustCompile(`(?i)set\s+(?:/A\s+)?"?([A-Za-z_][A-Za-z0-9_]*)=`),
		regexp.MustCompile(`!([A-Za-z_][A-Za-z0-9_]*)[:!]`),
		regexp.MustCompile(`%([A-Za-z_][A-Za-z0-9_]*)%`),
		regexp.MustCompile(`(?m)^:([A-Za-z_][A-Za-z0-9_]*)`),
		regexp.MustCompile(`(?i)(?:call|goto)\s+:([A-Za-z_][A-Za-z0-9_]*)`),
		regexp.MustCompile(`(?i)if\s+defined\s+([A-Za-z_][A-Za-z0-9_]*)`),
	}
)

var c10ShellVocabulary = []string{"_", "__", "echo", "eval", "local", "read", "cat", "exit", "test", "printf", "set", "unset", "true", "false", "done", "fi", "then", "do",
	"PATH", "IFS", "HOME", "PWD", "RANDOM", "SECONDS", "LINENO", "UID", "BASH", "OSTYPE", "REPLY", "OPTIND", "PS1", "errorlevel", "ERRORLEVEL", "LF", "end", "OS", "TIME", "DATE", "CD", "call", "goto", "rem", "setlocal", "endlocal", "nul", "con"}

// normName strips numbering so that renumbering helpers does not change finding keys.
var c10Digits = regexp.MustCompile(`[0-9]+`)

func c10Harvest(script string, res []*regexp.Regexp, user map[string]bool, into map[string]bool) {
	for _, re := range res {
		for _, m := range re.FindAllStringSubmatch(script, -1) {
			if !user[m[1]] {
				into[m[1]] = true
			}
		}
	}
}

type c10Obs struct {
	class  string // ok, rejected, unmodelled, broken
	stdout string
	exit   int
	stderr string
}

// c10RunBash: confirmKill - a run the sandbox killed is repeated once under the doubled limit before it is believed
// (a listed cell needs no such care: its verdict is the same either way).
func c10RunBash(p c10Prog, src string, files map[string]string, confirmKill bool) c10Obs {
	tr := c10Transpile(src, files, drive.Bash)
	if tr.Panic != "" {
		return c10Obs{class: "panic", stderr: firstLine(tr.Panic)}
	}
	if !tr.OK() {
		return c10Obs{class: "rejected", stderr: tr.Err}
	}
	// the corpus programs need 20-90 ms CPU; 2 s of CPU time is a > 20x margin and load-independent. A renaming that
	// makes a loop endless (a counter spelled like a read-only shell variable) costs that much each time
	got := drive.RunBash(tr.Script, drive.RunOpts{CPUSecs: 2, Backstop: 90 * time.Second, OutputCap: 64 << 10, Stdin: p.stdin, Files: p.box, Env: c10InheritedEnv})
	if got.Runaway != "" && confirmKill {
		got = drive.RunBash(tr.Script, drive.RunOpts{CPUSecs: 4, Backstop: 120 * time.Second, OutputCap: 64 << 10, Stdin: p.stdin, Files: p.box, Env: c10InheritedEnv})
	}
	if got.Runaway != "" {
		return c10Obs{class: "runaway", stdout: ""}
	}
	return c10Obs{class: "ok", stdout: got.Stdout, exit: got.Exit, stderr: c10Stderr(got.Stderr)}
}

// c10RuntimeNames lists the variables that exist when the script ends (EXIT trap, so a panic is covered as well),
// without those in skip.
func c10RuntimeNames(p c10Prog, script string, skip map[string]bool) []string {
	const marker = "__c10_variable_table__"
	got := drive.RunBash("trap 'echo; echo "+marker+"; compgen -v' EXIT\n"+script, drive.RunOpts{CPUSecs: 4, OutputCap: 256 << 10, Stdin: p.stdin, Files: p.box})
	i := strings.LastIndex(got.Stdout, marker+"\n")
	if got.Runaway != "" || i < 0 {
		return nil
	}
	var out []string
	for _, n := range strings.Fields(got.Stdout[i+len(marker):]) {
		if c10Ident.MatchString(n) && !skip[n] {
			out = append(out, n)
		}
	}
	return out
}

// bash prefixes its own messages with the path of the script, which differs from run to run
var c10ScriptPath = regexp.MustCompile(`(?m)^/\S*/script\.sh: `)

func c10Stderr(s string) string { return c10ScriptPath.ReplaceAllString(s, "script.sh: ") }

func c10RunBatch(p c10Prog, src string, files map[string]string) c10Obs {
	tr := c10Transpile(src, files, drive.Batch)
	if tr.Panic != "" {
		return c10Obs{class: "panic", stderr: firstLine(tr.Panic)}
	}
	if !tr.OK() {
		return c10Obs{class: "rejected", stderr: tr.Err}
	}
	fs := map[string]string{}
	for k, v := range p.box {
		fs[k] = v
	}
	res := cmdmodel.Run(tr.Script, cmdmodel.Options{MaxSteps: 600000, Files: fs, External: c10External})
	if res.Unmodelled == "step budget" {
		return c10Obs{class: "runaway"}
	}
	if res.Unmodelled != "" {
		return c10Obs{class: "unmodelled", stderr: res.Unmodelled}
	}
	return c10Obs{class: "ok", stdout: strings.ReplaceAll(res.Stdout, "\r\n", "\n"), exit: res.Exit, stderr: res.Error}
}

var c10SourceIdent = regexp.MustCompile(`[A-Za-z_][A-Za-z0-9_]*`)

func c10Values(m map[string]string) []string {
	var out []string
	for _, k := range drive.SortedKeys(m) {
		out = append(out, m[k])
	}
	return out
}

// c10Cand is one spelling offered to a role; only = "" (both targets), "bash" or "batch"
type c10Cand struct {
	name string
	only string
}

// c10Universe: the harvested names, the names shaped like them, the shell/cmd vocabulary and the complete lists
// of the variables the two shells own.
func c10Universe(harvested map[string]bool, bashVars []string) []c10Cand {
	set := map[string]string{}
	var hs []string
	for n := range harvested {
		hs = append(hs, n)
	}
	sort.Strings(hs)
	for _, n := range hs {
		set[n] = ""
		// names SHAPED like the reserved ones: every family (digits stripped) extended by letters / digits+letters
		fam := c10Digits.ReplaceAllString(n, "")
		if strings.HasPrefix(fam, "_") || strings.Contains(fam, "_") {
			set[fam+"its"] = ""
			set[fam+"7x"] = ""
		}
	}
	for _, v := range c10ShellVocabulary {
		set[v] = ""
	}
	for _, v := range bashVars {
		if _, ok := set[v]; !ok {
			set[v] = "bash" // a name only Bash knows; the ones cmd.exe knows too follow
		}
	}
	for _, v := range c10CmdVariables {
		if o, ok := set[v]; !ok {
			set[v] = "batch"
		} else if o == "bash" {
			set[v] = ""
		}
	}
	var out []c10Cand
	for _, n := range drive.SortedKeys(set) {
		out = append(out, c10Cand{n, set[n]})
	}
	return out
}

// roles whose variable lives at the top level of a file
var c10TopLevelVariable = map[string]bool{"global": true, "loop": true, "range": true, "impglobal": true, "pubglobal": true}

// c10Legal: which spellings the LANGUAGE allows a role to take without giving the program another meaning. A
// top-level name of an imported file is exported iff its first letter is upper case: a private one stays private, a
// public one stays public. Everywhere else the language attaches no meaning to the spelling.
func c10Legal(kind, name string) bool {
	upper := name[0] >= 'A' && name[0] <= 'Z'
	switch kind {
	case "impglobal", "impfunc":
		return !upper
	case "pubglobal", "pubfunc":
		return upper
	}
	return true
}

// c10Spellings: the role's own default name in the shapes no generator had varied: underscore-led, doubly
// underscore-led, underscore-tailed, an underscore inside, first letter in the other case, all upper case.
func c10Spellings(d string) []string {
	first := strings.ToUpper(d[:1])
	if first == d[:1] {
		first = strings.ToLower(d[:1])
	}
	return []string{"_" + d, "__" + d, d + "_", d[:1] + "_" + d[1:], first + d[1:], strings.ToUpper(d), "_" + strings.ToUpper(d[:1]) + d[1:]}
}

func C10() int {
	r := findings.New("C10")
	defer drive.Cleanup()
	deadline := r.Deadline(10*time.Minute, 40*time.Minute)
	if missing := c10FacilityGaps(c10Corpus); len(missing) > 0 {
		fmt.Printf("HARNESS ERROR: the corpus has no program for: %s\n", strings.Join(missing, "; "))
		return 2
	}
	if only := getenv("C10_ONLY"); only != "" { // development aid: one corpus program (the evidence says so)
		var keep []c10Prog
		for _, p := range c10Corpus {
			if p.name == only {
				keep = append(keep, p)
			}
		}
		c10Corpus = keep
		r.Assumef("C10_ONLY=%s: only this corpus program was run", only)
	}
	bashVars, extra := c10InstalledShellVariables()
	r.Set("names_bash_shell_variables", len(bashVars))
	r.Set("names_bash_shell_variables_only_the_installed_shell_knows", extra)
	r.Set("names_cmd_variables", len(c10CmdVariables))
	// 1. base runs and harvest of the names the back-ends reserve today
	reserved := map[string]bool{} // union over the base group
	own := map[string]map[string]bool{}
	base := map[string][2]c10Obs{}
	composed := map[string]bool{}
	shellOwn := map[string]bool{}
	for _, n := range c10RuntimeNames(c10Prog{}, "", nil) {
		shellOwn[n] = true
	}
	for _, p := range c10Corpus {
		src, files := c10Render(p.text, nil), c10Files(p, nil)
		// what the user wrote: every identifier of the source files (roles and the identifiers that are never renamed)
		// (the base group has no such identifier in its main files; its harvest stays as it was)
		user := map[string]bool{}
		for _, rl := range c10Roles(c10AllText(p)) {
			user[rl[1]] = true
		}
		if p.own {
			for _, t := range append([]string{src}, c10Values(files)...) {
				for _, id := range c10SourceIdent.FindAllString(t, -1) {
					user[id] = true
				}
			}
		}
		b, w := c10RunBash(p, src, files, true), c10RunBatch(p, src, files)
		bad := b.class != "ok" || (w.class != "ok" && !(p.lax && w.class == "unmodelled")) || (w.class == "ok" && (b.stdout != w.stdout || b.exit != w.exit))
		if !p.lax && (b.stderr != "" || b.exit != 0 || w.stderr != "") {
			bad = true
		}
		if bad {
			fmt.Printf("HARNESS ERROR: corpus program %s does not run cleanly with its default names (bash: %s %q exit %d / batch: %s %q exit %d)\n", p.name, b.class, b.stderr, b.exit, w.class, w.stderr, w.exit)
			return 2
		}
		base[p.name] = [2]c10Obs{b, w}
		tb := c10Transpile(src, files, drive.Bash)
		tw := c10Transpile(src, files, drive.Batch)
		into := reserved
		if p.own {
			into = map[string]bool{}
			own[p.name] = into
		}
		c10Harvest(tb.Script, bashNames, user, into)
		c10Harvest(tw.Script, batchNames, user, into)
		// names the script COMPOSES at run time never stand in its text: every variable that exists when the
		// default-named Bash script ends and that the shell did not bring along is reserved too
		for _, n := range c10RuntimeNames(p, tb.Script, shellOwn) {
			if !user[n] && !into[n] {
				into[n] = true
				composed[n] = true
			}
		}
	}
	names := c10Universe(reserved, bashVars)
	r.Set("reserved_names_harvested_from_emitted_scripts", len(reserved))
	r.Set("reserved_names_total", len(names))
	r.Set("reserved_names_found_only_in_the_variable_table_of_the_finished_bash_run", drive.SortedKeys(composed))
	var flat []string
	for _, c := range names {
		flat = append(flat, c.name)
	}
	r.Set("reserved_names", flat)
	// 2. renamings
	type variant struct {
		prog    c10Prog
		ren     map[string]string
		desc    string
		keyBase string
		only    string
	}
	var vs []variant
	shellVar, oldVocabulary := map[string]bool{}, map[string]bool{}
	for _, v := range bashVars {
		shellVar[v] = true
	}
	for _, v := range c10CmdVariables {
		shellVar[v] = true
	}
	for _, v := range c10ShellVocabulary {
		oldVocabulary[v] = true
	}
	skippedQuick := 0
	perProg := map[string]int{}
	ownNames := map[string]int{}
	for _, p := range c10Corpus {
		roles := c10Roles(c10AllText(p))
		taken := map[string]bool{}
		for _, rl := range roles {
			taken[rl[1]] = true
		}
		universe := names
		if p.own {
			universe = c10Universe(own[p.name], bashVars)
			ownNames[p.name] = len(universe)
		}
		for _, rl := range roles {
			cands := append([]c10Cand{}, universe...)
			// case twins of the other identifiers of the same program
			for _, other := range roles {
				if other[1] != rl[1] {
					cands = append(cands, c10Cand{strings.ToUpper(other[1]), ""}, c10Cand{strings.ToUpper(other[1][:1]) + other[1][1:], ""})
				}
			}
			// the concatenation of two other identifiers (tables keyed by joined names must not confuse
			// `get`+`Total` with `getTotal`): a function's name followed by any other identifier
			for _, a := range roles {
				for _, b := range roles {
					if strings.HasSuffix(a[0], "func") && a[1] != rl[1] && b[1] != rl[1] {
						cands = append(cands, c10Cand{a[1] + b[1], ""})
					}
				}
			}
			// the role's own name in other shapes
			for _, sp := range c10Spellings(rl[1]) {
				cands = append(cands, c10Cand{sp, ""})
			}
			offered := map[string]bool{}
			for _, c := range cands {
				nn := c.name
				if taken[nn] || offered[nn] || !c10Legal(rl[0], nn) {
					continue
				}
				// quick tier: what a shell variable's name does to a role of every KIND is decided on the base group
				// (every role x every shell variable); the added programs exist for facility x name, which needs a
				// variable of the program's top level - their other roles take the shell variables in thorough
				if p.own && !r.Thorough() && shellVar[nn] && !oldVocabulary[nn] && !c10TopLevelVariable[rl[0]] {
					skippedQuick++
					continue
				}
				offered[nn] = true
				key := fmt.Sprintf("role=%s name=%s", rl[0], c10Digits.ReplaceAllString(nn, "N"))
				for t := range taken {
					if t != rl[1] && t != nn && strings.EqualFold(t, nn) {
						key = fmt.Sprintf("role=%s name=case-twin-of-another-identifier", rl[0])
					}
				}
				vs = append(vs, variant{p, map[string]string{rl[1]: nn}, fmt.Sprintf("%s: %s %s -> %s", p.name, rl[0], rl[1], nn), key, c.only})
				perProg[p.name]++
			}
		}
		if r.Thorough() {
			// pairs: two roles renamed to two reserved names from the most collision-prone families
			fam := []string{}
			for _, n := range universe {
				if strings.HasPrefix(n.name, "_") && len(fam) < 14 {
					fam = append(fam, n.name)
				}
			}
			for i := 0; i < len(roles); i++ {
				for j := i + 1; j < len(roles); j++ {
					for _, a := range fam {
						for _, b := range fam {
							if a != b && c10Legal(roles[i][0], a) && c10Legal(roles[j][0], b) {
								vs = append(vs, variant{p, map[string]string{roles[i][1]: a, roles[j][1]: b}, fmt.Sprintf("%s: %s %s -> %s, %s %s -> %s", p.name, roles[i][0], roles[i][1], a, roles[j][0], roles[j][1], b),
									fmt.Sprintf("pair roles=%s+%s names=%s+%s", roles[i][0], roles[j][0], c10Digits.ReplaceAllString(a, "N"), c10Digits.ReplaceAllString(b, "N")), ""})
							}
						}
					}
				}
			}
		}
	}
	var mu sync.Mutex
	distinct := findings.NewDistinct()
	done, capped := 0, false
	outcome := map[string]int{}
	wallBash, wallBatch, runaways := map[string]float64{}, map[string]float64{}, map[string]int{}
	drive.Par(len(vs), func(i int) {
		if past(deadline) {
			mu.Lock()
			capped = true
			mu.Unlock()
			return
		}
		v := vs[i]
		src, files := c10Render(v.prog.text, v.ren), c10Files(v.prog, v.ren)
		dk := src
		for _, k := range drive.SortedKeys(files) {
			dk += "\x00" + files[k]
		}
		distinct.Add(dk)
		var obs [2]c10Obs
		t0 := time.Now()
		if v.only != "batch" {
			obs[0] = c10RunBash(v.prog, src, files, !r.IsKnown(v.keyBase+" target=bash symptom=behaviour-changed"))
		}
		t1 := time.Now()
		if v.only != "bash" {
			obs[1] = c10RunBatch(v.prog, src, files)
		}
		mu.Lock()
		done++
		wallBash[v.prog.name] += t1.Sub(t0).Seconds()
		wallBatch[v.prog.name] += time.Since(t1).Seconds()
		mu.Unlock()
		if i%499 == 0 {
			r.Sample(map[string]string{"kind": "renaming", "case": v.desc, "bash": obs[0].class, "batch": obs[1].class})
		}
		for t, tg := range []string{"bash", "batch"} {
			if v.only != "" && v.only != tg {
				mu.Lock()
				outcome[tg+":name-of-the-other-shell-not-run"]++
				mu.Unlock()
				continue
			}
			o, b := obs[t], base[v.prog.name][t]
			sym := ""
			switch {
			case o.class == "rejected":
				mu.Lock()
				outcome[tg+":rejected-with-error"]++
				mu.Unlock()
				continue
			case o.class == "panic":
				sym = "transpiler-panic"
			case b.class == "unmodelled":
				// the default-named program is outside the cmd.exe model (set /p, external programs): nothing to compare
				mu.Lock()
				outcome[tg+":default-named-program-unmodelled"]++
				mu.Unlock()
				continue
			case o.class == "unmodelled":
				mu.Lock()
				outcome[tg+":unmodelled"]++
				mu.Unlock()
				continue
			case o.class == "runaway":
				sym = "runaway"
			case o.stdout != b.stdout:
				sym = "output-differs"
			case o.exit != b.exit:
				sym = "exit-differs"
			case o.stderr != b.stderr:
				sym = "stderr"
			}
			if sym == "" {
				mu.Lock()
				outcome[tg+":unchanged"]++
				mu.Unlock()
				continue
			}
			mu.Lock()
			outcome[tg+":changed"]++
			if sym == "runaway" {
				outcome[tg+":changed-of-which-runaway"]++
				runaways[v.prog.name]++
			}
			mu.Unlock()
			// confirm determinism (not for a listed cell: the run only adds a word to the description)
			var again c10Obs
			if key := v.keyBase + " target=" + tg + " symptom=behaviour-changed"; r.IsKnown(key) {
				r.Fail(key, fmt.Sprintf("%s [%s]: %s (%s)", v.desc, tg, sym, diffHint(b.stdout, o.stdout)), nil)
				continue
			}
			if sym == "runaway" {
				again = o // a killed run was repeated already; its cut-off output means nothing
			} else if t == 0 {
				again = c10RunBash(v.prog, src, files, true)
			} else {
				again = c10RunBatch(v.prog, src, files)
			}
			if again.class != o.class || (o.class == "ok" && again.stdout != o.stdout) {
				// e.g. a variable renamed to RANDOM or SECONDS: the behaviour changed AND became
				// run-dependent; it is a harness problem only if the repeat equals the base again.
				// (a repeat may even equal the base run: SECONDS only moves at second boundaries)
				sym += "+nondeterministic"
			}
			r.Fail(v.keyBase+" target="+tg+" symptom=behaviour-changed", fmt.Sprintf("%s [%s]: %s (%s)", v.desc, tg, sym, diffHint(b.stdout, o.stdout)), func() findings.Replay {
				m := map[string]string{"src/main.tsh": src, "base/main.tsh": c10Render(v.prog.text, nil), "expected.txt": b.stdout + fmt.Sprintf("exit=%d\n", b.exit), "expected_stderr.txt": b.stderr,
					"actual.txt": o.stdout + fmt.Sprintf("exit=%d\n", o.exit), "stderr.txt": o.stderr, "stdin.txt": v.prog.stdin, "detail.txt": v.desc + "\n"}
				for k, c := range files {
					m["src/"+k] = c
				}
				for k, c := range c10Files(v.prog, nil) {
					m["base/"+k] = c
				}
				for k, c := range v.prog.box {
					m["box/"+k] = c
				}
				return findings.Replay{Files: m, Script: c10Replay()}
			})
		}
	})
	var oc []string
	for k, n := range outcome {
		oc = append(oc, fmt.Sprintf("%s=%d", k, n))
	}
	sort.Strings(oc)
	r.Set("outcomes", oc)
	if getenv("C10_PROFILE") != "" {
		for _, p := range c10Corpus {
			fmt.Printf("PROFILE %-30s renamings %5d  bash %7.1f s  batch %7.1f s (wall, summed over workers) runaways %d\n", p.name, perProg[p.name], wallBash[p.name], wallBatch[p.name], runaways[p.name])
		}
	}
	r.Set("corpus_programs", len(c10Corpus))
	r.Set("renamings_per_program", perProg)
	r.Set("renamings_left_to_thorough_shell_variable_x_function_level_role_of_an_added_program", skippedQuick)
	r.Set("names_offered_to_a_program_of_its_own_harvest", ownNames)
	r.Set("facilities_each_present_at_top_level_and_inside_a_function", c10FacilityNames())
	r.Set("evaluations", done)
	r.Set("distinct_nontrivial", distinct.Len())
	r.Set("exhaustive", !capped)
	if capped {
		r.Set("cap_hit", "internal deadline")
	}
	r.Assumef("every Bash run inherits an environment of ordinary session variables with canary values (HOME, USER, LOGNAME, SHELL, EDITOR, VISUAL, PAGER, MAIL, HOSTNAME, DISPLAY, TMPDIR, XDG_RUNTIME_DIR, SSH_AUTH_SOCK, TERM, COLUMNS, LINES); these names are rename targets like every shell variable")
	r.Set("rule", "corpus of programs that together use every name-producing mechanism (globals, locals, parameters, functions, loop and range variables, slices incl. growth/copy, string subscripts, multi-return, nested calls, simultaneous assignment) and - checked by a self-test of the corpus on every run - every builtin (len print input copy read write exists itoa panic; input() gets standard input, the file builtins a working directory) and every statement form of the README (var forms, := and = incl. multi-value, op-assignment, ++/--, if / else if / else, switch with tag / without tag / `switch true`, the four for forms, break, continue, return, call statement, program call plain / piped / captured, slice literal / element write / element read, substring) both at the top level and inside a function; plus multi-file programs whose renamed identifiers live in an IMPORTED file that is reached twice (diamond; one file under two aliases) and whose top-level state changes between the two inclusions (roles: private global, private function, its parameter and local, public global, public function)"+
		" x every single identifier role renamed to every member of the name universe: names harvested on this run from the scripts the current tree emits (every assignment target, function name, label, local and evaluated variable that is not a user identifier, and every variable in the variable table of the finished default-named Bash run - names composed at run time: for a program of the base group of 8 the union over the group, for every other program its own two scripts) and names shaped like them; shell/cmd vocabulary; the COMPLETE list of Bash's shell variables (bash 5.2 manual, section Shell Variables, plus 5.3's additions and whatever `compgen -v` of the installed shell reports) on both targets; cmd.exe's dynamic and standard environment variables (Batch target only); case twins of the program's other identifiers; joined identifiers; the role's own name underscore-led / doubly underscore-led / underscore-tailed / with an inner underscore / first letter in the other case / upper case. Quick-tier bound (thorough has none): the shell variables added to the lists in round 7 are offered to every role of the base group (every role kind meets every shell variable there) and to the top-level variables of the added programs (facility x shell variable). A private top-level name of an imported file is only offered spellings that do not start with an upper-case letter and a public one only those that do (export is the language's rule); thorough adds pairs of roles. Oracle (metamorphic): the renamed program fails to transpile with an error, or its observation (bash: real run - stdout, status, stderr; batch: cmd.exe model) equals the default-named program's. Distinct by source text.")
	r.Assumef("the default-named corpus programs are validated by this check only for clean execution and bash/batch agreement; their meaning is covered by C01-C05")
	r.Assumef("Batch observations come from cmdmodel (case-insensitive variable and label names like cmd.exe); unmodelled runs are counted, not judged; a program whose default-named Batch script is outside the model (set /p; program calls the model refuses) is judged on the Bash target only, on Batch only a transpiler panic is reported")
	return finish(r)
}

// c10Replay re-runs the case with the repository's own command: transpile src/, run in a copy of box/ with
// stdin.txt, compare stdout+status and stderr with the default-named program's.
func c10Replay() string {
	return `set -e
T=$(mktemp -d); trap 'rm -rf "$T"' EXIT
(cd /repo && GOFLAGS=-mod=mod GOPROXY=off GOSUMDB=off GOTOOLCHAIN=local go build -o "$T/tsh" . ) && cp -r /repo/std "$T/std"
mkdir -p "$T/out" "$T/box"
cp -r src "$T/srcdir"
"$T/tsh" -i "$T/srcdir/main.tsh" -o "$T/out" -t bash || { echo "REPLAY: transpilation failed (see above): the property holds for this renaming"; exit 0; }
[ -d box ] && cp -r box/. "$T/box/"
cp stdin.txt "$T/stdin.txt"
( cd "$T/box" && env -i /bin/bash "$T/out/main.sh" < "$T/stdin.txt" > "$T/actual.txt" 2> "$T/stderr.raw"; echo "exit=$?" >> "$T/actual.txt" ) || true
sed -E 's#^/[^ ]*/main\.sh: #script.sh: #' "$T/stderr.raw" > "$T/stderr.txt"
if diff expected.txt "$T/actual.txt" && diff expected_stderr.txt "$T/stderr.txt"; then echo "REPLAY: no longer reproduces"; exit 0; else echo "REPLAY: reproduced (diff above: default-named program's observation vs. the renamed program's)"; exit 1; fi`
}

package checks

import (
	"fmt"
	"regexp"
	"sort"
	"strings"
	"sync"
	"time"

	"verif/cmdmodel"
	"verif/drive"
	"verif/findings"
)

func init() { Registry["C10"] = C10 }

// corpus programs with identifier roles written as @kind:default@
type c10Prog struct {
	name  string
	text  string
	files map[string]string // further files of the program (imported by the main file), names not renamed
}

func c10Transpile(src string, files map[string]string, t drive.Target) drive.TResult {
	if len(files) == 0 {
		return drive.TranspileSrc(src, t)
	}
	all := map[string]string{"main.tsh": src}
	for k, v := range files {
		all[k] = v
	}
	return drive.Transpile(all, "main.tsh", t)
}

var c10Corpus = []c10Prog{
	{name: "scalars-loops", text: `@global:alpha@ := 3
@global:beta@ := 4
for @loop:idx@ := 0; @loop:idx@ < 3; @loop:idx@++ {
	@global:alpha@ += @loop:idx@ * @global:beta@
	if @global:alpha@ > 10 && @loop:idx@ != 1 {
		print("big", @global:alpha@)
	} else {
		print("small", @global:alpha@, @loop:idx@)
	}
}
@global:gamma@ := "s" + itoa(@global:alpha@)
print(@global:alpha@, @global:beta@, @global:gamma@, @global:alpha@ % 5 == 1)
`},
	{name: "functions", text: `@global:total@ := 10
func @func:addup@(@param:left@ int, @param:right@ int) int {
	@local:sum@ := @param:left@ + @param:right@
	@global:total@ += @local:sum@
	return @local:sum@ * 2
}
func @func:twice@(@param:val@ int) (int, int) {
	@local:first@ := @func:addup@(@param:val@, 1)
	@local:second@ := @func:addup@(@local:first@, @param:val@)
	return @local:first@, @local:second@
}
@global:one@, @global:two@ := @func:twice@(5)
print(@global:one@, @global:two@, @global:total@)
@global:one@, @global:two@ = @global:two@, @global:one@
print(@global:one@, @global:two@, @func:addup@(@func:addup@(1, 2), @global:total@))
`},
	{name: "slices", text: `@global:items@ := []int{5, 6, 7}
@global:items@[5] = 9
@global:other@ := []int{}
@global:count@ := copy(@global:other@, @global:items@)
func @func:fill@(@param:target@ []int, @param:pos@ int) {
	@param:target@[@param:pos@] = @param:pos@ * 11
}
@func:fill@(@global:other@, 1)
@func:fill@(@global:other@, 7)
for @range:key@, @range:elem@ := range @global:other@ {
	print(@range:key@, @range:elem@)
}
print(@global:count@, len(@global:items@), len(@global:other@), @global:items@[1])
@global:words@ := []string{"a", "b"}
@global:words@[2] = "c"
print(len(@global:words@), @global:words@[0] + @global:words@[2])
`},
	{name: "strings", text: `@global:text@ := "hello world"
@global:part@ := @global:text@[0:5]
@global:char@ := @global:text@[6]
func @func:tail@(@param:src@ string, @param:from@ int) string {
	@local:rest@ := @param:src@[@param:from@:]
	return @local:rest@ + "!"
}
print(@global:part@, @global:char@, len(@global:text@), @func:tail@(@global:text@, 6))
for @range:at@, @range:ch@ := range @global:part@ {
	if @range:ch@ == "l" {
		print("l at", @range:at@)
	}
}
print(@global:text@[:2] + @global:text@[9:], @global:part@ == "hello", @global:char@ != "w")
`},
	{name: "switch-output", text: `func @func:show@(@param:msg@ string) {
	print("show", @param:msg@)
}
@global:level@ := 2
switch @global:level@ {
case 1:
	@func:show@("one")
case 2:
	@func:show@("two")
default:
	@func:show@("many")
}
@global:flag@ := !(@global:level@ == 3)
for @global:flag@ {
	@global:level@++
	@global:flag@ = @global:level@ < 4
	print("level", @global:level@)
}
@func:show@("done")
print("end", @global:level@, @global:flag@)
`},
}

func init() {
	// the same spelling used in different scopes (locals of two functions on one call chain, and a
	// global defined after both): a renaming changes all of them consistently
	c10Corpus = append(c10Corpus, c10Prog{name: "shared-spelling", text: `func @func:inner@(@param:seed@ int) int {
	@local:count@ := @param:seed@ + 3
	@local:count@ += 1
	return @local:count@ * 2
}
func @func:outer@(@param:seed@ int) int {
	@local:count@ := 5
	@local:extra@ := @func:inner@(@local:count@ + @param:seed@)
	@local:count@ += @local:extra@
	return @local:count@
}
@global:result@ := @func:outer@(1)
@local:count@ := 100
@global:result@ += @func:outer@(2) + @local:count@
@local:count@++
print(@global:result@, @local:count@, @func:inner@(0))
`})
}

func init() {
	// a program with an imported file: the names the import machinery derives for the file's public and
	// private functions and variables (<prefix>_<name>) are harvested like every other emitted name
	c10Corpus = append(c10Corpus, c10Prog{name: "imported-file", text: `import lib "lib.tsh"

func @func:wrap@(@param:val@ int) int {
	@local:part@ := lib.Compute(@param:val@)
	return @local:part@ + 1
}
@global:total@ := @func:wrap@(3)
@global:hidden@ := 100
print("total", @global:total@, lib.Compute(1), lib.Compute(99), @global:hidden@)
`, files: map[string]string{"lib.tsh": `var Limit int = 40
var hidden int = 7

func helper(v int) int {
	return v + hidden
}

func Compute(v int) int {
	if v > Limit {
		return Limit
	}
	return helper(v) * 2
}
`}})
}

func init() {
	// simultaneous assignments among the locals and parameters of a function, with other locals read later
	// (buffers and temporaries of the back-ends live next to the function's own names)
	c10Corpus = append(c10Corpus, c10Prog{name: "swap-in-function", text: `func @func:rotate@(@param:first@ int, @param:second@ int) int {
	@local:base@ := 100
	@local:spare@ := 7
	@param:first@, @param:second@ = @param:second@, @param:first@
	@local:spare@, @param:first@, @param:second@ = @param:first@, @param:second@, @local:spare@
	return @local:base@ + @param:first@ * 10 + @param:second@ + @local:spare@
}
func @func:getTotal@() int {
	return @func:rotate@(1, 2) + 1
}
func @func:fetch@() int {
	return @func:getTotal@() * 2
}
print(@func:rotate@(3, 4), @func:getTotal@(), @func:fetch@())
`})
}

var c10Hole = regexp.MustCompile(`@([a-z]+):([A-Za-z0-9_]+)@`)

func c10Roles(text string) [][2]string { // (kind, default name), in order of first occurrence
	var out [][2]string
	seen := map[string]bool{}
	for _, m := range c10Hole.FindAllStringSubmatch(text, -1) {
		if !seen[m[2]] {
			seen[m[2]] = true
			out = append(out, [2]string{m[1], m[2]})
		}
	}
	return out
}

func c10Render(text string, ren map[string]string) string {
	return c10Hole.ReplaceAllStringFunc(text, func(h string) string {
		m := c10Hole.FindStringSubmatch(h)
		if n, ok := ren[m[2]]; ok {
			return n
		}
		return m[2]
	})
}

var (
	bashNames = []*regexp.Regexp{
		regexp.MustCompile(`(?m)^\s*(?:local\s+)?([A-Za-z_][A-Za-z0-9_]*)=`),
		regexp.MustCompile(`\$\{#?([A-Za-z_][A-Za-z0-9_]*)`),
		regexp.MustCompile(`(?m)^([A-Za-z_][A-Za-z0-9_]*)\(\) \{`),
		regexp.MustCompile(`\(\(([A-Za-z_][A-Za-z0-9_]*)=`),
		regexp.MustCompile(`(?m)^\s*(?:read(?: -p "[^"]*")?|local)\s+([A-Za-z_][A-Za-z0-9_]*)`),
	}
	batchNames = []*regexp.Regexp{
		regexp.MustCompile(`(?i)set\s+(?:/A\s+)?"?([A-Za-z_][A-Za-z0-9_]*)=`),
		regexp.MustCompile(`!([A-Za-z_][A-Za-z0-9_]*)[:!]`),
		regexp.MustCompile(`%([A-Za-z_][A-Za-z0-9_]*)%`),
		regexp.MustCompile(`(?m)^:([A-Za-z_][A-Za-z0-9_]*)`),
		regexp.MustCompile(`(?i)(?:call|goto)\s+:([A-Za-z_][A-Za-z0-9_]*)`),
		regexp.MustCompile(`(?i)if\s+defined\s+([A-Za-z_][A-Za-z0-9_]*)`),
	}
)

var c10ShellVocabulary = []string{"_", "__", "echo", "eval", "local", "read", "cat", "exit", "test", "printf", "set", "unset", "true", "false", "done", "fi", "then", "do",
	"PATH", "IFS", "HOME", "PWD", "RANDOM", "SECONDS", "LINENO", "UID", "BASH", "OSTYPE", "REPLY", "OPTIND", "PS1", "errorlevel", "ERRORLEVEL", "LF", "end", "OS", "TIME", "DATE", "CD", "call", "goto", "rem", "setlocal", "endlocal", "nul", "con"}

// normName strips numbering so that renumbering helpers does not change finding keys.
var c10Digits = regexp.MustCompile(`[0-9]+`)

func c10Harvest(script string, res []*regexp.Regexp, user map[string]bool, into map[string]bool) {
	for _, re := range res {
		for _, m := range re.FindAllStringSubmatch(script, -1) {
			if !user[m[1]] {
				into[m[1]] = true
			}
		}
	}
}

type c10Obs struct {
	class  string // ok, rejected, unmodelled, broken
	stdout string
	exit   int
	stderr string
}

func c10RunBash(src string, files map[string]string) c10Obs {
	tr := c10Transpile(src, files, drive.Bash)
	if tr.Panic != "" {
		return c10Obs{class: "panic", stderr: firstLine(tr.Panic)}
	}
	if !tr.OK() {
		return c10Obs{class: "rejected", stderr: tr.Err}
	}
	// the corpus programs need ~20 ms CPU; 4 s of CPU time is a 200x margin and load-independent
	got := drive.RunBash(tr.Script, drive.RunOpts{CPUSecs: 4, Backstop: 90 * time.Second, OutputCap: 64 << 10})
	if got.Runaway != "" {
		return c10Obs{class: "runaway", stdout: ""}
	}
	return c10Obs{class: "ok", stdout: got.Stdout, exit: got.Exit, stderr: got.Stderr}
}

func c10RunBatch(src string, files map[string]string) c10Obs {
	tr := c10Transpile(src, files, drive.Batch)
	if tr.Panic != "" {
		return c10Obs{class: "panic", stderr: firstLine(tr.Panic)}
	}
	if !tr.OK() {
		return c10Obs{class: "rejected", stderr: tr.Err}
	}
	res := cmdmodel.Run(tr.Script, cmdmodel.Options{MaxSteps: 600000, Files: map[string]string{}})
	if res.Unmodelled == "step budget" {
		return c10Obs{class: "runaway"}
	}
	if res.Unmodelled != "" {
		return c10Obs{class: "unmodelled", stderr: res.Unmodelled}
	}
	return c10Obs{class: "ok", stdout: strings.ReplaceAll(res.Stdout, "\r\n", "\n"), exit: res.Exit, stderr: res.Error}
}

func C10() int {
	r := findings.New("C10")
	defer drive.Cleanup()
	deadline := r.Deadline(6*time.Minute, 30*time.Minute)
	// 1. base runs and harvest of the names the back-ends reserve today
	reserved := map[string]bool{}
	base := map[string][2]c10Obs{}
	for _, p := range c10Corpus {
		src := c10Render(p.text, nil)
		user := map[string]bool{}
		for _, rl := range c10Roles(p.text) {
			user[rl[1]] = true
		}
		b, w := c10RunBash(src, p.files), c10RunBatch(src, p.files)
		if b.class != "ok" || b.stderr != "" || b.exit != 0 || w.class != "ok" || w.stderr != "" || b.stdout != w.stdout {
			fmt.Printf("HARNESS ERROR: corpus program %s does not run cleanly with its default names (bash: %s %q / batch: %s %q)\n", p.name, b.class, b.stderr, w.class, w.stderr)
			return 2
		}
		base[p.name] = [2]c10Obs{b, w}
		tb := c10Transpile(src, p.files, drive.Bash)
		tw := c10Transpile(src, p.files, drive.Batch)
		c10Harvest(tb.Script, bashNames, user, reserved)
		c10Harvest(tw.Script, batchNames, user, reserved)
	}
	// names SHAPED like the reserved ones: every family (digits stripped) extended by letters / digits+letters
	for n := range reserved {
		fam := c10Digits.ReplaceAllString(n, "")
		if strings.HasPrefix(fam, "_") || strings.Contains(fam, "_") {
			reserved[fam+"its"] = true
			reserved[fam+"7x"] = true
		}
	}
	harvested := len(reserved)
	for _, v := range c10ShellVocabulary {
		reserved[v] = true
	}
	var names []string
	for n := range reserved {
		names = append(names, n)
	}
	sort.Strings(names)
	r.Set("reserved_names_harvested_from_emitted_scripts", harvested)
	r.Set("reserved_names_total", len(names))
	r.Set("reserved_names", names)
	// 2. renamings
	type variant struct {
		prog    c10Prog
		ren     map[string]string
		desc    string
		keyBase string
	}
	var vs []variant
	for _, p := range c10Corpus {
		roles := c10Roles(p.text)
		taken := map[string]bool{}
		for _, rl := range roles {
			taken[rl[1]] = true
		}
		for _, rl := range roles {
			cands := append([]string{}, names...)
			// case twins of the other identifiers of the same program, and of this one
			for _, other := range roles {
				if other[1] != rl[1] {
					cands = append(cands, strings.ToUpper(other[1]), strings.ToUpper(other[1][:1])+other[1][1:])
				}
			}
			// the concatenation of two other identifiers (tables keyed by joined names must not confuse
			// `get`+`Total` with `getTotal`): a function's name followed by any other identifier
			for _, a := range roles {
				for _, b := range roles {
					if a[0] == "func" && a[1] != rl[1] && b[1] != rl[1] {
						cands = append(cands, a[1]+b[1])
					}
				}
			}
			for _, nn := range cands {
				if taken[nn] || (rl[0] == "func" && false) {
					continue
				}
				key := fmt.Sprintf("role=%s name=%s", rl[0], c10Digits.ReplaceAllString(nn, "N"))
				for t := range taken {
					if t != rl[1] && t != nn && strings.EqualFold(t, nn) {
						key = fmt.Sprintf("role=%s name=case-twin-of-another-identifier", rl[0])
					}
				}
				vs = append(vs, variant{p, map[string]string{rl[1]: nn}, fmt.Sprintf("%s: %s %s -> %s", p.name, rl[0], rl[1], nn), key})
			}
		}
		if r.Thorough() {
			// pairs: two roles renamed to two reserved names from the most collision-prone families
			fam := []string{}
			for _, n := range names {
				if strings.HasPrefix(n, "_") && len(fam) < 14 {
					fam = append(fam, n)
				}
			}
			for i := 0; i < len(roles); i++ {
				for j := i + 1; j < len(roles); j++ {
					for _, a := range fam {
						for _, b := range fam {
							if a != b {
								vs = append(vs, variant{p, map[string]string{roles[i][1]: a, roles[j][1]: b}, fmt.Sprintf("%s: %s %s -> %s, %s %s -> %s", p.name, roles[i][0], roles[i][1], a, roles[j][0], roles[j][1], b),
									fmt.Sprintf("pair roles=%s+%s names=%s+%s", roles[i][0], roles[j][0], c10Digits.ReplaceAllString(a, "N"), c10Digits.ReplaceAllString(b, "N"))})
							}
						}
					}
				}
			}
		}
	}
	var mu sync.Mutex
	distinct := findings.NewDistinct()
	done, capped := 0, false
	outcome := map[string]int{}
	drive.Par(len(vs), func(i int) {
		if past(deadline) {
			mu.Lock()
			capped = true
			mu.Unlock()
			return
		}
		v := vs[i]
		src := c10Render(v.prog.text, v.ren)
		distinct.Add(src)
		obs := [2]c10Obs{c10RunBash(src, v.prog.files), c10RunBatch(src, v.prog.files)}
		mu.Lock()
		done++
		mu.Unlock()
		if i%499 == 0 {
			r.Sample(map[string]string{"kind": "renaming", "case": v.desc, "bash": obs[0].class, "batch": obs[1].class})
		}
		for t, tg := range []string{"bash", "batch"} {
			o, b := obs[t], base[v.prog.name][t]
			sym := ""
			switch {
			case o.class == "rejected":
				mu.Lock()
				outcome[tg+":rejected-with-error"]++
				mu.Unlock()
				continue
			case o.class == "unmodelled":
				mu.Lock()
				outcome[tg+":unmodelled"]++
				mu.Unlock()
				continue
			case o.class == "panic":
				sym = "transpiler-panic"
			case o.class == "runaway":
				sym = "runaway"
			case o.stdout != b.stdout:
				sym = "output-differs"
			case o.exit != b.exit:
				sym = "exit-differs"
			case o.stderr != b.stderr:
				sym = "stderr"
			}
			if sym == "" {
				mu.Lock()
				outcome[tg+":unchanged"]++
				mu.Unlock()
				continue
			}
			mu.Lock()
			outcome[tg+":changed"]++
			mu.Unlock()
			// confirm determinism
			var again c10Obs
			if t == 0 {
				again = c10RunBash(src, v.prog.files)
			} else {
				again = c10RunBatch(src, v.prog.files)
			}
			if again.class != o.class || (o.class == "ok" && again.stdout != o.stdout) {
				// e.g. a variable renamed to RANDOM or SECONDS: the behaviour changed AND became
				// run-dependent; it is a harness problem only if the repeat equals the base again.
				// (a repeat may even equal the base run: SECONDS only moves at second boundaries)
				sym += "+nondeterministic"
			}
			r.Fail(v.keyBase+" target="+tg+" symptom=behaviour-changed", fmt.Sprintf("%s [%s]: %s (%s)", v.desc, tg, sym, diffHint(b.stdout, o.stdout)), func() findings.Replay {
				return findings.Replay{Files: c10WithFiles(v.prog.files, map[string]string{"src/main.tsh": src, "base/main.tsh": c10Render(v.prog.text, nil), "expected.txt": b.stdout + fmt.Sprintf("exit=%d\n", b.exit), "actual.txt": o.stdout + fmt.Sprintf("exit=%d\n", o.exit), "stderr.txt": o.stderr, "detail.txt": v.desc + "\n"}),
					Script: repoTshReplay("bash")}
			})
		}
	})
	var oc []string
	for k, n := range outcome {
		oc = append(oc, fmt.Sprintf("%s=%d", k, n))
	}
	sort.Strings(oc)
	r.Set("outcomes", oc)
	r.Set("corpus_programs", len(c10Corpus))
	r.Set("evaluations", done)
	r.Set("distinct_nontrivial", distinct.Len())
	r.Set("exhaustive", !capped)
	r.Set("rule", "corpus of programs that together use every name-producing mechanism (globals, locals, parameters, functions, loop and range variables, slices incl. growth/copy, string subscripts, multi-return, nested calls, simultaneous assignment) x every single identifier role renamed to every member of the reserved set (harvested on this run from the scripts the current tree emits: every assignment target, function name, label, local and evaluated variable that is not a user identifier; plus shell/cmd vocabulary; plus case twins of the program's other identifiers); thorough adds pairs of roles. Oracle (metamorphic): the renamed program fails to transpile with an error, or its observation (bash: real run; batch: cmd.exe model) equals the default-named program's. Distinct by source text.")
	r.Assumef("the default-named corpus programs are validated by this check only for clean execution and bash/batch agreement; their meaning is covered by C01-C05")
	r.Assumef("Batch observations come from cmdmodel (case-insensitive variable and label names like cmd.exe); unmodelled runs are counted, not judged")
	return finish(r)
}

func c10WithFiles(files map[string]string, m map[string]string) map[string]string {
	for k, v := range files {
		m["src/"+k] = v
		m["base/"+k] = v
	}
	return m
}

package checks

import (
	"fmt"
	"regexp"
	"strings"
)

var (
	c10Ident = regexp.MustCompile(`^[A-Za-z_][A-Za-z0-9_]*$`)
	c10Word  = regexp.MustCompile(`^[a-z]+$`)
)

// Programs added in round 7. Each takes the names harvested from its OWN scripts (own: true): the roles are few
// and every builtin / statement form the base group does not contain occurs at the top level and inside a function
// (c10FacilityGaps checks that on every run).
func init() {
	c10Corpus = append(c10Corpus,
		// the file builtins, `var` forms, error/nil, else-if; ends with a panic at the top level
		c10Prog{name: "files", own: true, lax: true, text: `@global:where@ := "note.txt"
var @global:okay@ bool
var zzfailure error
write(@global:where@, "one")
write(@global:where@, "two", true)
@global:okay@ = exists(@global:where@)
func @func:store@(@param:name@ string) string {
	var zzback string
	if exists(@param:name@) {
		zzback = "again "
	} else if len(@param:name@) > 20 && !(@param:name@ == "") {
		zzback = "long "
	} else {
		zzback = "new "
	}
	write(@param:name@, "abc")
	write(@param:name@, "+", true)
	return zzback + read(@param:name@)
}
print(@global:okay@, read(@global:where@), len(read(@global:where@)))
print(@func:store@("other.txt"), @func:store@(@global:where@))
if exists("missing.txt") {
	print("found")
} else if zzfailure == nil && @global:okay@ {
	print("clean", @global:okay@)
} else {
	print("neither")
}
panic(@global:where@ + " stop")
`},
		// input() with and without prompt, at the top level and inside a function (four lines of standard input);
		// ends with a panic inside a function. set /p is outside the cmd.exe model: Bash target only
		c10Prog{name: "input", own: true, lax: true, stdin: "Bob\nEve\nlast\nquit\n", text: `@global:fallback@ := "stranger"
@global:first@ := input()
func @func:ask@(@param:question@ string) string {
	@local:answer@ := input(@param:question@)
	if len(@local:answer@) == 0 {
		return "nobody"
	} else if @local:answer@ == "quit" {
		print("leaving", itoa(len(@param:question@)))
		panic(@local:answer@ + "!")
	}
	return @local:answer@
}
print("hello", @global:first@, @func:ask@("who? "), input("more? "))
print("fallback was", @global:fallback@, @global:first@)
print(@func:ask@("bye? "), "never printed")
`},
		// the statement forms the base group lacks: var with and without value, endless for with break and
		// continue, switch without tag and `switch true`, else-if, every op-assignment, --
		c10Prog{name: "control-forms", own: true, text: `var @global:count@ int
var zzlow, zzhigh int = 1, 9
for {
	@global:count@++
	if @global:count@ == 2 {
		continue
	} else if @global:count@ > 3 {
		break
	}
	print("tick", @global:count@)
}
switch {
case @global:count@ > 2:
	print("many")
default:
	print("few")
}
switch true {
case zzlow > zzhigh:
	print("inverted")
case zzlow < zzhigh:
	print("ordered")
}
func zzpair() (int, int) {
	return 3, 4
}
func @func:scan@(zzlimit int) int {
	var @local:steps@ int
	var zzleft, zzright int = zzpair()
	for @local:steps@ < zzlimit {
		@local:steps@ += 2
		if @local:steps@ == 4 {
			continue
		}
		zzleft *= 2
	}
	zzleft, zzright = zzpair()
	for {
		@local:steps@--
		if @local:steps@ < 3 || zzleft > 90 {
			break
		}
	}
	switch {
	case zzleft > zzright:
		@local:steps@ -= 1
	default:
		@local:steps@ /= 2
	}
	switch true {
	case @local:steps@ == 1:
		@local:steps@ %= 3
	}
	switch @local:steps@ {
	case 1:
		zzright++
	}
	for zzturn := 0; zzturn < 2; zzturn++ {
		zzright += zzturn
	}
	return @local:steps@ * 100 + zzleft + zzright
}
zzhigh -= zzlow
zzhigh *= 3
zzhigh /= 2
zzhigh %= 7
zzhigh--
print(@func:scan@(5), @global:count@, zzlow, zzhigh)
`},
		// program calls: plain, piped, captured - at the top level and inside a function. Two real programs (expr,
		// cat), so that the shell's command lookup takes part
		c10Prog{name: "program-calls", own: true, lax: true, text: `@global:word@ := "abc"
@expr(@global:word@)
@expr("xyz") | @cat()
zzout, zzerr, zzcode := @expr(@global:word@) | @cat()
func @func:run@(@param:arg@ string) string {
	@expr(@param:arg@)
	@expr(@param:arg@) | @cat()
	@local:got@, zze, zzc := @expr(@param:arg@) | @cat()
	return @local:got@ + itoa(zzc) + zze
}
print(zzout, zzerr, zzcode, @func:run@("in"), @global:word@)
`},
		// slices and strings inside functions (the base group has them at the top level): literal, element write and
		// read, growth, copy, len, range, substring, subscript, itoa
		c10Prog{name: "slices-strings-in-functions", own: true, text: `func @func:build@(@param:size@ int) int {
	@local:cells@ := []int{1, 2}
	@local:cells@[@param:size@] = 7
	zzmore := []int{}
	zzsum := copy(zzmore, @local:cells@) * 100
	for zzpos, zzcell := range zzmore {
		zzsum += zzpos * zzcell
	}
	return zzsum + len(@local:cells@) + @local:cells@[1]
}
func zzclip(zzline string) string {
	zzout := zzline[0:2] + zzline[len(zzline) - 1]
	for _, zzletter := range zzline[3:] {
		zzout = zzletter + zzout
	}
	return zzout + itoa(len(zzline))
}
print("result", @func:build@(3), zzclip("shells"))
`},
		// DIAMOND: counter.tsh is reached through first.tsh and through second.tsh; first.tsh changes the state of
		// counter.tsh while it is loaded, i.e. between the two inclusions. The renamed identifiers live in counter.tsh
		c10Prog{name: "import-diamond", own: true, text: `import (
	first "first.tsh"
	second "second.tsh"
)

print("first:", first.Ticket(), first.Ticket())
print("second:", second.Ticket())
print("second again:", second.Ticket(), second.Limit())
`, files: map[string]string{
			"counter.tsh": `var @impglobal:issued@ int = 0
var @pubglobal:Ceiling@ int = 50

func @impfunc:bump@(@impparam:step@ int) int {
	@implocal:next@ := @impglobal:issued@ + @impparam:step@
	if @implocal:next@ > @pubglobal:Ceiling@ {
		return @pubglobal:Ceiling@
	}
	return @implocal:next@
}

func @pubfunc:Next@() int {
	@impglobal:issued@ = @impfunc:bump@(1)
	@pubglobal:Ceiling@--
	return @impglobal:issued@
}

func Roof() int {
	return @pubglobal:Ceiling@
}
`,
			"first.tsh": `import counter "counter.tsh"

var zzticket int = counter.@pubfunc:Next@() + counter.@pubfunc:Next@() * 10

func Ticket() int {
	return zzticket
}
`,
			"second.tsh": `import counter "counter.tsh"

func Ticket() int {
	return counter.@pubfunc:Next@()
}

func Limit() int {
	return counter.Roof()
}
`}},
		// TWO ALIASES: the main file imports counter.tsh twice; the file's own top-level code changes its state
		c10Prog{name: "import-two-aliases", own: true, text: `import (
	one "counter.tsh"
	two "counter.tsh"
)

print(one.@pubfunc:Next@(), two.@pubfunc:Next@(), one.Peek())
`, files: map[string]string{
			"counter.tsh": `var @impglobal:issued@ int = 10
var @pubglobal:Level@ int = 1

func @impfunc:bump@(zzstep int) int {
	zznext := @impglobal:issued@ + zzstep
	return zznext
}

func @pubfunc:Next@() int {
	@impglobal:issued@ = @impfunc:bump@(1)
	return @impglobal:issued@
}

func Peek() int {
	return @pubglobal:Level@
}
@impglobal:issued@ = @pubfunc:Next@() + 5
@pubglobal:Level@ = @pubglobal:Level@ + @impglobal:issued@
print("loaded", @impglobal:issued@, @pubglobal:Level@)
`}},
	)
}

// ---------------------------------------------------------------------------------------------------------------
// self-test of the corpus: every builtin and every statement form occurs at the top level AND inside a function

type c10Facility struct {
	name  string
	re    *regexp.Regexp
	where string // "" = both places, "func" = only inside functions possible
}

var c10Facilities = func() []c10Facility {
	var fs []c10Facility
	for _, b := range strings.Fields("len print input copy read write exists itoa panic") { // the README's section "Builtin"
		fs = append(fs, c10Facility{"builtin " + b, regexp.MustCompile(`(^|[^A-Za-z0-9_.@])` + b + `\(`), ""})
	}
	add := func(name, re, where string) { fs = append(fs, c10Facility{name, regexp.MustCompile(re), where}) }
	add("var without value", `^\s*var [^=]*$`, "")
	add("var with value", `^\s*var [^=]*=`, "")
	add("var with several names", `^\s*var \w+, \w+`, "")
	add("short definition", `^\s*\w+ :=`, "")
	add("short definition of several names", `^\s*\w+, \w+(, \w+)* :=`, "")
	add("assignment", `^\s*\w+ = `, "")
	add("assignment of several names", `^\s*\w+, \w+(, \w+)* = `, "")
	add("op-assignment +=", `^\s*\w+ \+= `, "")
	add("op-assignment -=", `^\s*\w+ -= `, "")
	add("op-assignment *=", `^\s*\w+ \*= `, "")
	add("op-assignment /=", `^\s*\w+ /= `, "")
	add("op-assignment %=", `^\s*\w+ %= `, "")
	add("increment", `^\s*\w+\+\+$`, "")
	add("decrement", `^\s*\w+--$`, "")
	add("if", `^\s*if .* \{$`, "")
	add("else if", `^\s*\} else if .* \{$`, "")
	add("else", `^\s*\} else \{$`, "")
	add("switch with tag", `^\s*switch [^{ ]+ \{$`, "")
	add("switch without tag", `^\s*switch \{$`, "")
	add("switch true", `^\s*switch true \{$`, "")
	add("case", `^\s*case .*:$`, "")
	add("default", `^\s*default:$`, "")
	add("endless for", `^\s*for \{$`, "")
	add("for with condition", `^\s*for [^;:]+ \{$`, "")
	add("for with three clauses", `^\s*for .*;.*;.* \{$`, "")
	add("for range", `^\s*for \w+, \w+ := range .* \{$`, "")
	add("break", `^\s*break$`, "")
	add("continue", `^\s*continue$`, "")
	add("return", `^\s*return\b`, "func")
	add("call statement", `^\s*\w+\(.*\)$`, "")
	add("call with several results", `^\s*\w+, \w+ :?= \w+\(`, "")
	add("program call", `^\s*@\w+\(.*\)$`, "")
	add("program calls piped", `\) \| @\w+\(`, "")
	add("program call captured", `:= @\w+\(`, "")
	add("slice literal", `\[\](int|string|bool)\{`, "")
	add("slice element write", `^\s*\w+\[[^\]:]+\] = `, "")
	add("slice element / string subscript read", `[(= ]\w+\[[^\]:]+\]`, "")
	add("substring", `\w\[[^\]]*:[^\]]*\]`, "")
	add("string concatenation", `" \+ |\+ "`, "")
	add("logical operator", ` && | \|\| |!\(`, "")
	return fs
}()

func c10FacilityNames() []string {
	var out []string
	for _, f := range c10Facilities {
		out = append(out, f.name)
	}
	return out
}

// c10FacilityGaps lists the (facility, place) pairs no corpus program has. The place of a line is decided by the
// layout the corpus is written in: a function starts with a line `func ...{` and ends with the next line `}`.
func c10FacilityGaps(corpus []c10Prog) []string {
	type key struct {
		f     int
		place string
	}
	have := map[key]bool{}
	for _, p := range corpus {
		texts := []string{c10Render(p.text, nil)}
		for _, t := range c10Files(p, nil) {
			texts = append(texts, t)
		}
		for _, t := range texts {
			place := "top"
			for _, line := range strings.Split(t, "\n") {
				if strings.HasPrefix(line, "func ") {
					place = "func"
					continue
				}
				if line == "}" && place == "func" {
					place = "top"
					continue
				}
				for i, f := range c10Facilities {
					if f.re.MatchString(line) {
						have[key{i, place}] = true
					}
				}
			}
		}
	}
	var missing []string
	for i, f := range c10Facilities {
		for _, place := range []string{"top", "func"} {
			if f.where != "" && f.where != place {
				continue
			}
			if !have[key{i, place}] {
				missing = append(missing, fmt.Sprintf("%s (%s)", f.name, map[string]string{"top": "top level", "func": "inside a function"}[place]))
			}
		}
	}
	return missing
}

package checks

import (
	"fmt"
	"os"
	"testing"

	"verif/cmdmodel"
	"verif/drive"
)

// development aid: prints what the programs in the directory C10DEV do (every sub-directory one program: main.tsh,
// further files, optional stdin.txt)
func TestC10Dev(t *testing.T) {
	root := os.Getenv("C10DEV")
	if root == "" {
		t.Skip()
	}
	defer drive.Cleanup()
	ents, _ := os.ReadDir(root)
	for _, e := range ents {
		files := map[string]string{}
		stdin := ""
		fs, _ := os.ReadDir(root + "/" + e.Name())
		for _, f := range fs {
			b, _ := os.ReadFile(root + "/" + e.Name() + "/" + f.Name())
			if f.Name() == "stdin.txt" {
				stdin = string(b)
			} else {
				files[f.Name()] = string(b)
			}
		}
		fmt.Println("=====", e.Name())
		tb := drive.Transpile(files, "main.tsh", drive.Bash)
		if !tb.OK() {
			fmt.Println("BASH transpile:", tb.Err, tb.Panic)
		} else {
			if os.Getenv("C10SCRIPT") != "" {
				fmt.Println(tb.Script)
			}
			g := drive.RunBash(tb.Script, drive.RunOpts{Stdin: stdin, CPUSecs: 4})
			fmt.Printf("BASH exit=%d runaway=%q\nstdout:\n%sstderr:\n%s\n", g.Exit, g.Runaway, g.Stdout, g.Stderr)
		}
		tw := drive.Transpile(files, "main.tsh", drive.Batch)
		if !tw.OK() {
			fmt.Println("BATCH transpile:", tw.Err, tw.Panic)
		} else {
			if os.Getenv("C10SCRIPT") != "" {
				fmt.Println(tw.Script)
			}
			res := cmdmodel.Run(tw.Script, cmdmodel.Options{MaxSteps: 600000, Files: map[string]string{}})
			fmt.Printf("BATCH exit=%d unmodelled=%q error=%q\nstdout:\n%s\n", res.Exit, res.Unmodelled, res.Error, res.Stdout)
		}
	}
}

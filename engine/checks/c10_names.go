package checks

import (
	"sort"
	"strings"

	"verif/cmdmodel"
	"verif/drive"
)

// The variables Bash itself sets or reads: every entry of the section "Shell Variables" of the bash 5.2 manual
// (both halves: "set by the shell" and "used by the shell"), the three 5.3 added, and TERM/TZ/TEXTDOMAIN*, which the
// shell or its libraries read without the section listing them. A user variable that is emitted under one of
// these names shares it with the shell.
var c10BashVariables = strings.Fields(`_ BASH BASHOPTS BASHPID BASH_ALIASES BASH_ARGC BASH_ARGV BASH_ARGV0 BASH_CMDS BASH_COMMAND
BASH_EXECUTION_STRING BASH_LINENO BASH_LOADABLES_PATH BASH_REMATCH BASH_SOURCE BASH_SUBSHELL BASH_VERSINFO BASH_VERSION
COMP_CWORD COMP_KEY COMP_LINE COMP_POINT COMP_TYPE COMP_WORDBREAKS COMP_WORDS COPROC DIRSTACK EPOCHREALTIME EPOCHSECONDS
EUID FUNCNAME GROUPS HISTCMD HOSTNAME HOSTTYPE LINENO MACHTYPE MAPFILE OLDPWD OPTARG OPTIND OSTYPE PIPESTATUS PPID PWD
RANDOM READLINE_ARGUMENT READLINE_LINE READLINE_MARK READLINE_POINT REPLY SECONDS SHELLOPTS SHLVL SRANDOM UID
BASH_COMPAT BASH_ENV BASH_XTRACEFD CDPATH CHILD_MAX COLUMNS COMPREPLY EMACS ENV EXECIGNORE FCEDIT FIGNORE FUNCNEST
GLOBIGNORE HISTCONTROL HISTFILE HISTFILESIZE HISTIGNORE HISTSIZE HISTTIMEFORMAT HOME HOSTFILE IFS IGNOREEOF INPUTRC
INSIDE_EMACS LANG LC_ALL LC_COLLATE LC_CTYPE LC_MESSAGES LC_NUMERIC LC_TIME LINES MAIL MAILCHECK MAILPATH OPTERR PATH
POSIXLY_CORRECT PROMPT_COMMAND PROMPT_DIRTRIM PS0 PS1 PS2 PS3 PS4 SHELL TIMEFORMAT TMOUT TMPDIR auto_resume histchars
BASH_MONOSECONDS BASH_TRAPSIG GLOBSORT TERM TZ TEXTDOMAIN TEXTDOMAINDIR`)

// c10InheritedEnv: the environment every Bash run of this check inherits (default-named and renamed program alike):
// ordinary variables of a login session with canary values. A script whose user variable is spelled like one of them
// must behave as under any other spelling - whatever the caller exported under that name must not reach the
// program. (Variables that change how bash itself starts - PATH, IFS, ENV, BASH_ENV, SHELLOPTS, LANG, LC_* - are
// left out: they would change the default-named run as well.)
var c10InheritedEnv = []string{"HOME=/canary/home", "USER=canaryuser", "LOGNAME=canarylog", "SHELL=/canary/sh", "EDITOR=canaryed", "VISUAL=canaryvis", "PAGER=canarypg",
	"MAIL=/canary/mail", "HOSTNAME=canaryhost", "DISPLAY=:77", "TMPDIR=/canary/tmp", "XDG_RUNTIME_DIR=/canary/run", "SSH_AUTH_SOCK=/canary/sock", "TERM=canaryterm", "COLUMNS=77", "LINES=33"}

func c10InheritedNames() []string {
	var out []string
	for _, kv := range c10InheritedEnv {
		out = append(out, kv[:strings.Index(kv, "=")])
	}
	return out
}

// cmd.exe: the dynamic variables `set /?` documents (computed on every expansion unless a variable of that name
// exists), the two undocumented ones with identifier-shaped names, and the standard environment of a Windows
// session that cmd.exe or the programs it starts read. Offered on the Batch target only.
var c10CmdVariables = strings.Fields(`CD DATE TIME RANDOM ERRORLEVEL CMDEXTVERSION CMDCMDLINE HIGHESTNUMANODENUMBER __APPDIR__ __CD__
FIRMWARE_TYPE PATH PATHEXT COMSPEC PROMPT TEMP TMP OS USERNAME USERPROFILE USERDOMAIN COMPUTERNAME HOMEDRIVE HOMEPATH
SYSTEMROOT SYSTEMDRIVE WINDIR PROCESSOR_ARCHITECTURE PROCESSOR_IDENTIFIER PROCESSOR_LEVEL PROCESSOR_REVISION
NUMBER_OF_PROCESSORS PROGRAMFILES PROGRAMDATA PROGRAMW6432 COMMONPROGRAMFILES APPDATA LOCALAPPDATA ALLUSERSPROFILE PUBLIC
LOGONSERVER SESSIONNAME PSMODULEPATH DRIVERDATA DIRCMD COPYCMD`)

// c10InstalledShellVariables: the manual's list united with what the installed bash reports in the sandbox's
// empty environment (`compgen -v`); the second result lists the names only the installed shell knows.
func c10InstalledShellVariables() ([]string, []string) {
	set := map[string]bool{}
	for _, v := range c10BashVariables {
		set[v] = true
	}
	for _, v := range c10InheritedNames() {
		set[v] = true
	}
	var extra []string
	got := drive.RunBash("compgen -v\n", drive.RunOpts{CPUSecs: 4})
	if got.Runaway == "" && got.Exit == 0 {
		for _, v := range strings.Fields(got.Stdout) {
			if !set[v] && c10Ident.MatchString(v) {
				set[v] = true
				extra = append(extra, v)
			}
		}
	}
	sort.Strings(extra)
	return drive.SortedKeys(set), extra
}

// c10External: the two programs the program-call corpus program starts, for the cmd.exe model (rule 12):
// `expr WORD` prints its only argument and a line end, `cat` copies its standard input. Anything else: not
// modelled (the run is then counted as unmodelled, as without the hook).
func c10External(c cmdmodel.ExternalCall) (string, int, bool) {
	argv, ok := cmdmodel.SplitCommandLine(c.CommandLine)
	if !ok || len(argv) == 0 {
		return "", 0, false
	}
	switch {
	case argv[0] == "cat" && len(argv) == 1:
		return c.Stdin, 0, true
	case argv[0] == "expr" && len(argv) == 2 && c10Word.MatchString(argv[1]):
		return argv[1] + "\r\n", 0, true
	}
	return "", 0, false
}

package checks

import (
	"fmt"
	"os"
	"os/exec"
	"path/filepath"
	"regexp"
	"sort"
	"strings"
	"sync"
	"time"

	"verif/corpus"
	"verif/drive"
	"verif/findings"
	. "verif/tsmodel"
)

func init() { Registry["C16"] = C16 }

// ---------------------------------------------------------------------------
// batstruct: structural reading of an emitted Batch script

type batScript struct {
	lines  []string
	labels map[string][]int // lower-case label -> line numbers
	gotos  []batJump
	calls  []batJump
}

type batJump struct {
	line   int
	target string // lower-case, without ':'
}

var (
	reGoto = regexp.MustCompile(`(?i)\bgoto\s+:?([A-Za-z0-9_]+)`)
	reCall = regexp.MustCompile(`(?i)\bcall\s+:([A-Za-z0-9_]+)`)
)

// stripQuoted removes double-quoted stretches (their content is data).
func stripQuoted(l string) string {
	var b strings.Builder
	in := false
	for i := 0; i < len(l); i++ {
		if l[i] == '"' {
			in = !in
			continue
		}
		if !in {
			b.WriteByte(l[i])
		}
	}
	return b.String()
}

func parseBat(script string) batScript {
	bs := batScript{labels: map[string][]int{}}
	bs.lines = strings.Split(strings.ReplaceAll(script, "\r\n", "\n"), "\n")
	for i, l := range bs.lines {
		t := strings.TrimSpace(l)
		if strings.HasPrefix(t, "::") || strings.HasPrefix(strings.ToLower(t), "rem ") || strings.ToLower(t) == "rem" {
			continue
		}
		if strings.HasPrefix(t, ":") {
			name := strings.ToLower(strings.Fields(t[1:] + " ")[0])
			bs.labels[name] = append(bs.labels[name], i)
			continue
		}
		code := stripQuoted(t)
		for _, m := range reGoto.FindAllStringSubmatch(code, -1) {
			bs.gotos = append(bs.gotos, batJump{i, strings.ToLower(m[1])})
		}
		for _, m := range reCall.FindAllStringSubmatch(code, -1) {
			bs.calls = append(bs.calls, batJump{i, strings.ToLower(m[1])})
		}
	}
	return bs
}

// batCheckBasic: balanced parentheses, jump/call targets exist, no label twice, helpers present iff used.
func batCheckBasic(bs batScript) []string {
	var errs []string
	depth := 0
	for i, l := range bs.lines {
		t := strings.TrimSpace(l)
		if strings.HasPrefix(t, ":") || strings.HasPrefix(strings.ToLower(t), "rem") {
			continue
		}
		code := stripQuoted(t)
		// an escaped parenthesis (^( or ^)) is data; the LF idiom "(set LF=^" opens a real block
		code = strings.ReplaceAll(strings.ReplaceAll(code, "^(", ""), "^)", "")
		// text after "echo " is printed, not parsed as block structure - the converter only echoes variables
		for _, ch := range code {
			switch ch {
			case '(':
				depth++
			case ')':
				depth--
				if depth < 0 {
					errs = append(errs, fmt.Sprintf("parenthesis closed that was never opened (line %d)", i+1))
					depth = 0
				}
			}
		}
	}
	if depth != 0 {
		errs = append(errs, fmt.Sprintf("%d parenthesis left open at end of script", depth))
	}
	var names []string
	for n := range bs.labels {
		names = append(names, n)
	}
	sort.Strings(names)
	for _, n := range names {
		if len(bs.labels[n]) > 1 {
			errs = append(errs, "label defined twice: "+labelClass(n))
		}
	}
	for _, j := range append(append([]batJump{}, bs.gotos...), bs.calls...) {
		if j.target == "eof" {
			continue
		}
		if _, ok := bs.labels[j.target]; !ok {
			errs = append(errs, "jump or call to a label that is not defined: "+labelClass(j.target))
		}
	}
	// helper routines: blocks between ":: global X helper begin" and ":: global X helper end"
	type helper struct {
		label      string
		start, end int
	}
	var helpers []helper
	for i := 0; i < len(bs.lines); i++ {
		t := strings.TrimSpace(bs.lines[i])
		if strings.HasPrefix(t, ":: global ") && strings.HasSuffix(t, " helper begin") {
			h := helper{start: i, end: len(bs.lines) - 1}
			for k := i + 1; k < len(bs.lines); k++ {
				tk := strings.TrimSpace(bs.lines[k])
				if strings.HasPrefix(tk, ":") && !strings.HasPrefix(tk, "::") && h.label == "" {
					h.label = strings.ToLower(tk[1:])
				}
				if strings.HasPrefix(tk, ":: global ") && strings.HasSuffix(tk, " helper end") {
					h.end = k
					break
				}
			}
			helpers = append(helpers, h)
		}
	}
	inHelper := func(line int) int {
		for hi, h := range helpers {
			if line >= h.start && line <= h.end {
				return hi
			}
		}
		return -1
	}
	used := map[int]bool{}
	work := []int{}
	byLabel := map[string]int{}
	for hi, h := range helpers {
		byLabel[h.label] = hi
	}
	for _, c := range bs.calls {
		if hi, ok := byLabel[c.target]; ok && inHelper(c.line) < 0 && !used[hi] {
			used[hi] = true
			work = append(work, hi)
		}
	}
	for len(work) > 0 {
		cur := work[0]
		work = work[1:]
		for _, c := range bs.calls {
			if inHelper(c.line) == cur {
				if hi, ok := byLabel[c.target]; ok && !used[hi] {
					used[hi] = true
					work = append(work, hi)
				}
			}
		}
	}
	for hi, h := range helpers {
		if !used[hi] {
			errs = append(errs, "helper routine present but never used: "+h.label)
		}
	}
	return errs
}

var reDigits = regexp.MustCompile(`[0-9]+`)

func labelClass(n string) string { return reDigits.ReplaceAllString(n, "N") }

// batCheckContainment checks, with the marker positions of a recorded skeleton program, that every
// jump stays in the construct it belongs to (independent of how labels are named).
func batCheckContainment(bs batScript, rec *skRec) []string {
	var errs []string
	// marker k is printed by:   set "_fa0=m<k> ..."   (the echo helper call follows)
	pos := map[int]int{}
	reM := regexp.MustCompile(`^set "_fa0=m([0-9]+)( |")`)
	for i, l := range bs.lines {
		if m := reM.FindStringSubmatch(strings.TrimSpace(l)); m != nil {
			var k int
			fmt.Sscanf(m[1], "%d", &k)
			if _, dup := pos[k]; !dup {
				pos[k] = i
			}
		}
	}
	p := func(k int) (int, bool) { v, ok := pos[k]; return v, ok }
	labelLine := func(t string) int {
		if ls, ok := bs.labels[t]; ok {
			// forward-then-wrap from the jump is modelled by C05; here take the definition (unique or first)
			return ls[0]
		}
		return -1
	}
	marked := map[int]skJump{} // goto line -> jump
	for _, j := range rec.jumps {
		mp, ok := p(j.marker)
		if !ok {
			continue // marker not emitted (dead code is not removed by the transpiler, so this is unexpected)
		}
		// the first goto after the marker line is the jump
		best := -1
		for _, g := range bs.gotos {
			if g.line > mp && (best < 0 || g.line < bs.gotos[best].line) {
				for gi := range bs.gotos {
					if bs.gotos[gi].line == g.line {
						best = gi
					}
				}
			}
		}
		if best < 0 {
			errs = append(errs, j.kind+": no jump emitted after its marker")
			continue
		}
		g := bs.gotos[best]
		marked[g.line] = j
		c := rec.constructs[j.loop]
		T := labelLine(g.target)
		if T < 0 {
			continue // reported by the basic check
		}
		before, okb := p(c.lo - 1)
		first, okf := p(c.lo)
		last, okl := p(c.hi)
		after, oka := p(c.hi + 1)
		switch j.kind {
		case "continue":
			if okf && !(T < first) || okb && !(T > before) {
				errs = append(errs, "continue jumps outside the head of its own loop")
			}
		case "break":
			if okl && !(T > last) || oka && !(T < after) || !(T > g.line) {
				errs = append(errs, "break jumps outside the tail of its own loop")
			}
		}
	}
	// unmarked jumps: loop-back and branch-exit jumps of marked constructs.
	// Regions are computed from the positions of the markers in the SCRIPT (a switch whose
	// default is not written last is emitted in a different order than the source).
	type region struct {
		first, last   int // first / last marker line of the construct
		before, after int // nearest marker lines outside the construct (exclusive bounds)
		ok            bool
	}
	var mlines []int
	owner := map[int]int{} // marker line -> marker id
	for k, v := range pos {
		mlines = append(mlines, v)
		owner[v] = k
	}
	sort.Ints(mlines)
	regions := make([]region, len(rec.constructs))
	for ci, c := range rec.constructs {
		rg := region{first: 1 << 30, last: -1, before: -1, after: len(bs.lines)}
		for k := c.lo; k <= c.hi; k++ {
			if v, ok := pos[k]; ok {
				if v < rg.first {
					rg.first = v
				}
				if v > rg.last {
					rg.last = v
				}
				rg.ok = true
			}
		}
		if rg.ok {
			for _, m := range mlines {
				id := owner[m]
				if id >= c.lo && id <= c.hi {
					continue
				}
				if m < rg.first && m > rg.before {
					rg.before = m
				}
				if m > rg.last && m < rg.after {
					rg.after = m
				}
			}
		}
		regions[ci] = rg
	}
	crosses := func(a, b int) bool {
		if a > b {
			a, b = b, a
		}
		for _, m := range mlines {
			if m > a && m < b {
				return true
			}
		}
		return false
	}
	for _, g := range bs.gotos {
		if _, isMarked := marked[g.line]; isMarked {
			continue
		}
		if g.target == "end" || strings.HasPrefix(g.target, "_ret_") || strings.HasPrefix(g.target, "_eo_") {
			continue // panic / return / skipping over a routine body: not loop or branch jumps
		}
		T := labelLine(g.target)
		if T < 0 || !crosses(g.line, T) {
			continue // local jump of an unmarked construct (or a helper's own loop)
		}
		// innermost marked construct whose region (between its neighbouring outside markers) holds the jump
		bestIdx, bestSpan := -1, 1<<30
		for ci, rg := range regions {
			if rg.ok && g.line > rg.before && g.line < rg.after && rg.after-rg.before < bestSpan {
				bestIdx, bestSpan = ci, rg.after-rg.before
			}
		}
		if bestIdx < 0 {
			errs = append(errs, "a jump crosses markers but lies in no construct: goto "+labelClass(g.target))
			continue
		}
		c, rg := rec.constructs[bestIdx], regions[bestIdx]
		exitOK := T > rg.last && T < rg.after
		headOK := c.loop && T > rg.before && T < rg.first
		if !exitOK && !headOK {
			errs = append(errs, fmt.Sprintf("a jump of construct %s leaves it: target is neither its own head nor directly behind it", c.name))
		}
	}
	sort.Strings(errs)
	return dedupe(errs)
}

func dedupe(xs []string) []string {
	var out []string
	for i, x := range xs {
		if i == 0 || xs[i-1] != x {
			out = append(out, x)
		}
	}
	return out
}

// ---------------------------------------------------------------------------

type c16Item struct {
	name  string
	src   string
	files map[string]string // further source files (imports)
	twice bool              // an import graph that reaches a file twice (its private functions are emitted twice: listed for C09)
	rec   *skRec            // non-nil: skeleton with recorded markers (containment check)
}

func skProgramRec(seq []skNode, inFunc bool) (*Prog, *skRec) {
	b := &skBuilder{rec: &skRec{}}
	pre := []Stmt{
		Define{Names: []string{"x"}, Form: DefShort, Vals: []Expr{IntLit{0}}},
		Define{Names: []string{"t"}, Form: DefShort, Vals: []Expr{BoolLit{false}}},
		Define{Names: []string{"w"}, Form: DefShort, Vals: []Expr{StrLit{V: ""}}},
	}
	var body []Stmt
	for _, n := range seq {
		body = append(body, b.node(n, nil, false)...)
		body = append(body, b.marker(nil))
	}
	pre = append(skLoopFuncDefs(seq), pre...)
	if inFunc {
		return &Prog{Stmts: append(pre, FuncDef{Name: "wrapped", Body: body}, ExprStmt{X: Call{Fn: "wrapped"}})}, b.rec
	}
	return &Prog{Stmts: append(pre, body...)}, b.rec
}

// builtin programs: every builtin that cannot be executed blindly, in every statement position and context
func c16BuiltinPrograms() []c16Item {
	exprs := map[string]string{
		"input":        `input()`,
		"input-prompt": `input("name: ")`,
		"read":         `read("f.txt")`,
		"exists":       `exists("f.txt")`,
		"len-read":     `len(read("f.txt"))`,
		"itoa":         `itoa(len(vs))`,
	}
	stmts := map[string]string{
		"write":            `write("f.txt", vs)`,
		"write-append":     `write("f.txt", vs, true)`,
		"write-computed":   `write(vs + ".txt", itoa(vi) + vs, vb)`,
		"app":              `@ls("-l")`,
		"app-pipe":         `@ls("-l") | @grep("x") | @sort()`,
		"app-path":         "@`./tool.sh`(\"a b\", vs)",
		"app-capture":      `so, se, sc := @ls("-l", vs)` + "\nprint(so, se, sc)",
		"app-capture-pipe": `so, se, sc := @cat("f.txt") | @grep(vs)` + "\nprint(so, se, sc)",
		"app-no-args":      `@date()`,
		"copy":             `vn := copy(vsl, vsl2)` + "\nprint(vn)",
		"panic":            `panic("stop " + vs)`,
		"slice-grow":       `vsl[7] = 3`,
		"range-string":     "for ri, rc := range vs {\n\tprint(ri, rc)\n}",
		"range-slice":      "for ri, re := range vsl {\n\tprint(ri, re)\n}",
		"subscripts":       `print(vs[0], vs[1:], vs[:1], vs[0:1], len(vs))`,
	}
	uses := map[string]string{ // how a string/bool/int expression is used
		"define":    "d := %E\nprint(d)",
		"assign":    "ga = %E",
		"print":     "print(%E)",
		"condition": "if %E == %E {\n\tprint(1)\n}",
		"argument":  "useit(%E)",
		"concat":    "ga = \"<\" + %S + \">\"",
	}
	prelude := "vi := 1\nvb := true\nvs := \"s\"\nvsl := []int{1, 2}\nvsl2 := []int{3, 4, 5}\nga := \"\"\ngb := false\nfunc useit(a string) {\n\tprint(a)\n}\nfunc useb(a bool) {\n\tprint(a)\n}\n"
	ctxs := map[string][2]string{
		"top":      {"", ""},
		"function": {"func ctx() {\n", "}\nctx()\n"},
		"if":       {"if vb {\n", "}\n"},
		"else":     {"if vb {\n} else {\n", "}\n"},
		"for":      {"for q := 0; q < 2; q++ {\n", "}\n"},
		"case":     {"switch vi {\ncase 1:\n", "default:\n}\n"},
		"deep":     {"func ctx() {\nfor q := 0; q < 2; q++ {\nif vb {\nswitch vi {\ncase 1:\nfor vi < 3 {\n", "vi++\n}\n}\n}\n}\n}\nctx()\n"},
	}
	var out []c16Item
	var cn []string
	for k := range ctxs {
		cn = append(cn, k)
	}
	sort.Strings(cn)
	var sn []string
	for k := range stmts {
		sn = append(sn, k)
	}
	sort.Strings(sn)
	for _, c := range cn {
		w := ctxs[c]
		for _, k := range sn {
			out = append(out, c16Item{name: "builtin stmt=" + k + " ctx=" + c, src: prelude + w[0] + stmts[k] + "\n" + w[1]})
		}
		var en []string
		for k := range exprs {
			en = append(en, k)
		}
		sort.Strings(en)
		var un []string
		for k := range uses {
			un = append(un, k)
		}
		sort.Strings(un)
		for _, e := range en {
			for _, u := range un {
				ex := exprs[e]
				body := uses[u]
				strE := ex
				switch e { // adapt the use to the expression's type
				case "exists":
					if u == "concat" || u == "argument" || u == "assign" {
						continue
					}
				case "len-read":
					if u == "concat" || u == "argument" || u == "assign" {
						continue
					}
				}
				body = strings.ReplaceAll(strings.ReplaceAll(body, "%E", ex), "%S", strE)
				out = append(out, c16Item{name: "builtin expr=" + e + " use=" + u + " ctx=" + c, src: prelude + w[0] + body + "\n" + w[1]})
			}
		}
	}
	// string literals with each printable character, written directly where a value is used. The four
	// characters that are special inside a double-quoted shell word (" $ ` \) are C08's listed business.
	for ch := byte(32); ch < 127; ch++ {
		if ch == '"' || ch == '$' || ch == '`' || ch == '\\' {
			continue
		}
		for _, lit := range []string{string(ch), "a" + string(ch) + "b", string(ch) + string(ch)} {
			q := tsmodelQuote(lit)
			src := prelude + "func two(a string, b string) string {\n\treturn a + b\n}\n" +
				"print(" + q + ")\nga = " + q + "\nuseit(" + q + ")\nga = two(" + q + ", " + q + ")\nif ga == " + q + " {\n\tprint(two(\"k\", " + q + "))\n}\nsx := []string{" + q + "}\nsx[1] = " + q + "\nwrite(\"f.txt\", " + q + ")\n"
			out = append(out, c16Item{name: fmt.Sprintf("builtin literal-char=0x%02x shape=%d", ch, len(lit)), src: src})
		}
	}
	// a block whose only statement is an expression statement that emits no line
	for _, e := range []string{"itoa(vi)", "vi", "5", "\"s\"", "true", "(vi)", "vs", "(itoa(vi))",
		// every operator kind with an unused value (a back-end may or may not emit a line for it)
		"vi == 3", "vi != 3", "vi < 3", "vi >= 3", "vs == \"s\"", "vb == gb", "vi + 1", "vi * 2 - 1", "vi % 2", "vb && gb", "vb || gb", "!vb",
		"vs + \"x\"", "len(vs)", "len(vsl)", "vs[0:1]", "vs[0]", "exists(\"f.txt\")", "(vi == 3)", "vi == 3 && vb"} {
		for _, c := range cn {
			w := ctxs[c]
			if c == "top" {
				continue
			}
			out = append(out, c16Item{name: "builtin sole-statement-without-effect expr=" + e + " ctx=" + c, src: prelude + w[0] + e + "\n" + w[1]})
			out = append(out, c16Item{name: "builtin two-statements-without-effect expr=" + e + " ctx=" + c, src: prelude + w[0] + e + "\nvi\n" + w[1]})
			out = append(out, c16Item{name: "builtin three-statements-without-effect expr=" + e + " ctx=" + c, src: prelude + w[0] + "5\n" + e + "\n(vi)\n" + w[1]})
		}
	}
	// empty blocks of every kind, many functions, deep nesting
	out = append(out, c16Item{name: "empty blocks of every kind", src: "vi := 1\nif vi == 1 {\n}\nif vi == 2 {\n} else {\n}\nif vi == 1 {\n} else if vi == 2 {\n} else {\n}\nfor vi < 0 {\n}\nfor q := 0; q < 2; q++ {\n}\nswitch vi {\n}\nswitch vi {\ncase 1:\ndefault:\n}\nfunc e1() {\n}\ne1()\nfor i, c := range \"ab\" {\n}\n"})
	var many strings.Builder
	for i := 1; i <= 8; i++ {
		fmt.Fprintf(&many, "func fn%d(a int) int {\n\tif a > %d {\n\t\treturn a\n\t}\n", i, i)
		if i > 1 {
			fmt.Fprintf(&many, "\treturn fn%d(a + 1)\n}\n", i-1)
		} else {
			many.WriteString("\treturn a * 2\n}\n")
		}
	}
	many.WriteString("print(fn8(1), fn3(2), fn1(0))\n")
	out = append(out, c16Item{name: "eight chained functions", src: many.String()})
	deep := "v := 0\n"
	closeB := ""
	for d := 0; d < 6; d++ {
		switch d % 3 {
		case 0:
			deep += fmt.Sprintf("for i%d := 0; i%d < 2; i%d++ {\n", d, d, d)
		case 1:
			deep += "if v >= 0 {\n"
		case 2:
			deep += "switch v {\ndefault:\n"
		}
		closeB = "}\n" + closeB
	}
	deep += "v++\nif v > 3 {\nbreak\n}\ncontinue\n" + closeB + "print(v)\n"
	out = append(out, c16Item{name: "nesting depth 6 with break/continue", src: deep})
	return out
}

func tsmodelQuote(s string) string { return Quote(s) }

func C16() int {
	r := findings.New("C16")
	defer drive.Cleanup()
	deadline := r.Deadline(10*time.Minute, 40*time.Minute)
	var items []c16Item
	{ // statements that may emit no code as the whole content of every block kind; operand origins per facility (c16spaces.go);
		// first in the list: small programs that no other family contains, judged even when a loaded machine makes the run hit its deadline
		eb, ec := c16EmptyBlockPrograms()
		items = append(items, eb...)
		for _, k := range drive.SortedKeys(ec) {
			r.Set("emptyblk_"+k, ec[k])
		}
		ob, oc := c16OriginPrograms()
		items = append(items, ob...)
		for _, k := range drive.SortedKeys(oc) {
			r.Set("origin_"+k, oc[k])
		}
	}
	addSk := func(label string, kinds []skKind, n, d int) {
		memo := map[[3]int][][]skNode{}
		seqs := enumSeqs(kinds, n, d, 3, memo)
		for i, s := range seqs {
			p, rec := skProgramRec(s, i%4 == 3)
			items = append(items, c16Item{name: "skeleton " + label + ":" + skName(s), src: PrintProg(*p), rec: rec})
		}
		r.Set("skeletons_"+label, len(seqs))
	}
	addSk("n1_full", fullKinds(), 1, 1)
	addSk("n2_full", fullKinds(), 2, 2)
	if r.Thorough() {
		// (quick leaves the three-construct control skeletons to C01, which executes them on Bash, and C05, which
		// executes them under the cmd.exe model: a malformed script fails there too)
		addSk("n3_control", controlKinds(), 3, 3)
		addSk("n3_medium", mediumKinds(), 3, 3)
		addSk("n4_control", controlKinds(), 4, 3)
	}
	for i, p := range c01SimplePrograms() {
		items = append(items, c16Item{name: fmt.Sprintf("simple:#%d", i), src: PrintProg(*p)})
	}
	for i, p := range c02Typed() {
		items = append(items, c16Item{name: fmt.Sprintf("functions typed#%d", i), src: PrintProg(*p)})
	}
	f1s := c02Specs(0, nil, r.Thorough())
	for _, s1 := range f1s {
		items = append(items, c16Item{name: "functions 1fn:" + s1.String(), src: PrintProg(*c02Program([]fnSpec{s1}))})
		for _, s2 := range c02Specs(1, []fnSpec{s1}, false) {
			items = append(items, c16Item{name: "functions 2fn:" + s1.String() + " | " + s2.String(), src: PrintProg(*c02Program([]fnSpec{s1, s2}))})
		}
	}
	ops := c03Ops()
	for _, el := range c03Elems {
		if el.tag != "" {
			continue
		}
		var rec func(h []int, st c03State, d int)
		rec = func(h []int, st c03State, d int) {
			if len(h) > 0 {
				p, _ := c03HistoryProg(h, ops, el)
				items = append(items, c16Item{name: "slice-history " + c03HistName(h, ops, el), src: PrintProg(*p)})
			}
			if d == 2 {
				return
			}
			for oi, op := range ops {
				if op.ok(st) {
					ns := st.clone()
					op.apply(&ns)
					rec(append(append([]int{}, h...), oi), ns, d+1)
				}
			}
		}
		rec(nil, c03State{objs: [][]int{{1, 2}, {}}, v: 0, w: 1}, 0)
	}
	for _, t := range c04Templates() {
		for mask := 0; mask < 1<<len(t.plain); mask++ {
			for _, ctx := range c04Contexts {
				if popcount(mask) > 1 && ctx != "function" {
					continue
				}
				items = append(items, c16Item{name: fmt.Sprintf("traced stmt=%s mask=%d ctx=%s", t.name, mask, ctx), src: PrintProg(*c04Program(t, mask, ctx))})
			}
		}
	}
	items = append(items, c16BuiltinPrograms()...)
	// a value-carrying return nested in a block of a RESULT-LESS function is accepted today (the listed C06 finding
	// "nested returns unchecked"); as long as such programs are accepted their scripts must be well-formed too
	// (if the typing defect is repaired they are rejected and drop out: no expectation of acceptance here)
	for i, body := range []string{
		"if n > 1 {\n\t\treturn n\n\t}\n\tprint(n)",
		"for i := 0; i < n; i++ {\n\t\tif i == 1 {\n\t\t\treturn i\n\t\t}\n\t}\n\tprint(n)",
		"switch n {\n\tcase 2:\n\t\treturn n\n\tdefault:\n\t\tprint(n)\n\t}",
	} {
		items = append(items, c16Item{name: fmt.Sprintf("accepted-by-listed-typing-defect nested-return-in-result-less-function#%d", i), src: "func report(n int) {\n\t" + body + "\n}\nreport(2)\nreport(1)\nprint(\"done\")\n"})
	}
	for _, tp := range corpus.Tiny() { // sole-facility programs: whatever a facility needs must not depend on another statement
		items = append(items, c16Item{name: "tiny " + tp.Name, src: tp.Src})
	}
	for _, cp := range crossReduced(r.Thorough()) { // the cross-feature space (cross.go)
		items = append(items, c16Item{name: "cross " + cp.name, src: PrintProg(*cp.prog)})
	}
	for _, c := range c09Cases(r.Thorough()) { // multi-file programs: unused-function removal must not leave calls without a routine
		files := map[string]string{}
		for _, l := range c.libs {
			files[fmt.Sprintf("l%d.tsh", l.id)] = c09LibSource(c, l, c09LibProg(l))
		}
		if c.localStd {
			files["strings.tsh"] = "func Contains(s string, sub string) string {\n\treturn \"mine:\" + sub\n}\n"
		}
		items = append(items, c16Item{name: "imports " + c.name, src: PrintProg(*c09MainProg(c)), files: files, twice: c09ReachedTwice(c)})
	}
	{ // dedupe by source
		seen := map[string]bool{}
		var u []c16Item
		for _, it := range items {
			k := it.src
			for _, fk := range drive.SortedKeys(it.files) {
				k += "\x00" + fk + "\x00" + it.files[fk]
			}
			if !seen[k] {
				seen[k] = true
				u = append(u, it)
			}
		}
		items = u
	}
	scratch := drive.NewDir("c16")
	var mu sync.Mutex
	done, accepted, capped := 0, 0, false
	if fam := os.Getenv("VERIF_C16_FAMILIES"); fam != "" { // development aid: judge only the named program groups (never exhaustive)
		var u []c16Item
		for _, it := range items {
			for _, f := range strings.Split(fam, ",") {
				if strings.Fields(it.name)[0] == f {
					u = append(u, it)
				}
			}
		}
		items, capped = u, true
		r.Set("cap_hit", "restricted to the program groups "+fam+" by VERIF_C16_FAMILIES")
	}
	groups := map[string]int{}
	drive.Par(len(items), func(i int) {
		if past(deadline) {
			mu.Lock()
			capped = true
			mu.Unlock()
			return
		}
		it := items[i]
		fs := map[string]string{"main.tsh": it.src}
		for k, v := range it.files {
			fs[k] = v
		}
		rb := drive.Transpile(fs, "main.tsh", drive.Bash)
		rw := drive.Transpile(fs, "main.tsh", drive.Batch)
		mu.Lock()
		done++
		groups[strings.Fields(it.name)[0]]++
		mu.Unlock()
		if i%997 == 0 {
			r.Sample(map[string]string{"kind": strings.Fields(it.name)[0], "case": it.name, "source": clipN(it.src, 1200)})
		}
		fail := func(rule, detail string, script string) {
			if it.twice && strings.HasPrefix(rule, "batch: label defined twice") {
				if pub := c16PublicLabelTwice(script); pub != "" {
					// public routines are de-duplicated even for a file reached twice: not the listed finding
					rule = "batch: label of a PUBLIC routine defined twice"
					detail += "; " + pub
				} else {
					rule = "batch: label defined twice (routine of a file that the import graph reaches twice)"
				}
			}
			r.Fail("rule="+rule, fmt.Sprintf("%s: %s (%s)", it.name, rule, detail), func() findings.Replay {
				return findings.Replay{Files: map[string]string{"src/main.tsh": it.src, "script.txt": script, "detail.txt": it.name + "\n" + rule + ": " + detail + "\n"}, Script: transpileOnlyReplay() + "\n# then: bash -n on the emitted .sh / structural reading of the emitted .bat (vcheck batstruct <file>)"}
			})
		}
		if rb.Panic != "" || rw.Panic != "" {
			fail("transpiler-panic", firstLine(rb.Panic+rw.Panic), "")
			return
		}
		if !rb.OK() || !rw.OK() {
			// C16 speaks about accepted programs; generated programs are meant to be accepted
			if strings.HasPrefix(it.name, "builtin") || strings.HasPrefix(it.name, "cross") || strings.HasPrefix(it.name, "tiny") || strings.HasPrefix(it.name, "skeleton") || strings.HasPrefix(it.name, "empty") || strings.HasPrefix(it.name, "imports") || strings.HasPrefix(it.name, "emptyblk") || strings.HasPrefix(it.name, "origin") {
				fail("generated-program-rejected", rb.Err+" / "+rw.Err, "")
			}
			return
		}
		mu.Lock()
		accepted++
		mu.Unlock()
		// Bash: the shell's own syntax check
		sp := filepath.Join(scratch, fmt.Sprintf("s%d.sh", i))
		os.WriteFile(sp, []byte(rb.Script), 0o644)
		out, err := exec.Command("/bin/bash", "-n", sp).CombinedOutput()
		os.Remove(sp)
		if err != nil {
			// key by the token bash trips over, not by the program (one cause, one key)
			tok := "other"
			if m := regexp.MustCompile("unexpected token `([^']*)'").FindStringSubmatch(string(out)); m != nil {
				tok = m[1]
			} else if strings.Contains(string(out), "unexpected end of file") || strings.Contains(string(out), "unexpected EOF") {
				tok = "EOF"
			}
			fail("bash-syntax-check unexpected="+tok, firstLine(string(out)), rb.Script)
		}
		// Batch: structure
		bs := parseBat(rw.Script)
		for _, e := range batCheckBasic(bs) {
			fail("batch: "+e, "", rw.Script)
		}
		if it.rec != nil {
			for _, e := range batCheckContainment(bs, it.rec) {
				fail("batch: "+e, "", rw.Script)
			}
		}
	})
	var gr []string
	for k, n := range groups {
		gr = append(gr, fmt.Sprintf("%s=%d", k, n))
	}
	sort.Strings(gr)
	r.Set("program_groups", gr)
	r.Set("accepted_programs_checked", accepted)
	r.Set("evaluations", done)
	r.Set("distinct_nontrivial", len(items))
	r.Set("exhaustive", !capped)
	r.Set("rule", "union of the program enumerators of C01 (control skeletons, with a marker print in every block, behind every construct and in front of every break/continue), C02, C03, C04 at larger bounds than their executing checks, plus every builtin that cannot be executed blindly (input, read, write, exists, @app chains, copy, panic) in every statement position and context, empty blocks of every kind, 8 chained functions, nesting depth 6, the cross-feature space of cross.go, and two spaces of c16spaces.go: (E, group emptyblk) statements that may emit no code - every compound statement with empty bodies (if, if-else, else-if chains, an if nested in a then / else / case / default, a switch in an if, a switch without cases / with only an empty default / with empty cases over a tag that is absent, an int, bool or string variable or a literal, tag-less cases) x every condition kind (bool variable, literal true / false, parenthesised once and twice, negated variable and literal, int comparison, bool comparison, &&, call, slice element, bool parameter; two-condition chains: both equal or one of them the plain variable), plus three code-less expression statements - as the WHOLE content of every block kind (top level, then, else-if, else, else behind an empty then, case, default, tag-less case, function without parameters, with parameters, with a result, loop bodies of the condition / three-part / range-over-slice / range-over-string forms, then / else / loop body inside a function, then inside a loop): every statement alone, every ordered pair over a 12-statement sub-alphabet, every ordered triple over a 5-statement sub-alphabet (counters emptyblk_*); (O, group origin) sole-facility programs for every facility that owns a helper routine or a required-flag in a back-end (string length and range over a string, string index / slices, string comparison, concatenation, itoa, print, panic, write, read, exists, input prompt, plain / piped / captured commands, slice literal, slice length, element, range, element assignment, copy; several also used twice in one program) x the ORIGIN of every operand, all vectors (literal written directly, parenthesised literal, variable, result of a user function, operation on literals, operation on a variable, slice element, function parameter, itoa / negated literal; three-operand facilities over five of them; subscript subjects and copy destinations are names) x site (top level, a function that is called, a function that is never called) x use of the value (defined only / printed) (counters origin_*). Oracle Bash: `bash -n` accepts the script. Oracle Batch (structural reading of the script text): parentheses outside quotes balance, every goto/call target label exists, no label is defined twice, each helper routine is contained exactly when it is used (a routine that is present but reachable from no call outside the helper routines is a failure, a call of a routine that is absent is a failure), and jump containment independent of label naming: located through the marker prints, the jump emitted for each continue lands in the head region of its own loop, for each break in the tail region of its own loop, and every other marker-crossing jump of a construct lands on its own head (loops) or directly behind it. Distinct by source text.")
	r.Assumef("Batch well-formedness is decided on the script text (no cmd.exe); string contents in these programs contain no quotes or parentheses (C08 owns data)")
	return finish(r)
}

func init() {
	Tools["batstruct"] = func(args []string) int {
		b, err := os.ReadFile(args[0])
		if err != nil {
			fmt.Println(err)
			return 2
		}
		errs := batCheckBasic(parseBat(string(b)))
		for _, e := range errs {
			fmt.Println(e)
		}
		if len(errs) > 0 {
			return 1
		}
		fmt.Println("structure ok")
		return 0
	}
}

var c16PubLabel = regexp.MustCompile(`(?m)^:(_[0-9a-f]{7}_[A-Z][A-Za-z0-9_]*)\s*$`)

// c16PublicLabelTwice names a label of an imported PUBLIC function (prefix + upper-case name) that occurs twice.
func c16PublicLabelTwice(script string) string {
	n := map[string]int{}
	for _, m := range c16PubLabel.FindAllStringSubmatch(strings.ReplaceAll(script, "\r", ""), -1) {
		n[m[1]]++
		if n[m[1]] > 1 {
			return m[1]
		}
	}
	return ""
}

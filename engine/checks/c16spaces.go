package checks

import (
	"fmt"
	"strings"

	"verif/drive"
)

// Two program spaces of C16 that no other check's generator provides.
//
// (E) "emptyblk": statements that MAY emit no code at all (compound statements whose bodies are all empty, over
//     every kind of condition, plus a few expression statements), alone and as two / three in a row, as the whole
//     content of every kind of block a back-end must not leave empty.
// (O) "origin": sole-facility programs for every facility that owns a helper routine or a required-flag in one of
//     the back-ends, for every ORIGIN of each of its operands (a helper may be requested on one path and called
//     on another; only a program in which every use takes the same path shows it).
//
// Both are plain text; the judging (bash -n, structural reading of the Batch text) is C16's.

// ---------------------------------------------------------------------------------------------------------
// (E) empty compound statements in blocks

type c16Cond struct {
	name, src string
	param     bool // reads a parameter: only inside the block kinds that declare one
}

func c16Conds() []c16Cond {
	return []c16Cond{
		{"var", "vb", false},
		{"lit-true", "true", false},
		{"lit-false", "false", false},
		{"group-var", "(vb)", false},
		{"group2-lit", "((true))", false},
		{"not-var", "!vb", false},
		{"not-lit", "!false", false},
		{"int-compare", "vi > 1", false},
		{"bool-compare", "vb == gb", false},
		{"and", "vb && gb", false},
		{"call", "fb()", false},
		{"elem", "xb[0]", false},
		{"param", "pb", true},
	}
}

type c16EStmt struct {
	name, src string
	param     bool
}

// c16EmptyStmts: the statement alphabet (compound statements with empty bodies, code-less expression statements, and
// ordinary statements that look redundant). full = every template x every condition; the reduced alphabets (pairs,
// triples) are sub-lists of it, picked by name.
func c16EmptyStmts() []c16EStmt {
	one := []struct{ name, tpl string }{
		{"if", "if %C {\n}\n"},
		{"if-else", "if %C {\n} else {\n}\n"},
		{"if-in-if", "if %C {\nif %C {\n}\n}\n"},
		{"if-in-else", "if %C {\n} else {\nif %C {\n}\n}\n"},
		{"switch-in-if", "if %C {\nswitch vi {\n}\n}\n"},
		{"if-in-default", "switch vi {\ndefault:\nif %C {\n}\n}\n"},
		{"if-in-case", "switch vi {\ncase 1:\nif %C {\n}\n}\n"},
		{"tagless-case", "switch {\ncase %C:\n}\n"},
		{"tagless-case-default", "switch {\ncase %C:\ndefault:\n}\n"},
	}
	two := []struct{ name, tpl string }{
		{"elif", "if %C {\n} else if %D {\n}\n"},
		{"elif-else", "if %C {\n} else if %D {\n} else {\n}\n"},
		{"elif-elif", "if %C {\n} else if %D {\n} else if %C {\n}\n"},
	}
	var out []c16EStmt
	conds := c16Conds()
	for _, t := range one {
		for _, c := range conds {
			out = append(out, c16EStmt{t.name + "[" + c.name + "]", strings.ReplaceAll(t.tpl, "%C", c.src), c.param})
		}
	}
	for _, t := range two {
		for _, c := range conds {
			for _, d := range conds {
				if c.name != d.name && c.name != "var" && d.name != "var" {
					continue // both the same, or one of them the plain variable
				}
				out = append(out, c16EStmt{t.name + "[" + c.name + "," + d.name + "]",
					strings.ReplaceAll(strings.ReplaceAll(t.tpl, "%C", c.src), "%D", d.src), c.param || d.param})
			}
		}
	}
	for _, tag := range []struct{ name, src string }{{"none", ""}, {"int", "vi "}, {"bool", "vb "}, {"string", "vs "}, {"int-lit", "1 "}, {"bool-lit", "true "}} {
		out = append(out, c16EStmt{"switch-empty[" + tag.name + "]", "switch " + tag.src + "{\n}\n", false})
		out = append(out, c16EStmt{"switch-default[" + tag.name + "]", "switch " + tag.src + "{\ndefault:\n}\n", false})
	}
	out = append(out,
		c16EStmt{"switch-case[int]", "switch vi {\ncase 1:\n}\n", false},
		c16EStmt{"switch-case[bool]", "switch vb {\ncase true:\n}\n", false},
		c16EStmt{"switch-case[string]", "switch vs {\ncase \"s\":\n}\n", false},
		c16EStmt{"switch-case-default[int]", "switch vi {\ncase 1:\ndefault:\n}\n", false},
		c16EStmt{"switch-two-cases[int]", "switch vi {\ncase 1:\ncase 2:\n}\n", false},
		c16EStmt{"expr[var]", "vb\n", false},
		c16EStmt{"expr[group]", "(vi)\n", false},
		c16EStmt{"expr[lit]", "5\n", false},
	)
	// ordinary statements a transpiler could take for redundant (assigning a variable to itself, neutral operands,
	// values never used, definitions of zero values): each must still leave its block well-formed
	for _, st := range []string{"vi = vi", "vi += 0", "vi -= 0", "vi *= 1", "vi /= 1", "vi = vi + 0", "vi = (vi)", "vi = 1", "vs = vs", "vs += \"\"", "vs = vs + \"\"", "vs = \"s\"",
		"vb = vb", "vb = !!vb", "vb = vb && true", "vb = vb || false", "vb = true", "vi, vs = vi, vs", "vi, vb = vi, vb", "xi = xi", "xi[0] = xi[0]", "xi[0] = 1",
		"d := vi", "d := 0", "d := \"\"", "d := false", "var d int", "var d string", "var d bool", "var d []int", "var d int = 0", "var d = vs", "d, e := vi, vs", "d := xi", "d := []int{}",
		"print()", "print(\"\")", "fb()", "len(vs)", "len(xi)", "itoa(vi)", "copy(xi, xi)", "vi++", "vi--", "vi == vi", "vs + \"\"", "!vb"} {
		out = append(out, c16EStmt{"plain[" + st + "]", st + "\n", false})
	}
	return out
}

var c16EPairAlphabet = []string{"if[var]", "if[lit-true]", "if[group-var]", "if[int-compare]", "if-else[var]", "if-in-if[var]",
	"elif[var,var]", "switch-empty[none]", "switch-empty[int]", "switch-default[int]", "if-in-default[var]", "expr[var]"}
var c16ETripleAlphabet = []string{"if[var]", "if[lit-true]", "switch-empty[int]", "switch-default[int]", "if-in-if[var]"}

type c16EBlock struct {
	name        string
	open, close string
	param       bool
}

func c16EmptyBlocks() []c16EBlock {
	return []c16EBlock{
		{"top", "", "", false},
		{"then", "if vi > 0 {\n", "}\n", false},
		{"else-if", "if vi > 5 {\nvi = 0\n} else if vi > 0 {\n", "}\n", false},
		{"else", "if vi > 5 {\nvi = 0\n} else {\n", "}\n", false},
		{"else-after-empty-then", "if vi > 5 {\n} else {\n", "}\n", false},
		{"case", "switch vi {\ncase 1:\n", "default:\nvi = 0\n}\n", false},
		{"default", "switch vi {\ncase 1:\nvi = 0\ndefault:\n", "}\n", false},
		{"tagless-case", "switch {\ncase vi > 0:\n", "}\n", false},
		{"function", "func ctx() {\n", "}\nctx()\n", false},
		{"function-params", "func ctx(pa int, pb bool) {\n", "}\nctx(1, true)\n", true},
		{"function-result", "func ctx() int {\n", "return 1\n}\nvi = ctx()\n", false},
		{"for-condition", "for vi < 0 {\n", "}\n", false},
		{"for-three", "for q := 0; q < 2; q++ {\n", "}\n", false},
		{"range-slice", "for ri, re := range xi {\n", "}\n", false},
		{"range-string", "for ri, rc := range vs {\n", "}\n", false},
		{"then-in-function", "func ctx() {\nif vi > 0 {\n", "}\n}\nctx()\n", false},
		{"else-in-function", "func ctx() {\nif vi > 5 {\nvi = 0\n} else {\n", "}\n}\nctx()\n", false},
		{"for-in-function", "func ctx() {\nfor vi < 0 {\n", "}\n}\nctx()\n", false},
		{"then-in-for", "for vi < 0 {\nif vi > 0 {\n", "}\n}\n", false},
	}
}

const c16EPrelude = "vi := 1\nvb := true\ngb := false\nvs := \"s\"\nxi := []int{1, 2}\nxb := []bool{true}\nfunc fb() bool {\n\treturn true\n}\n"

// c16EmptyBlockPrograms: every statement alone, every ordered pair over the pair alphabet, every ordered triple over
// the triple alphabet, as the whole content of every block kind.
func c16EmptyBlockPrograms() (items []c16Item, counts map[string]int) {
	all := c16EmptyStmts()
	byName := map[string]c16EStmt{}
	for _, s := range all {
		byName[s.name] = s
	}
	pick := func(names []string) []c16EStmt {
		var out []c16EStmt
		for _, n := range names {
			s, ok := byName[n]
			if !ok {
				panic("c16: unknown statement " + n)
			}
			out = append(out, s)
		}
		return out
	}
	pairs, triples := pick(c16EPairAlphabet), pick(c16ETripleAlphabet)
	counts = map[string]int{"statements": len(all), "conditions": len(c16Conds()), "blocks": len(c16EmptyBlocks()),
		"pair_alphabet": len(pairs), "triple_alphabet": len(triples)}
	add := func(b c16EBlock, seq ...c16EStmt) {
		var names []string
		body := ""
		for _, s := range seq {
			if s.param && !b.param {
				return
			}
			names = append(names, s.name)
			body += s.src
		}
		items = append(items, c16Item{
			name: fmt.Sprintf("emptyblk block=%s n=%d stmts=%s", b.name, len(seq), strings.Join(names, "+")),
			src:  c16EPrelude + b.open + body + b.close + "print(vi)\n",
		})
		counts[fmt.Sprintf("programs_n%d", len(seq))]++
	}
	for _, b := range c16EmptyBlocks() {
		for _, s := range all {
			add(b, s)
		}
		for _, s1 := range pairs {
			for _, s2 := range pairs {
				add(b, s1, s2)
			}
		}
		for _, s1 := range triples {
			for _, s2 := range triples {
				for _, s3 := range triples {
					add(b, s1, s2, s3)
				}
			}
		}
	}
	return items, counts
}

// ---------------------------------------------------------------------------------------------------------
// (O) operand origins

// c16Operand: what an origin contributes to the program.
type c16Operand struct {
	expr  string
	decl  string // top-level declaration the expression needs ("" = none)
	param string // parameter declaration "name type" + "\x00" + argument, when the origin is a parameter
}

// slot types: "s" string, "i" int, "b" bool, "xi" []int
var c16OriginNames = map[string][]string{
	"s":  {"lit", "group-lit", "var", "call", "op-lits", "op-var", "elem", "param", "itoa"},
	"i":  {"lit", "group-lit", "var", "call", "op-lits", "op-var", "elem", "param"},
	"b":  {"lit", "group-lit", "var", "call", "op-lits", "op-var", "elem", "param", "not-lit"},
	"xi": {"lit", "var", "call", "param"},
}

// the five core origins (used for facilities with three operands)
var c16CoreOrigins = map[string]bool{"lit": true, "var": true, "call": true, "op-var": true, "elem": true}

// c16Origin spells the operand number k (names are made unique by k) of type typ with literal value val.
func c16Origin(origin, typ string, k int, val string) c16Operand {
	tn := map[string]string{"s": "string", "i": "int", "b": "bool", "xi": "[]int"}[typ]
	lit := val
	var a, b string // two literals whose combination has the value
	switch typ {
	case "s":
		lit = tsmodelQuote(val)
		h := len(val) / 2
		a, b = tsmodelQuote(val[:h]), tsmodelQuote(val[h:])
	case "i":
		a, b = val, "0"
	case "b":
		a, b = val, val
	}
	op := map[string]string{"s": " + ", "i": " + ", "b": " && "}[typ]
	if typ == "b" && val == "false" {
		op = " || "
	}
	v := fmt.Sprintf("v%s%d", typ, k)
	switch origin {
	case "lit":
		return c16Operand{expr: lit}
	case "group-lit":
		return c16Operand{expr: "(" + lit + ")"}
	case "var":
		return c16Operand{expr: v, decl: v + " := " + lit + "\n"}
	case "call":
		f := fmt.Sprintf("f%s%d", typ, k)
		return c16Operand{expr: f + "()", decl: "func " + f + "() " + tn + " {\n\treturn " + lit + "\n}\n"}
	case "op-lits":
		return c16Operand{expr: a + op + b}
	case "op-var":
		if typ == "s" {
			return c16Operand{expr: v + op + b, decl: v + " := " + a + "\n"}
		}
		return c16Operand{expr: v + op + b, decl: v + " := " + a + "\n"}
	case "elem":
		e := fmt.Sprintf("e%s%d", typ, k)
		return c16Operand{expr: e + "[0]", decl: e + " := []" + tn + "{" + lit + "}\n"}
	case "param":
		p := fmt.Sprintf("p%s%d", typ, k)
		return c16Operand{expr: p, param: p + " " + tn + "\x00" + lit}
	case "itoa":
		return c16Operand{expr: "itoa(7)"}
	case "not-lit":
		if val == "true" {
			return c16Operand{expr: "!false"}
		}
		return c16Operand{expr: "!true"}
	}
	panic("c16: unknown origin " + origin)
}

type c16Slot struct {
	typ, val string
	only     []string // restriction of the origins (nil = all of the type)
}

type c16Facility struct {
	name   string
	slots  []c16Slot
	tpl    string // %0 %1 %2 = operands
	result string // "" = the template is a statement; otherwise the type of the expression ("s","i","b","x" = a slice)
	pre    string // declaration the statement needs besides its operands
}

func c16Facilities() []c16Facility {
	S := func(v string) c16Slot { return c16Slot{typ: "s", val: v} }
	I := func(v string) c16Slot { return c16Slot{typ: "i", val: v} }
	B := func(v string) c16Slot { return c16Slot{typ: "b", val: v} }
	X := c16Slot{typ: "xi", val: "[]int{1, 2}"}
	// the subject of a subscript is a name (a subscript of a literal, a call, a group or an element is not in the language)
	sub := c16Slot{typ: "s", val: "abcdef", only: []string{"var", "param"}}
	xsub := c16Slot{typ: "xi", val: "[]int{1, 2}", only: []string{"var", "param"}}
	dst := c16Slot{typ: "xi", val: "[]int{}", only: []string{"var", "param"}}
	return []c16Facility{
		// Batch: string length helper (also requested by a range over a string)
		{name: "string-len", slots: []c16Slot{S("abc")}, tpl: "len(%0)", result: "i"},
		{name: "string-len-twice", slots: []c16Slot{S("abc"), S("de")}, tpl: "r0 := len(%0)\nr1 := len(%1)\n"},
		{name: "string-range", slots: []c16Slot{S("abc")}, tpl: "for ri, rc := range %0 {\n}\n"},
		{name: "string-range-twice", slots: []c16Slot{S("abc"), S("de")}, tpl: "for ri, rc := range %0 {\n}\nfor rj, rd := range %1 {\n}\n"},
		{name: "string-range-and-len", slots: []c16Slot{S("abc"), S("de")}, tpl: "for ri, rc := range %0 {\n}\nr1 := len(%1)\n"},
		// both: substring helper
		{name: "string-index", slots: []c16Slot{sub, I("1")}, tpl: "%0[%1]", result: "s"},
		{name: "string-slice", slots: []c16Slot{sub, I("1"), I("3")}, tpl: "%0[%1:%2]", result: "s"},
		{name: "string-slice-from", slots: []c16Slot{sub, I("1")}, tpl: "%0[%1:]", result: "s"},
		{name: "string-slice-to", slots: []c16Slot{sub, I("3")}, tpl: "%0[:%1]", result: "s"},
		// no routine, but operands travel through the same string templates
		{name: "string-compare", slots: []c16Slot{S("abc"), S("abd")}, tpl: "%0 == %1", result: "b"},
		{name: "string-concat", slots: []c16Slot{S("abc"), S("de")}, tpl: "%0 + %1", result: "s"},
		{name: "itoa", slots: []c16Slot{I("42")}, tpl: "itoa(%0)", result: "s"},
		// Batch: echo helper
		{name: "print-string", slots: []c16Slot{S("abc")}, tpl: "print(%0)\n"},
		{name: "print-int", slots: []c16Slot{I("42")}, tpl: "print(%0)\n"},
		{name: "print-bool", slots: []c16Slot{B("true")}, tpl: "print(%0)\n"},
		{name: "print-two", slots: []c16Slot{S("abc"), I("42")}, tpl: "print(%0, %1)\n"},
		{name: "print-twice", slots: []c16Slot{S("abc"), S("de")}, tpl: "print(%0)\nprint(%1)\n"},
		{name: "panic", slots: []c16Slot{S("abc")}, tpl: "panic(%0)\n"},
		// Batch: file helpers
		{name: "write", slots: []c16Slot{S("f.txt"), S("abc")}, tpl: "write(%0, %1)\n"},
		{name: "write-append", slots: []c16Slot{S("f.txt"), S("abc"), B("true")}, tpl: "write(%0, %1, %2)\n"},
		{name: "read", slots: []c16Slot{S("f.txt")}, tpl: "read(%0)", result: "s"},
		{name: "read-twice", slots: []c16Slot{S("f.txt"), S("g.txt")}, tpl: "r0 := read(%0)\nr1 := read(%1)\n"},
		{name: "exists", slots: []c16Slot{S("f.txt")}, tpl: "exists(%0)", result: "b"},
		{name: "input-prompt", slots: []c16Slot{S("? ")}, tpl: "input(%0)", result: "s"},
		// Batch: app call helper (captured calls)
		{name: "command-plain", slots: []c16Slot{S("abc")}, tpl: "@echo(%0)\n"},
		{name: "command-two-args", slots: []c16Slot{S("abc"), S("de")}, tpl: "@echo(%0, %1)\n"},
		{name: "command-piped", slots: []c16Slot{S("abc"), S("b")}, tpl: "@echo(%0) | @grep(%1)\n"},
		{name: "command-captured", slots: []c16Slot{S("abc")}, tpl: "co, ce, cc := @echo(%0)\n"},
		{name: "command-captured-piped", slots: []c16Slot{S("abc"), S("b")}, tpl: "co, ce, cc := @echo(%0) | @grep(%1)\n"},
		{name: "command-captured-twice", slots: []c16Slot{S("abc"), S("de")}, tpl: "co, ce, cc := @echo(%0)\ndo, de, dc := @echo(%1)\n"},
		// slices: length get/set, assignment and copy helpers
		{name: "slice-literal-int", slots: []c16Slot{I("4"), I("5")}, tpl: "[]int{%0, %1}", result: "x"},
		{name: "slice-literal-string", slots: []c16Slot{S("abc"), S("de")}, tpl: "[]string{%0, %1}", result: "x"},
		{name: "slice-literal-bool", slots: []c16Slot{B("true"), B("false")}, tpl: "[]bool{%0, %1}", result: "x"},
		{name: "slice-len", slots: []c16Slot{X}, tpl: "len(%0)", result: "i"},
		{name: "slice-len-twice", slots: []c16Slot{X, X}, tpl: "r0 := len(%0)\nr1 := len(%1)\n"},
		{name: "slice-element", slots: []c16Slot{xsub, I("1")}, tpl: "%0[%1]", result: "i"},
		{name: "slice-range", slots: []c16Slot{X}, tpl: "for ri, re := range %0 {\n}\n"},
		{name: "slice-assign-int", slots: []c16Slot{I("2"), I("9")}, tpl: "ta[%0] = %1\n", pre: "ta := []int{}\n"},
		{name: "slice-assign-string", slots: []c16Slot{I("2"), S("abc")}, tpl: "ta[%0] = %1\n", pre: "ta := []string{}\n"},
		{name: "slice-assign-bool", slots: []c16Slot{I("2"), B("true")}, tpl: "ta[%0] = %1\n", pre: "ta := []bool{}\n"},
		{name: "slice-assign-param-slice", slots: []c16Slot{dst, I("2"), I("9")}, tpl: "%0[%1] = %2\n"},
		{name: "slice-copy", slots: []c16Slot{dst, X}, tpl: "copy(%0, %1)", result: "i"},
		{name: "slice-copy-statement", slots: []c16Slot{dst, X}, tpl: "copy(%0, %1)\n"},
	}
}

// c16OriginPrograms: facility x origin vector (all of them; facilities with three operands over the five core
// origins) x site (top level / a function that is called / a function that is never called) x use of the value
// (defined only / printed; statements have no use dimension).
func c16OriginPrograms() (items []c16Item, counts map[string]int) {
	counts = map[string]int{}
	facs := c16Facilities()
	counts["facilities"] = len(facs)
	for _, f := range facs {
		// origin vectors
		var vecs [][]string
		var rec func(k int, cur []string)
		rec = func(k int, cur []string) {
			if k == len(f.slots) {
				vecs = append(vecs, append([]string{}, cur...))
				return
			}
			names := f.slots[k].only
			if names == nil {
				names = c16OriginNames[f.slots[k].typ]
			}
			for _, o := range names {
				if len(f.slots) >= 3 && f.slots[k].only == nil && len(c16OriginNames[f.slots[k].typ]) > 5 && !c16CoreOrigins[o] {
					continue
				}
				rec(k+1, append(cur, o))
			}
		}
		rec(0, nil)
		uses := []string{"statement"}
		switch f.result {
		case "s", "i", "b":
			uses = []string{"define", "print"}
		case "x":
			uses = []string{"define"}
		}
		for _, vec := range vecs {
			var decls, params, args []string
			body := f.tpl
			hasParam := false
			for k, o := range vec {
				op := c16Origin(o, f.slots[k].typ, k, f.slots[k].val)
				body = strings.ReplaceAll(body, fmt.Sprintf("%%%d", k), op.expr)
				if op.decl != "" {
					decls = append(decls, op.decl)
				}
				if op.param != "" {
					pa := strings.SplitN(op.param, "\x00", 2)
					params, args = append(params, pa[0]), append(args, pa[1])
					hasParam = true
				}
			}
			for _, use := range uses {
				stmt := body
				switch use {
				case "define":
					stmt = "r := " + body + "\n"
				case "print":
					stmt = "print(" + body + ")\n"
				}
				for _, site := range []string{"top", "function", "dead-function"} {
					if site == "top" && hasParam {
						continue
					}
					if site != "top" && len(vec) >= 3 && use == "print" {
						continue // bound: three-operand facilities are printed at top level only
					}
					src := strings.Join(decls, "") + f.pre
					switch site {
					case "top":
						src += stmt
					case "function":
						src += "func site(" + strings.Join(params, ", ") + ") {\n" + stmt + "}\nsite(" + strings.Join(args, ", ") + ")\n"
					case "dead-function":
						src += "func site(" + strings.Join(params, ", ") + ") {\n" + stmt + "}\n"
					}
					items = append(items, c16Item{
						name: fmt.Sprintf("origin facility=%s site=%s use=%s origins=%s", f.name, site, use, strings.Join(vec, ",")),
						src:  src,
					})
					counts["programs"]++
					counts["programs_site_"+site]++
				}
			}
		}
		counts["origin_vectors"] += len(vecs)
	}
	return items, counts
}

// vcheck c16spaces [rejected|dump <substring>]: development view of the two spaces (which programs are rejected,
// the text of the programs whose name contains a substring).
func init() {
	Tools["c16spaces"] = func(args []string) int {
		defer drive.Cleanup()
		eb, _ := c16EmptyBlockPrograms()
		ob, _ := c16OriginPrograms()
		items := append(eb, ob...)
		if len(args) >= 2 && args[0] == "dump" {
			for _, it := range items {
				if strings.Contains(it.name, args[1]) {
					fmt.Printf("=== %s\n%s", it.name, it.src)
					for _, tg := range []drive.Target{drive.Bash, drive.Batch} {
						res := drive.TranspileSrc(it.src, tg)
						fmt.Printf("--- err=%q\n%s\n", res.Err, res.Script)
					}
				}
			}
			return 0
		}
		type rej struct{ name, err string }
		out := make([]rej, len(items))
		drive.Par(len(items), func(i int) {
			rb := drive.TranspileSrc(items[i].src, drive.Bash)
			rw := drive.TranspileSrc(items[i].src, drive.Batch)
			if !rb.OK() || !rw.OK() {
				out[i] = rej{items[i].name, firstLine(rb.Err + rb.Panic + " / " + rw.Err + rw.Panic)}
			}
		})
		n := 0
		for _, o := range out {
			if o.name != "" {
				n++
				fmt.Printf("%s :: %s\n", o.name, o.err)
			}
		}
		fmt.Printf("%d of %d rejected\n", n, len(items))
		return 0
	}
}

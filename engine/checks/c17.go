package checks

import (
	"fmt"
	"regexp"
	"sort"
	"strings"
	"sync"
	"sync/atomic"
	"time"

	"verif/drive"
	"verif/findings"
	. "verif/tsmodel"
)

func init() { Registry["C17"] = C17 }

var c17Paths = []string{"a.txt", "b.txt", "sub/c.txt", "a b.txt", "-dash.txt", "q'uote.txt", "dollar$HOME.txt", "star*.txt", "semi;colon.txt", "UP.TXT", "two  blanks.txt", "paren(1).txt", "amp&.txt", "hash#.txt", "tilde~.txt"}

// c17CellKey takes a cell key apart: family, quoted path, quoted content, context.
var c17CellKey = regexp.MustCompile(`^(cell|cell-without-read) path=("(?:[^"\\]|\\.)*") content=("(?:[^"\\]|\\.)*") ctx=(\S+)$`)

var c17Contents = []string{"one", "two words", "", "it's", `q"q`, "$HOME", "*", "a  b", " lead", "trail ", "-n", "back\\slash", "semi;colon", "line1\nline2", "tab\tsep", "`id`", "$(id)", "x > y", "100%", "#hash", "a&b", "(paren)", "~", "!bang", "tail\n", "\n", "two\n\n", "\nlead"}

type c17Op struct {
	kind    string // W A R E  RR (two reads in one statement: content holds the second path)
	path    string
	content string
}

func (o c17Op) String() string {
	switch o.kind {
	case "W":
		return fmt.Sprintf("write(%q,%q)", o.path, o.content)
	case "A":
		return fmt.Sprintf("append(%q,%q)", o.path, o.content)
	case "R":
		return fmt.Sprintf("read(%q)", o.path)
	case "RR":
		return fmt.Sprintf("read(%q)+read(%q)", o.path, o.content)
	}
	return fmt.Sprintf("exists(%q)", o.path)
}

func c17Stmts(ops []c17Op) []Stmt {
	var st []Stmt
	for i, o := range ops {
		tag := StrLit{V: fmt.Sprintf("op%d", i)}
		switch o.kind {
		case "W":
			st = append(st, Write{Path: StrLit{V: o.path}, Data: StrLit{V: o.content}})
		case "A":
			st = append(st, Write{Path: StrLit{V: o.path}, Data: StrLit{V: o.content}, Append: BoolLit{true}})
		case "R":
			st = append(st, Print{Args: []Expr{tag, StrLit{V: "S"}, ReadE{Path: StrLit{V: o.path}}, StrLit{V: "E"}}})
		case "RR":
			st = append(st, Print{Args: []Expr{tag, ReadE{Path: StrLit{V: o.path}}, ReadE{Path: StrLit{V: o.content}}, Binary{Op: "==", L: ReadE{Path: StrLit{V: o.path}}, R: ReadE{Path: StrLit{V: o.content}}}, Binary{Op: "+", L: ReadE{Path: StrLit{V: o.content}}, R: ReadE{Path: StrLit{V: o.path}}}, ExistsE{Path: StrLit{V: o.path}}, ExistsE{Path: StrLit{V: o.content}}}})
		case "E":
			st = append(st, Print{Args: []Expr{tag, ExistsE{Path: StrLit{V: o.path}}}})
		}
	}
	return st
}

// c17MixedProg: writes go through a wrapper function (a bare call statement), reads and exists
// are direct builtins of the same block.
func c17MixedProg(ops []c17Op) *Prog {
	st := []Stmt{FuncDef{Name: "store", Params: []Param{{"p", TStr}, {"c", TStr}, {"a", TBool}}, Body: []Stmt{Write{Path: Var{"p"}, Data: Var{"c"}, Append: Var{"a"}}}}}
	var body []Stmt
	for _, o := range ops {
		if o.kind == "W" || o.kind == "A" {
			body = append(body, ExprStmt{X: Call{Fn: "store", Args: []Expr{StrLit{V: o.path}, StrLit{V: o.content}, BoolLit{o.kind == "A"}}}})
		} else {
			body = append(body, c17Stmts([]c17Op{o})...)
		}
	}
	return &Prog{Stmts: append(append(st, body...), Print{Args: []Expr{StrLit{V: "done"}}})}
}

// c17WrapperProg routes every operation through one wrapper function per builtin, so the same
// write/read/exists call site is executed repeatedly with different arguments.
func c17WrapperProg(ops []c17Op) *Prog {
	st := []Stmt{
		FuncDef{Name: "wr", Params: []Param{{"p", TStr}, {"c", TStr}, {"a", TBool}}, Body: []Stmt{Write{Path: Var{"p"}, Data: Var{"c"}, Append: Var{"a"}}}},
		FuncDef{Name: "rd", Params: []Param{{"p", TStr}}, Rets: []Type{TStr}, Body: []Stmt{Return{Vals: []Expr{ReadE{Path: Var{"p"}}}}}},
		FuncDef{Name: "ex", Params: []Param{{"p", TStr}}, Rets: []Type{TBool}, Body: []Stmt{Return{Vals: []Expr{ExistsE{Path: Var{"p"}}}}}},
	}
	for i, o := range ops {
		tag := StrLit{V: fmt.Sprintf("op%d", i)}
		switch o.kind {
		case "W", "A":
			st = append(st, ExprStmt{X: Call{Fn: "wr", Args: []Expr{StrLit{V: o.path}, StrLit{V: o.content}, BoolLit{o.kind == "A"}}}})
		case "R":
			st = append(st, Print{Args: []Expr{tag, StrLit{V: "S"}, Call{Fn: "rd", Args: []Expr{StrLit{V: o.path}}}, StrLit{V: "E"}}})
		case "E":
			st = append(st, Print{Args: []Expr{tag, Call{Fn: "ex", Args: []Expr{StrLit{V: o.path}}}}})
		case "RR":
			st = append(st, Print{Args: []Expr{tag, Call{Fn: "rd", Args: []Expr{StrLit{V: o.path}}}, Call{Fn: "rd", Args: []Expr{StrLit{V: o.content}}}, Call{Fn: "ex", Args: []Expr{StrLit{V: o.content}}}, Call{Fn: "ex", Args: []Expr{StrLit{V: o.path}}}}})
		}
	}
	return &Prog{Stmts: append(st, Print{Args: []Expr{StrLit{V: "done"}}})}
}

// c17LateProg: the textually FIRST write, read and exists of the program sit in code that has not run (yet)
// when the operations execute - a function defined first but called last, and a branch that is not taken.
// Whatever a back-end sets up for the file builtins must not depend on their first site having executed.
func c17LateProg(ops []c17Op) *Prog {
	io := func(p Expr, c Expr) []Stmt {
		return []Stmt{Write{Path: p, Data: c}, Write{Path: p, Data: c, Append: BoolLit{true}}, Print{Args: []Expr{StrLit{V: "late"}, ExistsE{Path: p}, StrLit{V: "S"}, ReadE{Path: p}, StrLit{V: "E"}}}}
	}
	st := []Stmt{
		FuncDef{Name: "tail", Params: []Param{{"p", TStr}, {"c", TStr}}, Body: io(Var{"p"}, Var{"c"})},
		Define{Names: []string{"never"}, Form: DefShort, Vals: []Expr{BoolLit{false}}},
		If{Cond: Var{"never"}, Then: io(StrLit{V: "never.txt"}, StrLit{V: "x"})},
	}
	st = append(st, c17Stmts(ops)...)
	st = append(st, ExprStmt{X: Call{Fn: "tail", Args: []Expr{StrLit{V: "late.txt"}, StrLit{V: "l"}}}})
	return &Prog{Stmts: append(st, Print{Args: []Expr{StrLit{V: "done"}}})}
}

// c17FlagProg: the append flag of every write is the result of a call (plain and grouped), never a literal.
func c17FlagProg(ops []c17Op, inFunc bool) *Prog {
	st := []Stmt{FuncDef{Name: "flag", Params: []Param{{"b", TBool}}, Rets: []Type{TBool}, Body: []Stmt{Return{Vals: []Expr{Var{"b"}}}}}}
	n := 0
	for _, o := range ops {
		if o.kind == "W" || o.kind == "A" {
			var f Expr = Call{Fn: "flag", Args: []Expr{BoolLit{o.kind == "A"}}}
			if n%2 == 1 {
				f = Group{X: f}
			}
			n++
			st = append(st, Write{Path: StrLit{V: o.path}, Data: StrLit{V: o.content}, Append: f})
		} else {
			st = append(st, c17Stmts([]c17Op{o})...)
		}
	}
	if inFunc {
		return &Prog{Stmts: []Stmt{st[0], FuncDef{Name: "work", Body: st[1:]}, ExprStmt{X: Call{Fn: "work"}}, Print{Args: []Expr{StrLit{V: "done"}}}}}
	}
	return &Prog{Stmts: append(st, Print{Args: []Expr{StrLit{V: "done"}}})}
}

// c17RewriteProg: after the operations, ONE statement reads the file, rewrites it through a function and
// reads it again - each read(p) yields the content at the moment its operand is evaluated.
func c17RewriteProg(ops []c17Op, path string) *Prog {
	st := []Stmt{FuncDef{Name: "put", Params: []Param{{"p", TStr}, {"c", TStr}}, Rets: []Type{TStr}, Body: []Stmt{Write{Path: Var{"p"}, Data: Var{"c"}}, Return{Vals: []Expr{StrLit{V: "put"}}}}}}
	st = append(st, c17Stmts(ops)...)
	p := StrLit{V: path}
	st = append(st,
		Print{Args: []Expr{StrLit{V: "rw"}, ReadE{Path: p}, Call{Fn: "put", Args: []Expr{p, StrLit{V: "fresh"}}}, ReadE{Path: p}}},
		Define{Names: []string{"same"}, Form: DefShort, Vals: []Expr{Binary{Op: "==", L: Binary{Op: "+", L: ReadE{Path: p}, R: Call{Fn: "put", Args: []Expr{p, StrLit{V: "gone"}}}}, R: StrLit{V: "freshput"}}}},
		Print{Args: []Expr{StrLit{V: "cmp"}, Var{"same"}, ReadE{Path: p}}})
	return &Prog{Stmts: append(st, Print{Args: []Expr{StrLit{V: "done"}}})}
}

func c17Prog(ops []c17Op, inFunc bool, viaVars bool) *Prog {
	body := c17Stmts(ops)
	if viaVars {
		// same operations with path and content held in variables
		var st []Stmt
		for i, o := range ops {
			pv, cv := fmt.Sprintf("p%d", i), fmt.Sprintf("c%d", i)
			st = append(st, Define{Names: []string{pv}, Form: DefShort, Vals: []Expr{StrLit{V: o.path}}})
			tag := StrLit{V: fmt.Sprintf("op%d", i)}
			switch o.kind {
			case "W", "A":
				st = append(st, Define{Names: []string{cv}, Form: DefShort, Vals: []Expr{StrLit{V: o.content}}})
				w := Write{Path: Var{pv}, Data: Var{cv}}
				if o.kind == "A" {
					w.Append = BoolLit{true}
				}
				st = append(st, w)
			case "R":
				st = append(st, Print{Args: []Expr{tag, StrLit{V: "S"}, ReadE{Path: Var{pv}}, StrLit{V: "E"}}})
			case "E":
				st = append(st, Print{Args: []Expr{tag, ExistsE{Path: Var{pv}}}})
			case "RR":
				st = append(st, c17Stmts([]c17Op{o})...)
			}
		}
		body = st
	}
	if inFunc {
		return &Prog{Stmts: []Stmt{FuncDef{Name: "work", Body: body}, ExprStmt{X: Call{Fn: "work"}}, Print{Args: []Expr{StrLit{V: "done"}}}}}
	}
	return &Prog{Stmts: append(body, Print{Args: []Expr{StrLit{V: "done"}}})}
}

var c17Pre = map[string]string{"sub/keep.txt": "keep\n"}

// c17Judge runs the program and compares stdout/exit/stderr and the final file system.
func c17Judge(p *Prog) (ProgVerdict, string) { return c17JudgePre(p, c17Pre) }

// c17PreparedProg: the file exists BEFORE the script starts (written by the harness, not by write()); exists and
// read are used with the path as a literal and as a variable, at top level and inside functions.
func c17PreparedProg(path string) *Prog {
	p := StrLit{V: path}
	no := StrLit{V: "nofile.txt"}
	return &Prog{Stmts: []Stmt{
		FuncDef{Name: "chk", Params: []Param{{"p", TStr}}, Rets: []Type{TBool}, Body: []Stmt{Return{Vals: []Expr{ExistsE{Path: Var{"p"}}}}}},
		FuncDef{Name: "chklit", Rets: []Type{TBool}, Body: []Stmt{Return{Vals: []Expr{ExistsE{Path: p}}}}},
		FuncDef{Name: "get", Params: []Param{{"p", TStr}}, Rets: []Type{TStr}, Body: []Stmt{Return{Vals: []Expr{ReadE{Path: Var{"p"}}}}}},
		Print{Args: []Expr{StrLit{V: "e1"}, ExistsE{Path: p}, ExistsE{Path: no}}},
		Define{Names: []string{"pv"}, Form: DefShort, Vals: []Expr{p}},
		Print{Args: []Expr{StrLit{V: "e2"}, ExistsE{Path: Var{"pv"}}}},
		Print{Args: []Expr{StrLit{V: "e3"}, Call{Fn: "chk", Args: []Expr{p}}, Call{Fn: "chk", Args: []Expr{no}}}},
		Print{Args: []Expr{StrLit{V: "e4"}, Call{Fn: "chklit"}}},
		If{Cond: ExistsE{Path: p}, Then: []Stmt{Print{Args: []Expr{StrLit{V: "e5 yes"}}}}, Else: []Stmt{Print{Args: []Expr{StrLit{V: "e5 no"}}}}, HasElse: true},
		Print{Args: []Expr{StrLit{V: "r1"}, StrLit{V: "S"}, ReadE{Path: p}, StrLit{V: "E"}}},
		Print{Args: []Expr{StrLit{V: "r2"}, StrLit{V: "S"}, Call{Fn: "get", Args: []Expr{Var{"pv"}}}, StrLit{V: "E"}}},
		Print{Args: []Expr{StrLit{V: "done"}}},
	}}
}

func c17JudgePre(p *Prog, c17Pre map[string]string) (ProgVerdict, string) {
	pv := JudgeBash(p, ProgOpts{Pre: c17Pre, KeepFS: true})
	if pv.Symptom != "" {
		return pv, ""
	}
	// final file system: exactly the model's files (the pre-populated file is reported only if changed)
	want := map[string]string{}
	for k, v := range pv.Want.FS {
		if pre, ok := c17Pre[k]; ok && pre == v {
			continue
		}
		want[k] = v
	}
	var diffs []string
	for k, v := range want {
		if g, ok := pv.Got.Files[k]; !ok {
			diffs = append(diffs, fmt.Sprintf("missing file %q", k))
		} else if g != v {
			diffs = append(diffs, fmt.Sprintf("file %q holds %q want %q", k, clip(g), clip(v)))
		}
	}
	for k := range pv.Got.Files {
		if _, ok := want[k]; !ok {
			diffs = append(diffs, fmt.Sprintf("unexpected file %q", k))
		}
	}
	sort.Strings(diffs)
	if len(diffs) > 0 {
		pv.Symptom = "filesystem-diff"
		pv.Detail = strings.Join(diffs, "; ")
	}
	return pv, ""
}

func C17() int {
	r := findings.New("C17")
	r.Level = "model_checking"
	defer drive.Cleanup()
	deadline := r.Deadline(6*time.Minute, 30*time.Minute)
	var mu sync.Mutex
	distinct := findings.NewDistinct()
	evals, validated, undef, capped := 0, 0, 0, false
	judge := func(name, key string, p *Prog) bool {
		pv, _ := c17Judge(p)
		mu.Lock()
		evals++
		mu.Unlock()
		distinct.Add(pv.Src)
		switch pv.Symptom {
		case "":
			mu.Lock()
			validated++
			mu.Unlock()
			return true
		case "undefined":
			mu.Lock()
			undef++
			mu.Unlock()
			return true
		}
		pv2, _ := c17Judge(p)
		if pv2.Symptom != pv.Symptom {
			if pv3, _ := c17Judge(p); pv.Symptom == "runaway" && pv2.Symptom == "" && pv3.Symptom == "" {
				atomic.AddInt64(&TransientKills, 1) // a sandbox kill on an overloaded machine that did not repeat
				return true
			}
			panic("HARNESS ERROR: c17 case not deterministic: " + name)
		}
		// A cell OFF the two axes (thorough: the full product) that fails, and whose path or content is a listed
		// finding on its axis in the same context, cannot be judged on its own: it contains a listed ingredient. It is
		// attributed to that listed cell (content first); a failing off-axis cell whose two ingredients both pass
		// on their axes keeps its own key and is a violation.
		if !r.IsKnown(key) {
			if m := c17CellKey.FindStringSubmatch(key); m != nil && m[2] != `"a.txt"` && m[3] != `"one"` {
				byContent := fmt.Sprintf("%s path=\"a.txt\" content=%s ctx=%s", m[1], m[3], m[4])
				byPath := fmt.Sprintf("%s path=%s content=\"one\" ctx=%s", m[1], m[2], m[4])
				switch {
				case r.IsKnown(byContent):
					key = byContent
				case r.IsKnown(byPath):
					key = byPath
				}
			}
		}
		r.Fail(key, fmt.Sprintf("%s: %s (%s)", name, pv.Symptom, pv.Detail), progReplay(pv, nil))
		return false
	}
	// ---- phase 1: cells (path x content x context): write, exists, read, append, read
	type cell struct{ path, content string }
	pathOK := map[string]bool{}
	contOK := map[string]bool{}
	for _, p := range c17Paths {
		pathOK[p] = true
	}
	for _, c := range c17Contents {
		contOK[c] = true
	}
	var cells []cell
	for _, p := range c17Paths {
		for _, c := range c17Contents {
			if p == "a.txt" || c == "one" || r.Thorough() { // quick: the two axes; thorough: the full product
				cells = append(cells, cell{p, c})
			}
		}
	}
	type cellRes struct{ ok bool }
	res := make([]bool, len(cells))
	drive.Par(len(cells), func(i int) {
		c := cells[i]
		ops := []c17Op{{"E", c.path, ""}, {"W", c.path, c.content}, {"E", c.path, ""}, {"R", c.path, ""}, {"A", c.path, c.content}, {"R", c.path, ""}, {"E", "other.txt", ""}}
		ok := true
		for _, ctx := range []struct {
			name         string
			inFunc, vars bool
		}{{"top", false, false}, {"function", true, false}, {"variables", false, true}} {
			key := fmt.Sprintf("cell path=%q content=%q ctx=%s", c.path, c.content, ctx.name)
			if !judge(key, key, c17Prog(ops, ctx.inFunc, ctx.vars)) {
				ok = false
			}
		}
		{
			key := fmt.Sprintf("cell path=%q content=%q ctx=wrappers", c.path, c.content)
			if !judge(key, key, c17WrapperProg(ops)) {
				ok = false
			}
			key = fmt.Sprintf("cell path=%q content=%q ctx=mixed", c.path, c.content)
			if !judge(key, key, c17MixedProg(ops)) {
				ok = false
			}
			key = fmt.Sprintf("cell path=%q content=%q ctx=flag-from-call", c.path, c.content)
			if !judge(key, key, c17FlagProg(ops, false)) {
				ok = false
			}
			key = fmt.Sprintf("cell path=%q content=%q ctx=flag-from-call-in-function", c.path, c.content)
			if !judge(key, key, c17FlagProg(ops, true)) {
				ok = false
			}
			key = fmt.Sprintf("cell path=%q content=%q ctx=read-rewrite-read-in-one-statement", c.path, c.content)
			if !judge(key, key, c17RewriteProg(ops, c.path)) {
				ok = false
			}
			key = fmt.Sprintf("cell path=%q content=%q ctx=first-sites-not-yet-run", c.path, c.content)
			if !judge(key, key, c17LateProg(ops)) {
				ok = false
			}
		}
		// the same cell without any read: creation by an append to a fresh path, overwrite, append - judged on
		// exists() and on the bytes of the final files only, so that what read() does to a content (the listed
		// trailing-newline finding) cannot hide what write() does to it. These cells do not feed phase 2.
		nr := []c17Op{{"E", c.path, ""}, {"A", c.path, c.content}, {"E", c.path, ""}, {"W", c.path, c.content}, {"A", c.path, c.content}, {"E", c.path, ""}, {"E", "other.txt", ""}}
		for _, ctx := range []struct {
			name         string
			inFunc, vars bool
		}{{"top", false, false}, {"function", true, false}, {"variables", false, true}} {
			key := fmt.Sprintf("cell-without-read path=%q content=%q ctx=%s", c.path, c.content, ctx.name)
			judge(key, key, c17Prog(nr, ctx.inFunc, ctx.vars))
		}
		{
			key := fmt.Sprintf("cell-without-read path=%q content=%q ctx=wrappers", c.path, c.content)
			judge(key, key, c17WrapperProg(nr))
			key = fmt.Sprintf("cell-without-read path=%q content=%q ctx=first-sites-not-yet-run", c.path, c.content)
			judge(key, key, c17LateProg(nr))
		}
		res[i] = ok
		if i%17 == 0 {
			r.Sample(map[string]string{"kind": "path-content-cell", "path": c.path, "content": c.content, "ops": fmt.Sprint(ops)})
		}
	})
	// prepared files: one program per path spelling, the file is there before the script starts
	drive.Par(len(c17Paths), func(i int) {
		path := c17Paths[i]
		pre := map[string]string{"sub/keep.txt": "keep\n", path: "one\n"}
		prog := c17PreparedProg(path)
		key := fmt.Sprintf("cell path=%q ctx=prepared-file-exists-and-read", path)
		pv, _ := c17JudgePre(prog, pre)
		mu.Lock()
		evals++
		mu.Unlock()
		distinct.Add(pv.Src)
		if pv.Symptom == "" {
			mu.Lock()
			validated++
			mu.Unlock()
			return
		}
		if pv.Symptom == "undefined" {
			panic("HARNESS ERROR: c17 prepared-file program leaves the model: " + pv.Detail)
		}
		pv2, _ := c17JudgePre(prog, pre)
		if pv2.Symptom != pv.Symptom {
			panic("HARNESS ERROR: c17 case not deterministic: " + key)
		}
		r.Fail(key, fmt.Sprintf("%s: %s (%s)", key, pv.Symptom, pv.Detail), progReplay(pv, nil))
	})
	for i, c := range cells {
		if !res[i] {
			if c.path != "a.txt" || c.content == "one" {
				pathOK[c.path] = false
			}
			if c.content != "one" || c.path == "a.txt" {
				if c.path == "a.txt" {
					contOK[c.content] = false
				}
			}
		}
	}
	var goodP, goodC []string
	for _, p := range c17Paths {
		if pathOK[p] {
			goodP = append(goodP, p)
		}
	}
	for _, c := range c17Contents {
		if contOK[c] {
			goodC = append(goodC, c)
		}
	}
	r.Set("cells", len(cells)*3)
	r.Set("paths_passing_their_cells", goodP)
	r.Set("contents_passing_their_cells", goodC)
	// ---- phase 2: history search over the paths/contents whose cells pass on this run
	maxP, maxC := 3, 3
	if len(goodP) > maxP {
		goodP = goodP[:maxP]
	}
	if len(goodC) > maxC {
		goodC = goodC[:maxC]
	}
	var alphabet []c17Op
	for _, p := range goodP {
		for _, c := range goodC {
			alphabet = append(alphabet, c17Op{"W", p, c}, c17Op{"A", p, c})
		}
		alphabet = append(alphabet, c17Op{"R", p, ""}, c17Op{"E", p, ""})
	}
	for _, p := range goodP {
		for _, q := range goodP {
			if p != q {
				alphabet = append(alphabet, c17Op{"RR", p, q})
			}
		}
	}
	kAll, kBFS := 2, 3
	if r.Thorough() {
		kAll, kBFS = 3, 5
	}
	type fsState map[string]string
	canon := func(fs fsState) string {
		var ks []string
		for k, v := range fs {
			ks = append(ks, fmt.Sprintf("%q=%q", k, v))
		}
		sort.Strings(ks)
		return strings.Join(ks, ",")
	}
	apply := func(fs fsState, o c17Op) (fsState, bool) {
		n := fsState{}
		for k, v := range fs {
			n[k] = v
		}
		switch o.kind {
		case "W":
			n[o.path] = o.content + "\n"
		case "A":
			n[o.path] = n[o.path] + o.content + "\n"
		case "R":
			if _, ok := fs[o.path]; !ok {
				return nil, false // read of a missing file is undefined
			}
		case "RR":
			_, ok1 := fs[o.path]
			_, ok2 := fs[o.content]
			if !ok1 || !ok2 {
				return nil, false
			}
		}
		return n, true
	}
	states := map[string]bool{canon(fsState{}): true}
	transitions := 0
	var hist [][]c17Op
	seenH := map[string]bool{}
	addH := func(h []c17Op) {
		k := fmt.Sprint(h)
		if !seenH[k] {
			seenH[k] = true
			hist = append(hist, append([]c17Op{}, h...))
		}
	}
	var rec func(h []c17Op, fs fsState, d int)
	rec = func(h []c17Op, fs fsState, d int) {
		if len(h) > 0 {
			addH(h)
		}
		if d == kAll {
			return
		}
		for _, o := range alphabet {
			if n, ok := apply(fs, o); ok {
				transitions++
				states[canon(n)] = true
				rec(append(append([]c17Op{}, h...), o), n, d+1)
			}
		}
	}
	rec(nil, fsState{}, 0)
	nAll := len(hist)
	type node struct {
		h  []c17Op
		fs fsState
	}
	seen := map[string]bool{canon(fsState{}): true}
	frontier := []node{{nil, fsState{}}}
	for d := 0; d < kBFS && len(frontier) > 0; d++ {
		var next []node
		for _, nd := range frontier {
			for _, o := range alphabet {
				n, ok := apply(nd.fs, o)
				if !ok {
					continue
				}
				transitions++
				h := append(append([]c17Op{}, nd.h...), o)
				addH(h)
				if c := canon(n); !seen[c] {
					seen[c] = true
					states[c] = true
					next = append(next, node{h, n})
				}
			}
		}
		frontier = next
		if len(hist) > 60000 {
			break
		}
	}
	r.Set("history_alphabet", len(alphabet))
	r.Set("histories_all_paths", nAll)
	r.Set("histories_bfs_extra", len(hist)-nAll)
	r.Set("bounds", fmt.Sprintf("all paths depth<=%d, state-merged BFS depth<=%d over %d paths x %d contents", kAll, kBFS, len(goodP), len(goodC)))
	drive.Par(len(hist), func(i int) {
		if past(deadline) {
			mu.Lock()
			capped = true
			mu.Unlock()
			return
		}
		h := hist[i]
		var parts []string
		for _, o := range h {
			parts = append(parts, o.String())
		}
		name := "history " + strings.Join(parts, " ; ")
		judge(name, name, c17Prog(h, i%2 == 1, i%3 == 2))
		judge(name+" [via wrapper functions]", name+" [via wrapper functions]", c17WrapperProg(h))
		judge(name+" [writes via a function, reads direct]", name+" [writes via a function, reads direct]", c17MixedProg(h))
		if i%701 == 0 {
			r.Sample(map[string]string{"kind": "history", "ops": strings.Join(parts, " ; "), "in_function": fmt.Sprint(i%2 == 1), "via_variables": fmt.Sprint(i%3 == 2)})
		}
	})
	c17Batch(r, deadline, &mu, &evals, &validated, &undef, &capped, distinct)
	r.Set("states", len(states))
	r.Set("transitions", transitions)
	r.Set("traces_validated_against_impl", validated)
	r.Set("evaluations", evals)
	r.Set("distinct_nontrivial", distinct.Len())
	r.Set("skipped_undefined", undef)
	r.Set("exhaustive", !capped)
	r.Set("rule", "phase 1: cell table path spelling x content (write, exists, read, append, read; at top level, inside a function, and with path/content in variables; the same cells without any read - append to a fresh path, overwrite, append, judged on exists() and the final bytes): stdout, exit, stderr and the final sandbox file system (exact bytes of every file, no other file) must equal the map[path]content model. phase 2: explicit-state search over the model file system: every operation sequence over {write, append, read, exists} x paths x contents up to the all-paths depth, then breadth-first search with state merging; each history replayed on the real transpiler + bash (alternating top level / function / variables). Phase 2 uses the paths and contents whose cells pass on this run, so it is fully sensitive there; failing cells are violations or listed known findings. states = distinct model file systems. phase 3 (Batch target, under the cmd.exe model that interprets the emitted file helpers from their text): every history up to the stated depth over 2 paths x 4 cmd-neutral contents (one of them two lines) in five program shapes; output, exit status and final file system must equal the model's; runs the cmd.exe model refuses to decide are counted, not judged.")
	return finish(r)
}

// c17Batch: the line-store clauses on the Batch target. The emitted helpers (:_fwh, :_frh, if exist) are
// interpreted from their text by cmdmodel (rules 9 and 11: for /f over a string / a file / a child echo with
// redirection). Paths and contents stay inside what the model decides (no character the child cmd.exe would
// interpret); whatever it refuses is counted as unmodelled.
func c17Batch(r *findings.Run, deadline time.Time, mu *sync.Mutex, evals, validated, undef *int, capped *bool, distinct *findings.Distinct) {
	paths := []string{"a.txt", "b-2.txt"}
	contents := []string{"one", "two words", "lineA\nlineB", "x.y,z"}
	var alphabet []c17Op
	for _, p := range paths {
		for _, c := range contents {
			alphabet = append(alphabet, c17Op{"W", p, c}, c17Op{"A", p, c})
		}
		alphabet = append(alphabet, c17Op{"R", p, ""}, c17Op{"E", p, ""})
	}
	alphabet = append(alphabet, c17Op{"RR", paths[0], paths[1]})
	depth := 2
	if r.Thorough() {
		depth = 3
	}
	var hist [][]c17Op
	var rec func(h []c17Op, have map[string]bool)
	rec = func(h []c17Op, have map[string]bool) {
		if len(h) > 0 {
			hist = append(hist, append([]c17Op{}, h...))
		}
		if len(h) == depth {
			return
		}
		for _, o := range alphabet {
			if (o.kind == "R" && !have[o.path]) || (o.kind == "RR" && (!have[o.path] || !have[o.content])) {
				continue // read of a missing file is undefined
			}
			n := map[string]bool{}
			for k := range have {
				n[k] = true
			}
			if o.kind == "W" || o.kind == "A" {
				n[o.path] = true
			}
			rec(append(append([]c17Op{}, h...), o), n)
		}
	}
	rec(nil, map[string]bool{})
	type shape struct {
		name string
		mk   func(h []c17Op) *Prog
	}
	shapes := []shape{
		{"top", func(h []c17Op) *Prog { return c17Prog(h, false, false) }},
		{"function+variables", func(h []c17Op) *Prog { return c17Prog(h, true, true) }},
		{"wrappers", c17WrapperProg},
		{"mixed", c17MixedProg},
		{"first-sites-not-yet-run", c17LateProg},
	}
	unmodelled := 0
	agreed := 0
	drive.Par(len(hist), func(i int) {
		if past(deadline) {
			mu.Lock()
			*capped = true
			mu.Unlock()
			return
		}
		h := hist[i]
		var parts []string
		for _, o := range h {
			parts = append(parts, o.String())
		}
		for si, sh := range shapes {
			if r.Thorough() && len(h) == 3 && si%2 == 1 {
				continue // depth 3: three of the five shapes
			}
			p := sh.mk(h)
			bv, after := JudgeBatchFiles(p, map[string]string{})
			mu.Lock()
			*evals++
			mu.Unlock()
			distinct.Add("batch:" + bv.Src)
			name := fmt.Sprintf("batch history %s shape=%s", strings.Join(parts, " ; "), sh.name)
			switch bv.Symptom {
			case "undefined":
				mu.Lock()
				*undef++
				mu.Unlock()
				continue
			case "unmodelled":
				mu.Lock()
				unmodelled++
				mu.Unlock()
				continue
			case "":
				var diffs []string
				for k, v := range bv.Want.FS {
					if g, ok := after[k]; !ok {
						diffs = append(diffs, fmt.Sprintf("missing file %q", k))
					} else if g != v {
						diffs = append(diffs, fmt.Sprintf("file %q holds %q want %q", k, clip(g), clip(v)))
					}
				}
				for k := range after {
					if _, ok := bv.Want.FS[k]; !ok {
						diffs = append(diffs, fmt.Sprintf("unexpected file %q", k))
					}
				}
				sort.Strings(diffs)
				if len(diffs) == 0 {
					mu.Lock()
					*validated++
					agreed++
					mu.Unlock()
					continue
				}
				bv.Symptom, bv.Detail = "filesystem-diff", strings.Join(diffs, "; ")
			}
			again, _ := JudgeBatchFiles(p, map[string]string{})
			if again.Symptom != "" && again.Symptom != bv.Symptom && bv.Symptom != "filesystem-diff" {
				panic("HARNESS ERROR: c17 batch case not deterministic: " + name)
			}
			r.Fail(name+" symptom="+bv.Symptom, fmt.Sprintf("%s: %s (%s)", name, bv.Symptom, bv.Detail), batchReplay(bv))
		}
	})
	r.Set("batch_histories", len(hist))
	r.Set("batch_runs_agreeing_with_the_model", agreed)
	r.Set("batch_runs_unmodelled", unmodelled)
	r.Set("batch_bounds", fmt.Sprintf("every history of depth<=%d over %d operations (2 paths x 4 contents), %d program shapes", depth, len(alphabet), len(shapes)))
}

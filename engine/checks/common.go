// Package checks holds one driver per property.
package checks

import (
	"fmt"
	"os"
	"strings"
	"sync/atomic"
	"time"

	"verif/drive"
	"verif/findings"
	"verif/tsmodel"
)

// Registry maps property ids to drivers.
var Registry = map[string]func() int{}

func repoTshReplay(target string) string {
	// Builds the repository's own CLI and re-runs the case without any code of the explorer.
	return `set -e
T=$(mktemp -d); trap 'rm -rf "$T"' EXIT
(cd /repo && GOFLAGS=-mod=mod GOPROXY=off GOSUMDB=off GOTOOLCHAIN=local go build -o "$T/tsh" . ) && cp -r /repo/std "$T/std"
mkdir -p "$T/out" "$T/box"
cp -r src "$T/srcdir"
"$T/tsh" -i "$T/srcdir/main.tsh" -o "$T/out" -t ` + target + ` || { echo "REPLAY: transpilation failed (see above)"; exit 1; }
[ -d box ] && cp -r box/. "$T/box/"
( cd "$T/box" && env -i /bin/bash "$T/out/main.sh" < "${STDIN_FILE:-/dev/null}" > "$T/actual.txt" 2> "$T/stderr.txt"; echo "exit=$?" >> "$T/actual.txt" ) || true
if diff expected.txt "$T/actual.txt" && [ ! -s "$T/stderr.txt" ]; then echo "REPLAY: no longer reproduces"; exit 0; else echo "REPLAY: reproduced (diff above; stderr below)"; cat "$T/stderr.txt"; exit 1; fi`
}

// ProgVerdict is the outcome of running one model program on the Bash target.
type ProgVerdict struct {
	Symptom string // "" = agrees; "undefined" = model left the fragment; else the symptom class
	Detail  string
	Src     string
	Script  string
	Want    tsmodel.Obs
	Got     drive.RunResult
}

type ProgOpts struct {
	Files    map[string]string // extra source files (imports)
	Loader   func(from, path string) (string, *tsmodel.Prog)
	Stdin    string
	StdinL   []string
	Pre      map[string]string // sandbox files
	KeepFS   bool
	MaxSteps int
	// Compact: the main file is written without the optional blanks around operators, commas and brackets
	// (compactLayout); the expected behaviour is the same program's.
	Compact bool
}

// JudgeBash runs prog through the model, the real transpiler and the real bash.
func JudgeBash(prog *tsmodel.Prog, o ProgOpts) ProgVerdict {
	src := tsmodel.PrintProg(*prog)
	if o.Compact {
		src = compactLayout(src)
	}
	in := &tsmodel.Interp{Width: 64, Loader: o.Loader, Stdin: append([]string{}, o.StdinL...), MaxSteps: o.MaxSteps}
	if o.Pre != nil {
		in.FS = map[string]string{}
		for k, v := range o.Pre {
			in.FS[k] = v
		}
	}
	want := in.Run(prog)
	v := ProgVerdict{Src: src, Want: want}
	if want.Undefined != "" {
		v.Symptom = "undefined"
		v.Detail = want.Undefined
		return v
	}
	files := map[string]string{"main.tsh": src}
	for k, s := range o.Files {
		files[k] = s
	}
	tr := drive.Transpile(files, "main.tsh", drive.Bash)
	if tr.Panic != "" {
		v.Symptom, v.Detail = "transpiler-panic", firstLine(tr.Panic)
		return v
	}
	if !tr.OK() {
		v.Symptom, v.Detail = "rejected", tr.Err
		return v
	}
	v.Script = tr.Script
	got := runBashStable(tr.Script, drive.RunOpts{Stdin: o.Stdin, Files: o.Pre, KeepFiles: o.KeepFS,
		OutputCap: 64<<10 + 16*len(want.Stdout)})
	v.Got = got
	switch {
	case got.Runaway != "":
		v.Symptom, v.Detail = "runaway", got.Runaway
	case got.Stdout != want.Stdout:
		v.Symptom, v.Detail = "stdout-diff", diffHint(want.Stdout, got.Stdout)
	case got.Exit != want.Exit:
		v.Symptom, v.Detail = "exit-diff", fmt.Sprintf("want %d got %d", want.Exit, got.Exit)
	case got.Stderr != "":
		v.Symptom, v.Detail = "stderr", firstLine(got.Stderr)
	}
	return v
}

// runBashStable re-runs a runaway once alone before believing it.
func runBashStable(script string, o drive.RunOpts) drive.RunResult {
	got := drive.RunBash(script, o)
	if got.Runaway != "" && got.Runaway != "output-cap" {
		got2 := drive.RunBash(script, o)
		if got2.Runaway == "" {
			return got2
		}
	}
	return got
}

func firstLine(s string) string {
	if i := strings.IndexByte(s, '\n'); i >= 0 {
		s = s[:i]
	}
	if len(s) > 300 {
		s = s[:300]
	}
	return s
}

func diffHint(want, got string) string {
	wl, gl := strings.Split(want, "\n"), strings.Split(got, "\n")
	for i := 0; i < len(wl) || i < len(gl); i++ {
		w, g := "<eof>", "<eof>"
		if i < len(wl) {
			w = wl[i]
		}
		if i < len(gl) {
			g = gl[i]
		}
		if w != g {
			return fmt.Sprintf("line %d: want %q got %q", i+1, clip(w), clip(g))
		}
	}
	return "identical?"
}

func clip(s string) string {
	if len(s) > 120 {
		return s[:120] + "…"
	}
	return s
}

// progReplay builds the replay artefacts for a Bash program verdict.
func progReplay(v ProgVerdict, extra map[string]string) func() findings.Replay {
	return func() findings.Replay {
		files := map[string]string{
			"src/main.tsh": v.Src,
			"expected.txt": v.Want.Stdout + fmt.Sprintf("exit=%d\n", v.Want.Exit),
			"actual.txt":   v.Got.Stdout + fmt.Sprintf("exit=%d\n", v.Got.Exit),
			"stderr.txt":   v.Got.Stderr,
			"script.sh":    v.Script,
			"detail.txt":   v.Symptom + ": " + v.Detail + "\n",
		}
		for k, s := range extra {
			files["src/"+k] = s
		}
		return findings.Replay{Files: files, Script: repoTshReplay("bash")}
	}
}

// confirm re-judges a failing program twice; the observations must be
// identical, otherwise the harness itself is nondeterministic (hard error).
//
// One exception: a run that the sandbox KILLED (CPU limit, wall-clock backstop, output cap) on a heavily loaded
// machine and that runs to its normal end - with the expected observation - on both re-runs is not a failure of
// the program; it is counted (TransientKills) and an empty verdict is returned, which the callers drop.
var TransientKills int64

// HistoryDependent counts failing cases whose re-run gave another observation BECAUSE the transpiler emitted another
// script for the same sources (its answer depends on what the process transpiled before - the subject of C14, which
// explores call histories). Such a case is neither reported here nor a harness error: it is counted and dropped, so
// that the cases which fail repeatably are still judged.
var HistoryDependent int64

func confirm(prog *tsmodel.Prog, o ProgOpts, first ProgVerdict) ProgVerdict {
	if first.Symptom == "runaway" {
		a, b := JudgeBash(prog, o), JudgeBash(prog, o)
		if a.Symptom == "" && b.Symptom == "" {
			atomic.AddInt64(&TransientKills, 1)
			return a
		}
	}
	for k := 0; k < 2; k++ {
		again := JudgeBash(prog, o)
		same := again.Symptom == first.Symptom
		if same && first.Symptom != "runaway" { // a killed run is cut at an arbitrary point
			same = again.Got.Stdout == first.Got.Stdout && again.Got.Exit == first.Got.Exit
		}
		if !same && again.Script != first.Script {
			atomic.AddInt64(&HistoryDependent, 1)
			return ProgVerdict{}
		}
		if !same {
			fmt.Fprintf(os.Stderr, "HARNESS ERROR: replay of a failing case did not reproduce the same observation\nsource:\n%s\nfirst: %s %s\nagain: %s %s\n",
				first.Src, first.Symptom, first.Detail, again.Symptom, again.Detail)
			drive.Cleanup()
			os.Exit(2)
		}
	}
	return first
}

func past(t time.Time) bool { return time.Now().After(t) }

func oneLine(s string) string {
	s = strings.TrimSpace(s)
	s = strings.ReplaceAll(s, "\n", "⏎")
	s = strings.ReplaceAll(s, "\t", "")
	return s
}

func getenv(k string) string { return os.Getenv(k) }

// finish adds the harness-level counters to the evidence and ends the run.
func finish(r *findings.Run) int {
	r.Set("sandbox_kills_that_did_not_repeat", int(atomic.LoadInt64(&TransientKills)))
	if n := atomic.LoadInt64(&HistoryDependent); n > 0 {
		r.Set("failing_cases_dropped_because_the_transpiler_emitted_another_script_on_the_rerun", int(n))
		fmt.Printf("note: %d failing cases were not reported: on the re-run the transpiler emitted another script for the same sources (history dependence is C14's subject)\n", n)
	}
	return r.Finish()
}

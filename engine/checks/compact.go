package checks

import (
	"verif/reflex"
)

// compactLayout returns src with every blank removed that stands next to an operator, comma or bracket
// on one line, as long as the reference lexer reads the same token sequence afterwards (`a - 1` -> `a-1`,
// `(a + b) - 1` -> `(a+b)-1`; `a - -1` keeps the blank that separates the two minus signs). The meaning of
// a program does not depend on these blanks (C12), so the reference interpreter's verdict carries over.
func compactLayout(src string) string {
	toks := func(r reflex.Result) []string {
		var out []string
		for _, l := range r.Lexemes {
			if l.Type != reflex.Space && l.Type != reflex.Comment {
				out = append(out, l.Type.String()+"\x00"+l.Value)
			}
		}
		return out
	}
	same := func(a, b []string) bool {
		if len(a) != len(b) {
			return false
		}
		for i := range a {
			if a[i] != b[i] {
				return false
			}
		}
		return true
	}
	base := reflex.Lex(src)
	if base.Err != "" || !base.Specified() {
		return src
	}
	want := toks(base)
	glue := func(t reflex.Type) bool {
		switch t {
		case reflex.OpeningRoundBracket, reflex.ClosingRoundBracket, reflex.OpeningSquareBracket, reflex.ClosingSquareBracket,
			reflex.AssignOperator, reflex.CompoundAssignOperator, reflex.UnaryOperator, reflex.BinaryOperator, reflex.CompareOperator,
			reflex.LogicalOperator, reflex.ShortInitOperator, reflex.Comma:
			return true
		}
		return false
	}
	cur := src
	lex := base.Lexemes
	for i := len(lex) - 2; i >= 1; i-- { // from the end: the offsets of earlier lexemes stay valid
		l := lex[i]
		if l.Type != reflex.Space || lex[i-1].Type == reflex.Newline || lex[i+1].Type == reflex.Newline || lex[i-1].Type == reflex.Comment || lex[i+1].Type == reflex.Comment {
			continue
		}
		if !(glue(lex[i-1].Type) || glue(lex[i+1].Type)) || lex[i+1].Type == reflex.OpeningCurlyBracket {
			continue
		}
		cand := cur[:l.Off] + cur[l.Off+len(l.Text):]
		cr := reflex.Lex(cand)
		if cr.Err == "" && cr.OnlyUnspec(reflex.UMinusDigitAfterOperand) && same(toks(cr), want) {
			cur = cand
		}
	}
	return cur
}

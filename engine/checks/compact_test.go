package checks

import "testing"

func TestCompactLayout(t *testing.T) {
	for in, want := range map[string]string{
		"x := (a + b) - 1\n":          "x:=(a+b)-1\n",
		"x := a - -1\n":               "x:=a- -1\n",
		"if a < b && c {\n\tx++\n}\n": "if a<b&&c {\n\tx++\n}\n",
		"print(a, b - 1, \"s t\")\n":  "print(a,b-1,\"s t\")\n",
	} {
		if got := compactLayout(in); got != want {
			t.Errorf("%q -> %q, want %q", in, got, want)
		}
	}
}

package checks

import (
	"fmt"
	"os"
	"strings"
	"sync"
	"time"

	"verif/drive"
	"verif/findings"

	. "verif/tsmodel"
	"verif/tsparse"
)

// Cross-feature space. The per-property generators each vary ONE family of constructs; a slip that needs two
// families to meet (a slice write inside a switch inside a function, a swap after a range loop, a call in a loop
// header of a function called twice) lies between them. This space closes that: a statement alphabet that spans
// the scalar, function, slice and string fragments, written as text (read by the reference parser tsparse),
// crossed with a context alphabet (every block kind, functions called once / twice / with parameters / for their
// result) and with itself:
//
//	(X1) every statement in every context and in every context nested in every context
//	(X2) every ORDERED PAIR of statements in every context
//
// Each program starts from the same state, ends with a dump of the whole state, and is judged against the
// reference interpreter like every other program. A program belongs to the property of its most demanding
// ingredient (slices/strings -> C03, functions -> C02, else C01); C05 and C16 take the same programs to the Batch
// target / the static checks.

type crossStmt struct {
	name   string
	text   string // '#' is replaced by a number unique to the position, so fresh names never collide
	owner  int    // 1 = C01 (scalars, control flow), 2 = C02 (functions), 3 = C03 (slices, strings)
	goSafe bool   // Go gives the same text the same meaning (model conformance)
}

const crossPrelude = `x := 5
y := 3
t := false
s := "ab"
u := "q"
v := []int{1, 2}
w := []string{"p"}
z := []int{9}
n := 0
g := 10
k0 := 1
print("start", k0)
func inc(a int) int {
	return a + 1
}
func two(a int) (int, string) {
	return a * 2, itoa(a)
}
func bump() int {
	g++
	return g
}
func setf(sl []int, i int, e int) {
	sl[i] = e
}
func mk() []int {
	m := []int{7, 8}
	return m
}
func join(a string, b string) string {
	return a + b
}
func flag(a int) bool {
	return a > 3
}
func loopsum(k int) int {
	acc := 0
	for i := 0; i < k; i++ {
		acc += i
	}
	return acc
}
func noisy(tag string) int {
	print("noisy", tag)
	return len(tag)
}
`

const crossMid = `print("mid", x, y, t, s, u, n, g, len(v), len(w))
`

const crossEnd = `print("end", x, y, t, s, u, n, g, len(v), len(w))
for vi, ve := range v {
	print("v", vi, ve)
}
for wi, we := range w {
	print("w", wi, we)
}
for zi, ze := range z {
	print("z", zi, ze)
}
`

func crossStmts() []crossStmt {
	S := func(owner int, goSafe bool, name, text string) crossStmt {
		return crossStmt{name: name, text: text, owner: owner, goSafe: goSafe}
	}
	return []crossStmt{
		// scalars and control flow
		S(1, true, "x=x+y", "x = x + y"),
		S(1, true, "x+=2", "x += 2"),
		S(1, true, "x-=y", "x -= y"),
		S(1, true, "x*=3", "x *= 3"),
		S(1, true, "y=x/2", "y = x / 2"),
		S(1, true, "x%=4", "x %= 4"),
		S(1, true, "x++", "x++"),
		S(1, true, "y--", "y--"),
		S(1, true, "t=!t", "t = !t"),
		S(1, true, "t=x<y", "t = x < y"),
		S(1, true, "t=mixed-logic", "t = x == y || t && x > 2"),
		S(1, true, "s+=c", `s += "c"`),
		S(1, true, "s=u+s", "s = u + s"),
		S(1, true, "u=itoa(x)+u", "u = itoa(x) + u"),
		S(1, true, "swap-int", "x, y = y, x"),
		S(1, true, "swap-str", "s, u = u, s"),
		S(1, true, "x,s=len,itoa", "x, s = len(s), itoa(x)"),
		S(1, true, "define-short", "a# := x * 2\nprint(\"a\", a#)"),
		S(1, true, "define-var", "var b# int\nb# = y\nprint(\"b\", b#)"),
		S(1, true, "define-two", "c#, d# := y, u\nprint(\"cd\", c#, d#)"),
		S(1, true, "print-all", "print(x, y, t, s, u)"),
		S(1, true, "print-empty", "print()"),
		S(1, true, "if-else", "if x > y {\nx -= y\n} else {\ny -= x\n}"),
		S(1, true, "if-chain", "if t {\ns += \"t\"\n} else if x > 3 {\ns += \"x\"\n} else {\ns += \"e\"\n}"),
		S(1, true, "switch-tag", "switch x % 3 {\ncase 0:\ny += 1\ncase 1:\ny += 2\ndefault:\ny += 3\n}"),
		S(1, true, "switch-tagless", "switch {\ncase x > y:\nu = \"gt\"\ncase x < y:\nu = \"lt\"\n}"),
		S(1, true, "for3", "for i# := 0; i# < 2; i#++ {\nx += i#\n}"),
		S(1, true, "for-cond", "for x < 8 {\nx += 3\n}"),
		S(1, true, "for-ever-break", "for {\nx++\nif x > 6 {\nbreak\n}\n}"),
		S(1, true, "for-continue", "for i# := 0; i# < 3; i#++ {\nif i# == 1 {\ncontinue\n}\ny += i#\n}"),
		S(1, true, "for-down", "for i# := 2; i# > 0; i#-- {\ns += itoa(i#)\n}"),
		// functions
		S(2, true, "x=inc(x)", "x = inc(x)"),
		S(2, true, "x,s=two(y)", "x, s = two(y)"),
		S(2, true, "j,e:=two(x)", "j#, e# := two(x)\nprint(\"e\", j#, e#)"),
		S(2, true, "inc(x)-stmt", "inc(x)"),
		S(2, true, "x=inc(inc(y))", "x = inc(inc(y))"),
		S(2, true, "x=bump()+bump()", "x = bump() + bump()"),
		S(2, true, "y=bump()*x", "y = bump() * x"),
		S(2, true, "s=join(s,u)", "s = join(s, u)"),
		S(2, true, "s=join-nested", `s = join(join(u, "z"), itoa(inc(x)))`),
		S(2, true, "t=flag(x)", "t = flag(x)"),
		S(2, true, "y=loopsum(3)", "y = loopsum(3)"),
		S(2, true, "print-noisy-twice", `print(noisy("a"), noisy("bb"))`),
		S(2, true, "n=noisy+noisy", "n = noisy(s) + noisy(u)"),
		S(2, true, "if-flag(inc(x))", "if flag(inc(x)) {\ns += \"F\"\n}"),
		S(2, true, "for-cond-call", "for i# := 0; i# < inc(1); i#++ {\ng += i#\n}"),
		S(2, true, "x,y=inc(y),inc(x)", "x, y = inc(y), inc(x)"),
		S(2, true, "setf(v,0,x)", "setf(v, 0, x)"),
		S(2, true, "v=mk()", "v = mk()"),
		// slices and strings
		S(3, true, "v[0]=x", "v[0] = x"),
		S(3, false, "v[len(v)]=y", "v[len(v)] = y"),
		S(3, false, "v[len(v)+1]=7", "v[len(v) + 1] = 7"),
		S(3, false, "setf(v,len(v),bump())", "setf(v, len(v), bump())"),
		S(3, false, "w[len(w)]=s", "w[len(w)] = s"),
		S(3, true, "w[0]=u+w[0]", "w[0] = u + w[0]"),
		S(3, true, "v=literal", "v = []int{x, y, 4}"),
		S(3, true, "w=literal", "w = []string{s, u}"),
		S(3, false, "alias-write", "al# := v\nal#[1] = 9"),
		S(3, true, "swap-slices", "v, z = z, v"),
		S(3, true, "z=v", "z = v"),
		S(3, false, "z-grow", "z[len(z)] = x"),
		S(3, true, "rotate-mixed", "x, v, z, y = y, z, v, x"),
		S(3, false, "fresh-grow-assign", "nv# := []int{}\nnv#[0] = x\nv = nv#"),
		S(3, false, "n=copy(v,literal)", "n = copy(v, []int{7, 8, 9})"),
		S(3, true, "range-v", "for i#, e# := range v {\nx += e# * i#\n}"),
		S(3, false, "range-s-blank", "for _, c# := range s {\nu = c# + u\n}"),
		S(3, true, "range-w-index", "for i# := range w {\nw[i#] = w[i#] + itoa(i#)\n}"),
		S(3, true, "u=s[0:1]", "u = s[0:1]"),
		S(3, true, "u=s[1:]", "u = s[1:]"),
		S(3, true, "u=s[:1]", "u = s[:1]"),
		S(3, false, "u=s[len(s)-1]", "u = s[len(s) - 1]"),
		S(3, true, "x=len+len+len", "x = len(s) + len(v) + len(w)"),
		S(3, false, "t=s==u||s[0]==a", `t = s == u || s[0] == "a"`),
		S(3, true, "t=len(v)>2", "t = len(v) > 2"),
		S(3, true, "print-elements", "print(len(v), v[0], v[len(v) - 1], len(w), w[0])"),
		S(3, true, "x=v[0]+v[1]", "x = v[0] + v[1]"),
		S(3, true, "s=w[0]+w[last]", "s = w[0] + w[len(w) - 1]"),
	}
}

// crossCtx wraps a body: defs go to the top level (after the prelude), code replaces the body.
type crossCtx struct {
	name   string
	fn     bool // contains a function definition (only legal at top level: the definition is hoisted)
	goSafe bool
	wrap   func(body string, id int) (defs, code string)
}

func crossCtxs() []crossCtx {
	inline := func(name, tmpl string) crossCtx {
		return crossCtx{name: name, goSafe: true, wrap: func(body string, id int) (string, string) {
			t := strings.ReplaceAll(tmpl, "@", fmt.Sprint(id))
			return "", strings.Replace(t, "BODY\n", body, 1)
		}}
	}
	fn := func(name, def, call string) crossCtx {
		return crossCtx{name: name, fn: true, goSafe: true, wrap: func(body string, id int) (string, string) {
			d := strings.ReplaceAll(def, "@", fmt.Sprint(id))
			return strings.Replace(d, "BODY\n", body, 1), strings.ReplaceAll(call, "@", fmt.Sprint(id))
		}}
	}
	return []crossCtx{
		inline("top", "BODY\n"),
		inline("if", "if k0 == 1 {\nBODY\n}\n"),
		inline("else", "if k0 == 2 {\nprint(\"no\")\n} else {\nBODY\n}\n"),
		inline("elif", "if k0 == 2 {\nprint(\"no\")\n} else if k0 == 1 {\nBODY\n} else {\nprint(\"no2\")\n}\n"),
		inline("for3x2", "for lc@ := 0; lc@ < 2; lc@++ {\nBODY\n}\n"),
		inline("whilex2", "lc@ := 0\nfor lc@ < 2 {\nBODY\nlc@++\n}\n"),
		inline("range-str", "for lc@, ch@ := range \"ab\" {\nprint(\"it\", lc@, ch@)\nBODY\n}\n"),
		inline("case", "switch k0 {\ncase 1:\nBODY\ndefault:\nprint(\"no\")\n}\n"),
		inline("default", "switch k0 {\ncase 2:\nprint(\"no\")\ndefault:\nBODY\n}\n"),
		inline("loop-continue-break", "for lc@ := 0; lc@ < 4; lc@++ {\nif lc@ == 1 {\ncontinue\n}\nBODY\nif lc@ == 2 {\nbreak\n}\n}\n"),
		fn("func", "func ctx@() {\nBODY\n}\n", "ctx@()\n"),
		fn("func-twice", "func ctx@() {\nBODY\n}\n", "ctx@()\nctx@()\n"),
		fn("func-result", "func ctx@() int {\nBODY\nreturn x + 1\n}\n", "print(\"ret\", ctx@())\n"),
		// a bare return nested in a block of a result-less function, before and after the body
		fn("func-early-return", "func ctx@() {\nif k0 == 2 {\nreturn\n}\nBODY\nif k0 == 1 {\nreturn\n}\nprint(\"unreachable\")\n}\n", "ctx@()\n"),
		// a value returned from inside a loop inside a branch
		fn("func-nested-return", "func ctx@() int {\nif k0 == 1 {\nfor r@ := 0; r@ < 3; r@++ {\nBODY\nif r@ == 1 {\nreturn r@ + 40\n}\n}\n}\nreturn 0\n}\n", "print(\"ret\", ctx@())\n"),
		fn("func-params", "func ctx@(p@ int, q@ string) int {\nBODY\nreturn p@ + len(q@)\n}\n", "print(\"ret\", ctx@(y, u))\n"),
	}
}

type crossProg struct {
	name   string
	prog   *Prog
	owner  int
	goSafe bool
	nStmts int      // 1 or 2 statements of the alphabet
	ctx    []string // context names, outermost first
}

func crossBuild(name string, stmts []crossStmt, ctxs []crossCtx) crossProg {
	body := ""
	owner, goSafe := 1, true
	for i, s := range stmts {
		body += strings.ReplaceAll(s.text, "#", fmt.Sprint(i+1)) + "\n"
		if s.owner > owner {
			owner = s.owner
		}
		goSafe = goSafe && s.goSafe
	}
	body += crossMid
	defs := ""
	code := body
	for k := len(ctxs) - 1; k >= 0; k-- { // innermost first
		c := ctxs[k]
		d, cd := c.wrap(code, k+1)
		defs += d
		code = cd
		if c.fn && owner < 2 {
			owner = 2
		}
		goSafe = goSafe && c.goSafe
	}
	// "range-str" prints a character: Go prints a rune number
	for _, c := range ctxs {
		if c.name == "range-str" {
			goSafe = false
		}
	}
	src := crossPrelude + defs + code + crossEnd
	cp := crossProg{name: name, prog: tsparse.MustProg(src), owner: owner, goSafe: goSafe, nStmts: len(stmts)}
	for _, c := range ctxs {
		cp.ctx = append(cp.ctx, c.name)
	}
	return cp
}

// crossPrograms returns the programs of the space for one tier. Quick: (X1) complete, (X2) in three contexts
// (top level, a loop that runs twice, a function); thorough: (X2) in every context.
func crossPrograms(thorough bool) []crossProg {
	stmts, ctxs := crossStmts(), crossCtxs()
	var out []crossProg
	for _, s := range stmts {
		for _, c1 := range ctxs {
			out = append(out, crossBuild("one="+s.name+" in="+c1.name, []crossStmt{s}, []crossCtx{c1}))
			for _, c2 := range ctxs {
				if c1.name == "top" || c2.name == "top" {
					continue
				}
				// nested: the statement sits in c2, which sits in c1; a function context inside another
				// context is a call of the hoisted definition
				out = append(out, crossBuild("one="+s.name+" in="+c1.name+">"+c2.name, []crossStmt{s}, []crossCtx{c1, c2}))
			}
		}
	}
	pairCtx := map[string]bool{"top": true, "for3x2": true, "func-twice": true}
	for _, a := range stmts {
		for _, b := range stmts {
			for _, c := range ctxs {
				if !thorough && !pairCtx[c.name] {
					continue
				}
				out = append(out, crossBuild("pair="+a.name+" ; "+b.name+" in="+c.name, []crossStmt{a, b}, []crossCtx{c}))
			}
		}
	}
	return out
}

// crossFor returns the programs of the space that belong to one owner (1, 2, 3), or all (0).
func crossFor(owner int, thorough bool) []crossProg {
	var out []crossProg
	for _, p := range crossPrograms(thorough) {
		if owner == 0 || p.owner == owner {
			out = append(out, p)
		}
	}
	return out
}

// crossRun judges the programs of the cross-feature space that belong to one property on the Bash target.
// It returns the number of programs judged and of distinct sources; ok=false means that the model-conformance
// step failed (the caller ends the run with exit status 2).
func crossRun(r *findings.Run, owner int, deadline time.Time) (done, distinctN int, ok bool) {
	all := crossFor(owner, r.Thorough())
	{ // the Go-meaning share of the space is compiled with the Go toolchain and must agree with the interpreter
		var conf []*Prog
		for i, p := range all {
			if p.goSafe && (r.Thorough() || i%6 == 0) {
				conf = append(conf, p.prog)
			}
		}
		compared, problems := goConformance(conf, 400)
		r.Set("cross_traces_validated_against_go_toolchain", compared)
		if len(problems) > 0 {
			for _, p := range problems {
				fmt.Fprintln(os.Stderr, "MODEL CONFORMANCE:", p)
			}
			fmt.Fprintln(os.Stderr, "HARNESS ERROR: the reference interpreter does not agree with the Go toolchain on programs of the cross-feature space; nothing is judged")
			return 0, 0, false
		}
	}
	distinct := findings.NewDistinct()
	outcomes := findings.NewDistinct()
	var mu sync.Mutex
	undef, capped := 0, false
	drive.Par(len(all), func(i int) {
		if past(deadline) {
			mu.Lock()
			capped = true
			mu.Unlock()
			return
		}
		it := all[i]
		pv := JudgeBash(it.prog, ProgOpts{})
		mu.Lock()
		done++
		mu.Unlock()
		distinct.Add(pv.Src)
		if pv.Symptom == "undefined" {
			mu.Lock()
			undef++
			mu.Unlock()
			return
		}
		outcomes.Add(pv.Want.Stdout)
		if i%1999 == 0 {
			r.Sample(map[string]string{"kind": "cross-feature", "name": it.name, "source": pv.Src})
		}
		if pv.Symptom != "" {
			if r.Violations() > 40 {
				return
			}
			pv = confirm(it.prog, ProgOpts{}, pv)
			if pv.Symptom == "" {
				return // a sandbox kill that did not repeat (counted in common.go)
			}
			r.Fail("cross: "+it.name+" symptom="+pv.Symptom, fmt.Sprintf("cross-feature program [%s]: %s (%s)", it.name, pv.Symptom, pv.Detail), progReplay(pv, nil))
		}
	})
	r.Set("cross_programs", done)
	r.Set("cross_programs_distinct", distinct.Len())
	r.Set("cross_distinct_expected_outputs", outcomes.Len())
	r.Set("cross_skipped_undefined", undef)
	r.Set("cross_space", fmt.Sprintf("%d statements x (%d contexts + every context nested in every context) + every ordered pair of statements x %s; the share of this property", len(crossStmts()), len(crossCtxs()), map[bool]string{false: "3 contexts (top level, loop run twice, function called twice)", true: "every context"}[r.Thorough()]))
	if capped {
		r.Set("exhaustive", false)
		r.Set("cap_hit_cross", "cross-feature sweep stopped at the internal deadline")
	}
	return done, distinct.Len(), true
}

// crossNameClash reports a name that a cross-feature program defines at two places (outside the shared
// prelude). The space is built so that this never happens - a second definition in an inner block would shadow,
// which the properties exclude as undefined - and the generator is checked against it (cross_test.go).
func crossNameClash(p *Prog) string {
	seen := map[string]int{}
	def := func(n string) {
		if n != "_" && n != "" {
			seen[n]++
		}
	}
	progHas(p, func(s Stmt) bool {
		switch x := s.(type) {
		case Define:
			for _, n := range x.Names {
				def(n)
			}
		case For:
			if d, ok := x.Init.(Define); ok {
				for _, n := range d.Names {
					def(n)
				}
			}
		case ForRange:
			def(x.I)
			def(x.V)
		case FuncDef:
			def(x.Name)
			for _, pa := range x.Params {
				def(pa.Name + "@" + x.Name)
			}
		}
		return false
	})
	for n, c := range seen {
		// i and acc live in the prelude's loopsum, m in mk: each once
		if c > 1 {
			return n
		}
	}
	return ""
}

// crossReduced is the share of the space that the Batch check (C05, under the cmd.exe model) and the static
// check (C16) take in their quick tier: every statement in every single context, and every ordered pair of
// statements inside a function that is called twice. Their thorough tiers take the whole quick space.
func crossReduced(thorough bool) []crossProg {
	var out []crossProg
	for _, p := range crossPrograms(false) {
		if thorough || (p.nStmts == 1 && len(p.ctx) == 1) || (p.nStmts == 2 && p.ctx[0] == "func-twice") {
			out = append(out, p)
		}
	}
	return out
}

package checks

import (
	"fmt"
	"os"
	"strings"
	"sync"
	"time"

	"verif/corpus"
	"verif/drive"
	"verif/findings"

	. "verif/tsmodel"
	"verif/tsparse"
)

// Cross-feature space. The per-property generators each vary ONE family of constructs; a slip that needs two
// families to meet (a slice write inside a switch inside a function, a swap after a range loop, a call in a loop
// header of a function called twice) lies between them. This space closes that: a statement alphabet that spans
// the scalar, function, slice and string fragments, written as text (read by the reference parser tsparse),
// crossed with a context alphabet (every block kind, functions called once / twice / with parameters / for their
// result) and with itself:
//
//	(X1) every statement in every context and in every context nested in every context
//	(X2) every ORDERED PAIR of statements in every context
//
// Each program starts from the same state, ends with a dump of the whole state, and is judged against the
// reference interpreter like every other program. A program belongs to the property of its most demanding
// ingredient (slices/strings -> C03, functions -> C02, else C01); C05 and C16 take the same programs to the Batch
// target / the static checks.

type crossStmt struct {
	name   string
	text   string // '#' is replaced by a number unique to the position, so fresh names never collide
	owner  int    // 1 = C01 (scalars, control flow), 2 = C02 (functions), 3 = C03 (slices, strings)
	goSafe bool   // Go gives the same text the same meaning (model conformance)
}

func crossStmts() []crossStmt {
	var out []crossStmt
	for _, st := range corpus.CrossStmts() {
		out = append(out, crossStmt{name: st.Name, text: st.Text, owner: st.Owner, goSafe: st.GoSafe})
	}
	return out
}

// crossCtx wraps a body: defs go to the top level (after the prelude), code replaces the body.
type crossCtx struct {
	name   string
	fn     bool // contains a function definition (only legal at top level: the definition is hoisted)
	goSafe bool
	wrap   func(body string, id int) (defs, code string)
}

func crossCtxs() []crossCtx {
	inline := func(name, tmpl string) crossCtx {
		return crossCtx{name: name, goSafe: true, wrap: func(body string, id int) (string, string) {
			t := strings.ReplaceAll(tmpl, "@", fmt.Sprint(id))
			return "", strings.Replace(t, "BODY\n", body, 1)
		}}
	}
	fn := func(name, def, call string) crossCtx {
		return crossCtx{name: name, fn: true, goSafe: true, wrap: func(body string, id int) (string, string) {
			d := strings.ReplaceAll(def, "@", fmt.Sprint(id))
			return strings.Replace(d, "BODY\n", body, 1), strings.ReplaceAll(call, "@", fmt.Sprint(id))
		}}
	}
	return []crossCtx{
		inline("top", "BODY\n"),
		inline("if", "if k0 == 1 {\nBODY\n}\n"),
		inline("else", "if k0 == 2 {\nprint(\"no\")\n} else {\nBODY\n}\n"),
		inline("elif", "if k0 == 2 {\nprint(\"no\")\n} else if k0 == 1 {\nBODY\n} else {\nprint(\"no2\")\n}\n"),
		inline("for3x2", "for lc@ := 0; lc@ < 2; lc@++ {\nBODY\n}\n"),
		inline("whilex2", "lc@ := 0\nfor lc@ < 2 {\nBODY\nlc@++\n}\n"),
		inline("range-str", "for lc@, ch@ := range \"ab\" {\nprint(\"it\", lc@, ch@)\nBODY\n}\n"),
		inline("case", "switch k0 {\ncase 1:\nBODY\ndefault:\nprint(\"no\")\n}\n"),
		inline("default", "switch k0 {\ncase 2:\nprint(\"no\")\ndefault:\nBODY\n}\n"),
		inline("loop-continue-break", "for lc@ := 0; lc@ < 4; lc@++ {\nif lc@ == 1 {\ncontinue\n}\nBODY\nif lc@ == 2 {\nbreak\n}\n}\n"),
		fn("func", "func ctx@() {\nBODY\n}\n", "ctx@()\n"),
		fn("func-twice", "func ctx@() {\nBODY\n}\n", "ctx@()\nctx@()\n"),
		fn("func-result", "func ctx@() int {\nBODY\nreturn x + 1\n}\n", "print(\"ret\", ctx@())\n"),
		// a value returned from inside a loop inside a branch
		fn("func-nested-return", "func ctx@() int {\nif k0 == 1 {\nfor r@ := 0; r@ < 3; r@++ {\nBODY\nif r@ == 1 {\nreturn r@ + 40\n}\n}\n}\nreturn 0\n}\n", "print(\"ret\", ctx@())\n"),
		fn("func-params", "func ctx@(p@ int, q@ string) int {\nBODY\nreturn p@ + len(q@)\n}\n", "print(\"ret\", ctx@(y, u))\n"),
	}
}

type crossProg struct {
	name   string
	prog   *Prog
	owner  int
	goSafe bool
	nStmts int      // 1 or 2 statements of the alphabet
	ctx    []string // context names, outermost first
	pre    string   // "", "live", "dead": the state dump before the context
}

func crossBuild(name string, stmts []crossStmt, ctxs []crossCtx) crossProg {
	return crossBuildPre(name, stmts, ctxs, "")
}

// pre: "" (nothing before the context), "live" (the state dump CrossPre runs before the context), "dead" (CrossPre
// stands before the context in a branch that is never taken)
func crossBuildPre(name string, stmts []crossStmt, ctxs []crossCtx, pre string) crossProg {
	body := ""
	owner, goSafe := 1, true
	for i, s := range stmts {
		body += strings.ReplaceAll(s.text, "#", fmt.Sprint(i+1)) + "\n"
		if s.owner > owner {
			owner = s.owner
		}
		goSafe = goSafe && s.goSafe
	}
	body += corpus.CrossMid
	defs := ""
	code := body
	for k := len(ctxs) - 1; k >= 0; k-- { // innermost first
		c := ctxs[k]
		d, cd := c.wrap(code, k+1)
		defs += d
		code = cd
		if c.fn && owner < 2 {
			owner = 2
		}
		goSafe = goSafe && c.goSafe
	}
	// "range-str" prints a character: Go prints a rune number
	for _, c := range ctxs {
		if c.name == "range-str" {
			goSafe = false
		}
	}
	switch pre {
	case "live":
		code = corpus.CrossPre + code
		name += " pre=live"
	case "dead":
		code = "if k0 == 2 {\n" + corpus.CrossPre + "}\n" + code
		name += " pre=dead"
	}
	src := corpus.CrossPrelude + defs + code + corpus.CrossEnd
	cp := crossProg{name: name, prog: tsparse.MustProg(src), owner: owner, goSafe: goSafe, nStmts: len(stmts), pre: pre}
	for _, c := range ctxs {
		cp.ctx = append(cp.ctx, c.name)
	}
	return cp
}

// crossPrograms returns the programs of the space for one tier. Quick: (X1) complete, (X2) in three contexts
// (top level, a loop that runs twice, a function), (X3) for single statements in every single context; thorough: (X2) in every context, (X3) also for pairs in every
// repeating context.
func crossPrograms(thorough bool) []crossProg {
	stmts, ctxs := crossStmts(), crossCtxs()
	var out []crossProg
	for _, s := range stmts {
		for _, c1 := range ctxs {
			out = append(out, crossBuild("one="+s.name+" in="+c1.name, []crossStmt{s}, []crossCtx{c1}))
			// (X3) the same after an earlier occurrence of every facility the state dump uses: one that ran
			// and one that did not
			out = append(out, crossBuildPre("one="+s.name+" in="+c1.name, []crossStmt{s}, []crossCtx{c1}, "live"))
			out = append(out, crossBuildPre("one="+s.name+" in="+c1.name, []crossStmt{s}, []crossCtx{c1}, "dead"))
			for _, c2 := range ctxs {
				if c1.name == "top" || c2.name == "top" {
					continue
				}
				// nested: the statement sits in c2, which sits in c1; a function context inside another
				// context is a call of the hoisted definition
				out = append(out, crossBuild("one="+s.name+" in="+c1.name+">"+c2.name, []crossStmt{s}, []crossCtx{c1, c2}))
			}
		}
	}
	pairCtx := map[string]bool{"top": true, "for3x2": true, "func-twice": true}
	for _, a := range stmts {
		for _, b := range stmts {
			for _, c := range ctxs {
				if !thorough && !pairCtx[c.name] {
					continue
				}
				out = append(out, crossBuild("pair="+a.name+" ; "+b.name+" in="+c.name, []crossStmt{a, b}, []crossCtx{c}))
				// (X3) for pairs: thorough only, in every repeating context
				if thorough && preCtx[c.name] {
					out = append(out, crossBuildPre("pair="+a.name+" ; "+b.name+" in="+c.name, []crossStmt{a, b}, []crossCtx{c}, "live"))
					out = append(out, crossBuildPre("pair="+a.name+" ; "+b.name+" in="+c.name, []crossStmt{a, b}, []crossCtx{c}, "dead"))
				}
			}
		}
	}
	return out
}

var preCtx = map[string]bool{"for3x2": true, "whilex2": true, "func-twice": true, "loop-continue-break": true, "range-str": true}

// crossFor returns the programs of the space that belong to one owner (1, 2, 3), or all (0).
func crossFor(owner int, thorough bool) []crossProg {
	var out []crossProg
	for _, p := range crossPrograms(thorough) {
		if owner == 0 || p.owner == owner {
			out = append(out, p)
		}
	}
	return out
}

// crossRun judges the programs of the cross-feature space that belong to one property on the Bash target.
// It returns the number of programs judged and of distinct sources; ok=false means that the model-conformance
// step failed (the caller ends the run with exit status 2).
func crossRun(r *findings.Run, owner int, deadline time.Time) (done, distinctN int, ok bool) {
	all := crossFor(owner, r.Thorough())
	{ // the Go-meaning share of the space is compiled with the Go toolchain and must agree with the interpreter
		var conf []*Prog
		for i, p := range all {
			if p.goSafe && (r.Thorough() || i%6 == 0) {
				conf = append(conf, p.prog)
			}
		}
		compared, problems := goConformance(conf, 400)
		r.Set("cross_traces_validated_against_go_toolchain", compared)
		if len(problems) > 0 {
			for _, p := range problems {
				fmt.Fprintln(os.Stderr, "MODEL CONFORMANCE:", p)
			}
			fmt.Fprintln(os.Stderr, "HARNESS ERROR: the reference interpreter does not agree with the Go toolchain on programs of the cross-feature space; nothing is judged")
			return 0, 0, false
		}
	}
	distinct := findings.NewDistinct()
	outcomes := findings.NewDistinct()
	var mu sync.Mutex
	undef, capped := 0, false
	drive.Par(len(all), func(i int) {
		if past(deadline) {
			mu.Lock()
			capped = true
			mu.Unlock()
			return
		}
		it := all[i]
		pv := JudgeBash(it.prog, ProgOpts{})
		mu.Lock()
		done++
		mu.Unlock()
		distinct.Add(pv.Src)
		if pv.Symptom == "undefined" {
			mu.Lock()
			undef++
			mu.Unlock()
			return
		}
		outcomes.Add(pv.Want.Stdout)
		if i%1999 == 0 {
			r.Sample(map[string]string{"kind": "cross-feature", "name": it.name, "source": pv.Src})
		}
		if pv.Symptom != "" {
			if r.Violations() > 40 {
				return
			}
			pv = confirm(it.prog, ProgOpts{}, pv)
			if pv.Symptom == "" {
				return // a sandbox kill that did not repeat (counted in common.go)
			}
			r.Fail("cross: "+it.name+" symptom="+pv.Symptom, fmt.Sprintf("cross-feature program [%s]: %s (%s)", it.name, pv.Symptom, pv.Detail), progReplay(pv, nil))
		}
	})
	r.Set("cross_programs", done)
	r.Set("cross_programs_distinct", distinct.Len())
	r.Set("cross_distinct_expected_outputs", outcomes.Len())
	r.Set("cross_skipped_undefined", undef)
	r.Set("cross_space", fmt.Sprintf("%d statements x (%d contexts + every context nested in every context) + every ordered pair of statements x %s; the share of this property", len(crossStmts()), len(crossCtxs()), map[bool]string{false: "3 contexts (top level, loop run twice, function called twice); every statement in every single context also after a state dump that ran / that stands in a branch never taken", true: "every context; statements in every single context and pairs in every repeating context also after a state dump that ran / that stands in a branch never taken"}[r.Thorough()]))
	if capped {
		r.Set("exhaustive", false)
		r.Set("cap_hit_cross", "cross-feature sweep stopped at the internal deadline")
	}
	return done, distinct.Len(), true
}

// crossNameClash reports a name that a cross-feature program defines at two places (outside the shared
// prelude). The space is built so that this never happens - a second definition in an inner block would shadow,
// which the properties exclude as undefined - and the generator is checked against it (cross_test.go).
func crossNameClash(p *Prog) string {
	seen := map[string]int{}
	def := func(n string) {
		if n != "_" && n != "" {
			seen[n]++
		}
	}
	progHas(p, func(s Stmt) bool {
		switch x := s.(type) {
		case Define:
			for _, n := range x.Names {
				def(n)
			}
		case For:
			if d, ok := x.Init.(Define); ok {
				for _, n := range d.Names {
					def(n)
				}
			}
		case ForRange:
			def(x.I)
			def(x.V)
		case FuncDef:
			def(x.Name)
			for _, pa := range x.Params {
				def(pa.Name + "@" + x.Name)
			}
		}
		return false
	})
	for n, c := range seen {
		// i and acc live in the prelude's loopsum, m in mk: each once
		if c > 1 {
			return n
		}
	}
	return ""
}

// crossReduced is the share of the space that the Batch check (C05, under the cmd.exe model) and the static
// check (C16) take in their quick tier: every statement in every single context, and every ordered pair of
// statements inside a function that is called twice. Their thorough tiers take the whole quick space.
func crossReduced(thorough bool, morePairCtx ...string) []crossProg {
	var out []crossProg
	for _, p := range crossPrograms(false) {
		if thorough || (p.nStmts == 1 && len(p.ctx) == 1 && p.pre == "") || (p.nStmts == 2 && p.ctx[0] == "func-twice") {
			out = append(out, p)
		}
	}
	if !thorough && len(morePairCtx) > 0 {
		// pairs in further single contexts (the quick space has pairs only at top level, in a loop and in a function)
		stmts := crossStmts()
		for _, c := range crossCtxs() {
			for _, m := range morePairCtx {
				if c.name != m {
					continue
				}
				for _, a := range stmts {
					for _, b := range stmts {
						out = append(out, crossBuild("pair="+a.name+" ; "+b.name+" in="+c.name, []crossStmt{a, b}, []crossCtx{c}))
					}
				}
			}
		}
	}
	return out
}

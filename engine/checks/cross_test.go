package checks

import (
	"testing"

	. "verif/tsmodel"
	"verif/tsparse"
)

func TestCrossSpaceBuilds(t *testing.T) {
	ps := crossPrograms(false)
	undef := map[string]int{}
	owners := map[int]int{}
	outs := map[string]bool{}
	safe := 0
	for i, p := range ps {
		if i%50 == 0 {
			if err := tsparse.RoundTrip(p.prog); err != nil {
				t.Fatal(err)
			}
		}
		if n := crossNameClash(p.prog); n != "" {
			t.Fatalf("%s defines %s twice:\n%s", p.name, n, PrintProg(*p.prog))
		}
		o := (&Interp{Width: 64}).Run(p.prog)
		if o.Undefined != "" {
			undef[o.Undefined]++
			continue
		}
		owners[p.owner]++
		outs[o.Stdout] = true
		if p.goSafe {
			safe++
		}
	}
	t.Logf("%d programs, defined by owner %v, goSafe %d, distinct outputs %d, undefined %v", len(ps), owners, safe, len(outs), undef)
}

package checks

import (
	"testing"

	"verif/corpus"
	"verif/drive"
)

func TestCrossAllAccepted(t *testing.T) {
	p := corpus.CrossAll()
	for tg := 0; tg < 2; tg++ {
		r := drive.TranspileSrc(p.Src, drive.Target(tg))
		if !r.OK() {
			t.Fatalf("target %d: %s %s", tg, r.Err, r.Panic)
		}
		t.Logf("target %d: %d bytes of script for %d bytes of source", tg, len(r.Script), len(p.Src))
	}
}

package checks

import (
	"time"

	"verif/drive"
	"verif/findings"
)

func init() {
	// cross-dev <owner>: runs the cross-feature share of one owner alone (development aid; writes evidence/XDEV.json)
	Tools["cross-dev"] = func(args []string) int {
		owner := 0
		if len(args) > 0 {
			owner = int(args[0][0] - '0')
		}
		r := findings.New("XDEV")
		defer drive.Cleanup()
		r.Set("exhaustive", true)
		done, dn, ok := crossRun(r, owner, time.Now().Add(30*time.Minute))
		if !ok {
			return 2
		}
		r.Set("evaluations", done)
		r.Set("distinct_nontrivial", dn)
		r.Set("rule", "development run")
		return r.Finish()
	}
}

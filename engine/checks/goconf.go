package checks

import (
	"bytes"
	"fmt"
	"os"
	"os/exec"
	"path/filepath"
	"regexp"
	"strings"
	"sync"

	"verif/drive"
	. "verif/tsmodel"
)

// Model conformance: the reference interpreter claims to implement "the Go
// meaning" of the scalar/control-flow fragment. For programs of that fragment
// the TypeShell text is (after a mechanical transliteration) a Go program, so
// the claim is checked against the real Go toolchain: the generated programs
// are compiled in batches and executed, and their output must equal the
// interpreter's. This binds the model to Go independently of the repository.
//
// Transliteration: every program becomes `func prog<i>(ts_ *tsOut)`; print(..)
// -> ts_.p(..) (bools as 1/0, one blank between values), panic(x) ->
// ts_.panic(x) (prints "panic: x", ends the program with status 1), itoa ->
// strconv.Itoa. Everything else is the same text. Programs whose conditions
// have effects are not in this fragment (the generators used here have none),
// so eager and short-circuit evaluation coincide.

var (
	rePrint = regexp.MustCompile(`\bprint\(`)
	rePanic = regexp.MustCompile(`\bpanic\(`)
	reItoa  = regexp.MustCompile(`\bitoa\(`)
)

const goConfHeader = `package main

import (
	"bytes"
	"fmt"
	"os"
	"strconv"
	"strings"
)

var _ = strconv.Itoa

type tsExit struct{ code int }

type tsOut struct{ b bytes.Buffer }

func (o *tsOut) p(args ...interface{}) {
	parts := make([]string, len(args))
	for i, a := range args {
		switch v := a.(type) {
		case bool:
			if v {
				parts[i] = "1"
			} else {
				parts[i] = "0"
			}
		default:
			parts[i] = fmt.Sprint(v)
		}
	}
	o.b.WriteString(strings.Join(parts, " ") + "\n")
}

func (o *tsOut) panic(x interface{}) {
	o.p("panic: " + fmt.Sprint(x))
	panic(tsExit{1})
}

func run(i int, f func(*tsOut)) {
	o := &tsOut{}
	code := 0
	func() {
		defer func() {
			if r := recover(); r != nil {
				if e, ok := r.(tsExit); ok {
					code = e.code
					return
				}
				panic(r)
			}
		}()
		f(o)
	}()
	fmt.Printf("@@BEGIN %d\n%s@@END %d exit=%d\n", i, o.b.String(), i, code)
}

func main() {
	_ = os.Args
`

var (
	reFunc   = regexp.MustCompile(`(?m)^func ([A-Za-z_][A-Za-z0-9_]*)\(`)
	reStrDef = regexp.MustCompile(`(?m)^(\s*)(str := "abcdef")$`)
)

func goTransliterate(p *Prog) string {
	src := PrintProg(*p)
	src = rePrint.ReplaceAllString(src, "ts_.p(")
	src = rePanic.ReplaceAllString(src, "ts_.panic(")
	src = reItoa.ReplaceAllString(src, "strconv.Itoa(")
	// top-level functions become closures defined in program order: they capture the variables
	// defined before them (TypeShell: a function sees the globals defined before it)
	var names []string
	for _, m := range reFunc.FindAllStringSubmatch(src, -1) {
		names = append(names, m[1])
	}
	src = reFunc.ReplaceAllString(src, "$1 := func(")
	src = reStrDef.ReplaceAllString(src, "$1$2\n${1}_ = str")
	for _, n := range names {
		src += "_ = " + n + "\n"
	}
	return src
}

// goConformance compiles and runs the programs with the Go toolchain and
// compares with the interpreter. It returns the number of programs compared
// and a description of the first disagreements (empty = conforming).
func goConformance(progs []*Prog, perBinary int) (compared int, problems []string) {
	dir := drive.NewDir("goconf")
	defer os.RemoveAll(dir)
	type chunk struct{ lo, hi int }
	var chunks []chunk
	for lo := 0; lo < len(progs); lo += perBinary {
		hi := lo + perBinary
		if hi > len(progs) {
			hi = len(progs)
		}
		chunks = append(chunks, chunk{lo, hi})
	}
	var mu sync.Mutex
	addProblem := func(s string) {
		mu.Lock()
		if len(problems) < 10 {
			problems = append(problems, s)
		}
		mu.Unlock()
	}
	os.WriteFile(filepath.Join(dir, "go.mod"), []byte("module goconf\n\ngo 1.22\n"), 0o644)
	drive.Par(len(chunks), func(ci int) {
		c := chunks[ci]
		pkg := filepath.Join(dir, fmt.Sprintf("c%d", ci))
		os.MkdirAll(pkg, 0o755)
		var b strings.Builder
		b.WriteString(goConfHeader)
		for i := c.lo; i < c.hi; i++ {
			fmt.Fprintf(&b, "\trun(%d, prog%d)\n", i, i)
		}
		b.WriteString("}\n\n")
		want := map[int]Obs{}
		for i := c.lo; i < c.hi; i++ {
			in := &Interp{Width: 64}
			o := in.Run(progs[i])
			want[i] = o
			if o.Undefined != "" {
				// outside the defined fragment (e.g. division by zero): Go would trap; nothing to compare
				fmt.Fprintf(&b, "func prog%d(ts_ *tsOut) {}\n\n", i)
				continue
			}
			fmt.Fprintf(&b, "func prog%d(ts_ *tsOut) {\n%s}\n\n", i, goTransliterate(progs[i]))
		}
		os.WriteFile(filepath.Join(pkg, "main.go"), []byte(b.String()), 0o644)
		bin := filepath.Join(pkg, "prog.bin")
		cmd := exec.Command("go", "build", "-o", bin, ".")
		cmd.Dir = pkg
		cmd.Env = append(os.Environ(), "GOFLAGS=-mod=mod", "GOPROXY=off", "GOSUMDB=off", "GOTOOLCHAIN=local", "GO111MODULE=on")
		if out, err := cmd.CombinedOutput(); err != nil {
			addProblem(fmt.Sprintf("Go rejects the transliteration of a generated program (chunk %d): %s", ci, clipN(string(out), 600)))
			return
		}
		var stdout, stderr bytes.Buffer
		rc := exec.Command(bin)
		rc.Stdout, rc.Stderr = &stdout, &stderr
		if err := rc.Run(); err != nil {
			addProblem(fmt.Sprintf("the compiled Go programs of chunk %d crashed: %v %s", ci, err, clipN(stderr.String(), 400)))
			return
		}
		text := stdout.String()
		for i := c.lo; i < c.hi; i++ {
			begin := fmt.Sprintf("@@BEGIN %d\n", i)
			bi := strings.Index(text, begin)
			if bi < 0 {
				addProblem(fmt.Sprintf("no output for program %d", i))
				continue
			}
			rest := text[bi+len(begin):]
			endTag := fmt.Sprintf("@@END %d exit=", i)
			ei := strings.Index(rest, endTag)
			if ei < 0 {
				addProblem(fmt.Sprintf("unterminated output for program %d", i))
				continue
			}
			got := rest[:ei]
			var code int
			fmt.Sscanf(rest[ei+len(endTag):], "%d", &code)
			w := want[i]
			mu.Lock()
			compared++
			mu.Unlock()
			if w.Undefined != "" {
				continue // outside the defined fragment: nothing to compare
			}
			if got != w.Stdout || code != w.Exit {
				addProblem(fmt.Sprintf("the reference interpreter and Go disagree on:\n%s\ninterpreter: exit=%d %q\nGo:          exit=%d %q", PrintProg(*progs[i]), w.Exit, clipN(w.Stdout, 300), code, clipN(got, 300)))
			}
		}
	})
	return compared, problems
}

package checks

import (
	"verif/c11"
	"verif/c12"
	"verif/c13"
	"verif/c14"
	"verif/c15"
	"verif/c18"
	"verif/c19"
)

func init() {
	Registry["C11"] = c11.Run
	Registry["C12"] = c12.Run
	Registry["C13"] = c13.Run
	Registry["C14"] = c14.Run
	Registry["C15"] = c15.Run
	Registry["C18"] = c18.Run
	Registry["C19"] = c19.Run
	Tools["c13worker"] = func([]string) int { return c13.Worker() }
	Tools["c14worker"] = func([]string) int { return c14.Worker() }
}

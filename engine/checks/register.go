package checks

import (
	"verif/c15"
	"verif/c18"
	"verif/c19"
)

func init() {
	Registry["C15"] = c15.Run
	Registry["C18"] = c18.Run
	Registry["C19"] = c19.Run
}

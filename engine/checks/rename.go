package checks

import (
	"reflect"

	. "verif/tsmodel"
)

// renameProg returns a copy of p in which every user identifier (variables, parameters, functions; not import
// aliases, not the blank identifier) is spelled f(name). The renaming must be injective and must not produce a
// reserved word; the program's meaning is then the same by definition, so the reference interpreter judges the
// renamed program like any other. Used to give the program spaces a spelling dimension (underscore-led names,
// capitals, trailing digits) without touching the generators.
func renameProg(p *Prog, f func(string) string) *Prog {
	g := func(n string) string {
		if n == "_" || n == "" {
			return n
		}
		return f(n)
	}
	var walk func(v reflect.Value) reflect.Value
	walk = func(v reflect.Value) reflect.Value {
		switch v.Kind() {
		case reflect.Interface:
			if v.IsNil() {
				return v
			}
			out := reflect.New(v.Type()).Elem()
			out.Set(walk(v.Elem()))
			return out
		case reflect.Slice:
			if v.IsNil() {
				return v
			}
			out := reflect.MakeSlice(v.Type(), v.Len(), v.Len())
			for i := 0; i < v.Len(); i++ {
				out.Index(i).Set(walk(v.Index(i)))
			}
			return out
		case reflect.Struct:
			out := reflect.New(v.Type()).Elem()
			tn := v.Type().Name()
			for i := 0; i < v.NumField(); i++ {
				fn := v.Type().Field(i).Name
				fv := v.Field(i)
				isName := false
				switch tn {
				case "Var", "OpAssign", "IncDec", "SliceSet", "Param", "FuncDef":
					isName = fn == "Name"
				case "Define", "Assign":
					isName = fn == "Names"
				case "ForRange":
					isName = fn == "I" || fn == "V"
				case "Call":
					isName = fn == "Fn" && v.FieldByName("Alias").String() == ""
				case "CopyE":
					isName = fn == "Dst"
				}
				switch {
				case isName && fv.Kind() == reflect.String:
					out.Field(i).SetString(g(fv.String()))
				case isName && fv.Kind() == reflect.Slice:
					ns := reflect.MakeSlice(fv.Type(), fv.Len(), fv.Len())
					for k := 0; k < fv.Len(); k++ {
						ns.Index(k).SetString(g(fv.Index(k).String()))
					}
					out.Field(i).Set(ns)
				default:
					out.Field(i).Set(walk(fv))
				}
			}
			return out
		}
		return v
	}
	q := walk(reflect.ValueOf(*p)).Interface().(Prog)
	return &q
}

// spellings are the identifier shapes the program spaces are additionally judged in.
var spellings = []struct {
	name string
	f    func(string) string
}{
	{"underscore-led", func(n string) string { return "_u_" + n }}, // (not "_"+n: _i, _c, _len are names of the back-ends, C10's listed finding)
	{"capitalised", func(n string) string { return string(n[0]&^0x20) + n[1:] + "Q" }},
	{"underscore-tail", func(n string) string { return n + "_" }},
	{"digit-tail", func(n string) string { return n + "_79" }},
	// a reserved word glued in front: the identifier is maximal, so it stays an identifier (each name gets one of
	// the words, chosen by its spelling, so a program with several names covers several words)
	{"keyword-led", func(n string) string {
		words := []string{"true", "false", "for", "if", "len", "print", "int", "nil", "var", "func", "return", "range", "case", "else", "copy", "read", "bool", "string", "switch", "break", "continue", "default", "import", "itoa", "exists", "write", "panic", "input", "error"}
		h := 0
		for i := 0; i < len(n); i++ {
			h = h*31 + int(n[i])
		}
		return words[h%len(words)] + string(n[0]&^0x20) + n[1:]
	}},
}

package checks

import (
	"strings"
	"testing"

	"verif/corpus"
	"verif/drive"
	"verif/tsparse"
)

func TestTinyAccepted(t *testing.T) {
	for _, p := range corpus.Tiny() {
		for tg := 0; tg < 2 && !strings.HasPrefix(p.Name, "import-"); tg++ {
			r := drive.TranspileSrc(p.Src, drive.Target(tg))
			if !r.OK() {
				t.Errorf("%s target %d: %s %s", p.Name, tg, r.Err, r.Panic)
			}
		}
		if _, err := tsparse.Parse(p.Src); err != nil {
			t.Logf("%s: not in the model: %v", p.Name, err)
		}
	}
}

package checks

// Tools are auxiliary subcommands of vcheck (workers, replay helpers).
var Tools = map[string]func(args []string) int{}

package checks

import (
	"fmt"

	"verif/drive"
)

// Tools are auxiliary subcommands of vcheck (workers, replay helpers).
var Tools = map[string]func(args []string) int{}

func init() {
	// transpile-one <file> <bash|batch>: one Transpile call in this process (used by the
	// supervisor to isolate crashing inputs, and by replay scripts). Exit 0 = returned normally.
	Tools["transpile-one"] = func(args []string) int {
		t := drive.Bash
		if len(args) > 1 && args[1] == "batch" {
			t = drive.Batch
		}
		res := drive.TranspilePath(args[0], t)
		switch {
		case res.Panic != "":
			fmt.Println("PANIC:", res.Panic)
			return 3
		case res.HasErr:
			fmt.Println("ERROR:", res.Err)
		default:
			fmt.Print(res.Script)
		}
		return 0
	}
}

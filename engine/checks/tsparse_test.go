package checks

import (
	"testing"

	. "verif/tsmodel"
	"verif/tsparse"
)

// every program the generators build survives print + parse unchanged
func TestParserRoundTrip(t *testing.T) {
	var progs []*Prog
	progs = append(progs, c01SimplePrograms()...)
	memo := map[[3]int][][]skNode{}
	for _, s := range enumSeqs(fullKinds(), 2, 2, 3, memo) {
		progs = append(progs, skProgram(s))
	}
	ops := c03Ops()
	for _, el := range c03Elems {
		for i := range ops {
			for j := range ops {
				st := c03State{objs: [][]int{{1, 2}, {}}, v: 0, w: 1}
				if !ops[i].ok(st) {
					continue
				}
				ns := st.clone()
				ops[i].apply(&ns)
				if !ops[j].ok(ns) {
					continue
				}
				p, _ := c03HistoryProg([]int{i, j}, ops, el)
				progs = append(progs, p)
			}
		}
	}
	progs = append(progs, c02Typed()...)
	for _, tm := range c04Templates() {
		progs = append(progs, c04Program(tm, 1, "top"))
	}
	n := 0
	for _, p := range progs {
		if progHas(p, func(s Stmt) bool { _, raw := s.(Raw); return raw }) {
			continue
		}
		if err := tsparse.RoundTrip(p); err != nil {
			t.Fatalf("round trip: %v", err)
		}
		n++
	}
	t.Logf("%d programs round-tripped", n)
}

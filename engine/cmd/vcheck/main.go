// vcheck runs one property check: vcheck <Cxx>  (tier from VERIF_TIER).
//
// The check itself runs in a supervised child process: the repository's code is
// linked in-process, and a Go fatal error in it (stack exhaustion, out of
// memory) cannot be recovered. If the child dies that way, the supervisor finds
// the in-flight inputs it left in the scratch directory, re-runs each one alone
// in a fresh process and reports the ones that crash as violations.
package main

import (
	"encoding/json"
	"fmt"
	"os"
	"os/exec"
	"path/filepath"
	"sort"
	"strings"
	"time"

	"verif/checks"
	"verif/drive"
	"verif/findings"
)

func main() {
	if len(os.Args) < 2 {
		fmt.Fprintln(os.Stderr, "usage: vcheck <property-id|tool> [args]")
		os.Exit(2)
	}
	if f, ok := checks.Tools[os.Args[1]]; ok {
		os.Exit(f(os.Args[2:]))
	}
	f, ok := checks.Registry[os.Args[1]]
	if !ok {
		ids := []string{}
		for k := range checks.Registry {
			ids = append(ids, k)
		}
		sort.Strings(ids)
		fmt.Fprintf(os.Stderr, "unknown check %q; have %v\n", os.Args[1], ids)
		os.Exit(2)
	}
	if os.Getenv("VERIF_CHILD") == "1" {
		os.Exit(f())
	}
	os.Exit(supervise(os.Args[1]))
}

func supervise(prop string) int {
	scratch := drive.Scratch()
	defer drive.Cleanup()
	start := time.Now()
	exe, _ := os.Executable()
	cmd := exec.Command(exe, prop)
	cmd.Env = append(os.Environ(), "VERIF_CHILD=1", "VERIF_SCRATCH="+scratch)
	cmd.Stdout = os.Stdout
	errLog := filepath.Join(scratch, "child.stderr")
	ef, _ := os.Create(errLog)
	cmd.Stderr = ef
	err := cmd.Run()
	ef.Close()
	code := 0
	if err != nil {
		code = -1
		if ee, ok := err.(*exec.ExitError); ok {
			code = ee.ExitCode()
		}
	}
	stderr, _ := os.ReadFile(errLog)
	if code == 0 || code == 1 {
		os.Stderr.Write(stderr)
		return code
	}
	if !strings.Contains(string(stderr), "fatal error:") && !strings.Contains(string(stderr), "panic:") && code != -1 {
		os.Stderr.Write(stderr)
		return code // the check's own explicit harness error
	}
	// The child died. Find the inputs that were in flight and re-run each alone.
	fmt.Fprintf(os.Stderr, "supervisor: check process died (status %d); isolating the in-flight inputs\n%s\n", code, tail(string(stderr), 12))
	cands, _ := filepath.Glob(filepath.Join(scratch, "verif-*", "src*", "main.tsh"))
	more, _ := filepath.Glob(filepath.Join(scratch, "src*", "main.tsh"))
	cands = append(cands, more...)
	sort.Strings(cands)
	crashed := 0
	for _, c := range cands {
		for _, target := range []string{"bash", "batch"} {
			one := exec.Command(exe, "transpile-one", c, target)
			one.Env = append(os.Environ(), "VERIF_CHILD=1")
			done := make(chan error, 1)
			var out []byte
			go func() { var e error; out, e = one.CombinedOutput(); done <- e }()
			var e error
			hang := false
			select {
			case e = <-done:
			case <-time.After(120 * time.Second):
				one.Process.Kill()
				hang = true
			}
			if e == nil && !hang {
				continue
			}
			crashed++
			sym := "fatal-error"
			if hang {
				sym = "hang"
			}
			dir := filepath.Join(findings.Root(), "replays", prop, fmt.Sprintf("crash%d", crashed))
			os.MkdirAll(filepath.Join(dir, "src"), 0o755)
			srcDir := filepath.Dir(c)
			ents, _ := os.ReadDir(srcDir)
			for _, en := range ents {
				if b, err := os.ReadFile(filepath.Join(srcDir, en.Name())); err == nil {
					os.WriteFile(filepath.Join(dir, "src", en.Name()), b, 0o644)
				}
			}
			os.WriteFile(filepath.Join(dir, "output.txt"), []byte(tail(string(out), 40)), 0o644)
			os.WriteFile(filepath.Join(dir, "replay.sh"), []byte("#!/bin/bash\ncd \"$(dirname \"$0\")\"\n/verif/bin/vcheck transpile-one src/main.tsh "+target+"\n"), 0o755)
			fmt.Printf("VIOLATION property=%s replay=%s key=transpiler-crash target=%s symptom=%s :: transpiling this input kills the process (%s): %s\n", prop, dir, target, sym, sym, firstLine(string(out)))
			break
		}
	}
	if crashed == 0 {
		os.Stderr.Write(stderr)
		fmt.Fprintln(os.Stderr, "HARNESS ERROR: the check process died and no in-flight input reproduces the crash")
		return 2
	}
	tier := os.Getenv("VERIF_TIER")
	if tier != "thorough" {
		tier = "quick"
	}
	ev := map[string]interface{}{"property_id": prop, "tier": tier, "seed": 0, "level": "exploration", "wall_s": time.Since(start).Seconds(), "violations": crashed,
		"assumptions": []string{"the check process was killed by a fatal error inside the repository's code; only the isolated in-flight inputs are reported"},
		"coverage": map[string]interface{}{"evaluations": len(cands), "distinct_nontrivial": len(cands), "exhaustive": false,
			"rule": "in-flight inputs of a crashed check run, each re-run alone in a fresh process", "samples": cands}}
	b, _ := json.MarshalIndent(ev, "", " ")
	os.WriteFile(filepath.Join(findings.Root(), "evidence", prop+".json"), b, 0o644)
	return 1
}

func tail(s string, n int) string {
	l := strings.Split(strings.TrimRight(s, "\n"), "\n")
	if len(l) > n {
		l = l[len(l)-n:]
	}
	return strings.Join(l, "\n")
}

func firstLine(s string) string {
	if i := strings.IndexByte(s, '\n'); i >= 0 {
		return s[:i]
	}
	return s
}

// vcheck runs one property check: vcheck <Cxx>  (tier from VERIF_TIER).
package main

import (
	"fmt"
	"os"
	"sort"

	"verif/checks"
)

func main() {
	if len(os.Args) < 2 {
		fmt.Fprintln(os.Stderr, "usage: vcheck <property-id|worker|...> [args]")
		os.Exit(2)
	}
	if f, ok := checks.Registry[os.Args[1]]; ok {
		os.Exit(f())
	}
	if f, ok := checks.Tools[os.Args[1]]; ok {
		os.Exit(f(os.Args[2:]))
	}
	ids := []string{}
	for k := range checks.Registry {
		ids = append(ids, k)
	}
	sort.Strings(ids)
	fmt.Fprintf(os.Stderr, "unknown check %q; have %v\n", os.Args[1], ids)
	os.Exit(2)
}

package cmdmodel

import (
	"strconv"
)

// set /A (rule 4): 32-bit two's complement, C precedence for  unary + -   * / %   + -   and
// assignment = += -= *= /= %=, comma sequencing, parentheses; undefined names read as 0.
// Bit operators, shifts and logical not are outside the emitted subset: unmodelled.

type arith struct {
	in  *interp
	s   string
	i   int
	src string
}

type aval struct {
	v    int32
	name string // non-empty: the operand is a bare variable name (assignable)
}

func (in *interp) evalArith(expr string) {
	a := &arith{in: in, s: expr, src: expr}
	a.ws()
	if a.i >= len(a.s) {
		in.scriptError("set /A: The syntax of the command is incorrect (empty expression)")
	}
	a.comma()
	a.ws()
	if a.i < len(a.s) {
		a.bad()
	}
}

func (a *arith) bad() {
	c := "end of expression"
	if a.i < len(a.s) {
		c = strconv.Quote(string(a.s[a.i]))
	}
	a.in.unmodelled("rule 4: set /A expression %q: %s is outside the modelled grammar", a.src, c)
}

func (a *arith) ws() {
	for a.i < len(a.s) && (a.s[a.i] == ' ' || a.s[a.i] == '\t') {
		a.i++
	}
}

func (a *arith) peek() byte {
	a.ws()
	if a.i < len(a.s) {
		return a.s[a.i]
	}
	return 0
}

func (a *arith) comma() int32 {
	v := a.assign()
	for a.peek() == ',' {
		a.i++
		v = a.assign()
	}
	return v
}

func (a *arith) value(x aval) int32 {
	if x.name == "" {
		return x.v
	}
	s, ok := a.in.getVar(x.name)
	if !ok {
		return 0
	}
	n, ok := a.parseNumber(s, false)
	if !ok {
		a.in.unmodelled("rule 4: set /A reads variable %s whose value %q is not a plain number", x.name, s)
	}
	return n
}

func (a *arith) assign() int32 {
	save := a.i
	a.ws()
	if a.i < len(a.s) && isIdentStart(a.s[a.i]) {
		j := a.i
		for j < len(a.s) && isIdentChar(a.s[j]) {
			j++
		}
		name := a.s[a.i:j]
		k := j
		for k < len(a.s) && (a.s[k] == ' ' || a.s[k] == '\t') {
			k++
		}
		op := byte(0)
		if k < len(a.s) && a.s[k] == '=' {
			op = '='
			k++
		} else if k+1 < len(a.s) && a.s[k+1] == '=' && (a.s[k] == '+' || a.s[k] == '-' || a.s[k] == '*' || a.s[k] == '/' || a.s[k] == '%') {
			op = a.s[k]
			k += 2
		}
		if op != 0 {
			a.i = k
			rhs := a.assign()
			res := rhs
			if op != '=' {
				res = a.binop(op, a.value(aval{name: name}), rhs)
			}
			a.in.setVar(name, strconv.Itoa(int(res)))
			return res
		}
	}
	a.i = save
	return a.additive()
}

func (a *arith) additive() int32 {
	v := a.term()
	for {
		c := a.peek()
		if c != '+' && c != '-' {
			return v
		}
		if a.i+1 < len(a.s) && a.s[a.i+1] == '=' {
			a.bad()
		}
		a.i++
		v = a.binop(c, v, a.term())
	}
}

func (a *arith) term() int32 {
	v := a.unary()
	for {
		c := a.peek()
		if c != '*' && c != '/' && c != '%' {
			return v
		}
		if a.i+1 < len(a.s) && a.s[a.i+1] == '=' {
			a.bad()
		}
		a.i++
		v = a.binop(c, v, a.unary())
	}
}

func (a *arith) binop(op byte, l, r int32) int32 {
	switch op {
	case '+':
		return l + r
	case '-':
		return l - r
	case '*':
		return l * r
	case '/', '%':
		if r == 0 {
			a.in.scriptError("Divide by zero error.")
		}
		if l == -2147483648 && r == -1 {
			a.in.unmodelled("rule 4: set /A -2147483648 %c -1", op)
		}
		if op == '/' {
			return l / r
		}
		return l % r
	}
	a.bad()
	return 0
}

func (a *arith) unary() int32 {
	switch a.peek() {
	case '-':
		a.i++
		return -a.unary()
	case '+':
		a.i++
		return a.unary()
	case '(':
		a.i++
		v := a.comma()
		if a.peek() != ')' {
			a.in.scriptError("set /A: Unbalanced parenthesis.")
		}
		a.i++
		return v
	}
	c := a.peek()
	switch {
	case c >= '0' && c <= '9':
		j := a.i
		for j < len(a.s) && (isIdentChar(a.s[j])) {
			j++
		}
		tok := a.s[a.i:j]
		n, ok := a.parseNumber(tok, true)
		if !ok {
			a.in.scriptError("Invalid number.  Numeric constants are either decimal (17), hexadecimal (0x11), or octal (021).")
		}
		a.i = j
		return n
	case isIdentStart(c):
		j := a.i
		for j < len(a.s) && isIdentChar(a.s[j]) {
			j++
		}
		name := a.s[a.i:j]
		a.i = j
		return a.value(aval{name: name})
	case c == 0:
		a.in.scriptError("set /A: Missing operand.")
	}
	a.bad()
	return 0
}

func isIdentStart(c byte) bool {
	return c == '_' || c >= 'a' && c <= 'z' || c >= 'A' && c <= 'Z'
}

func isIdentChar(c byte) bool { return isIdentStart(c) || c >= '0' && c <= '9' }

// parseNumber parses a numeric constant as set /A does: decimal, 0x hexadecimal, 0 octal.
// Magnitudes above 2147483647 are unmodelled (cmd's reaction depends on the build).
func (a *arith) parseNumber(tok string, literal bool) (int32, bool) {
	neg := false
	if !literal && len(tok) > 1 && tok[0] == '-' {
		neg = true
		tok = tok[1:]
	}
	if tok == "" {
		return 0, false
	}
	base := 10
	digits := tok
	switch {
	case len(tok) > 2 && tok[0] == '0' && (tok[1] == 'x' || tok[1] == 'X'):
		base, digits = 16, tok[2:]
	case len(tok) > 1 && tok[0] == '0':
		base, digits = 8, tok[1:]
	}
	n, err := strconv.ParseUint(digits, base, 64)
	if err != nil {
		if ne, ok := err.(*strconv.NumError); ok && ne.Err == strconv.ErrRange {
			a.in.unmodelled("rule 4: set /A constant %s exceeds 32 bits", tok)
		}
		return 0, false
	}
	if n > 2147483647 {
		a.in.unmodelled("rule 4: set /A constant %s exceeds 2147483647", tok)
	}
	if neg {
		return int32(-int64(n)), true
	}
	return int32(n), true
}

// Command gen builds the calibration inputs for cmdmodel and reports on a run.
//
//	gen build  -repo /repo -model <dir with cmdmodel/*.go> -out <scratch dir>
//	    parses <repo>/tests/*.go with go/parser at run time and writes
//	      <out>/zz_calib_test.go  one TestCalib_<X> per Test<X> of the *_windows_test.go wrappers, with
//	                              transpileBatch/transpileBatchFunc re-bound to the cmdmodel-backed hooks
//	      <out>/overlay.json      go build -overlay file: injects the test file into package tests and the
//	                              model sources as virtual package <module>/internal_verif/cmdmodel
//	      <out>/manifest.tsv      calib test name, windows test name, shared bodies it reaches
//	    and prints the inventory of shared test bodies (which have a Windows wrapper, which do not).
//	gen report -manifest <out>/manifest.tsv < "test binary -test.v output"
//	    prints one line per calibration test: PASS / FAIL (expected vs got) / UNMODELLED (reason),
//	    a summary, and exits 0 iff there is no FAIL (and every manifest entry was seen).
//
// Nothing is written outside -out.
package main

import (
	"bufio"
	"bytes"
	"encoding/json"
	"flag"
	"fmt"
	"go/ast"
	"go/parser"
	"go/printer"
	"go/token"
	"os"
	"path/filepath"
	"regexp"
	"sort"
	"strings"
)

func main() {
	if len(os.Args) < 2 {
		fmt.Fprintln(os.Stderr, "usage: gen build|report ...")
		os.Exit(2)
	}
	switch os.Args[1] {
	case "build":
		build(os.Args[2:])
	case "report":
		report(os.Args[2:])
	default:
		fmt.Fprintln(os.Stderr, "usage: gen build|report ...")
		os.Exit(2)
	}
}

func die(format string, a ...any) {
	fmt.Fprintf(os.Stderr, "calib/gen: "+format+"\n", a...)
	os.Exit(2)
}

// ---------------------------------------------------------------------------------------------
// build

const virtualPkg = "internal_verif/cmdmodel"

type wrapper struct {
	name   string // TestXxx
	file   string
	decl   *ast.FuncDecl
	bodies []string // shared bodies reached
}

func build(args []string) {
	fs := flag.NewFlagSet("build", flag.ExitOnError)
	repo := fs.String("repo", "/repo", "repository root")
	model := fs.String("model", "", "directory holding the cmdmodel package sources")
	out := fs.String("out", "", "output directory (scratch)")
	fs.Parse(args)
	if *model == "" || *out == "" {
		die("build: -model and -out are required")
	}
	testsDir := filepath.Join(*repo, "tests")
	modPath := modulePath(filepath.Join(*repo, "go.mod"))

	fset := token.NewFileSet()
	names, err := filepath.Glob(filepath.Join(testsDir, "*.go"))
	if err != nil || len(names) == 0 {
		die("no go files in %s", testsDir)
	}
	sort.Strings(names)
	files := map[string]*ast.File{}
	for _, n := range names {
		f, err := parser.ParseFile(fset, n, nil, parser.SkipObjectResolution)
		if err != nil {
			die("parse %s: %v", n, err)
		}
		files[n] = f
	}

	// Every function of the package, by name (for reachability).
	funcs := map[string]*ast.FuncDecl{}
	funcFile := map[string]string{}
	for _, n := range names {
		base := filepath.Base(n)
		if isOtherOS(base) {
			continue
		}
		for _, d := range files[n].Decls {
			if fd, ok := d.(*ast.FuncDecl); ok && fd.Recv == nil {
				funcs[fd.Name.Name] = fd
				funcFile[fd.Name.Name] = base
			}
		}
	}

	// Shared test bodies: test<Upper>…(t *testing.T, … transpilerFunc|transpilerCalloutFunc …).
	shared := map[string]string{} // name -> kind
	for name, fd := range funcs {
		if !strings.HasPrefix(name, "test") || len(name) < 5 || !(name[4] >= 'A' && name[4] <= 'Z') {
			continue
		}
		if strings.HasSuffix(funcFile[name], "_windows_test.go") {
			continue
		}
		kind := ""
		for _, p := range fd.Type.Params.List {
			if id, ok := p.Type.(*ast.Ident); ok && (id.Name == "transpilerFunc" || id.Name == "transpilerCalloutFunc") {
				kind = id.Name
			}
		}
		if kind != "" {
			shared[name] = kind
		}
	}

	// Windows wrappers.
	var wrappers []*wrapper
	usedImports := map[string]bool{}
	importByName := map[string]string{} // local name -> import spec text
	for _, n := range names {
		base := filepath.Base(n)
		if !strings.HasSuffix(base, "_windows_test.go") {
			continue
		}
		f := files[n]
		for _, im := range f.Imports {
			p := strings.Trim(im.Path.Value, `"`)
			local := p[strings.LastIndex(p, "/")+1:]
			spec := im.Path.Value
			if im.Name != nil {
				local = im.Name.Name
				spec = im.Name.Name + " " + im.Path.Value
			}
			importByName[local] = spec
		}
		for _, d := range f.Decls {
			fd, ok := d.(*ast.FuncDecl)
			if !ok || fd.Recv != nil || !strings.HasPrefix(fd.Name.Name, "Test") {
				continue
			}
			w := &wrapper{name: fd.Name.Name, file: base, decl: fd}
			seen := map[string]bool{}
			var visit func(fd *ast.FuncDecl)
			visit = func(fd *ast.FuncDecl) {
				ast.Inspect(fd.Body, func(nd ast.Node) bool {
					ce, ok := nd.(*ast.CallExpr)
					if !ok {
						return true
					}
					id, ok := ce.Fun.(*ast.Ident)
					if !ok || seen[id.Name] {
						return true
					}
					if callee, ok := funcs[id.Name]; ok {
						seen[id.Name] = true
						if _, isShared := shared[id.Name]; isShared {
							w.bodies = append(w.bodies, id.Name)
						}
						visit(callee)
					}
					return true
				})
			}
			visit(fd)
			sort.Strings(w.bodies)
			wrappers = append(wrappers, w)
		}
	}
	if len(wrappers) == 0 {
		die("no Test functions found in %s/*_windows_test.go", testsDir)
	}

	// Generated file.
	var body bytes.Buffer
	var manifest bytes.Buffer
	for _, w := range wrappers {
		calibName := "TestCalib_" + strings.TrimPrefix(w.name, "Test")
		ast.Inspect(w.decl, func(nd ast.Node) bool {
			switch x := nd.(type) {
			case *ast.Ident:
				switch x.Name {
				case "transpileBatch":
					x.Name = "calibBatch"
				case "transpileBatchFunc":
					x.Name = "calibBatchFunc"
				}
			case *ast.SelectorExpr:
				if id, ok := x.X.(*ast.Ident); ok {
					if _, isImp := importByName[id.Name]; isImp {
						usedImports[id.Name] = true
					}
				}
			}
			return true
		})
		w.decl.Name.Name = calibName
		w.decl.Doc = nil
		var one bytes.Buffer
		if err := printer.Fprint(&one, fset, w.decl); err != nil {
			die("print %s: %v", w.name, err)
		}
		fmt.Fprintf(&body, "// from %s\n%s\n\n", w.file, one.String())
		fmt.Fprintf(&manifest, "%s\t%s\t%s\t%s\n", calibName, w.name, w.file, strings.Join(w.bodies, ","))
	}

	hookImports := map[string]string{
		"fmt": `"fmt"`, "os": `"os"`, "filepath": `"path/filepath"`, "strings": `"strings"`, "testing": `"testing"`,
		"batch":      fmt.Sprintf("%q", modPath+"/converters/batch"),
		"transpiler": fmt.Sprintf("%q", modPath+"/transpiler"),
		"cmdmodel":   fmt.Sprintf("%q", modPath+"/"+virtualPkg),
		"require":    `"github.com/stretchr/testify/require"`,
	}
	for local := range usedImports {
		if _, ok := hookImports[local]; !ok {
			hookImports[local] = importByName[local]
		}
	}
	var imps []string
	for _, spec := range hookImports {
		imps = append(imps, spec)
	}
	sort.Strings(imps)

	var src bytes.Buffer
	src.WriteString("// Code generated by verif/cmdmodel/calib/gen; DO NOT EDIT.\n// Injected into package tests by `go test -overlay`; never written into the repository.\n\npackage tests\n\nimport (\n")
	for _, s := range imps {
		src.WriteString("\t" + s + "\n")
	}
	src.WriteString(")\n\n")
	src.WriteString(hookSource)
	src.WriteString("\n")
	src.Write(body.Bytes())

	if err := os.MkdirAll(*out, 0o755); err != nil {
		die("%v", err)
	}
	genFile := filepath.Join(*out, "zz_calib_test.go")
	mustWrite(genFile, src.Bytes())
	mustWrite(filepath.Join(*out, "manifest.tsv"), manifest.Bytes())

	// Overlay.
	replace := map[string]string{
		filepath.Join(testsDir, "zz_calib_test.go"): genFile,
	}
	modelFiles, _ := filepath.Glob(filepath.Join(*model, "*.go"))
	n := 0
	for _, mf := range modelFiles {
		if strings.HasSuffix(mf, "_test.go") {
			continue
		}
		abs, _ := filepath.Abs(mf)
		replace[filepath.Join(*repo, filepath.FromSlash(virtualPkg), filepath.Base(mf))] = abs
		n++
	}
	if n == 0 {
		die("no model sources in %s", *model)
	}
	oj, _ := json.MarshalIndent(map[string]any{"Replace": replace}, "", "  ")
	mustWrite(filepath.Join(*out, "overlay.json"), oj)

	// Inventory.
	covered := map[string]bool{}
	for _, w := range wrappers {
		for _, b := range w.bodies {
			covered[b] = true
		}
	}
	var sharedNames, uncovered []string
	for name := range shared {
		sharedNames = append(sharedNames, name)
		if !covered[name] {
			uncovered = append(uncovered, name)
		}
	}
	sort.Strings(sharedNames)
	sort.Strings(uncovered)
	inline := 0
	for _, w := range wrappers {
		if len(w.bodies) == 0 {
			inline++
		}
	}
	fmt.Printf("calib: %d shared test bodies found in %s (%d reached from Windows wrappers)\n", len(sharedNames), testsDir, len(sharedNames)-len(uncovered))
	fmt.Printf("calib: %d Windows tests bound to the model (%d of them with an inline body instead of a shared one)\n", len(wrappers), inline)
	if len(uncovered) > 0 {
		fmt.Printf("calib: SKIPPED (no Windows wrapper, hence no cmd.exe ground truth): %s\n", strings.Join(uncovered, " "))
	} else {
		fmt.Printf("calib: SKIPPED (no Windows wrapper): none\n")
	}
}

func isOtherOS(base string) bool {
	for _, os := range []string{"linux", "darwin", "freebsd", "netbsd", "openbsd"} {
		if strings.HasSuffix(base, "_"+os+"_test.go") || strings.HasSuffix(base, "_"+os+".go") {
			return true
		}
	}
	return false
}

func modulePath(gomod string) string {
	b, err := os.ReadFile(gomod)
	if err != nil {
		die("%v", err)
	}
	for _, l := range strings.Split(string(b), "\n") {
		l = strings.TrimSpace(l)
		if strings.HasPrefix(l, "module ") {
			return strings.TrimSpace(strings.TrimPrefix(l, "module "))
		}
	}
	die("no module line in %s", gomod)
	return ""
}

func mustWrite(path string, b []byte) {
	if err := os.WriteFile(path, b, 0o644); err != nil {
		die("%v", err)
	}
}

// hookSource is the hand-written part of the injected test file: the same steps as
// tests/helpers.go:transpileFunc with exec.Command replaced by cmdmodel.Run.
const hookSource = `
type calibExitError struct{ code int }

func (e *calibExitError) Error() string { return fmt.Sprintf("exit status %d", e.code) }

// calibFiles is the virtual file system handed to the model: the regular files of the
// current directory (relative names, as a script started there would see them) and the
// files below dir (absolute names).
func calibFiles(dir string) map[string]string {
	files := map[string]string{}
	if ents, err := os.ReadDir("."); err == nil {
		for _, e := range ents {
			if e.Type().IsRegular() {
				if b, err := os.ReadFile(e.Name()); err == nil {
					files[e.Name()] = string(b)
				}
			}
		}
	}
	filepath.Walk(dir, func(p string, info os.FileInfo, err error) error {
		if err == nil && info.Mode().IsRegular() {
			if b, err := os.ReadFile(p); err == nil {
				files[p] = string(b)
			}
		}
		return nil
	})
	return files
}

func calibBatchFunc(t *testing.T, source sourceCallout, compare compareCallout) {
	exe, err := os.Executable()
	require.Nil(t, err)
	exePath := filepath.Dir(exe)
	err = copyStd(exePath)
	require.Nil(t, err)
	dir := filepath.Join(exePath, t.Name())
	err = os.MkdirAll(dir, 0700)
	require.Nil(t, err)
	defer os.RemoveAll(dir)

	trans := transpiler.New()
	file := filepath.Join(dir, "test.tsh")
	outputString := ""
	src, err := source(dir)

	if err == nil {
		var code string
		err = os.WriteFile(file, []byte(src), 0700)
		require.Nil(t, err)
		code, err = trans.Transpile(file, batch.New())
		output := ""

		if err == nil {
			targetFile := filepath.Join(dir, "test.bat")
			err = os.WriteFile(targetFile, []byte(code), 0700)
			require.Nil(t, err)
			if d := os.Getenv("CALIB_DUMP"); d != "" {
				os.MkdirAll(d, 0755)
				os.WriteFile(filepath.Join(d, t.Name()+".tsh"), []byte(src), 0644)
				os.WriteFile(filepath.Join(d, t.Name()+".bat"), []byte(code), 0644)
			}
			res := cmdmodel.Run(code, cmdmodel.Options{Files: calibFiles(dir)})
			if d := os.Getenv("CALIB_DUMP"); d != "" {
				os.WriteFile(filepath.Join(d, t.Name()+".out"), []byte(fmt.Sprintf("exit=%d steps=%d unmodelled=%q error=%q\n%s", res.Exit, res.Steps, res.Unmodelled, res.Error, res.Stdout)), 0644)
			}
			if res.Unmodelled != "" {
				t.Skipf("UNMODELLED: %s", res.Unmodelled)
			}
			t.Logf("CALIB-GOT stdout=%q exit=%d steps=%d", res.Stdout, res.Exit, res.Steps)
			if res.Error != "" {
				t.Fatalf("CALIB-SCRIPT-ERROR: the model says cmd.exe would report: %s", res.Error)
			}
			output = res.Stdout
			if res.Exit != 0 {
				err = &calibExitError{res.Exit}
			}
		}
		outputString = output
		outputString = strings.ReplaceAll(outputString, "\r\n", "\n")
		outputString = strings.TrimSpace(outputString)
	}
	compare(outputString, err)
}

func calibBatch(t *testing.T, source string, compare compareCallout) {
	calibBatchFunc(t, func(_ string) (string, error) {
		return source, nil
	}, compare)
}
`

// ---------------------------------------------------------------------------------------------
// report

func report(args []string) {
	fs := flag.NewFlagSet("report", flag.ExitOnError)
	manifest := fs.String("manifest", "", "manifest.tsv written by build")
	fs.Parse(args)
	mb, err := os.ReadFile(*manifest)
	if err != nil {
		die("%v", err)
	}
	type entry struct{ calib, win, file, bodies string }
	var entries []entry
	for _, l := range strings.Split(strings.TrimSpace(string(mb)), "\n") {
		p := strings.Split(l, "\t")
		if len(p) == 4 {
			entries = append(entries, entry{p[0], p[1], p[2], p[3]})
		}
	}

	runRe := regexp.MustCompile(`^=== RUN\s+(\S+)`)
	endRe := regexp.MustCompile(`^\s*--- (PASS|FAIL|SKIP): (\S+)`)
	status := map[string]string{}
	logs := map[string][]string{}
	cur := ""
	sc := bufio.NewScanner(os.Stdin)
	sc.Buffer(make([]byte, 1<<20), 1<<26)
	var tail []string
	for sc.Scan() {
		line := sc.Text()
		if m := runRe.FindStringSubmatch(line); m != nil {
			cur = m[1]
			continue
		}
		if m := endRe.FindStringSubmatch(line); m != nil {
			status[m[2]] = m[1]
			cur = m[2]
			continue
		}
		if cur != "" {
			logs[cur] = append(logs[cur], line)
		}
		tail = append(tail, line)
		if len(tail) > 30 {
			tail = tail[1:]
		}
	}

	reasons := map[string]int{}
	var nPass, nFail, nUnm, nMissing, nRan int
	for _, e := range entries {
		label := e.win
		if e.bodies != "" {
			label += " [" + e.bodies + "]"
		} else {
			label += " [inline body in " + e.file + "]"
		}
		st, ok := status[e.calib]
		joined := strings.Join(logs[e.calib], "\n")
		switch {
		case !ok:
			nMissing++
			fmt.Printf("FAIL        %s :: test did not run or did not finish (crash?)\n", label)
		case st == "PASS":
			nPass++
			if strings.Contains(joined, "CALIB-GOT ") {
				nRan++
				fmt.Printf("PASS        %s\n", label)
			} else {
				fmt.Printf("PASS        %s (expectation is a transpile-time error: no script was run)\n", label)
			}
		case st == "SKIP":
			reason := "skipped for an unknown reason"
			if i := strings.Index(joined, "UNMODELLED: "); i >= 0 {
				reason = strings.TrimSpace(firstLine(joined[i+len("UNMODELLED: "):]))
			}
			nUnm++
			reasons[reason]++
			fmt.Printf("UNMODELLED  %s :: %s\n", label, reason)
		default:
			nFail++
			fmt.Printf("FAIL        %s :: %s\n", label, failSummary(logs[e.calib]))
		}
	}
	fmt.Printf("calib summary: %d tests, %d PASS (%d of them executed a script under the model), %d FAIL, %d UNMODELLED\n", len(entries), nPass, nRan, nFail+nMissing, nUnm)
	if len(reasons) > 0 {
		var rs []string
		for r := range reasons {
			rs = append(rs, r)
		}
		sort.Strings(rs)
		for _, r := range rs {
			fmt.Printf("calib unmodelled reason: %dx %s\n", reasons[r], r)
		}
	}
	if nMissing > 0 {
		fmt.Println("calib: last lines of the test binary's output:")
		for _, l := range tail {
			fmt.Println("    " + l)
		}
	}
	if nFail+nMissing > 0 {
		os.Exit(1)
	}
}

func firstLine(s string) string {
	if i := strings.IndexByte(s, '\n'); i >= 0 {
		return s[:i]
	}
	return s
}

// failSummary condenses testify's failure text to "<error line>; expected …; actual …; model output …".
func failSummary(lines []string) string {
	var parts []string
	got := ""
	for i := 0; i < len(lines); i++ {
		l := strings.TrimSpace(lines[i])
		switch {
		case strings.Contains(l, "CALIB-GOT "):
			got = l[strings.Index(l, "CALIB-GOT ")+len("CALIB-GOT "):]
		case strings.Contains(l, "CALIB-SCRIPT-ERROR: "):
			parts = append(parts, l[strings.Index(l, "CALIB-SCRIPT-ERROR: "):])
		case strings.HasPrefix(l, "Error:"):
			msg := strings.TrimSpace(strings.TrimPrefix(l, "Error:"))
			for i+1 < len(lines) {
				n := strings.TrimSpace(lines[i+1])
				if n == "" || strings.HasPrefix(n, "Test:") || strings.HasPrefix(n, "Error Trace:") || strings.HasPrefix(n, "Messages:") {
					break
				}
				if strings.HasPrefix(n, "---") || strings.HasPrefix(n, "+++") || strings.HasPrefix(n, "@@") || strings.HasPrefix(n, "Diff:") {
					break
				}
				msg += " " + n
				i++
			}
			parts = append(parts, msg)
		case strings.HasPrefix(l, "panic:"):
			parts = append(parts, l)
		}
	}
	if got != "" {
		parts = append(parts, "model: "+got)
	}
	if len(parts) == 0 {
		return "failed (no detail captured)"
	}
	return strings.Join(parts, " | ")
}

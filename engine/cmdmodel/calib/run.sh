#!/bin/bash
# Calibration of verif/cmdmodel against the repository's own Windows expectations.
#
# The Windows half of /repo/tests (the *_windows_test.go wrappers and the shared bodies they call)
# is bound - through `go test -overlay`, without touching /repo - to a transpiler function that
# produces the Batch script with batch.New() and executes it under cmdmodel.Run instead of cmd.exe.
# The injected test file is generated on every run from /repo/tests/*.go with go/parser.
#
# Output: one line per Windows test  PASS | FAIL (expected vs got) | UNMODELLED (reason), a summary.
# Exit status: 0 iff no FAIL; 2 on a harness error (does not build, ...).
#
# env: REPO (default /repo)   CALIB_DUMP=<dir> keep every .tsh/.bat/model output there
#      CALIB_KEEP=1 keep the scratch directory   CALIB_RUN=<regexp> restrict the tests run
#      CALIB_RAW=<file> copy of the test binary's raw output   CALIB_MODEL=<dir> other model sources
set -u
HERE="$(cd "$(dirname "${BASH_SOURCE[0]}")" && pwd)"
OWN="$(dirname "$HERE")"
MODEL="${CALIB_MODEL:-$OWN}"   # CALIB_MODEL: calibrate another copy of the model sources (mutant demos)
ENGINE="$(dirname "$OWN")"
VROOT="$(dirname "$ENGINE")"
export GOFLAGS=-mod=mod GOPROXY=off GOSUMDB=off GOTOOLCHAIN=local CGO_ENABLED=0
export GOCACHE="${GOCACHE:-$VROOT/.cache/go-build}"
REPO="${REPO:-/repo}"

base=/dev/shm; [ -d "$base" ] && [ -w "$base" ] || base="${TMPDIR:-/tmp}"
S="$(mktemp -d "$base/cmdcalib-XXXXXX")" || exit 2
if [ "${CALIB_KEEP:-}" = 1 ]; then echo "calib: scratch kept at $S"; else trap 'rm -rf "$S"' EXIT; fi
mkdir -p "$S/gen" "$S/bin" "$S/work/tests" "$S/work/std"

(cd "$ENGINE" && go build -o "$S/gen/gen" ./cmdmodel/calib/gen) || { echo "calib: generator does not build" >&2; exit 2; }
"$S/gen/gen" build -repo "$REPO" -model "$MODEL" -out "$S/gen" || exit 2
(cd "$REPO" && go test -c -vet=off -overlay "$S/gen/overlay.json" -o "$S/bin/tests.test" ./tests) \
  || { echo "calib: package tests + injected file does not build" >&2; exit 2; }

# The test binary runs from a scratch copy of the layout it expects (cwd = <x>/tests, std in ../std),
# so the files some bodies create in their working directory never land in the repository.
cp "$REPO"/std/*.tsh "$S/work/std/"
(cd "$S/work/tests" && "$S/bin/tests.test" -test.run "${CALIB_RUN:-^TestCalib_}" -test.v -test.count=1 -test.timeout=30m >"$S/out.txt" 2>&1)
[ -n "${CALIB_RAW:-}" ] && cp "$S/out.txt" "$CALIB_RAW"
"$S/gen/gen" report -manifest "$S/gen/manifest.tsv" <"$S/out.txt"

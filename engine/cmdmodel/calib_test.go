package cmdmodel

import (
	"os"
	"os/exec"
	"path/filepath"
	"strings"
	"testing"
)

// TestCalibration runs calib/run.sh: the Windows half of the repository's own test suite, executed
// under this model, must reproduce the suite's expectations (the only ground truth available).
// Skipped with -short or when the repository is not present.
func TestCalibration(t *testing.T) {
	if testing.Short() {
		t.Skip("-short")
	}
	repo := os.Getenv("REPO")
	if repo == "" {
		repo = "/repo"
	}
	if _, err := os.Stat(filepath.Join(repo, "tests", "helpers.go")); err != nil {
		t.Skipf("repository not found at %s", repo)
	}
	out, err := exec.Command("bash", filepath.Join("calib", "run.sh")).CombinedOutput()
	text := string(out)
	for _, l := range strings.Split(text, "\n") {
		if !strings.HasPrefix(l, "PASS ") && l != "" {
			t.Log(l)
		}
	}
	if err != nil {
		t.Fatalf("calibration failed: %v", err)
	}
	if !strings.Contains(text, " 0 FAIL") {
		t.Fatalf("no summary line in the calibration output")
	}
}

// Command cmdmodel-dev transpiles a TypeShell file to Batch with the repository's converter and
// runs the script under cmdmodel (development aid; build to /verif/bin so that bin/std is found).
//
//	cmdmodel-dev [-s] [-bat] file      -s: print the script   -bat: file already is a Batch script
package main

import (
	"flag"
	"fmt"
	"os"

	"github.com/monstermichl/typeshell/converters/batch"
	"github.com/monstermichl/typeshell/transpiler"

	"verif/cmdmodel"
)

func main() {
	show := flag.Bool("s", false, "print the Batch script")
	isBat := flag.Bool("bat", false, "input is a Batch script")
	steps := flag.Int("steps", 0, "step budget")
	flag.Parse()
	if flag.NArg() != 1 {
		fmt.Fprintln(os.Stderr, "usage: cmdmodel-dev [-s] [-bat] file")
		os.Exit(2)
	}
	var script string
	if *isBat {
		b, err := os.ReadFile(flag.Arg(0))
		if err != nil {
			fmt.Fprintln(os.Stderr, err)
			os.Exit(2)
		}
		script = string(b)
	} else {
		t := transpiler.New()
		s, err := t.Transpile(flag.Arg(0), batch.New())
		if err != nil {
			fmt.Fprintln(os.Stderr, "transpile:", err)
			os.Exit(3)
		}
		script = s
	}
	if *show {
		fmt.Print(script)
		fmt.Println("----")
	}
	files := map[string]string{}
	r := cmdmodel.Run(script, cmdmodel.Options{MaxSteps: *steps, Files: files})
	fmt.Printf("%s", r.Stdout)
	fmt.Printf("---- exit=%d steps=%d unmodelled=%q error=%q files=%q\n", r.Exit, r.Steps, r.Unmodelled, r.Error, files)
}

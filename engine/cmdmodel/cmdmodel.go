// Package cmdmodel is an executable model of Windows cmd.exe for exactly the subset of
// Batch that /repo/converters/batch/converter.go can emit.
//
// The model follows cmd.exe's documented processing order (see DESIGN.md Appendix A):
//
//	phase 0/1  a logical line is read from the current file offset, physical line by physical
//	           line; every physical line is %-expanded when it is read (%% -> %, %1..%9, %~1,
//	           %name%, %name:~a,n%), all CR are dropped; a parenthesised block is read, expanded
//	           and parsed completely before any of it runs
//	phase 2    special characters: quotes, ^ escapes (and ^ line continuation), & | < > ( ),
//	           recognition of IF / FOR / REM / labels
//	phase 4    FOR variables (%i) are substituted when the body command runs
//	phase 5    delayed expansion (!name!, !name:~a,n!, ^! escapes) per command token when the
//	           command runs
//	phase 6    CALL re-runs the % phase on its (already expanded) arguments
//
// External programs are not part of the model. A caller may install a hook that models them (Options.External,
// rule 12 in external.go): then `call PROGRAM args`, pipes between programs and the capture helper's
// `for /f ... in ('cmd /V:ON /C "..."')` are interpreted for cmd-neutral command lines; without the hook all of
// that is unmodelled.
//
// Everything the model is not sure about makes the run "unmodelled" (Result.Unmodelled names the
// rule); it never guesses. Things cmd.exe itself would complain about (missing label, division by
// zero, unbalanced parenthesis, for /f over a missing file) are reported in Result.Error: they are
// properties of the script. The model stops at the first such event (cmd.exe would go on after some
// of them); Result.Stdout then holds the output up to that point.
//
// Trust base. calib/run.sh executes the Windows half of the repository's own test suite under this
// model (161 of 165 expectations reproduced, 4 unmodelled: external programs). Deliberately wrong
// variants of the model showed which rules those expectations pin down: label search starting
// after the current block, !name:~a,n! arithmetic, ^! handling, commands after a label inside a
// block, unary + in set /A, re-reading of a line after goto. Rules the corpus cannot distinguish
// rest on cmd.exe's documentation alone: string comparison of quoted numbers ("9" > "10"),
// splitting of a for /f string at line feeds, exit /B without a number keeping ERRORLEVEL,
// %-expansion of a whole block when it is read, endlocal inside a called frame (decided only when
// both readings agree, see Run).
package cmdmodel

import (
	"fmt"
	"sort"
	"strings"
)

// Options configure one run.
type Options struct {
	Stdin    string            // not consumed by any modelled command (set /p is unmodelled)
	MaxSteps int               // default 2e6
	Files    map[string]string // virtual file system: path -> content, mutated by the run
	// External, if set, models external programs (rule 12, external.go): call PROGRAM, pipes between
	// programs and the capture helper's  for /f ... in ('cmd /V:ON /C "..."')  are then interpreted for
	// cmd-neutral command lines instead of being unmodelled. Nil: the model behaves exactly as without it.
	External External
}

// Result is the observation of one run.
type Result struct {
	Stdout     string // with "\r\n" line ends exactly as cmd would print (echo prints text+CRLF)
	Exit       int    // exit status of the script (exit /B n in outermost frame / end of file)
	Unmodelled string // non-empty: the run touched something the model refuses to guess; Stdout/Exit then meaningless
	Error      string // non-empty: the script did something cmd.exe would report as an error; Stdout holds the output up to that point
	Steps      int
	// StrayParens counts executed lines that start with ')' outside any block (rule 6: they act like REM);
	// the converter's structure never lets execution reach one, so a non-zero count is worth reporting
	StrayParens int
	// Externals counts the programs started through Options.External
	Externals int
}

const defaultMaxSteps = 2_000_000

// maxCallDepth bounds call nesting: cmd.exe has its own (much larger, build-dependent) limit;
// deeper scripts are unmodelled rather than guessed.
const maxCallDepth = 400

type abortKind int

const (
	abortUnmodelled abortKind = iota
	abortError
)

type abort struct {
	kind abortKind
	msg  string
}

type envVar struct {
	name  string // spelling of the first definition
	value string
}

type localFrame struct {
	env     map[string]envVar
	delayed bool
	depth   int // call depth that issued the setlocal
}

type callFrame struct {
	label string   // %0
	args  []string // %1...
}

type interp struct {
	src       string
	pos       int
	env       map[string]envVar
	out       strings.Builder
	steps     int
	maxSteps  int
	errlevel  int
	files     map[string]string
	echoOn    bool
	delayed   bool
	locals    []localFrame
	frames    []callFrame
	forVars   map[byte]string
	forOrder  []byte
	labels    []labelPos // every label line of the file, in file order
	labelsOK  bool
	endlocalB bool // alternative reading of rule 8: endlocal in a called frame pops the caller's setlocal
	ambiguous bool // an endlocal ran in a called frame that had no setlocal of its own

	strayParens int // executed ')' lines outside any block

	external  External // rule 12 hook (nil: external programs are unmodelled)
	externals int
	stdin     string
}

// Run interprets script under the model.
func Run(script string, o Options) Result {
	if o.Files == nil {
		o.Files = map[string]string{}
	}
	before := copyFiles(o.Files)
	r := runOnce(script, o, false)
	if r.Unmodelled != "" || !r.ambiguous {
		return r.Result
	}
	// Rule 8: endlocal inside a called frame. Documented reading: it cannot end the caller's
	// setlocal. If the opposite reading changes the observation, refuse to decide.
	o2 := o
	o2.Files = before
	r2 := runOnce(script, o2, true)
	if r2.Unmodelled != "" || r2.Stdout != r.Stdout || r2.Exit != r.Exit || r2.Error != r.Error || !sameFiles(o2.Files, o.Files) {
		res := r.Result
		res.Unmodelled = "rule 8: endlocal executed inside a called frame and the result depends on whether it ends the caller's setlocal"
		return res
	}
	return r.Result
}

type runResult struct {
	Result
	ambiguous bool
}

func copyFiles(m map[string]string) map[string]string {
	c := make(map[string]string, len(m))
	for k, v := range m {
		c[k] = v
	}
	return c
}

func sameFiles(a, b map[string]string) bool {
	if len(a) != len(b) {
		return false
	}
	for k, v := range a {
		if w, ok := b[k]; !ok || w != v {
			return false
		}
	}
	return true
}

func runOnce(script string, o Options, endlocalB bool) (rr runResult) {
	in := &interp{
		src:       script,
		env:       map[string]envVar{},
		maxSteps:  o.MaxSteps,
		files:     o.Files,
		echoOn:    true,
		forVars:   map[byte]string{},
		endlocalB: endlocalB,
		external:  o.External,
		stdin:     o.Stdin,
	}
	if in.maxSteps <= 0 {
		in.maxSteps = defaultMaxSteps
	}
	if in.files == nil {
		in.files = map[string]string{}
	}
	// The only environment variable whose value is the same on every Windows NT system.
	in.setVar("OS", "Windows_NT")
	in.frames = []callFrame{{label: ""}}
	defer func() {
		rr.Stdout = in.out.String()
		rr.Steps = in.steps
		rr.StrayParens = in.strayParens
		rr.Externals = in.externals
		rr.ambiguous = in.ambiguous
		if x := recover(); x != nil {
			a, ok := x.(abort)
			if !ok {
				panic(x)
			}
			switch a.kind {
			case abortUnmodelled:
				rr.Unmodelled = a.msg
			case abortError:
				rr.Error = a.msg
				rr.Exit = 1
			}
		}
	}()
	in.runFrame()
	rr.Exit = in.errlevel
	return rr
}

func (in *interp) unmodelled(format string, a ...any) {
	panic(abort{abortUnmodelled, fmt.Sprintf(format, a...)})
}

func (in *interp) scriptError(format string, a ...any) {
	panic(abort{abortError, fmt.Sprintf(format, a...)})
}

func (in *interp) step() {
	in.steps++
	if in.steps > in.maxSteps {
		panic(abort{abortUnmodelled, "step budget"})
	}
}

// ---------------------------------------------------------------------------------------------
// environment

// Variables cmd.exe computes on the fly or that differ from machine to machine: reading them
// is unmodelled (ERRORLEVEL is modelled).
var volatileVars = map[string]bool{
	"CD": true, "DATE": true, "TIME": true, "RANDOM": true, "CMDEXTVERSION": true, "CMDCMDLINE": true,
	"HIGHESTNUMANODENUMBER": true, "PATH": true, "PATHEXT": true, "COMSPEC": true, "TEMP": true, "TMP": true,
	"USERNAME": true, "USERPROFILE": true, "USERDOMAIN": true, "COMPUTERNAME": true, "HOMEDRIVE": true,
	"HOMEPATH": true, "SYSTEMROOT": true, "SYSTEMDRIVE": true, "WINDIR": true, "PROMPT": true,
	"PROCESSOR_ARCHITECTURE": true, "NUMBER_OF_PROCESSORS": true, "PROGRAMFILES": true, "PROGRAMDATA": true,
	"APPDATA": true, "LOCALAPPDATA": true, "ALLUSERSPROFILE": true, "PUBLIC": true, "LOGONSERVER": true,
	"PROCESSOR_IDENTIFIER": true, "PROCESSOR_LEVEL": true, "PROCESSOR_REVISION": true, "SESSIONNAME": true,
	"COMMONPROGRAMFILES": true, "PROGRAMFILES(X86)": true, "PROGRAMW6432": true, "PSMODULEPATH": true,
	"DRIVERDATA": true, "__APPDIR__": true, "__CD__": true,
}

func (in *interp) getVar(name string) (string, bool) {
	key := strings.ToUpper(name)
	if v, ok := in.env[key]; ok {
		return v.value, true
	}
	if key == "ERRORLEVEL" {
		return fmt.Sprint(in.errlevel), true
	}
	if volatileVars[key] {
		in.unmodelled("rule 2: read of machine-dependent or dynamic variable %s", key)
	}
	return "", false
}

func (in *interp) setVar(name, value string) {
	key := strings.ToUpper(name)
	if value == "" {
		delete(in.env, key)
		return
	}
	if old, ok := in.env[key]; ok {
		in.env[key] = envVar{old.name, value}
		return
	}
	in.env[key] = envVar{name, value}
}

func (in *interp) copyEnv() map[string]envVar {
	c := make(map[string]envVar, len(in.env))
	for k, v := range in.env {
		c[k] = v
	}
	return c
}

// ---------------------------------------------------------------------------------------------
// frames, labels

type ctlKind int

const (
	ctlNone ctlKind = iota
	ctlGoto
	ctlExit
)

type ctl struct {
	kind  ctlKind
	label string
}

// runFrame executes logical lines from in.pos until the frame ends (exit /B, goto :eof, end of file).
func (in *interp) runFrame() {
	for {
		n, ok := in.readLogical()
		if !ok {
			return
		}
		c := in.exec(n)
		switch c.kind {
		case ctlGoto:
			in.pos = in.findLabel(c.label, in.pos)
		case ctlExit:
			return
		}
	}
}

type labelPos struct {
	name  string // upper case
	after int    // offset of the line after the label line
	start int
}

func isLabelChar(c byte) bool {
	return c == '_' || c >= '0' && c <= '9' || c >= 'a' && c <= 'z' || c >= 'A' && c <= 'Z'
}

// indexLabels scans the raw file (no expansion, as GOTO does) for label lines.
func (in *interp) indexLabels() {
	in.labelsOK = true
	src := in.src
	for off := 0; off < len(src); {
		end := strings.IndexByte(src[off:], '\n')
		next := len(src)
		lineEnd := len(src)
		if end >= 0 {
			lineEnd = off + end
			next = lineEnd + 1
		}
		line := strings.TrimRight(src[off:lineEnd], "\r")
		t := strings.TrimLeft(line, " \t")
		if strings.HasPrefix(t, ":") && !strings.HasPrefix(t, "::") {
			body := t[1:]
			j := 0
			for j < len(body) && isLabelChar(body[j]) {
				j++
			}
			rest := body[j:]
			name := body[:j]
			if j == 0 || strings.Trim(rest, " \t") != "" {
				// a label spelling outside [A-Za-z0-9_]: cmd's delimiter rules for labels are not modelled
				name = "\x00" + body
			}
			in.labels = append(in.labels, labelPos{strings.ToUpper(name), next, off})
		}
		off = next
	}
}

// findLabel implements rule 6: search from offset `from` to the end of the file, then from the
// start up to `from`; first match wins.
func (in *interp) findLabel(label string, from int) int {
	if !in.labelsOK {
		in.indexLabels()
	}
	for i := 0; i < len(label); i++ {
		if !isLabelChar(label[i]) {
			in.unmodelled("rule 6: goto/call target %q uses characters outside [A-Za-z0-9_]", label)
		}
	}
	want := strings.ToUpper(label)
	var found *labelPos
	for pass := 0; pass < 2 && found == nil; pass++ {
		for i := range in.labels {
			l := &in.labels[i]
			if pass == 0 && l.start < from || pass == 1 && l.start >= from {
				continue
			}
			if strings.HasPrefix(l.name, "\x00") {
				// an exotic label line lies on the search path
				if strings.HasPrefix(strings.ToUpper(l.name[1:]), want) {
					in.unmodelled("rule 6: label line %q with characters outside [A-Za-z0-9_] could match %q", l.name[1:], label)
				}
				continue
			}
			if l.name == want {
				found = l
				break
			}
		}
	}
	if found == nil {
		in.scriptError("The system cannot find the batch label specified - %s", label)
	}
	return found.after
}

// ---------------------------------------------------------------------------------------------
// virtual file system

func normPath(p string) string {
	p = strings.ReplaceAll(p, "/", `\`)
	for strings.HasPrefix(p, `.\`) {
		p = p[2:]
	}
	for strings.Contains(p, `\\`) && !strings.HasPrefix(p, `\\`) {
		p = strings.ReplaceAll(p, `\\`, `\`)
	}
	if len(p) > 1 {
		p = strings.TrimRight(p, `\`)
	}
	return strings.ToLower(p)
}

func (in *interp) checkPath(p, what string) {
	if p == "" {
		in.unmodelled("%s: empty path", what)
	}
	for i := 0; i < len(p); i++ {
		c := p[i]
		ok := c >= 'a' && c <= 'z' || c >= 'A' && c <= 'Z' || c >= '0' && c <= '9' || strings.IndexByte(`._-\/:`, c) >= 0
		if !ok {
			in.unmodelled("%s: path %q contains characters outside [A-Za-z0-9._-\\/:]", what, p)
		}
	}
	if strings.Contains(p, "..") {
		in.unmodelled("%s: path %q contains ..", what, p)
	}
}

func (in *interp) fileKey(p string) (string, bool) {
	n := normPath(p)
	keys := make([]string, 0, len(in.files))
	for k := range in.files {
		keys = append(keys, k)
	}
	sort.Strings(keys)
	for _, k := range keys {
		if normPath(k) == n {
			return k, true
		}
	}
	return "", false
}

func (in *interp) dirExists(p string) bool {
	n := normPath(p)
	if n == "" {
		return false
	}
	prefix := n + `\`
	if strings.HasSuffix(n, `\`) {
		prefix = n
	}
	for k := range in.files {
		if strings.HasPrefix(normPath(k), prefix) {
			return true
		}
	}
	return false
}

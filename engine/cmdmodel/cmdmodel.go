// Package cmdmodel is an executable model of Windows cmd.exe for exactly the
// subset of Batch that /repo/converters/batch/converter.go can emit.
package cmdmodel

// Options configure one run.
type Options struct {
	Stdin    string
	MaxSteps int               // default 2e6
	Files    map[string]string // virtual file system: path -> content, mutated by the run
}

// Result is the observation of one run.
type Result struct {
	Stdout     string
	Exit       int
	Unmodelled string
	Error      string
	Steps      int
}

// Run interprets script.
func Run(script string, o Options) Result {
	return Result{Unmodelled: "not implemented"}
}

package cmdmodel

import (
	"strings"
	"testing"
)

// bat turns a readable snippet into a CRLF batch file starting with "@echo off" and delayed
// expansion enabled (as every emitted script does).
func bat(lines ...string) string {
	all := append([]string{"@echo off", "setlocal EnableDelayedExpansion"}, lines...)
	return strings.Join(all, "\r\n") + "\r\n"
}

func lf(s string) string { return strings.ReplaceAll(s, "\r\n", "\n") }

type want struct {
	out  string // expected stdout with \n line ends ("" = do not care when unm/err is set)
	exit int
	unm  string // substring of Unmodelled
	err  string // substring of Error
}

func check(t *testing.T, name, script string, o Options, w want) Result {
	t.Helper()
	r := Run(script, o)
	if w.unm != "" {
		if !strings.Contains(r.Unmodelled, w.unm) {
			t.Errorf("%s: Unmodelled = %q, want it to contain %q (stdout %q error %q)", name, r.Unmodelled, w.unm, r.Stdout, r.Error)
		}
		return r
	}
	if r.Unmodelled != "" {
		t.Errorf("%s: unexpectedly unmodelled: %s", name, r.Unmodelled)
		return r
	}
	if w.err != "" {
		if !strings.Contains(r.Error, w.err) {
			t.Errorf("%s: Error = %q, want it to contain %q", name, r.Error, w.err)
		}
		if w.out != "" && lf(r.Stdout) != w.out {
			t.Errorf("%s: stdout before the error = %q, want %q", name, lf(r.Stdout), w.out)
		}
		return r
	}
	if r.Error != "" {
		t.Errorf("%s: unexpected script error: %s", name, r.Error)
		return r
	}
	if lf(r.Stdout) != w.out {
		t.Errorf("%s: stdout = %q, want %q", name, lf(r.Stdout), w.out)
	}
	if r.Exit != w.exit {
		t.Errorf("%s: exit = %d, want %d", name, r.Exit, w.exit)
	}
	return r
}

func TestEchoAndLineEnds(t *testing.T) {
	r := Run("@echo off\r\necho hello\r\necho.\r\necho a  b \r\n", Options{})
	if r.Stdout != "hello\r\n\r\na  b \r\n" || r.Exit != 0 || r.Unmodelled != "" || r.Error != "" {
		t.Fatalf("%+v", r)
	}
	// LF-only files are read the same way
	r = Run("@echo off\necho x\n", Options{})
	if r.Stdout != "x\r\n" {
		t.Fatalf("%+v", r)
	}
	// no trailing newline at end of file
	r = Run("@echo off\r\necho last", Options{})
	if r.Stdout != "last\r\n" {
		t.Fatalf("%+v", r)
	}
}

func TestEchoState(t *testing.T) {
	check(t, "echo on is unmodelled", "echo hi\r\n", Options{}, want{unm: "ECHO is on"})
	check(t, "bare echo", bat("echo"), Options{}, want{unm: "ECHO state"})
	check(t, "blank echo", bat(`set "v= "`, "echo !v!"), Options{}, want{unm: "ECHO state"})
	check(t, "echo off text toggles", bat(`set "v=off"`, "echo !v!", "echo x"), Options{}, want{out: "x\n"})
	check(t, "echo on then command", bat(`set "v=ON"`, "echo !v!", "echo x"), Options{}, want{unm: "ECHO is on"})
}

func TestPercentPhase(t *testing.T) {
	check(t, "%% -> %", bat("echo 100%%"), Options{}, want{out: "100%\n"})
	check(t, "%name%", bat("set x=5", "echo %x%"), Options{}, want{out: "5\n"})
	check(t, "undefined %name% vanishes", bat("echo a%nope%b"), Options{}, want{out: "ab\n"})
	check(t, "lone % vanishes", bat("echo 50% off"), Options{}, want{out: "50 off\n"})
	check(t, "case-insensitive names", bat("set Abc=1", "echo %aBC% !ABC!"), Options{}, want{out: "1 1\n"})
	check(t, "%name:~a,n%", bat("set s=abcdef", "echo %s:~1,3% %s:~-2% %s:~0,-4%"), Options{}, want{out: "bcd ef ab\n"})
	// a whole block is expanded when it is read, not when its commands run
	check(t, "block is expanded at read time", bat(
		"set x=1",
		"if 1 equ 1 (",
		"set x=2",
		"echo %x% !x!",
		")",
		"echo %x%",
	), Options{}, want{out: "1 2\n2\n"})
	// the same holds for a & sequence on one line
	check(t, "line is expanded at read time", bat("set x=1", "set x=2 & echo %x% !x!"), Options{}, want{out: "1 2 \n"})
	check(t, "machine dependent variable", bat("echo %PATH%"), Options{}, want{unm: "machine-dependent"})
	check(t, "OS", bat("echo %OS%"), Options{}, want{out: "Windows_NT\n"})
	check(t, "user definition shadows a dynamic variable", bat("set time=5", "echo %time% !TIME!", "if defined time echo yes"), Options{}, want{out: "5 5\nyes\n"})
	check(t, "errorlevel variable", bat("call :f", "echo !errorlevel! %errorlevel%", "exit /B 0", ":f", "exit /B 6"), Options{}, want{out: "6 6\n"})
}

func TestDelayedPhase(t *testing.T) {
	check(t, "undefined", bat("echo [!nope!]"), Options{}, want{out: "[]\n"})
	check(t, "substring", bat("set s=abcdef", "echo !s:~1,3!.!s:~-2!.!s:~0,-4!.!s:~4!.!s:~6!."), Options{}, want{out: "bcd.ef.ab.ef..\n"})
	check(t, "^! in quotes", bat(`set "s=Hi^! there^!"`, "echo !s!"), Options{}, want{out: "Hi! there!\n"})
	check(t, "values are not rescanned", bat(`set "a=x^!y"`, `set "b=!a!"`, "echo !b!"), Options{}, want{out: "x!y\n"})
	check(t, "caret survives in a token without !", bat(`set "a=x^y"`, "echo !a!"), Options{}, want{out: "x^y\n"})
	check(t, "caret is consumed in a token with !", bat(`set "p=1"`, `set "a=x^y!p!"`, "echo !a!"), Options{}, want{out: "xy1\n"})
	check(t, "unpaired ! vanishes", bat(`set "a=wow!"`, "echo [!a!]"), Options{}, want{out: "[wow]\n"})
	check(t, "delayed expansion disabled", "@echo off\r\nset x=1\r\necho !x!\r\n", Options{}, want{out: "!x!\n"})
	check(t, "special characters in values are inert", bat(`set "a=1 & 2 | 3 > 4 ) ("`, "if 1 equ 1 (echo !a!)"), Options{}, want{out: "1 & 2 | 3 > 4 ) (\n"})
}

func TestLineFeedIdiom(t *testing.T) {
	s := bat(
		"(set LF=^",
		"",
		")",
		`set "s=one!LF!two"`,
		"echo !s!",
		`set "s=!s!!LF!"`,
		"echo [!s!]",
	)
	r := Run(s, Options{})
	if r.Unmodelled != "" || r.Error != "" || r.Stdout != "one\ntwo\r\n[one\ntwo\n]\r\n" {
		t.Fatalf("%+v", r)
	}
}

func TestSet(t *testing.T) {
	check(t, "quoted form drops text after the last quote", bat(`set "a=1" junk`, "echo [!a!]"), Options{}, want{out: "[1]\n"})
	check(t, "unquoted form keeps trailing blanks", bat("set a=1  ", "echo [!a!]"), Options{}, want{out: "[1  ]\n"})
	check(t, "empty value undefines", bat("set a=1", `set "a="`, "if defined a (echo yes) else echo no"), Options{}, want{out: "no\n"})
	check(t, "quotes inside the value", bat(`set "a=say "hi" now"`, "echo !a!"), Options{}, want{out: "say \"hi\" now\n"})
	check(t, "dynamic name", bat("set n=v7", `set "!n!_2=x"`, "echo !v7_2!"), Options{}, want{out: "x\n"})
	check(t, "set /p", bat(`set /p "a=prompt"`), Options{}, want{unm: "set /p"})
}

func TestSetA(t *testing.T) {
	cases := []struct{ expr, want string }{
		{"1+2*3", "7"},
		{"(1+2)*3", "9"},
		{"7/2", "3"},
		{"-7/2", "-3"},
		{"7/-2", "-3"},
		{"-7%%3", "-1"},
		{"7%%-3", "1"},
		{"10-2-3", "5"},
		{"100/10/5", "2"},
		{"2147483647+1", "-2147483648"},
		{"-2147483647-2", "2147483647"},
		{"65536*65536", "0"},
		{"46341*46341", "-2147479015"},
		{"3--5", "8"},
		{"+1", "1"},
		{"-(2+3)", "-5"},
		{"undefinedname+4", "4"},
		{"010", "8"},
		{"0x10", "16"},
	}
	for _, c := range cases {
		check(t, c.expr, bat(`set /A "r=`+c.expr+`"`, "echo !r!"), Options{}, want{out: c.want + "\n"})
	}
	check(t, "variables by name", bat("set a=6", "set b=-4", `set /A "r=a*b+1"`, "echo !r!"), Options{}, want{out: "-23\n"})
	check(t, "expanded operands", bat("set a=6", "set b=-4", `set /A "r=!a!-!b!"`, "echo !r!"), Options{}, want{out: "10\n"})
	check(t, "unquoted", bat("set /A r=2+3", "echo !r!"), Options{}, want{out: "5\n"})
	check(t, "compound", bat("set r=5", `set /A "r+=2"`, `set /A "r*=3"`, "echo !r!"), Options{}, want{out: "21\n"})
	check(t, "division by zero", bat("echo a", `set /A "r=1/0"`, "echo b"), Options{}, want{out: "a\n", err: "Divide by zero"})
	check(t, "modulo by zero", bat(`set /A "r=1%%0"`), Options{}, want{err: "Divide by zero"})
	check(t, "08 is no number", bat(`set /A "r=08+1"`), Options{}, want{err: "Invalid number"})
	check(t, "2147483648", bat(`set /A "r=-2147483648"`), Options{}, want{unm: "2147483647"})
	check(t, "bit operators", bat(`set /A "r=1<<3"`), Options{}, want{unm: "grammar"})
	// a single % inside a batch file is not a modulo operator: "%3" is argument 3
	check(t, "single % is an argument reference", bat(`set /A "r=7%3"`, "echo !r!"), Options{}, want{out: "7\n"})
}

func TestIf(t *testing.T) {
	tf := func(cond string) string { return bat("if " + cond + " (echo T) else echo F") }
	cases := []struct {
		cond, want string
	}{
		{"9 lss 10", "T"},
		{`"9" lss "10"`, "F"}, // quoted operands are strings: '9' > '1'
		{`"10" lss "9"`, "T"},
		{`"3" lss "3"`, "F"},
		{`"3" leq "3"`, "T"},
		{`"12" gtr "110"`, "T"},
		{`"1" lss "10"`, "T"}, // proper prefix: '"' sorts before '0'
		{"-5 lss 3", "T"},
		{"-5 gtr -7", "T"},
		{"5 equ 5", "T"},
		{"5 neq 5", "F"},
		{"5 geq 6", "F"},
		{"5 leq 5", "T"},
		{"abc equ abc", "T"},
		{"abc equ ABC", "F"},
		{"/I abc equ ABC", "T"},
		{`"a b" equ "a b"`, "T"},
		{`"" equ ""`, "T"},
		{`"1" equ "01"`, "F"},
		{"not 1 equ 2", "T"},
		{"NOT 1 EQU 1", "F"},
		{"1 EQU 1", "T"},
	}
	for _, c := range cases {
		check(t, c.cond, tf(c.cond), Options{}, want{out: c.want + "\n"})
	}
	check(t, "string order is unmodelled", tf(`"abc" lss "abd"`), Options{}, want{unm: "collation"})
	check(t, "octal spelling is unmodelled", tf("010 equ 8"), Options{}, want{unm: "number spelling"})
	check(t, "operands expand late", bat("set a=3", "set b=12", "if !a! lss !b! (echo T) else echo F", `if "!a!" lss "!b!" (echo T) else echo F`), Options{}, want{out: "T\nF\n"})
	check(t, "empty operand is a string", bat("if !nope! equ 1 (echo T) else echo F"), Options{}, want{out: "F\n"})
	check(t, "defined", bat("set a=1", "if defined a echo yes", "if defined b echo no", "if not defined b echo nob"), Options{}, want{out: "yes\nnob\n"})
	check(t, "nested one-line and", bat("set a=1", "set b=0",
		`if !a! equ 1 (if !b! equ 1 (set "r=1") else set "r=0") else set "r=0"`, "echo !r!"), Options{}, want{out: "0\n"})
	check(t, "one-line or chain", bat("set a=0", "set b=1",
		`if !a! equ 1 (set "r=1") else if !b! equ 1 (set "r=1") else set "r=0"`, "echo !r!"), Options{}, want{out: "1\n"})
	check(t, "block else-if chain", bat("set a=2",
		`if "!a!" equ "1" (`, "echo one", `) else if "!a!" equ "2" (`, "echo two", ") else (", "echo other", ")", "echo end"), Options{}, want{out: "two\nend\n"})
	check(t, "else belongs to the line of the closing parenthesis", bat("if 1 equ 2 (", "echo a", ")", "echo b"), Options{}, want{out: "b\n"})
	check(t, "commands after & belong to the if", bat("if 1 equ 2 echo a & echo b", "echo c"), Options{}, want{out: "c\n"})
	check(t, "errorlevel", bat("call :f", "if errorlevel 3 echo ge3", "if errorlevel 4 echo ge4", "exit /B 0", ":f", "exit /B 3"), Options{}, want{out: "ge3\n"})
}

func TestIfExist(t *testing.T) {
	files := map[string]string{`C:\tmp\d\test.bat`: "x", "rel.txt": "y"}
	check(t, "file", bat(`if exist "rel.txt" (echo T) else echo F`), Options{Files: files}, want{out: "T\n"})
	check(t, "case and slash", bat(`if exist "c:/TMP/d/TEST.bat" (echo T) else echo F`), Options{Files: files}, want{out: "T\n"})
	check(t, "directory", bat(`if exist "C:\tmp\d" (echo T) else echo F`), Options{Files: files}, want{out: "T\n"})
	check(t, "missing", bat(`if exist "nope.txt" (echo T) else echo F`), Options{Files: files}, want{out: "F\n"})
	check(t, "wildcard", bat(`if exist "*.txt" (echo T) else echo F`), Options{Files: files}, want{unm: "wildcard"})
}

func TestGoto(t *testing.T) {
	check(t, "forward and backward", bat(
		"set n=0",
		":top",
		`set /A "n=!n!+1"`,
		"if !n! lss 3 goto :top",
		"echo !n!",
		"goto end",
		"echo skipped",
		":END",
		"echo done",
	), Options{}, want{out: "3\ndone\n"})
	// duplicate labels: the first one after the goto wins, the search wraps at end of file
	check(t, "first match after the current line", bat(
		"goto :a",
		":l",
		"echo first",
		"exit /B 0",
		":a",
		"goto :l",
		":l",
		"echo second",
		"exit /B 0",
	), Options{}, want{out: "second\n"})
	check(t, "wrap around", bat(
		"goto :start",
		":back",
		"echo back",
		"exit /B 0",
		":start",
		"goto :back",
	), Options{}, want{out: "back\n"})
	// the search starts after the whole block that contains the goto
	check(t, "search starts after the block", bat(
		"set n=0",
		":again",
		`set /A "n=!n!+1"`,
		"if !n! leq 2 (",
		"echo in !n!",
		"goto :again",
		":again",
		"echo never",
		")",
		"echo out !n!",
	), Options{}, want{out: "in 1\nin 2\nout 3\n"})
	check(t, "goto abandons the block", bat(
		"if 1 equ 1 (",
		"echo a",
		"if 1 equ 1 (",
		"goto :x",
		")",
		"echo b",
		")",
		"echo c",
		":x",
		"echo d",
	), Options{}, want{out: "a\nd\n"})
	check(t, "goto abandons the rest of the line", bat("goto :x & echo no", ":x", "echo yes"), Options{}, want{out: "yes\n"})
	check(t, "labels inside blocks are skipped", bat(
		"if 1 equ 1 (",
		"echo a",
		":inner",
		"echo b",
		")",
	), Options{}, want{out: "a\nb\n"})
	check(t, "jump into a block continues without block", bat(
		"goto :inner",
		"if 1 equ 2 (",
		"echo a",
		":inner",
		"echo b",
		"goto :out",
		")",
		":out",
		"echo c",
	), Options{}, want{out: "b\nc\n"})
	check(t, "stray closing parenthesis", bat(
		"goto :inner",
		"if 1 equ 2 (",
		":inner",
		"echo b",
		")",
		"echo c",
	), Options{}, want{out: "b\nc\n"})
	check(t, "stray ') else (' lines act like REM", bat(
		"goto :inner",
		"if 1 equ 2 (",
		":inner",
		"echo b",
		") else if \"x\" equ \"y\" (",
		"echo c",
		") else (",
		"echo d",
		")",
		"echo e",
	), Options{}, want{out: "b\nc\nd\ne\n"})
	check(t, "stray ')' with an ampersand is not guessed", bat("goto :inner", "if 1 equ 2 (", ":inner", "echo b", ") & echo c"), Options{}, want{unm: "starting with ')'"})
	check(t, "label before closing parenthesis", bat("if 1 equ 1 (", "echo a", ":l", ")"), Options{}, want{unm: "rule 7"})
	check(t, "two labels in a block", bat("if 1 equ 1 (", ":l1", ":l2", "echo a", ")"), Options{}, want{unm: "rule 7"})
	check(t, "missing label", bat("echo a", "goto :nowhere", "echo b"), Options{}, want{out: "a\n", err: "batch label"})
	check(t, "goto :eof ends the frame", bat("call :f", "echo back", "goto :eof", "echo no", ":f", "echo in", "goto :EOF", "echo no"), Options{}, want{out: "in\nback\n"})
	check(t, "label case", bat("goto :LaBeL", "echo no", ":label", "echo yes"), Options{}, want{out: "yes\n"})
	check(t, "comment lines", bat(":: goto :x is only text", "rem goto :x", "echo a"), Options{}, want{out: "a\n"})
}

func TestCallAndExit(t *testing.T) {
	check(t, "arguments", bat(
		`call :f one "two words" 3`,
		"echo back",
		"exit /B 0",
		":f",
		"echo [%1] [%2] [%~2] [%3] [%4] [%0]",
		"exit /B",
	), Options{}, want{out: "[one] [\"two words\"] [two words] [3] [] [:f]\nback\n"})
	check(t, "arguments split on , ; =", bat("call :f a,b;c=d", "exit /B 0", ":f", "echo %1.%2.%3.%4", "exit /B"), Options{}, want{out: "a.b.c.d\n"})
	check(t, "exit status", bat("echo x", "exit /B 7"), Options{}, want{out: "x\n", exit: 7})
	check(t, "exit /B without number keeps errorlevel", bat("call :f", "exit /B", ":f", "exit /B 4"), Options{}, want{exit: 4})
	check(t, "end of file keeps errorlevel", bat("call :f", "goto :done", ":f", "exit /B 5", ":done"), Options{}, want{exit: 5})
	check(t, "call returns into the middle of a block", bat(
		"if 1 equ 1 (",
		"call :f",
		"echo after",
		")",
		"exit /B 0",
		":f",
		"echo in",
		"exit /B",
	), Options{}, want{out: "in\nafter\n"})
	check(t, "recursion", bat(
		"set n=3",
		"call :down",
		"echo end",
		"exit /B 0",
		":down",
		"echo !n!",
		`set /A "n=!n!-1"`,
		"if !n! gtr 0 call :down",
		"exit /B",
	), Options{}, want{out: "3\n2\n1\nend\n"})
	check(t, "arguments of the caller come back", bat(
		"call :a X", "exit /B 0",
		":a", "call :b Y", "echo a=%1", "exit /B",
		":b", "echo b=%1", "exit /B",
	), Options{}, want{out: "b=Y\na=X\n"})
	check(t, "expanded arguments", bat("set v=_dv1", "call :f !v! !nope! 2", "exit /B 0", ":f", "echo %1.%2.%3", "exit /B"), Options{}, want{out: "_dv1.2.\n"})
	check(t, "missing call label", bat("call :nope"), Options{}, want{err: "batch label"})
	check(t, "external program", bat("call dir /B"), Options{}, want{unm: "not a label"})
	check(t, "unknown command", bat("findstr x"), Options{}, want{unm: "not part of the model"})
	check(t, "pipe", bat("echo a | findstr a"), Options{}, want{unm: "pipe"})
	check(t, "redirection", bat("echo a> f.txt"), Options{}, want{unm: "redirection"})
	check(t, "unexecuted unmodelled command is harmless", bat("if 1 equ 2 (", "dir /B | findstr x", ")", "echo ok"), Options{}, want{out: "ok\n"})
}

func TestSetlocal(t *testing.T) {
	check(t, "endlocal restores", bat("set a=1", "setlocal", "set a=2", "set b=3", "endlocal", "echo !a!.!b!."), Options{}, want{out: "1..\n"})
	// the final line of every emitted script: %_e% is substituted before endlocal runs
	check(t, "endlocal & exit /B %_e%", "@echo off\r\nsetlocal EnableDelayedExpansion\r\nsetlocal\r\nset \"_e=0\"\r\nset \"_e=3\"\r\n:end\r\nendlocal & exit /B %_e%\r\n", Options{}, want{exit: 3})
	check(t, "setlocal of a called frame ends with the frame", bat("set a=1", "call :f", "echo !a!", "exit /B 0", ":f", "setlocal", "set a=2", "exit /B"), Options{}, want{out: "1\n"})
	// endlocal in a called frame: decided only if both readings agree
	check(t, "ambiguous endlocal, same result", bat("setlocal", "set a=1", "call :f", "echo x", "exit /B 0", ":f", "endlocal", "exit /B"), Options{}, want{out: "x\n"})
	check(t, "ambiguous endlocal, different result", bat("setlocal", "set a=1", "call :f", "echo [!a!]", "exit /B 0", ":f", "endlocal", "exit /B"), Options{}, want{unm: "rule 8"})
}

func TestForF(t *testing.T) {
	check(t, "string", bat(`for /f "delims=" %%i in ("a b  c") do echo [%%i]`), Options{}, want{out: "[a b  c]\n"})
	check(t, "empty string", bat(`for /f "delims=" %%i in ("") do echo [%%i]`, "echo end"), Options{}, want{out: "end\n"})
	check(t, "eol", bat(`for /f "delims=" %%i in (";x") do echo [%%i]`, "echo end"), Options{}, want{out: "end\n"})
	check(t, "indirect variable", bat("set name=_dv1", `set "_dv1_2=hit"`, "set i=2",
		`for /f "delims=" %%i in ("!name!_!i!") do set "r=!%%i!"`, "echo !r!"), Options{}, want{out: "hit\n"})
	check(t, "lines of a value", bat("(set LF=^", "", ")", `set "v=one!LF!!LF!two"`,
		`for /f "delims=" %%i in ("!v!") do (`, "echo [%%i]", ")"), Options{}, want{out: "[one]\n[two]\n"})
	check(t, "other options", bat(`for /f "tokens=1,2" %%i in ("a b") do echo %%i`), Options{}, want{unm: "options"})
	check(t, "other for", bat(`for %%i in (a b) do echo %%i`), Options{}, want{unm: "rule 9"})
	check(t, "command", bat(`for /f "delims=" %%i in ('dir /B') do echo %%i`), Options{}, want{unm: "external"})
}

func TestFiles(t *testing.T) {
	read := []string{
		"(set LF=^", "", ")",
		"call :_frh data.txt",
		"echo !_h!",
		"exit /B 0",
		":_frh",
		`set "_h="`,
		`for /f "delims=" %%i in (%~1) do (`,
		`if defined _h set "_h=!_h!!LF!"`,
		`set "_h=!_h!%%i"`,
		")",
		"exit /B",
	}
	files := map[string]string{"data.txt": "first\r\n\r\n;skipped\r\nlast"}
	check(t, "read", bat(read...), Options{Files: files}, want{out: "first\nlast\n"})
	check(t, "read missing", bat(read...), Options{Files: map[string]string{}}, want{err: "cannot find the file"})

	write := []string{
		`set "_fa0=Hello Moon"`,
		"call :_fwh out.txt 0",
		`set "_fa0=More"`,
		"call :_fwh out.txt 1",
		"exit /B 0",
		":_fwh",
		`set "_a=>"`,
		`if "%2" equ "1" set "_a=>>"`,
		`for /f "delims=" %%i in ("!_fa0!") do (`,
		`for /f "delims=" %%j in ('echo %%i!_a! %~1') do (`,
		"rem",
		")",
		`set "_a=>>"`,
		")",
		"exit /B",
	}
	files = map[string]string{"out.txt": "old\r\n"}
	check(t, "write then append", bat(write...), Options{Files: files}, want{out: ""})
	if files["out.txt"] != "Hello Moon\r\nMore\r\n" {
		t.Errorf("out.txt = %q", files["out.txt"])
	}
	write[0] = `set "_fa0=a & b"`
	check(t, "text the child would interpret", bat(write...), Options{Files: map[string]string{}}, want{unm: "child"})
	write[0] = `set "_fa0=x 1"`
	check(t, "digit before >", bat(write...), Options{Files: map[string]string{}}, want{unm: "digit"})
}

// The helpers the converter emits, interpreted from their text.
func TestEmittedHelpers(t *testing.T) {
	helpers := []string{
		"goto :main",
		":_sah",
		"call :_slg !%1!",
		`set "_i=!_len!"`,
		":_sah_loop",
		`if "!_i!" lss "%2" (`,
		`set "!%1!_!_i!=%3"`,
		`set /A "_i=!_i!+1"`,
		"goto :_sah_loop",
		") else (",
		`set /A "_len=%2+1"`,
		"call :_sls !%1! !_len!",
		")",
		`set "!%1!_%2=!_fa0!"`,
		"exit /B",
		":_sls",
		`set "%1_len=%2"`,
		"exit /B",
		":_slg",
		`set "_len=!%1_len!"`,
		"exit /B",
		":_stsh",
		`set /A "_sh=(%2-%1)+1"`,
		`set "_sub=!_fa0:~%1,%_sh%!"`,
		"exit /B",
		":_stlh",
		"set _l=0",
		":_stlhl",
		`if "!_fa0!" equ "" (goto :_stlhle) else if "!_fa0:~%_l%!" equ "" goto :_stlhle`,
		`set /A "_l=%_l%+1"`,
		"goto :_stlhl",
		":_stlhle",
		"exit /B",
		":_ech",
		`if "!_fa0!" neq "" (echo !_fa0!) else echo.`,
		"exit /B",
		":main",
	}
	with := func(body ...string) string { return bat(append(append([]string{}, helpers...), body...)...) }

	check(t, "string length", with(`set "_fa0=hello world"`, "call :_stlh ", "echo !_l!", `set "_fa0="`, "call :_stlh ", "echo !_l!"), Options{}, want{out: "11\n0\n"})
	check(t, "string subscript", with(`set "_fa0=hello world"`, "call :_stsh 4 6", "echo [!_sub!]"), Options{}, want{out: "[o w]\n"})
	check(t, "echo helper", with(`set "_fa0=a  b"`, "call :_ech ", `set "_fa0="`, "call :_ech "), Options{}, want{out: "a  b\n\n"})
	slice := []string{
		`set /A "_dvc=!_dvc!+1"`,
		`set "_h0=_dv!_dvc!"`,
		"call :_sls !_h0! 2",
		`set "!_h0!_0=10"`,
		`set "!_h0!_1=11"`,
		`set "a=!_h0!"`,
	}
	check(t, "slice append within one digit", with(append(slice,
		`set "_fa0=14"`, "call :_sah a 4 0",
		"call :_slg !a!", "echo !_len! !_dv1_0! !_dv1_1! !_dv1_2! !_dv1_3! !_dv1_4!")...), Options{}, want{out: "5 10 11 0 0 14\n"})
	// "2" lss "10" is a string comparison and false: no default values are stored (DESIGN §4 item 9)
	check(t, "slice append across a digit boundary", with(append(slice,
		`set "_fa0=99"`, "call :_sah a 10 0",
		"call :_slg !a!", "echo !_len! [!_dv1_5!] !_dv1_10!")...), Options{}, want{out: "11 [] 99\n"})
}

func TestStepBudget(t *testing.T) {
	r := Run(bat(":a", "goto :a"), Options{MaxSteps: 1000})
	if r.Unmodelled != "step budget" {
		t.Fatalf("%+v", r)
	}
	if r.Steps < 1000 || r.Steps > 1002 {
		t.Fatalf("steps = %d", r.Steps)
	}
}

func TestSyntaxSituations(t *testing.T) {
	check(t, "unbalanced block", bat("if 1 equ 1 (", "echo a"), Options{}, want{err: "unbalanced"})
	check(t, "closing parenthesis ends a command inside a block", bat("if 1 equ 1 (echo (a) b)"), Options{}, want{unm: "unexpected"})
	check(t, "parenthesis in text outside blocks", bat("echo (a) b"), Options{}, want{out: "(a) b\n"})
	check(t, "quoted parenthesis inside a block", bat(`if 1 equ 1 (set "a=(x)")`, "echo !a!"), Options{}, want{out: "(x)\n"})
	check(t, "caret escapes", bat("echo a ^& b ^^ c"), Options{}, want{out: "a & b ^ c\n"})
	check(t, "CR inside a line is dropped", bat("echo a\rb"), Options{}, want{out: "ab\n"})
	check(t, "deterministic", bat("echo x"), Options{}, want{out: "x\n"})
}

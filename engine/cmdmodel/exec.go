package cmdmodel

import (
	"strconv"
	"strings"
)

func (in *interp) exec(n node) ctl {
	switch x := n.(type) {
	case seqNode:
		for _, s := range x.list {
			if c := in.exec(s); c.kind != ctlNone {
				return c
			}
		}
		return ctl{}
	case blockNode:
		for _, s := range x.list {
			if c := in.exec(s); c.kind != ctlNone {
				return c
			}
		}
		return ctl{}
	case labelNode:
		return ctl{}
	case unsupNode:
		in.unmodelled("%s", x.reason)
	case ifNode:
		in.step()
		in.checkEcho(x.silent)
		return in.execIf(x)
	case forNode:
		in.step()
		in.checkEcho(x.silent)
		return in.execFor(x)
	case simpleCmd:
		in.step()
		return in.execSimple(x)
	case pipeNode:
		in.step()
		return in.execPipe(x)
	}
	panic("cmdmodel: unknown node")
}

func (in *interp) checkEcho(silent bool) {
	if in.echoOn && !silent {
		in.unmodelled("rule 10: command executed while ECHO is on (prompt text is not modelled)")
	}
}

// ---------------------------------------------------------------------------------------------
// simple commands

func (in *interp) execSimple(c simpleCmd) ctl {
	name := strings.ToLower(in.expand(c.name))
	in.checkEcho(c.silent)
	if c.redir {
		in.unmodelled("rule 11: redirection")
	}
	if name == "rem" {
		return ctl{}
	}
	args := in.expand(c.args)
	switch name {
	case "set":
		in.cmdSet(args)
	case "echo":
		in.cmdEcho(args)
	case "echo.":
		if strings.Trim(args, " \t") != "" {
			in.unmodelled("rule 10: echo. with text")
		}
		in.out.WriteString("\r\n")
	case "goto":
		return in.cmdGoto(args)
	case "call":
		in.cmdCall(args)
	case "exit":
		return in.cmdExit(args)
	case "setlocal":
		in.cmdSetlocal(args)
	case "endlocal":
		in.cmdEndlocal(args)
	default:
		in.unmodelled("rule 11: command %q is not part of the model", c.name)
	}
	return ctl{}
}

func (in *interp) cmdSet(args string) {
	a := strings.TrimLeft(args, " \t")
	if len(a) >= 2 && a[0] == '/' {
		switch a[1] {
		case 'a', 'A':
			expr := strings.TrimLeft(a[2:], " \t")
			expr = setUnquote(expr)
			in.evalArith(expr)
			return
		case 'p', 'P':
			in.unmodelled("rule 11: set /p")
		}
		in.unmodelled("rule 4: set switch %q", a[:2])
	}
	a = setUnquote(a)
	eq := strings.IndexByte(a, '=')
	if eq < 0 {
		in.unmodelled("rule 4: set without '=' (lists variables)")
	}
	if eq == 0 {
		in.scriptError("set: The syntax of the command is incorrect.")
	}
	// a user definition of DATE, PATH, ERRORLEVEL, ... simply shadows the dynamic/inherited value
	name, value := a[:eq], a[eq+1:]
	in.setVar(name, value)
}

// setUnquote: if the argument starts with a quote, that quote and the last quote (with everything
// after it) are dropped.
func setUnquote(a string) string {
	if strings.HasPrefix(a, `"`) {
		a = a[1:]
		if k := strings.LastIndexByte(a, '"'); k >= 0 {
			a = a[:k]
		}
	}
	return a
}

func (in *interp) cmdEcho(args string) {
	if args == "" {
		in.unmodelled("rule 10: echo without text prints the ECHO state")
	}
	text := args[1:] // exactly one separator character belongs to the command
	trim := strings.Trim(text, " \t")
	if trim == "" {
		in.unmodelled("rule 10: echo with blank text prints the ECHO state")
	}
	low := strings.ToLower(trim)
	if low == "on" || low == "off" {
		// echo on / echo off switch the ECHO state and print nothing
		in.echoOn = low == "on"
		return
	}
	if strings.Contains(text, "/?") {
		in.unmodelled("rule 10: echo /?")
	}
	in.out.WriteString(text)
	in.out.WriteString("\r\n")
}

func (in *interp) cmdGoto(args string) ctl {
	t := strings.Trim(args, " \t")
	if t == "" {
		in.scriptError("goto without label")
	}
	if k := strings.IndexAny(t, " \t"); k >= 0 {
		t = t[:k]
	}
	if strings.EqualFold(t, ":eof") {
		return ctl{kind: ctlExit}
	}
	t = strings.TrimPrefix(t, ":")
	if t == "" {
		in.scriptError("goto without label")
	}
	if len(in.forOrder) > 0 {
		in.unmodelled("rule 6: goto inside a FOR body")
	}
	return ctl{kind: ctlGoto, label: t}
}

// splitArgs splits call arguments on blank , ; = outside quotes.
func splitArgs(s string) []string {
	var out []string
	var cur []byte
	inQ := false
	have := false
	for i := 0; i < len(s); i++ {
		c := s[i]
		if c == '"' {
			inQ = !inQ
			cur = append(cur, c)
			have = true
			continue
		}
		if !inQ && isDelim(int(c)) {
			if have {
				out = append(out, string(cur))
				cur = cur[:0]
				have = false
			}
			continue
		}
		cur = append(cur, c)
		have = true
	}
	if have {
		out = append(out, string(cur))
	}
	return out
}

func (in *interp) cmdCall(args string) {
	a := strings.TrimLeft(args, " \t")
	if !strings.HasPrefix(a, ":") {
		if in.external != nil {
			in.callExternal(a) // rule 12a
			return
		}
		in.unmodelled("rule 11: call of something that is not a label (%q)", firstWord(a))
	}
	// phase 6: the expanded text is parsed once more; only the % phase is modelled
	inQ := false
	for i := 0; i < len(a); i++ {
		c := a[i]
		if c == '"' {
			inQ = !inQ
		}
		switch {
		case c == '^':
			in.unmodelled("rule 8: ^ in the arguments of call (caret doubling)")
		case c == '\n':
			in.unmodelled("rule 8: line feed in the arguments of call")
		case !inQ && (c == '&' || c == '|' || c == '<' || c == '>'):
			in.unmodelled("rule 8: unquoted %q in the arguments of call", string(rune(c)))
		}
	}
	if strings.IndexByte(a, '%') >= 0 {
		a = in.percentExpand(a)
	}
	toks := splitArgs(a)
	if len(toks) == 0 {
		in.unmodelled("rule 8: call without target")
	}
	label := strings.TrimPrefix(toks[0], ":")
	if label == "" || strings.EqualFold(label, "eof") {
		in.unmodelled("rule 8: call :%s", label)
	}
	if len(in.frames) >= maxCallDepth {
		in.unmodelled("rule 8: call nesting deeper than %d", maxCallDepth)
	}
	if len(in.forOrder) > 0 {
		in.unmodelled("rule 8: call inside a FOR body")
	}
	ret := in.pos
	target := in.findLabel(label, in.pos)
	in.frames = append(in.frames, callFrame{label: toks[0], args: toks[1:]})
	depth := len(in.frames)
	in.pos = target
	in.runFrame()
	// implicit endlocal for every setlocal issued by the frame
	for len(in.locals) > 0 && in.locals[len(in.locals)-1].depth >= depth {
		in.popLocal()
	}
	in.frames = in.frames[:len(in.frames)-1]
	in.pos = ret
}

func firstWord(s string) string {
	if k := strings.IndexAny(s, " \t"); k >= 0 {
		return s[:k]
	}
	return s
}

func (in *interp) cmdExit(args string) ctl {
	toks := strings.Fields(args)
	if len(toks) == 0 || !strings.EqualFold(toks[0], "/b") {
		in.unmodelled("rule 8: exit without /B")
	}
	if len(toks) > 2 {
		in.unmodelled("rule 8: exit /B with more than one argument")
	}
	if len(toks) == 2 {
		n, ok := plainInt(toks[1])
		if !ok {
			in.unmodelled("rule 8: exit /B %s", toks[1])
		}
		in.errlevel = int(n)
	}
	return ctl{kind: ctlExit}
}

// plainInt accepts an optionally negative decimal integer without leading zeros inside 32 bits.
func plainInt(s string) (int32, bool) {
	t := s
	if strings.HasPrefix(t, "-") {
		t = t[1:]
	}
	if t == "" || len(t) > 10 {
		return 0, false
	}
	for i := 0; i < len(t); i++ {
		if t[i] < '0' || t[i] > '9' {
			return 0, false
		}
	}
	if len(t) > 1 && t[0] == '0' {
		return 0, false
	}
	n, err := strconv.ParseInt(s, 10, 32)
	if err != nil {
		return 0, false
	}
	return int32(n), true
}

func (in *interp) cmdSetlocal(args string) {
	delayed := in.delayed
	for _, t := range strings.Fields(args) {
		switch strings.ToLower(t) {
		case "enabledelayedexpansion":
			delayed = true
		case "disabledelayedexpansion":
			delayed = false
		case "enableextensions":
		default:
			in.unmodelled("rule 8: setlocal %s", t)
		}
	}
	if len(in.locals) >= 32 {
		in.unmodelled("rule 8: more than 32 nested setlocal")
	}
	in.locals = append(in.locals, localFrame{env: in.copyEnv(), delayed: in.delayed, depth: len(in.frames)})
	in.delayed = delayed
}

func (in *interp) popLocal() {
	top := in.locals[len(in.locals)-1]
	in.locals = in.locals[:len(in.locals)-1]
	in.env = top.env
	in.delayed = top.delayed
}

func (in *interp) cmdEndlocal(args string) {
	if strings.Trim(args, " \t") != "" {
		in.unmodelled("rule 8: endlocal with arguments")
	}
	if len(in.locals) == 0 {
		return
	}
	if in.locals[len(in.locals)-1].depth < len(in.frames) {
		// issued inside a called frame that has no setlocal of its own (rule 8)
		in.ambiguous = true
		if !in.endlocalB {
			return
		}
	}
	in.popLocal()
}

// ---------------------------------------------------------------------------------------------
// if

func (in *interp) execIf(n ifNode) ctl {
	var res bool
	switch n.kind {
	case "defined":
		name := in.expand(n.left)
		up := strings.ToUpper(name)
		if _, ok := in.env[up]; ok {
			res = true
		} else if up == "ERRORLEVEL" || volatileVars[up] {
			in.unmodelled("rule 5: if defined %s", name)
		}
	case "exist":
		p := stripQuotes(in.expand(n.left))
		if strings.ContainsAny(p, "*?") {
			in.unmodelled("rule 5: if exist with wildcards")
		}
		in.checkPath(p, "rule 5: if exist")
		if _, ok := in.fileKey(p); ok {
			res = true
		} else {
			res = in.dirExists(p)
		}
	case "errorlevel":
		v, ok := plainInt(in.expand(n.left))
		if !ok {
			in.unmodelled("rule 5: if errorlevel %s", n.left)
		}
		res = in.errlevel >= int(v)
	case "cmp":
		res = in.compare(in.expand(n.left), n.op, in.expand(n.right), n.insens)
	}
	if n.not {
		res = !res
	}
	if res {
		return in.exec(n.then)
	}
	if n.els != nil {
		return in.exec(n.els)
	}
	return ctl{}
}

func looksNumeric(s string) bool {
	t := strings.Trim(s, " \t") // the C conversion cmd uses skips leading blanks
	if strings.HasPrefix(t, "-") || strings.HasPrefix(t, "+") {
		t = t[1:]
	}
	if t == "" {
		return false
	}
	if len(t) > 2 && t[0] == '0' && (t[1] == 'x' || t[1] == 'X') {
		return true
	}
	for i := 0; i < len(t); i++ {
		if t[i] < '0' || t[i] > '9' {
			return false
		}
	}
	return true
}

func quotedDigits(s string) (string, bool) {
	if len(s) < 2 || s[0] != '"' || s[len(s)-1] != '"' {
		return "", false
	}
	d := s[1 : len(s)-1]
	for i := 0; i < len(d); i++ {
		if d[i] < '0' || d[i] > '9' {
			return "", false
		}
	}
	return s, true
}

// compare implements rule 5.
func (in *interp) compare(l, op, r string, insens bool) bool {
	ln, lok := plainInt(l)
	rn, rok := plainInt(r)
	if lok && rok {
		switch op {
		case "equ":
			return ln == rn
		case "neq":
			return ln != rn
		case "lss":
			return ln < rn
		case "leq":
			return ln <= rn
		case "gtr":
			return ln > rn
		case "geq":
			return ln >= rn
		}
	}
	if looksNumeric(l) && looksNumeric(r) {
		// both would be parsed as numbers by cmd, but in a spelling (sign +, leading zero = octal,
		// 0x, beyond 32 bits) whose treatment the model does not claim
		in.unmodelled("rule 5: IF compares %q with %q (number spelling outside plain 32-bit decimal)", l, r)
	}
	// string comparison
	for _, s := range []string{l, r} {
		for i := 0; i < len(s); i++ {
			if s[i] >= 0x80 && l != r {
				in.unmodelled("rule 5: IF string comparison with non-ASCII text")
			}
		}
	}
	if op == "equ" || op == "neq" {
		eq := l == r
		if insens {
			eq = strings.EqualFold(l, r)
		}
		return eq == (op == "equ")
	}
	lq, lok2 := quotedDigits(l)
	rq, rok2 := quotedDigits(r)
	if !lok2 || !rok2 {
		in.unmodelled("rule 5: IF %s on strings other than quoted digit strings (%q, %q): collation order is not modelled", op, l, r)
	}
	c := strings.Compare(lq, rq)
	switch op {
	case "lss":
		return c < 0
	case "leq":
		return c <= 0
	case "gtr":
		return c > 0
	case "geq":
		return c >= 0
	}
	panic("cmdmodel: unknown IF operator")
}

// ---------------------------------------------------------------------------------------------
// for /f

func (in *interp) execFor(n forNode) ctl {
	if !strings.EqualFold(strings.TrimSpace(n.opts), "delims=") {
		in.unmodelled("rule 9: for /f options %q (only \"delims=\" is modelled)", n.opts)
	}
	if _, dup := in.forVars[n.v]; dup {
		in.unmodelled("rule 9: nested FOR reuses variable %%%c", n.v)
	}
	set := in.expand(n.set)
	trimmed := strings.Trim(set, " \t")
	var lines []string
	switch {
	case len(trimmed) >= 2 && trimmed[0] == '"' && trimmed[len(trimmed)-1] == '"':
		lines = splitLines(trimmed[1 : len(trimmed)-1])
	case len(trimmed) >= 2 && trimmed[0] == '\'' && trimmed[len(trimmed)-1] == '\'':
		lines = in.runChild(trimmed[1 : len(trimmed)-1])
	case strings.ContainsAny(trimmed, "\"'`"):
		in.unmodelled("rule 9: for /f IN clause %q", set)
	default:
		files := splitArgs(trimmed)
		if len(files) != 1 {
			in.unmodelled("rule 9: for /f over %d file names", len(files))
		}
		if strings.ContainsAny(files[0], "*?") {
			in.unmodelled("rule 9: for /f over a wildcard")
		}
		in.checkPath(files[0], "rule 9: for /f file")
		key, ok := in.fileKey(files[0])
		if !ok {
			in.scriptError("The system cannot find the file %s.", files[0])
		}
		content := in.files[key]
		if strings.IndexByte(content, 0x1a) >= 0 || strings.IndexByte(content, 0) >= 0 {
			in.unmodelled("rule 9: for /f over a file containing NUL or Ctrl-Z")
		}
		lines = splitLines(content)
	}
	in.forOrder = append(in.forOrder, n.v)
	defer func() {
		delete(in.forVars, n.v)
		in.forOrder = in.forOrder[:len(in.forOrder)-1]
	}()
	for _, line := range lines {
		// "delims=": no delimiters, the whole line is token 1; empty lines and lines starting
		// with the default eol character ';' are skipped
		if line == "" || line[0] == ';' {
			continue
		}
		in.step()
		in.forVars[n.v] = line
		c := in.exec(n.body)
		if c.kind != ctlNone {
			in.unmodelled("rule 9: goto/exit out of a FOR body")
		}
	}
	return ctl{}
}

func splitLines(s string) []string {
	parts := strings.Split(s, "\n")
	for i := range parts {
		parts[i] = strings.TrimSuffix(parts[i], "\r")
	}
	return parts
}

// runChild models  for /f ... in ('command')  for the single shape the converter emits:
// echo TEXT> FILE  and  echo TEXT>> FILE  run by a child cmd.exe. The child parses the text
// from scratch, so TEXT is restricted to characters without any special meaning there.
func (in *interp) runChild(cmdline string) []string {
	c := strings.TrimLeft(cmdline, " \t")
	if in.external != nil && strings.EqualFold(firstWord(c), "cmd") {
		return in.runChildCmd(c) // rule 12c
	}
	if len(c) < 5 || !strings.EqualFold(c[:5], "echo ") {
		in.unmodelled("rule 11: for /f over the output of %q (external command)", firstWord(c))
	}
	rest := c[5:]
	gt := strings.IndexByte(rest, '>')
	if gt < 0 {
		in.unmodelled("rule 11: for /f over the output of echo without redirection")
	}
	text := rest[:gt]
	tail := rest[gt+1:]
	appendMode := false
	if strings.HasPrefix(tail, ">") {
		appendMode = true
		tail = tail[1:]
	}
	path := strings.Trim(tail, " \t")
	if strings.ContainsAny(path, " \t") {
		in.unmodelled("rule 11: child echo: text after the redirection target")
	}
	in.checkPath(path, "rule 11: child echo redirection")
	for i := 0; i < len(text); i++ {
		ch := text[i]
		ok := ch >= 'a' && ch <= 'z' || ch >= 'A' && ch <= 'Z' || ch >= '0' && ch <= '9' || strings.IndexByte(" .,:;_-+='#@~[]{}/\\", ch) >= 0
		if !ok {
			in.unmodelled("rule 11: child echo: text %q contains a character the child cmd.exe may interpret", text)
		}
	}
	trim := strings.Trim(text, " ")
	low := strings.ToLower(trim)
	if trim == "" || low == "on" || low == "off" || strings.Contains(text, "/?") {
		in.unmodelled("rule 11: child echo: text %q is not printed literally", text)
	}
	if last := text[len(text)-1]; last >= '0' && last <= '9' {
		in.unmodelled("rule 11: child echo: text %q ends in a digit directly before > (handle redirection)", text)
	}
	data := text + "\r\n"
	key, ok := in.fileKey(path)
	if !ok {
		key = path
	}
	if in.dirExists(path) {
		in.unmodelled("rule 11: child echo: redirection to a directory")
	}
	if appendMode && ok {
		in.files[key] += data
	} else {
		in.files[key] = data
	}
	return nil
}

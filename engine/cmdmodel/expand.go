package cmdmodel

import (
	"strconv"
	"strings"
)

// percentExpand is phase 1 for one physical line of a batch file (rule 2).
func (in *interp) percentExpand(line string) string {
	if strings.IndexByte(line, '%') < 0 {
		return line
	}
	frame := in.frames[len(in.frames)-1]
	arg := func(d int) string {
		if d == 0 {
			if len(in.frames) == 1 {
				in.unmodelled("rule 2: %%0 of the script itself (its path is not part of the model)")
			}
			return frame.label
		}
		if d-1 < len(frame.args) {
			return frame.args[d-1]
		}
		return ""
	}
	var b strings.Builder
	i := 0
	for i < len(line) {
		c := line[i]
		if c != '%' {
			b.WriteByte(c)
			i++
			continue
		}
		// 1.1  %% -> %
		if i+1 < len(line) && line[i+1] == '%' {
			b.WriteByte('%')
			i += 2
			continue
		}
		// 1.2  arguments
		if i+1 < len(line) {
			n := line[i+1]
			if n == '*' {
				in.unmodelled("rule 2: %%*")
			}
			if n >= '0' && n <= '9' {
				b.WriteString(arg(int(n - '0')))
				i += 2
				continue
			}
			if n == '~' {
				j := i + 2
				for j < len(line) && strings.IndexByte("fdpnxsatzFDPNXSATZ", line[j]) >= 0 {
					j++
				}
				if j < len(line) && line[j] >= '0' && line[j] <= '9' {
					if j != i+2 {
						in.unmodelled("rule 2: argument modifier %s", line[i:j+1])
					}
					b.WriteString(stripQuotes(arg(int(line[j] - '0'))))
					i = j + 1
					continue
				}
				if j < len(line) && line[j] == '$' {
					in.unmodelled("rule 2: argument modifier %%~$")
				}
			}
		}
		// 1.3  variables
		j := i + 1
		for j < len(line) && line[j] != '%' && line[j] != ':' {
			j++
		}
		if j < len(line) && line[j] == ':' && j+1 < len(line) && line[j+1] == '%' {
			j++ // the colon belongs to the name
		}
		switch {
		case j >= len(line):
			// 1.4  no closing %: the % is removed
			i++
		case line[j] == '%':
			name := line[i+1 : j]
			if v, ok := in.getVar(name); ok {
				b.WriteString(v)
			}
			i = j + 1
		default: // ':'
			name := line[i+1 : j]
			v, ok := in.getVar(name)
			if !ok {
				i = j + 1 // "%name:" is removed
				continue
			}
			k := strings.IndexByte(line[j+1:], '%')
			if k < 0 {
				in.unmodelled("rule 2: %%%s: without closing %%", name)
			}
			spec := line[j+1 : j+1+k]
			b.WriteString(in.substring(v, spec, "%"))
			i = j + 1 + k + 1
		}
	}
	return b.String()
}

func stripQuotes(s string) string {
	// %~1 removes surrounding quotes
	if strings.HasPrefix(s, `"`) {
		s = s[1:]
		if strings.HasSuffix(s, `"`) {
			s = s[:len(s)-1]
		}
	}
	return s
}

// substring implements name:~a[,n]; other modifiers (search and replace) are unmodelled.
func (in *interp) substring(v, spec, sigil string) string {
	if !strings.HasPrefix(spec, "~") {
		in.unmodelled("rule 3: %sname:%s%s (search/replace expansion)", sigil, spec, sigil)
	}
	parts := strings.Split(spec[1:], ",")
	if len(parts) > 2 {
		in.unmodelled("rule 3: substring specification %q", spec)
	}
	num := func(s string) int {
		if s == "" {
			in.unmodelled("rule 3: empty number in substring specification %q", spec)
		}
		t := s
		if t[0] == '-' {
			t = t[1:]
		}
		if t == "" || len(t) > 9 {
			in.unmodelled("rule 3: substring specification %q", spec)
		}
		for i := 0; i < len(t); i++ {
			if t[i] < '0' || t[i] > '9' {
				in.unmodelled("rule 3: substring specification %q", spec)
			}
		}
		if len(t) > 1 && t[0] == '0' {
			in.unmodelled("rule 3: leading zero in substring specification %q", spec)
		}
		n, _ := strconv.Atoi(s)
		return n
	}
	L := len(v)
	a := num(parts[0])
	if a < 0 {
		a += L
		if a < 0 {
			a = 0
		}
	}
	if a > L {
		a = L
	}
	end := L
	if len(parts) == 2 {
		n := num(parts[1])
		if n >= 0 {
			end = a + n
			if end > L {
				end = L
			}
		} else {
			end = L + n
			if end < a {
				end = a
			}
		}
	}
	return v[a:end]
}

// forExpand is phase 4: substitution of the active FOR variables.
func (in *interp) forExpand(s string) string {
	if len(in.forOrder) == 0 || strings.IndexByte(s, '%') < 0 {
		return s
	}
	var b strings.Builder
	for i := 0; i < len(s); i++ {
		c := s[i]
		if c == '%' && i+1 < len(s) {
			n := s[i+1]
			if v, ok := in.forVars[n]; ok {
				b.WriteString(v)
				i++
				continue
			}
			if n == '~' {
				in.unmodelled("rule 3: %%~ modifier on a FOR variable")
			}
		}
		b.WriteByte(c)
	}
	return b.String()
}

// delayedExpand is phase 5 for one token (rule 3). It only runs when delayed expansion is
// enabled and the token contains '!'; then carets are processed once more.
func (in *interp) delayedExpand(s string) string {
	if !in.delayed || strings.IndexByte(s, '!') < 0 {
		return s
	}
	var b strings.Builder
	i := 0
	for i < len(s) {
		c := s[i]
		if c == '^' {
			if i+1 < len(s) {
				b.WriteByte(s[i+1])
			}
			i += 2
			continue
		}
		if c != '!' {
			b.WriteByte(c)
			i++
			continue
		}
		// consecutive opening ! collapse into one
		for i+1 < len(s) && s[i+1] == '!' {
			i++
		}
		j := i + 1
		for j < len(s) && s[j] != '!' && s[j] != ':' && s[j] != '\n' {
			j++
		}
		if j < len(s) && s[j] == ':' && j+1 < len(s) && s[j+1] == '!' {
			j++
		}
		switch {
		case j >= len(s) || s[j] == '\n':
			i++ // unpaired !: removed
		case s[j] == '!':
			name := s[i+1 : j]
			if v, ok := in.getVar(name); ok {
				b.WriteString(v)
			}
			i = j + 1
		default: // ':'
			name := s[i+1 : j]
			v, ok := in.getVar(name)
			if !ok {
				i = j + 1 // "!name:" is removed
				continue
			}
			k := strings.IndexByte(s[j+1:], '!')
			if k < 0 {
				in.unmodelled("rule 3: !%s: without closing !", name)
			}
			b.WriteString(in.substring(v, s[j+1:j+1+k], "!"))
			i = j + 1 + k + 1
		}
	}
	return b.String()
}

// expand applies phase 4 and phase 5 to one token.
func (in *interp) expand(s string) string {
	r := in.delayedExpand(in.forExpand(s))
	if len(r) > maxText {
		in.unmodelled("rule 3: expanded text of %d characters approaches cmd.exe's 8191 character limit", len(r))
	}
	return r
}

// maxText: cmd.exe limits command lines and variable values to 8191 characters; what happens
// beyond is not modelled.
const maxText = 8000
